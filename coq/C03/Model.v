(* C03 — model of otto's expression parser (parser/expression.go) over a token
   list.  One non-recursive [step] mirrors the mutually recursive Go functions;
   [self] is the recursive call; [parse fuel] ties the knot.  Loops of the Go
   code (for p.token == ... { left = Binary{...} }) are the hoisted iterators
   [bin_loop], [args_loop], [chain_loop].

   Level numbers are those of Spec.lvl/prec:
     0 parseExpression             1 parseAssignmentExpression
     2 parseConditionalExpression  3..8 parseLogicalOr..parseEquality
     9 parseRelationalExpression (a loop, too)   10..12 parseShift/Additive/Multiplicative
     13 parseUnaryExpression       14 parsePostfixExpression
     15 parseLeftHandSideExpressionAllowCall
     16 parseLeftHandSideExpression   17 parsePrimaryExpression
     18 parseNewExpression
   [noin] is "p.scope.allowIn == false".

   No deviation from the ES5 grammar is left in this part of otto: since /repo
   e62d085 parseRelationalExpression loops like the other binary levels
   (left-associative, 11.8), since 24f7b9d its operands inherit the no-in
   restriction, since 18fccf6 the middle operand of ?: is parsed with allowIn = true.

   One refactoring: Go's AllowCall loop {. [ (} after a primary/new head is
   written as "member level first (loop {. [}), then loop {. [ (}".  The two are
   the same function: the first loop stops exactly when the next token is
   neither . nor [, where the second takes over. *)
From Coq Require Import List Bool Arith ZArith Lia.
From Otto Require Import C03.Spec.
Import ListNotations.

Definition parser := list ptok -> option (expr * list ptok).

Definition is_in (o : binop) : bool := match o with In => true | _ => false end.

(* left := next(); for p.token in level k { left = Binary{tkn, left, next()} }
   [noin]: the loop of parseRelationalExpression does not take `in` when
   p.scope.allowIn is false (`in` belongs to level 9 only, so the test is vacuous
   for the loops of the other levels) *)
Fixpoint bin_loop (n k : nat) (noin : bool) (next : parser) (left : expr) (ts : list ptok) : option (expr * list ptok) :=
  match n with
  | O => None
  | S n =>
    match ts with
    | (_, TOp o) :: ts' =>
        if (if noin && is_in o then false else Nat.eqb (lvl o) k) then
          match next ts' with
          | Some (r, ts'') => bin_loop n k noin next (EBin o left r) ts''
          | None => None
          end
        else Some (left, ts)
    | _ => Some (left, ts)
    end
  end.

(* parseArgumentList after "(" : for p.token != ")" { parseAssignment; if p.token != "," break; next } expect(")") *)
Fixpoint args_loop (n : nat) (next : parser) (ts : list ptok) : option (list expr * list ptok) :=
  match n with
  | O => None
  | S n =>
    match ts with
    | (_, TRP) :: r => Some ([], r)
    | _ =>
      match next ts with
      | Some (e, (_, TOp Comma) :: r) =>
          match args_loop n next r with Some (l, r') => Some (e :: l, r') | None => None end
      | Some (e, (_, TRP) :: r) => Some ([e], r)
      | _ => None
      end
    end
  end.

(* for { switch p.token { case ".": ...; case "[": ...; case "(": (only with calls) ...; default: return left } } *)
Fixpoint chain_loop (n : nat) (call : bool) (pexp pasg : parser) (left : expr) (ts : list ptok)
  : option (expr * list ptok) :=
  match n with
  | O => None
  | S n =>
    match ts with
    | (_, TDot) :: (_, TAtom (AId x)) :: r => chain_loop n call pexp pasg (EDot left x) r
    | (_, TDot) :: _ => None
    | (_, TLB) :: r =>
        match pexp r with
        | Some (i, (_, TRB) :: r') => chain_loop n call pexp pasg (EIdx left i) r'
        | _ => None
        end
    | (_, TLP) :: r =>
        if call then
          match args_loop (S (length r)) pasg r with
          | Some (a, r') => chain_loop n call pexp pasg (ECall left a) r'
          | None => None
          end
        else Some (left, ts)
    | _ => Some (left, ts)
    end
  end.

Definition unop_of_tok (t : tok) : option unop :=
  match t with
  | TOp Add => Some UPlus | TOp Sub => Some UMinus | TNot => Some UNot | TBitNot => Some UBitNot
  | TDelete => Some UDelete | TVoid => Some UVoid | TTypeof => Some UTypeof
  | TInc => Some UInc | TDec => Some UDec
  | _ => None
  end.

Inductive kind := KLoop | KAsg | KCond | KUn | KPost | KCall | KMem | KPrim | KNew | KNone.
Definition kind_of (k : nat) : kind :=
  match k with
  | 0 => KLoop | 1 => KAsg | 2 => KCond
  | 3 | 4 | 5 | 6 | 7 | 8 => KLoop
  | 9 | 10 | 11 | 12 => KLoop
  | 13 => KUn | 14 => KPost | 15 => KCall | 16 => KMem | 17 => KPrim | 18 => KNew
  | _ => KNone
  end.

Definition step (self : nat -> bool -> parser) (k : nat) (noin : bool) (ts : list ptok)
  : option (expr * list ptok) :=
  match kind_of k with
  | KLoop =>
      match self (S k) noin ts with
      | Some (l, r) => bin_loop (S (length r)) k noin (self (S k) noin) l r
      | None => None
      end
  | KAsg =>
      match self 2 noin ts with
      | Some (l, (_, TAsg o) :: r) =>
          if is_ref l then
            match self 1 noin r with Some (e, r') => Some (EAsg o l e, r') | None => None end
          else None                                  (* "invalid left-hand side in assignment" *)
      | x => x
      end
  | KCond =>
      match self 3 noin ts with
      | Some (c, (_, TQ) :: r) =>
          match self 1 false r with                 (* allowIn = true for the middle operand *)
          | Some (a, (_, TColon) :: r') =>
              match self 1 noin r' with Some (b, r'') => Some (ECond c a b, r'') | None => None end
          | _ => None
          end
      | x => x
      end
  | KUn =>
      match ts with
      | (_, t) :: r =>
          match unop_of_tok t with
          | Some o =>
              match self 13 noin r with
              | Some (e, r') =>
                  if is_incdec o then (if is_ref e then Some (EUn o e, r') else None)
                  else Some (EUn o e, r')
              | None => None
              end
          | None => self 14 noin ts
          end
      | [] => self 14 noin ts
      end
  | KPost =>
      match self 15 false ts with
      | Some (e, (nl, TInc) :: r) =>
          if nl then Some (e, (nl, TInc) :: r)       (* p.implicitSemicolon: no line terminator here *)
          else if is_ref e then Some (EPost true e, r) else None
      | Some (e, (nl, TDec) :: r) =>
          if nl then Some (e, (nl, TDec) :: r)
          else if is_ref e then Some (EPost false e, r) else None
      | x => x
      end
  | KCall =>
      match self 16 false ts with
      | Some (l, r) => chain_loop (S (length r)) true (self 0 false) (self 1 false) l r
      | None => None
      end
  | KMem =>
      match (match ts with (_, TNew) :: _ => self 18 false ts | _ => self 17 false ts end) with
      | Some (l, r) => chain_loop (S (length r)) false (self 0 false) (self 1 false) l r
      | None => None
      end
  | KPrim =>
      match ts with
      | (_, TAtom a) :: r => Some (EAtom a, r)
      | (_, TLP) :: r =>
          match self 0 false r with
          | Some (e, (_, TRP) :: r') => Some (e, r')
          | _ => None
          end
      | _ => None
      end
  | KNew =>
      match ts with
      | (_, TNew) :: r =>
          match self 16 false r with
          | Some (callee, (_, TLP) :: r') =>
              match args_loop (S (length r')) (self 1 false) r' with
              | Some (a, r'') => Some (ENew callee a, r'')
              | None => None
              end
          | Some (callee, r') => Some (ENew callee [], r')
          | None => None
          end
      | _ => None
      end
  | KNone => None
  end.

Fixpoint parse (fuel : nat) (k : nat) (noin : bool) (ts : list ptok) {struct fuel}
  : option (expr * list ptok) :=
  match fuel with
  | O => None
  | S f => step (parse f) k noin ts
  end.

(* a whole expression: everything consumed *)
Definition parse_expr (fuel : nat) (ts : list ptok) : option expr :=
  match parse fuel 0 false ts with
  | Some (e, []) => Some e
  | _ => None
  end.
