(* C03 — literal tokens carry the value ES5 defines.
   Spec: ES5 7.8.3 (MV of a numeric literal, rounded to the nearest double,
   ties to even, 8.5) with B.1.1 legacy octal; ES5 7.8.4 (SV of a string
   literal) with B.1.2 octal escapes.  Model: otto's parseNumberLiteral and
   parseStringLiteral (parser/lexer.go) with their deviations.
   Characters are code points in Z; string values are UTF-16 code units. *)
From Coq Require Import List Bool ZArith Lia.
From Otto Require Import Common.Double.
Import ListNotations.
Open Scope Z_scope.

(* ---------- rounding a non-negative rational n/d to binary64, result as bit pattern ---------- *)
Definition enc_me (m e : Z) : Z :=          (* value m * 2^e, 0 <= m <= 2^53, e >= -1074 *)
  let '(m, e) := if m =? 2 ^ 53 then (2 ^ 52, e + 1) else (m, e) in
  if m <? 2 ^ 52 then m                       (* subnormal (e = -1074) or zero *)
  else if 2047 <=? e + 1075 then pinf_bits
  else (e + 1075) * 2 ^ 52 + (m - 2 ^ 52).

Definition round_rat (n d : Z) : Z :=
  if n <=? 0 then 0 else
  let e0 := Z.log2 n - Z.log2 d - 52 in
  let q e := if 0 <=? e then n / (d * 2 ^ e) else (n * 2 ^ (- e)) / d in
  let e := if q e0 <? 2 ^ 52 then e0 - 1 else if 2 ^ 53 <=? q e0 then e0 + 1 else e0 in
  let e := Z.max e (-1074) in
  let num := if 0 <=? e then n else n * 2 ^ (- e) in
  let den := if 0 <=? e then d * 2 ^ e else d in
  let q := num / den in
  let r := num mod den in
  let q' := if 2 * r <? den then q else if den <? 2 * r then q + 1 else if Z.even q then q else q + 1 in
  enc_me q' e.

(* ---------- characters ---------- *)
Definition is_dig (c : Z) : bool := (48 <=? c) && (c <=? 57).
Definition is_oct (c : Z) : bool := (48 <=? c) && (c <=? 55).
Definition hexval (c : Z) : option Z :=
  if is_dig c then Some (c - 48)
  else if (97 <=? c) && (c <=? 102) then Some (c - 87)
  else if (65 <=? c) && (c <=? 70) then Some (c - 55)
  else None.

Fixpoint radix_val (b acc : Z) (l : list Z) : option Z :=
  match l with
  | [] => Some acc
  | c :: l' => match hexval c with
               | Some v => if v <? b then radix_val b (acc * b + v) l' else None
               | None => None
               end
  end.

Fixpoint take_digits (l : list Z) : list Z * list Z :=
  match l with
  | c :: l' => if is_dig c then let '(a, b) := take_digits l' in (c :: a, b) else ([], l)
  | [] => ([], [])
  end.

Inductive numform := FHex (n : Z) | FOct (n : Z) (as_decimal : Z) | FDec (num den : Z).

(* the literal classified by the ES5 grammar; None = not a NumericLiteral *)
Definition num_form (s : list Z) : option numform :=
  match s with
  | 48 :: x :: hs =>
      if (x =? 120) || (x =? 88) then
        match hs with [] => None | _ => option_map FHex (radix_val 16 0 hs) end
      else if forallb is_oct (x :: hs) then
        match radix_val 8 0 (x :: hs), radix_val 10 0 (x :: hs) with
        | Some n, Some d => Some (FOct n d)
        | _, _ => None
        end
      else if is_dig x then None               (* 08, 012.5 ... : not in the grammar *)
      else None
  | _ => None
  end.

Definition dec_form (s : list Z) : option numform :=
  let '(ip, r1) := take_digits s in
  let '(dot, (fp, r2)) := match r1 with 46 :: r => (true, take_digits r) | _ => (false, ([], r1)) end in
  if (match ip with [] => true | _ => false end) && (match fp with [] => true | _ => false end) then None else
  let ex : option Z :=
    match r2 with
    | [] => Some 0
    | c :: r =>
        if (c =? 101) || (c =? 69) then
          let '(neg, r') := match r with 45 :: r' => (true, r') | 43 :: r' => (false, r') | _ => (false, r) end in
          match r' with
          | [] => None
          | _ => match radix_val 10 0 r' with Some v => Some (if neg then - v else v) | None => None end
          end
        else None
    end in
  match radix_val 10 0 (ip ++ fp), ex with
  | Some m, Some x =>
      let sh := x - Z.of_nat (length fp) in
      Some (if 0 <=? sh then FDec (m * 10 ^ sh) 1 else FDec m (10 ^ (- sh)))
  | _, _ => None
  end.

Definition classify (s : list Z) : option numform :=
  match s with
  | 48 :: x :: _ =>
      if (x =? 120) || (x =? 88) || is_dig x then num_form s else dec_form s
  | _ => dec_form s
  end.

(* ES5 7.8.3: the Number value for MV *)
Definition num_spec (s : list Z) : option Z :=
  match classify s with
  | Some (FHex n) => Some (round_rat n 1)
  | Some (FOct n _) => Some (round_rat n 1)
  | Some (FDec n d) => Some (round_rat n d)
  | None => None
  end.

(* otto: strconv.ParseInt(literal, 0, 64) first (exact below 2^63, then converted
   to a double on use); else strconv.ParseFloat, which reads a legacy-octal digit
   string as DECIMAL and rejects hex; else, for hex, value = value*16 + digit in
   double arithmetic, one rounding per digit *)
Fixpoint hex_accum (v : Z) (l : list Z) : Z :=
  match l with
  | [] => v
  | c :: l' => match hexval c with Some dgt => hex_accum (round_to_double (v * 16 + dgt)) l' | None => v end
  end.

Definition num_model (s : list Z) : option Z :=
  match classify s with
  | Some (FHex n) =>
      if n <? 2 ^ 63 then Some (round_rat n 1)
      else Some (round_rat (hex_accum 0 (skipn 2 s)) 1)
  | Some (FOct n d) => if n <? 2 ^ 63 then Some (round_rat n 1) else Some (round_rat d 1)
  | Some (FDec n d) => Some (round_rat n d)
  | None => None
  end.

Definition num_in_range (s : list Z) : bool :=
  match classify s with
  | Some (FHex n) | Some (FOct n _) => n <? 2 ^ 63
  | Some (FDec _ _) => true
  | None => false
  end.

(* ---------- string literals ---------- *)
Definition units_of_cp (c : Z) : list Z :=
  if c <? 65536 then [c] else [55296 + (c - 65536) / 1024; 56320 + (c - 65536) mod 1024].

Definition is_lt (c : Z) : bool := (c =? 10) || (c =? 13) || (c =? 8232) || (c =? 8233).

Definition hex_n (l : list Z) : option Z := radix_val 16 0 l.

Definition single_escape (c : Z) : option Z :=
  if c =? 98 then Some 8 else if c =? 116 then Some 9 else if c =? 110 then Some 10
  else if c =? 118 then Some 11 else if c =? 102 then Some 12 else if c =? 114 then Some 13
  else if (c =? 34) || (c =? 39) || (c =? 92) then Some c else None.

(* SV of the characters between the quotes (7.8.4, B.1.2); [n] is fuel >= length *)
Fixpoint sv_spec (n : nat) (s : list Z) : option (list Z) :=
  match n with
  | O => match s with [] => Some [] | _ => None end
  | S n =>
    let cons u r := match sv_spec n r with Some l => Some (u ++ l) | None => None end in
    match s with
    | [] => Some []
    | 92 :: c :: r =>
        if is_lt c then
          (if c =? 13 then match r with 10 :: r' => cons [] r' | _ => cons [] r end else cons [] r)
        else if c =? 120 then
          match r with a :: b :: r' => match hex_n [a; b] with Some v => cons [v] r' | None => None end | _ => None end
        else if c =? 117 then
          match r with
          | a :: b :: c' :: d :: r' => match hex_n [a; b; c'; d] with Some v => cons [v] r' | None => None end
          | _ => None
          end
        else if is_oct c then
          (* longest OctalEscapeSequence: up to 3 digits when the first is 0..3, else up to 2 *)
          match r with
          | d1 :: r1 =>
              if is_oct d1 then
                match r1 with
                | d2 :: r2 =>
                    if is_oct d2 && (c <=? 51) then cons [((c - 48) * 8 + (d1 - 48)) * 8 + (d2 - 48)] r2
                    else cons [(c - 48) * 8 + (d1 - 48)] r1
                | [] => cons [(c - 48) * 8 + (d1 - 48)] r1
                end
              else if is_dig d1 && (c =? 48) then None       (* \0 followed by 8 or 9 *)
              else cons [c - 48] r
          | [] => cons [c - 48] r
          end
        else if is_dig c then None                              (* \8 \9 *)
        else match single_escape c with
             | Some v => cons [v] r
             | None => cons (units_of_cp c) r                  (* NonEscapeCharacter *)
             end
    | [92] => None
    | c :: r => if is_lt c then None else cons (units_of_cp c) r
    end
  end.

(* otto's parseStringLiteral (as of /repo 96a7b64: an octal escape starting with 4..7
   takes two digits, backslash + LS/PS is a LineContinuation).  One deviation is left;
   the boolean switches it off (false = the code as it is):
     fs: an escape \uD800..\uDFFF is written with WriteRune, which turns a surrogate into U+FFFD *)
Section SvModel.
  Variable fs : bool.
  Definition write_rune (v : Z) : list Z :=
    if negb fs && (55296 <=? v) && (v <=? 57343) then [65533] else units_of_cp v.

  Fixpoint sv_gen (n : nat) (s : list Z) : option (list Z) :=
    match n with
    | O => match s with [] => Some [] | _ => None end
    | S n =>
      let cons u r := match sv_gen n r with Some l => Some (u ++ l) | None => None end in
      match s with
      | [] => Some []
      | 92 :: c :: r =>
          if (c =? 8232) || (c =? 8233) then cons [] r           (* LineContinuation *)
          else if 128 <=? c then cons (units_of_cp c) r          (* "\" + non-ASCII: the character *)
          else if c =? 13 then match r with 10 :: r' => cons [] r' | _ => cons [] r end
          else if c =? 10 then cons [] r
          else if c =? 120 then
            match r with a :: b :: r' => match hex_n [a; b] with Some v => cons (write_rune v) r' | None => None end | _ => None end
          else if c =? 117 then
            match r with
            | a :: b :: c' :: d :: r' => match hex_n [a; b; c'; d] with Some v => cons (write_rune v) r' | None => None end
            | _ => None
            end
          else if is_oct c then
            (* value = first digit, then up to two more octal digits (one more when the first is 4..7) *)
            match r with
            | d1 :: r1 =>
                if is_oct d1 then
                  match r1 with
                  | d2 :: r2 =>
                      if is_oct d2 && (c <=? 51)
                      then cons (write_rune (((c - 48) * 8 + (d1 - 48)) * 8 + (d2 - 48))) r2
                      else cons (write_rune ((c - 48) * 8 + (d1 - 48))) r1
                  | [] => cons (write_rune ((c - 48) * 8 + (d1 - 48))) r1
                  end
                else cons [c - 48] r
            | [] => cons [c - 48] r
            end
          else match single_escape c with
               | Some v => cons [v] r
               | None => cons (units_of_cp c) r
               end
      | [92] => None
      | c :: r => cons (units_of_cp c) r
      end
    end.
End SvModel.

Definition sv_model := sv_gen false.

(* a code unit that is not a surrogate *)
Definition nonsurr (u : Z) : Prop := u < 55296 \/ 57343 < u.

Definition sv (f : nat -> list Z -> option (list Z)) (s : list Z) := f (S (length s)) s.
