(* C13 — Math and global utility functions honour ES5 15.8 and 15.1.
   Only statements here; proofs are in C13/Proofs*.v.
   Spec* = ES5 15.8.2, 15.1.2.4-5, 15.1.3, B.2.1-2 transcribed over bit patterns
   (Z) and lists of UTF-16 code units; Model* = otto's wrappers and coders.
   The correspondence run ties otto to both on every generated call. *)
From Coq Require Import ZArith List Bool.
From Otto Require Import Common.Double C13.SpecMath C13.ModelMath C13.SpecURI C13.ModelURI
     C13.ProofsMath C13.ProofsURI.
Import ListNotations.
Open Scope Z_scope.

(* ---- 15.1.3: decode (encode s) = s for EVERY well-formed code unit string ---- *)
Theorem C13_uri_roundtrip : forall s, Forall unit_range s -> well_formed s = true ->
  (exists e, encodeURIComponent_spec s = Some e /\ decodeURIComponent_spec e = Some s) /\
  (exists e, encodeURI_spec s = Some e /\ decodeURI_spec e = Some s).
Proof. intros s H W. split; [exact (component_roundtrip s H W) | exact (uri_roundtrip s H W)]. Qed.
Print Assumptions C13_uri_roundtrip.

(* URIError exactly on the strings containing a lone surrogate *)
Theorem C13_uri_error_iff_lone_surrogate : forall s,
  (encodeURI_spec s = None <-> well_formed s = false) /\
  (encodeURIComponent_spec s = None <-> well_formed s = false).
Proof. exact encode_error_iff. Qed.
Print Assumptions C13_uri_error_iff_lone_surrogate.

(* otto's encoder (pairing loop, UTF-8, regexp class, url.QueryEscape) IS the ES5 Encode,
   on every list of code units, error cases included *)
Theorem C13_encode_model_is_spec : forall s, Forall (fun c => 0 <= c) s ->
  encode_model keep_uri s = encodeURI_spec s /\ encode_model keep_comp s = encodeURIComponent_spec s.
Proof. exact encode_model_is_spec. Qed.
Print Assumptions C13_encode_model_is_spec.

(* the characters otto leaves unescaped are the 15.1.3 unescaped sets *)
Theorem C13_unreserved_sets : forall c,
  unesc_uri c = (keep_uri c || query_unreserved c) /\ unesc_comp c = (keep_comp c || query_unreserved c).
Proof. exact sets_agree. Qed.
Print Assumptions C13_unreserved_sets.

(* B.2.1-2: unescape inverts escape on EVERY code unit string (surrogates included) *)
Theorem C13_escape_roundtrip : forall s, Forall unit_range s -> unescape_spec (escape_spec s) = s.
Proof. exact escape_roundtrip. Qed.
Print Assumptions C13_escape_roundtrip.

Theorem C13_escape_output_alphabet : forall s c, Forall unit_range s -> In c (escape_spec s) ->
  esc_unescaped c = true \/ c = 37 \/ c = 117.
Proof. exact escape_output_chars. Qed.
Print Assumptions C13_escape_output_alphabet.

(* ---- 15.8.2 special values ---- *)
(* every ES5 rule for pow is honoured by otto's pre-check over math.Pow's special cases
   (all cells: the pow(1, NaN) exception went with commit d8f8960) *)
Theorem C13_pow_special_values : forall cx cy r,
  pow_tbl cx cy = Some r -> otto_pow_tbl cx cy = Some r.
Proof. exact pow_table_honoured. Qed.
Print Assumptions C13_pow_special_values.

Theorem C13_pow_extra_cells : forall cx cy r,
  pow_tbl cx cy = None -> otto_pow_tbl cx cy = Some r -> r = ROne false /\ cx = CFin false KOne.
Proof. exact pow_table_extra. Qed.
Print Assumptions C13_pow_extra_cells.

(* NaN pre-checks, math.Atan2's table and the Copysign of commit efc7ec6 give the 15.8.2.5 table *)
Theorem C13_atan2_special_values : forall cy cx, otto_atan2_tbl cy cx = atan2_tbl cy cx.
Proof. exact atan2_table_eq. Qed.
Print Assumptions C13_atan2_special_values.

(* ---- max / min: otto's argument-count switch and early-exit loop compute the
   15.8.2.11-12 fold, for every argument list ---- *)
Theorem C13_max_min_model_is_spec : forall l, Forall valid_bits l ->
  max_model l = max_spec l /\ min_model l = min_spec l.
Proof. intros l H. split; [exact (max_model_is_spec l H) | exact (min_model_is_spec l H)]. Qed.
Print Assumptions C13_max_min_model_is_spec.

(* +0 is larger than -0 in every argument order *)
Theorem C13_max_min_zero : forall l, Forall valid_bits l -> existsb is_nan l = false ->
  (In 0 l -> (forall x, In x l -> key x <= 0) -> max_spec l = 0) /\
  (In nzero_bits l -> (forall x, In x l -> -1 <= key x) -> min_spec l = nzero_bits).
Proof. intros l HV Hn. split; [exact (max_zero l HV Hn) | exact (min_zero l HV Hn)]. Qed.
Print Assumptions C13_max_min_zero.

Theorem C13_max_min_nan : forall l, Forall valid_bits l ->
  (is_nan (max_spec l) = true <-> existsb is_nan l = true) /\
  (is_nan (min_spec l) = true <-> existsb is_nan l = true).
Proof. exact max_nan_iff. Qed.
Print Assumptions C13_max_min_nan.

(* the maximum is one of the arguments (or -inf) and dominates all of them *)
Theorem C13_max_is_largest : forall l,
  let m := fold_left max_step l ninf_bits in
  (m = ninf_bits \/ In m l) /\ (forall x, In x l -> key x <= key m).
Proof. intro l. destruct (fold_max_char l ninf_bits) as (A & _ & B). split; assumption. Qed.
Print Assumptions C13_max_is_largest.

(* ---- round ---- *)
(* 15.8.2.15 picks THE integer n with n - 1/2 <= x < n + 1/2, for every rational x = S/d *)
Theorem C13_round_characterised : forall S d, 0 < d ->
  (let n := q_round S d in 2 * n * d - d <= 2 * S < 2 * n * d + d) /\
  (forall n, 2 * n * d - d <= 2 * S < 2 * n * d + d -> n = q_round S d).
Proof. intros S d H. split; [exact (q_round_char S d H) | intros n; exact (q_round_unique S d n H)]. Qed.
Print Assumptions C13_round_characterised.

(* otto's floor-and-compare (commit 01da0fa) is the ES5 result: for every rational, and on
   every bit pattern (NaN, infinities, zeros and their signs included) *)
Theorem C13_round_model_is_spec :
  (forall S d, 0 < d -> q_round_model S d = q_round S d) /\ (forall b, round_model b = round_spec b).
Proof. split; [exact q_round_model_eq | exact round_model_is_spec]. Qed.
Print Assumptions C13_round_model_is_spec.

(* otto's escape (with '@' left alone, commit d183de8) is B.2.1 on every string without surrogates *)
Theorem C13_escape_model_is_spec : forall s,
  Forall (fun c => 0 <= c < 0x10000) s -> Forall (fun c => is_surr c = false) s ->
  escape_model s = escape_spec s.
Proof. exact escape_model_is_spec. Qed.
Print Assumptions C13_escape_model_is_spec.

(* otto's unescape (unit collecting loop of commit 6dc8dfa) is B.2.2 on every text without
   surrogates (non-ASCII characters included) whose B.2.2 result is well-formed ... *)
Theorem C13_unescape_model_is_spec : forall l,
  Forall (fun c => c < 0x10000) l -> Forall (fun c => is_surr c = false) l ->
  Forall unit_range (unescape_spec l) -> well_formed (unescape_spec l) = true ->
  unescape_model l = unescape_spec l.
Proof. exact unescape_model_is_spec. Qed.
Print Assumptions C13_unescape_model_is_spec.

(* ... hence otto's unescape inverts escape on EVERY well-formed string: surrogate pairs are restored *)
Theorem C13_unescape_model_inverts_escape : forall s, Forall unit_range s -> well_formed s = true ->
  unescape_model (escape_spec s) = s.
Proof. exact unescape_model_escape. Qed.
Print Assumptions C13_unescape_model_inverts_escape.

(* ---- otto's deviations, as refutations of "model = spec" with concrete witnesses ---- *)
Theorem C13_tonumber_skipped_refuted : exists fn l, conv_model fn l <> conv_spec fn l.
Proof. exists 10, [one_bits; nan_bits; one_bits]. vm_compute. discriminate. Qed.
Print Assumptions C13_tonumber_skipped_refuted.

Theorem C13_escape_astral_refuted : exists s, well_formed s = true /\ escape_model s <> escape_spec s.
Proof. exists [0xD83D; 0xDE00]. split; [reflexivity | vm_compute; discriminate]. Qed.
Print Assumptions C13_escape_astral_refuted.

(* what is left of the unescape deviations: an UNPAIRED surrogate escape cannot be
   returned in a Go string (class 8, with the lone surrogate arguments) *)
Theorem C13_unescape_lone_escape_refuted : exists s, well_formed s = true /\ unescape_model s <> unescape_spec s.
Proof. exists [37; 117; 68; 56; 48; 48]. split; [reflexivity | vm_compute; discriminate]. Qed.
Print Assumptions C13_unescape_lone_escape_refuted.

Theorem C13_lone_surrogate_refuted : exists s, decode_model false s <> decodeURIComponent_spec s.
Proof. exists [0xD800]. vm_compute. discriminate. Qed.
Print Assumptions C13_lone_surrogate_refuted.

(* ---- non-vacuity: the hypotheses above are met by concrete values ---- *)
Example C13_roundtrip_hyp_met :
  Forall unit_range [97; 32; 0xD83D; 0xDE00; 0x20AC; 233; 59] /\
  well_formed [97; 32; 0xD83D; 0xDE00; 0x20AC; 233; 59] = true /\
  option_map decodeURI_spec (encodeURI_spec [97; 32; 0xD83D; 0xDE00; 0x20AC; 233; 59])
  = Some (Some [97; 32; 0xD83D; 0xDE00; 0x20AC; 233; 59]).
Proof. split; [repeat constructor; vm_compute; try discriminate; reflexivity | split; reflexivity]. Qed.

Example C13_lone_surrogate_is_error : encodeURI_spec [97; 0xDC00] = None /\ well_formed [97; 0xDC00] = false.
Proof. split; reflexivity. Qed.

Example C13_pow_hyp_met : pow_tbl (CInf true) (CFin true KOdd) = Some (RZero true).
Proof. reflexivity. Qed.

Example C13_max_zero_hyp_met :
  Forall valid_bits [nzero_bits; 0; nzero_bits] /\ existsb is_nan [nzero_bits; 0; nzero_bits] = false /\
  In 0 [nzero_bits; 0; nzero_bits] /\ (forall x, In x [nzero_bits; 0; nzero_bits] -> key x <= 0) /\
  max_model [nzero_bits; 0; nzero_bits] = 0.
Proof.
  split; [repeat constructor; vm_compute; try discriminate; reflexivity |].
  split; [reflexivity |]. split; [cbn; auto |]. split; [| reflexivity].
  intros x [<- | [<- | [<- | []]]]; vm_compute; discriminate.
Qed.

(* the former witnesses of the repaired defects now get the ES5 result from the model *)
Example C13_round_regressions :
  round_model 0x3FDFFFFFFFFFFFFF = 0 /\ round_model 0x4330000000000001 = 0x4330000000000001 /\
  round_model 0xC330000000000001 = 0xC330000000000001 /\ round_model 0xBFE0000000000000 = nzero_bits /\
  q_round_model 5 2 = 3 /\ q_round_model (-5) 2 = -2.
Proof. vm_compute. repeat split; reflexivity. Qed.

Example C13_pow_one_nan : otto_pow_tbl (CFin false KOne) CNaN = Some RNaN.
Proof. reflexivity. Qed.

Example C13_escape_model_hyp_met :
  Forall (fun c => 0 <= c < 0x10000) [64; 233; 0x100; 47] /\ Forall (fun c => is_surr c = false) [64; 233; 0x100; 47] /\
  escape_model [64; 233; 0x100; 47] = [64; 37; 69; 57; 37; 117; 48; 49; 48; 48; 47].
Proof. split; [repeat constructor; vm_compute; try discriminate; reflexivity | split; [repeat constructor | reflexivity]]. Qed.

Example C13_escape_hyp_met :
  unescape_spec (escape_spec [64; 233; 0x100; 0xD83D; 0xDE00; 37]) = [64; 233; 0x100; 0xD83D; 0xDE00; 37].
Proof. reflexivity. Qed.

(* former witnesses of the repaired unescape defects, and a non-ASCII text meeting the hypotheses *)
Example C13_unescape_regressions :
  unescape_model [233] = [233] /\
  unescape_model [37; 117; 68; 56; 51; 68; 37; 117; 68; 69; 48; 48] = [0xD83D; 0xDE00] /\
  unescape_model (escape_spec [64; 233; 0xD83D; 0xDE00; 37]) = [64; 233; 0xD83D; 0xDE00; 37] /\
  well_formed (unescape_spec [233; 37; 52; 49; 0x20AC]) = true /\
  unescape_model [233; 37; 52; 49; 0x20AC] = [233; 65; 0x20AC].
Proof. vm_compute. repeat split; reflexivity. Qed.
