(* C13 — Math and global utility functions honour ES5 15.8 and 15.1.
   Only statements here; proofs are in C13/Proofs*.v. *)
From Coq Require Import ZArith List Bool.
From Otto Require Import Common.Double C13.SpecMath C13.ModelMath C13.SpecURI C13.ModelURI C13.ProofsMath.
Import ListNotations.
Open Scope Z_scope.

Theorem C13_pow_special_values : forall cx cy r,
  pow_tbl cx cy = Some r ->
  otto_pow_tbl cx cy = Some r \/ (cx = CFin false KOne /\ cy = CNaN).
Proof. exact pow_table_honoured. Qed.
Print Assumptions C13_pow_special_values.

Theorem C13_atan2_special_values : forall cy cx, otto_atan2_tbl cy cx = atan2_tbl cy cx.
Proof. exact atan2_table_eq. Qed.
Print Assumptions C13_atan2_special_values.
