(* C03 — the parser builds the tree the ES5 grammar dictates.
   Only statements here; proofs are in C03/Proofs*.v.  Spec = the ES5 expression
   grammar as a precedence table + printer (C03/Spec.v); Model = otto's
   precedence-climbing parser (C03/Model.v).  The correspondence run ties
   parser.ParseFile to both on every generated rendering. *)
From Coq Require Import List Bool Arith ZArith.
From Otto Require Import C03.Spec C03.Model C03.Proofs C03.ProofsLayout C03.Lit C03.ProofsLit.
Import ListNotations.
Open Scope nat_scope.

(* core: for EVERY well-formed expression tree, with any amount of redundant
   parentheses anywhere, the parser model applied to the rendering returns exactly
   the tree the grammar assigns — all binary (relational ones included, left-
   associative since /repo e62d085), unary, postfix, assignment, conditional and comma
   operators, member/call/new chains, argument lists *)
Theorem C03_expr_roundtrip : forall e, wf e = true ->
  exists f0, forall f, f0 <= f -> parse_expr f (print 0 e) = Some (strip e).
Proof. exact expr_roundtrip. Qed.
Print Assumptions C03_expr_roundtrip.

(* the same at every level of the ladder, under every parenthesisation level the
   printer may be asked for, in every context that does not continue the expression *)
Theorem C03_expr_roundtrip_in_context : forall e q p rest, wf e = true ->
  q <= p -> p <= 17 -> stops q rest = true ->
  exists f0, forall f, f0 <= f -> parse f q false (print p e ++ rest) = Some (strip e, rest).
Proof. exact expr_roundtrip_ctx. Qed.
Print Assumptions C03_expr_roundtrip_in_context.

(* the tree is insensitive to redundant parentheses *)
Theorem C03_paren_insensitive : forall e1 e2,
  wf e1 = true -> wf e2 = true -> strip e1 = strip e2 ->
  exists f0, forall f, f0 <= f -> parse_expr f (print 0 e1) = parse_expr f (print 0 e2).
Proof. exact paren_insensitive. Qed.
Print Assumptions C03_paren_insensitive.

(* ... and to white space, comments and line terminators: every token list that
   carries the tokens of the rendering, with a line terminator in front of any
   token except in front of a postfix ++ / -- (R keeps the flags of ++ and --
   tokens, which Spec.print sets to "none"), parses to the tree of the grammar *)
Theorem C03_layout_roundtrip : forall e ts, wf e = true -> R (print 0 e) ts ->
  exists f0, forall f, f0 <= f -> parse_expr f ts = Some (strip e).
Proof. exact layout_roundtrip. Qed.
Print Assumptions C03_layout_roundtrip.

(* in general: the parser looks at line terminators only in front of ++ and -- *)
Theorem C03_layout_insensitive : forall f k noin ts ts', R ts ts' ->
  match parse f k noin ts, parse f k noin ts' with
  | Some (e, r), Some (e', r') => e = e' /\ R r r'
  | None, None => True
  | _, _ => False
  end.
Proof. exact layout_insensitive. Qed.
Print Assumptions C03_layout_insensitive.

(* literal tokens carry the value ES5 defines.  Numbers: every NumericLiteral
   (7.8.3, B.1.1) whose hex / legacy-octal value is below 2^63, and every decimal
   literal, gets the MV rounded once to the nearest double; a literal has a value in
   otto exactly when it has one in ES5 *)
Theorem C03_number_literal_value : forall s, num_in_range s = true -> num_model s = num_spec s.
Proof. exact num_model_in_range. Qed.
Print Assumptions C03_number_literal_value.

Theorem C03_number_literal_defined : forall s, num_model s = None <-> num_spec s = None.
Proof. exact num_model_defined. Qed.
Print Assumptions C03_number_literal_defined.

Theorem C03_number_hex_2p63_refuted : exists s, num_model s <> num_spec s.
Proof. exact hex_2p63_refuted. Qed.
Print Assumptions C03_number_hex_2p63_refuted.

Theorem C03_number_octal_2p63_refuted : exists s, num_model s <> num_spec s.
Proof. exact octal_2p63_refuted. Qed.
Print Assumptions C03_number_octal_2p63_refuted.

(* Strings: otto's parseStringLiteral (as of /repo 96a7b64) computes the SV of 7.8.4 /
   B.1.2 for EVERY string-literal body whose value holds no surrogate code unit: all
   escapes, octal escapes of every length, every LineContinuation (LF, CR, CRLF, LS, PS) *)
Theorem C03_string_literal_value : forall n s v,
  sv_spec n s = Some v -> Forall nonsurr v -> sv_model n s = Some v.
Proof. exact sv_model_is_spec. Qed.
Print Assumptions C03_string_literal_value.

(* and with the one remaining deviation (WriteRune of a surrogate escape) switched off, for
   every body at all: nothing else separates it from ES5 *)
Theorem C03_string_literal_value_modulo_surrogates : forall n s v,
  sv_spec n s = Some v -> sv_gen true n s = Some v.
Proof. exact sv_repaired_is_spec. Qed.
Print Assumptions C03_string_literal_value_modulo_surrogates.

Theorem C03_string_surrogate_escape_refuted : exists s, sv sv_model s <> sv sv_spec s.
Proof. exact surrogate_escape_refuted. Qed.
Print Assumptions C03_string_surrogate_escape_refuted.

(* non-vacuity: a tree that meets the hypotheses and exercises every construct *)
Example C03_roundtrip_hyp_met :
  let a := EAtom (AId 1%Z) in let b := EAtom (AId 2%Z) in let c := EAtom (ANum 4607182418800017408%Z) in
  let e := EAsg AAdd (EDot a 5%Z)
             (ECond (EBin Lt a (EParen (EBin Comma b c)))
                    (ECall (EDot (ENew (EDot a 1%Z) [b; c]) 7%Z) [EBin In a b; EUn UTypeof (EPost true (EIdx a b))])
                    (EBin Sub (EBin Sub a (EParen (EBin Sub b c))) (EBin Mul (EUn UMinus a) (EUn UInc (EParen b))))) in
  wf e = true /\ parse_expr 200 (print 0 e) = Some (strip e).
Proof. vm_compute. auto. Qed.

(* a layout with line terminators that meets R, and literals that meet the hypotheses *)
Example C03_layout_hyp_met :
  let e := EBin Add (EPost true (EAtom (AId 1%Z))) (EUn UInc (EAtom (AId 2%Z))) in
  let ts := [(true, TAtom (AId 1%Z)); (false, TInc); (true, TOp Add); (false, TInc); (true, TAtom (AId 2%Z))] in
  wf e = true /\ parse_expr 100 ts = Some (strip e).
Proof. vm_compute. auto. Qed.
Example C03_number_hyp_met :   (* 0x7fffffffffffffff, 0.1 *)
  num_in_range [48;120;55;102;102;102;102;102;102;102;102;102;102;102;102;102;102;102]%Z = true /\
  num_spec [48;46;49]%Z = Some 4591870180066957722%Z.
Proof. vm_compute. auto. Qed.
(* instances in the regions repaired by /repo 96a7b64: "\400" "\777", backslash + LS / PS *)
Example C03_string_octal_escape_value :
  sv sv_model [92;52;48;48]%Z = Some [32;48]%Z /\ sv sv_model [92;55;55;55]%Z = Some [63;55]%Z.
Proof. exact octal_escape_value. Qed.
Example C03_string_lsps_continuation_value :
  sv sv_model [97;92;8232;98]%Z = Some [97;98]%Z /\ sv sv_model [92;8233]%Z = Some []%Z.
Proof. exact lsps_continuation_value. Qed.
Example C03_string_hyp_met :   (* a\x41\u0042\103\0\<LF>\q *)
  sv sv_spec [97;92;120;52;49;92;117;48;48;52;50;92;49;48;51;92;48;92;10;92;113]%Z = Some [97;65;66;67;0;113]%Z.
Proof. vm_compute. reflexivity. Qed.
Example C03_string_guard_met :
  Forall nonsurr [97;65;66;67;0;113]%Z /\
  sv sv_model [97;92;120;52;49;92;117;48;48;52;50;92;49;48;51;92;48;92;10;92;113]%Z = Some [97;65;66;67;0;113]%Z.
Proof. split; [repeat constructor; vm_compute; auto|vm_compute; reflexivity]. Qed.
(* the no-in flag after /repo 18fccf6 (ES5 11.12): inside a for initialiser the middle
   operand of ?: takes `in`, the last operand still leaves it to the for-in header *)
Example C03_noin_conditional_model :
  let a := TAtom (AId 1%Z) in let b := TAtom (AId 2%Z) in let c := TAtom (AId 3%Z) in let d := TAtom (AId 4%Z) in
  parse 100 0 true [(false, a); (false, TQ); (false, b); (false, TOp In); (false, c); (false, TColon); (false, d)]
    = Some (ECond (EAtom (AId 1%Z)) (EBin In (EAtom (AId 2%Z)) (EAtom (AId 3%Z))) (EAtom (AId 4%Z)), []) /\
  parse 100 0 true [(false, a); (false, TQ); (false, b); (false, TColon); (false, c); (false, TOp In); (false, d)]
    = Some (ECond (EAtom (AId 1%Z)) (EAtom (AId 2%Z)) (EAtom (AId 3%Z)), [(false, TOp In); (false, d)]).
Proof. vm_compute. auto. Qed.

(* the no-in flag after /repo 24f7b9d (ES5 11.8 RelationalExpressionNoIn): inside a for
   initialiser the right operand of < leaves `in` to the for-in header; in brackets it does not *)
Example C03_noin_relational_model :
  let a := TAtom (AId 1%Z) in let b := TAtom (AId 2%Z) in let c := TAtom (AId 3%Z) in
  parse 100 1 true [(false, a); (false, TOp Lt); (false, b); (false, TOp In); (false, c)]
    = Some (EBin Lt (EAtom (AId 1%Z)) (EAtom (AId 2%Z)), [(false, TOp In); (false, c)]) /\
  parse 100 1 true [(false, a); (false, TOp Lt); (false, TLP); (false, b); (false, TOp In); (false, c); (false, TRP)]
    = Some (EBin Lt (EAtom (AId 1%Z)) (EBin In (EAtom (AId 2%Z)) (EAtom (AId 3%Z))), []).
Proof. vm_compute. auto. Qed.

(* relational chains (the region of the repaired finding C03-relational-assoc): a < b < c is
   (a < b) < c; a < (b instanceof c) keeps its parentheses *)
Example C03_relational_chain_left :
  parse_expr 60 (print 0 rel_witness) = Some rel_witness /\
  parse_expr 60 (print 0 (EBin Lt (EAtom (AId 1%Z)) (EBin InstOf (EAtom (AId 2%Z)) (EAtom (AId 3%Z)))))
    = Some (EBin Lt (EAtom (AId 1%Z)) (EBin InstOf (EAtom (AId 2%Z)) (EAtom (AId 3%Z)))).
Proof. exact relational_chain_left. Qed.
