(* C06 — numbers and their text forms convert exactly in both directions.
   Only statements here; proofs are in C06/Proofs.v.

   Spec  = ES5 9.8.1, 15.7.4.2/5/6/7, 8.5, 9.3.1, 15.1.2.2/3, 7.8.3 + B.1.1 as executable
           functions over Z on bit patterns and UTF-16 unit lists (C06/Spec.v, SpecText.v);
   Model = otto's code around strconv (C06/Model.v).
   A positive finite double is m * 2^e (valid_me); "s * 10^p rounds to it" is
   in_interval m e s p (the ES5 8.5 reading stated at the top of Spec.v).
   The correspondence run ties otto to Model and Spec on every sampled input. *)
From Coq Require Import ZArith List Bool Lia.
From Otto Require Import Common.Double C06.Spec C06.SpecText C06.Model C06.Proofs C06.ProofsRound.
Import ListNotations.
Open Scope Z_scope.

(* ---- 9.8.1 step 5: the digits chosen by the oracle ---- *)

(* they convert back to the identical double, and no multiple of a higher power of ten does *)
Theorem C06_shortest_roundtrips : forall m e s p, valid_me m e -> shortest m e = Some (s, p) ->
  in_interval m e s p = true /\
  forall p' s', p < p' -> 0 < s' -> in_interval m e s' p' = false.
Proof. exact shortest_p_maximal. Qed.
Print Assumptions C06_shortest_roundtrips.

(* no digit string with fewer digits converts back to the double: k is as small as possible *)
Theorem C06_shortest_minimal : forall m e s p, valid_me m e -> shortest m e = Some (s, p) ->
  0 < s /\
  forall s' p', 0 < s' -> in_interval m e s' p' = true -> ndigits s <= ndigits s'.
Proof. exact shortest_minimal_digits. Qed.
Print Assumptions C06_shortest_minimal.

(* every positive finite double has its digits: the two theorems above are never vacuous *)
Theorem C06_shortest_total : forall m e, valid_me m e -> exists s p, shortest m e = Some (s, p).
Proof. exact shortest_total. Qed.
Print Assumptions C06_shortest_total.

(* 9.8.1 NOTE 2: among the multiples of 10^p that round to the double, the chosen one is closest to it
   (distances at the common scale: |s*10^p - x| as |s*B - 4m*A|) *)
Theorem C06_shortest_closest : forall m e s p, valid_me m e -> shortest m e = Some (s, p) ->
  forall s', in_interval m e s' p = true ->
  Z.abs (s * scaleB (e - 2) p - 4 * m * scaleA (e - 2) p) <= Z.abs (s' * scaleB (e - 2) p - 4 * m * scaleA (e - 2) p).
Proof. exact shortest_closest. Qed.
Print Assumptions C06_shortest_closest.

(* ndigits is the k of 9.8.1: 10^(k-1) <= s < 10^k *)
Theorem C06_ndigits : forall s, 1 <= s -> 10 ^ (ndigits s - 1) <= s < 10 ^ (ndigits s).
Proof. exact ndigits_spec. Qed.
Print Assumptions C06_ndigits.

(* the search evaluated in the correspondence run (scaled interval carried along, guessed
   quotients verified by multiplication) is the search the two theorems above are about *)
Theorem C06_fast_search_is_search : forall m e, shortest_fast m e = shortest m e.
Proof. exact shortest_fast_eq. Qed.
Print Assumptions C06_fast_search_is_search.

Theorem C06_fast_division_exact : forall X B, fast_divmul X B = (X / B, X / B * B).
Proof. exact fast_divmul_eq. Qed.
Print Assumptions C06_fast_division_exact.

(* ---- text -> number (8.5, 9.3.1): the rounding step of the oracle is round-to-nearest, ties-to-even,
   at every exponent: the integer chosen for N/D/2^ex is within 1/2 of it, exactly 1/2 only if even ---- *)
Theorem C06_round_nearest_even : forall N D ex, 0 < D ->
  let num := scaled_num N ex in
  let den := scaled_den D ex in
  let m := round_at N D ex in
  Z.abs (2 * num - 2 * m * den) <= den /\
  (Z.abs (2 * num - 2 * m * den) = den -> Z.even m = true).
Proof. exact round_at_nearest_even. Qed.
Print Assumptions C06_round_nearest_even.

(* scaled_num / scaled_den is N / D / 2^ex *)
Theorem C06_scaled_value : forall N D ex,
  scaled_num N ex * (D * 2 ^ Z.max ex 0) = scaled_den D ex * (N * 2 ^ Z.max (- ex) 0).
Proof. exact scaled_value. Qed.
Print Assumptions C06_scaled_value.

(* the two directions meet: the significand chosen for the decimal s * 10^p is a double whose rounding
   interval -- the very interval the Number->String oracle is proved against -- contains s * 10^p
   (away from the one asymmetric case, a power of two above the subnormal range) *)
Theorem C06_decimal_rounds_into_interval : forall s p ex,
  let N := s * 10 ^ Z.max p 0 in
  let D := 10 ^ Z.max (- p) 0 in
  let m := round_at N D ex in
  (m =? 2 ^ 52) && (-1074 <? ex) = false ->
  in_interval m ex s p = true.
Proof. exact round_decimal_in_interval. Qed.
Print Assumptions C06_decimal_rounds_into_interval.

(* ---- layout: otto's rewrite of Go's two-digit exponent is the 9.8.1 exponent text ---- *)
Theorem C06_exponent_text : forall ex, ex <> 0 -> ch_e :: go_exp2 true ex = exp_part ex.
Proof. exact exp_text_agrees. Qed.
Print Assumptions C06_exponent_text.

(* ---- 15.7.4.2 / 15.1.2.2: printing an integer in any radix and scanning it back are inverse ---- *)
Theorem C06_radix_roundtrip : forall r n, 2 <= r <= 36 -> 0 <= n ->
  let '(ds, rest) := scan_radix r (radix_digits r n) in rest = [] /\ radix_value r ds = n.
Proof. exact print_scan_roundtrip. Qed.
Print Assumptions C06_radix_roundtrip.

(* ---- 15.7.4.5: below 10^21, away from exact decimal ties and from -0, otto's toFixed (Go's
   half-even 'f' format, range test included) is the ES5 function, for every double and argument ---- *)
Theorem C06_toFixed_partial : forall bits f big neg m e,
  decode bits = DFin neg m e -> le_pow10 21 m e = false -> (m = 0 -> neg = false) ->
  decimal_tie m e f = false -> m_to_fixed big bits f = to_fixed bits f.
Proof. exact toFixed_partial. Qed.
Print Assumptions C06_toFixed_partial.

(* ---- otto's deviations: "model = spec" refuted with concrete witnesses ---- *)
Theorem C06_log10_boundary_refuted : exists bits big, value_string big bits <> num_to_string bits.
Proof. exists 0x444B1AE4D6E2EF4F, true. vm_compute. discriminate. Qed.
Print Assumptions C06_log10_boundary_refuted.

Theorem C06_radix_big_refuted : exists bits r, Some (number_to_string_radix bits r) <> to_radix_int bits r.
Proof. exists 0x4450000000000000, 16. vm_compute. discriminate. Qed.
Print Assumptions C06_radix_big_refuted.

Theorem C06_radix_fraction_refuted : exists bits r, number_to_string_radix bits r = [ch_0] /\ decode bits <> DFin false 0 (-1074).
Proof. exists 0x3FE0000000000000, 2. vm_compute. split; [reflexivity | discriminate]. Qed.
Print Assumptions C06_radix_fraction_refuted.

Theorem C06_toFixed_tie_refuted : exists bits f, m_to_fixed false bits f <> to_fixed bits f.
Proof. exists 0x4004000000000000, 0. vm_compute. discriminate. Qed.
Print Assumptions C06_toFixed_tie_refuted.

Theorem C06_toFixed_negzero_refuted : exists f, m_to_fixed false nzero_bits f <> to_fixed nzero_bits f.
Proof. exists 2. vm_compute. discriminate. Qed.
Print Assumptions C06_toFixed_negzero_refuted.

Theorem C06_toExponential_refuted : exists bits f, m_to_exponential bits (Some f) <> to_exponential bits (Some f).
Proof. exists 0x3FF8000000000000, 3. vm_compute. discriminate. Qed.
Print Assumptions C06_toExponential_refuted.

Theorem C06_infinity_format_refuted : exists f, m_to_exponential pinf_bits (Some f) <> to_exponential pinf_bits (Some f).
Proof. exists 2. vm_compute. discriminate. Qed.
Print Assumptions C06_infinity_format_refuted.

Theorem C06_toPrecision_refuted : exists bits p, m_to_precision bits p <> to_precision bits p.
Proof. exists 0x3FF0000000000000, 3. vm_compute. discriminate. Qed.
Print Assumptions C06_toPrecision_refuted.

(* "inf" *)
Theorem C06_toNumber_grammar_refuted : exists s, m_parse_number s <> str_to_number s.
Proof. exists [105; 110; 102]. vm_compute. discriminate. Qed.
Print Assumptions C06_toNumber_grammar_refuted.

(* "-0" *)
Theorem C06_parseInt_negzero_refuted : exists s, m_parse_int s nan_bits <> parse_int s nan_bits.
Proof. exists [45; 48]. vm_compute. discriminate. Qed.
Print Assumptions C06_parseInt_negzero_refuted.

(* "8000000000000401" in radix 16 *)
Theorem C06_parseInt_big_refuted : exists s r, m_parse_int s r <> parse_int s r.
Proof. exists [56; 48; 48; 48; 48; 48; 48; 48; 48; 48; 48; 48; 48; 52; 48; 49], 0x4030000000000000. vm_compute. discriminate. Qed.
Print Assumptions C06_parseInt_big_refuted.

(* "1e1000" *)
Theorem C06_parseFloat_refuted : exists s, m_parse_float s <> parse_float s.
Proof. exists [49; 101; 49; 48; 48; 48]. vm_compute. discriminate. Qed.
Print Assumptions C06_parseFloat_refuted.

(* 0x8000000000000401 *)
Theorem C06_hex_literal_refuted : exists s, m_literal s <> literal_value s.
Proof. exists [48; 120; 56; 48; 48; 48; 48; 48; 48; 48; 48; 48; 48; 48; 48; 52; 48; 49]. vm_compute. discriminate. Qed.
Print Assumptions C06_hex_literal_refuted.

(* ---- non-vacuity: the hypotheses are met; 0.1 = 0x1999999999999A * 2^-56 has digits "1", n = 0 ---- *)
Example C06_valid_met : valid_me 0x1999999999999A (-56) /\ shortest 0x1999999999999A (-56) = Some (1, -1).
Proof. split; [unfold valid_me; lia | vm_compute; reflexivity]. Qed.
Example C06_in_interval_met : in_interval 0x1999999999999A (-56) 1 (-1) = true /\ in_interval 0x1999999999999A (-56) 10000000000000002 (-17) = false.
Proof. vm_compute. split; reflexivity. Qed.
Example C06_toFixed_partial_met :   (* 1.5 toFixed(3): not a tie; 2.5 toFixed(0): a tie *)
  decode 0x3FF8000000000000 = DFin false 0x18000000000000 (-52) /\ le_pow10 21 0x18000000000000 (-52) = false /\
  decimal_tie 0x18000000000000 (-52) 3 = false /\ decimal_tie 0x14000000000000 (-51) 0 = true.
Proof. vm_compute. repeat split; reflexivity. Qed.
Example C06_decimal_rounds_met :   (* "0.1": s = 1, p = -1, exponent -56 *)
  round_at (1 * 10 ^ Z.max (-1) 0) (10 ^ Z.max (- -1) 0) (-56) = 0x1999999999999A /\
  (0x1999999999999A =? 2 ^ 52) && (-1074 <? -56) = false.
Proof. vm_compute. split; reflexivity. Qed.
Example C06_exponent_text_met : ch_e :: go_exp2 true (-7) = exp_part (-7).
Proof. vm_compute. reflexivity. Qed.
Example C06_radix_met : scan_radix 16 (radix_digits 16 255) = ([15; 15], []).
Proof. vm_compute. reflexivity. Qed.
