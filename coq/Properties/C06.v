(* C06 — numbers and their text forms convert exactly in both directions.
   Only statements here; proofs are in C06/Proofs.v.

   Spec  = ES5 9.8.1, 15.7.4.2/5/6/7, 8.5, 9.3.1, 15.1.2.2/3, 7.8.3 + B.1.1 as executable
           functions over Z on bit patterns and UTF-16 unit lists (C06/Spec.v, SpecText.v);
   Model = otto's code around strconv (C06/Model.v).
   A positive finite double is m * 2^e (valid_me); "s * 10^p rounds to it" is
   in_interval m e s p (the ES5 8.5 reading stated at the top of Spec.v).
   The correspondence run ties otto to Model and Spec on every sampled input. *)
From Coq Require Import ZArith List Bool Lia.
From Otto Require Import Common.Double C06.Spec C06.SpecText C06.Model C06.Proofs C06.ProofsRound C06.ProofsLayout.
Import ListNotations.
Open Scope Z_scope.

(* ---- 9.8.1 step 5: the digits chosen by the oracle ---- *)

(* they convert back to the identical double, and no multiple of a higher power of ten does *)
Theorem C06_shortest_roundtrips : forall m e s p, valid_me m e -> shortest m e = Some (s, p) ->
  in_interval m e s p = true /\
  forall p' s', p < p' -> 0 < s' -> in_interval m e s' p' = false.
Proof. exact shortest_p_maximal. Qed.
Print Assumptions C06_shortest_roundtrips.

(* no digit string with fewer digits converts back to the double: k is as small as possible *)
Theorem C06_shortest_minimal : forall m e s p, valid_me m e -> shortest m e = Some (s, p) ->
  0 < s /\
  forall s' p', 0 < s' -> in_interval m e s' p' = true -> ndigits s <= ndigits s'.
Proof. exact shortest_minimal_digits. Qed.
Print Assumptions C06_shortest_minimal.

(* every positive finite double has its digits: the two theorems above are never vacuous *)
Theorem C06_shortest_total : forall m e, valid_me m e -> exists s p, shortest m e = Some (s, p).
Proof. exact shortest_total. Qed.
Print Assumptions C06_shortest_total.

(* 9.8.1 NOTE 2: among the multiples of 10^p that round to the double, the chosen one is closest to it
   (distances at the common scale: |s*10^p - x| as |s*B - 4m*A|) *)
Theorem C06_shortest_closest : forall m e s p, valid_me m e -> shortest m e = Some (s, p) ->
  forall s', in_interval m e s' p = true ->
  Z.abs (s * scaleB (e - 2) p - 4 * m * scaleA (e - 2) p) <= Z.abs (s' * scaleB (e - 2) p - 4 * m * scaleA (e - 2) p).
Proof. exact shortest_closest. Qed.
Print Assumptions C06_shortest_closest.

(* ndigits is the k of 9.8.1: 10^(k-1) <= s < 10^k *)
Theorem C06_ndigits : forall s, 1 <= s -> 10 ^ (ndigits s - 1) <= s < 10 ^ (ndigits s).
Proof. exact ndigits_spec. Qed.
Print Assumptions C06_ndigits.

(* the search evaluated in the correspondence run (scaled interval carried along, guessed
   quotients verified by multiplication) is the search the two theorems above are about *)
Theorem C06_fast_search_is_search : forall m e, shortest_fast m e = shortest m e.
Proof. exact shortest_fast_eq. Qed.
Print Assumptions C06_fast_search_is_search.

Theorem C06_fast_division_exact : forall X B, fast_divmul X B = (X / B, X / B * B).
Proof. exact fast_divmul_eq. Qed.
Print Assumptions C06_fast_division_exact.

(* ---- text -> number (8.5, 9.3.1): the rounding step of the oracle is round-to-nearest, ties-to-even,
   at every exponent: the integer chosen for N/D/2^ex is within 1/2 of it, exactly 1/2 only if even ---- *)
Theorem C06_round_nearest_even : forall N D ex, 0 < D ->
  let num := scaled_num N ex in
  let den := scaled_den D ex in
  let m := round_at N D ex in
  Z.abs (2 * num - 2 * m * den) <= den /\
  (Z.abs (2 * num - 2 * m * den) = den -> Z.even m = true).
Proof. exact round_at_nearest_even. Qed.
Print Assumptions C06_round_nearest_even.

(* scaled_num / scaled_den is N / D / 2^ex *)
Theorem C06_scaled_value : forall N D ex,
  scaled_num N ex * (D * 2 ^ Z.max ex 0) = scaled_den D ex * (N * 2 ^ Z.max (- ex) 0).
Proof. exact scaled_value. Qed.
Print Assumptions C06_scaled_value.

(* the two directions meet: the significand chosen for the decimal s * 10^p is a double whose rounding
   interval -- the very interval the Number->String oracle is proved against -- contains s * 10^p
   (away from the one asymmetric case, a power of two above the subnormal range) *)
Theorem C06_decimal_rounds_into_interval : forall s p ex,
  let N := s * 10 ^ Z.max p 0 in
  let D := 10 ^ Z.max (- p) 0 in
  let m := round_at N D ex in
  (m =? 2 ^ 52) && (-1074 <? ex) = false ->
  in_interval m ex s p = true.
Proof. exact round_decimal_in_interval. Qed.
Print Assumptions C06_decimal_rounds_into_interval.

(* ---- layout: otto's rewrite of Go's two-digit exponent is the 9.8.1 exponent text ---- *)
Theorem C06_exponent_text : forall ex, ex <> 0 -> ch_e :: go_exp2 true ex = exp_part ex.
Proof. exact exp_text_agrees. Qed.
Print Assumptions C06_exponent_text.

(* ---- 9.8.1 steps 6-10 (repaired threshold): for all digit strings and point positions n, what
   floatToString builds from Go's %f / %e layouts and its exponent rewrite is the 9.8.1 layout, given that
   its exponent-form test comes out as n > 21 or n <= -6 ---- *)
Theorem C06_layout : forall neg ds n, ds <> [] ->
  otto_render ((21 <? n) || (n <=? -6)) neg ds n = with_sign neg (layout ds n).
Proof. exact render_is_layout. Qed.
Print Assumptions C06_layout.

(* hence Value.string() of a float64 is the ES5 text for every bit pattern for which the test
   abs >= 1e21 || abs < 1e-6 agrees with the digit position (compared on every sampled double) *)
Theorem C06_tostring_refines : forall bits,
  (forall neg m e s p, decode bits = DFin neg m e -> m <> 0 -> shortest_fast m e = Some (s, p) ->
     exp_form m e = let n := p + lenZ (dec_digits s) in (21 <? n) || (n <=? -6)) ->
  value_string bits = num_to_string bits.
Proof. exact value_string_is_spec. Qed.
Print Assumptions C06_tostring_refines.

(* ---- 15.7.4.2 / 15.1.2.2: printing an integer in any radix and scanning it back are inverse ---- *)
Theorem C06_radix_roundtrip : forall r n, 2 <= r <= 36 -> 0 <= n ->
  let '(ds, rest) := scan_radix r (radix_digits r n) in rest = [] /\ radix_value r ds = n.
Proof. exact print_scan_roundtrip. Qed.
Print Assumptions C06_radix_roundtrip.

(* ---- 15.7.4.5: below 10^21 and away from exact decimal ties otto's toFixed (Go's half-even 'f'
   format, range test included, -0 included since the repair) is the ES5 function, for every double
   and argument ---- *)
Theorem C06_toFixed_partial : forall bits f neg m e,
  decode bits = DFin neg m e -> le_pow10 21 m e = false ->
  decimal_tie m e f = false -> m_to_fixed bits f = to_fixed bits f.
Proof. exact toFixed_partial. Qed.
Print Assumptions C06_toFixed_partial.

(* ---- 15.7.4.5-7 (repaired): NaN and +-Infinity are answered before any RangeError test, with the
   ES5 texts, for every argument ---- *)
Theorem C06_nonfinite_formats : forall bits, (forall neg m e, decode bits <> DFin neg m e) ->
  (forall f, m_to_exponential bits f = to_exponential bits f) /\
  (forall p, m_to_precision bits p = to_precision bits p) /\
  (forall f, m_to_fixed bits f = to_fixed bits f).
Proof. exact nonfinite_formats. Qed.
Print Assumptions C06_nonfinite_formats.

(* ---- otto's deviations: "model = spec" refuted with concrete witnesses ---- *)
(* String(89634963422590256): the integer literal is an int64 inside otto and prints all 17 digits *)
Theorem C06_int_literal_refuted : exists bits, value_string_k true bits <> num_to_string bits.
Proof. exists 4860482583519306579. vm_compute. discriminate. Qed.
Print Assumptions C06_int_literal_refuted.

Theorem C06_radix_big_refuted : exists bits r, Some (number_to_string_radix bits r) <> to_radix_int bits r.
Proof. exists 0x4450000000000000, 16. vm_compute. discriminate. Qed.
Print Assumptions C06_radix_big_refuted.

Theorem C06_radix_fraction_refuted : exists bits r, number_to_string_radix bits r = [ch_0] /\ decode bits <> DFin false 0 (-1074).
Proof. exists 0x3FE0000000000000, 2. vm_compute. split; [reflexivity | discriminate]. Qed.
Print Assumptions C06_radix_fraction_refuted.

Theorem C06_toFixed_tie_refuted : exists bits f, m_to_fixed bits f <> to_fixed bits f.
Proof. exists 0x4004000000000000, 0. vm_compute. discriminate. Qed.
Print Assumptions C06_toFixed_tie_refuted.

Theorem C06_toExponential_refuted : exists bits f, m_to_exponential bits (Some f) <> to_exponential bits (Some f).
Proof. exists 0x3FF8000000000000, 3. vm_compute. discriminate. Qed.
Print Assumptions C06_toExponential_refuted.

Theorem C06_toPrecision_refuted : exists bits p, m_to_precision bits p <> to_precision bits p.
Proof. exists 0x3FF0000000000000, 3. vm_compute. discriminate. Qed.
Print Assumptions C06_toPrecision_refuted.

(* "inf" *)
Theorem C06_toNumber_grammar_refuted : exists s, m_parse_number s <> str_to_number s.
Proof. exists [105; 110; 102]. vm_compute. discriminate. Qed.
Print Assumptions C06_toNumber_grammar_refuted.

(* 15.1.2.2 steps 13-16 below 2^63 (repaired: -0 is produced): for every sign, radix and digit list,
   otto's int64 path returns sign * the Number value for mathInt; the radix coercion is ToInt32 *)
Theorem C06_parseInt_value_exact : forall neg base ds, radix_value base ds < 2 ^ 63 ->
  m_parse_int_value neg base ds = signed_bits neg (round_int (radix_value base ds)).
Proof. exact parse_int_value_exact. Qed.
Print Assumptions C06_parseInt_value_exact.

Theorem C06_parseInt_radix_coercion : forall bits, m_to_int32 bits = to_int32 bits.
Proof. exact to_int32_agrees. Qed.
Print Assumptions C06_parseInt_radix_coercion.

(* "8000000000000401" in radix 16 *)
Theorem C06_parseInt_big_refuted : exists s r, m_parse_int s r <> parse_int s r.
Proof. exists [56; 48; 48; 48; 48; 48; 48; 48; 48; 48; 48; 48; 48; 52; 48; 49], 0x4030000000000000. vm_compute. discriminate. Qed.
Print Assumptions C06_parseInt_big_refuted.

(* "1_0" (the overflow retry is repaired: "1e1000" now agrees, see the Example below) *)
Theorem C06_parseFloat_refuted : exists s, m_parse_float s <> parse_float s.
Proof. exists [49; 95; 48]. vm_compute. discriminate. Qed.
Print Assumptions C06_parseFloat_refuted.

(* 0x8000000000000401 *)
Theorem C06_hex_literal_refuted : exists s, m_literal s <> literal_value s.
Proof. exists [48; 120; 56; 48; 48; 48; 48; 48; 48; 48; 48; 48; 48; 48; 48; 52; 48; 49]. vm_compute. discriminate. Qed.
Print Assumptions C06_hex_literal_refuted.

(* ---- non-vacuity: the hypotheses are met; 0.1 = 0x1999999999999A * 2^-56 has digits "1", n = 0 ---- *)
Example C06_valid_met : valid_me 0x1999999999999A (-56) /\ shortest 0x1999999999999A (-56) = Some (1, -1).
Proof. split; [unfold valid_me; lia | vm_compute; reflexivity]. Qed.
Example C06_in_interval_met : in_interval 0x1999999999999A (-56) 1 (-1) = true /\ in_interval 0x1999999999999A (-56) 10000000000000002 (-17) = false.
Proof. vm_compute. split; reflexivity. Qed.
Example C06_toFixed_partial_met :   (* 1.5 toFixed(3): not a tie; 2.5 toFixed(0): a tie *)
  decode 0x3FF8000000000000 = DFin false 0x18000000000000 (-52) /\ le_pow10 21 0x18000000000000 (-52) = false /\
  decimal_tie 0x18000000000000 (-52) 3 = false /\ decimal_tie 0x14000000000000 (-51) 0 = true.
Proof. vm_compute. repeat split; reflexivity. Qed.
Example C06_decimal_rounds_met :   (* "0.1": s = 1, p = -1, exponent -56 *)
  round_at (1 * 10 ^ Z.max (-1) 0) (10 ^ Z.max (- -1) 0) (-56) = 0x1999999999999A /\
  (0x1999999999999A =? 2 ^ 52) && (-1074 <? -56) = false.
Proof. vm_compute. split; reflexivity. Qed.
Example C06_parseFloat_overflow_agrees : m_parse_float [49; 101; 49; 48; 48; 48] = parse_float [49; 101; 49; 48; 48; 48].
Proof. vm_compute. reflexivity. Qed.
Example C06_parseInt_negzero_agrees : m_parse_int [45; 48] nan_bits = parse_int [45; 48] nan_bits /\ parse_int [45; 48] nan_bits = nzero_bits.
Proof. vm_compute. split; reflexivity. Qed.
Example C06_threshold_agrees :   (* the largest double below 1e21 and the one just below 1e-6 *)
  value_string 0x444B1AE4D6E2EF4F = num_to_string 0x444B1AE4D6E2EF4F /\ value_string 0x3EB0C6F7A0B5ED8C = num_to_string 0x3EB0C6F7A0B5ED8C.
Proof. vm_compute. split; reflexivity. Qed.
Example C06_layout_met :   (* 1e21 = 0x1B1AE4D6E2EF5 * 2^20... : digits "1", n = 22, exponent form on both sides *)
  decode 0x444B1AE4D6E2EF50 = DFin false 0x1B1AE4D6E2EF50 17 /\ shortest_fast 0x1B1AE4D6E2EF50 17 = Some (1, 21) /\
  exp_form 0x1B1AE4D6E2EF50 17 = ((21 <? 21 + lenZ (dec_digits 1)) || (21 + lenZ (dec_digits 1) <=? -6)).
Proof. vm_compute. repeat split; reflexivity. Qed.
Example C06_nonfinite_met : (forall neg m e, decode pinf_bits <> DFin neg m e) /\ m_to_exponential pinf_bits (Some (-1)) = RStr str_Infinity /\
  m_to_fixed nzero_bits 2 = to_fixed nzero_bits 2.
Proof. vm_compute. repeat split; try reflexivity. intros; discriminate. Qed.
Example C06_exponent_text_met : ch_e :: go_exp2 true (-7) = exp_part (-7).
Proof. vm_compute. reflexivity. Qed.
Example C06_radix_met : scan_radix 16 (radix_digits 16 255) = ([15; 15], []).
Proof. vm_compute. reflexivity. Qed.
