(* C17 — Copy() yields an equivalent and fully independent runtime.
   Only statements here; proofs are in C17/Proofs*.v.  Model.v is otto's
   memoising cloner (clone.go, objectClone, the three Stash.clone methods,
   argumentsObject.clone, runtime.clone) over a heap graph of objects and
   stashes; Spec.v says what a copy is (graph isomorphism onto fresh
   locations), the read-only observation programs and the mutation steps.
   The correspondence run ties the real Copy() to these: generated histories,
   copies of copies, mutations on one side observed from the other, and
   dumped heaps handed to the proven checker. *)
From Coq Require Import ZArith List Bool.
From Otto Require Import C17.Model C17.Spec C17.Proofs C17.ProofsClone C17.ProofsTop.
Import ListNotations.
Open Scope Z_scope.

(* the cloner's result, for every heap, root list and amount of fuel with which it
   finishes: the memo table is an injective, structure-preserving map onto locations
   that did not exist before (>= n0), it covers the roots (hence, being closed under
   outgoing references, everything reachable), and the new heap holds exactly its image *)
Theorem C17_clone_iso : forall bad h fuel roots n0 s,
  clone_roots bad h fuel roots n0 = Ok s ->
  iso h (out s) (memo s) /\
  (forall r, In r roots -> In r (keys (memo s))) /\
  (forall l', In l' (keys (out s)) <-> In l' (vals (memo s))) /\
  (forall l', In l' (vals (memo s)) -> n0 <= l' < next s) /\
  NoDup (keys (out s)).
Proof. exact clone_roots_iso. Qed.
Print Assumptions C17_clone_iso.

Theorem C17_clone_fresh : forall bad h fuel roots n0 s,
  (forall l, In l (keys h) -> l < n0) ->
  clone_roots bad h fuel roots n0 = Ok s -> disjoint h (out s).
Proof. exact clone_disjoint. Qed.
Print Assumptions C17_clone_fresh.

(* the depth-first search needs no more fuel than there are cells, and its result
   does not depend on the fuel: the cloner is total on every heap (cycles included) *)
Theorem C17_clone_terminates : forall bad h fuel roots n0,
  (length h < fuel)%nat -> clone_roots bad h fuel roots n0 <> Fuel.
Proof. exact clone_roots_enough_fuel. Qed.
Print Assumptions C17_clone_terminates.

Theorem C17_clone_fuel_irrelevant : forall bad h roots n0 f1 f2,
  (length h < f1)%nat -> (length h < f2)%nat ->
  clone_roots bad h f1 roots n0 = clone_roots bad h f2 roots n0.
Proof. exact clone_roots_fuel_irrelevant. Qed.
Print Assumptions C17_clone_fuel_irrelevant.

(* wherever otto's cloner returns at all it returns what the panic-free cloner returns *)
Theorem C17_otto_agrees_where_it_returns : forall h fuel roots n0 s,
  clone_roots otto_bad h fuel roots n0 = Ok s -> clone_roots no_bad h fuel roots n0 = Ok s.
Proof. exact clone_roots_no_bad_agree. Qed.
Print Assumptions C17_otto_agrees_where_it_returns.

(* the executable checker that the correspondence run applies to every dumped pair of heaps *)
Theorem C17_checker_sound : forall h h' phi,
  check_iso h h' phi = true -> iso h h' phi /\ disjoint h h'.
Proof. exact check_iso_sound. Qed.
Print Assumptions C17_checker_sound.

(* equivalence: every observation program (navigate along references from the roots,
   read the non-reference content of a cell, compare two paths for identity) has the
   same answer on an isomorphic heap *)
Theorem C17_observational_equiv : forall h h' phi roots q,
  iso h h' phi -> (forall r, In r roots -> In r (keys phi)) ->
  observe h' (map (app_memo phi) roots) q = observe h roots q.
Proof. exact iso_observational_equiv. Qed.
Print Assumptions C17_observational_equiv.

Theorem C17_copy_equivalent : forall bad h fuel roots n0 s q,
  clone_roots bad h fuel roots n0 = Ok s ->
  observe (out s) (map (app_memo (memo s)) roots) q = observe h roots q.
Proof. exact clone_equivalent. Qed.
Print Assumptions C17_copy_equivalent.

(* isolation: any sequence of steps of the runtime that owns region DA (overwrite own
   cells, allocate, store only references it can reach) leaves every cell, the
   closedness and every observation of a separated region DB untouched.  The statement
   is symmetric in the two regions and places no bound on how many separated regions
   there are, which is "both directions" and "copies of copies". *)
Theorem C17_isolation : forall ops h DA DB,
  owned h DB -> closed h DB -> sep DA DB -> ops_ok h DA ops ->
  (forall b, In b DB -> lookup (exec h ops) b = lookup h b) /\
  closed (exec h ops) DB /\ owned (exec h ops) DB /\ sep (region_after DA ops) DB /\
  (forall roots q, incl roots DB -> observe (exec h ops) roots q = observe h roots q).
Proof. exact isolation. Qed.
Print Assumptions C17_isolation.

(* the acting runtime never gets hold of a reference into the other region *)
Theorem C17_own_region_closed : forall ops h DA,
  closed h DA -> ops_ok h DA ops -> closed (exec h ops) (region_after DA ops).
Proof. exact own_region_closed. Qed.
Print Assumptions C17_own_region_closed.

(* a pair of heaps that passes the checker is a pair of separated, closed regions of the common store *)
Theorem C17_copy_separated : forall h h' phi,
  iso h h' phi -> disjoint h h' -> closed h (keys h) ->
  (forall l', In l' (keys h') -> In l' (vals phi)) -> NoDup (keys h') ->
  let store := h ++ h' in
  closed store (keys h) /\ closed store (keys h') /\
  owned store (keys h) /\ owned store (keys h') /\
  sep (keys h) (keys h') /\ sep (keys h') (keys h).
Proof. exact copy_separated. Qed.
Print Assumptions C17_copy_separated.

(* all together for the cloner: after Copy(), whatever either runtime does is invisible to the other *)
Theorem C17_copy_isolated : forall bad h fuel roots n0 s,
  (forall l, In l (keys h) -> l < n0) -> closed h (keys h) ->
  clone_roots bad h fuel roots n0 = Ok s ->
  let store := h ++ out s in
  (forall ops, ops_ok store (keys h) ops ->
     forall rs q, incl rs (keys (out s)) -> observe (exec store ops) rs q = observe store rs q) /\
  (forall ops, ops_ok store (keys (out s)) ops ->
     forall rs q, incl rs (keys h) -> observe (exec store ops) rs q = observe store rs q).
Proof. exact clone_isolated. Qed.
Print Assumptions C17_copy_isolated.

(* copies of copies: isomorphisms compose, so a copy of a copy is a copy of the original
   (and by C17_observational_equiv answers every observation program like it) *)
Theorem C17_copy_of_copy : forall h h' h'' phi psi,
  iso h h' phi -> iso h' h'' psi -> (forall l', In l' (vals phi) -> In l' (keys psi)) ->
  iso h h'' (compose phi psi).
Proof. exact iso_compose. Qed.
Print Assumptions C17_copy_of_copy.

(* otto's deviations, as refutations with concrete witnesses *)
Theorem C17_argparam_refuted :
  exists h roots, clone_roots otto_bad h 10 roots 100 = Panic /\
                  exists s, clone_roots no_bad h 10 roots 100 = Ok s.
Proof. exact argparam_refuted. Qed.
Print Assumptions C17_argparam_refuted.

Theorem C17_evalgone_refuted :
  exists h rt, clone_runtime_otto 7 h 10 rt 100 = RPanic /\
               exists h' phi rt', clone_runtime_spec h 10 rt 100 = ROk h' phi rt'.
Proof. exact evalgone_refuted. Qed.
Print Assumptions C17_evalgone_refuted.

Theorem C17_evalswap_refuted :
  exists h rt h1 phi1 rt1 h2 phi2 rt2,
    clone_runtime_otto 7 h 10 rt 100 = ROk h1 phi1 rt1 /\
    clone_runtime_spec h 10 rt 100 = ROk h2 phi2 rt2 /\
    rt_eval rt1 <> app_memo phi1 (rt_eval rt) /\ rt_eval rt2 = app_memo phi2 (rt_eval rt).
Proof. exact evalswap_refuted. Qed.
Print Assumptions C17_evalswap_refuted.

(* non-vacuity: a cyclic heap with a closure, an accessor and a bound function is cloned,
   passes the checker, and a step on the original is a legal step *)
Definition ex_heap : heap :=
  [(1, CObj (mkObj (Some 2) [(10, PData (VRef 1) 7); (11, PAcc (Some 3) None 3); (12, PData (VRef 5) 7)] 1 true PNone));
   (2, CObj (mkObj None [(13, PData (VPrim 100 4) 0)] 1 false PNone));
   (3, CObj (mkObj (Some 2) [] 2 true (PFun 77 (Some 4))));
   (4, CFn None [(14, VRef 1, 6); (15, VPrim 115 9, 6)] (Some 6) []);
   (5, CObj (mkObj (Some 2) [] 2 true (PBound 3 (VRef 1) [VPrim 100 1; VRef 2])));
   (6, CObj (mkObj (Some 2) [(16, PData (VRef 3) 5)] 3 true (PArgs (Some 4) [14])))].

Example C17_clone_hyp_met :
  exists s, clone_roots otto_bad ex_heap 7 [1] 100 = Ok s /\
            check_iso ex_heap (out s) (memo s) = true /\ length (memo s) = 6%nat.
Proof. eexists. split; [vm_compute; reflexivity|]. split; vm_compute; reflexivity. Qed.

Example C17_step_hyp_met :
  step_ok ex_heap (keys ex_heap) 2 (CObj (mkObj None [(13, PData (VRef 1) 7)] 1 false PNone)) /\
  closed ex_heap (keys ex_heap).
Proof.
  split.
  - split; [left; cbn; tauto|]. intros r [H | []]. subst. left. cbn. tauto.
  - intros l c r Hl Hc Hr. cbn in Hl.
    repeat (destruct Hl as [Hl | Hl]; [subst l; cbn in Hc; inversion Hc; subst c; cbn in Hr; cbn; tauto|]).
    destruct Hl.
Qed.
