(* C17 — Copy() yields an equivalent and fully independent runtime.
   Only statements here; proofs are in C17/Proofs*.v.  Model.v is otto's
   memoising cloner (clone.go, objectClone, the three Stash.clone methods,
   argumentsObject.clone, runtime.clone, as of the fix commits 4582d68 and 1f3ee72) over a heap graph of objects and
   stashes; Spec.v says what a copy is (graph isomorphism onto fresh
   locations), the read-only observation programs and the mutation steps.
   The correspondence run ties the real Copy() to these: generated histories,
   copies of copies, mutations on one side observed from the other, and
   dumped heaps handed to the proven checker. *)
From Coq Require Import ZArith List Bool.
From Otto Require Import C17.Model C17.Spec C17.Proofs C17.ProofsClone C17.ProofsTop.
Import ListNotations.
Open Scope Z_scope.

(* the cloner's result, for every heap, root list and amount of fuel with which it
   finishes: the memo table is an injective, structure-preserving map onto locations
   that did not exist before (>= n0), it covers the roots (hence, being closed under
   outgoing references, everything reachable), and the new heap holds exactly its image *)
Theorem C17_clone_iso : forall h fuel roots n0 s,
  clone_roots h fuel roots n0 = Ok s ->
  iso h (out s) (memo s) /\
  (forall r, In r roots -> In r (keys (memo s))) /\
  (forall l', In l' (keys (out s)) <-> In l' (vals (memo s))) /\
  (forall l', In l' (vals (memo s)) -> n0 <= l' < next s) /\
  NoDup (keys (out s)).
Proof. exact clone_roots_iso. Qed.
Print Assumptions C17_clone_iso.

Theorem C17_clone_fresh : forall h fuel roots n0 s,
  (forall l, In l (keys h) -> l < n0) ->
  clone_roots h fuel roots n0 = Ok s -> disjoint h (out s).
Proof. exact clone_disjoint. Qed.
Print Assumptions C17_clone_fresh.

(* the depth-first search needs no more fuel than there are cells, and its result
   does not depend on the fuel: the cloner is total on every heap (cycles included) *)
Theorem C17_clone_terminates : forall h fuel roots n0,
  (length h < fuel)%nat -> clone_roots h fuel roots n0 <> Fuel.
Proof. exact clone_roots_enough_fuel. Qed.
Print Assumptions C17_clone_terminates.

Theorem C17_clone_fuel_irrelevant : forall h roots n0 f1 f2,
  (length h < f1)%nat -> (length h < f2)%nat ->
  clone_roots h f1 roots n0 = clone_roots h f2 roots n0.
Proof. exact clone_roots_fuel_irrelevant. Qed.
Print Assumptions C17_clone_fuel_irrelevant.

(* Copy() always returns: on a heap without dangling pointers the cloner neither runs out
   of |heap|+1 fuel nor fails, whatever is absent (prototype, getter, setter, outer stash,
   the arguments object of a function stash) *)
Theorem C17_clone_total : forall h fuel roots n0,
  closed h (keys h) -> (forall r, In r roots -> In r (keys h)) -> (length h < fuel)%nat ->
  exists s, clone_roots h fuel roots n0 = Ok s.
Proof. exact clone_total. Qed.
Print Assumptions C17_clone_total.

(* the runtime record of the copy: global object, the fields of rt.global and the eval
   intrinsic are the renamed originals, whatever the global property `eval` holds, and the
   host settings (debugger handler, random source, stack depth limit, stack trace limit:
   rt_cfg, kept by rename_rt) are those of the original *)
Theorem C17_runtime_copy_correct : forall h fuel rt n0 h' phi rt',
  clone_runtime h fuel rt n0 = ROk h' phi rt' ->
  iso h h' phi /\ rt' = rename_rt (app_memo phi) rt /\
  In (rt_global rt) (keys phi) /\ (forall f, In f (rt_fields rt) -> In f (keys phi)) /\
  In (rt_eval rt) (keys phi) /\
  ((forall l, In l (keys h) -> l < n0) -> disjoint h h').
Proof. exact clone_runtime_correct. Qed.
Print Assumptions C17_runtime_copy_correct.

Theorem C17_runtime_copy_total : forall h fuel rt n0,
  closed h (keys h) -> In (rt_global rt) (keys h) -> (forall f, In f (rt_fields rt) -> In f (keys h)) ->
  In (rt_eval rt) (keys h) -> (length h < fuel)%nat ->
  exists h' phi rt', clone_runtime h fuel rt n0 = ROk h' phi rt'.
Proof. exact clone_runtime_total. Qed.
Print Assumptions C17_runtime_copy_total.

(* the executable checker that the correspondence run applies to every dumped pair of heaps *)
Theorem C17_checker_sound : forall h h' phi,
  check_iso h h' phi = true -> iso h h' phi /\ disjoint h h'.
Proof. exact check_iso_sound. Qed.
Print Assumptions C17_checker_sound.

(* equivalence: every observation program (navigate along references from the roots,
   read the non-reference content of a cell, compare two paths for identity) has the
   same answer on an isomorphic heap *)
Theorem C17_observational_equiv : forall h h' phi roots q,
  iso h h' phi -> (forall r, In r roots -> In r (keys phi)) ->
  observe h' (map (app_memo phi) roots) q = observe h roots q.
Proof. exact iso_observational_equiv. Qed.
Print Assumptions C17_observational_equiv.

Theorem C17_copy_equivalent : forall h fuel roots n0 s q,
  clone_roots h fuel roots n0 = Ok s ->
  observe (out s) (map (app_memo (memo s)) roots) q = observe h roots q.
Proof. exact clone_equivalent. Qed.
Print Assumptions C17_copy_equivalent.

(* isolation: any sequence of steps of the runtime that owns region DA (overwrite own
   cells, allocate, store only references it can reach) leaves every cell, the
   closedness and every observation of a separated region DB untouched.  The statement
   is symmetric in the two regions and places no bound on how many separated regions
   there are, which is "both directions" and "copies of copies". *)
Theorem C17_isolation : forall ops h DA DB,
  owned h DB -> closed h DB -> sep DA DB -> ops_ok h DA ops ->
  (forall b, In b DB -> lookup (exec h ops) b = lookup h b) /\
  closed (exec h ops) DB /\ owned (exec h ops) DB /\ sep (region_after DA ops) DB /\
  (forall roots q, incl roots DB -> observe (exec h ops) roots q = observe h roots q).
Proof. exact isolation. Qed.
Print Assumptions C17_isolation.

(* the acting runtime never gets hold of a reference into the other region *)
Theorem C17_own_region_closed : forall ops h DA,
  closed h DA -> ops_ok h DA ops -> closed (exec h ops) (region_after DA ops).
Proof. exact own_region_closed. Qed.
Print Assumptions C17_own_region_closed.

(* a pair of heaps that passes the checker is a pair of separated, closed regions of the common store *)
Theorem C17_copy_separated : forall h h' phi,
  iso h h' phi -> disjoint h h' -> closed h (keys h) ->
  (forall l', In l' (keys h') -> In l' (vals phi)) -> NoDup (keys h') ->
  let store := h ++ h' in
  closed store (keys h) /\ closed store (keys h') /\
  owned store (keys h) /\ owned store (keys h') /\
  sep (keys h) (keys h') /\ sep (keys h') (keys h).
Proof. exact copy_separated. Qed.
Print Assumptions C17_copy_separated.

(* all together for the cloner: after Copy(), whatever either runtime does is invisible to the other *)
Theorem C17_copy_isolated : forall h fuel roots n0 s,
  (forall l, In l (keys h) -> l < n0) -> closed h (keys h) ->
  clone_roots h fuel roots n0 = Ok s ->
  let store := h ++ out s in
  (forall ops, ops_ok store (keys h) ops ->
     forall rs q, incl rs (keys (out s)) -> observe (exec store ops) rs q = observe store rs q) /\
  (forall ops, ops_ok store (keys (out s)) ops ->
     forall rs q, incl rs (keys h) -> observe (exec store ops) rs q = observe store rs q).
Proof. exact clone_isolated. Qed.
Print Assumptions C17_copy_isolated.

(* what a copied object keeps literally: names and order of its properties, their attribute
   modes, class, extensibility, and the complete parameter-name table of an arguments object
   (blanked entries in the middle included) *)
Theorem C17_copy_keeps_shape : forall h fuel roots n0 s l o,
  clone_roots h fuel roots n0 = Ok s -> In l (keys (memo s)) -> lookup h l = Some (CObj o) ->
  exists o', lookup (out s) (app_memo (memo s) l) = Some (CObj o') /\
    map fst (o_props o') = map fst (o_props o) /\
    map (fun np => prop_mode (snd np)) (o_props o') = map (fun np => prop_mode (snd np)) (o_props o) /\
    o_class o' = o_class o /\ o_ext o' = o_ext o /\
    args_table (o_pay o') = args_table (o_pay o).
Proof. exact clone_keeps_shape. Qed.
Print Assumptions C17_copy_keeps_shape.

(* copies of copies: isomorphisms compose, so a copy of a copy is a copy of the original
   (and by C17_observational_equiv answers every observation program like it) *)
Theorem C17_copy_of_copy : forall h h' h'' phi psi,
  iso h h' phi -> iso h' h'' psi -> (forall l', In l' (vals phi) -> In l' (keys psi)) ->
  iso h h'' (compose phi psi).
Proof. exact iso_compose. Qed.
Print Assumptions C17_copy_of_copy.

(* the heaps that made Copy() panic or mislay eval before 4582d68 / 1f3ee72 are copied like any other *)
Example C17_argparam_now_copied :
  exists s, clone_roots h_argparam 10 [1] 100 = Ok s /\ check_iso h_argparam (out s) (memo s) = true.
Proof. eexists. split; [vm_compute; reflexivity | vm_compute; reflexivity]. Qed.

Example C17_eval_rebound_now_copied :
  (exists h' phi rt', clone_runtime h_evalgone 10 (mkRt 1 [] 2 [0; 0; 60; 3]) 100 = ROk h' phi rt' /\
                      rt_eval rt' = app_memo phi 2 /\ rt_cfg rt' = [0; 0; 60; 3] /\ check_iso h_evalgone h' phi = true) /\
  (exists h' phi rt', clone_runtime h_evalswap 10 (mkRt 1 [] 2 [0; 0; 0; 10]) 100 = ROk h' phi rt' /\
                      rt_eval rt' = app_memo phi 2 /\ rt_cfg rt' = [0; 0; 0; 10] /\ check_iso h_evalswap h' phi = true).
Proof.
  split; do 3 eexists; (split; [vm_compute; reflexivity|]); repeat split; vm_compute; reflexivity.
Qed.

(* holders frozen before Copy() with getter-only, setter-only and getter+setter members over a
   shared closure stash: the cloner gives each holder fresh accessor functions and a fresh stash
   (so C17_clone_iso / C17_copy_isolated apply to them), the checker accepts that copy, and it
   rejects a copy whose frozen holder kept the source's property table (its getter would be the
   original's function object) *)
Example C17_frozen_accessor_holders :
  exists s, clone_roots h_frozen 8 [1] 100 = Ok s /\
            check_iso h_frozen (out s) (memo s) = true /\
            length (memo s) = 7%nat /\
            check_iso h_frozen (keep_source_cell h_frozen s 2) (memo s) = false /\
            check_iso h_frozen (keep_source_cell h_frozen s 6) (memo s) = false /\
            check_iso h_frozen (keep_source_cell h_frozen s 7) (memo s) = false.
Proof. eexists. split; [vm_compute; reflexivity|]. repeat split; vm_compute; reflexivity. Qed.

(* non-vacuity: a cyclic heap with a closure, an accessor and a bound function is cloned,
   passes the checker, and a step on the original is a legal step *)
Definition ex_heap : heap :=
  [(1, CObj (mkObj (Some 2) [(10, PData (VRef 1) 7); (11, PAcc (Some 3) None 3); (12, PData (VRef 5) 7)] 1 true PNone));
   (2, CObj (mkObj None [(13, PData (VPrim 100 4) 0)] 1 false PNone));
   (3, CObj (mkObj (Some 2) [] 2 true (PFun 77 (Some 4))));
   (4, CFn None [(14, VRef 1, 6); (15, VPrim 115 9, 6)] (Some 6) []);
   (5, CObj (mkObj (Some 2) [] 2 true (PBound 3 (VRef 1) [VPrim 100 1; VRef 2])));
   (6, CObj (mkObj (Some 2) [(16, PData (VRef 3) 5)] 3 true (PArgs (Some 4) [14])))].

Example C17_clone_hyp_met :
  exists s, clone_roots ex_heap 7 [1] 100 = Ok s /\
            check_iso ex_heap (out s) (memo s) = true /\ length (memo s) = 6%nat.
Proof. eexists. split; [vm_compute; reflexivity|]. split; vm_compute; reflexivity. Qed.

Example C17_step_hyp_met :
  step_ok ex_heap (keys ex_heap) 2 (CObj (mkObj None [(13, PData (VRef 1) 7)] 1 false PNone)) /\
  closed ex_heap (keys ex_heap).
Proof.
  split.
  - split; [left; cbn; tauto|]. intros r [H | []]. subst. left. cbn. tauto.
  - intros l c r Hl Hc Hr. cbn in Hl.
    repeat (destruct Hl as [Hl | Hl]; [subst l; cbn in Hc; inversion Hc; subst c; cbn in Hr; cbn; tauto|]).
    destruct Hl.
Qed.
