(* C08 — arrays keep the length invariant and Array methods follow ES5 15.4.
   Only statements here; proofs are in C08/Proofs*.v.  Spec = ES5 15.4.4 /
   15.4.5.1 transcribed over a small abstract object (C08/Spec.v), Model =
   otto's own array code (C08/Model.v, C08/Sort.v).  The correspondence run
   ties both to the interpreter built from /repo on every generated history. *)
From Coq Require Import ZArith List Bool.
From Otto Require Import Common.Double C08.Spec C08.Model C08.Sort C08.Proofs C08.Invariant C08.Names C08.Refine C08.Methods.
Import ListNotations.
Open Scope Z_scope.

(* valueToRangeIndex over the saturating number().int64 is the ES5 relative-index clamp
   min(max(len + ToInteger x, 0), len) / min(ToInteger x, len) for EVERY value x (every double:
   NaN, +-Infinity, fractions, |x| >= 2^63) and every length an array or array-like can have *)
Theorem C08_range_index : forall v len, 0 <= len < 2 ^ 53 ->
  otto_rel v len = dia_rel es5 v len /\ otto_cnt v len = dia_cnt es5 v len.
Proof. intros v len H; split; [exact (rel_agree v len H) | exact (cnt_agree v len H)]. Qed.
Print Assumptions C08_range_index.

(* rangeStartEnd (slice) computes the ES5 [k, final) for every argument list *)
Theorem C08_rangeStartEnd : forall args len, 0 <= len < 2 ^ 53 ->
  rangeStartEnd args len false = slice_range_es5 args len.
Proof. exact rangeStartEnd_agree. Qed.
Print Assumptions C08_rangeStartEnd.

(* the start index of indexOf (15.4.4.14 steps 5-8), for every fromIndex *)
Theorem C08_indexof_start : forall v len, 0 <= len < 2 ^ 53 ->
  otto_indexof v len = dia_indexof es5 v len.
Proof. exact indexof_agree. Qed.
Print Assumptions C08_indexof_start.

(* the start index of lastIndexOf (15.4.4.15 steps 5-7), for every fromIndex (fromIndex = len included) *)
Theorem C08_lastindexof_start : forall v len, 0 <= len < 2 ^ 53 ->
  otto_lastindexof v len = dia_lastindexof es5 v len.
Proof. exact lastindexof_agree. Qed.
Print Assumptions C08_lastindexof_start.

(* 15.4.5.1 step 3.d: arrayUint32 raises RangeError exactly when ToUint32(v) <> ToNumber(v), for every value *)
Theorem C08_invalid_length_rangeerror : forall v, otto_array_uint32 v = valid_length v.
Proof. exact array_uint32_agree. Qed.
Print Assumptions C08_invalid_length_rangeerror.

(* only canonical array-index strings are indices: stringToArrayIndex (ParseInt, range, and the
   FormatInt(index) == name comparison) is the ES5 test ToString(ToUint32(P)) = P /\ ToUint32(P) <> 2^32-1,
   for EVERY string ("01", "+1", "-0", "4294967295", overlong digit strings, ... included) *)
Theorem C08_array_index : forall s, stringToArrayIndex s = array_index (key_of_string s).
Proof. exact array_index_all. Qed.
Print Assumptions C08_array_index.

(* a canonical decimal string is the printing of its value and nothing else is *)
Theorem C08_canonical_names : forall s n, canon_dec s = Some n <-> (0 <= n /\ dec n = s).
Proof. exact canonical_names. Qed.
Print Assumptions C08_canonical_names.

(* THE LENGTH INVARIANT.  inv o: the length property is a non-configurable data property holding an
   integer n >= 0 and every own property named by an array index i has i < n.  The ES5 array
   [[DefineOwnProperty]] (15.4.5.1) keeps it for every name, every data descriptor, Throw flag and
   outcome (including rejected definitions, RangeError, and a shrink stopped by a non-configurable element) ... *)
Theorem C08_define_keeps_invariant : forall o k d t o' r,
  inv o -> def_array o k d t = (o', r) -> inv o' /\ o_arr o' = o_arr o.
Proof. exact def_array_inv. Qed.
Print Assumptions C08_define_keeps_invariant.

(* ... hence so does every history of assignments, deletes, Object.defineProperty, freeze, seal and
   preventExtensions on an array (every prefix of a history is a history, so every intermediate state is covered) *)
Theorem C08_length_invariant : forall ops o, o_arr o = true -> inv o -> Forall no_call ops ->
  inv (final o ops) /\ o_arr (final o ops) = true.
Proof. exact length_invariant. Qed.
Print Assumptions C08_length_invariant.

(* 15.4.5.1 step 3.l: after the shrink loop every own index is below the new length, or the loop stopped at
   a non-configurable element l-1 > newLen-1, everything above it is gone and it is still there *)
Theorem C08_shrink_exact : forall o oldLen newLen o' res n,
  has_len o n -> bounded o oldLen -> 0 <= newLen ->
  shrink (Z.to_nat (oldLen - newLen)) o oldLen newLen = (o', res) ->
  match res with
  | None => bounded o' (Z.min oldLen newLen) \/ bounded o' newLen
  | Some l => bounded o' l /\ newLen < l <= oldLen /\ exists p, lookup (KI (l - 1)) (o_own o') = Some p /\ pc p = false
  end.
Proof. exact shrink_exact. Qed.
Print Assumptions C08_shrink_exact.

(* otto's arrayDefineOwnProperty (type_array.go, with its repeated definitions through the fall-through)
   refines 15.4.5.1: on an array satisfying the invariant and for every name on which the index tests agree,
   same outcome and an object with the same properties ... *)
Theorem C08_define_refines : forall o k d t, inv o -> otto_key_index k = array_index k ->
  snd (otto_def_array o k d t) = snd (def_array o k d t) /\
  own_eq (fst (otto_def_array o k d t)) (fst (def_array o k d t)).
Proof. exact otto_def_array_refines. Qed.
Print Assumptions C08_define_refines.
(* ... the index tests agree on every name a script can write ... *)
Theorem C08_define_names : forall s, otto_key_index (key_of_string s) = array_index (key_of_string s).
Proof. exact key_index_of_string. Qed.
Print Assumptions C08_define_names.
(* ... so otto's arrayDefineOwnProperty keeps the length invariant too *)
Theorem C08_otto_define_keeps_invariant : forall o k d t, inv o -> otto_key_index k = array_index k ->
  inv (fst (otto_def_array o k d t)).
Proof. exact otto_def_array_inv. Qed.
Print Assumptions C08_otto_define_keeps_invariant.

(* THE METHODS.  The model of otto is the 15.4.4 step lists (as builtin_array.go codes them) around otto's own
   clamps and otto's own arrayDefineOwnProperty; ES5 is the same step lists around the ES5 clamps and 15.4.5.1.
   For every method of the table (join pop push reverse shift slice splice unshift indexOf lastIndexOf every some
   forEach map filter reduce reduceRight concat toString toLocaleString), every receiver state (array or array-like, any length value,
   holes, inherited index properties, a counted length getter), every argument list and every callback script,
   exchanging the clamps
   changes neither the result nor the receiver nor the callback log, whatever [[DefineOwnProperty]] is used;
   C08_define_refines above relates the two [[DefineOwnProperty]] functions.  There is no other difference left
   between the model of otto and ES5 (toString calls join without arguments and the callback methods read length
   before the IsCallable test in both, reverse Gets both values before both presence tests in both, lastIndexOf leaves
   fromIndex alone on an empty receiver and join reads length before it converts the separator in both, since 4b9c107,
   fcc8076, c7552c5, 0a77c0d and 33e9d82). *)
Theorem C08_methods_refine :
  otto = with_otto_clamps otto_def_array /\ es5 = with_es5_clamps def_array /\
  forall df m args s,
    match method (with_otto_clamps df) m, method (with_es5_clamps df) m with
    | Some f1, Some f2 => f1 args s = f2 args s
    | None, None => True
    | _, _ => False
    end.
Proof. split; [reflexivity | split; [reflexivity | exact methods_clamps]]. Qed.
Print Assumptions C08_methods_refine.

(* ToString(n) of every integer n >= 0 is classified as the name KI n (so the 15.4.4 algorithms, which
   address elements by ToString(k), address exactly KI k), it is an array index exactly when n < 2^32 - 1,
   otto's stringToArrayIndex agrees on it, and distinct integers have distinct names *)
Theorem C08_tostring_names : forall n, 0 <= n ->
  key_of_string (dec n) = KI n /\
  array_index (key_of_string (dec n)) = (if n <? max_index then Some n else None) /\
  stringToArrayIndex (dec n) = (if n <? max_index then Some n else None) /\
  (forall m, 0 <= m -> dec m = dec n -> m = n).
Proof.
  intros n H. split; [exact (key_of_dec n H) |]. destruct (dec_array_index n H) as (A & B).
  split; [exact A | split; [exact B |]]. intros m Hm E. exact (dec_injective m n Hm H E).
Qed.
Print Assumptions C08_tostring_names.

(* non-vacuity of the guards *)
Example C08_invariant_met : inv (lit_obj [] [Some (VNum 1); None; Some (VNum 3)]) /\
  Forall no_call [OSet (KI 7) VNull; OSet KLen (VNum 1); ODef (KI 0) (mkD (Some VNull) None None (Some false)); OSet KLen (VNum 0)] /\
  len_of (final (lit_obj [] [Some (VNum 1); None; Some (VNum 3)])
                [OSet (KI 7) VNull; OSet KLen (VNum 1); ODef (KI 0) (mkD (Some VNull) None None (Some false)); OSet KLen (VNum 0)]) = 1.
Proof. split; [apply lit_inv | split; [repeat constructor | vm_compute; reflexivity]]. Qed.
Example C08_names_met : stringToArrayIndex [52; 50] = Some 42 /\ stringToArrayIndex [48; 49] = None /\
  stringToArrayIndex [43; 49] = None /\ stringToArrayIndex [45; 48] = None /\
  stringToArrayIndex [52; 50; 57; 52; 57; 54; 55; 50; 57; 53] = None.
Proof. vm_compute. repeat split. Qed.
Example C08_define_guard_met : inv (lit_obj [] [Some VNull]) /\ otto_key_index (key_of_string [48; 49]) = array_index (key_of_string [48; 49]).
Proof. split; [apply lit_inv | reflexivity]. Qed.
