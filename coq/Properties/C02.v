(* C02 - no script can crash or wedge the embedding Go program.

   PARTIAL by nature: Go memory and type safety of the interpreter is not a
   Gallina statement.  What is logic is proved here, about the model of
   error.go catchPanic, runtime.go tryCatchEvaluate / enterScope / leaveScope
   and the receiver preludes (C02/Model.v):
     - the recover boundary turns exactly the JavaScript payloads into error
       results and re-panics exactly the others, so a public entry point lets
       a panic escape only if some callee raised a non-JavaScript payload;
     - the depth guard: for every limit and nesting, RangeError iff the
       nesting reaches the limit; depth stays below the limit; the scope
       chain is restored however the evaluation ends;
     - every receiver prelude yields an object or a TypeError, never a
       foreign payload (charAt/charCodeAt included since their repair).
   The remaining claim - no reachable built-in raises a foreign payload - is a
   finite product that the correspondence run enumerates on the interpreter
   built from /repo (C02/Corr.v), over the inventory that
   C02_inventory_covered ties to the discipline table.
   Only statements here; proofs are in C02/Proofs.v and C02/ProofsCorr.v. *)
From Coq Require Import ZArith Bool List String.
From Otto Require Import C02.Model C02.Proofs C02.Inventory C02.Table C02.Corr C02.ProofsCorr.
Import ListNotations.
Open Scope Z_scope.

(* error.go catchPanic over the closed sum of payloads: every JavaScript payload
   becomes an error result (since dae90c4 also a thrown object whose own
   toString throws: finding C02-throw-tostring, repaired), anything that is not a
   JavaScript payload is re-panicked as the ejected value, and nothing is ever
   swallowed into a normal return *)
Theorem C02_catchPanic_classifies : forall p,
  (is_js p = true -> exists c, catch_panic p = AErr c) /\
  (is_js p = false -> catch_panic p = APanic (Raw (eject p))) /\
  catch_panic p <> ARet.
Proof. exact catch_panic_classifies. Qed.
Print Assumptions C02_catchPanic_classifies.

Theorem C02_catchPanic_escape_iff : forall p, (exists q, catch_panic p = APanic q) <-> is_js p = false.
Proof. exact catch_panic_escape_iff. Qed.
Print Assumptions C02_catchPanic_escape_iff.

(* runtime.go tryCatchEvaluate: whatever the payload, what leaves a try statement is catchable or a JavaScript TypeError *)
Theorem C02_try_never_foreign : forall p,
  match try_catch p with TCaught _ => True | TRaised q => is_js q = true end.
Proof. exact try_catch_never_foreign. Qed.
Print Assumptions C02_try_never_foreign.

(* the reduction: a script all of whose callees raise only JavaScript payloads cannot make Run panic,
   for every limit, every shape of calls, try statements, handlers and rethrows *)
Theorem C02_no_foreign_no_escape : forall c L, leaves is_js c = true -> forall q, run L c <> APanic q.
Proof. exact run_no_escape. Qed.
Print Assumptions C02_no_foreign_no_escape.

(* ... and a payload raised below the entry point escapes exactly when it is not one *)
Theorem C02_escape_iff_foreign : forall L p, (exists q, run L (Raise p) = APanic q) <-> is_js p = false.
Proof. exact run_raise_escape_iff. Qed.
Print Assumptions C02_escape_iff_foreign.

(* a try statement between the callee and the entry point hides every payload, a foreign one too *)
Theorem C02_try_hides_every_payload : forall L p h, leaves is_js h = true -> forall q, run L (Try (Raise p) h) <> APanic q.
Proof. exact run_try_no_escape. Qed.
Print Assumptions C02_try_hides_every_payload.

(* stack depth guard, Test_stackLimit semantics: global scope is depth 0, limit L admits L-1 nested calls *)
Theorem C02_stack_guard : forall L d, 1 <= L ->
  (run L (nest d) = AErr RangeErr <-> L <= Z.of_nat d) /\
  (run L (nest d) = ARet <-> Z.of_nat d < L).
Proof. exact run_nest_iff. Qed.
Print Assumptions C02_stack_guard.

Theorem C02_stack_guard_off : forall d, run 0 (nest d) = ARet.
Proof. exact run_nest_nolimit. Qed.
Print Assumptions C02_stack_guard_off.

(* the RangeError of the guard is catchable by the script, at every limit and depth *)
Theorem C02_stack_rangeerror_catchable : forall L d, run L (Try (nest d) Ret) = ARet.
Proof. exact run_nest_caught. Qed.
Print Assumptions C02_stack_rangeerror_catchable.

(* depth never reaches the limit, for every script shape *)
Theorem C02_stack_depth_bounded : forall L c, 1 <= L -> run_max L c < L.
Proof. exact run_depth_bounded. Qed.
Print Assumptions C02_stack_depth_bounded.

(* defer leaveScope: after normal completion, RangeError or any panic the scope chain is what it was *)
Theorem C02_scope_restored : forall c L ctx st, snd (fst (eval L ctx c st)) = st.
Proof. exact eval_chain. Qed.
Print Assumptions C02_scope_restored.

(* the model evaluated in the correspondence run is the property's statement, for every history *)
Theorem C02_stack_model_is_spec : forall ops L, 0 <= L -> Forall (fun op => 0 <= snd op) ops ->
  stack_hist L ops = spec_hist L ops.
Proof. exact stack_hist_spec. Qed.
Print Assumptions C02_stack_model_is_spec.

(* receiver preludes: an object, or a JavaScript TypeError; never a foreign payload *)
Theorem C02_receiver_prelude : forall k,
  prelude_js (toObject k) = true /\ prelude_js (thisObject k) = true /\
  (forall c, prelude_js (thisClassObject c k) = true) /\
  (forall c c', thisClassObject c k = PObj c' -> c' = c) /\
  (public_kind k = true -> prelude_js (checkObjectCoercible k) = true).
Proof.
  intro k. split; [apply toObject_js|]. split; [apply thisObject_js|].
  split; [intro c; apply thisClassObject_js|]. split; [intros c c'; apply thisClassObject_class|].
  apply checkObjectCoercible_js.
Qed.
Print Assumptions C02_receiver_prelude.

(* charAt/charCodeAt (repaired by 8a02cb3, finding C02-charat-receiver): their prelude is the ES5 one
   - CheckObjectCoercible, then ToString - and like the others never raises a foreign payload *)
Theorem C02_charAt_prelude_is_spec : forall k, public_kind k = true ->
  charAt_prelude k = charAt_prelude_spec k /\ prelude_js (charAt_prelude k) = true.
Proof. exact charAt_prelude_total. Qed.
Print Assumptions C02_charAt_prelude_is_spec.

(* translator tie: every function reachable in the interpreter built from /repo
   (Inventory.v, regenerated on every run) has a row in the discipline table *)
Theorem C02_inventory_covered : forallb has_row inventory = true.
Proof. exact inventory_covered_true. Qed.
Print Assumptions C02_inventory_covered.

Theorem C02_table_unambiguous : table_unambiguous = true /\ inventory_nodup = true.
Proof. exact table_unambiguous_true. Qed.
Print Assumptions C02_table_unambiguous.

(* what the table predicts for any row, receiver and arguments never includes an escaped panic or a hang *)
Theorem C02_expectation_excludes_panic : forall d k args,
  agrees (expect d k args) 9 = false /\ agrees (expect d k args) 10 = false.
Proof. exact expect_never_panic. Qed.
Print Assumptions C02_expectation_excludes_panic.

(* non-vacuity *)
Example C02_js_met : is_js (Exc (BOttoError TypeErr)) = true /\ catch_panic (Exc (BOttoError TypeErr)) = AErr TypeErr
  /\ catch_panic (Exc (BValue VStrThrows)) = AErr OtherThrown.
Proof. repeat split. Qed.
Example C02_foreign_met : is_js (Raw BRuntimeStr) = false /\ run 0 (Call (Raise (Raw BRuntimeStr))) = APanic (Raw BRuntimeStr).
Proof. split; reflexivity. Qed.
Example C02_leaves_met : leaves is_js (Call (Try (Call (Raise (Exc (BValue VPlain)))) Rethrow)) = true
  /\ run 3 (Call (Try (Call (Raise (Exc (BValue VPlain)))) Rethrow)) = AErr OtherThrown.
Proof. split; reflexivity. Qed.
Example C02_try_swallows_foreign : run 0 (Try (Call (Raise (Raw BHost))) Ret) = AErr TypeErr.
Proof. reflexivity. Qed.
Example C02_guard_met : run 5 (nest 5) = AErr RangeErr /\ run 6 (nest 5) = ARet /\ run_max 6 (nest 5) = 5.
Proof. repeat split. Qed.
Example C02_hist_met : stack_hist 0 [(0, 2); (1, 1); (1, 2); (2, 7); (4, 0); (0, 0); (1, 50)] = [0; -1; 0; -1; 3; -1; 0; -1; 1; -1; 0; -1; 0; -1].
Proof. reflexivity. Qed.
Example C02_public_met : public_kind KNumber = true /\ checkObjectCoercible KNumber = POk.
Proof. split; reflexivity. Qed.
