(* C09 -- String methods follow ES5 15.5 with UTF-16 code-unit indexing.
   Only statements here; proofs are in C09/Proofs.v.
   Spec  = ES5 15.5.3.2 / 15.5.4.x / 15.5.5 / B.2.3 over lists of UTF-16 code units (C09/Spec.v);
   Model = otto's builtin_string.go over Go strings with its byte / rune / unit conversions (C09/Model.v);
   the correspondence run ties Model to the interpreter built from /repo on every check. *)
From Coq Require Import ZArith List Bool.
From Otto Require Import Common.Double C09.Utf C09.Spec C09.Model C09.SpecObj C09.ModelObj C09.Proofs C09.Corr.
Import ListNotations.
Open Scope Z_scope.

(* ---------- spec laws, for all unit lists and all extended-integer positions ---------- *)

(* 15.5.4.7: the result is the least match at or after min(max(pos,0),len), or -1 if there is none *)
Theorem C09_indexOf_least : forall s t p,
  let st := clamp p (zlen s) in
  let k := indexOf s t p in
  (k = -1 /\ forall j, st <= j <= zlen s -> matches_at t s j = false) \/
  (st <= k <= zlen s /\ matches_at t s k = true /\ forall j, st <= j < k -> matches_at t s j = false).
Proof. exact indexOf_least. Qed.
Print Assumptions C09_indexOf_least.

(* 15.5.4.8: the greatest match at or before the clamped position *)
Theorem C09_lastIndexOf_greatest : forall s t p,
  let st := clamp p (zlen s) in
  let k := lastIndexOf s t p in
  (k = -1 /\ forall j, 0 <= j <= st -> matches_at t s j = false) \/
  (0 <= k <= st /\ matches_at t s k = true /\ forall j, k < j <= st -> matches_at t s j = false).
Proof. exact lastIndexOf_greatest. Qed.
Print Assumptions C09_lastIndexOf_greatest.

(* slice / substring / substr interrelations *)
Theorem C09_substring_symmetric : forall s a b, substring s a (Some b) = substring s b (Some a).
Proof. exact substring_sym. Qed.
Print Assumptions C09_substring_symmetric.

Theorem C09_slice_is_substring : forall s a b, 0 <= a <= b ->
  slice s (Fin a) (Some (Fin b)) = substring s (Fin a) (Some (Fin b)).
Proof. exact slice_is_substring. Qed.
Print Assumptions C09_slice_is_substring.

Theorem C09_substr_is_slice : forall s a n, 0 <= a -> 0 <= n ->
  substr s (Fin a) (Some (Fin n)) = slice s (Fin a) (Some (Fin (a + n))).
Proof. exact substr_is_slice. Qed.
Print Assumptions C09_substr_is_slice.

Theorem C09_slice_tail_is_substr_tail : forall s k, slice s (Fin k) None = substr s (Fin k) None.
Proof. exact slice_tail_is_substr_tail. Qed.
Print Assumptions C09_slice_tail_is_substr_tail.

Theorem C09_slice_length : forall s st en,
  let len := zlen s in
  let from := rel_index st len in
  let to := match en with None => len | Some e => rel_index e len end in
  zlen (slice s st en) = Z.max (to - from) 0.
Proof. exact slice_length. Qed.
Print Assumptions C09_slice_length.

(* 15.5.4.14: split by a string, limit not reached, then join with it: the identity (every s, every separator) *)
Theorem C09_split_join : forall s sep lim, zlen s + 1 < lim ->
  join sep (split s (Some sep) lim) = s.
Proof. exact split_join. Qed.
Print Assumptions C09_split_join.

(* 15.5.4.20: otto's cut set is WhiteSpace + LineTerminator of ES5 7.2 / 7.3, for every code point *)
Theorem C09_trim_set : forall c, in_trim_set c = is_trim c.
Proof. exact trim_set_exact. Qed.
Print Assumptions C09_trim_set.

Theorem C09_trim_ends : forall s c r,
  (trim s = c :: r -> is_trim c = false) /\ (rev (trim s) = c :: r -> is_trim c = false).
Proof. exact trim_ends. Qed.
Print Assumptions C09_trim_ends.

(* ---------- refinement: otto's algorithm = ES5, for every argument list ---------- *)

(* ASCII: bytes = units, so the byte arithmetic of indexOf is exact for every position
   (negative, fractional, NaN, infinite, beyond the length, omitted) *)
Theorem C09_indexOf_refines_ascii : forall s t args, ascii s -> ascii t ->
  m_indexOf s t (length args) (arg_at args 1) =
  option_map (fun p => VInt (indexOf s t p)) (to_integer (arg_at args 1)).
Proof. exact indexOf_refines_ascii. Qed.
Print Assumptions C09_indexOf_refines_ascii.

(* no surrogate units: runes = units, so the rune-indexed methods are exact *)
Theorem C09_slice_refines_bmp : forall u args, bmp_clean u -> zlen u < 2 ^ 62 ->
  m_slice (dec16 u) args =
  match to_integer (arg_at args 0), opt_ext args 1 with
  | Some st, Some en => Some (VStr (slice u st en))
  | _, _ => None
  end.
Proof. exact slice_refines_bmp. Qed.
Print Assumptions C09_slice_refines_bmp.

Theorem C09_substring_refines_bmp : forall u args, bmp_clean u -> zlen u < 2 ^ 62 ->
  m_substring (dec16 u) args =
  match to_integer (arg_at args 0), opt_ext args 1 with
  | Some st, Some en => Some (VStr (substring u st en))
  | _, _ => None
  end.
Proof. exact substring_refines_bmp. Qed.
Print Assumptions C09_substring_refines_bmp.

(* substr: every start and every length argument, Infinity and 2^63 included (after 27b5748) *)
Theorem C09_substr_refines_bmp : forall u args, bmp_clean u -> zlen u < 2 ^ 62 ->
  m_substr (dec16 u) args =
  match to_integer (arg_at args 0), opt_ext args 1 with
  | Some st, Some ln => Some (VStr (substr u st ln))
  | _, _ => None
  end.
Proof. exact substr_refines_bmp. Qed.
Print Assumptions C09_substr_refines_bmp.

(* charAt / charCodeAt on a text that has no surrogate and no U+FFFD, every position argument *)
Theorem C09_charAt_refines_bmp : forall u a code, bmp_clean u -> ~ In 0xFFFD u -> zlen u < 2 ^ 62 ->
  option_map (fun i => m_charAt (dec16 u) i code) (int64_of a) =
  option_map (fun p => if code then charCodeAt u p else VStr (charAt u p)) (to_integer a).
Proof. exact charAt_refines_bmp. Qed.
Print Assumptions C09_charAt_refines_bmp.

(* charAt / charCodeAt are generic (after 8a02cb3): whole call, every receiver but undefined *)
Theorem C09_charAt_generic : forall m r args u,
  (m = MCharAt \/ m = MCharCodeAt) -> r <> RUndef -> this_string r = Some u ->
  bmp_clean u -> ~ In 0xFFFD u -> zlen u < 2 ^ 62 ->
  call_model m r args = call_spec m r args.
Proof. exact charAt_call_refines. Qed.
Print Assumptions C09_charAt_generic.

(* lastIndexOf on ASCII strings: every position argument - NaN (counts as +Infinity), both
   infinities, 2^63 and beyond (after 27b5748 and ea386ab) *)
Theorem C09_lastIndexOf_refines_ascii : forall s t nargs a1 b, ascii s -> ascii t -> zlen s < 2 ^ 62 ->
  (2 <= nargs)%nat -> a1 <> AUndef -> to_number a1 = Some b ->
  m_lastIndexOf s t nargs a1 =
  Some (VInt (lastIndexOf s t (if is_nan_bits b then PInf else to_integer_bits b))).
Proof. exact lastIndexOf_refines_ascii. Qed.
Print Assumptions C09_lastIndexOf_refines_ascii.

Theorem C09_lastIndexOf_refines_ascii_absent : forall s t nargs a1, ascii s -> ascii t ->
  (nargs < 2)%nat \/ a1 = AUndef ->
  m_lastIndexOf s t nargs a1 = Some (VInt (lastIndexOf s t PInf)).
Proof. exact lastIndexOf_refines_ascii_absent. Qed.
Print Assumptions C09_lastIndexOf_refines_ascii_absent.

(* ToUint32 (split limit) and ToUint16 (fromCharCode) are the ES5 functions for every double (after 02e659b) *)
Theorem C09_to_uint_exact : forall k a, go_uint k a = to_uint k a.
Proof. exact go_uint_is_to_uint. Qed.
Print Assumptions C09_to_uint_exact.

(* s[i] on a text without surrogates: the code unit for every index below the length - U+FFFD
   included (after 66edf49) - and undefined at or beyond it *)
Theorem C09_index_at_bmp : forall u i, bmp_clean u -> 0 <= i < zlen u ->
  m_index_at (dec16 u) i = VStr [unit_at u i].
Proof. exact index_at_bmp. Qed.
Print Assumptions C09_index_at_bmp.

Theorem C09_index_at_beyond : forall s i, i < 0 \/ zlen (enc16 s) <= i -> m_index_at s i = VUndef.
Proof. exact index_at_beyond. Qed.
Print Assumptions C09_index_at_beyond.

(* only the canonical decimal text of an index below 2^32-1 is an index name of a string (after 4b90749) *)
Theorem C09_index_name_canonical : forall p, 0 <= string_to_array_index p ->
  int_text (string_to_array_index p) = p /\ string_to_array_index p < 4294967295.
Proof. exact index_name_canonical. Qed.
Print Assumptions C09_index_name_canonical.

Theorem C09_trim_refines_bmp : forall u, bmp_clean u -> enc16 (m_trim (dec16 u)) = trim u.
Proof. exact trim_refines_bmp. Qed.
Print Assumptions C09_trim_refines_bmp.

(* the codecs are the identity where the refinements above need it *)
Theorem C09_codecs_identity : forall u,
  (bmp_clean u -> dec16 u = u /\ enc16 u = u) /\
  (ascii u -> enc8 u = u /\ dec8 u = u /\ utf16Length u = zlen u).
Proof.
  intro u. split; intro H.
  - split; [exact (dec16_bmp u H) | exact (enc16_bmp u H)].
  - repeat split; [exact (enc8_ascii u H) | exact (dec8_ascii u H) | exact (utf16Length_ascii u H)].
Qed.
Print Assumptions C09_codecs_identity.

(* the codecs round-trip on every sequence of Unicode scalar values (all planes):
   string([]rune) / []rune(string) and utf16.Encode / utf16.Decode as transcribed in C09/Utf.v *)
Theorem C09_utf8_roundtrip : forall s, scalars s -> dec8 (enc8 s) = s.
Proof. exact dec8_enc8. Qed.
Print Assumptions C09_utf8_roundtrip.

Theorem C09_utf16_roundtrip : forall s, scalars s -> dec16 (enc16 s) = s.
Proof. exact dec16_enc16. Qed.
Print Assumptions C09_utf16_roundtrip.

(* otto's utf16Length of a Go string is the number of UTF-16 units of that string, and the
   length of a String object is the ES5 length, for every well-formed string (astral included) *)
Theorem C09_utf16Length_is_unit_length : forall s, scalars s -> utf16Length (enc8 s) = zlen (enc16 s).
Proof. exact utf16Length_go_string. Qed.
Print Assumptions C09_utf16Length_is_unit_length.

Theorem C09_length_refines_wellformed : forall s, scalars s ->
  call_model MLength (RLit (enc16 s)) [] = call_spec MLength (RLit (enc16 s)) [].
Proof.
  intros s H. cbn [call_model call_spec this_gostring this_string]. now rewrite (dec16_enc16 s H).
Qed.
Print Assumptions C09_length_refines_wellformed.

(* ---------- receivers ---------- *)

(* every receiver other than undefined is converted by 9.10 + 9.8, in every method
   (null is rejected everywhere, substr included after dc0085d) *)
Theorem C09_generic_receiver : forall m r, r <> RUndef ->
  this_gostring m r = option_map dec16 (this_string r).
Proof. exact generic_receiver. Qed.
Print Assumptions C09_generic_receiver.

(* ---------- localeCompare: the implementation-defined order is a total order ---------- *)
Theorem C09_localeCompare_total_order : forall a b c,
  cmp_list a a = 0 /\ cmp_list b a = - cmp_list a b /\ (cmp_list a b = 0 -> a = b) /\
  (cmp_list a b = -1 \/ cmp_list a b = 0 \/ cmp_list a b = 1) /\
  (cmp_list a b = -1 -> cmp_list b c = -1 -> cmp_list a c = -1).
Proof.
  intros a b c. repeat split.
  - apply cmp_refl. - apply cmp_antisym. - apply cmp_eq. - apply cmp_range. - apply cmp_trans.
Qed.
Print Assumptions C09_localeCompare_total_order.

(* ---------- otto's deviations: refutations of "model = spec" with concrete witnesses ---------- *)

Definition n (z : Z) : arg := ANum (encode_int_or_nan z).

(* unit confusions *)
Theorem C09_units_indexOf_refuted :      (* "éa".indexOf("a", 1): the position is applied to UTF-8 bytes *)
  exists s t p, call_model MIndexOf (RLit s) [AStr t; p] <> call_spec MIndexOf (RLit s) [AStr t; p].
Proof. exists [233; 97], [97], (n 1). vm_compute. discriminate. Qed.
Print Assumptions C09_units_indexOf_refuted.

Theorem C09_units_lastIndexOf_refuted :  (* "a\U00010000b".lastIndexOf("b", 3) *)
  exists s t p, call_model MLastIndexOf (RLit s) [AStr t; p] <> call_spec MLastIndexOf (RLit s) [AStr t; p].
Proof. exists [97; 55296; 56320; 98], [98], (n 3). vm_compute. discriminate. Qed.
Print Assumptions C09_units_lastIndexOf_refuted.

Theorem C09_units_slice_refuted :        (* "a\U00010000b".slice(1, 2): runes, not units *)
  exists s a b, call_model MSlice (RLit s) [a; b] <> call_spec MSlice (RLit s) [a; b].
Proof. exists [97; 55296; 56320; 98], (n 1), (n 2). vm_compute. discriminate. Qed.
Print Assumptions C09_units_slice_refuted.

Theorem C09_units_substr_refuted :       (* "a\U00010000b".substr(2, 1) *)
  exists s a b, call_model MSubstr (RLit s) [a; b] <> call_spec MSubstr (RLit s) [a; b].
Proof. exists [97; 55296; 56320; 98], (n 2), (n 1). vm_compute. discriminate. Qed.
Print Assumptions C09_units_substr_refuted.

Theorem C09_units_split_refuted :        (* "a\U00010000b".split("") *)
  exists s, call_model MSplit (RLit s) [AStr []] <> call_spec MSplit (RLit s) [AStr []].
Proof. exists [97; 55296; 56320; 98]. vm_compute. discriminate. Qed.
Print Assumptions C09_units_split_refuted.

Theorem C09_surrogate_half_refuted :     (* "a\U00010000b".charAt(1) is U+FFFD, not the high surrogate *)
  exists s p, call_model MCharAt (RLit s) [p] <> call_spec MCharAt (RLit s) [p].
Proof. exists [97; 55296; 56320; 98], (n 1). vm_compute. discriminate. Qed.
Print Assumptions C09_surrogate_half_refuted.

Theorem C09_fffd_sentinel_refuted :      (* "�a".charCodeAt(0) is NaN *)
  exists s p, call_model MCharCodeAt (RLit s) [p] <> call_spec MCharCodeAt (RLit s) [p].
Proof. exists [65533; 97], (n 0). vm_compute. discriminate. Qed.
Print Assumptions C09_fffd_sentinel_refuted.

(* receivers *)
Theorem C09_undefined_this_refuted :     (* String.prototype.trim.call(undefined) does not throw *)
  call_spec MTrim RUndef [] = Some (VErr 6) /\ call_model MTrim RUndef [] <> Some (VErr 6).
Proof. vm_compute. split; [reflexivity|discriminate]. Qed.
Print Assumptions C09_undefined_this_refuted.

(* positions *)
(* ---------- order of argument conversions ---------- *)

(* otto converts the arguments in the ES5 step order for every method except the two early
   returns refuted below (and charAt / charCodeAt convert the position before this, also refuted); every argument list, every mix of primitive and effectful arguments *)
Theorem C09_conversion_order : forall m this eargs, m <> MSplit -> m <> MLastIndexOf ->
  plan_model m this eargs = plan_spec m eargs.
Proof. intros m this eargs H1 H2. destruct m; try reflexivity; congruence. Qed.
Print Assumptions C09_conversion_order.

Theorem C09_lastIndexOf_order : forall this eargs, this <> [] ->
  plan_model MLastIndexOf this eargs =
  (0%nat, KS) :: (if (length eargs <? 2)%nat || e_undef (earg_at eargs 1) then [] else [(1%nat, KN)]).
Proof. intros this eargs H. destruct this; [congruence|]. cbn [plan_model is_nil]. now rewrite Bool.orb_false_r. Qed.
Print Assumptions C09_lastIndexOf_order.

Theorem C09_charAt_converts_position_first_refuted :   (* String.prototype.charAt.call(thisObject, posObject) *)
  exists st, model_step st = Some (VStr [98], [3; 0]) /\ spec_step st = Some (VStr [98], [0; 3]).
Proof.
  exists (Some MCharAt, ERObj 0 [97; 98] false, [EObj 1 [] (encode_int_or_nan 1) false false]).
  vm_compute. split; reflexivity.
Qed.
Print Assumptions C09_charAt_converts_position_first_refuted.

Theorem C09_split_skips_separator_refuted :   (* "a,b".split(sepObject, 0): separator.toString not called *)
  exists st, model_step st = Some (VList [], []) /\ spec_step st = Some (VList [], [2]).
Proof.
  exists (Some MSplit, ERLit [97; 44; 98], [EObj 1 [44] 0 false false; EPlain (ANum 0)]).
  vm_compute. split; reflexivity.
Qed.
Print Assumptions C09_split_skips_separator_refuted.

Theorem C09_lastIndexOf_skips_position_refuted :   (* "".lastIndexOf("c", posObject): posObject.valueOf not called *)
  exists st, model_step st = Some (VInt (-1), []) /\ spec_step st = Some (VInt (-1), [5]).
Proof.
  exists (Some MLastIndexOf, ERLit [], [EPlain (AStr [99]); EObj 2 [120] (encode_int_or_nan 3) false false]).
  vm_compute. split; reflexivity.
Qed.
Print Assumptions C09_lastIndexOf_skips_position_refuted.

Theorem C09_prototype_tostring_refuted :   (* String.prototype.toString = () => "zzz"; "aaa".indexOf("a") *)
  exists x s t, call_model MIndexOf (patch_model MIndexOf (RLit s) x) [AStr t] = Some (VInt (-1)) /\
                call_spec MIndexOf (patch_spec (RLit s) x) [AStr t] = Some (VInt 0).
Proof. exists [122; 122; 122], [97; 97; 97], [97]. vm_compute. split; reflexivity. Qed.
Print Assumptions C09_prototype_tostring_refuted.

(* ---------- index properties of String objects (15.5.5.2) ---------- *)

(* at or beyond the length the ordinary property map alone answers, in every state *)
Theorem C09_index_beyond_is_ordinary : forall u st k, zlen u <= k \/ k < 0 ->
  own_get u st LS k = lookup k (m_s st).
Proof. exact own_get_beyond. Qed.
Print Assumptions C09_index_beyond_is_ordinary.

(* below the length: the code unit, read-only, enumerable, permanent; writes and deletes are refused *)
Theorem C09_index_inrange : forall u st k v, 0 <= k < zlen u -> lookup k (m_s st) = None ->
  own_get u st LS k = Some (PData (PStr [unit_at u k]) false true false) /\
  put u st LS k v = st /\ delete u st LS k = (st, false).
Proof.
  intros u st k v H L. split; [exact (own_get_inrange u st k H L) | exact (inrange_write_refused u st k v H L)].
Qed.
Print Assumptions C09_index_inrange.

(* otto's defineProperty = ES5 at or beyond the length of the String object and on both prototypes *)
Theorem C09_define_beyond_refines : forall u st l k d,
  (l = LS -> zlen u <= k \/ k < 0) ->
  define_model u st l k d = define_spec u st l k d.
Proof. exact define_beyond_refines. Qed.
Print Assumptions C09_define_beyond_refines.

Theorem C09_define_inrange_refuted :   (* s = new String("abc"); Object.defineProperty(s, "1", {value: "x"}); s[1] *)
  exists u ops, run_obj (model_obj u) empty_state ops = Some [VInt 1; VStr [120]] /\
                run_obj (spec_obj u) empty_state ops = Some [VErr 6; VStr [98]].
Proof.
  exists [97; 98; 99], [ODefine LS 1 (DD (Some (PStr [120])) None None None); OGet 1].
  vm_compute. split; reflexivity.
Qed.
Print Assumptions C09_define_inrange_refuted.

(* writes through a primitive string (8.7.2) leave no trace, whatever the state *)
Theorem C09_primitive_writes_vanish : forall define keys call u st k v m n,
  step_obj define keys call u st (OSetPrim k v) = Some (st, VUndef) /\
  step_obj define keys call u st (OSetPrimMethod m) = Some (st, VUndef) /\
  step_obj define keys call u st (OSetLenPrim n) = Some (st, VUndef).
Proof. exact primitive_writes_vanish. Qed.
Print Assumptions C09_primitive_writes_vanish.

(* an empty argument list behaves as an explicit undefined, in otto and in ES5, for every method and receiver *)
Theorem C09_missing_argument_is_undefined : forall m r,
  m <> MConcat -> call_model m r [] = call_model m r [AUndef] /\ call_spec m r [] = call_spec m r [AUndef].
Proof. exact missing_argument_is_undefined. Qed.
Print Assumptions C09_missing_argument_is_undefined.

(* ---------- non-vacuity: the hypotheses above are met by concrete values ---------- *)
Example C09_ascii_hyp_met : ascii [97; 98; 99] /\ bmp_clean [233; 26085; 97] /\ ~ In 0xFFFD [233; 26085; 97] /\ zlen [233; 26085; 97] < 2 ^ 62.
Proof.
  split; [repeat constructor; cbv; discriminate|].
  split; [repeat constructor; cbv; discriminate|].
  split; [cbn [In]; intros [H|[H|[H|[]]]]; discriminate|reflexivity].
Qed.
Example C09_scalars_hyp_met : scalars [97; 233; 26085; 65536; 1114111] /\
  enc16 [97; 233; 26085; 65536; 1114111] = [97; 233; 26085; 55296; 56320; 56319; 57343].
Proof. split; [repeat (constructor; [reflexivity|]); constructor | reflexivity]. Qed.
Example C09_charAt_generic_hyp_met : this_string (RNumR 5) = Some [53] /\ RNumR 5 <> RUndef /\
  call_model MCharAt (RNumR 5) [n 0] = Some (VStr [53]).
Proof. repeat split; discriminate. Qed.
Example C09_lastIndexOf_hyp_met : to_number (ANum nan_bits) = Some nan_bits /\
  call_model MLastIndexOf (RLit [97; 98; 99; 97; 98; 99]) [AStr [99]; ANum nan_bits] = Some (VInt 5) /\
  call_model MLastIndexOf (RLit [97; 98; 97]) [AStr [97]; ANum ninf_bits] = Some (VInt 0) /\
  call_model MLastIndexOf (RLit [97; 98; 99]) [AStr [99]; n (2 ^ 63)] = Some (VInt 2).
Proof. vm_compute. repeat split. Qed.
Example C09_index_fffd_met : bmp_clean [65533; 97] /\ m_index (dec16 [65533; 97]) [48] = VStr [65533].
Proof. split; [repeat constructor; cbv; discriminate | vm_compute; reflexivity]. Qed.
Example C09_index_name_hyp_met : string_to_array_index [49; 50] = 12 /\ string_to_array_index [48; 49] = -1.
Proof. vm_compute. split; reflexivity. Qed.
Example C09_split_join_hyp_met : zlen [97; 44; 98] + 1 < 2 ^ 32 - 1 /\
  split [97; 44; 98] (Some [44]) (2 ^ 32 - 1) = [[97]; [98]] /\ join [44] [[97]; [98]] = [97; 44; 98].
Proof. vm_compute. repeat split. Qed.
Example C09_slice_hyp_met : 0 <= 1 <= 2 /\ slice [97; 98; 99] (Fin 1) (Some (Fin 2)) = [98].
Proof. vm_compute. repeat split; discriminate. Qed.
Example C09_order_hyp_met : MIndexOf <> MSplit /\ MIndexOf <> MLastIndexOf /\
  plan_spec MIndexOf [EPlain AUndef; EPlain AUndef] = [(0%nat, KS); (1%nat, KN)] /\ [97] <> (@nil Z).
Proof. repeat split; discriminate. Qed.
Example C09_index_hyp_met : 0 <= 1 < zlen [97; 98; 99] /\ lookup 1 (m_s empty_state) = None /\
  run_obj (spec_obj [97; 98; 99]) empty_state [OSet LS 5 (PNum 7); OGet 5; OSet LS 1 (PNum 7); OGet 1] =
  Some [VUndef; VInt 7; VUndef; VStr [98]].
Proof. vm_compute. repeat split; discriminate. Qed.
Example C09_missing_argument_met : MIndexOf <> MConcat /\
  call_spec MIndexOf (RLit [120; 117; 110; 100; 101; 102; 105; 110; 101; 100]) [] = Some (VInt 1).
Proof. split; [discriminate | vm_compute; reflexivity]. Qed.
Example C09_receiver_hyp_met : RNumR 5 <> RUndef /\ this_gostring MTrim (RNumR 5) = Some [53] /\
  call_model MSubstr RNull [n 1] = Some (VErr 6).
Proof. repeat split; try discriminate. Qed.
