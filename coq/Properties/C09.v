(* C09 -- String methods follow ES5 15.5 with UTF-16 code-unit indexing.
   Only statements here; proofs are in C09/Proofs.v. *)
From Coq Require Import ZArith List Bool.
From Otto Require Import Common.Double C09.Utf C09.Spec C09.Model C09.Proofs.
Import ListNotations.
Open Scope Z_scope.

Theorem C09_trim_set : forall c, in_trim_set c = is_trim c.
Proof. exact trim_set_exact. Qed.
Print Assumptions C09_trim_set.
