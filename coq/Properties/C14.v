(* C14 — the standard library has the ES5 shape: every binding, arity and attribute.
   Only statements here; proofs are in C14/Proofs.v.

   [configs] = the four dumps of C14/Observed.v, REGENERATED on every run of
   tools/check from the interpreter built from the working tree: a fresh
   runtime, a runtime with underscore loaded, a Copy() and a copy of a copy.
   [all_props]/[all_objs] = the hand-written table C14/Es5Table.v of ES5.1
   15.1-15.12 + B.2 (and of what 10.6, 13.2, 15.3.4.5, 15.4.5, 15.5.5, 15.10.7
   ... require of freshly made objects).  The space is finite and enumerated
   exhaustively: the boolean checks are evaluated by vm_compute and lifted to
   the quantified statements below.  [exceptions] is the explicit list of
   recorded deviations of the pinned otto (findings/C14.json). *)
From Coq Require Import List ZArith Bool String.
From Otto Require Import C14.Shape C14.Es5Table C14.Check C14.Bindings C14.Observed C14.GenInput C14.GenCheck C14.Proofs.
Import ListNotations.
Open Scope string_scope.

(* every ES5 entry is present, in every configuration, with the specified kind, value,
   function length, [[Class]]/[[Prototype]] of the function object and attributes:
   each check an entry fails is one of the listed deviations *)
Theorem C14_complete : forall d e, In d configs -> In e all_props ->
  forall w, In w (entry_fails e (observe d (e_owner e) (e_name e))) ->
  excused exceptions (e_owner e) (e_name e) w = true.
Proof. exact complete_props. Qed.
Print Assumptions C14_complete.

(* ... and entries without a listed deviation conform with no failed check at all *)
Theorem C14_conforming : forall d e, In d configs -> In e all_props ->
  predicted exceptions (e_owner e) (e_name e) = [] ->
  entry_fails e (observe d (e_owner e) (e_name e)) = [].
Proof. exact conforming_props. Qed.
Print Assumptions C14_conforming.

(* in particular the entries that used to deviate and were repaired in /repo (function lengths of
   Math.atan2 / Number.prototype.toString / toLocaleString, enumerable String indices, the time
   value NaN of Date.prototype, [[Class]] "Error" of the NativeError prototypes) conform outright *)
Theorem C14_repaired_entries_conform : forall d e, In d configs -> In e all_props ->
  In (e_owner e, e_name e) repaired_props -> entry_fails e (observe d (e_owner e) (e_name e)) = [].
Proof. exact repaired_props_conform. Qed.
Print Assumptions C14_repaired_entries_conform.

Theorem C14_repaired_objects_conform : forall d oe, In d configs -> In oe all_objs ->
  In (oe_path oe) repaired_objs -> oentry_fails oe (find_obj d (oe_path oe)) = [].
Proof. exact repaired_objs_conform. Qed.
Print Assumptions C14_repaired_objects_conform.

(* the standard objects themselves: typeof, [[Class]], [[Prototype]], [[Extensible]], primitive value *)
Theorem C14_objects : forall d oe, In d configs -> In oe all_objs ->
  forall w, In w (oentry_fails oe (find_obj d (oe_path oe))) ->
  excused exceptions (oe_path oe) "" w = true.
Proof. exact complete_objs. Qed.
Print Assumptions C14_objects.

(* no property of any object reachable from the global object is enumerable,
   except what the host / a loaded library put there (console, $native, _ ) *)
Theorem C14_builtins_not_enumerable : forall d p, In d configs -> In p (d_props d) ->
  host_owned (p_owner p) (p_name p) = false -> p_e p = false.
Proof. exact builtins_not_enumerable. Qed.
Print Assumptions C14_builtins_not_enumerable.

(* 15.2.3.3: getOwnPropertyDescriptor answers for every own property of every object reachable
   from the global object and of every specimen (function, bound function, Error instance ...) *)
Theorem C14_descriptors_total : forall d p, In d configs -> In p (d_props d) -> p_kind p <> PBroken.
Proof. exact descriptors_total. Qed.
Print Assumptions C14_descriptors_total.

(* constructor <-> prototype links and the [[Prototype]] of both *)
Theorem C14_links : forall d c pp, In d configs -> In (c, pp) ctors ->
  data_val d "global" c = VObj c /\
  data_val d c "prototype" = VObj (c ++ ".prototype") /\
  data_val d (c ++ ".prototype") "constructor" = VObj c /\
  proto_val d c = VObj "Function.prototype" /\
  proto_val d (c ++ ".prototype") = (if String.eqb pp "" then VNull else VObj pp).
Proof. exact links. Qed.
Print Assumptions C14_links.

Theorem C14_instance_links : forall d x, In d configs -> In x inst_links ->
  proto_val d (fst x) = VObj (snd x).
Proof. exact inst_links_ok. Qed.
Print Assumptions C14_instance_links.

(* the four configurations have the identical shape (underscore only adds [_] and what hangs off it) *)
Theorem C14_all_configs_equal :
  d_copy = d_fresh /\ d_copycopy = d_fresh /\ strip_lib d_underscore = d_fresh.
Proof. exact configs_equal. Qed.
Print Assumptions C14_all_configs_equal.

(* for-in (12.6.4), for ANY chain of own-property lists: a key is visited iff it
   was not already seen and the nearest object that has it has it enumerable *)
Theorem C14_forin_characterised : forall l seen k,
  In k (forin_flat l seen) <-> (mem k seen = false /\ first_attr k l = Some true).
Proof. exact forin_flat_iff. Qed.
Print Assumptions C14_forin_characterised.

Theorem C14_forin_hides_nonenumerable : forall l k,
  first_attr k l = Some false -> ~ In k (forin_flat l []).
Proof. exact forin_hides_nonenumerable. Qed.
Print Assumptions C14_forin_hides_nonenumerable.

(* ... hence prototypes that carry only non-enumerable properties (all the
   built-in ones, by C14_builtins_not_enumerable) never add a key to for-in *)
Theorem C14_forin_builtin_tail_invisible : forall own tail k,
  (forall x, In x tail -> snd x = false) ->
  (In k (forin_flat (own ++ tail) []) <-> In k (forin_flat own [])).
Proof. exact forin_builtin_tail_invisible. Qed.
Print Assumptions C14_forin_builtin_tail_invisible.

(* on the dumps: for-in over objects, arrays, String objects, functions, arguments, JSON
   results ... shows exactly the program's own enumerable keys *)
Theorem C14_forin_clean : forall d x, In d configs -> In x forin_expect ->
  forall k, In k (forin_of d (fst x)) <-> In k (snd x).
Proof. exact forin_clean. Qed.
Print Assumptions C14_forin_clean.

(* the binding check of the correspondence run covers every function of the table *)
Theorem C14_bindings_cover : forall e p, In e es5_props -> fun_path e = Some p ->
  exists pr, In pr probes /\ pr_id pr = p.
Proof. exact bindings_cover. Qed.
Print Assumptions C14_bindings_cover.

(* ... and every standard object that ES5 says is itself an instance of some kind (Array.prototype an
   array, Function.prototype a function, String/Boolean/Number/Date/RegExp/Error.prototype, Math,
   JSON, the global object) has a behavioural probe of its internal methods *)
Theorem C14_kind_probes_cover : forall o, In o kind_required ->
  exists pr, In pr kind_probes /\ pr_id pr = "kind:" ++ o.
Proof. exact kind_cover. Qed.
Print Assumptions C14_kind_probes_cover.

(* the 8800-line generated table, as observed at run time, is what the generator's input
   (.gen-jscore.yaml, re-read on every run into C14/GenInput.v) says under the template
   semantics of property-value.tmpl/function.tmpl: every listed property exists with the
   listed (or default) mode bits, every function entry has the listed length and its own name,
   in all four configurations - including everything otto offers beyond ES5 ... *)
Theorem C14_generated_matches_input : forall d g, In d configs -> In g gen_input -> gen_fails d g = [].
Proof. exact generated_matches_input. Qed.
Print Assumptions C14_generated_matches_input.

(* ... and the objects the generator describes carry no property that the input does not list *)
Theorem C14_nothing_beyond_input : forall d p, In d configs -> In p (d_props d) ->
  gen_owner (p_owner p) = true -> not_generated (p_owner p) (p_name p) = false ->
  gen_listed (p_owner p) (p_name p) = true.
Proof. exact nothing_beyond_input. Qed.
Print Assumptions C14_nothing_beyond_input.

(* recorded deviations of otto, as refutations of "observed = ES5" on the table itself *)
Theorem C14_exceptions_are_table_entries : forall x, In x exceptions ->
  (x_name x = "" /\ exists oe, In oe all_objs /\ oe_path oe = x_owner x) \/
  (exists e, In e all_props /\ e_owner e = x_owner x /\ e_name e = x_name x).
Proof. exact exceptions_in_table. Qed.
Print Assumptions C14_exceptions_are_table_entries.

(* Copy() of a runtime whose script deleted or rebound the global eval: the clone (as repaired by
   1f3ee72, modelled in Check.v) returns in every state of that binding, as required *)
Theorem C14_copy_total : forall st, copy_panics_model st = copy_panics_spec st.
Proof. exact copy_total. Qed.
Print Assumptions C14_copy_total.

(* Date.prototype.toJSON step 3: otto's test (model, as repaired by f1c4c70) is the ES5 one for every
   kind of primitive, Numbers, Strings and Booleans alike *)
Theorem C14_tojson_refines : forall tv, tojson_null_model tv = tojson_null_spec tv.
Proof. exact tojson_refines. Qed.
Print Assumptions C14_tojson_refines.

(* non-vacuity *)
Example C14_table_size :
  ((350 <? Z.of_nat (List.length all_props)) && (70 <? Z.of_nat (List.length all_objs)) &&
   (200 <? Z.of_nat (List.length probes)))%Z = true.
Proof. vm_compute. reflexivity. Qed.
Example C14_gen_input_nonempty : (250 <? Z.of_nat (List.length gen_input))%Z = true.
Proof. vm_compute. reflexivity. Qed.
Example C14_dump_nonempty : (100 <? Z.of_nat (List.length (d_props d_fresh)))%Z = true.
Proof. vm_compute. reflexivity. Qed.
Example C14_atan2_in_table :
  existsb (fun e => String.eqb (e_owner e) "Math" && String.eqb (e_name e) "atan2" &&
                    match e_exp e with EFun 2 => true | _ => false end) all_props = true.
Proof. vm_compute. reflexivity. Qed.
Example C14_forin_tail_hyp_met :
  forin_flat ([("a", true)] ++ [("toString", false); ("a", false)]) [] = ["a"].
Proof. vm_compute. reflexivity. Qed.
Example C14_forin_shadow : forin_flat [("x", false); ("x", true); ("y", true)] [] = ["y"].
Proof. vm_compute. reflexivity. Qed.
