(* C05 - type conversions and operators follow ES5 sections 9 and 11.
   Only statements here; proofs are in C05/Proofs.v.  Spec = the ES5 clauses
   as executable functions (C05/Spec.v, the [spec_d] dialect of C05/Eval.v),
   Model = otto's code (C05/Model.v, the [model_d] dialect).  The
   correspondence run judges the interpreter built from /repo against both on
   every generated expression. *)
From Coq Require Import ZArith Bool List.
From Otto Require Import Common.Double C05.Fp C05.Spec C05.Model C05.Eval C05.Proofs C05.ProofsStr C05.Corr.
Import ListNotations.
Open Scope Z_scope.

(* 9.5-9.7: on every bit pattern (NaN, infinities, zeros, every finite double of any magnitude)
   otto's int32/uint32/uint16(int64(math.Mod(x, 2^32))) is ToInt32 / ToUint32 / ToUint16.
   (Before /repo commit 02e659b this held only below 2^63.) *)
Theorem C05_toInt32 : forall d, m_to_int32 d = to_int32 d.
Proof. exact m_to_int32_correct. Qed.
Print Assumptions C05_toInt32.

Theorem C05_toUint32 : forall d, m_to_uint32 d = to_uint32 d.
Proof. exact m_to_uint32_correct. Qed.
Print Assumptions C05_toUint32.

Theorem C05_toUint16 : forall d, m_to_uint16 d = to_uint16 d.
Proof. exact m_to_uint16_correct. Qed.
Print Assumptions C05_toUint16.

(* the Spec functions are the residues the clauses ask for, on every bit pattern *)
Theorem C05_toInt_residues : forall d,
  (- 2 ^ 31 <= to_int32 d < 2 ^ 31 /\ (to_int32 d - pos_int d) mod 2 ^ 32 = 0) /\
  (0 <= to_uint32 d < 2 ^ 32 /\ (to_uint32 d - pos_int d) mod 2 ^ 32 = 0) /\
  (0 <= to_uint16 d < 2 ^ 16 /\ (to_uint16 d - pos_int d) mod 2 ^ 16 = 0).
Proof. intro d. split; [apply to_int32_char | split; [apply to_uint32_char | apply to_uint16_char]]. Qed.
Print Assumptions C05_toInt_residues.

(* 9.2 *)
Theorem C05_toBoolean : forall p,
  to_boolean p = false <->
  (p = PUndef \/ p = PNull \/ p = PBool false \/ p = PStr [] \/
   exists d, p = PNum d /\ (is_nan d = true \/ is_zero d = true)).
Proof. exact to_boolean_false_iff. Qed.
Print Assumptions C05_toBoolean.

(* 11.4.3 *)
Theorem C05_typeof : forall v,
  typeof_v v = match v with
               | VP PUndef => s_undefined
               | VP PNull => s_object
               | VP (PBool _) => s_boolean
               | VP (PNum _) => s_number
               | VP (PStr _) => s_string
               | VO o => if (o_cls o =? 2) || (o_cls o =? 4) then s_function else s_object
               end.
Proof. exact typeof_table. Qed.
Print Assumptions C05_typeof.

(* 11.9.3: for every dialect of the primitive conversions, every pair of values
   (primitives and objects with arbitrary scripted methods) and every state,
   otto's kind-ordered switch (calculateComparison) yields the result, the
   final state, the ToPrimitive call sequence and the completion of the
   abstract equality algorithm *)
Theorem C05_abstract_equality : forall d x y st, model_eq d 5 x y st = spec_eq d 5 x y st.
Proof.
  intros d x y st. apply model_eq_is_spec_eq.
  destruct x as [[| | | |]|]; destruct y as [[| | | |]|]; cbn; repeat constructor.
Qed.
Print Assumptions C05_abstract_equality.

(* 11.9.6 *)
Theorem C05_strict_equality : forall x y st, model_strict_eq x y st = ret (spec_strict_eq x y) st.
Proof. exact model_strict_eq_is_spec. Qed.
Print Assumptions C05_strict_equality.

(* 11.8.1-11.8.5: calculateLessThan with its operand swap, leftFirst flag and
   result table is the abstract relational comparison for < > <= >=, including
   the order of the two ToPrimitive calls and the undefined (NaN) outcome;
   the string case is relative to the dialect's string order *)
Theorem C05_relational : forall d op x y st, model_relop d op x y st = spec_relop d op x y st.
Proof. exact model_relop_is_spec. Qed.
Print Assumptions C05_relational.

(* 11.8.5 step 4, the string case: calculateLessThan's loop over the UTF-16 code units
   (skip the common prefix, then compare the first differing units or the lengths) is the
   code-unit comparison of the clause, for all strings; with C05_relational, < > <= >= of
   the otto dialect are the ES5 operators outright.  (Before /repo commit b6ed2ef otto
   compared UTF-8 bytes and a surrogate pair against U+E000..U+FFFF came out reversed.) *)
Theorem C05_relational_strings : forall a b, m_str_lt a b = units_lt a b.
Proof. exact str_lt_is_units_lt. Qed.
Print Assumptions C05_relational_strings.

(* 11.5.2: evaluateDivide's cascade of special cases is IEEE-754 division on all pairs of doubles *)
Theorem C05_divide_is_ieee : forall l r, 0 <= l < 2 ^ 64 -> 0 <= r < 2 ^ 64 -> m_divide l r = fdiv l r.
Proof. exact m_divide_is_fdiv. Qed.
Print Assumptions C05_divide_is_ieee.

(* otto's deviations, as refutations of "model = spec" with concrete witnesses *)
Definition units_inf : list Z := [105; 110; 102].                      (* "inf" *)
Definition units_1_0 : list Z := [49; 95; 48].                         (* "1_0" *)
Definition units_hexfloat : list Z := [48; 120; 49; 46; 56; 112; 49].  (* "0x1.8p1" *)
Theorem C05_tonumber_overaccepts_refuted :
  forall s, In s [units_inf; units_1_0; units_hexfloat] ->
  string_to_number s = NLNaN /\ parse_number s <> nan_bits.
Proof.
  intros s [<-|[<-|[<-|[]]]]; vm_compute; split; (reflexivity || discriminate).
Qed.
Print Assumptions C05_tonumber_overaccepts_refuted.

Definition units_hex_2p63 : list Z := [48; 120; 56; 48; 48; 48; 48; 48; 48; 48; 48; 48; 48; 48; 48; 48; 48; 48].
Theorem C05_tonumber_hex_big_refuted :
  string_to_number units_hex_2p63 = NLVal 0x43E0000000000000 /\ parse_number units_hex_2p63 = nan_bits.
Proof. vm_compute. split; reflexivity. Qed.
Print Assumptions C05_tonumber_hex_big_refuted.

(* "\uFFFF" < "\uD800\uDC00" is false by code units: the former witness of C05-strcmp *)
Example C05_strcmp_witness : m_str_lt [0xFFFF] [0xD800; 0xDC00] = false /\ m_str_lt [0xD800; 0xDC00] [0xFFFF] = true.
Proof. vm_compute. split; reflexivity. Qed.

(* var b = 2, a = {valueOf: function(){ b = 10; return 1 }}; a + b: GetValue(b) comes before
   ToPrimitive(a) (ES5 11.6.1; otto since commit 0c8f777): both dialects give 3 on the former witness *)
Definition order_obj : value :=
  VO (Build_obj 1 0 (MDo (Some (1%nat, PNum 0x4024000000000000)) (MPrim (PNum 0x3FF0000000000000))) MNone [] [90] (-1)).
Example C05_plus_order_witness :
  let vs := [order_obj; VP (PNum 0x4000000000000000)] in
  let e := EBin 0 (EVar 0) (EVar 1) in
  run model_d [] vs e = run spec_d [] vs e /\
  run spec_d [] vs e = Some (0, OP (PNum 0x4008000000000000), [OO 1; OP (PNum 0x4024000000000000)], [2]).
Proof. vm_compute. split; reflexivity. Qed.

(* var x = 1; x += (x = 5, 1): the left operand is read first (ES5 11.13.2; otto since commit 3657e0a),
   so the two dialects agree on the former witness and the result is 2 *)
Example C05_compound_order_witness :
  let vs := [VP (PNum 0x3FF0000000000000)] in
  let e := ECmp 0 0 (EBin 23 (EAsg 0 (ELit (VP (PNum 0x4014000000000000)))) (ELit (VP (PNum 0x3FF0000000000000)))) in
  run model_d [] vs e = run spec_d [] vs e /\
  run spec_d [] vs e = Some (0, OP (PNum 0x4000000000000000), [OP (PNum 0x4000000000000000)], []).
Proof. vm_compute. split; reflexivity. Qed.

(* typeof (1 ? nope : 0): 11.12 returns GetValue of the branch, so the unresolvable name throws
   ReferenceError (tag 4); (1 ? o.f : 0)() runs with the global object as this.  Former witnesses of
   C05-cond-reference, repaired by /repo commit 07b2f1f: both dialects give the ES5 result *)
Example C05_cond_reference_witness :
  let T := ELit (VP (PBool true)) in
  let e1 := EUn 4 (ECond T EUnres (ELit (VP PNull))) in
  let e2 := ECall (ECond T (EMem 1 3 PNull) (ELit (VP PNull))) in
  run model_d [] [] e1 = run spec_d [] [] e1 /\ run spec_d [] [] e1 = Some (4, OP PUndef, [], []) /\
  run model_d [] [] e2 = run spec_d [] [] e2 /\ run spec_d [] [] e2 = Some (0, OP (PNum 0), [], []).
Proof. vm_compute. repeat split; reflexivity. Qed.

(* S40.lastIndexOf("a", NaN) is 39 (15.5.4.8 step 5: NaN counts as +Infinity) and S40.lastIndexOf("a", -Infinity)
   is 0: former witnesses of C05-lastindexof-position, repaired by /repo commit ea386ab *)
Example C05_lastindexof_position_witness :
  let e1 := EUn 16 (ELit (VP (PNum nan_bits))) in
  let e2 := EUn 16 (ELit (VP (PNum ninf_bits))) in
  run model_d [] [] e1 = run spec_d [] [] e1 /\ run spec_d [] [] e1 = Some (0, OP (PNum 0x4043800000000000), [], []) /\
  run model_d [] [] e2 = run spec_d [] [] e2 /\ run spec_d [] [] e2 = Some (0, OP (PNum 0), [], []).
Proof. vm_compute. repeat split; reflexivity. Qed.

(* String(9007199254740993) *)
Theorem C05_int_repr_tostring_refuted :
  exists n, Some (int_to_string n) <> number_to_string (of_int n).
Proof. exists 9007199254740993. vm_compute. discriminate. Qed.
Print Assumptions C05_int_repr_tostring_refuted.

(* non-vacuity: the guards are met, and the Spec functions compute the textbook values *)
Example C05_toInt32_samples :
  to_int32 0x41E0000000000000 = - 2 ^ 31 /\                 (* 2^31 *)
  m_to_int32 0x43E0000000000001 = 2048 /\                   (* 2^63 + 2048, the former witness of C05-toint32 *)
  m_to_uint32 0xC3E0000000000001 = 2 ^ 32 - 2048 /\
  m_to_uint16 0x7FF0000000000000 = 0.
Proof. vm_compute. repeat split; reflexivity. Qed.
Example C05_divide_range_met : 0 <= 0x3FF0000000000000 < 2 ^ 64 /\ fdiv 0x3FF0000000000000 0x4008000000000000 = 0x3FD5555555555555.
Proof. vm_compute. split; [split; [discriminate | reflexivity] | reflexivity]. Qed.
(* 11.11, 11.14, 11.1.6: && || and the comma operator apply GetValue, parentheses keep the Reference:
   typeof (0 || nope) throws ReferenceError, typeof (nope) is "undefined";
   (0, o.f)() runs with the global object (0) as this, (o.f)() with o (id 1); delete (0, o.x) leaves o.x alone *)
Example C05_reference_samples :
  let F := ELit (VP (PBool false)) in
  run spec_d [] [] (EUn 4 (EBin 22 F EUnres)) = Some (4, OP PUndef, [], []) /\
  run model_d [] [] (EUn 4 (EBin 22 F EUnres)) = Some (4, OP PUndef, [], []) /\
  run spec_d [] [] (EUn 4 EUnres) = Some (0, OP (PStr s_undefined), [], []) /\
  run spec_d [] [] (ECall (EBin 23 F (EMem 1 3 PNull))) = Some (0, OP (PNum 0), [], []) /\
  run spec_d [] [] (ECall (EMem 1 3 PNull)) = Some (0, OP (PNum 0x3FF0000000000000), [], []) /\
  run spec_d [] [] (EBin 23 (EUn 13 (EBin 23 F (EMem 1 2 PNull))) (EMem 1 2 PNull)) = Some (0, OP PNull, [], []) /\
  run spec_d [] [] (EBin 23 (EUn 13 (EMem 1 2 PNull)) (EMem 1 2 PNull)) = Some (0, OP PUndef, [], []).
Proof. vm_compute. repeat split; reflexivity. Qed.

(* 8.12.8: valueOf returning an object falls through to toString; the call log records both *)
Definition st0 : state := {| vars := [VP PNull]; log := []; tbl := []; protos := [] |}.
Definition pure_obj : value :=
  VO (Build_obj 1 0 (MDo None MObj) (MDo None (MPrim (PStr [120]))) [] [90] (-1)).
Example C05_default_value_sample :
  to_primitive 0 pure_obj st0 = (Ok (PStr [120]), {| vars := [VP PNull]; log := [3; 2]; tbl := []; protos := [] |}).
Proof. vm_compute. reflexivity. Qed.

(* 8.12.8 does a fresh [[Get]] at every conversion: an object that inherits valueOf from its
   prototype sees the replacement installed on the prototype between two uses.
   o1 = Object.create(o91); a = o1 * 1; o91.valueOf = function(){ return 7 }; b = o1 * 1 *)
Definition proto91 : value := VO (Build_obj 91 0 (MDo None (MPrim (PNum 0x4008000000000000))) MInherit [] [90] (-1)).
Definition child1 : value := VO (Build_obj 1 0 MInherit MInherit [] [91; 90] (-1)).
Example C05_fresh_get_each_conversion :
  run spec_d [proto91] [VP PUndef; VP PUndef]
    (EBin 23 (EAsg 0 (EBin 2 (ELit child1) (ELit (VP (PNum 0x3FF0000000000000)))))
      (EBin 23 (ESetM 91 0 (MDo None (MPrim (PNum 0x401C000000000000))))
        (EAsg 1 (EBin 2 (ELit child1) (ELit (VP (PNum 0x3FF0000000000000)))))))
  = Some (0, OP (PNum 0x401C000000000000), [OP (PNum 0x4008000000000000); OP (PNum 0x401C000000000000)], [182; 182]).
Proof. vm_compute. reflexivity. Qed.

(* 15.3.5.3 step 4a: the walk starts at V.[[Prototype]]: F.prototype instanceof F is false *)
Example C05_prototype_is_not_instance :
  run spec_d [proto91] []
    (EBin 20 (ELit proto91) (ELit (VO (Build_obj 2 2 MNone MNone [] [89; 90] 91))))
  = Some (0, OP (PBool false), [], []).
Proof. vm_compute. reflexivity. Qed.

(* (new F) instanceof F.bind(null): 15.3.4.5.3 delegates to the target (otto since commit ea21c58) *)
Example C05_instanceof_bound_witness :
  let e := EBin 20 (ELit child1) (ELit (VO (Build_obj 2 4 MNone MNone [] [89; 90] 91))) in
  run model_d [proto91] [] e = run spec_d [proto91] [] e /\
  run spec_d [proto91] [] e = Some (0, OP (PBool true), [], []).
Proof. vm_compute. split; reflexivity. Qed.

Example C05_spec_samples :
  string_to_number [32; 48; 120; 49; 70; 10] = NLVal 0x403F000000000000 /\          (* " 0x1F\n" -> 31 *)
  number_to_string 0x3FB999999999999A = Some [48; 46; 49] /\                        (* 0.1 *)
  number_to_string 0x444B1AE4D6E2EF50 = Some [49; 101; 43; 50; 49] /\               (* 1e+21 *)
  fadd 0x3FB999999999999A 0x3FC999999999999A = 0x3FD3333333333334.                 (* 0.1 + 0.2 *)
Proof. vm_compute. repeat split; reflexivity. Qed.
