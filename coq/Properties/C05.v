(* C05 - type conversions and operators follow ES5 sections 9 and 11. *)
From Coq Require Import ZArith List.
From Otto Require Import Common.Double C05.Fp C05.Spec C05.Model C05.Eval.
Import ListNotations.
Open Scope Z_scope.

Theorem C05_toint32_ge_2p63_refuted : exists d, m_to_int32 d <> to_int32 d.
Proof. exists 0x43E0000000000001. vm_compute. discriminate. Qed.
Print Assumptions C05_toint32_ge_2p63_refuted.
