(* C12 — Date arithmetic is the ES5 proleptic-Gregorian time-value algebra.
   Only statements here; proofs are in C12/Proofs.v.  Spec = ES5 15.9.1
   transcribed over unbounded Z; the correspondence run ties otto's Date
   (its glue + Go's time package) to these functions on every sampled
   instant, field tuple and setter history. *)
From Coq Require Import ZArith List.
From Coq Require Import Lia.
From Otto Require Import C12.Spec C12.Model C12.Proofs.
From Otto Require C12.Corr.
Import ListNotations.
Open Scope Z_scope.

(* 15.9.1.3: YearFromTime is THE year containing t, for every integer t *)
Theorem C12_year_characterised : forall t,
  TimeFromYear (YearFromTime t) <= t < TimeFromYear (YearFromTime t + 1) /\
  (forall y, TimeFromYear y <= t -> y <= YearFromTime t).
Proof. intro t; split; [exact (YearFromTime_char t) | exact (YearFromTime_largest t)]. Qed.
Print Assumptions C12_year_characterised.

(* accessor ranges, unbounded in t *)
Theorem C12_field_ranges : forall t,
  0 <= MonthFromTime t <= 11 /\ 1 <= DateFromTime t <= 31 /\
  0 <= HourFromTime t < 24 /\ 0 <= MinFromTime t < 60 /\ 0 <= SecFromTime t < 60 /\
  0 <= msFromTime t < 1000 /\ 0 <= WeekDay t < 7.
Proof.
  intro t. pose proof (time_field_ranges t) as (a & b & c & d & e).
  repeat split; try apply MonthFromTime_range; try apply DateFromTime_range; tauto.
Qed.
Print Assumptions C12_field_ranges.

(* the accessors determine the time value: composing the fields gives t back *)
Theorem C12_civil_roundtrip : forall t,
  MakeDate (MakeDay (YearFromTime t) (MonthFromTime t) (DateFromTime t))
           (MakeTime (HourFromTime t) (MinFromTime t) (SecFromTime t) (msFromTime t)) = t.
Proof. exact civil_roundtrip. Qed.
Print Assumptions C12_civil_roundtrip.

(* MakeDay with month overflow / negative months is the day 15.9.1.12 asks to "find" *)
Theorem C12_makeday_overflow : forall y m,
  let t := MakeDate (MakeDay y m 1) 0 in
  YearFromTime t = y + m / 12 /\ MonthFromTime t = m mod 12 /\ DateFromTime t = 1.
Proof. exact MakeDay_finds. Qed.
Print Assumptions C12_makeday_overflow.

Theorem C12_weekday_advances : forall t, WeekDay (t + msPerDay) = (WeekDay t + 1) mod 7.
Proof. exact WeekDay_step. Qed.
Print Assumptions C12_weekday_advances.

(* toISOString text parses back to the same time value (years 0..9999) *)
Theorem C12_iso_roundtrip : forall t,
  0 <= YearFromTime t <= 9999 -> parseISO (toISO t) = Some t.
Proof. exact iso_roundtrip. Qed.
Print Assumptions C12_iso_roundtrip.

(* an invalid date stays invalid under every history of field setters *)
Theorem C12_invalid_absorbing : forall ops,
  (forall op, In op ops -> fst op <> 6 /\ fst op <> 7) ->
  forall r, In r (set_hist set_spec None ops) -> r = None.
Proof. exact invalid_absorbing. Qed.
Print Assumptions C12_invalid_absorbing.

(* every setter history only ever yields time values inside the ES5 range *)
Theorem C12_setters_clip : forall t ops r,
  In (Some r) (set_hist set_spec t ops) -> Z.abs r <= maxTime.
Proof. exact set_results_clipped. Qed.
Print Assumptions C12_setters_clip.

Theorem C12_setUTCHours_reads_back : forall t h, 0 <= h < 24 ->
  let t' := MakeDate (Day t) (MakeTime h (MinFromTime t) (SecFromTime t) (msFromTime t)) in
  HourFromTime t' = h /\ MinFromTime t' = MinFromTime t /\ SecFromTime t' = SecFromTime t /\
  msFromTime t' = msFromTime t /\ Day t' = Day t.
Proof. exact setUTCHours_reads_back. Qed.
Print Assumptions C12_setUTCHours_reads_back.

(* otto's deviations, as refutations of "model = spec" with concrete witnesses *)
Theorem C12_timeclip_refuted : exists t, ctor_model t <> TimeClip t.
Proof. exists 8640000000000001. vm_compute. discriminate. Qed.
Print Assumptions C12_timeclip_refuted.

Theorem C12_extended_year_refuted : exists t, toISO_model t <> toISO t.
Proof. exists 8639999999999999. vm_compute. discriminate. Qed.
Print Assumptions C12_extended_year_refuted.

Theorem C12_setfullyear_invalid_refuted : exists a, set_model 6 None a <> set_spec 6 None a.
Proof. exists [Some 2000]. vm_compute. discriminate. Qed.
Print Assumptions C12_setfullyear_invalid_refuted.

(* non-vacuity: the hypotheses above are met by concrete values *)
Example C12_iso_hyp_met : 0 <= YearFromTime 1700000000000 <= 9999 /\ parseISO (toISO 1700000000000) = Some 1700000000000.
Proof. vm_compute. split; [split; discriminate | reflexivity]. Qed.

(* otto's deviation on argument conversion: the setters stop converting at the first non-finite argument and convert
   nothing on an invalid Date; ES5 converts every argument (observable through valueOf) *)
Theorem C12_setter_conversions_refuted :
  (exists args, C12.Corr.conv_model (Some 0%Z) args <> C12.Corr.conv_spec (Some 0%Z) args) /\
  (exists args, C12.Corr.conv_model None args <> C12.Corr.conv_spec None args) /\
  (forall t args, (forall a, In a args -> a <> None) -> C12.Corr.conv_model (Some t) args = C12.Corr.conv_spec (Some t) args).
Proof.
  split; [exists [None; Some 1%Z]; vm_compute; congruence|].
  split; [exists [Some 1%Z]; vm_compute; congruence|].
  intros t args H. unfold C12.Corr.conv_model, C12.Corr.conv_spec.
  induction args as [|a l IH]; [reflexivity|].
  destruct a as [z|]; [|exfalso; apply (H None); [now left|reflexivity]].
  cbn [C12.Corr.conv_upto length]. rewrite IH; [lia|]. intros b Hb. apply H. now right.
Qed.
Print Assumptions C12_setter_conversions_refuted.

(* round 6.  ToInteger (9.4) of a field given in thousandths truncates towards zero on the field itself *)
Theorem C12_toint_truncates : forall x,
  Z.abs (1000 * toint x) <= Z.abs x < Z.abs (1000 * toint x) + 1000 /\
  (0 <= x -> 0 <= toint x) /\ (x <= 0 -> toint x <= 0).
Proof. exact toint_truncates. Qed.
Print Assumptions C12_toint_truncates.

(* 15.9.5.28-41 read only the declared parameters: whatever follows them (NaN, undefined, objects) changes nothing *)
Theorem C12_surplus_arguments_ignored : forall id t a extra,
  0 <= id <= 7 -> length a = arity id -> set_spec id t (a ++ extra) = set_spec id t a.
Proof. exact surplus_ignored. Qed.
Print Assumptions C12_surplus_arguments_ignored.

(* the local-time setters with LocalTZA = 0 are the UTC setters *)
Theorem C12_local_setters_zero_offset : forall id t a,
  0 <= id <= 6 -> set_spec_z 0 (id + 10) t a = set_spec id t a.
Proof. exact local_zero_offset. Qed.
Print Assumptions C12_local_setters_zero_offset.

(* the two-digit-year rule is applied to ToInteger(year) (repaired by 875fefb): on arguments in thousandths the model
   of newDateTime is 15.9.4.3 wherever the result is a time value; 99.5 -> 1999, -0.5 -> 1900 *)
Theorem C12_twodigit_year_fraction : forall l r,
  utc_raw (tointf l) = Some r -> Z.abs r <= maxTime -> utcq_model l = utcq l.
Proof. exact utcq_model_in_range. Qed.
Print Assumptions C12_twodigit_year_fraction.

Example C12_twodigit_year_fraction_witness :
  utcq_model [Some 99500; Some 0] = Some 915148800000 /\ utcq_model [Some (-500); Some 0] = Some (-2208988800000) /\
  utcq_model [Some 100500; Some 0] = Some (-59011459200000).
Proof. vm_compute. repeat split; reflexivity. Qed.

Example C12_surplus_hyp_met : length [Some 5; Some 6] = arity 5 /\
  set_spec 5 (Some 0) ([Some 5; Some 6] ++ [None]) = set_spec 5 (Some 0) [Some 5; Some 6].
Proof. vm_compute. split; reflexivity. Qed.
