(* C10 — Regular expressions: sound translation and the ES5 matching protocol.
   Only statements here; proofs are in C10/Proofs*.v.

   Model  = otto's parser/regexp.go scanner (ModelTransform) and its protocol
            code over the Go engine (ModelProto), transcribed in Gallina;
   Spec   = ES5 15.10.1 trees with their ES5 and engine spellings (SpecSyntax),
            the 15.10.2 backtracking matcher (SpecMatch) and the protocols of
            15.10.6.2 / 15.5.4.10-14 over an abstract matcher (SpecProto).
   The correspondence run ties both to the interpreter built from /repo. *)
From Coq Require Import ZArith List Bool.
From Otto Require Import C10.SpecSyntax C10.SpecMatch C10.SpecProto C10.ModelTransform C10.ModelProto
  C10.ProofsTransform C10.ProofsProto.
Import ListNotations.
Open Scope Z_scope.

(* the hand-rolled scanner of parser/regexp.go terminates on every pattern:
   fuel (length + 1) is always enough, whatever the identifier table *)
Theorem C10_transform_total : forall idc p, transform idc p <> None.
Proof. exact transform_total. Qed.
Print Assumptions C10_transform_total.

(* for every well-formed tree of the portable subset, TransformRegExp applied to
   its ES5 spelling returns exactly its engine spelling and no error *)
Theorem C10_transform_sound : forall idc r, wf r = true -> supported r = true ->
  transform idc (print_js r) = Some (print_re2 r, false).
Proof. exact transform_supported. Qed.
Print Assumptions C10_transform_sound.

(* every well-formed tree that contains a look-ahead or a back-reference \1..\9
   (anywhere, at any nesting depth) is reported with an error *)
Theorem C10_unsupported_rejected : forall idc r, wf r = true -> supported r = false ->
  exists out, transform idc (print_js r) = Some (out, true).
Proof. intros idc r Hw Hs. exists (print_re2 r). exact (transform_unsupported idc r Hw Hs). Qed.
Print Assumptions C10_unsupported_rejected.

(* whatever the pattern (malformed ones included): when the scanner sets `invalid`
   (and TransformRegExp therefore returns "") it has also recorded an error, so
   the constructor throws; "" is never compiled in place of a malformed pattern *)
Theorem C10_invalid_has_error : forall idc p s,
  loop idc true (S (length p)) (init p) = Some s -> inv s = true -> err s <> None.
Proof. exact transform_invalid_has_error. Qed.
Print Assumptions C10_invalid_has_error.

(* ES5 15.10.4.1 on the flags (code as repaired by /repo 784edea): the constructor
   accepts them iff they contain only g, i, m, each at most once *)
Theorem C10_flags_es5 : forall l, parse_flags l <> None <-> (Forall gim l /\ NoDup l).
Proof. exact parse_flags_es5. Qed.
Print Assumptions C10_flags_es5.

(* an unmatched ")" after any well-formed tree, whatever follows: ("", error) *)
Theorem C10_unmatched_paren_invalid : forall idc r x, wf r = true ->
  transform idc (print_js r ++ 41 :: x) = Some ([], true).
Proof. exact transform_unmatched_paren. Qed.
Print Assumptions C10_unmatched_paren_invalid.

(* the error class of the constructor (code as repaired by /repo ef38bfe and
   784edea): SyntaxError (5) for flags outside 15.10.4.1 whatever the pattern and
   for an unmatched ")", TypeError (6) exactly for a well-formed tree that has
   no engine spelling, no error before the engine for the portable subset *)
Theorem C10_ctor_error_class : forall idc,
  (forall pat fl, ~ (Forall gim fl /\ NoDup fl) -> ctor_class idc pat fl = 5) /\
  (forall r x fl, wf r = true -> Forall gim fl -> NoDup fl -> ctor_class idc (print_js r ++ 41 :: x) fl = 5) /\
  (forall r fl, wf r = true -> supported r = false -> Forall gim fl -> NoDup fl -> ctor_class idc (print_js r) fl = 6) /\
  (forall r fl, wf r = true -> supported r = true -> Forall gim fl -> NoDup fl -> ctor_class idc (print_js r) fl = 0).
Proof. exact ctor_class_cases. Qed.
Print Assumptions C10_ctor_error_class.

(* 15.10.6.2, any matcher: a non-global exec ignores lastIndex, leaves it alone
   on success and writes 0 on failure *)
Theorem C10_exec_nonglobal : forall mt li s m li',
  exec_spec mt false li s = Some (m, li') ->
  (m = None -> li' = 0) /\ (m <> None -> li' = li) /\
  (forall li2, exists l2, exec_spec mt false li2 s = Some (m, l2)).
Proof. exact exec_nonglobal_lastindex. Qed.
Print Assumptions C10_exec_nonglobal.

(* ... a global exec searches from lastIndex and stores the end index or 0 *)
Theorem C10_exec_global : forall mt li s m li',
  exec_spec mt true li s = Some (m, li') ->
  match m with
  | None => li' = 0
  | Some (i, e, _) => li' = Z.of_nat e /\ 0 <= li <= Z.of_nat i /\ Z.of_nat i <= zlen s /\
                      exists c, mt s i = MOk e c
  end.
Proof. exact exec_global_lastindex. Qed.
Print Assumptions C10_exec_global.

(* all call histories on one global RegExp object, every call with its own
   subject: lastIndex always ends inside the last subject *)
Theorem C10_lastindex_in_range : forall mt,
  (forall s i e c, mt s i = MOk e c -> (i <= e <= length s)%nat) ->
  forall ss li s li', exec_seq mt true li (ss ++ [s]) = Some li' -> 0 <= li' <= zlen s.
Proof. exact exec_seq_lastindex_in_range. Qed.
Print Assumptions C10_lastindex_in_range.

(* `while (m = r.exec(s))` with a pattern that has no empty match stops after at
   most length+1 matches and leaves lastIndex at 0 *)
Theorem C10_exec_loop_terminates : forall mt,
  (forall s i e c, mt s i = MOk e c -> (i <= e <= length s)%nat) ->
  (forall s i, mt s i <> MFuel) ->
  (forall s i e c, mt s i = MOk e c -> (i < e)%nat) ->
  forall s n li, 0 <= li -> Z.max 0 (zlen s - li + 1) < Z.of_nat n ->
  exists k, exec_loop mt n li s = Some (k, 0) /\ Z.of_nat k <= Z.max 0 (zlen s - li + 1).
Proof. exact exec_loop_terminates. Qed.
Print Assumptions C10_exec_loop_terminates.

(* 15.5.4.14, any matcher: split never touches lastIndex and never returns more
   than `limit` elements, captures spliced into the result included *)
Theorem C10_split_limit : forall mt li s lim obs li',
  split_spec mt li s lim = Some (obs, li') ->
  li' = li /\ exists a, obs = OZ (llen a) :: a /\ (0 <= lim -> llen a <= Z.max lim 1 /\ (0 < lim -> llen a <= lim)).
Proof. exact split_limit. Qed.
Print Assumptions C10_split_limit.

(* 15.5.4.11, any matcher, any returned text: the result of a function replacer is
   spliced in verbatim, its $-sequences are not table-22 patterns *)
Theorem C10_replace_function_verbatim : forall mt li s ret i e c l,
  exec_spec mt false 0 s = Some (Some (i, e, c), l) ->
  replace_spec mt false li s (RFun ret) =
    Some (OS (sub s 0 i ++ fn_repl ret c ++ skipn e s) :: fn_log s (i, e, c), li).
Proof. exact replace_fun_verbatim. Qed.
Print Assumptions C10_replace_function_verbatim.

(* otto's split on the empty subject is 15.5.4.14 step 11, for any engine and any
   limit (code as repaired by /repo a84f554; given = a limit argument was passed) *)
Theorem C10_split_empty_subject : forall mt li lim given,
  (given = false -> lim <> 0) ->
  split_model mt li [] lim given = split_spec mt li [] lim.
Proof. exact split_empty_subject. Qed.
Print Assumptions C10_split_empty_subject.

(* otto's execRegExp is 15.10.6.2 whenever the search starts at the beginning
   of an ASCII subject (non-global expression, or lastIndex = 0), for any engine *)
Theorem C10_exec_protocol : forall mt g li s,
  (g = false \/ li = 0) -> ascii s ->
  (forall i e c, mt s i = MOk e c -> (e <= length s)%nat) ->
  exec_model mt all_on g li s = exec_spec mt g li s.
Proof. exact exec_model_at_start. Qed.
Print Assumptions C10_exec_protocol.

(* ---- otto's deviations, as refutations with concrete witnesses ---- *)
Definition eng (sm : sem) (r : re) : list Z -> nat -> mres :=
  fun s i => match_at sm (mkFlags false false) s (default_fuel r s) r i.
Definition lit (c : Z) : re := RCh (CLit c).

(* beyond the two guards of C10_exec_protocol it fails: /^a/g, lastIndex = 1, "aa" *)
Theorem C10_lastindex_slice_refuted : exists r li s,
  exec_model (eng es5 r) all_on true li s <> exec_spec (eng es5 r) true li s.
Proof. exists (RSeq RBol (lit 97)), 1, [97; 97]. all: vm_compute; discriminate. Qed.
Print Assumptions C10_lastindex_slice_refuted.

(* ... and on a non-ASCII subject: /a/g on "éa" stores 3, not 2 *)
Theorem C10_lastindex_units_refuted : exists r s,
  exec_model (eng es5 r) all_on true 0 s <> exec_spec (eng es5 r) true 0 s.
Proof. exists (lit 97), [233; 97]. all: vm_compute; discriminate. Qed.
Print Assumptions C10_lastindex_units_refuted.

(* the engine's repetition rules are not 15.10.2.5: a starred group of a-star, on the subject b *)
Theorem C10_captures_refuted : exists r s,
  match_at re2 (mkFlags false false) s (default_fuel r s) r 0 <>
  match_at es5 (mkFlags false false) s (default_fuel r s) r 0.
Proof. exists (RQuant (RGroup (RQuant (lit 97) QStar true)) QStar true), [98]. all: vm_compute; discriminate. Qed.
Print Assumptions C10_captures_refuted.

(* the restriction to \1..\9 in C10_unsupported_rejected is needed: with ten
   groups, the back-reference \10 is translated to \x08 without an error *)
Theorem C10_backref_octal_refuted : exists p,
  transform (fun _ => false) (p ++ [92; 49; 48]) = Some (p ++ [92; 120; 48; 56], false).
Proof.
  exists (flat_map (fun c => [40; c; 41]) [97; 98; 99; 100; 101; 102; 103; 104; 105; 106]).
  vm_compute. reflexivity.
Qed.
Print Assumptions C10_backref_octal_refuted.

(* ---- non-vacuity of the hypotheses above ---- *)
Definition sample_tree : re :=
  RSeq (RGroup (RAlt (RQuant (RClass false [CIRange (CLit 97) (CLit 99); CIEsc 100; CIBs]) (QNM 1 3) false)
                     (RCh (CUni 48 48 101 57))))
       (RSeq RWordB (RCh (CCx 74))).
Example C10_sound_hyp_met : wf sample_tree = true /\ supported sample_tree = true /\
  transform (fun _ => false) (print_js sample_tree) = Some (print_re2 sample_tree, false).
Proof. vm_compute. repeat split. Qed.

Definition sample_unsupported : re :=
  RNcGroup (RSeq (RGroup (lit 97)) (RQuant (RGroup (RSeq (RLook true (lit 98)) (RBackref 1))) QPlus true)).
Example C10_unsupported_hyp_met : wf sample_unsupported = true /\ supported sample_unsupported = false.
Proof. vm_compute. split; reflexivity. Qed.

Example C10_flags_hyp_met : parse_flags [103; 109; 105] <> None /\ parse_flags [103; 120] = None /\ parse_flags [105; 105] = None.
Proof. vm_compute. repeat split. discriminate. Qed.
Example C10_ctor_class_samples :
  ctor_class (fun _ => false) [40] [] = 5 /\ ctor_class (fun _ => false) [97] [120] = 5 /\
  ctor_class (fun _ => false) [40; 63; 61; 97; 41] [] = 6 /\ ctor_class (fun _ => false) [97] [103] = 0.
Proof. vm_compute. repeat split. Qed.

(* the ES5 matcher meets the three matcher hypotheses on a sample *)
Example C10_matcher_hyps_met :
  eng es5 (RQuant (lit 97) QPlus true) [98; 97; 97] 1%nat = MOk 3%nat [].
Proof. vm_compute. reflexivity. Qed.
Example C10_exec_protocol_hyp_met : ascii [97; 97] /\
  exec_model (eng es5 (lit 97)) all_on true 0 [97; 97] = exec_spec (eng es5 (lit 97)) true 0 [97; 97].
Proof. split; [repeat constructor | vm_compute; reflexivity]. Qed.
