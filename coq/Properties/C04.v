(* C04 — parsing is total; accepted trees are well-formed.
   Only statements here; proofs are in C04/Proofs.v.  Model = otto's Idx0/Idx1 methods,
   ast.Walk, parse-time legality flags and nextStatement, transcribed; Spec = what the
   property demands (span nesting, one Enter/Exit per non-nil node, ES5 12.7-12.14).
   The correspondence run ties both to the parser built from /repo on every generated
   program, mutation, truncation and byte string. *)
From Coq Require Import ZArith List Bool.
From Otto Require Import C04.Tree C04.Model C04.Spec C04.Proofs.
Import ListNotations.
Open Scope Z_scope.

(* spans: if every node reports a span containing its children's spans, then every node of
   the tree lies inside the root's span ... *)
Theorem C04_spans_nested : forall t, all_local_ok t = true ->
  exists ra rb, span_of t = Some (ra, rb) /\ ra <= rb /\
    forall n, In n (nodes t) ->
      exists a b, span_of n = Some (a, b) /\ ra <= a /\ a <= b /\ b <= rb.
Proof. exact spans_in_root. Qed.
Print Assumptions C04_spans_nested.

(* ... and therefore inside the file as soon as the root is *)
Theorem C04_spans_in_file : forall t base len,
  all_local_ok t = true -> in_file_b base len t = true ->
  forallb (in_file_b base len) (nodes t) = true.
Proof. exact spans_in_file. Qed.
Print Assumptions C04_spans_in_file.

(* otto's Idx1 panics on a case clause without statements, Idx0/Idx1 on an empty program and
   on the initializer of for(;;) (an empty SequenceExpression): the span property fails there.
   Witness trees are those the parser builds for the quoted sources (base 1). *)
Definition t_empty_case :=   (* switch(1){case 1:} *)
  T KProgram [] [CNode (T KSwitch [1; 18; -1]
    [CNode (T KNumber [8; 1] []); CNode (T KCase [11] [CNode (T KNumber [16; 1] [])])])].
Definition t_empty_for :=    (* for(;;); *)
  T KProgram [] [CNode (T KFor [1] [CNode (T KSequence [] []); CNil; CNil; CNode (T KEmptyStmt [8] [])])].

Theorem C04_span_empty_case_refuted : exists t, span_prop_b t 1 18 = false /\
  exists n, In n (nodes t) /\ kind_of n = KCase /\ idx1 n = None.
Proof.
  exists t_empty_case. split; [vm_compute; reflexivity|].
  exists (T KCase [11] [CNode (T KNumber [16; 1] [])]). vm_compute. intuition.
Qed.
Print Assumptions C04_span_empty_case_refuted.

Theorem C04_span_empty_program_refuted : exists t, span_prop_b t 1 0 = false /\ idx0 t = None /\ idx1 t = None.
Proof. exists (T KProgram [] []). vm_compute. auto. Qed.
Print Assumptions C04_span_empty_program_refuted.

Theorem C04_span_empty_for_init_refuted : exists t, span_prop_b t 1 8 = false /\
  exists n, In n (nodes t) /\ kind_of n = KSequence /\ idx0 n = None.
Proof.
  exists t_empty_for. split; [vm_compute; reflexivity|].
  exists (T KSequence [] []). vm_compute. intuition.
Qed.
Print Assumptions C04_span_empty_for_init_refuted.

(* Walk as the property wants it: every node of the tree is entered exactly once, in
   pre-order; exited exactly once, in post-order; calls are properly nested; no nil node *)
Theorem C04_walk_once : forall t,
  enters (walk_s no_stop t) = nodes t /\
  exits (walk_s no_stop t) = nodes_post t /\
  balanced_from 0 (walk_s no_stop t) = Some 0%nat /\
  forallb (fun e => negb (is_nil_event e)) (walk_s no_stop t) = true.
Proof.
  intro t. split; [apply walk_s_enters|]. split; [apply walk_s_exits|]. split; [|apply walk_s_no_nil].
  rewrite <- (app_nil_r (walk_s no_stop t)). apply walk_s_balanced.
Qed.
Print Assumptions C04_walk_once.

(* otto's Walk is that traversal on every tree whose nil pointers sit only in the slots Walk
   tests (BranchStatement.Label, FunctionLiteral.Name, TryStatement.Catch: the only pointer
   fields the parser leaves nil), whatever the visitor prunes *)
Theorem C04_walk_model_agrees : forall stop t, stray_typed_nil t = 0 -> walk stop t = walk_s stop t.
Proof. exact walk_agrees. Qed.
Print Assumptions C04_walk_model_agrees.

(* hence otto's Walk itself enters and exits every node exactly once, properly nested, and
   never hands a nil node to the visitor — a plain break, an anonymous function and a
   try/finally included (repaired by adb8fc0; formerly C04_walk_nil_refuted) *)
Theorem C04_walk_never_nil : forall t, stray_typed_nil t = 0 ->
  enters (walk no_stop t) = nodes t /\
  exits (walk no_stop t) = nodes_post t /\
  balanced_from 0 (walk no_stop t) = Some 0%nat /\
  forallb (fun e => negb (is_nil_event e)) (walk no_stop t) = true.
Proof.
  intros t H. rewrite (walk_agrees no_stop t H).
  split; [apply walk_s_enters|]. split; [apply walk_s_exits|]. split; [|apply walk_s_no_nil].
  rewrite <- (app_nil_r (walk_s no_stop t)). apply walk_s_balanced.
Qed.
Print Assumptions C04_walk_never_nil.

(* parse-time legality: otto's scope flags decide exactly the ES5 rules (12.7 continue, 12.8
   break, 12.9 return, 12.12 labels, 12.14 try) on every program in which each labelled
   continue names the label of an enclosing iteration statement or no label in scope ... *)
Theorem C04_early_errors : forall p, ctl_prog p = true -> accepts_m p = accepts_s p.
Proof. exact accepts_agree. Qed.
Print Assumptions C04_early_errors.

(* ... and, with no guard at all, never reject what ES5 allows *)
Theorem C04_early_no_false_reject : forall p, accepts_s p = true -> accepts_m p = true.
Proof. exact accepts_complete. Qed.
Print Assumptions C04_early_no_false_reject.

(* a: if (1) while (1) { continue a; } is accepted by otto, a SyntaxError in ES5 12.7 *)
Definition p_continue_nonloop := [SLabel 0 (SIf (SLoop (SBlock [SContinue (Some 0)])) [])].
Theorem C04_continue_nonloop_refuted : exists p, accepts_m p = true /\ accepts_s p = false.
Proof. exists p_continue_nonloop. vm_compute. auto. Qed.
Print Assumptions C04_continue_nonloop_refuted.

(* the `in` operator in the first clause of a for statement (operators outside brackets and
   outside the middle of ?:, see Model.noin_m): otto decides the ES5 NoIn rule exactly, for every
   operator sequence (the right operand of < <= > >= instanceof used to admit `in`; repaired by
   24f7b9d, formerly C04_noin_relational_refuted) *)
Theorem C04_noin_rule : forall ops, noin_m false ops = noin_s ops.
Proof. exact noin_agree. Qed.
Print Assumptions C04_noin_rule.

(* and where `in` is allowed (allowIn set: everywhere else) nothing is rejected on its account *)
Theorem C04_noin_no_false_reject : forall ops r, noin_s ops = true -> noin_m r ops = true.
Proof. exact noin_complete_r. Qed.
Print Assumptions C04_noin_no_false_reject.

(* nextStatement: one call consumes a token, or is at EOF, or leaves the input alone and
   strictly decreases a measure bounded by 11 ... *)
Theorem C04_resync_progress : forall t r c, 0 <= c ->
  let s' := next_statement t r c in
  0 <= count_of s' /\
  (t = [] \/ (length (toks_of s') < length t)%nat \/ (toks_of s' = t /\ mu s' < mu (t, r, c))).
Proof. exact next_statement_progress. Qed.
Print Assumptions C04_resync_progress.

Theorem C04_resync_measure_bounded : forall s, 0 <= count_of s -> 0 <= mu s <= 11.
Proof. exact mu_bounds. Qed.
Print Assumptions C04_resync_measure_bounded.

(* ... so a recovery loop that makes no other progress is stalled at most 12 times *)
Theorem C04_resync_stalls_bounded : forall s, 0 <= count_of s -> toks_of s <> [] ->
  (length (toks_of (iter_ns 12 s)) < length (toks_of s))%nat.
Proof. exact resync_stalls_at_most_12. Qed.
Print Assumptions C04_resync_stalls_bounded.

(* non-vacuity *)
Definition t_ok :=   (* a: while (x) { break a; }  at base 1 *)
  T KProgram [] [CNode (T KLabelled [2]
    [CNode (T KIdentifier [1; 1; 0] []);
     CNode (T KWhile [4] [CNode (T KIdentifier [11; 1; 1] []);
       CNode (T KBlock [14; 25] [CNode (T KBranch [16; 5; 0] [CNode (T KIdentifier [22; 1; 0] [])])])])])].
Example C04_spans_hyp_met : all_local_ok t_ok = true /\ in_file_b 1 25 t_ok = true /\ stray_typed_nil t_ok = 0.
Proof. vm_compute. auto. Qed.
(* the former witnesses of the typed-nil defect meet the hypothesis of C04_walk_never_nil
   although they do hold nil pointers: break without label, anonymous function, try/finally *)
Definition t_break := T KBranch [9; 5; 0] [CTypedNil].
Definition t_anon := T KFunction [5] [CTypedNil; CNode (T KBlock [15; 16] [])].
Definition t_tryfin := T KTry [1] [CNode (T KBlock [5; 6] []); CTypedNil; CNode (T KBlock [16; 17] [])].
Example C04_walk_hyp_met :
  count_typed_nil t_break = 1 /\ stray_typed_nil t_break = 0 /\ walk no_stop t_break = walk_s no_stop t_break /\
  stray_typed_nil t_anon = 0 /\ stray_typed_nil t_tryfin = 0 /\
  stray_typed_nil (T KDot [] [CNode t_break; CTypedNil]) = 1.
Proof. vm_compute. auto 10. Qed.
Example C04_early_hyp_met :
  ctl_prog [SLabel 0 (SLoop (SBlock [SContinue (Some 0); SBreak (Some 0)]))] = true /\
  accepts_s [SLabel 0 (SLoop (SBlock [SContinue (Some 0); SBreak (Some 0)]))] = true /\
  accepts_s [SLabel 0 (SBlock [SBreak (Some 1)])] = false.
Proof. vm_compute. auto. Qed.
Example C04_resync_hyp_met :
  toks_of (iter_ns 12 ([(5, true); (9, false)], 5, 0)) = [] /\
  toks_of (iter_ns 11 ([(5, true); (9, false)], 0, 0)) = [(5, true); (9, false)].
Proof. vm_compute. auto. Qed.
Example C04_noin_hyp_met :
  noin_m false [3; 1; 2] = false /\ noin_s [3; 0; 2; 3] = false /\ noin_s [3; 1; 0; 3] = true.
Proof. vm_compute. auto. Qed.
