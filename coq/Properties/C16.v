(* C16 — bridged Go functions, structs, maps and slices convert exactly or fail
   loudly.  Only statements here; proofs are in C16/Proofs*.v.  Model = otto's
   bridge code (runtime.go convertNumeric / the reflect.Func wrapper, value.go
   toReflectValue, type_go_*.go) transcribed over Z; the correspondence run
   ties it to the interpreter built from /repo on every check. *)
From Coq Require Import ZArith Bool List.
From Otto Require Import Common.Double C16.Model C16.ModelCont C16.ModelCall C16.Proofs C16.ProofsCont C16.ProofsCall.
Import ListNotations.
Open Scope Z_scope.

(* core: for every JS number (any of the eleven payload kinds, any double) and
   every Go numeric target kind, convertNumeric either raises RangeError or
   returns exactly the number the argument denotes -- provided the target is an
   integer kind or the number is representable in the float target *)
Theorem C16_convertNumeric_exact : forall s t,
  src_wf s = true ->
  (forall c, convertNumeric s t = Err c -> c = 3) /\
  (is_err (convertNumeric s t) = false ->
   is_float t = false \/ exact_for (sv_denote (SNum s)) t = true ->
   outcome_eqb (convertNumeric s t) (ideal (sv_denote (SNum s)) t) = true).
Proof.
  intros s t Hwf. split.
  - intros c. apply convertNumeric_err_class.
  - intros. now apply convertNumeric_agrees_ideal.
Qed.
Print Assumptions C16_convertNumeric_exact.

(* integer targets, no side condition at all: an Ok result has the target's
   kind, lies in its range and is the integer the JS number holds *)
Theorem C16_convertNumeric_int_sound : forall s t k n,
  src_wf s = true -> is_float t = false -> convertNumeric s t = OkI k n ->
  k = t /\ in_range t n = true /\ dc_int (sv_denote (SNum s)) = Some n.
Proof. exact convertNumeric_int_sound. Qed.
Print Assumptions C16_convertNumeric_int_sound.

Theorem C16_convertNumeric_meets_property_on_int_targets : forall s t,
  src_wf s = true -> is_float t = false -> spec_convert s t = convertNumeric s t.
Proof. exact convertNumeric_int_targets. Qed.
Print Assumptions C16_convertNumeric_meets_property_on_int_targets.

Theorem C16_convertNumeric_meets_property_on_representable : forall s t,
  src_wf s = true -> exact_for (sv_denote (SNum s)) t = true -> spec_convert s t = convertNumeric s t.
Proof. exact convertNumeric_float_targets. Qed.
Print Assumptions C16_convertNumeric_meets_property_on_representable.

(* float targets outside that guard: silent rounding (0.1 -> float32; 2^53+1 as int64 -> float64) *)
Theorem C16_float32_rounds_refuted :
  exists s, src_wf s = true /\ convertNumeric s KF32 <> spec_convert s KF32.
Proof. exists (KF64, 4591870180066957722). split; [reflexivity|]. vm_compute. discriminate. Qed.
Print Assumptions C16_float32_rounds_refuted.

Theorem C16_int64_to_float64_rounds_refuted :
  exists s, src_wf s = true /\ convertNumeric s KF64 <> spec_convert s KF64.
Proof. exists (KI64, 9007199254740993). split; [reflexivity|]. vm_compute. discriminate. Qed.
Print Assumptions C16_int64_to_float64_rounds_refuted.

(* core: element stores (toReflectValue).  A double holding an integer of the
   int64 range is stored exactly when it fits the element kind and the store
   fails otherwise ... *)
Theorem C16_toReflectValue_partial : forall p t n,
  is_float t = false ->
  dc_int (decode p) = Some n -> - 2 ^ 63 <= n < 2 ^ 63 ->
  toReflectNum (SNum (KF64, p)) t = (if in_range t n then OkI t n else Err 9) /\
  spec_store (SNum (KF64, p)) t = (if in_range t n then OkI t n else Err 3).
Proof. intros; split; [now apply store_integral_exact | now apply store_integral_spec]. Qed.
Print Assumptions C16_toReflectValue_partial.

(* ... and outside that region the code hands over other numbers silently *)
Theorem C16_store_negative_fraction_refuted :   (* s8[0] = -1.5 stores -1 *)
  exists v t, toReflectNum v t <> spec_store v t /\ toReflectNum v t = OkI KI8 (-1).
Proof. exists (SNum (KF64, 13832806255468478464)), KI8. split; [vm_compute; discriminate | reflexivity]. Qed.
Print Assumptions C16_store_negative_fraction_refuted.

Theorem C16_store_nan_refuted :                  (* s8[0] = NaN stores 0 *)
  exists v t, toReflectNum v t <> spec_store v t /\ toReflectNum v t = OkI KI8 0.
Proof. exists (SNum (KF64, nan_bits)), KI8. split; [vm_compute; discriminate | reflexivity]. Qed.
Print Assumptions C16_store_nan_refuted.

Theorem C16_store_int64_wraps_refuted :          (* s64[0] = 2^63 stores -2^63 *)
  exists v t, toReflectNum v t <> spec_store v t /\ toReflectNum v t = OkI KI64 (- 2 ^ 63).
Proof. exists (SNum (KF64, 4890909195324358656)), KI64. split; [vm_compute; discriminate | reflexivity]. Qed.
Print Assumptions C16_store_int64_wraps_refuted.

Theorem C16_store_uint64_wraps_refuted :         (* su64[0] = 2^64 stores 2^63 *)
  exists v t, toReflectNum v t <> spec_store v t /\ toReflectNum v t = OkI KU64 (2 ^ 63).
Proof. exists (SNum (KF64, 4895412794951729152)), KU64. split; [vm_compute; discriminate | reflexivity]. Qed.
Print Assumptions C16_store_uint64_wraps_refuted.

Theorem C16_store_error_is_js_refuted :          (* s8[0] = 300: a Go panic, not a RangeError *)
  exists v t, toReflectNum v t = Err 9 /\ spec_store v t = Err 3.
Proof. exists (SNum (KI64, 300)), KI8. split; reflexivity. Qed.
Print Assumptions C16_store_error_is_js_refuted.

(* core: the reflective call wrapper reports an arity mismatch exactly when
   there is one (variadic: fewer than n-1 arguments), never anything else *)
Theorem C16_arity : forall nargs variadic len,
  (arity_check nargs variadic len = 3 <->
   (variadic = false /\ len <> nargs) \/ (variadic = true /\ len < nargs - 1)) /\
  (arity_check nargs variadic len = 0 \/ arity_check nargs variadic len = 3).
Proof. intros; split; [apply arity_error_iff | apply arity_never_other]. Qed.
Print Assumptions C16_arity.

(* when the call proceeds, argument i is converted against a declared
   parameter that exists: the fixed ones as declared, the variadic tail
   element-wise against the last; all arguments are handed over *)
Theorem C16_variadic_assignment : forall nargs variadic len i,
  0 <= nargs -> (variadic = true -> 1 <= nargs) ->
  arity_check nargs variadic len = 0 -> 0 <= i < len ->
  let '(n, elem) := param_for nargs variadic i in
  0 <= n < nargs /\
  (elem = false -> n = i /\ (variadic = true -> i < nargs - 1)) /\
  (elem = true -> variadic = true /\ n = nargs - 1 /\ nargs - 1 <= i).
Proof. exact param_for_in_range. Qed.
Print Assumptions C16_variadic_assignment.

Theorem C16_call_shape : forall nargs variadic len,
  arity_check nargs variadic len = 0 ->
  let '(fixed, tail) := call_shape nargs variadic len in fixed + tail = len /\ 0 <= tail.
Proof. exact call_shape_total. Qed.
Print Assumptions C16_call_shape.

(* core: aliasing.  Every interleaving of script-side and Go-side reads, writes
   and deletes on a bridged slice -- handed over by value (addr = false) or held
   in a struct field reached through a pointer (addr = true) -- that does not
   change its length behaves as ONE shared list: otto's machine (backing
   arrays, a header per side, a fresh wrapper per access) refines it for all
   histories, all initial contents and capacities *)
Theorem C16_container_alias : forall addr elems cap ops,
  forallb (stable_op (Z.of_nat (length elems))) ops = true ->
  srun addr false (sinit elems cap) ops = vrun elems ops.
Proof. exact slice_alias. Qed.
Print Assumptions C16_container_alias.

(* ... and on that shared list a read from the script returns the last value
   written by Go to that cell and every other cell is untouched *)
Theorem C16_shared_list_last_write : forall l i x,
  0 <= i < Z.of_nat (length l) ->
  let '(l1, _) := vstep l (GSet i x) in
  snd (vstep l1 (JGet i)) = o_num x /\
  forall j, 0 <= j < Z.of_nat (length l) -> j <> i -> snd (vstep l1 (JGet j)) = snd (vstep l (JGet j)).
Proof. exact shared_list_last_write. Qed.
Print Assumptions C16_shared_list_last_write.

(* outside the stable fragment the refinement fails: growth through a struct
   field goes to a copy, shrinking a by-value slice panics *)
Theorem C16_field_append_lost_refuted :
  exists elems cap ops, srun true false (sinit elems cap) ops <> srun true true (sinit elems cap) ops.
Proof. exact field_append_lost_refuted. Qed.
Print Assumptions C16_field_append_lost_refuted.

Theorem C16_slice_shrink_panics_refuted :
  exists elems cap ops, srun false false (sinit elems cap) ops = [o_err 9] /\
                        srun false true (sinit elems cap) ops = [o_num 3].
Proof. exact slice_shrink_panics_refuted. Qed.
Print Assumptions C16_slice_shrink_panics_refuted.

(* bridged maps: a script write is what Go reads (and the script reads back),
   other keys are untouched, a delete from either side is seen by the other *)
Theorem C16_map_alias : forall ideal m k v x,
  conv_elem ideal v = inl x ->
  let '(m1, _) := mstep ideal m (MJSet k v) in
  snd (mstep ideal m1 (MGGet k)) = o_num x /\ snd (mstep ideal m1 (MJGet k)) = o_num x /\
  (forall k', k' <> k -> snd (mstep ideal m1 (MGGet k')) = snd (mstep ideal m (MGGet k'))) /\
  snd (mstep ideal (fst (mstep ideal m1 (MGDel k))) (MJGet k)) = o_undef /\
  snd (mstep ideal (fst (mstep ideal m1 (MJDel k))) (MGGet k)) = o_undef.
Proof. exact map_alias. Qed.
Print Assumptions C16_map_alias.

(* bridged structs: fieldIndexByName only ever returns an exported field that is
   not hidden by json:"-" and that carries the name as its tag or Go name, for
   every field table ... *)
Theorem C16_field_lookup_sound : forall fs name i,
  field_index fs name O = Some (i, None) ->
  exists f, nth_error fs i = Some f /\ f_exp f = true /\ f_tag f <> -1 /\
            ((f_tag f <> 0 /\ f_tag f = name) \/ f_name f = name).
Proof.
  intros fs name i H. destruct (field_index_sound fs name O i H) as (f & F1 & _ & F2).
  exists f. rewrite Nat.sub_0_r in F1. auto.
Qed.
Print Assumptions C16_field_lookup_sound.

(* ... and a script write under a name that resolves is what the script reads
   back under that name and what Go finds in the field *)
Theorem C16_struct_read_your_write : forall fs upper methods ideal s name v x p,
  field_index fs name O = Some p -> conv_field ideal v = inl x ->
  (fst p < length (vals s))%nat ->
  (match snd p with Some j => j | None => O end < length (nth (fst p) (vals s) []))%nat ->
  let '(s1, r) := tstep fs upper methods ideal s (TJSet name v) in
  r = o_ok /\
  snd (tstep fs upper methods ideal s1 (TJGet name)) = o_num x /\
  snd (tstep fs upper methods ideal s1 (TGGet p)) = o_num x.
Proof. exact struct_read_your_write. Qed.
Print Assumptions C16_struct_read_your_write.

Theorem C16_dash_tag_write_dropped_refuted :
  exists fs upper s name v,
    let m := trun fs upper [] false s [TJSet name v; TJGet name] in
    let i := trun fs upper [] true s [TJSet name v; TJGet name] in
    m = [o_ok; o_num 4] /\ i = [o_ok; o_num 8].
Proof. exact dash_tag_write_dropped_refuted. Qed.
Print Assumptions C16_dash_tag_write_dropped_refuted.

(* structural conversion: a slice parameter is built element by element from the
   array, each present element by the same conversion against the element
   type, holes as the zero value, for every array and element type *)
Theorem C16_slice_elementwise : forall ideal ids f l e gs,
  conv ideal ids (S f) (JArr l) (TSlice e) = CV (GVSlice gs) ->
  Forall2 (fun o g => match o with
                      | Some x => conv ideal ids f x e = CV g
                      | None => g = zero (S f) e
                      end) l gs.
Proof. exact slice_elementwise. Qed.
Print Assumptions C16_slice_elementwise.

(* a call of a non-variadic function: count mismatch is a RangeError; otherwise
   one Go value per argument, in order, each the conversion of that argument
   against the declared parameter *)
Theorem C16_call_elementwise : forall ideal ids fuel tys args,
  (length args <> length tys -> call ideal ids fuel tys false args = CE 3) /\
  (forall gs, call ideal ids fuel tys false args = CV (GVStruct gs) ->
     length args = length tys /\
     Forall2 (fun at_ g => conv ideal ids fuel (fst at_) (snd at_) = CV g) (combine args tys) gs).
Proof. exact call_fixed_elementwise. Qed.
Print Assumptions C16_call_elementwise.

(* and the numeric leaves of every such structure are the kernel above *)
Theorem C16_leaf_is_kernel : forall f s k,
  src_wf s = true -> conv false false (S f) (JNum s) (TNum k) = gv_of_outcome (convertNumeric s k).
Proof. exact leaf_is_kernel. Qed.
Print Assumptions C16_leaf_is_kernel.

(* re-entrancy: whatever bridged calls run while the arguments of a call are
   being converted, a call that completes reaches Go after them and with exactly
   its own argument values (in the model; the correspondence run checks otto against it) *)
Theorem C16_reentrant_args_intact : forall f fn args l,
  ev_call (S f) (RCall fn args) = (l, true) ->
  exists before, l = before ++ [(fn, map rarg_val args)].
Proof. exact reentrant_args_intact. Qed.
Print Assumptions C16_reentrant_args_intact.

(* an argument whose conversion fails aborts the call: Go never receives it *)
Theorem C16_reentrant_failure_aborts : forall f fn inner post,
  ev_call (S f) (RCall fn (RReFail inner :: post)) = (fst (ev_seq (ev_call f) inner), false).
Proof. exact reentrant_failure_aborts. Qed.
Print Assumptions C16_reentrant_failure_aborts.

(* call arguments alias too: a struct held by value inside a pointer-bridged
   struct, passed to a pointer parameter, is the live struct (the callee's
   writes are read back by both sides); a value parameter gets a copy *)
Theorem C16_pointer_param_alias : forall st by_ js,
  (2 <= length st)%nat ->
  let '(st1, r) := pstep st (PBump 0 0 by_) in
  r = o_num (nth 0 st 0 + by_) /\ snd (pstep st1 (PRead js 0)) = o_num (nth 0 st 0 + by_) /\
  snd (pstep st1 (PRead js 1)) = o_num 1.
Proof. exact pointer_param_alias. Qed.
Print Assumptions C16_pointer_param_alias.

Theorem C16_value_param_copies : forall st t by_, fst (pstep st (PBump t 1 by_)) = st.
Proof. exact value_param_copies. Qed.
Print Assumptions C16_value_param_copies.

(* the aliasing theorem is about histories without non-index properties; those
   embed into the full machine that the correspondence run evaluates ... *)
Theorem C16_expando_free_embeds : forall addr ideal ops s,
  sxrun addr ideal (s, None) (map XS ops) = srun addr ideal s ops.
Proof. exact sxrun_embed. Qed.
Print Assumptions C16_expando_free_embeds.

(* ... and delete of a non-index property of a bridged slice (repaired in 1f2d1fa:
   it used to recurse until the stack overflowed) is total: true, store untouched, property gone *)
Theorem C16_delete_nonindex_total : forall addr ideal s xp,
  let '((s', xp'), r) := sxstep addr ideal (s, xp) XDel in
  r = o_bool true /\ s' = s /\ xp' = None /\
  snd (sxstep addr ideal (s', xp') XGet) = o_undef /\
  snd (sxstep addr ideal (s', xp') XHas) = o_bool false.
Proof. exact delete_nonindex_total. Qed.
Print Assumptions C16_delete_nonindex_total.

(* results are values, not views of a shared buffer: what was kept from call j of
   a history shows the row of call j whatever is called afterwards *)
Theorem C16_results_retained : forall rows calls more j,
  (j < length calls)%nat ->
  nth j (ret_hist rows (calls ++ more)) [] = nth j (ret_hist rows calls) [].
Proof. exact results_retained. Qed.
Print Assumptions C16_results_retained.

(* a script write through a container element that is a struct held by value is
   refused (never answered with plain success) and leaves the container as it was *)
Theorem C16_elem_write_refused : forall ideal st try cell v,
  fst (pxstep ideal st (PWriteElem try cell v)) = st /\
  snd (pxstep ideal st (PWriteElem try cell v)) <> o_ok.
Proof. exact elem_write_refused. Qed.
Print Assumptions C16_elem_write_refused.

(* bridged maps with narrow integer keys: a property name outside the key type's
   range denotes no key (never found, writes and deletes under it leave the map
   alone); an in-range name is exactly the Go key *)
Theorem C16_key_out_of_range_is_no_key : forall ideal k n m v,
  is_float k = false -> in_range k n = false ->
  snd (kstep ideal (KKNum k) m (KGet (NInt n))) = o_undef /\
  snd (kstep ideal (KKNum k) m (KHas (NInt n))) = o_bool false /\
  fst (kstep ideal (KKNum k) m (KSet (NInt n) v)) = m /\
  fst (kstep ideal (KKNum k) m (KDel (NInt n))) = m.
Proof. exact key_out_of_range_is_no_key. Qed.
Print Assumptions C16_key_out_of_range_is_no_key.

Theorem C16_key_in_range_aliases : forall ideal k n m v x,
  is_float k = false -> in_range k n = true -> conv_elem ideal v = inl x ->
  let m1 := fst (kstep ideal (KKNum k) m (KSet (NInt n) v)) in
  snd (kstep ideal (KKNum k) m1 (KGGet n)) = o_num x /\
  snd (kstep ideal (KKNum k) m1 (KGet (NInt n))) = o_num x.
Proof. exact key_in_range_aliases. Qed.
Print Assumptions C16_key_in_range_aliases.

(* JavaScript callbacks for Go func parameters: undefined is not a number, a thrown exception surfaces *)
Theorem C16_callback_undefined_is_not_a_number : forall idn ids k,
  cb_call idn ids (ROne (TNum k)) (CbRet JUndef) = CE 6.
Proof. exact callback_undefined_is_not_a_number. Qed.
Print Assumptions C16_callback_undefined_is_not_a_number.

Theorem C16_callback_throw_surfaces : forall idn ids rt c,
  rt <> RTwo -> cb_call idn ids rt (CbThrow c) = CE c.
Proof. exact callback_throw_surfaces. Qed.
Print Assumptions C16_callback_throw_surfaces.

(* named map types with methods: a live entry wins over a method of the same
   name (reads its value, a script write updates it and Go sees the update) ... *)
Theorem C16_entry_shadows_method : forall ideal methods len_id m k v0 v x,
  m_get m k = Some v0 -> conv_elem ideal v = inl x ->
  snd (nstep ideal methods len_id m (NM (MJGet k))) = o_num v0 /\
  let m1 := fst (nstep ideal methods len_id m (NM (MJSet k v))) in
  snd (nstep ideal methods len_id m1 (NM (MJGet k))) = o_num x /\
  snd (nstep ideal methods len_id m1 (NM (MGGet k))) = o_num x.
Proof. exact entry_shadows_method. Qed.
Print Assumptions C16_entry_shadows_method.

(* ... but a script write under a method name that is not yet a key is dropped *)
Theorem C16_method_name_write_dropped_refuted :
  exists methods m k v,
    nrun false methods 0 m [NM (MJSet k v); NM (MGGet k)] = [o_ok; o_undef] /\
    nrun true methods 0 m [NM (MJSet k v); NM (MGGet k)] = [o_ok; o_num 5].
Proof. exact method_name_write_dropped_refuted. Qed.
Print Assumptions C16_method_name_write_dropped_refuted.

(* a function (or any non-list object) is never a slice -- repaired in 96bc623,
   it used to become a slice of zero values -- so a single callback for a
   variadic slot of func type arrives as that function, like two callbacks do *)
Theorem C16_function_is_not_a_slice : forall ideal ids f n e,
  conv ideal ids (S f) (JFun n) (TSlice e) = CE 6.
Proof. exact function_is_not_a_slice. Qed.
Print Assumptions C16_function_is_not_a_slice.

Theorem C16_variadic_single_function :
  call false false 6 [TNum KI; TSlice TFunc] true [JNum (KI64, 1); JFun 1] = CV (GVStruct [GVI KI 1; GVSlice [GVFunc]]) /\
  call false false 6 [TNum KI; TSlice TFunc] true [JNum (KI64, 1); JFun 1; JFun 1] =
    CV (GVStruct [GVI KI 1; GVSlice [GVFunc; GVFunc]]).
Proof. exact variadic_single_function. Qed.
Print Assumptions C16_variadic_single_function.

(* Value.export is compositional: a sub-object referenced twice (no cycle) is
   exported at both places, in objects and in arrays *)
Theorem C16_export_shared_twice : forall f k1 k2 o g,
  k1 < k2 -> export f o = Some g -> o <> JUndef ->
  export (S f) (JObj [(k1, o); (k2, o)]) = Some (GVMap [(k1, g); (k2, g)]).
Proof. exact export_shared_twice. Qed.
Print Assumptions C16_export_shared_twice.

Theorem C16_export_shared_in_array : forall f o g,
  export f o = Some g -> export (S f) (JArr [Some o; Some o]) = Some (GVSlice [g; g]).
Proof. exact export_shared_in_array. Qed.
Print Assumptions C16_export_shared_in_array.

(* non-vacuity of the implications above *)
Example C16_exact_hyp_met :
  src_wf (KF64, 4617315517961601024) = true /\
  convertNumeric (KF64, 4617315517961601024) KU8 = OkI KU8 5 /\
  exact_for (sv_denote (SNum (KF64, 4602678819172646912))) KF32 = true /\
  outcome_eqb (convertNumeric (KF64, 4602678819172646912) KF32) (OkF KF32 (DFin false 1 (-1))) = true.
Proof. vm_compute. repeat split. Qed.
Example C16_store_hyp_met :
  dc_int (decode 4617315517961601024) = Some 5 /\ toReflectNum (SNum (KF64, 4617315517961601024)) KU8 = OkI KU8 5.
Proof. vm_compute. split; reflexivity. Qed.
Example C16_variadic_hyp_met :
  arity_check 2 true 4 = 0 /\ param_for 2 true 3 = (1, true) /\ call_shape 2 true 4 = (1, 3).
Proof. vm_compute. repeat split. Qed.
Example C16_alias_hyp_met :
  forallb (stable_op 2) [JSet 0 (KI64, 5); GGet 0; GSet 1 9; JGet 1; JDel 0; GGet 0] = true /\
  srun true false (sinit [1; 2] 4) [JSet 0 (KI64, 5); GGet 0; GSet 1 9; JGet 1; JDel 0; GGet 0] =
  [o_ok; o_num 5; o_ok; o_num 9; o_bool true; o_num 0].
Proof. vm_compute. split; reflexivity. Qed.
Example C16_struct_hyp_met :
  field_index [mkF 1 0 true []; mkF 2 3 true []] 3 O = Some (1%nat, None) /\ conv_field false (KI64, 7) = inl 7.
Proof. vm_compute. split; reflexivity. Qed.
Example C16_elementwise_hyp_met :
  conv false false 3 (JArr [Some (JNum (KI64, 1)); None; Some (JNum (KI64, 2))]) (TSlice (TNum KI8)) =
  CV (GVSlice [GVI KI8 1; GVI KI8 0; GVI KI8 2]) /\
  call false false 4 [TNum KU8; TStr] false [JNum (KI64, 5); JStr [97]] = CV (GVStruct [GVI KU8 5; GVStr [97]]).
Proof. vm_compute. split; reflexivity. Qed.
Example C16_reentrant_example :
  ev_call 4 (RCall 0 [RVal 1; RRe [RCall 0 [RVal 2; RVal 7]] 8]) = ([(0, [2; 7]); (0, [1; 8])], true).
Proof. reflexivity. Qed.
