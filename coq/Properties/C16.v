(* C16 — bridged Go functions, structs, maps and slices convert exactly or fail
   loudly.  Only statements here; proofs are in C16/Proofs*.v.  Model = otto's
   bridge code (runtime.go convertNumeric / the reflect.Func wrapper, value.go
   toReflectValue, type_go_*.go) transcribed over Z; the correspondence run
   ties it to the interpreter built from /repo on every check. *)
From Coq Require Import ZArith Bool List.
From Otto Require Import Common.Double C16.Model C16.Proofs.
Import ListNotations.
Open Scope Z_scope.

(* core: for every JS number (any of the eleven payload kinds, any double) and
   every Go numeric target kind, convertNumeric either raises RangeError or
   returns exactly the number the argument denotes -- provided the target is an
   integer kind or the number is representable in the float target *)
Theorem C16_convertNumeric_exact : forall s t,
  src_wf s = true ->
  (forall c, convertNumeric s t = Err c -> c = 3) /\
  (is_err (convertNumeric s t) = false ->
   is_float t = false \/ exact_for (sv_denote (SNum s)) t = true ->
   outcome_eqb (convertNumeric s t) (ideal (sv_denote (SNum s)) t) = true).
Proof.
  intros s t Hwf. split.
  - intros c. apply convertNumeric_err_class.
  - intros. now apply convertNumeric_agrees_ideal.
Qed.
Print Assumptions C16_convertNumeric_exact.

(* integer targets, no side condition at all: an Ok result has the target's
   kind, lies in its range and is the integer the JS number holds *)
Theorem C16_convertNumeric_int_sound : forall s t k n,
  src_wf s = true -> is_float t = false -> convertNumeric s t = OkI k n ->
  k = t /\ in_range t n = true /\ dc_int (sv_denote (SNum s)) = Some n.
Proof. exact convertNumeric_int_sound. Qed.
Print Assumptions C16_convertNumeric_int_sound.

Theorem C16_convertNumeric_meets_property_on_int_targets : forall s t,
  src_wf s = true -> is_float t = false -> spec_convert s t = convertNumeric s t.
Proof. exact convertNumeric_int_targets. Qed.
Print Assumptions C16_convertNumeric_meets_property_on_int_targets.

Theorem C16_convertNumeric_meets_property_on_representable : forall s t,
  src_wf s = true -> exact_for (sv_denote (SNum s)) t = true -> spec_convert s t = convertNumeric s t.
Proof. exact convertNumeric_float_targets. Qed.
Print Assumptions C16_convertNumeric_meets_property_on_representable.

(* float targets outside that guard: silent rounding (0.1 -> float32; 2^53+1 as int64 -> float64) *)
Theorem C16_float32_rounds_refuted :
  exists s, src_wf s = true /\ convertNumeric s KF32 <> spec_convert s KF32.
Proof. exists (KF64, 4591870180066957722). split; [reflexivity|]. vm_compute. discriminate. Qed.
Print Assumptions C16_float32_rounds_refuted.

Theorem C16_int64_to_float64_rounds_refuted :
  exists s, src_wf s = true /\ convertNumeric s KF64 <> spec_convert s KF64.
Proof. exists (KI64, 9007199254740993). split; [reflexivity|]. vm_compute. discriminate. Qed.
Print Assumptions C16_int64_to_float64_rounds_refuted.

(* core: element stores (toReflectValue).  A double holding an integer of the
   int64 range is stored exactly when it fits the element kind and the store
   fails otherwise ... *)
Theorem C16_toReflectValue_partial : forall p t n,
  is_float t = false ->
  dc_int (decode p) = Some n -> - 2 ^ 63 <= n < 2 ^ 63 ->
  toReflectNum (SNum (KF64, p)) t = (if in_range t n then OkI t n else Err 9) /\
  spec_store (SNum (KF64, p)) t = (if in_range t n then OkI t n else Err 3).
Proof. intros; split; [now apply store_integral_exact | now apply store_integral_spec]. Qed.
Print Assumptions C16_toReflectValue_partial.

(* ... and outside that region the code hands over other numbers silently *)
Theorem C16_store_negative_fraction_refuted :   (* s8[0] = -1.5 stores -1 *)
  exists v t, toReflectNum v t <> spec_store v t /\ toReflectNum v t = OkI KI8 (-1).
Proof. exists (SNum (KF64, 13832806255468478464)), KI8. split; [vm_compute; discriminate | reflexivity]. Qed.
Print Assumptions C16_store_negative_fraction_refuted.

Theorem C16_store_nan_refuted :                  (* s8[0] = NaN stores 0 *)
  exists v t, toReflectNum v t <> spec_store v t /\ toReflectNum v t = OkI KI8 0.
Proof. exists (SNum (KF64, nan_bits)), KI8. split; [vm_compute; discriminate | reflexivity]. Qed.
Print Assumptions C16_store_nan_refuted.

Theorem C16_store_int64_wraps_refuted :          (* s64[0] = 2^63 stores -2^63 *)
  exists v t, toReflectNum v t <> spec_store v t /\ toReflectNum v t = OkI KI64 (- 2 ^ 63).
Proof. exists (SNum (KF64, 4890909195324358656)), KI64. split; [vm_compute; discriminate | reflexivity]. Qed.
Print Assumptions C16_store_int64_wraps_refuted.

Theorem C16_store_uint64_wraps_refuted :         (* su64[0] = 2^64 stores 2^63 *)
  exists v t, toReflectNum v t <> spec_store v t /\ toReflectNum v t = OkI KU64 (2 ^ 63).
Proof. exists (SNum (KF64, 4895412794951729152)), KU64. split; [vm_compute; discriminate | reflexivity]. Qed.
Print Assumptions C16_store_uint64_wraps_refuted.

Theorem C16_store_error_is_js_refuted :          (* s8[0] = 300: a Go panic, not a RangeError *)
  exists v t, toReflectNum v t = Err 9 /\ spec_store v t = Err 3.
Proof. exists (SNum (KI64, 300)), KI8. split; reflexivity. Qed.
Print Assumptions C16_store_error_is_js_refuted.

(* core: the reflective call wrapper reports an arity mismatch exactly when
   there is one (variadic: fewer than n-1 arguments), never anything else *)
Theorem C16_arity : forall nargs variadic len,
  (arity_check nargs variadic len = 3 <->
   (variadic = false /\ len <> nargs) \/ (variadic = true /\ len < nargs - 1)) /\
  (arity_check nargs variadic len = 0 \/ arity_check nargs variadic len = 3).
Proof. intros; split; [apply arity_error_iff | apply arity_never_other]. Qed.
Print Assumptions C16_arity.

(* when the call proceeds, argument i is converted against a declared
   parameter that exists: the fixed ones as declared, the variadic tail
   element-wise against the last; all arguments are handed over *)
Theorem C16_variadic_assignment : forall nargs variadic len i,
  0 <= nargs -> (variadic = true -> 1 <= nargs) ->
  arity_check nargs variadic len = 0 -> 0 <= i < len ->
  let '(n, elem) := param_for nargs variadic i in
  0 <= n < nargs /\
  (elem = false -> n = i /\ (variadic = true -> i < nargs - 1)) /\
  (elem = true -> variadic = true /\ n = nargs - 1 /\ nargs - 1 <= i).
Proof. exact param_for_in_range. Qed.
Print Assumptions C16_variadic_assignment.

Theorem C16_call_shape : forall nargs variadic len,
  arity_check nargs variadic len = 0 ->
  let '(fixed, tail) := call_shape nargs variadic len in fixed + tail = len /\ 0 <= tail.
Proof. exact call_shape_total. Qed.
Print Assumptions C16_call_shape.

(* non-vacuity of the implications above *)
Example C16_exact_hyp_met :
  src_wf (KF64, 4617315517961601024) = true /\
  convertNumeric (KF64, 4617315517961601024) KU8 = OkI KU8 5 /\
  exact_for (sv_denote (SNum (KF64, 4602678819172646912))) KF32 = true /\
  outcome_eqb (convertNumeric (KF64, 4602678819172646912) KF32) (OkF KF32 (DFin false 1 (-1))) = true.
Proof. vm_compute. repeat split. Qed.
Example C16_store_hyp_met :
  dc_int (decode 4617315517961601024) = Some 5 /\ toReflectNum (SNum (KF64, 4617315517961601024)) KU8 = OkI KU8 5.
Proof. vm_compute. split; reflexivity. Qed.
Example C16_variadic_hyp_met :
  arity_check 2 true 4 = 0 /\ param_for 2 true 3 = (1, true) /\ call_shape 2 true 4 = (1, 3).
Proof. vm_compute. repeat split. Qed.
