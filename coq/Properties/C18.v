(* C18 — interrupts and abnormal exits.  The MiniJS semantics of C01 carries
   the poll counter of otto's interpreter (every statement entry, every
   expression node entry, every try/catch/finally block entry); an injected
   host panic at poll k is the value VHalt raised by that poll.  The
   correspondence run injects a real interrupt at EVERY poll of small
   generated programs and compares log, outcome, globals seen by a follow-up
   script and the at-rest state (scope depth, pending labels) with this model. *)
From Coq Require Import List Bool ZArith.
From Otto Require Import C01.Sem C01.Wf C01.Sim C01.Lang C01.Proofs C18.Mono C18.Halt C18.Stack.
Import ListNotations.
Open Scope Z_scope.

(* after ANY exit (normal, uncaught exception, interrupt at any poll k) the
   pending-label list of a well-formed program is back at rest *)
Theorem C18_labels_at_rest : forall fuel declared k (p : prog),
  wf (SBlock p) = true ->
  let '(_, L, _) := run_o fuel declared k p in L = [].
Proof.
  intros fuel declared k p Hwf. pose proof (run_refines fuel declared k p Hwf) as H.
  destruct (run_o fuel declared k p) as [[so L] oo]. destruct (run_s fuel declared k p) as [ss os].
  tauto.
Qed.
Print Assumptions C18_labels_at_rest.

(* effects are never retracted: whatever happens later, host calls already made stay made *)
Theorem C18_effects_monotone : forall fuel s L x, extends s (fst (fst (Sem.exec_o eval truthy tick recatch val_seq enum live bind fuel s L x))).
Proof. exact exec_extends. Qed.
Print Assumptions C18_effects_monotone.

(* an interrupt at poll k of a program without try: either poll k is never
   reached and the run is the uninterrupted run, or the run stops there with
   the host's panic and has made exactly a prefix of the uninterrupted run's
   host calls (nothing after the interrupt happens) *)
Theorem C18_prefix_effects : forall fuel declared k (p : prog),
  notry (SBlock p) = true -> 0 < k ->
  let '(sa, La, oa) := run_o fuel declared k p in
  let '(sb, Lb, ob) := run_o fuel declared 0 p in
  (polls sa < k /\ sb = erase sa /\ La = Lb /\ oa = ob)
  \/ (polls sa = k /\ oa = OThrew VHalt /\ prefix (out sa) (out sb)).
Proof. exact prefix_effects. Qed.
Print Assumptions C18_prefix_effects.

(* the stack depth limit admits exactly the configured nesting *)
Theorem C18_stack_limit_exact : forall (L : Z) (d : nat), 1 <= L ->
  (chain L 0 d = None <-> L <= Z.of_nat d) /\
  (forall m, chain L 0 d = Some m -> m = Z.of_nat d /\ m < L).
Proof. exact stack_limit_exact. Qed.
Print Assumptions C18_stack_limit_exact.

(* deviation: inside a JavaScript try the host's panic is intercepted and the script continues *)
Theorem C18_try_intercepts_interrupt_refuted : exists p k,
  let '(s, _, o) := run_o 50 [] k p in snap s <> None /\ o <> OThrew VHalt.
Proof.
  exists w_try_intercepts, 4. pose proof w_try_intercepts_runs as H.
  destruct (run_o 50 [] 4 w_try_intercepts) as [[s L] o]. destruct H as (H1 & _ & H3).
  split; [rewrite H1; discriminate | rewrite H3; discriminate].
Qed.
Print Assumptions C18_try_intercepts_interrupt_refuted.

(* non-vacuity of C18_prefix_effects: a try-free program interrupted in the middle *)
Example C18_prefix_hyp_met :
  let p := [SExpr (ELog (ELit (VNum 1))); SExpr (ELog (ELit (VNum 2)))] in
  notry (SBlock p) = true /\
  (let '(sa, _, oa) := run_o 50 [] 6 p in out sa = [VNum 1] /\ oa = OThrew VHalt).
Proof. vm_compute. repeat split. Qed.
