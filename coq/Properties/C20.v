(* C20 — runtimes are independent: concurrent use of separate runtimes is
   race-free and every runtime's results are those of the same scripts run
   alone; a compiled Script is never modified by execution.

   Only statements here; definitions in C20/Model.v, C20/Audit.v, proofs in
   C20/Proofs.v.  C20/Shared.v is regenerated from the Go sources of the tree
   under check by harness/cmd/sharedfacts on every run; C20_no_runtime_writes
   is re-checked over it by computation, and the two core theorems are stated
   for ANY behaviour of the runtimes that conforms to that table.
   PARTIAL: the Go memory model and scheduler are not modelled; the race
   detector observes them in the correspondence run (harness/cmd/c20_race). *)
From Coq Require Import String List ZArith Bool RelationClasses.
From Otto Require Import C20.Facts C20.Audit C20.Model C20.Shared C20.Proofs C20.ModelClone C20.ProofsClone.
Import ListNotations.

(* every package-level variable of otto, parser, ast, file, token, registry,
   every field of the parsed/compiled program types and every mention of an
   allow-listed mutator, exhaustively over the regenerated table: no site can
   store to shared structure while scripts run (modulo C20/Audit.allow_list,
   each entry justified there), and no runtime handle (otto.Otto, otto.runtime) is ever
   shallow-copied *)
Theorem C20_no_runtime_writes :
  audit pkg_vars struct_fields call_edges struct_copies clone_fields native_closures = true /\
  table_sane pkg_vars struct_fields call_edges struct_copies clone_fields native_closures translator_type_errors = true /\
  forall w, runtime_writable pkg_vars struct_fields w = false.
Proof. exact (conj no_runtime_writes (conj table_is_sane no_shared_location_writable)). Qed.
Print Assumptions C20_no_runtime_writes.

(* core, abstract form: for every machine whose steps are local, every schedule,
   every runtime: the runtime's observable trace is its sequential trace, its
   heap ends as it would alone, the shared part is unchanged; any two schedules
   with the same per-runtime step counts are indistinguishable; adjacent steps
   of different runtimes commute *)
Theorem C20_interleaving_independent_any_machine :
  forall (G Sh Hp Ob : Type) (eqS : Sh -> Sh -> Prop) (eqH : Hp -> Hp -> Prop),
  Equivalence eqS -> Equivalence eqH ->
  forall (shared : G -> Sh) (heap : nat -> G -> Hp) (gstep : nat -> G -> G * Ob),
  local eqS eqH shared heap gstep ->
  (forall sched g i,
     proj i (snd (run gstep sched g)) = proj i (snd (solo gstep i (steps_of i sched) g)) /\
     eqH (heap i (fst (run gstep sched g))) (heap i (fst (solo gstep i (steps_of i sched) g))) /\
     eqS (shared (fst (run gstep sched g))) (shared g)) /\
  (forall s1 s2 g, (forall i, steps_of i s1 = steps_of i s2) ->
     forall i, proj i (snd (run gstep s1 g)) = proj i (snd (run gstep s2 g)) /\
               eqH (heap i (fst (run gstep s1 g))) (heap i (fst (run gstep s2 g))) /\
               eqS (shared (fst (run gstep s1 g))) (shared (fst (run gstep s2 g)))) /\
  (forall i j g, i <> j ->
     eqS (shared (fst (run gstep [i; j] g))) (shared (fst (run gstep [j; i] g))) /\
     (forall k, eqH (heap k (fst (run gstep [i; j] g))) (heap k (fst (run gstep [j; i] g)))) /\
     snd (gstep i g) = snd (gstep i (fst (gstep j g))) /\
     snd (gstep j g) = snd (gstep j (fst (gstep i g)))).
Proof.
  intros G Sh Hp Ob eqS eqH ES EH shared heap gstep L. split; [|split].
  - exact (interleaving_independent G Sh Hp Ob eqS eqH shared heap gstep L).
  - exact (schedule_irrelevant G Sh Hp Ob eqS eqH shared heap gstep L).
  - exact (adjacent_steps_commute G Sh Hp Ob eqS eqH shared heap gstep L).
Qed.
Print Assumptions C20_interleaving_independent_any_machine.

(* core, for otto GIVEN the fact table: any runtimes whose code stores to shared
   locations only where the table has an unaccepted site *)
Theorem C20_interleaving_independent :
  forall beh, conforming pkg_vars struct_fields beh ->
  (forall sched g i,
     proj i (snd (run (cstep beh) sched g)) = proj i (snd (solo (cstep beh) i (steps_of i sched) g)) /\
     eq_h (g_hp (fst (run (cstep beh) sched g)) i) (g_hp (fst (solo (cstep beh) i (steps_of i sched) g)) i) /\
     eq_s (g_sh (fst (run (cstep beh) sched g))) (g_sh g)) /\
  (forall i j g, i <> j ->
     eq_s (g_sh (fst (run (cstep beh) [i; j] g))) (g_sh (fst (run (cstep beh) [j; i] g))) /\
     (forall k, eq_h (g_hp (fst (run (cstep beh) [i; j] g)) k) (g_hp (fst (run (cstep beh) [j; i] g)) k)) /\
     snd (cstep beh i g) = snd (cstep beh i (fst (cstep beh j g))) /\
     snd (cstep beh j g) = snd (cstep beh j (fst (cstep beh i g)))).
Proof. intros beh C. split; [exact (otto_interleaving beh C) | exact (otto_commute beh C)]. Qed.
Print Assumptions C20_interleaving_independent.

(* core: the compiled program is part of the shared store; no history of
   executions on any runtimes changes it, so executing it k steps from heap h0
   on runtime i gives the same outcome after the history as before it (any
   reuse count, any runtime) *)
Theorem C20_script_immutable :
  forall beh, conforming pkg_vars struct_fields beh ->
  forall sched g,
    eq_s (g_sh (fst (run (cstep beh) sched g))) (g_sh g) /\
    forall i k h0, execute beh i k h0 (fst (run (cstep beh) sched g)) = execute beh i k h0 g.
Proof. exact otto_script_immutable. Qed.
Print Assumptions C20_script_immutable.

(* the audit is not vacuous: it rejects a store outside initialisation, a store
   to a compiled node outside the compiler, and a new caller of an allow-listed mutator *)
Example C20_audit_rejects_runtime_store :
  audit [mkVar "otto.cache" "map[string]int" true "x.go" 1
           [mkSite KElem "otto.builtinX" "x.go" 9 false "= via [i]"]] [] [] [] [] [] = false.
Proof. vm_compute. reflexivity. Qed.
Example C20_audit_rejects_node_annotation :
  audit [] [mkField "otto.nodeIdentifier" "cached" "int" "cmpl.go" 1
              [mkSite KAssign "otto.cmplEvaluateNodeExpression" "cmpl_evaluate_expression.go" 9 false "="]] [] [] [] [] = false.
Proof. vm_compute. reflexivity. Qed.
Example C20_audit_rejects_new_register_caller :
  audit [] [] [mkCall "registry.Register" "otto.New" "otto.go" 250 false] [] [] [] = false.
Proof. vm_compute. reflexivity. Qed.
Example C20_audit_rejects_handle_copy :
  audit [] [] [] [mkCopy "otto.Otto" "otto.Copy" "otto.go" 640 "*p assigned"] [] [] = false.
Proof. vm_compute. reflexivity. Qed.
Example C20_audit_rejects_untranslated_object_field :
  audit [] [] [] [] [mkCloneField "otto.runtime" "callerGet" "*otto.object" true "verbatim" "otto.clone" "clone.go" 24] [] = false.
Proof. vm_compute. reflexivity. Qed.
Example C20_audit_rejects_untranslated_outer_scope :
  audit [] [] [] [] [mkCloneField "otto.objectStash" "outr" "otto.stasher" true "verbatim" "otto.clone" "stash.go" 53] [] = false.
Proof. vm_compute. reflexivity. Qed.
Example C20_audit_rejects_store_to_singleton_node_in_compiler :
  audit [mkVar "otto.nullLiteral" "*otto.nodeLiteral" true "cmpl_parse.go" 14
           [mkSite KEscape "otto.parseExpression" "cmpl_parse.go" 137 false "returned"]]
        [mkField "otto.nodeLiteral" "idx" "file.Idx" "cmpl_parse.go" 473
           [mkSite KAssign "otto.parseExpression" "cmpl_parse.go" 71 false "="]] [] [] [] [] = false.
Proof. vm_compute. reflexivity. Qed.
Example C20_audit_accepts_store_to_fresh_node_in_compiler :
  audit [] [mkField "otto.nodeBranchStatement" "label" "string" "cmpl_parse.go" 400
           [mkSite KAssign "otto.parseStatement" "cmpl_parse.go" 218 false "="]] [] [] [] [] = true.
Proof. vm_compute. reflexivity. Qed.
Example C20_audit_accepts_carried_setting :
  audit [] [] [] [] [mkCloneField "otto.runtime" "random" "func() float64" false "verbatim" "otto.clone" "clone.go" 21] [] = true.
Proof. vm_compute. reflexivity. Qed.
Example C20_audit_rejects_native_closure_writing_captured_object :
  audit [] [] [] [] [] [mkClosure "otto.newErrorObject" "type_error.go" 19 "obj" "*otto.object" "call"] = false.
Proof. vm_compute. reflexivity. Qed.
Example C20_audit_accepts_init_store :
  audit [mkVar "otto.classObject" "*otto.objectClass" true "object_class.go" 32
           [mkSite KAssign "otto.init" "object_class.go" 42 true "="]] [] [] [] [] [] = true.
Proof. vm_compute. reflexivity. Qed.

(* the hypotheses are satisfiable: a behaviour that only touches its own heap
   conforms, and a behaviour that stores to a shared location does not *)
Example C20_conforming_met : conforming pkg_vars struct_fields beh_counter.
Proof.
  split.
  - intros i s h w v [H|[]]. discriminate.
  - intros i s s' h h' ES EH. unfold beh_counter. rewrite (EH 0%Z), (ES "otto.scriptVersion"%string). reflexivity.
Qed.
Example C20_nonconforming : ~ conforming pkg_vars struct_fields beh_bad.
Proof.
  intros [CW _]. specialize (CW 0%nat (fun _ => 0%Z) (fun _ => 0%Z) "otto.scriptVersion"%string 1%Z (or_introl eq_refl)).
  rewrite (proj2 (proj2 C20_no_runtime_writes)) in CW. discriminate.
Qed.
(* and the machine really is sensitive to sharing: with a store to a shared
   location, runtime 1 observes runtime 0's step *)
Example C20_sharing_would_be_visible :
  let g := mkG (fun _ => 0%Z) (fun _ _ => 0%Z) in
  let b : behaviour := fun i s h => (if Nat.eqb i 0%nat then [(WShared "x"%string, 7%Z)] else [], s "x"%string) in
  proj 1%nat (snd (run (cstep b) [0%nat; 1%nat] g)) <> proj 1%nat (snd (solo (cstep b) 1%nat 1%nat g)).
Proof. vm_compute. discriminate. Qed.

Open Scope nat_scope.

(* copies of a common template (clone.go's memoised traversal, C20/ModelClone.v):
   for every template heap, every set of roots and every fuel, the copy's object
   graph - roots included - is closed inside the freshly allocated region, and
   nothing in it refers to an object of the template *)
Theorem C20_clone_shares_no_object : forall fuel src base roots vs st,
  length src <= base ->
  clone_roots fuel src base roots = Some (vs, st) ->
  region_closed base (dst st) /\
  refs_within base (base + length (dst st)) vs /\
  (forall o b, In o (vs :: dst st) -> In (VRef b) o -> ~ b < length src).
Proof. exact clone_region_closed. Qed.
Print Assumptions C20_clone_shares_no_object.

(* and two copies of one template do not refer into each other *)
Theorem C20_copies_disjoint : forall f1 f2 src b1 b2 r1 r2 v1 s1 v2 s2,
  length src <= b1 -> b1 + length (dst s1) <= b2 ->
  clone_roots f1 src b1 r1 = Some (v1, s1) ->
  clone_roots f2 src b2 r2 = Some (v2, s2) ->
  (forall o b, In o (v1 :: dst s1) -> In (VRef b) o -> ~ (b2 <= b)) /\
  (forall o b, In o (v2 :: dst s2) -> In (VRef b) o -> ~ (b < b2)).
Proof. exact copies_disjoint. Qed.
Print Assumptions C20_copies_disjoint.

(* the hypothesis is met: a template with a cycle and a shared child is cloned *)
Example C20_clone_hyp_met :
  clone_roots 10 [[VRef 1; VPrim 7; VRef 2]; [VRef 0; VRef 2]; [VPrim 9]] 3 [0] =
  Some ([VRef 3], mkC [(2, 5); (1, 4); (0, 3)] [[VRef 4; VPrim 7; VRef 5]; [VRef 3; VRef 5]; [VPrim 9]]).
Proof. exact clone_example. Qed.
