(* C19 — errors surface with the right class, message and source position.
   Only statements here; proofs are in C19/Proofs.v.  Model = otto's position
   lookup, call-site recording, newError, frame.location, format, catchPanic,
   parseThrow and the class chosen at each raise site; Spec = the property's
   reading (ES5 7.3 lines, ES5 15.11.4.4 text, ES5 class per construct, every
   active call innermost first up to the limit).  The correspondence run ties
   both to the interpreter built from /repo on generated programs. *)
From Coq Require Import ZArith List Bool.
From Otto Require Import C19.Model C19.Spec C19.Proofs.
Import ListNotations.
Open Scope Z_scope.

(* file.Position is the inverse of the generator's offset function: for every
   text given as LF-free lines and every (line, column) that names one of its
   bytes, looking up the offset of (line, column) gives (line, column) back *)
Theorem C19_position_inverse : forall lines line col,
  lines_ok lines -> in_text lines line col ->
  file_position_off (join_lines lines) (offset_of lines line col) = Some (line, col).
Proof. exact position_inverse. Qed.
Print Assumptions C19_position_inverse.

(* ... and conversely: whatever File.Position answers for an offset is a (line,
   column) of the text whose offset is the one asked for *)
Theorem C19_position_offset_inverse : forall lines off line col,
  lines_ok lines ->
  file_position_off (join_lines lines) off = Some (line, col) ->
  in_text lines line col /\ offset_of lines line col = off.
Proof. exact position_offset_inverse. Qed.
Print Assumptions C19_position_offset_inverse.

(* outside the text there is no position (File.Position returns nil) *)
Theorem C19_position_outside : forall src offset,
  offset < 0 \/ zlen src <= offset -> file_position_off src offset = None.
Proof.
  intros src offset H. unfold file_position_off.
  destruct (Z.leb_spec (zlen src) offset); [reflexivity|].
  destruct (Z.ltb_spec offset 0); [reflexivity|]. exfalso. destruct H; Lia.lia.
Qed.
Print Assumptions C19_position_outside.

(* syntax errors: for every text and every offset in it or at its end, the
   parser's lineCount/position report the line and byte column of the ES5 7.3
   line structure (LF, CR, CR LF as one, U+2028, U+2029) ... *)
Theorem C19_parser_position_lines : forall src offset, 0 <= offset <= zlen src ->
  parser_position_off src offset = Some (gscan true false src (Z.to_nat offset) 1 1 false 0 0).
Proof. exact parser_position_lines. Qed.
Print Assumptions C19_parser_position_lines.

(* ... which is the line and character column of the offending token whenever
   the text has no multi-byte characters *)
Theorem C19_syntax_error_position : forall src offset, single_byte src -> 0 <= offset <= zlen src ->
  parser_position_off src offset = es5_position_incl src offset.
Proof. exact parser_position_es5. Qed.
Print Assumptions C19_syntax_error_position.

(* newError, for every scope chain, limit, pop count and at: the (re-positioned)
   top frame, then those of the next limit-1 outer frames whose call site was
   recorded, in order; with limit <= 0 all of them *)
Theorem C19_trace_shape : forall limit sc pop atv,
  new_error limit sc pop atv =
  match pop_frames pop sc with
  | [] => []
  | top :: outers => with_at top atv :: filter recorded (cut_outer limit outers)
  end.
Proof. exact new_error_shape. Qed.
Print Assumptions C19_trace_shape.

(* when every active call has a recorded site the trace is exactly the innermost
   min(depth, limit) frames, innermost first (a prefix of the scope chain) *)
Theorem C19_trace_innermost_first : forall limit top outers atv,
  (forall fr, In fr outers -> 0 <= f_offset fr) ->
  new_error limit (top :: outers) 0 atv = cut limit (with_at top atv :: outers) /\
  (1 <= limit -> zlen (cut limit (with_at top atv :: outers)) = Z.min limit (1 + zlen outers)) /\
  exists rest, with_at top atv :: outers = cut limit (with_at top atv :: outers) ++ rest.
Proof.
  intros limit top outers atv H. split; [apply new_error_all_recorded; exact H|]. split.
  - intro Hl. rewrite cut_length by exact Hl. rewrite zlen_cons. reflexivity.
  - apply cut_prefix.
Qed.
Print Assumptions C19_trace_innermost_first.

(* SetStackTraceLimit(0) or a negative limit: no cut, as coded *)
Theorem C19_trace_limit_zero : forall limit top outers atv, limit <= 0 ->
  new_error limit (top :: outers) 0 atv = with_at top atv :: filter recorded outers.
Proof. exact new_error_limit_zero. Qed.
Print Assumptions C19_trace_limit_zero.

(* otto as it is prints exactly the property's trace for every program shape
   (any nesting, any history of earlier calls and of entered and completed
   direct evals in each frame, any limit) that stays clear of the listed
   deviations and whose call sites and raise are where the generator says they are *)
Theorem C19_trace_guarded : forall files limit levels r,
  Forall (level_plain nofix) levels ->
  Forall (site_ok file_position_off files) levels ->
  raise_ok file_position_off nofix files (rev levels) r ->
  model_trace nofix file_position_off files limit levels r = spec_trace files limit levels r.
Proof. exact trace_guarded. Qed.
Print Assumptions C19_trace_guarded.

(* ... and the listed deviations are the only ones: with all six repaired the
   model prints the property's trace for every program shape *)
Theorem C19_trace_repaired : forall files limit levels r,
  Forall (fun lv => lv_is_native (fst lv) = true -> snd lv = []) levels ->
  Forall (site_ok es5_position files) levels ->
  raise_ok es5_position allfix files (rev levels) r ->
  model_trace allfix (pos_of allfix) files limit levels r = spec_trace files limit levels r.
Proof.
  intros files limit levels r H1 H2 H3. apply trace_repaired; try assumption.
  apply Forall_forall. intros lv Hin. apply level_plain_allfix.
  rewrite Forall_forall in H1. apply H1. exact Hin.
Qed.
Print Assumptions C19_trace_repaired.

(* the hypothesis "where the generator says" is met whenever the file.Idx of a
   token is computed from its (line, column) in LF-separated text *)
Theorem C19_sites_from_lines : forall files f nm lines idx line col,
  get_file files f = Some (nm, join_lines lines) -> lines_ok lines -> in_text lines line col ->
  idx = 1 + offset_of lines line col ->
  lookup_ok file_position_off files f idx line col.
Proof. exact lookup_from_lines. Qed.
Print Assumptions C19_sites_from_lines.

(* class chosen at each raise site = ES5 class, for every kind id but the one listed
   (a malformed RegExp pattern, kind 26, is a SyntaxError since ef38bfe) *)
Theorem C19_error_class_table : forall kind, kind <> 20 ->
  model_class kind = spec_class kind.
Proof. exact class_table. Qed.
Print Assumptions C19_error_class_table.

Theorem C19_error_message_table : forall kind, kind <> 12 -> kind <> 13 -> kind <> 38 ->
  model_msg_nonempty kind = spec_msg_nonempty kind.
Proof. exact message_table. Qed.
Print Assumptions C19_error_message_table.

(* bad radix / precision / length: for every argument value (undefined, NaN,
   infinities, every finite double m * 2^e) otto's range checks throw exactly
   when ES5 15.7.4.2/5/6/7, 15.4.2.2, 15.4.5.1 require it (and never where ES5
   requires that nothing is thrown) *)
Theorem C19_throws_as_es5 : forall fn a b, spec_throws fn a = Some b -> model_throws fn a = b.
Proof. exact throws_as_es5. Qed.
Print Assumptions C19_throws_as_es5.

(* a range check made on the 32-bit wrapped argument is not that decision: the
   correspondence run therefore uses residues of the legal range modulo 2^32 *)
Theorem C19_wrapped_radix_check_refuted : exists r,
  spec_throws 1 (AFin r 0) = Some true /\ ((wrap32 r <? 2) || (36 <? wrap32 r)) = false.
Proof. exact wrapped_radix_check_refuted. Qed.
Print Assumptions C19_wrapped_radix_check_refuted.

(* in / instanceof on non-objects: for every kind of left operand (primitive,
   objects whose toString/valueOf log, return or throw) and right operand
   (primitive, plain object, function, function with a non-object prototype)
   otto raises the TypeError of 11.8.7 / 11.8.6 / 15.3.5.3 exactly when ES5 does
   and converts exactly what ES5 converts before it (finite domain: 2 x 5 x 4) *)
Theorem C19_in_instanceof_order : forall op l r, model_order op l r = spec_order op l r.
Proof. exact order_as_es5. Qed.
Print Assumptions C19_in_instanceof_order.

Theorem C19_in_left_first_refuted : exists l r, in_left_first l r <> spec_order 0 l r.
Proof. exact in_left_first_refuted. Qed.
Print Assumptions C19_in_left_first_refuted.

(* early error against late error (new, call, member call, in, instanceof,
   delete, subscripts, assignment, compound assignment, literals): in every
   scenario of the table otto raises the error ES5 raises first, positioned at
   the same token, after the same side effects (since 920f952 also for the
   constructor reference of `new`, since 322af24 also for subscripts of
   undefined/null) *)
Theorem C19_eval_order_table : forall id, model_eval id = spec_eval id.
Proof. exact eval_order_table. Qed.
Print Assumptions C19_eval_order_table.

Example C19_eval_order_witnesses :
  model_eval 4 = Some (4, 1, []) /\ model_eval 45 = Some (4, 1, []) /\ model_eval 44 = Some (6, 1, []).
Proof. repeat split; reflexivity. Qed.

(* Error() of an uncaught error object is 15.11.4.4 of it as long as the script
   has not changed its name/message; any other thrown value gives its ToString *)
Theorem C19_uncaught_text : forall n m s,
  uncaught_text (ThError n m (Some n) (Some m)) = spec_text (ThError n m (Some n) (Some m)) /\
  uncaught_text (ThOther s) = spec_text (ThOther s) /\
  (n <> [] -> m <> [] -> uncaught_text (ThError n m (Some n) (Some m)) = n ++ [58; 32] ++ m).
Proof.
  intros n m s. split; [apply uncaught_text_unchanged|]. split; [apply uncaught_text_other|].
  apply format_name_message.
Qed.
Print Assumptions C19_uncaught_text.

(* an uncaught instance of a user error type (Sub.prototype = new Error(), any depth
   of the chain): Error() is 15.11.4.4 of the thrown object itself, whatever error
   object sits on its prototype chain *)
Theorem C19_uncaught_text_derived : forall pn pm cn cm,
  uncaught_text (ThDerived pn pm cn cm) = spec_text (ThDerived pn pm cn cm).
Proof. exact uncaught_text_derived. Qed.
Print Assumptions C19_uncaught_text_derived.

Theorem C19_prototype_payload_refuted : exists pn pm cn cm,
  format pn pm <> spec_text (ThDerived pn pm cn cm).
Proof. exact prototype_payload_refuted. Qed.
Print Assumptions C19_prototype_payload_refuted.

(* otto's deviations, as refutations with concrete witnesses *)
Theorem C19_parsethrow_class_refuted : exists k, model_class k <> spec_class k.
Proof. exists 20. vm_compute. discriminate. Qed.
Print Assumptions C19_parsethrow_class_refuted.

Theorem C19_array_length_message_refuted : exists k, model_msg_nonempty k <> spec_msg_nonempty k.
Proof. exists 12. vm_compute. discriminate. Qed.
Print Assumptions C19_array_length_message_refuted.

(* function f1(a, b) {\n  (function () { zz; })();\n}\nf1(); : the frame of f1 is missing *)
Theorem C19_anon_callee_frame_refuted : exists limit sc, new_error limit sc 0 None <> cut limit sc.
Proof. exact new_error_drops_unrecorded. Qed.
Print Assumptions C19_anon_callee_frame_refuted.

Definition w_src1 : list Z := [49; 59; 13; 50; 59; 32; 122; 122; 59; 10].        (* "1;\r2; zz;\n" *)
Theorem C19_line_terminators_refuted : file_position_off w_src1 6 <> es5_position w_src1 6.
Proof. vm_compute. discriminate. Qed.
Print Assumptions C19_line_terminators_refuted.

Definition w_src2 : list Z := [47; 42; 32; 195; 169; 32; 42; 47; 32; 122; 122; 59; 10].   (* "/* é */ zz;\n" *)
Theorem C19_byte_columns_refuted : file_position_off w_src2 9 <> es5_position w_src2 9.
Proof. vm_compute. discriminate. Qed.
Print Assumptions C19_byte_columns_refuted.

(* function f1(){ eval("1"); f2() } *)
Definition w_files3 : file_table := [(0, [102; 49; 40; 41; 59; 32; 101; 118; 97; 108; 40; 34; 49; 34; 41; 59; 32; 102; 50; 40; 41; 10]); (0, [49])].
Definition w_levels3 : list level :=
  [(LvGlobal 0, [EvCall KIdent 1 1 1]);
   (LvFunc 1 0, [EvCall KIdent 7 1 7; EvEvalEnter 1; EvEvalLeave; EvCall KIdent 18 1 18]);
   (LvFunc 2 0, [])].
(* since 744b40b the frame gets its file back: the call site after the completed eval is found *)
Theorem C19_direct_eval_restores_file : forall fx k evs f,
  run_events fx k (evs ++ [EvEvalEnter f; EvEvalLeave]) = run_events fx k evs.
Proof. exact direct_eval_restores_file. Qed.
Print Assumptions C19_direct_eval_restores_file.

Example C19_direct_eval_witness :
  model_trace nofix file_position_off w_files3 10 w_levels3 (RAt KIdent 3 1 3)
  = spec_trace w_files3 10 w_levels3 (RAt KIdent 3 1 3).
Proof. vm_compute. reflexivity. Qed.

Theorem C19_raise_without_position_refuted :
  model_trace nofix file_position_off w_files3 10 [(LvGlobal 0, [EvCall KIdent 1 1 1])] (RNoAt 18 1 18)
  <> spec_trace w_files3 10 [(LvGlobal 0, [EvCall KIdent 1 1 1])] (RNoAt 18 1 18).
Proof. vm_compute. discriminate. Qed.
Print Assumptions C19_raise_without_position_refuted.

Theorem C19_function_ctor_file_refuted :
  model_trace nofix file_position_off w_files3 10 [(LvGlobal 0, [EvCall KIdent 1 1 1]); (LvFuncNoFile 0 0, [])] (RAt KIdent 18 1 18)
  <> spec_trace w_files3 10 [(LvGlobal 0, [EvCall KIdent 1 1 1]); (LvFuncNoFile 0 0, [])] (RAt KIdent 18 1 18).
Proof. vm_compute. discriminate. Qed.
Print Assumptions C19_function_ctor_file_refuted.

(* function user(){ return o.x } with a getter that raises: user's frame is printed without a place *)
Theorem C19_implicit_call_site_refuted :
  model_trace nofix file_position_off w_files3 10
    [(LvGlobal 0, [EvCall KIdent 1 1 1]); (LvFunc 1 0, [EvImplicit 7 1 7]); (LvFunc 0 0, [])] (RAt KIdent 18 1 18)
  <> spec_trace w_files3 10
    [(LvGlobal 0, [EvCall KIdent 1 1 1]); (LvFunc 1 0, [EvImplicit 7 1 7]); (LvFunc 0 0, [])] (RAt KIdent 18 1 18).
Proof. vm_compute. discriminate. Qed.
Print Assumptions C19_implicit_call_site_refuted.

Theorem C19_uncaught_text_stale_refuted : exists t, uncaught_text t <> spec_text t.
Proof. exists (ThError [84] [120] (Some [84]) (Some [121])). vm_compute. discriminate. Qed.
Print Assumptions C19_uncaught_text_stale_refuted.

(* since 6df0226 FileSet.Position is File.Position of the file that holds the index *)
Theorem C19_fileset_position_inverse : forall lines line col,
  lines_ok lines -> in_text lines line col ->
  fileset_position [join_lines lines] (1 + offset_of lines line col) = Some (0, line, col).
Proof. exact fileset_position_inverse. Qed.
Print Assumptions C19_fileset_position_inverse.

Example C19_fileset_witness : fileset_position [[97; 98]] 1 = Some (0, 1, 1).
Proof. reflexivity. Qed.

(* non-vacuity: the hypotheses of the guarded theorems are met by concrete programs *)
Example C19_inverse_hyp_met :
  lines_ok [[102; 40; 41]; [32; 122; 122]] /\ in_text [[102; 40; 41]; [32; 122; 122]] 2 2 /\
  file_position_off (join_lines [[102; 40; 41]; [32; 122; 122]]) (offset_of [[102; 40; 41]; [32; 122; 122]] 2 2) = Some (2, 2).
Proof.
  split; [|split; [|reflexivity]].
  - intros l [<-|[<-|[]]] b Hb; cbn in Hb; intuition (subst; discriminate).
  - unfold in_text. vm_compute. intuition discriminate.
Qed.

Definition ex_files : file_table := [(0, [102; 49; 40; 41; 59; 10; 32; 122; 122; 59; 10])].   (* "f1();\n zz;\n" *)
Definition ex_levels : list level := [(LvGlobal 0, [EvCall KIdent 1 1 1]); (LvFunc 1 0, [])].
Example C19_guarded_hyp_met :
  Forall (level_plain nofix) ex_levels /\ Forall (site_ok file_position_off ex_files) ex_levels /\
  raise_ok file_position_off nofix ex_files (rev ex_levels) (RAt KIdent 8 2 2) /\
  model_trace nofix file_position_off ex_files 10 ex_levels (RAt KIdent 8 2 2) = [(1, SPos 0 2 2); (0, SPos 0 1 1)].
Proof.
  split; [|split; [|split; [|reflexivity]]].
  - repeat constructor; intros; discriminate.
  - apply Forall_cons; [|apply Forall_cons; [|apply Forall_nil]].
    + intros _. cbn. split; [reflexivity|]. eexists _, _. split; reflexivity.
    + intros _. exact I.
  - cbn. split; [reflexivity|]. split; [intros; discriminate|]. eexists _, _. split; reflexivity.
Qed.

Example C19_syntax_hyp_met :
  single_byte [120; 32; 61; 13; 10; 32; 59] /\ parser_position_off [120; 32; 61; 13; 10; 32; 59] 6 = Some (2, 2).
Proof. split; [|reflexivity]. intros b Hb. cbn in Hb. intuition (subst; reflexivity). Qed.

Example C19_throws_hyp_met :
  spec_throws 1 (AFin 4294967312 0) = Some true /\ spec_throws 1 (AFin 16 0) = Some false /\
  spec_throws 6 (AFin 3 (-1)) = Some true /\ spec_throws 3 (AFin 21 0) = None.
Proof. vm_compute. repeat split; reflexivity. Qed.

Example C19_trace_hyp_met :
  (forall fr, In fr [mkFrame false 0 2 7] -> 0 <= f_offset fr) /\
  new_error 1 [mkFrame false 0 1 5; mkFrame false 0 2 7] 0 None = [mkFrame false 0 1 5].
Proof. split; [intros fr [<-|[]]; discriminate | reflexivity]. Qed.
