(* C01 — programs evaluate to the result ES5 prescribes (statement-level
   control flow of the MiniJS fragment: blocks, if, while, do-while, for,
   for-in (over an abstract enumeration protocol), switch, labelled statements, break/continue/return/throw,
   try/catch/finally, over an expression language with assignment, ++,
   && || ?:, host calls).
   OttoSem = exec_o (cmpl_evaluate_statement.go: completions as result
   values, the runtime-global rt.labels list); SpecSem = exec_s (ES5 12.x
   completion records, label sets).  Proofs: C01/Sim.v, C01/Proofs.v. *)
From Coq Require Import List Bool ZArith.
From Otto Require C01.Full C01.FullProofs C01.Corr.
From Otto Require Import C01.Sem C01.Wf C01.Sim C01.Lang C01.Proofs.
Import ListNotations.

(* parametric in the expression language: any state, values, expression
   evaluator (which may throw), truthiness and entry poll *)
Theorem C01_control_flow_refines_generic :
  forall (st val expr : Type) (eval : st -> expr -> st * (val + val)) (truthy : val -> bool)
         (poll : st -> st * option val) (recatch : val -> val) (veq : val -> val -> bool)
         (enum : st -> expr -> st * (list (list val) + val)) (live : st -> val -> bool) (bind : st -> expr -> val -> st * option val) (fuel : nat) (s : stmt expr) (s0 : st),
    wf s = true ->
    let '(s1, L1, ro) := exec_o eval truthy poll recatch veq enum live bind fuel s0 [] s in
    let '(s2, rs) := exec_s eval truthy poll recatch veq enum live bind fuel s0 [] s in
    s1 = s2 /\ rel val [] ro rs /\ L1 = [].
Proof. exact control_flow_refines. Qed.
Print Assumptions C01_control_flow_refines_generic.

(* at the concrete language: same final state (so same host-call log, same
   variables), same outcome, and rt.labels back at rest — for every program
   whose labelled statements have a block, loop or try body (or do not jump
   to their own label), every fuel, every initial declaration set *)
Theorem C01_control_flow_refines :
  forall fuel declared halt (p : prog),
    wf (SBlock p) = true ->
    let '(so, L, oo) := run_o fuel declared halt p in
    let '(ss, os) := run_s fuel declared halt p in
    so = ss /\ oo = os /\ L = [].
Proof. exact run_refines. Qed.
Print Assumptions C01_control_flow_refines.

(* evaluation never retracts a host call already made (effects are monotone) *)
Theorem C01_effects_monotone : forall e s, extends s (fst (eval s e)).
Proof. exact eval_extends. Qed.
Print Assumptions C01_effects_monotone.

(* 12.14: an abruptly completing finally block overrides try/catch, both semantics *)
Theorem C01_finally_overrides_spec :
  forall (blk : state -> list (stmt expr) -> state * sres val) s2 c2 f s3 c3,
    blk s2 f = (s3, SDone c3) -> c3 <> CNormal ->
    sfinally blk (s2, SDone c2) (Some f) = (s3, SDone c3).
Proof. exact sfinally_overrides. Qed.
Print Assumptions C01_finally_overrides_spec.

Theorem C01_finally_overrides_otto :
  forall (blk : state -> list label -> list (stmt expr) -> state * list label * ores val)
         s2 L2 r2 f s3 L3 o3,
    r2 <> OFuel -> blk s2 L2 f = (s3, L3, ONorm o3) -> is_res o3 = true ->
    ofinally blk (s2, L2, r2) (Some f) = (s3, L3, ONorm o3).
Proof. exact ofinally_overrides. Qed.
Print Assumptions C01_finally_overrides_otto.

(* 12.12, repaired in /repo (finding C01-label-leak / C02-label-leak): a labelled statement takes a break to its own
   label whatever its body is.  Unguarded, for every evaluator/poll/enumeration parameter and every body *)
Theorem C01_labelled_takes_own_break :
  forall (st val expr : Type) eval truthy poll recatch veq enum live bind fuel (s0 : st) L l (s : stmt expr),
    match snd (exec_o (val:=val) eval truthy poll recatch veq enum live bind fuel s0 L (SLabelled l s)) with
    | ONorm (OBrk t) => t <> l | _ => True end.
Proof. exact labelled_takes_own_break. Qed.
Print Assumptions C01_labelled_takes_own_break.

(* the former witnesses of the defect - label on an if, on a try whose catch clause jumps, on a bare break, inside a
   function - lie outside the syntactic guard wf of the refinement theorem; both semantics agree on them now *)
Theorem C01_label_direct_agrees : agrees_on w_label_if [VNum 5] ONormal /\ wf (SBlock w_label_if) = false.
Proof. exact w_label_if_agrees. Qed.
Print Assumptions C01_label_direct_agrees.
Theorem C01_label_catch_agrees : agrees_on w_label_catch [VNum 5] ONormal /\ wf (SBlock w_label_catch) = false.
Proof. exact w_label_catch_agrees. Qed.
Print Assumptions C01_label_catch_agrees.
Theorem C01_label_bare_agrees : agrees_on w_label_bare [VNum 5] ONormal /\ wf (SBlock w_label_bare) = false.
Proof. exact w_label_bare_agrees. Qed.
Print Assumptions C01_label_bare_agrees.
Theorem C01_label_in_function_agrees : agrees_on w_label_fn [] (OReturned (VNum 7)) /\ wf (SBlock w_label_fn) = false.
Proof. exact w_label_fn_agrees. Qed.
Print Assumptions C01_label_in_function_agrees.

(* MiniJS+ (C01/Full.v): the ES5 reference semantics used as the oracle for
   functions, closures, this, arguments, call/apply/bind, constructors, every
   loop form, switch and for-in gives answers that do not depend on the fuel:
   an answer obtained with some fuel is THE answer for every larger fuel *)
Theorem C01_reference_semantics_fuel_independent : forall n m p,
  (n <= m)%nat -> snd (Full.run_program n p) <> Full.FOutOfFuel ->
  Full.run_program m p = Full.run_program n p.
Proof. exact FullProofs.run_program_stable. Qed.
Print Assumptions C01_reference_semantics_fuel_independent.

Example C01_reference_semantics_runs :
  Full.run_program 60 [Full.JFunDecl [102] [[120]] [Full.JReturn (Some (Full.XBin Full.PAdd (Full.XVar [120]) (Full.XLit (Full.WNum 1))))];
                       Full.JExpr (Full.XLog (Full.XCall (Full.XVar [102]) [Full.XLit (Full.WNum 41)]))]
  = ([Full.WNum 42], Full.FNormal).
Proof. vm_compute. reflexivity. Qed.

(* non-vacuity: a program with labelled loop, try/finally, break/continue/return meets the guard *)
Example C01_guard_met : wf (SBlock w_wf) = true /\
  run_o 100 [10%nat] 0 w_wf = (mkst [(10%nat, VNum 2)] [VNum 1; VNum 2] 44 0 None, [], OReturned (VNum 2)).
Proof. exact w_wf_ok. Qed.

(* non-vacuity for the other statement forms: for (all parts / none, empty body), do-while, a labelled
   switch with fall-through, default in the middle, a side-effecting case expression, break out of a nested loop *)
Example C01_guard_met_loops_switch : wf (SBlock w_wf2) = true /\
  (let '(s, L, o) := run_o 400 [10%nat; 11%nat] 0 w_wf2 in (out s, L, o)) =
    ([VNum 100; VNum 200; VNum 9; VNum 200; VNum 9; VNum 300], [], OReturned (VNum 3)).
Proof. exact w_wf2_ok. Qed.

(* non-vacuity of the for-in clauses: an instance of the generic theorem whose enumeration protocol yields names
   (own names 1, 2; inherited 3, 4; 2 deleted before its turn; the body breaks at 3): both semantics bind 1 and 3 *)
Example C01_guard_met_forin :
  wf t_prog = true /\
  exec_o t_eval t_truthy t_poll (fun v => v) Z.eqb t_enum t_live t_bind 20 [] [] t_prog = ([1; 3]%Z, [], ONorm OEmpty) /\
  exec_s t_eval t_truthy t_poll (fun v => v) Z.eqb t_enum t_live t_bind 20 [] [] t_prog = ([1; 3]%Z, SDone CNormal).
Proof. exact t_forin_runs. Qed.

(* otto's deviation on eval-declared bindings: ES5 makes them deletable, otto does not (pinned probes 1, 2, 3, 6, 7
   of the correspondence run; the control probes 4 and 5 agree) *)
Theorem C01_eval_bindings_deletable_refuted :
  exists id, C01.Corr.pin_model id <> C01.Corr.pin_spec id /\
             C01.Corr.pin_model 4 = C01.Corr.pin_spec 4 /\ C01.Corr.pin_model 5 = C01.Corr.pin_spec 5.
Proof. exists 1%Z. repeat split; vm_compute; congruence. Qed.
Print Assumptions C01_eval_bindings_deletable_refuted.

(* the arguments object of a function with a repeated parameter name (pinned probes 30-35 of the correspondence run):
   since bf94f2a the model of otto is the ES5 table, so any other observation is a violation *)
Theorem C01_arguments_dup_param_agrees :
  forall id, (30 <=? id)%Z && (id <=? 35)%Z = true -> C01.Corr.pin_model id = C01.Corr.pin_spec id.
Proof. intros id H. unfold C01.Corr.pin_model, C01.Corr.pin_spec. rewrite H. reflexivity. Qed.
Print Assumptions C01_arguments_dup_param_agrees.

(* the ES5 side of that table is what the reference semantics computes (10.6 step 11.c: a name is mapped once):
   function pick(a, b, a) { log(arguments[0]); a = 9; log(arguments[0]); log(arguments[2]); } pick(1, 2, 3) *)
Example C01_reference_arguments_dup_param :
  Full.run_program 60 [Full.JFunDecl [112] [[97]; [98]; [97]]
      [Full.JExpr (Full.XLog (Full.XIdx (Full.XVar Full.s_arguments) (Full.XLit (Full.WNum 0))));
       Full.JExpr (Full.XAssign [97] (Full.XLit (Full.WNum 9)));
       Full.JExpr (Full.XLog (Full.XIdx (Full.XVar Full.s_arguments) (Full.XLit (Full.WNum 0))));
       Full.JExpr (Full.XLog (Full.XIdx (Full.XVar Full.s_arguments) (Full.XLit (Full.WNum 2))))];
     Full.JExpr (Full.XCall (Full.XVar [112]) [Full.XLit (Full.WNum 1); Full.XLit (Full.WNum 2); Full.XLit (Full.WNum 3)])]
  = ([Full.WNum 1; Full.WNum 1; Full.WNum 9], Full.FNormal).
Proof. vm_compute. reflexivity. Qed.

(* reference semantics, the clauses added for the round-6 families.
   11.8.5 (LeftFirst): a > b converts a, then b:  ({valueOf(){log(1); return 1}}) > ({valueOf(){log(2); return 2}}) *)
Example C01_reference_relational_left_first :
  let ob t := Full.XObj [(Full.s_valueOf, Full.XFun [] [Full.JExpr (Full.XLog (Full.XLit (Full.WNum t))); Full.JReturn (Some (Full.XLit (Full.WNum t)))])] in
  Full.run_program 60 [Full.JExpr (Full.XLog (Full.XBin Full.PGt (ob 1%Z) (ob 2%Z))); Full.JExpr (Full.XLog (Full.XBin Full.PLe (ob 1%Z) (ob 2%Z)))]
  = ([Full.WNum 1; Full.WNum 2; Full.WBool false; Full.WNum 1; Full.WNum 2; Full.WBool true], Full.FNormal).
Proof. vm_compute. reflexivity. Qed.

(* 10.5 step 4.d: (function (a, b, a) { log(a); log(b) })(1, 2): the last a has no argument, a is undefined *)
Example C01_reference_repeated_parameter :
  Full.run_program 60 [Full.JExpr (Full.XCall (Full.XFun [[97]; [98]; [97]] [Full.JExpr (Full.XLog (Full.XVar [97])); Full.JExpr (Full.XLog (Full.XVar [98]))])
                                              [Full.XLit (Full.WNum 1); Full.XLit (Full.WNum 2)])]
  = ([Full.WUndef; Full.WNum 2], Full.FNormal).
Proof. vm_compute. reflexivity. Qed.

(* 15.1.2.1.1 / 10.4.2: indirect eval code is global code whatever this value the call supplied:
   var top = this; log(ge.call({a: 5}, "log(this === top); this.a")) *)
Example C01_reference_indirect_eval_this :
  Full.run_program 60 [Full.JVar [116] (Some Full.XThis);
     Full.JExpr (Full.XLog (Full.XEvalVia (Full.XObj [([97], Full.XLit (Full.WNum 5))])
        [Full.JExpr (Full.XLog (Full.XBin Full.PSeq Full.XThis (Full.XVar [116]))); Full.JExpr (Full.XGet Full.XThis [97])]))]
  = ([Full.WBool true; Full.WUndef], Full.FNormal).
Proof. vm_compute. reflexivity. Qed.

(* 11.6.1 steps 5-7: "n=" + {valueOf: -> log(1), 1; toString: -> log(2), "x"} asks valueOf (hint-less ToPrimitive of BOTH
   operands comes before the string test) and concatenates ToString of the primitives: "n=1" *)
Example C01_reference_plus_string_after_toprimitive :
  let fn t r := Full.XFun [] [Full.JExpr (Full.XLog (Full.XLit (Full.WNum t))); Full.JReturn (Some (Full.XLit r))] in
  Full.run_program 60 [Full.JExpr (Full.XLog (Full.XBin Full.PAdd (Full.XLit (Full.WStr [110; 61]))
      (Full.XObj [(Full.s_valueOf, fn 1%Z (Full.WNum 1)); (Full.s_toString, fn 2%Z (Full.WStr [120]))])))]
  = ([Full.WNum 1; Full.WStr [110; 61; 49]], Full.FNormal).
Proof. vm_compute. reflexivity. Qed.

(* 11.12 returns GetValue of the chosen branch: var o = {m: function () { log(this === o) }}; (1 ? o.m : 0)() runs with
   this = the global object, o.m() with this = o *)
Example C01_reference_conditional_yields_value :
  let o := [111] in let m := [109] in
  Full.run_program 60 [Full.JVar o (Some (Full.XObj [(m, Full.XFun [] [Full.JExpr (Full.XLog (Full.XBin Full.PSeq Full.XThis (Full.XVar o)))])]));
     Full.JExpr (Full.XCall (Full.XCond (Full.XLit (Full.WNum 1)) (Full.XGet (Full.XVar o) m) (Full.XLit (Full.WNum 0))) []);
     Full.JExpr (Full.XMCall (Full.XVar o) m [])]
  = ([Full.WBool false; Full.WBool true], Full.FNormal).
Proof. vm_compute. reflexivity. Qed.

(* otto's deviation on the value of a block / try / with that produces no value (pinned probes 40-45 of the correspondence
   run; 44 and 45 are controls that agree) *)
Theorem C01_valueless_block_undefined_refuted :
  exists id, C01.Corr.pin_model id <> C01.Corr.pin_spec id /\
             C01.Corr.pin_model 44 = C01.Corr.pin_spec 44 /\ C01.Corr.pin_model 45 = C01.Corr.pin_spec 45.
Proof. exists 40%Z. repeat split; vm_compute; congruence. Qed.
Print Assumptions C01_valueless_block_undefined_refuted.

(* the ES5 side: 7; { }  and  7; try { } finally { }  have the value 7 (12.1: an empty block is the empty completion) *)
Example C01_reference_valueless_block :
  Full.run_program_cv 60 [Full.JExpr (Full.XLit (Full.WNum 7)); Full.JBlock []] = ([], Full.FNormal, Full.WNum 7) /\
  Full.run_program_cv 60 [Full.JExpr (Full.XLit (Full.WNum 7)); Full.JTry [] None (Some [])] = ([], Full.FNormal, Full.WNum 7).
Proof. split; vm_compute; reflexivity. Qed.
