(* C11 — JSON.parse and JSON.stringify agree with the JSON grammar and round-trip.
   Only statements here; proofs are in C11/Proofs*.v.  Spec = ES5 15.12.1-3
   transcribed over lists of UTF-16 code units; Model = Spec plus otto's
   deviations (builtin_json.go delegating to Go's encoding/json).  The
   correspondence run ties otto to both on generated texts and values. *)
From Coq Require Import ZArith List Bool.
From Otto Require Import Common.Double C11.Spec C11.Model C11.Corr C11.Proofs C11.ProofsStr.
Import ListNotations.
Open Scope Z_scope.

(* 15.12.2 step 2: the parser accepts exactly the texts of the 15.12.1 grammar
   and returns the value the grammar assigns; every other text is rejected
   (parse t = None, i.e. SyntaxError) *)
Theorem C11_parser_iff_grammar : forall t v, parse t = Some v <-> JSONText t v.
Proof. exact parse_iff_grammar. Qed.
Print Assumptions C11_parser_iff_grammar.

Theorem C11_rejects_outside_grammar : forall t, parse t = None <-> (forall v, ~ JSONText t v).
Proof.
  intros t. split.
  - intros H v Hv. apply parse_iff_grammar in Hv. congruence.
  - intros H. destruct (parse t) as [v|] eqn:E; [|reflexivity].
    exfalso. apply (H v). now apply parse_iff_grammar.
Qed.
Print Assumptions C11_rejects_outside_grammar.

(* a text of the grammar denotes exactly one value *)
Theorem C11_grammar_unambiguous : forall t v1 v2, JSONText t v1 -> JSONText t v2 -> v1 = v2.
Proof. exact JSONText_functional. Qed.
Print Assumptions C11_grammar_unambiguous.

(* 15.12.3 output (compact, or with any gap/indent made of JSON white space)
   of every JSON value is a text of the grammar and parses back to the value.
   Numbers are their token text here (any JSONNumber token): the value of a
   token as a double is [num_value]; the law num_value (ToString d) = d is
   checked on every number of the correspondence run, not proved (C06). *)
Theorem C11_roundtrip : forall gap ind v, WS gap -> WS ind -> wf v -> parse (printg gap ind v) = Some v.
Proof. exact parse_printg. Qed.
Print Assumptions C11_roundtrip.

Theorem C11_print_in_grammar : forall gap v, WS gap -> wf v -> JSONText (printg gap [] v) v.
Proof. intros gap v Hg Hv. apply parse_iff_grammar. apply parse_printg; auto. reflexivity. Qed.
Print Assumptions C11_print_in_grammar.

(* stringify(parse(t)) denotes the same value as t: the value of any text made of
   UTF-16 code units is well formed, so its 15.12.3 print (any white-space gap)
   is again a text of the grammar with that value *)
Theorem C11_reprint : forall t v gap, forallb is_unit t = true -> WS gap ->
  parse t = Some v -> parse (printg gap [] v) = Some v.
Proof. exact reprint_denotes_same. Qed.
Print Assumptions C11_reprint.

(* 15.12.3 steps 5-8: the gap is at most 10 code units, and a string gap is a prefix of the argument *)
Theorem C11_gap_at_most_10 : forall sp, (length (gap_of es5 sp) <= 10)%nat.
Proof. exact gap_le_10. Qed.
Print Assumptions C11_gap_at_most_10.

(* 15.12.3 Str/JO/JA without replacer, on every value free of toJSON methods
   whose objects have pairwise different keys (cyclic references included):
   the walk computes [denote] - undefined and functions vanish from objects
   and are null in arrays, wrappers are unboxed, non-finite numbers are null,
   a reference to an enclosing container is a TypeError *)
Theorem C11_stringify_shape : forall v, plain v ->
  forall fuel inarr key, (depth v < fuel)%nat -> str_walk es5 RNone None fuel false inarr key v = denote v.
Proof. exact str_walk_shape. Qed.
Print Assumptions C11_stringify_shape.

Theorem C11_undefined_and_functions_omitted : forall k1 k2 (v : js),
  key_eqb k1 k2 = false -> plain v -> (depth v < 50)%nat ->
  stringify es5 (Obj [(k1, Undef); (k2, v); (k1 ++ k2 ++ [0], Fun)]) RNone SNone
  = stringify es5 (Obj [(k2, v)]) RNone SNone.
Proof. exact undefined_members_omitted. Qed.
Print Assumptions C11_undefined_and_functions_omitted.

Theorem C11_undefined_in_arrays_is_null : forall l1 l2, Forall plain l1 -> Forall plain l2 ->
  denote (Arr (l1 ++ Undef :: l2)) = denote (Arr (l1 ++ Null :: l2)) /\
  denote (Arr (l1 ++ Fun :: l2)) = denote (Arr (l1 ++ Null :: l2)).
Proof. exact undefined_elements_null. Qed.
Print Assumptions C11_undefined_in_arrays_is_null.

Theorem C11_cycle_typeerror : forall pre post b,
  (forall x, In x pre -> exists t, denote x = DVal t \/ denote x = DUndef) ->
  denote (Arr (pre ++ Cyc b :: post)) = DErr 6.
Proof. exact cycle_is_typeerror. Qed.
Print Assumptions C11_cycle_typeerror.

(* 15.12.2 Walk is bottom-up: the call for a node is the last of its sub-walk and
   sees the node with its children already revived; the result is the reviver's *)
Theorem C11_reviver_bottom_up : forall id f key v,
  exists log v', fst (rwalk id (S f) key v) = log ++ [(key, v')] /\
                 snd (rwalk id (S f) key v) = rev_fun id key v'.
Proof. exact rwalk_node_last. Qed.
Print Assumptions C11_reviver_bottom_up.

(* 15.12.2 Walk step 3.a reads the array length once: whatever the reviver does to its
   holder (revivers 8-12 push, pop, truncate, lengthen, unshift), it is called for exactly
   the indices 0 .. len-1 of the array as parsed, in order, then for the array itself *)
Theorem C11_reviver_array_length_read_once : forall id f key l,
  forallb leaf l = true ->
  map fst (fst (rwalk id (S (S f)) key (OArr l)))
  = map (fun i => dec (Z.of_nat i)) (seq 0 (length l)) ++ [key].
Proof. exact rwalk_array_length_read_once. Qed.
Print Assumptions C11_reviver_array_length_read_once.

(* deletions on undefined: the reviver that returns undefined for every member
   leaves no member behind, for every object (otto's walk used to lose track of
   members while deleting; repaired by 7f33b5d, so model = spec here) *)
Theorem C11_reviver_deletes_all : forall m f,
  (forall kv, In kv m -> fst kv <> []) ->
  snd (rwalk 7 (S (S f)) [] (OObj m)) = OObj [].
Proof. exact reviver_deletes_all. Qed.
Print Assumptions C11_reviver_deletes_all.

(* 15.12.3 JO with a property list reads every listed name with [[Get]]: a member of the
   prototype chain is emitted when the list names it, and not otherwise *)
Theorem C11_property_list_reads_chain : forall k,
  stringify es5 (ObjH [] [(k, Null)]) (RList [PStr k]) SNone
    = SText (123 :: (quote_fl es5 k ++ 58 :: [110; 117; 108; 108]) ++ [125]) /\
  stringify es5 (ObjH [] [(k, Null)]) RNone SNone = SText [123; 125].
Proof. exact property_list_reads_chain. Qed.
Print Assumptions C11_property_list_reads_chain.

(* 15.12.3 step 4.b: the property list, of the model with or without otto's
   remaining deviations, never holds a name twice (the array-replacer defect
   was repaired by c349b98: the model's list is the ES5 list K) *)
Theorem C11_property_list_distinct : forall fl l, distinct (plist_of fl l).
Proof. exact property_list_distinct. Qed.
Print Assumptions C11_property_list_distinct.

(* otto's deviations, as refutations of "model = spec" with concrete witnesses *)
Theorem C11_parse_surrogate_refuted : exists t, pobs_eqb (parse_model t) (parse_spec t) = false.
Proof. exists [34; 92; 117; 100; 56; 48; 48; 34]. reflexivity. Qed.
Print Assumptions C11_parse_surrogate_refuted.

Theorem C11_parse_overflow_refuted : exists t, pobs_eqb (parse_model t) (parse_spec t) = false.
Proof. exists [49; 101; 52; 48; 48]. reflexivity. Qed.
Print Assumptions C11_parse_overflow_refuted.

Theorem C11_stringify_order_refuted : exists v, stringify otto v RNone SNone <> stringify es5 v RNone SNone.
Proof. exists (Obj [([98], Null); ([97], Null)]). vm_compute. discriminate. Qed.
Print Assumptions C11_stringify_order_refuted.

Theorem C11_stringify_escape_refuted : exists v, stringify otto v RNone SNone <> stringify es5 v RNone SNone.
Proof. exists (Str [60]). vm_compute. discriminate. Qed.
Print Assumptions C11_stringify_escape_refuted.

Theorem C11_stringify_surrogate_refuted : exists v, stringify otto v RNone SNone <> stringify es5 v RNone SNone.
Proof. exists (Str [55296]). vm_compute. discriminate. Qed.
Print Assumptions C11_stringify_surrogate_refuted.

Theorem C11_gap_bytes_refuted : exists v s, stringify otto v RNone (SStr s) <> stringify es5 v RNone (SStr s).
Proof. exists (Arr [Null]), [233; 233; 233; 233; 233; 233]. vm_compute. discriminate. Qed.
Print Assumptions C11_gap_bytes_refuted.

Theorem C11_integer_digits_refuted : exists v, stringify otto v RNone SNone <> stringify es5 v RNone SNone.
Proof. exists (Num 4877398396442247168 [49; 49; 53; 50; 57; 50; 49; 53; 48; 52; 54; 48; 54; 56; 52; 55] 19). vm_compute. discriminate. Qed.
Print Assumptions C11_integer_digits_refuted.

(* non-vacuity: the hypotheses of the round trip are met by a value with every constructor *)
Example C11_roundtrip_hyp_met :
  let v := JObj [([97; 10], JArr [JNum [45; 49; 46; 53; 101; 43; 51]; JStr [34; 0; 233]; JBool true; JNull; JArr []; JObj []])] in
  WS [32; 9] /\ parse (printg [32; 9] [] v) = Some v /\ parse (print v) = Some v.
Proof. vm_compute. repeat split. Qed.

Example C11_shape_hyp_met :
  let v := Obj [([97], Arr [Undef; Fun; WBool true; Num 9218868437227405312 [] 0; Cyc true]); ([98], Str [120])] in
  plain v /\ (depth v < 5)%nat /\ stringify es5 v RNone SNone = SErr 6 /\
  stringify es5 (Obj [([97], Arr [Undef; Fun; WBool true; Num 9218868437227405312 [] 0]); ([98], Fun)]) RNone SNone
  = SText [123; 34; 97; 34; 58; 91; 110; 117; 108; 108; 44; 110; 117; 108; 108; 44; 116; 114; 117; 101; 44; 110; 117; 108; 108; 93; 125].
Proof. vm_compute. repeat split; auto. Qed.

Example C11_deletes_all_hyp_met :
  let m := [([97], ONull); ([98], OArr [ONull]); ([99], OObj [([], ONull)])] in
  (forall kv, In kv m -> fst kv <> []) /\ snd (rwalk 7 3 [] (OObj m)) = OObj [] /\ revdel_left 12 = 0.
Proof.
  split; [|split; reflexivity].
  intros kv [<-|[<-|[<-|[]]]]; discriminate.
Qed.

Example C11_property_list_example :
  plist_of otto [PJunk; PStr [97]; PStr [97]; PNum 1; PWStr [98]] = [[97]; [49]; [98]].
Proof. reflexivity. Qed.

Example C11_length_read_once_example :
  forallb leaf [ONull; ONull; ONull] = true /\
  snd (rwalk 8 3 [] (OArr [ONull; ONull])) = OArr [ONull; ONull; OStr [80]] /\
  snd (rwalk 9 3 [] (OArr [ONull; ONull; ONull])) = OArr [ONull; ONull; OStr [68]] /\
  snd (rwalk 10 3 [] (OArr [ONull; OBool true])) = OArr [ONull].
Proof. repeat split; reflexivity. Qed.
