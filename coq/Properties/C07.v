From Coq Require Import ZArith NArith List Bool.
From Otto Require Import C07.Spec C07.Model C07.Proofs C07.Corr.
Import ListNotations.
Open Scope Z_scope.
