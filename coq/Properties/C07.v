(* C07 — objects obey the ES5 property model: attributes, inheritance, extensibility.
   Only statements here; proofs are in C07/Proofs.v (laws of the ES5 state machine
   Spec over all finite histories) and C07/ProofsRefine.v (otto's octal-mode
   algorithm Model against Spec).  The correspondence run ties otto itself to
   Model and Spec on every generated history. *)
From Coq Require Import ZArith NArith List Bool.
From Otto Require Import Common.Corr C07.Spec C07.Model C07.Proofs C07.ProofsRefine C07.ProofsReach.
Import ListNotations.
Open Scope Z_scope.

(* ---- laws of the object model, for every finite history of operations from every state ---- *)

(* a non-writable, non-configurable value never changes *)
Theorem C07_nonwritable_value_constant : forall s ops a n v e,
  own_prop s a n = Some (PData v false e false) ->
  own_prop (exec s ops) a n = Some (PData v false e false).
Proof. exact nonwritable_value_constant. Qed.
Print Assumptions C07_nonwritable_value_constant.

(* a non-configurable property is never deleted and never re-shaped: it stays own, non-configurable,
   of the same kind and enumerability; an accessor keeps its functions, a data property may only go
   from writable to non-writable and keeps its value once non-writable *)
Theorem C07_nonconfigurable_persistent : forall s ops a n p,
  own_prop s a n = Some p -> p_conf p = false ->
  exists p', own_prop (exec s ops) a n = Some p' /\
    p_conf p' = false /\ p_enum p' = p_enum p /\
    match p, p' with
    | PData v w _ _, PData v' w' _ _ => (w = false -> v' = v /\ w' = false)
    | PAcc g s _ _, PAcc g' s' _ _ => g' = g /\ s' = s
    | _, _ => False
    end.
Proof. exact nonconfigurable_persistent. Qed.
Print Assumptions C07_nonconfigurable_persistent.

(* a non-extensible object never gains a property and never becomes extensible again *)
Theorem C07_nonextensible_no_growth : forall s ops a n,
  ext_of s a = Some false ->
  ext_of (exec s ops) a = Some false /\
  (own_prop (exec s ops) a n <> None -> own_prop s a n <> None).
Proof. exact nonextensible_no_growth. Qed.
Print Assumptions C07_nonextensible_no_growth.

(* a frozen object is a fixed point: prototype, extensibility and every property are as before *)
Theorem C07_frozen_is_fixed_point : forall s ops a o,
  nth_error (s_heap s) a = Some o -> is_frozen o = true ->
  exists o', nth_error (s_heap (exec s ops)) a = Some o' /\
    o_proto o' = o_proto o /\ o_ext o' = false /\
    forall n, lookup (o_props o') n = lookup (o_props o) n.
Proof. exact frozen_is_fixed_point. Qed.
Print Assumptions C07_frozen_is_fixed_point.

(* in every state reachable from the initial one, no object lists an own name twice *)
Theorem C07_keys_nodup : forall s a o, reachable s -> nth_error (s_heap s) a = Some o ->
  NoDup (own_names o) /\ NoDup (own_keys o).
Proof. exact keys_nodup. Qed.
Print Assumptions C07_keys_nodup.

(* for-in over any prototype chain of a reachable state visits no name twice *)
Theorem C07_forin_nodup : forall s a, reachable s -> NoDup (forin (length (s_heap s)) (s_heap s) a []).
Proof. intros s a R. exact (proj1 (forin_nodup _ (reachable_nodup s R) _ a [])). Qed.
Print Assumptions C07_forin_nodup.

(* for-in is complete: an enumerable property found by [[GetProperty]] anywhere on the prototype
   chain (Object.prototype included) is visited *)
Theorem C07_forin_complete : forall h a n p,
  get_property (length h) h a n = Some p -> p_enum p = true -> In n (forin (length h) h a []).
Proof. exact forin_complete. Qed.
Print Assumptions C07_forin_complete.

(* after a successful delete the name is no own property and is not enumerated *)
Theorem C07_deleted_not_enumerated : forall o n o',
  delete_own o n = (o', true) ->
  lookup (o_props o') n = None /\ ~ In n (own_names o') /\ ~ In n (own_keys o').
Proof. exact deleted_not_enumerated. Qed.
Print Assumptions C07_deleted_not_enumerated.

(* an accessor inherited through the prototype chain governs assignment *)
Theorem C07_inherited_accessor_governs_put : forall h a o pa n v g s e c,
  nth_error h a = Some o -> lookup (o_props o) n = None -> o_proto o = Some pa ->
  get_property (length h) h pa n = Some (PAcc g s e c) ->
  put h a n v = (h, match s with Some f => [f + 1; Z.of_nat a; enc_val v] | None => [] end).
Proof. exact inherited_accessor_governs_put. Qed.
Print Assumptions C07_inherited_accessor_governs_put.

Theorem C07_put_nonwritable : forall h a o n v v0 e c,
  nth_error h a = Some o -> lookup (o_props o) n = Some (PData v0 false e c) -> put h a n v = (h, []).
Proof. exact put_nonwritable. Qed.
Print Assumptions C07_put_nonwritable.

(* ---- otto's algorithm against ES5 ---- *)

(* toPropertyDescriptor is 8.10.5 for every descriptor object, including malformed ones *)
Theorem C07_descriptor_conversion : forall r, option_map abs_desc (to_mdesc r) = to_desc r.
Proof. exact to_mdesc_refines. Qed.
Print Assumptions C07_descriptor_conversion.

(* objectDefineOwnProperty on an existing property is 8.12.9 steps 5-13, for every stored property
   (any valid octal mode, any payload) and every descriptor.  Unguarded since the repairs b253246
   (generic descriptor kept [[Writable]]) and 11c8465 (accessor to data property without a value). *)
Theorem C07_define_refines : forall p d,
  wf_prop p -> wf_desc d ->
  abs_res p (m_define_existing p d) = define_existing (abs_prop p) (abs_desc d).
Proof. exact define_existing_refines. Qed.
Print Assumptions C07_define_refines.

Theorem C07_define_new_refines : forall d, wf_desc d -> abs_prop (m_define_new d) = define_new (abs_desc d).
Proof. exact define_new_refines. Qed.
Print Assumptions C07_define_new_refines.

(* which octal modes / payloads are reachable: every redefinition keeps the stored property
   well-formed, in particular a getter/setter pair is never stored under a data mode *)
Theorem C07_mode_reachable : forall p d p',
  wf_prop p -> wf_desc d -> m_define_existing p d = DOk p' -> wf_prop p'.
Proof. exact define_existing_wf. Qed.
Print Assumptions C07_mode_reachable.

Theorem C07_mode_reachable_new : forall d, wf_desc d -> wf_prop (m_define_new d).
Proof. exact define_new_wf. Qed.
Print Assumptions C07_mode_reachable_new.

(* fromPropertyDescriptor on any reachable stored property never panics and is the ES5 descriptor
   (8.10.4), also for an accessor whose getter and setter are both undefined (repair cbc8127) *)
Theorem C07_descriptor_roundtrip : forall p, wf_prop p ->
  m_obs_desc (Some p) = Some (obs_desc (Some (abs_prop p))).
Proof. exact obs_desc_refines. Qed.
Print Assumptions C07_descriptor_roundtrip.

(* for-in over an object whose body deletes properties (repair 7f33b5d: the loop ranges over a copy
   of the order list): no name is visited twice and only own names are visited *)
Theorem C07_forin_delete_nodup : forall h cur o at_n a2 del_n,
  nth_error h cur = Some o -> m_proto o = None -> NoDup (m_own_names o) ->
  NoDup (snd (m_forin_del (length h) h cur at_n a2 del_n [])) /\
  forall n, In n (snd (m_forin_del (length h) h cur at_n a2 del_n [])) -> In n (m_own_names o).
Proof. exact forin_delete_nodup. Qed.
Print Assumptions C07_forin_delete_nodup.

(* the for-in loop of cmplEvaluateNodeForInStatement visits every enumerable property that
   [[GetProperty]] finds from the enumerated object, whichever chain member holds it *)
Theorem C07_model_forin_complete : forall fuel h a n p,
  m_get_property fuel h a n = Some p -> enumerable (sm p) = true -> In n (m_forin fuel h a).
Proof. exact m_forin_complete. Qed.
Print Assumptions C07_model_forin_complete.

(* ---- otto's remaining deviations, as refutations with witnesses ---- *)
Definition num (z : Z) := VNum z.
Definition dsc v w g s e c := mkR v w g s e c.

Theorem C07_forin_shadow_refuted :
  exists ops, fst (mrun minit ops) <> run init ops.
Proof.
  exists [OPut 0 0 (num 1); OCreate 1 (Some 0%nat) None; OPut 1 0 (num 2)]. vm_compute. discriminate.
Qed.
Print Assumptions C07_forin_shadow_refuted.

Theorem C07_defineproperties_partial_refuted :
  exists ops, fst (mrun minit ops) <> run init ops.
Proof.
  exists [ODefines 0 [(0, dsc (Some (num 1)) None GAbsent GAbsent None None);
                      (1, dsc None None GBad GAbsent None None)]]. vm_compute. discriminate.
Qed.
Print Assumptions C07_defineproperties_partial_refuted.

(* the witnesses of the four repaired defects: model and spec now agree on them *)
Example C07_repaired_witnesses_agree :
  forallb (fun ops => list_eqb zlist_eqb (fst (mrun minit ops)) (run init ops))
    [ [OPut 0 0 (num 1); ODefine 0 0 (dsc None None GAbsent GAbsent (Some false) None)];
      [ODefine 0 0 (dsc None None (GFn 0) GAbsent None (Some true)); ODefine 0 0 (dsc None (Some true) GAbsent GAbsent None None)];
      [ODefine 0 0 (dsc None None GUndef GAbsent None None)];
      [OPut 0 0 (num 1); ODefine 0 0 (dsc None None GUndef GAbsent None None)];
      [OPut 0 0 (num 1); OPut 0 1 (num 2); OPut 0 2 (num 3); OForInDel 0 0 0 0] ] = true.
Proof. vm_compute. reflexivity. Qed.

(* ---- non-vacuity: the hypotheses above are met by concrete histories ---- *)
Definition frozen_history : list op :=
  [OPut 0 0 (num 1); ODefine 0 1 (dsc None None (GFn 0) GAbsent (Some true) None); OFreeze 0].

Example C07_frozen_hyp_met :
  exists o, nth_error (s_heap (exec init frozen_history)) 1 = Some o /\ is_frozen o = true /\
            lookup (o_props o) 0 = Some (PData (num 1) false true false).
Proof. eexists. vm_compute. auto. Qed.

Example C07_nonwritable_hyp_met :
  own_prop (exec init frozen_history) 1 0 = Some (PData (num 1) false true false) /\
  ext_of (exec init frozen_history) 1 = Some false /\ reachable (exec init frozen_history).
Proof. split; [reflexivity | split; [reflexivity | exists frozen_history; reflexivity]]. Qed.

Example C07_inherited_accessor_hyp_met :
  let h := s_heap (exec init [ODefine 0 0 (dsc None None GAbsent (GFn 1) None None); OCreate 1 (Some 0%nat) None]) in
  exists o, nth_error h 4 = Some o /\ lookup (o_props o) 0 = None /\ o_proto o = Some 1%nat /\
            get_property (length h) h 1 0 = Some (PAcc None (Some 1) false false).
Proof. eexists. vm_compute. auto. Qed.

Example C07_define_refines_hyp_met :
  wf_prop (mkMP (SVal (num 1)) 73%N) /\ wf_desc (mkMD (DVal (num 2)) 146%N) /\
  wf_prop (mkMP (SGetSet (Some 0) None) 129%N) /\ wf_desc (mkMD DNone 82%N).
Proof. repeat split; try reflexivity; try exact I; apply valid_b; reflexivity. Qed.

Example C07_forin_delete_hyp_met :
  let h := ms_heap (fst (fst (mstep (fst (fst (mstep minit (OPut 3 0 (num 1))))) (OPut 3 1 (num 2))))) in
  exists o, nth_error h 0 = Some o /\ m_proto o = None /\ m_own_names o = [0; 1] /\
            snd (m_forin_del (length h) h 0 0 0 0 []) = [0; 1].
Proof. eexists. vm_compute. auto. Qed.

Example C07_forin_complete_hyp_met :
  let h := s_heap (exec init [OPut 3 0 (num 1)]) in
  get_property (length h) h 1 0 = Some (PData (num 1) true true true) /\ In 0 (forin (length h) h 1 []).
Proof. vm_compute. auto. Qed.

Example C07_delete_hyp_met :
  exists o', delete_own (mkO None true [(0, PData (num 1) true true true)]) 0 = (o', true).
Proof. eexists. reflexivity. Qed.
