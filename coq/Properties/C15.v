(* C15 — values survive the Go -> JavaScript -> Go round trip.
   Only statements here; proofs are in C15/Proofs*.v.  Model = otto's bridge
   (toValue, export, float64(), number(), bool(), string(), MarshalJSON, the
   array typing of Export) as transcribed in C15/Model*.v; Spec = the required
   round trip.  The correspondence run ties both to the interpreter built from
   /repo on generated Go values of every kind and width. *)
From Coq Require Import ZArith List Bool.
From Otto Require Import Common.Double C15.Model C15.Spec C15.Proofs.
Import ListNotations.
Open Scope Z_scope.

(* Export (toValue g) = g for every scalar of every kind and width, on the
   type-switch branch and on the reflect branch (named types, pointers) *)
Theorem C15_scalar_roundtrip : forall refl g, wf g ->
  canon (export (toValue refl g)) = canon g /\
  ((forall b, g <> GF32 b) -> export (toValue refl g) = g).
Proof. intros refl g H. split; [exact (scalar_roundtrip refl g H) | exact (scalar_roundtrip_exact refl g H)]. Qed.
Print Assumptions C15_scalar_roundtrip.

(* Go's T(int64) conversion in the reflect branch is the identity on the type and never leaves it *)
Theorem C15_reflect_conversion : forall k n,
  in_range k (wrap k n) /\ (in_range k n -> wrap k n = n).
Proof. intros k n. split; [exact (wrap_in_range k n) | exact (wrap_id k n)]. Qed.
Print Assumptions C15_reflect_conversion.

(* ToInteger gives the integer back: always for the seven kinds read directly,
   up to 2^53 in magnitude for int32/uint/uint64 *)
Theorem C15_tointeger_exact : forall sn refl k n, in_range k n ->
  number_direct k = true \/ Z.abs n <= 2 ^ 53 ->
  to_integer sn (toValue refl (GInt k n)) = Ok n.
Proof. exact to_integer_exact. Qed.
Print Assumptions C15_tointeger_exact.

Theorem C15_tointeger_int32 : forall sn refl n, in_range KInt32 n ->
  to_integer sn (toValue refl (GInt KInt32 n)) = Ok n.
Proof. exact to_integer_int32. Qed.
Print Assumptions C15_tointeger_int32.

(* ToFloat is the counterpart Number for every scalar *)
Theorem C15_tofloat_counterpart : forall sn g,
  to_float sn (toValue false g) = Ok (spec_to_float sn g) /\
  (wf g -> (forall b, g <> GF32 b) -> to_float sn (toValue true g) = Ok (spec_to_float sn g)).
Proof. intros sn g. split; [exact (to_float_agrees sn g) | exact (to_float_agrees_refl sn g)]. Qed.
Print Assumptions C15_tofloat_counterpart.

Theorem C15_toboolean_agrees : forall g,
  to_boolean (toValue false g) = spec_to_boolean g /\
  ((forall b, g <> GF32 b) -> wf g -> to_boolean (toValue true g) = spec_to_boolean g).
Proof. exact to_boolean_agrees. Qed.
Print Assumptions C15_toboolean_agrees.

(* IsUndefined/IsNull/IsBoolean/IsNumber/IsString agree with typeof of the counterpart *)
Theorem C15_predicates_agree : forall refl g,
  let v := toValue refl g in
  typeof v = spec_typeof g /\
  is_undefined v = (spec_typeof g =? 0) /\
  is_null v = false /\
  is_boolean v = (spec_typeof g =? 2) /\
  is_number v = (spec_typeof g =? 3) /\
  is_string v = (spec_typeof g =? 4).
Proof. exact predicates_agree. Qed.
Print Assumptions C15_predicates_agree.

(* ---------- otto's deviations, refuted with witnesses ---------- *)
(* uint64 goes through float64(): 2^53+1 comes back as 2^53 *)
Theorem C15_uint64_tointeger_refuted : exists n, in_range KUint64 n /\ n < 2 ^ 63 /\
  to_integer (fun _ => 0) (toValue false (GInt KUint64 n)) <> Ok n.
Proof.
  exists (2 ^ 53 + 1). split; [|split].
  - vm_compute. split; discriminate.
  - vm_compute. reflexivity.
  - vm_compute. discriminate.
Qed.
Print Assumptions C15_uint64_tointeger_refuted.

(* by design of the int64 API: beyond 2^63 the answer is MaxInt64 *)
Theorem C15_uint64_tointeger_saturates : exists n, in_range KUint64 n /\
  to_integer (fun _ => 0) (toValue false (GInt KUint64 n)) = Ok max64 /\
  spec_to_integer (fun _ => 0) (GInt KUint64 n) = max64.
Proof.
  exists (2 ^ 63 + 5). split; [|split].
  - vm_compute. split; discriminate.
  - vm_compute. reflexivity.
  - vm_compute. reflexivity.
Qed.
Print Assumptions C15_uint64_tointeger_saturates.

(* a float32 payload (named float32 type, *float32) makes ToFloat panic *)
Theorem C15_float32_reflect_refuted : exists b,
  to_float (fun _ => 0) (toValue true (GF32 b)) <> Ok (spec_to_float (fun _ => 0) (GF32 b)).
Proof. exists 0x3F000000. vm_compute. discriminate. Qed.
Print Assumptions C15_float32_reflect_refuted.

(* a float32 NaN payload is truthy *)
Theorem C15_float32_nan_truthy_refuted : exists b,
  to_boolean (toValue true (GF32 b)) <> spec_to_boolean (GF32 b).
Proof. exists nan32_bits. vm_compute. discriminate. Qed.
Print Assumptions C15_float32_nan_truthy_refuted.

(* MarshalJSON of NaN is an error, JSON.stringify gives null *)
Theorem C15_marshal_nan_refuted : exists b fs js,
  marshal_json fs js (toValue false (GF64 b)) <> spec_marshal_json fs js (GF64 b).
Proof. exists nan_bits, (fun _ => []), (fun s => s). vm_compute. discriminate. Qed.
Print Assumptions C15_marshal_nan_refuted.

(* scripts see the exact digits of a wide integer, not the text of the Number it is *)
Theorem C15_wide_int_text_refuted : exists n, in_range KInt64 n /\
  to_string (fun _ => []) (toValue false (GInt KInt64 n)) <> decimal (round_to_double n).
Proof.
  exists (2 ^ 53 + 1). split.
  - vm_compute. split; discriminate.
  - vm_compute. discriminate.
Qed.
Print Assumptions C15_wide_int_text_refuted.

(* non-vacuity *)
Example C15_wf_met : wf (GInt KUint8 200) /\ export (toValue true (GInt KUint8 200)) = GInt KUint8 200.
Proof. vm_compute. split; [split; discriminate | reflexivity]. Qed.
Example C15_tointeger_hyp_met : in_range KUint64 (2 ^ 53) /\ Z.abs (2 ^ 53) <= 2 ^ 53 /\
  to_integer (fun _ => 0) (toValue false (GInt KUint64 (2 ^ 53))) = Ok (2 ^ 53).
Proof.
  split; [|split].
  - vm_compute. split; discriminate.
  - vm_compute. discriminate.
  - vm_compute. reflexivity.
Qed.
