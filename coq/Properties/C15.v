(* C15 — values survive the Go -> JavaScript -> Go round trip.
   Only statements here; proofs are in C15/Proofs*.v.  Model = otto's bridge
   (toValue, export, float64(), number(), bool(), string(), MarshalJSON, the
   array typing of Export) as transcribed in C15/Model*.v; Spec = the required
   round trip.  The correspondence run ties both to the interpreter built from
   /repo on generated Go values of every kind and width. *)
From Coq Require Import ZArith List Bool.
From Otto Require Import Common.Double C15.Model C15.Spec C15.Proofs C15.ModelExport C15.ProofsExport C15.Corr C15.ProofsCorr.
Import ListNotations.
Open Scope Z_scope.

(* Export (toValue g) = g for every scalar of every kind and width, on the
   type-switch branch and on the reflect branch (named types, pointers) *)
Theorem C15_scalar_roundtrip : forall refl g, wf g ->
  canon (export (toValue refl g)) = canon g /\
  ((forall b, g <> GF32 b) -> export (toValue refl g) = g).
Proof. intros refl g H. split; [exact (scalar_roundtrip refl g H) | exact (scalar_roundtrip_exact refl g H)]. Qed.
Print Assumptions C15_scalar_roundtrip.

(* Go's T(int64) conversion in the reflect branch is the identity on the type and never leaves it *)
Theorem C15_reflect_conversion : forall k n,
  in_range k (wrap k n) /\ (in_range k n -> wrap k n = n).
Proof. intros k n. split; [exact (wrap_in_range k n) | exact (wrap_id k n)]. Qed.
Print Assumptions C15_reflect_conversion.

(* ToInteger gives the integer back: always for the seven kinds read directly,
   up to 2^53 in magnitude for int32/uint/uint64 *)
Theorem C15_tointeger_exact : forall sn refl k n, in_range k n ->
  number_direct k = true \/ Z.abs n <= 2 ^ 53 ->
  to_integer sn (toValue refl (GInt k n)) = Ok n.
Proof. exact to_integer_exact. Qed.
Print Assumptions C15_tointeger_exact.

Theorem C15_tointeger_int32 : forall sn refl n, in_range KInt32 n ->
  to_integer sn (toValue refl (GInt KInt32 n)) = Ok n.
Proof. exact to_integer_int32. Qed.
Print Assumptions C15_tointeger_int32.

(* from 2^63 up every uint/uint64 reads as MaxInt64: the saturated value the int64 API requires *)
Theorem C15_tointeger_saturates : forall sn refl k n, k = KUint \/ k = KUint64 ->
  in_range k n -> 2 ^ 63 <= n ->
  to_integer sn (toValue refl (GInt k n)) = Ok max64 /\ spec_to_integer sn (GInt k n) = max64.
Proof. exact to_integer_saturates. Qed.
Print Assumptions C15_tointeger_saturates.

(* ToFloat is the counterpart Number for every scalar *)
Theorem C15_tofloat_counterpart : forall sn g,
  to_float sn (toValue false g) = Ok (spec_to_float sn g) /\
  (wf g -> to_float sn (toValue true g) = Ok (spec_to_float sn g)).
Proof. intros sn g. split; [exact (to_float_agrees sn g) | exact (to_float_agrees_refl sn g)]. Qed.
Print Assumptions C15_tofloat_counterpart.

(* ToInteger of every float (float32 included, on either branch), bool and nil is that of the counterpart *)
Theorem C15_tointeger_nonint : forall sn refl g, (forall k n, g <> GInt k n) ->
  to_integer sn (toValue refl g) = Ok (spec_to_integer sn g).
Proof. exact to_integer_nonint. Qed.
Print Assumptions C15_tointeger_nonint.

Theorem C15_toboolean_agrees : forall refl g, wf g ->
  to_boolean (toValue refl g) = spec_to_boolean g.
Proof. exact to_boolean_agrees. Qed.
Print Assumptions C15_toboolean_agrees.

(* MarshalJSON is JSON.stringify of the counterpart for every scalar, NaN and the infinities included *)
Theorem C15_marshaljson_counterpart : forall fs js g,
  marshal_json fs js (toValue false g) = spec_marshal_json fs js g.
Proof. exact marshal_json_agrees. Qed.
Print Assumptions C15_marshaljson_counterpart.

(* IsUndefined/IsNull/IsBoolean/IsNumber/IsString agree with typeof of the counterpart *)
Theorem C15_predicates_agree : forall refl g,
  let v := toValue refl g in
  typeof v = spec_typeof g /\
  is_undefined v = (spec_typeof g =? 0) /\
  is_null v = false /\
  is_boolean v = (spec_typeof g =? 2) /\
  is_number v = (spec_typeof g =? 3) /\
  is_string v = (spec_typeof g =? 4).
Proof. exact predicates_agree. Qed.
Print Assumptions C15_predicates_agree.

(* ---------- Export of script data ---------- *)
(* the typed-slice rule, as implemented by the loop of Value.export: the result is []T for a concrete
   T exactly when the array is not empty, T is not the nil type, and EVERY element exports to T *)
Theorem C15_export_typed_slice_rule : forall l T, T <> TIface ->
  (finish l = Ok (XSlice T l) <-> l <> [] /\ T <> TNil /\ Forall (fun y => type_of y = T) l).
Proof. exact finish_typed_iff. Qed.
Print Assumptions C15_export_typed_slice_rule.

(* Export of an array always returns (reflect's Set into the typed slice cannot fail) and returns what
   the rule prescribes: []T iff non-empty and all elements of one type T, else []interface{} *)
Theorem C15_export_follows_rule : forall l, finish l = Ok (finish_spec l).
Proof. exact finish_total. Qed.
Print Assumptions C15_export_follows_rule.

(* Export never panics, whatever the script data, to any depth *)
Theorem C15_export_total : forall v, exists r, export_m v = Ok r.
Proof. exact export_total. Qed.
Print Assumptions C15_export_total.

(* Export of JSON-like data is structurally equal to the data, to any depth *)
Theorem C15_export_jsonlike : forall v, jsonlike v = true ->
  exists r, export_m v = Ok r /\ proj_gv r = proj_jv v.
Proof. exact export_jsonlike_total. Qed.
Print Assumptions C15_export_jsonlike.

(* Export returns on every object graph a script can build, cycles included: a reference back to an object
   the export is inside of becomes nil, and the recursion depth is bounded by the number of objects *)
Theorem C15_export_graph_total : forall (h : heap) v, exists t, gexport (S (length h)) [] h v = Some t.
Proof. exact gexport_total. Qed.
Print Assumptions C15_export_graph_total.

(* ---------- bindings: a read sees the last write, whatever came before ---------- *)
Theorem C15_read_after_write : forall st s v v' n g,
  hrun st [HSet s v n g; HGet s v' n] = [cv_of g].
Proof. exact read_after_write. Qed.
Print Assumptions C15_read_after_write.

Theorem C15_write_frames : forall st s n s' n' v v' g, (s, n) <> (s', n') ->
  hrun st [HSet s' v n' g; HGet s v' n] = hrun st [HGet s v' n].
Proof. exact write_frames. Qed.
Print Assumptions C15_write_frames.

Theorem C15_delete_then_read : forall st s v n, hrun st [HDel s n; HGet s v n] = [CVUndef].
Proof. exact delete_then_read. Qed.
Print Assumptions C15_delete_then_read.

(* ---------- otto's deviations, refuted with witnesses ---------- *)
(* uint64 goes through float64(): 2^53+1 comes back as 2^53 *)
Theorem C15_uint64_tointeger_refuted : exists n, in_range KUint64 n /\ n < 2 ^ 63 /\
  to_integer (fun _ => 0) (toValue false (GInt KUint64 n)) <> Ok n.
Proof.
  exists (2 ^ 53 + 1). split; [|split].
  - vm_compute. split; discriminate.
  - vm_compute. reflexivity.
  - vm_compute. discriminate.
Qed.
Print Assumptions C15_uint64_tointeger_refuted.

(* by design of the int64 API: beyond 2^63 the answer is MaxInt64 *)
Theorem C15_uint64_tointeger_saturates : exists n, in_range KUint64 n /\
  to_integer (fun _ => 0) (toValue false (GInt KUint64 n)) = Ok max64 /\
  spec_to_integer (fun _ => 0) (GInt KUint64 n) = max64.
Proof.
  exists (2 ^ 63 + 5). split; [|split].
  - vm_compute. split; discriminate.
  - vm_compute. reflexivity.
  - vm_compute. reflexivity.
Qed.
Print Assumptions C15_uint64_tointeger_saturates.

(* scripts see the exact digits of a wide integer, not the text of the Number it is *)
Theorem C15_wide_int_text_refuted : exists n, in_range KInt64 n /\
  to_string (fun _ => []) (toValue false (GInt KInt64 n)) <> decimal (round_to_double n).
Proof.
  exists (2 ^ 53 + 1). split.
  - vm_compute. split; discriminate.
  - vm_compute. discriminate.
Qed.
Print Assumptions C15_wide_int_text_refuted.

(* [1,,2]: the hole is dropped *)
Theorem C15_export_holes_refuted : exists v, export_m v <> Ok (export_s v).
Proof. exists (JArr [Some (JNumI KInt64 1); None; Some (JNumI KInt64 2)]). vm_compute. discriminate. Qed.
Print Assumptions C15_export_holes_refuted.

(* regression witnesses of repaired defects: [[[1]],[[1.5]]] exports as []interface{} of two typed slices;
   a float32 payload converts; NaN marshals as null *)
Example C15_export_nested_regression :
  export_m (JArr [Some (JArr [Some (JArr [Some (JNumI KInt64 1)])]);
                  Some (JArr [Some (JArr [Some (JNumF 0x3FF8000000000000)])])]) =
  Ok (XSlice TIface [XSlice (TSlice (TInt KInt64)) [XSlice (TInt KInt64) [XInt KInt64 1]];
                     XSlice (TSlice TF64) [XSlice TF64 [XF64 0x3FF8000000000000]]]).
Proof. vm_compute. reflexivity. Qed.
Example C15_float32_regression :
  to_float (fun _ => 0) (toValue true (GF32 0x3F000000)) = Ok 0x3FE0000000000000 /\
  to_boolean (toValue true (GF32 nan32_bits)) = false /\
  marshal_json (fun _ => []) (fun s => s) (toValue false (GF64 nan_bits)) = Some str_null.
Proof. vm_compute. repeat split; reflexivity. Qed.

Example C15_export_cyclic_regression :
  gexport 2 [] cyclic_heap (HRef 0) = Some (GNode [([97], GBack)]).
Proof. exact export_cyclic_example. Qed.
Example C15_export_shared_met :
  gexport 3 [] [[([108], HRef 1%nat); ([114], HRef 1%nat)]; [([48], HNum 1)]] (HRef 0) =
  Some (GNode [([108], GNode [([48], GLeaf 1)]); ([114], GNode [([48], GLeaf 1)])]).
Proof. exact export_shared_example. Qed.
Example C15_export_acyclic_met :
  gexport 3 [] [[([97], HRef 1%nat); ([99], HNum 2)]; [([98], HNum 1)]] (HRef 0) =
  Some (GNode [([97], GNode [([98], GLeaf 1)]); ([99], GLeaf 2)]).
Proof. exact export_acyclic_example. Qed.

(* non-vacuity *)
Example C15_typed_rule_met :
  finish [XInt KInt64 1; XInt KInt64 2] = Ok (XSlice (TInt KInt64) [XInt KInt64 1; XInt KInt64 2]) /\
  finish [XInt KInt64 1; XF64 0] = Ok (XSlice TIface [XInt KInt64 1; XF64 0]).
Proof. split; vm_compute; reflexivity. Qed.
Example C15_jsonlike_met :
  let v := JObj [([97], JArr [Some (JNumI KInt64 1); Some (JStr [120])])] in
  jsonlike v = true /\ exists r, export_m v = Ok r.
Proof. split; [vm_compute; reflexivity | eexists; vm_compute; reflexivity]. Qed.
Example C15_wf_met : wf (GInt KUint8 200) /\ export (toValue true (GInt KUint8 200)) = GInt KUint8 200.
Proof. vm_compute. split; [split; discriminate | reflexivity]. Qed.
Example C15_tointeger_hyp_met : in_range KUint64 (2 ^ 53) /\ Z.abs (2 ^ 53) <= 2 ^ 53 /\
  to_integer (fun _ => 0) (toValue false (GInt KUint64 (2 ^ 53))) = Ok (2 ^ 53).
Proof.
  split; [|split].
  - vm_compute. split; discriminate.
  - vm_compute. discriminate.
  - vm_compute. reflexivity.
Qed.
