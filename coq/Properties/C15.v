(* C15 — values survive the Go -> JavaScript -> Go round trip.
   Only statements here; proofs are in C15/Proofs*.v.  Model = otto's bridge
   (toValue, export, float64(), number(), bool(), string(), MarshalJSON, the
   array typing of Export) as transcribed in C15/Model*.v; Spec = the required
   round trip.  The correspondence run ties both to the interpreter built from
   /repo on generated Go values of every kind and width. *)
From Coq Require Import ZArith List Bool.
From Otto Require Import Common.Double C15.Model C15.Spec C15.Proofs C15.ModelExport C15.ProofsExport C15.Corr C15.ProofsCorr.
Import ListNotations.
Open Scope Z_scope.

(* Export (toValue g) = g for every scalar of every kind and width, on the
   type-switch branch and on the reflect branch (named types, pointers) *)
Theorem C15_scalar_roundtrip : forall refl g, wf g ->
  canon (export (toValue refl g)) = canon g /\
  ((forall b, g <> GF32 b) -> export (toValue refl g) = g).
Proof. intros refl g H. split; [exact (scalar_roundtrip refl g H) | exact (scalar_roundtrip_exact refl g H)]. Qed.
Print Assumptions C15_scalar_roundtrip.

(* Go's T(int64) conversion in the reflect branch is the identity on the type and never leaves it *)
Theorem C15_reflect_conversion : forall k n,
  in_range k (wrap k n) /\ (in_range k n -> wrap k n = n).
Proof. intros k n. split; [exact (wrap_in_range k n) | exact (wrap_id k n)]. Qed.
Print Assumptions C15_reflect_conversion.

(* ToInteger gives the integer back: always for the seven kinds read directly,
   up to 2^53 in magnitude for int32/uint/uint64 *)
Theorem C15_tointeger_exact : forall sn refl k n, in_range k n ->
  number_direct k = true \/ Z.abs n <= 2 ^ 53 ->
  to_integer sn (toValue refl (GInt k n)) = Ok n.
Proof. exact to_integer_exact. Qed.
Print Assumptions C15_tointeger_exact.

Theorem C15_tointeger_int32 : forall sn refl n, in_range KInt32 n ->
  to_integer sn (toValue refl (GInt KInt32 n)) = Ok n.
Proof. exact to_integer_int32. Qed.
Print Assumptions C15_tointeger_int32.

(* from 2^63 up every uint/uint64 reads as MaxInt64: the saturated value the int64 API requires *)
Theorem C15_tointeger_saturates : forall sn refl k n, k = KUint \/ k = KUint64 ->
  in_range k n -> 2 ^ 63 <= n ->
  to_integer sn (toValue refl (GInt k n)) = Ok max64 /\ spec_to_integer sn (GInt k n) = max64.
Proof. exact to_integer_saturates. Qed.
Print Assumptions C15_tointeger_saturates.

(* ToFloat is the counterpart Number for every scalar *)
Theorem C15_tofloat_counterpart : forall sn g,
  to_float sn (toValue false g) = Ok (spec_to_float sn g) /\
  (wf g -> (forall b, g <> GF32 b) -> to_float sn (toValue true g) = Ok (spec_to_float sn g)).
Proof. intros sn g. split; [exact (to_float_agrees sn g) | exact (to_float_agrees_refl sn g)]. Qed.
Print Assumptions C15_tofloat_counterpart.

Theorem C15_toboolean_agrees : forall g,
  to_boolean (toValue false g) = spec_to_boolean g /\
  ((forall b, g <> GF32 b) -> wf g -> to_boolean (toValue true g) = spec_to_boolean g).
Proof. exact to_boolean_agrees. Qed.
Print Assumptions C15_toboolean_agrees.

(* IsUndefined/IsNull/IsBoolean/IsNumber/IsString agree with typeof of the counterpart *)
Theorem C15_predicates_agree : forall refl g,
  let v := toValue refl g in
  typeof v = spec_typeof g /\
  is_undefined v = (spec_typeof g =? 0) /\
  is_null v = false /\
  is_boolean v = (spec_typeof g =? 2) /\
  is_number v = (spec_typeof g =? 3) /\
  is_string v = (spec_typeof g =? 4).
Proof. exact predicates_agree. Qed.
Print Assumptions C15_predicates_agree.

(* ---------- Export of script data ---------- *)
(* the typed-slice rule, as implemented by the loop of Value.export: the result is []T for a concrete
   T exactly when the array is not empty, T is not the nil type, and EVERY element exports to T *)
Theorem C15_export_typed_slice_rule : forall l T, T <> TIface ->
  (finish l = Ok (XSlice T l) <-> l <> [] /\ T <> TNil /\ Forall (fun y => type_of y = T) l).
Proof. exact finish_typed_iff. Qed.
Print Assumptions C15_export_typed_slice_rule.

(* whenever Export returns, it returns what the rule prescribes ([]T iff all same type, else []interface{}) *)
Theorem C15_export_follows_rule : forall l r, finish l = Ok r -> r = finish_spec l.
Proof. exact finish_agrees_spec. Qed.
Print Assumptions C15_export_follows_rule.

(* it fails to return only on two elements with equal kind triples and different types ... *)
Theorem C15_export_panic_only : forall l, finish l = Panic ->
  exists a b, In a l /\ In b l /\ triple_of (type_of a) = triple_of (type_of b) /\ type_of a <> type_of b.
Proof. exact finish_panic_only. Qed.
Print Assumptions C15_export_panic_only.

(* ... which cannot happen when the elements are scalars, objects or arrays of scalars/objects *)
Theorem C15_export_shallow_total : forall l,
  Forall (fun y => shallow (type_of y) = true) l -> finish l = Ok (finish_spec l).
Proof. exact finish_shallow_total. Qed.
Print Assumptions C15_export_shallow_total.

(* Export of JSON-like data is structurally equal to the data, to any depth *)
Theorem C15_export_jsonlike : forall v r,
  jsonlike v = true -> export_m v = Ok r -> proj_gv r = proj_jv v.
Proof. exact export_jsonlike. Qed.
Print Assumptions C15_export_jsonlike.

(* ---------- bindings: a read sees the last write, whatever came before ---------- *)
Theorem C15_read_after_write : forall st s v v' n g,
  hrun st [HSet s v n g; HGet s v' n] = [cv_of g].
Proof. exact read_after_write. Qed.
Print Assumptions C15_read_after_write.

Theorem C15_write_frames : forall st s n s' n' v v' g, (s, n) <> (s', n') ->
  hrun st [HSet s' v n' g; HGet s v' n] = hrun st [HGet s v' n].
Proof. exact write_frames. Qed.
Print Assumptions C15_write_frames.

Theorem C15_delete_then_read : forall st s v n, hrun st [HDel s n; HGet s v n] = [CVUndef].
Proof. exact delete_then_read. Qed.
Print Assumptions C15_delete_then_read.

(* ---------- otto's deviations, refuted with witnesses ---------- *)
(* uint64 goes through float64(): 2^53+1 comes back as 2^53 *)
Theorem C15_uint64_tointeger_refuted : exists n, in_range KUint64 n /\ n < 2 ^ 63 /\
  to_integer (fun _ => 0) (toValue false (GInt KUint64 n)) <> Ok n.
Proof.
  exists (2 ^ 53 + 1). split; [|split].
  - vm_compute. split; discriminate.
  - vm_compute. reflexivity.
  - vm_compute. discriminate.
Qed.
Print Assumptions C15_uint64_tointeger_refuted.

(* by design of the int64 API: beyond 2^63 the answer is MaxInt64 *)
Theorem C15_uint64_tointeger_saturates : exists n, in_range KUint64 n /\
  to_integer (fun _ => 0) (toValue false (GInt KUint64 n)) = Ok max64 /\
  spec_to_integer (fun _ => 0) (GInt KUint64 n) = max64.
Proof.
  exists (2 ^ 63 + 5). split; [|split].
  - vm_compute. split; discriminate.
  - vm_compute. reflexivity.
  - vm_compute. reflexivity.
Qed.
Print Assumptions C15_uint64_tointeger_saturates.

(* a float32 payload (named float32 type, *float32) makes ToFloat panic *)
Theorem C15_float32_reflect_refuted : exists b,
  to_float (fun _ => 0) (toValue true (GF32 b)) <> Ok (spec_to_float (fun _ => 0) (GF32 b)).
Proof. exists 0x3F000000. vm_compute. discriminate. Qed.
Print Assumptions C15_float32_reflect_refuted.

(* a float32 NaN payload is truthy *)
Theorem C15_float32_nan_truthy_refuted : exists b,
  to_boolean (toValue true (GF32 b)) <> spec_to_boolean (GF32 b).
Proof. exists nan32_bits. vm_compute. discriminate. Qed.
Print Assumptions C15_float32_nan_truthy_refuted.

(* MarshalJSON of NaN is an error, JSON.stringify gives null *)
Theorem C15_marshal_nan_refuted : exists b fs js,
  marshal_json fs js (toValue false (GF64 b)) <> spec_marshal_json fs js (GF64 b).
Proof. exists nan_bits, (fun _ => []), (fun s => s). vm_compute. discriminate. Qed.
Print Assumptions C15_marshal_nan_refuted.

(* scripts see the exact digits of a wide integer, not the text of the Number it is *)
Theorem C15_wide_int_text_refuted : exists n, in_range KInt64 n /\
  to_string (fun _ => []) (toValue false (GInt KInt64 n)) <> decimal (round_to_double n).
Proof.
  exists (2 ^ 53 + 1). split.
  - vm_compute. split; discriminate.
  - vm_compute. discriminate.
Qed.
Print Assumptions C15_wide_int_text_refuted.

(* [[[1]],[[1.5]]]: Export panics *)
Theorem C15_export_nested_panic_refuted : exists v, export_m v = Panic /\ jsonlike v = true.
Proof.
  exists (JArr [Some (JArr [Some (JArr [Some (JNumI KInt64 1)])]);
                Some (JArr [Some (JArr [Some (JNumF 0x3FF8000000000000)])])]).
  split; vm_compute; reflexivity.
Qed.
Print Assumptions C15_export_nested_panic_refuted.

(* [1,,2]: the hole is dropped *)
Theorem C15_export_holes_refuted : exists v, export_m v <> Ok (export_s v).
Proof. exists (JArr [Some (JNumI KInt64 1); None; Some (JNumI KInt64 2)]). vm_compute. discriminate. Qed.
Print Assumptions C15_export_holes_refuted.

(* non-vacuity *)
Example C15_typed_rule_met :
  finish [XInt KInt64 1; XInt KInt64 2] = Ok (XSlice (TInt KInt64) [XInt KInt64 1; XInt KInt64 2]) /\
  finish [XInt KInt64 1; XF64 0] = Ok (XSlice TIface [XInt KInt64 1; XF64 0]).
Proof. split; vm_compute; reflexivity. Qed.
Example C15_jsonlike_met :
  let v := JObj [([97], JArr [Some (JNumI KInt64 1); Some (JStr [120])])] in
  jsonlike v = true /\ exists r, export_m v = Ok r.
Proof. split; [vm_compute; reflexivity | eexists; vm_compute; reflexivity]. Qed.
Example C15_wf_met : wf (GInt KUint8 200) /\ export (toValue true (GInt KUint8 200)) = GInt KUint8 200.
Proof. vm_compute. split; [split; discriminate | reflexivity]. Qed.
Example C15_tointeger_hyp_met : in_range KUint64 (2 ^ 53) /\ Z.abs (2 ^ 53) <= 2 ^ 53 /\
  to_integer (fun _ => 0) (toValue false (GInt KUint64 (2 ^ 53))) = Ok (2 ^ 53).
Proof.
  split; [|split].
  - vm_compute. split; discriminate.
  - vm_compute. discriminate.
  - vm_compute. reflexivity.
Qed.
