(* C06: otto's own code around Go's strconv.
   value_string.go (floatToString, numberToStringRadix), builtin_number.go
   (toString/toFixed/toExponential/toPrecision), value_number.go (parseNumber),
   builtin.go (parseInt, parseFloat), parser/lexer.go (scanNumericLiteral,
   parseNumberLiteral), transcribed with their deviations from ES5.

   Go's strconv is not axiomatised: FormatFloat's digit generation is taken to
   be "shortest digits that round back, closest to the value" (= Spec.shortest)
   resp. "exact decimal expansion rounded half-to-even", ParseFloat/ParseInt
   are taken to be correctly rounded on the grammar transcribed below from
   strconv/atof.go, atoi.go; the correspondence run compares what otto really
   returned with these functions on every sampled input. *)
From Coq Require Import ZArith List Bool.
From Otto Require Import Common.Double C06.Spec C06.SpecText.
Import ListNotations.
Open Scope Z_scope.

(* ================= Go strconv.FormatFloat ================= *)

(* m*2^e*10^f rounded to an integer, ties to even (decimal.Round / ryu) *)
Definition round_half_even (m e f : Z) : Z :=
  let num := m * p2 (Z.max e 0) * p10 (Z.max f 0) in
  let den := p2 (Z.max (- e) 0) * p10 (Z.max (- f) 0) in
  let '(q, qd) := fast_divmul num den in
  let r := num - qd in
  if (den <? 2 * r) || ((2 * r =? den) && Z.odd q) then q + 1 else q.

Fixpoint strip_trailing_zeros_rev (l : list Z) : list Z :=
  match l with 48 :: l' => strip_trailing_zeros_rev l' | _ => l end.
Definition trim_zeros (ds : list Z) : list Z := rev (strip_trailing_zeros_rev (rev ds)).

(* a decimalSlice: digit characters (no trailing zeros) and the position dp of the decimal point *)
Definition go_digits_shortest (m e : Z) : option (list Z * Z) :=
  match shortest_fast m e with
  | Some (s, p) => let ds := dec_digits s in Some (ds, p + lenZ ds)
  | None => None
  end.
(* nsig >= 1 significant digits *)
Definition go_digits_sig (m e nsig : Z) : list Z * Z :=
  let e10 := floor_log10 m e in
  let n := round_half_even m e (nsig - 1 - e10) in
  if p10 nsig <=? n then ([49], e10 + 2) else (trim_zeros (dec_digits n), e10 + 1).

Definition nthZ (ds : list Z) (i : Z) : Z := if i <? 0 then 48 else nth (Z.to_nat i) ds 48.
Fixpoint seqZ (start : Z) (n : nat) : list Z := match n with O => [] | S k => start :: seqZ (start + 1) k end.

(* fmtE: d.ddde+XX, prec digits after the point.  [strip] = otto's
   matchLeading0Exponent rewrite applied afterwards: e+0N -> e+N for N in 1..9
   (e+00 stays, the pattern wants a non-zero digit) *)
Definition go_exp2 (strip : bool) (ex : Z) : list Z :=
  (if ex <? 0 then ch_minus else ch_plus) ::
  (if strip && negb (ex =? 0) then dec_digits (Z.abs ex) else pad_left 2 (dec_digits (Z.abs ex))).
Definition go_fmtE_gen (strip neg : bool) (ds : list Z) (dp prec : Z) : list Z :=
  let first := match ds with [] => 48 | d :: _ => d end in
  let frac := if 0 <? prec then ch_dot :: map (nthZ ds) (seqZ 1 (Z.to_nat prec)) else [] in
  let ex := match ds with [] => 0 | _ => dp - 1 end in
  with_sign neg (first :: frac ++ ch_e :: go_exp2 strip ex).
Definition go_fmtE := go_fmtE_gen false.
(* fmtF *)
Definition go_fmtF (neg : bool) (ds : list Z) (dp prec : Z) : list Z :=
  let ip := if 0 <? dp then map (nthZ ds) (seqZ 0 (Z.to_nat dp)) else [48] in
  let frac := if 0 <? prec then ch_dot :: map (fun i => nthZ ds (dp + i)) (seqZ 0 (Z.to_nat prec)) else [] in
  with_sign neg (ip ++ frac).

(* FormatFloat(x, 'f', prec >= 0, 64) for finite x = (-1)^neg m 2^e: the exact
   value rounded half-even at 10^-prec *)
Definition go_format_f (neg : bool) (m e prec : Z) : list Z :=
  with_sign neg (fixed_digits (if m =? 0 then 0 else round_half_even m e prec) prec).

(* FormatFloat(x, 'e', prec, 64); prec < 0 = shortest *)
Definition go_format_e (neg : bool) (m e prec : Z) : option (list Z) :=
  if m =? 0 then Some (go_fmtE neg [] 0 (Z.max prec 0))
  else if prec <? 0 then
    match go_digits_shortest m e with
    | Some (ds, dp) => Some (go_fmtE neg ds dp (lenZ ds - 1))
    | None => None
    end
  else let '(ds, dp) := go_digits_sig m e (prec + 1) in Some (go_fmtE neg ds dp prec).

(* FormatFloat(x, 'g', prec, 64); prec < 0 = shortest *)
Definition go_format_g (neg : bool) (m e prec : Z) : option (list Z) :=
  if prec <? 0 then
    if m =? 0 then Some (go_fmtF neg [] 0 0) else
    match go_digits_shortest m e with
    | Some (ds, dp) =>
        let ex := dp - 1 in
        if (ex <? -4) || (6 <=? ex) then Some (go_fmtE neg ds dp (lenZ ds - 1))
        else Some (go_fmtF neg ds dp (Z.max (lenZ ds - dp) 0))
    | None => None
    end
  else
    let prec1 := if prec =? 0 then 1 else prec in
    let '(ds, dp) := if m =? 0 then ([], 0) else go_digits_sig m e prec1 in
    let nd := lenZ ds in
    let eprec := if (nd <? prec1) && (dp <=? nd) then nd else prec1 in
    let ex := dp - 1 in
    if (ex <? -4) || (eprec <=? ex) then Some (go_fmtE neg ds dp (Z.min prec1 nd - 1))
    else Some (go_fmtF neg ds dp (Z.max (nd - dp) 0)).


(* ================= value_string.go ================= *)

(* |x| < 1e-6 where 1e-6 is the double 0x3EB0C6F7A0B5ED8D = 0x10C6F7A0B5ED8D * 2^-72 *)
Definition lt_bin (m e m' e' : Z) : bool :=
  m * p2 (Z.max (e - e') 0) <? m' * p2 (Z.max (e' - e) 0).
Definition below_1em6 (m e : Z) : bool := lt_bin m e 0x10C6F7A0B5ED8D (-72).
(* floatToString's test  abs >= 1e21 || abs < 1e-6  on the value itself (1e21 is a double) *)
Definition exp_form (m e : Z) : bool := le_pow10 21 m e || below_1em6 m e.

(* floatToString for a finite non-zero value *)
Definition float_to_string (neg : bool) (m e : Z) : option (list Z) :=
  match go_digits_shortest m e with
  | None => None
  | Some (ds, dp) =>
      if exp_form m e then
        let ex := dp - 1 in
        (* FormatFloat(v,'g',-1): %e iff ex < -4 || ex >= 6, then the exponent rewrite *)
        if (ex <? -4) || (6 <=? ex) then Some (go_fmtE_gen true neg ds dp (lenZ ds - 1))
        else Some (go_fmtF neg ds dp (Z.max (lenZ ds - dp) 0))
      else Some (go_fmtF neg ds dp (Z.max (lenZ ds - dp) 0))
  end.

(* Value.string() of a float64 *)
Definition value_string (bits : Z) : option (list Z) :=
  match decode bits with
  | DNaN => Some str_NaN
  | DInf neg => Some (with_sign neg str_Infinity)
  | DFin neg m e => if m =? 0 then Some [ch_0] else float_to_string neg m e
  end.

(* Value.string() of an int64 payload: strconv.FormatInt prints every digit.  An
   integer literal that fits int64 (parseNumberLiteral's ParseInt succeeds) is
   kept as int64, so String(89634963422590256) prints all 17 digits although the
   value is a double whose 9.8.1 text is shorter.  [intlit] = the harness bound x
   through such a literal (positive, digits only). *)
Definition value_string_k (intlit : bool) (bits : Z) : option (list Z) :=
  if intlit then
    match int_of_bits bits with
    | Some n => if (0 <=? n) && (n <? 2 ^ 63) then Some (dec_digits n) else value_string bits
    | None => value_string bits
    end
  else value_string bits.

(* int64(float64) on amd64 (CVTTSD2SI): truncation, 0x8000000000000000 when out of range *)
Definition go_int64 (neg : bool) (m e : Z) : Z :=
  let t := trunc_mag m e in
  let v := if neg then - t else t in
  if (v <? - 2 ^ 63) || (2 ^ 63 <=? v) then - 2 ^ 63 else v.

(* numberToStringRadix *)
Definition number_to_string_radix (bits r : Z) : list Z :=
  match decode bits with
  | DNaN => str_NaN
  | DInf neg => with_sign neg str_Infinity
  | DFin neg m e =>
      if m =? 0 then [ch_0] else
      let v := go_int64 neg m e in
      if v =? 0 then [ch_0] else with_sign (v <? 0) (radix_digits r (Z.abs v))
  end.

(* ================= builtin_number.go ================= *)

(* Number.prototype.toString(radix); r = None for undefined, else ToInteger(radix) *)
Definition m_to_string_k (intlit : bool) (bits : Z) (r : option Z) : res :=
  match r with
  | None => opt_res (value_string_k intlit bits)
  | Some r => if (r <? 2) || (36 <? r) then RErr 3
              else if r =? 10 then opt_res (value_string_k intlit bits)
              else RStr (number_to_string_radix bits r)
  end.
Definition m_to_string := m_to_string_k false.

(* toFixed: RangeError test, NaN, ToString from 1e21 up, -0 turned into +0, then Go's 'f' format *)
Definition m_to_fixed (bits f : Z) : res :=
  if (20 <? f) || (f <? 0) then RErr 3 else
  match decode bits with
  | DNaN => RStr str_NaN
  | DInf neg => RStr (with_sign neg str_Infinity)
  | DFin neg m e =>
      if le_pow10 21 m e then opt_res (float_to_string neg m e)
      else RStr (go_format_f (neg && negb (m =? 0)) m e f)
  end.

(* toExponential; f = None for undefined.  NaN and +-Infinity are answered (through
   floatToString) before the digit count is looked at *)
Definition m_to_exponential (bits : Z) (f : option Z) : res :=
  match decode bits with
  | DNaN => RStr str_NaN
  | DInf neg => RStr (with_sign neg str_Infinity)
  | DFin neg m e =>
      let prec := match f with Some f => f | None => -1 end in
      if match f with Some f => (f <? 0) || (20 <? f) | None => false end then RErr 3
      else opt_res (go_format_e neg m e prec)
  end.

(* toPrecision with a defined argument *)
Definition m_to_precision (bits p : Z) : res :=
  match decode bits with
  | DNaN => RStr str_NaN
  | DInf neg => RStr (with_sign neg str_Infinity)
  | DFin neg m e =>
      if (p <? 1) || (21 <? p) then RErr 3 else opt_res (go_format_g neg m e p)
  end.

(* ================= Go strconv.ParseFloat / ParseInt acceptance ================= *)

Definition lower (c : Z) : Z := if (65 <=? c) && (c <=? 90) then c + 32 else c.
Fixpoint eq_fold (pat l : list Z) : bool :=   (* l equals pat ignoring ASCII case; pat is lower case *)
  match pat, l with
  | [], [] => true
  | a :: pat', b :: l' => (a =? lower b) && eq_fold pat' l'
  | _, _ => false
  end.
Definition str_inf : list Z := [105; 110; 102].
Definition str_infinity : list Z := [105; 110; 102; 105; 110; 105; 116; 121].
Definition str_nan : list Z := [110; 97; 110].

(* underscoreOK of strconv/atoi.go; saw: 0 = '^', 1 = digit, 2 = '_', 3 = other *)
Fixpoint underscore_loop (hex : bool) (saw : Z) (l : list Z) : bool :=
  match l with
  | [] => negb (saw =? 2)
  | c :: l' =>
      if is_digit c || (hex && (97 <=? lower c) && (lower c <=? 102)) then underscore_loop hex 1 l'
      else if c =? 95 then (if saw =? 1 then underscore_loop hex 2 l' else false)
      else if saw =? 2 then false
      else underscore_loop hex 3 l'
  end.
Definition underscore_ok (l : list Z) : bool :=
  let l1 := match l with c :: r => if (c =? 43) || (c =? 45) then r else l | [] => l end in
  match l1 with
  | 48 :: x :: r =>
      let lx := lower x in
      if (lx =? 98) || (lx =? 111) || (lx =? 120) then underscore_loop (lx =? 120) 1 r
      else underscore_loop false 0 l1
  | _ => underscore_loop false 0 l1
  end.

(* the mantissa loop of readFloat: value of the digits seen, number of digits
   after the point, whether a digit was seen, the rest *)
Fixpoint read_mant (hex : bool) (l : list Z) (acc nfrac : Z) (sawdot sawdig : bool) : Z * Z * bool * list Z :=
  match l with
  | [] => (acc, nfrac, sawdig, [])
  | c :: l' =>
      if c =? 95 then read_mant hex l' acc nfrac sawdot sawdig
      else if c =? 46 then (if sawdot then (acc, nfrac, sawdig, l) else read_mant hex l' acc nfrac true sawdig)
      else if is_digit c then
        read_mant hex l' (acc * (if hex then 16 else 10) + (c - 48)) (if sawdot then nfrac + 1 else nfrac) sawdot true
      else if hex && (97 <=? lower c) && (lower c <=? 102) then
        read_mant hex l' (acc * 16 + (lower c - 87)) (if sawdot then nfrac + 1 else nfrac) sawdot true
      else (acc, nfrac, sawdig, l)
  end.
Fixpoint read_exp_digits (l : list Z) (acc : Z) : Z * list Z :=
  match l with
  | c :: l' => if is_digit c then read_exp_digits l' (acc * 10 + (c - 48))
               else if c =? 95 then read_exp_digits l' acc
               else (acc, l)
  | [] => (acc, [])
  end.

Definition go_float_value (hex : bool) (mant nfrac ex : Z) : Z :=
  if mant =? 0 then 0
  else if hex then
    let e2 := ex - 4 * nfrac in
    if 2000 <? e2 then pinf_bits else if e2 <? -2000 - 4 * ndigits mant then 0
    else round_pos (mant * p2 (Z.max e2 0)) (p2 (Z.max (- e2) 0))
  else round_dec mant (ex - nfrac).

(* ParseFloat(s, 64) on the whole string: None = syntax error; Some (bits, range error) *)
Definition go_parse_float (l : list Z) : option (Z * bool) :=
  let '(neg, signed, r) := match l with
                           | 43 :: r => (false, true, r)
                           | 45 :: r => (true, true, r)
                           | _ => (false, false, l)
                           end in
  if eq_fold str_inf r || eq_fold str_infinity r then Some (signed_bits neg pinf_bits, false)
  else if negb signed && eq_fold str_nan r then Some (nan_bits, false)
  else
    let '(hex, r1) := match r with
                      | 48 :: x :: y :: t => if lower x =? 120 then (true, y :: t) else (false, r)
                      | _ => (false, r)
                      end in
    let '(mant, nfrac, sawdig, r2) := read_mant hex r1 0 0 false false in
    if negb sawdig then None else
    let finish (ex : Z) (rest : list Z) : option (Z * bool) :=
      match rest with
      | _ :: _ => None
      | [] =>
          if existsb (Z.eqb 95) l && negb (underscore_ok l) then None else
          let b := go_float_value hex mant nfrac ex in
          Some (signed_bits neg b, b =? pinf_bits)
      end in
    match r2 with
    | c :: r3 =>
        if lower c =? (if hex then 112 else 101) then
          let '(esign, r4) := match r3 with
                              | 43 :: t => (1, t)
                              | 45 :: t => (-1, t)
                              | _ => (1, r3)
                              end in
          match r4 with
          | d :: _ => if is_digit d then let '(ev, r5) := read_exp_digits r4 0 in finish (esign * ev) r5
                      else None
          | [] => None
          end
        else if hex then None else finish 0 r2
    | [] => if hex then None else finish 0 r2
    end.

(* ParseInt(s, 0, 64) for a string that starts with 0x / 0X (the only way
   parseNumber reaches it): Some value below 2^63, None for any error *)
Fixpoint hex_us_value (l : list Z) (acc : Z) : option Z :=
  match l with
  | [] => Some acc
  | c :: l' => if c =? 95 then hex_us_value l' acc
               else if digit_val c <? 16 then hex_us_value l' (acc * 16 + digit_val c)
               else None
  end.
Definition go_parse_int0_hex (l : list Z) : option Z :=
  match l with
  | 48 :: x :: d :: t =>
      match hex_us_value (d :: t) 0 with
      | Some v => if existsb (Z.eqb 95) l && negb (underscore_ok l) then None
                  else if negb (existsb (fun c => digit_val c <? 16) (d :: t)) then None
                  else if v <? 2 ^ 63 then Some v else None
      | None => None
      end
  | _ => None
  end.

(* ================= value_number.go parseNumber ================= *)
Definition m_parse_number (l : list Z) : Z :=
  match trim_ws l with
  | [] => 0
  | t =>
      let hexint := match t with 48 :: x :: _ => is_x x | _ => false end in
      if existsb (Z.eqb 46) t || negb hexint then
        match go_parse_float t with Some (b, _) => b | None => nan_bits end
      else match go_parse_int0_hex t with Some v => round_int v | None => nan_bits end
  end.

(* ================= builtin.go parseInt ================= *)
(* float64 accumulation value = value*base + digit, on integer-valued doubles
   held as Z; None = +Infinity *)
Definition rn (v : Z) : option Z :=
  if 2 ^ 1024 - 2 ^ 970 <=? v then None else Some (round_to_double v).
Definition acc_step (base : Z) (acc : option Z) (d : Z) : option Z :=
  match acc with
  | None => None
  | Some v => match rn (v * base) with None => None | Some w => rn (w + d) end
  end.
Definition float_accumulate (base : Z) (ds : list Z) : option Z := fold_left (acc_step base) ds (Some 0).
Definition acc_bits (neg : bool) (a : option Z) : Z :=
  match a with
  | None => signed_bits neg pinf_bits
  | Some v => signed_bits neg (encode_int_or_nan v)
  end.

(* toInt32 of value_number.go: int32(int64(math.Mod(float, 2^32))): the truncated value
   modulo 2^32 folded into int32, for every finite double; 0 for NaN and infinities *)
Definition m_to_int32 (bits : Z) : Z := to_int32 bits.

(* the digits Z of parseInt turned into the result: strconv.ParseInt below 2^63 (int64, negated,
   -0 made explicitly), the float64 accumulation beyond *)
Definition m_parse_int_value (neg : bool) (base : Z) (ds : list Z) : Z :=
  let v := radix_value base ds in
  if v <? 2 ^ 63 then signed_bits neg (round_int v)
  else acc_bits neg (float_accumulate base ds).

Definition m_parse_int (l : list Z) (rbits : Z) : Z :=
  match trim_ws l with
  | [] => nan_bits
  | input =>
      let radix := m_to_int32 rbits in
      let '(neg, in1) := match input with
                         | 43 :: r => (false, r)
                         | 45 :: r => (true, r)
                         | _ => (false, input)
                         end in
      if negb (radix =? 0) && ((radix <? 2) || (36 <? radix)) then nan_bits else
      let strip := (radix =? 0) || (radix =? 16) in
      let radix1 := if radix =? 0 then 10 else radix in
      let '(base, in2) := match in1 with
                          | 48 :: x :: t => if strip && is_x x then (16, t) else (radix1, in1)
                          | _ => (radix1, in1)
                          end in
      match fst (scan_radix base in2) with
      | [] => nan_bits        (* strconv.ParseInt("") is a syntax error *)
      | ds => m_parse_int_value neg base ds
      end
  end.

(* ================= builtin.go parseFloat ================= *)
Fixpoint contains (pat l : list Z) : bool :=
  match l with
  | [] => match pat with [] => true | _ => false end
  | _ :: l' => match strip_prefix pat l with Some _ => true | None => contains pat l' end
  end.
Definition ends_with (pat l : list Z) : bool :=
  match strip_prefix (rev pat) (rev l) with Some _ => true | None => false end.
(* parseFloatMatchBadSpecial  [\+\-]?(?:[Ii]nf$|infinity)  (unanchored) *)
Definition bad_special (l : list Z) : bool :=
  contains str_infinity l || ends_with str_inf l || ends_with [73; 110; 102] l.
(* parseFloatMatchValid  [0-9eE\+\-\.]|Infinity  (unanchored) *)
Definition match_valid (l : list Z) : bool :=
  existsb (fun c => is_digit c || (c =? 101) || (c =? 69) || (c =? 43) || (c =? 45) || (c =? 46)) l
  || contains str_Infinity l.

(* the suffix-stripping loop: prefixes from the longest down to length 1 *)
Fixpoint prefix_loop (n : nat) (l : list Z) : Z :=
  match n with
  | O => nan_bits
  | S k =>
      let v := firstn n l in
      if negb (match_valid v) then nan_bits
      else match go_parse_float v with
           | Some (b, _) => b        (* err == nil, or ErrRange with +-Inf *)
           | None => prefix_loop k l
           end
  end.
Definition m_parse_float (l : list Z) : Z :=
  let input := trim_ws l in
  if bad_special input then nan_bits else
  match go_parse_float input with
  | Some (b, _) => b
  | None => prefix_loop (length input) input
  end.

(* ================= parser/lexer.go numeric literals ================= *)
Definition is_ident_start (c : Z) : bool :=
  (c =? 36) || (c =? 95) || (c =? 92) || ((97 <=? c) && (c <=? 122)) || ((65 <=? c) && (c <=? 90)) || (128 <=? c).
Definition scan_mant (base : Z) (l : list Z) : list Z := snd (scan_radix base l).
(* the exponent label: Some rest, None = ILLEGAL *)
Definition lex_exponent (l : list Z) : option (list Z) :=
  match l with
  | c :: r =>
      if (c =? 101) || (c =? 69) then
        let r1 := match r with 43 :: t => t | 45 :: t => t | _ => r end in
        match r1 with
        | d :: t => if is_digit d then Some (scan_mant 10 t) else None
        | [] => None
        end
      else Some l
  | [] => Some l
  end.
Definition lex_float (l : list Z) : option (list Z) :=
  lex_exponent (match l with 46 :: r => scan_mant 10 r | _ => l end).
Definition lex_end (o : option (list Z)) : bool :=
  match o with Some [] => true | _ => false end.
(* does scanNumericLiteral turn the whole text into one NUMBER token *)
Definition lex_number (l : list Z) : bool :=
  match l with
  | 46 :: d :: r => if is_digit d then lex_end (lex_exponent (scan_mant 10 (d :: r))) else false
  | 48 :: r =>
      match r with
      | x :: h =>
          if is_x x then
            match h with
            | d :: t => if digit_val d <? 16 then lex_end (Some (scan_mant 16 t)) else false
            | [] => false
            end
          else if x =? 46 then lex_end (lex_float r)
          else if (x =? 101) || (x =? 69) then lex_end (lex_exponent r)
          else lex_end (Some (scan_mant 8 r))
      | [] => true
      end
  | d :: r => if is_digit d then lex_end (lex_float (scan_mant 10 l)) else false
  | [] => false
  end.

(* parseNumberLiteral on a literal the lexer accepted *)
Definition all_digits_below (base : Z) (l : list Z) : bool := forallb (fun c => digit_val c <? base) l.
Definition m_number_literal (l : list Z) : option Z :=
  (* strconv.ParseInt(literal, 0, 64) *)
  let int_reading : option (Z * Z * list Z) :=    (* base, value, digit values *)
    match l with
    | 48 :: x :: h => if is_x x then (if all_digits_below 16 h then Some (16, radix_value 16 (map digit_val h), map digit_val h) else None)
                      else if all_digits_below 8 (x :: h) then Some (8, radix_value 8 (map digit_val (x :: h)), map digit_val (x :: h))
                      else None
    | _ => if all_digits_below 10 l then Some (10, radix_value 10 (map digit_val l), map digit_val l) else None
    end in
  match int_reading with
  | Some (base, v, ds) =>
      if v <? 2 ^ 63 then Some (round_int v)
      else (* ErrRange: ParseFloat reads the text as decimal; a hex literal has no 'p' exponent and
              falls through to the float accumulation *)
        if base =? 16 then Some (acc_bits false (float_accumulate 16 ds))
        else match go_parse_float l with Some (b, _) => Some b | None => None end
  | None => match go_parse_float l with Some (b, _) => Some b | None => None end
  end.
Definition m_literal (l : list Z) : option Z := if lex_number l then m_number_literal l else None.
