(* C06, text -> number.  ES5 8.5 (the Number value for a mathematical value:
   round to nearest, ties to even, 2^1024 and beyond to Infinity), 9.3.1
   (ToNumber applied to String), 15.1.2.2 (parseInt), 15.1.2.3 (parseFloat),
   7.8.3 + B.1.1 (numeric literals), as total executable functions over Z.
   Strings are lists of UTF-16 code units, results are bit patterns. *)
From Coq Require Import ZArith List Bool.
From Otto Require Import Common.Double C06.Spec.
Import ListNotations.
Open Scope Z_scope.

(* ---------- 8.5: the double nearest to N / D  (N > 0, D > 0), as bits ---------- *)
(* N / D / 2^ex as fraction num / den of integers *)
Definition scaled_num (N ex : Z) : Z := if 0 <=? ex then N else N * p2 (- ex).
Definition scaled_den (D ex : Z) : Z := if 0 <=? ex then D * p2 ex else D.
(* the integer nearest to N / D / 2^ex, ties to even *)
Definition round_at (N D ex : Z) : Z :=
  let num := scaled_num N ex in
  let den := scaled_den D ex in
  let '(mq, mqd) := fast_divmul num den in
  let r := num - mqd in
  if (den <? 2 * r) || ((2 * r =? den) && Z.odd mq) then mq + 1 else mq.

Definition round_pos (N D : Z) : Z :=
  let l := Z.log2 N - Z.log2 D in
  let quot ex := fast_div (scaled_num N ex) (scaled_den D ex) in
  (* the exponent that puts the significand in [2^52, 2^53), not below the subnormal exponent *)
  let ex0 := if p2 52 <=? quot (l - 52) then l - 52 else l - 53 in
  let ex := Z.max ex0 (-1074) in
  let m1 := round_at N D ex in
  let '(m2, e2) := if m1 =? p2 53 then (p2 52, ex + 1) else (m1, ex) in
  if 971 <? e2 then pinf_bits
  else if m2 <? p2 52 then m2 else (e2 + 1075) * p2 52 + (m2 - p2 52).

Definition round_int (v : Z) : Z := if v <=? 0 then 0 else round_pos v 1.

(* s * 10^p, s >= 0.  Far outside the double range the answer is decided by
   the digit count alone (s*10^p >= 10^(nd-1+p), < 10^(nd+p)) *)
Definition round_dec (s p : Z) : Z :=
  if s <=? 0 then 0 else
  let nd := ndigits s in
  if 311 <? p + nd then pinf_bits
  else if p + nd <? -330 then 0
  else round_pos (s * p10 (Z.max p 0)) (p10 (Z.max (- p) 0)).

Definition signed_bits (neg : bool) (b : Z) : Z := if neg then 2 ^ 63 + b else b.

(* ---------- characters ---------- *)
Definition is_digit (c : Z) : bool := (48 <=? c) && (c <=? 57).
(* value of a digit character in radixes up to 36; 36 for anything else *)
Definition digit_val (c : Z) : Z :=
  if (48 <=? c) && (c <=? 57) then c - 48
  else if (97 <=? c) && (c <=? 122) then c - 87
  else if (65 <=? c) && (c <=? 90) then c - 55
  else 36.
(* StrWhiteSpaceChar: WhiteSpace (7.2, including the Zs class) and LineTerminator (7.3) *)
Definition is_ws (c : Z) : bool :=
  (c =? 9) || (c =? 10) || (c =? 11) || (c =? 12) || (c =? 13) || (c =? 32) || (c =? 160)
  || (c =? 5760) || (c =? 6158) || ((8192 <=? c) && (c <=? 8202)) || (c =? 8232) || (c =? 8233)
  || (c =? 8239) || (c =? 8287) || (c =? 12288) || (c =? 65279).
Fixpoint drop_ws (l : list Z) : list Z :=
  match l with c :: l' => if is_ws c then drop_ws l' else l | [] => [] end.
Definition trim_ws (l : list Z) : list Z := rev (drop_ws (rev (drop_ws l))).

Fixpoint strip_prefix (pre l : list Z) : option (list Z) :=
  match pre, l with
  | [], _ => Some l
  | a :: pre', b :: l' => if a =? b then strip_prefix pre' l' else None
  | _ :: _, [] => None
  end.

(* ---------- scanning ---------- *)
(* longest run of digits below radix r: their values, most significant first, and the rest *)
Fixpoint scan_radix (r : Z) (l : list Z) : list Z * list Z :=
  match l with
  | c :: l' => if digit_val c <? r then let '(ds, rest) := scan_radix r l' in (digit_val c :: ds, rest)
               else ([], l)
  | [] => ([], [])
  end.
Definition radix_value (r : Z) (ds : list Z) : Z := fold_left (fun acc d => acc * r + d) ds 0.

(* StrUnsignedDecimalLiteral other than Infinity: longest prefix of l of the forms
   digits [. [digits]] [exp] | . digits [exp];  mantissa s, exponent p (value s * 10^p), rest *)
Definition scan_exponent (l : list Z) : Z * list Z :=
  match l with
  | c :: r =>
      if (c =? 101) || (c =? 69) then
        let '(sgn, r1) := match r with
                          | 43 :: r' => (1, r')
                          | 45 :: r' => (-1, r')
                          | _ => (1, r)
                          end in
        let '(ds, r2) := scan_radix 10 r1 in
        match ds with [] => (0, l) | _ => (sgn * radix_value 10 ds, r2) end
      else (0, l)
  | [] => (0, l)
  end.
Definition scan_unsigned (l : list Z) : option (Z * Z * list Z) :=
  let '(ids, r1) := scan_radix 10 l in
  let '(fds, r2) := match r1 with
                    | 46 :: r => match ids, scan_radix 10 r with
                                 | [], ([], _) => ([], r1)       (* a lone '.' is not consumed *)
                                 | _, (fds, r') => (fds, r')
                                 end
                    | _ => ([], r1)
                    end in
  match ids, fds with
  | [], [] => None
  | _, _ => let '(ex, r3) := scan_exponent r2 in
            Some (radix_value 10 (ids ++ fds), ex - lenZ fds, r3)
  end.

(* StrDecimalLiteral: sign, Infinity or digits; longest prefix; result bits and rest *)
Definition scan_strdecimal (l : list Z) : option (Z * list Z) :=
  let '(neg, r) := match l with
                   | 43 :: r => (false, r)
                   | 45 :: r => (true, r)
                   | _ => (false, l)
                   end in
  match strip_prefix str_Infinity r with
  | Some r' => Some (signed_bits neg pinf_bits, r')
  | None => match scan_unsigned r with
            | Some (s, p, r') => Some (signed_bits neg (round_dec s p), r')
            | None => None
            end
  end.

(* ---------- 9.3.1 ToNumber(string) ---------- *)
Definition is_x (c : Z) : bool := (c =? 120) || (c =? 88).
Definition str_to_number (l : list Z) : Z :=
  match trim_ws l with
  | [] => 0
  | t =>
      match t with
      | 48 :: x :: h =>
          if is_x x then
            match scan_radix 16 h with
            | (d :: ds, []) => round_int (radix_value 16 (d :: ds))
            | _ => nan_bits
            end
          else match scan_strdecimal t with Some (b, []) => b | _ => nan_bits end
      | _ => match scan_strdecimal t with Some (b, []) => b | _ => nan_bits end
      end
  end.

(* ---------- 15.1.2.3 parseFloat ---------- *)
Definition parse_float (l : list Z) : Z :=
  match scan_strdecimal (drop_ws l) with Some (b, _) => b | None => nan_bits end.

(* ---------- 15.1.2.2 parseInt ---------- *)
(* ToInt32 (9.5) of a double given by its bits *)
Definition to_int32 (bits : Z) : Z :=
  match decode bits with
  | DFin neg m e =>
      let t := trunc_mag m e in
      let v := (if neg then - t else t) mod 2 ^ 32 in
      if 2 ^ 31 <=? v then v - 2 ^ 32 else v
  | _ => 0
  end.

Fixpoint drop_zeros (ds : list Z) : list Z :=
  match ds with 0 :: ds' => drop_zeros ds' | _ => ds end.
(* the first n digits kept, the others replaced by 0 *)
Fixpoint keep_first (n : nat) (ds : list Z) : list Z :=
  match n, ds with
  | _, [] => []
  | O, _ :: ds' => 0 :: keep_first O ds'
  | S k, d :: ds' => d :: keep_first k ds'
  end.

(* steps 1-12: sign, effective radix and the digits Z (values); None = NaN *)
Definition parse_int_parts (l : list Z) (rbits : Z) : option (bool * Z * list Z) :=
  let s := drop_ws l in
  let '(neg, s1) := match s with
                    | 45 :: r => (true, r)
                    | 43 :: r => (false, r)
                    | _ => (false, s)
                    end in
  let r := to_int32 rbits in
  if negb (r =? 0) && ((r <? 2) || (36 <? r)) then None else
  let strip := (r =? 0) || (r =? 16) in
  let r1 := if r =? 0 then 10 else r in
  let '(r2, s2) := match s1 with
                   | 48 :: x :: h => if strip && is_x x then (16, h) else (r1, s1)
                   | _ => (r1, s1)
                   end in
  match fst (scan_radix r2 s2) with
  | [] => None
  | ds => Some (neg, r2, ds)
  end.

(* the exact reading: sign * the Number value for mathInt *)
Definition parse_int (l : list Z) (rbits : Z) : Z :=
  match parse_int_parts l rbits with
  | None => nan_bits
  | Some (neg, r, ds) => signed_bits neg (round_int (radix_value r ds))
  end.
(* radix 10, the permitted reading in which every digit after the 20th significant one is 0 *)
Definition parse_int_20 (l : list Z) (rbits : Z) : Z :=
  match parse_int_parts l rbits with
  | None => nan_bits
  | Some (neg, r, ds) => signed_bits neg (round_int (radix_value r (keep_first 20 (drop_zeros ds))))
  end.
(* may mathInt be an implementation-dependent approximation (15.1.2.2 step 13) *)
Definition parse_int_exact_required (r : Z) : bool :=
  (r =? 2) || (r =? 4) || (r =? 8) || (r =? 10) || (r =? 16) || (r =? 32).

(* ---------- 7.8.3 NumericLiteral with the B.1.1 legacy octal form ---------- *)
(* the whole text must be one literal; None = not a literal *)
Definition literal_value (l : list Z) : option Z :=
  match l with
  | 48 :: x :: h =>
      if is_x x then
        match scan_radix 16 h with
        | (d :: ds, []) => Some (round_int (radix_value 16 (d :: ds)))
        | _ => None
        end
      else if is_digit x then
        match scan_radix 8 (x :: h) with
        | (ds, []) => Some (round_int (radix_value 8 ds))
        | _ => None
        end
      else match scan_unsigned l with Some (s, p, []) => Some (round_dec s p) | _ => None end
  | _ => match scan_unsigned l with Some (s, p, []) => Some (round_dec s p) | _ => None end
  end.
