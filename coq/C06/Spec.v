(* C06, number -> text.  ES5 9.8.1 (ToString applied to Number), 15.7.4.2
   (toString(radix) for integer values), 15.7.4.5-7 (toFixed, toExponential,
   toPrecision), transcribed as total executable functions over Z.  A double
   arrives as the integer of its bit pattern and is viewed as m * 2^e
   (Common.Double.decode); every digit is chosen by exact integer comparisons.

   "The Number value for v" (ES5 8.5) is read through rounding intervals: v
   rounds to the double x = m*2^e iff v lies between the midpoints to x's two
   neighbours, the midpoints included exactly when m is even; 2^1024 counts as
   the upper neighbour of the largest double.  All quantities are integers at
   the scale 2^(e-2): x = 4m, upper midpoint 4m+2, lower midpoint 4m-2 (4m-1
   when x is a power of two above the subnormal range, where the lower
   neighbour is half as far away). *)
From Coq Require Import ZArith List Bool.
From Otto Require Import Common.Double.
Import ListNotations.
Open Scope Z_scope.

(* ---------- characters ---------- *)
Definition ch_0 := 48. Definition ch_dot := 46. Definition ch_plus := 43. Definition ch_minus := 45.
Definition ch_e := 101.
Definition str_NaN : list Z := [78; 97; 78].
Definition str_Infinity : list Z := [73; 110; 102; 105; 110; 105; 116; 121].

(* digit value -> character, radix up to 36 (lower case, as ES5 15.7.4.2 and 9.8.1 print) *)
Definition digit_char (d : Z) : Z := if d <? 10 then 48 + d else 87 + d.

(* digits of n >= 0 in radix r, most significant first, as characters *)
Fixpoint radix_digits_fuel (fuel : nat) (r n : Z) (acc : list Z) : list Z :=
  match fuel with
  | O => acc
  | S f => if n <? r then digit_char n :: acc
           else radix_digits_fuel f r (n / r) (digit_char (n mod r) :: acc)
  end.
Definition radix_digits (r n : Z) : list Z := radix_digits_fuel (S (Z.to_nat (Z.log2 n))) r n [].
Definition dec_digits (n : Z) : list Z := radix_digits 10 n.

Fixpoint zeros (n : nat) : list Z := match n with O => [] | S k => 48 :: zeros k end.
Definition zerosZ (n : Z) : list Z := zeros (Z.to_nat n).
Definition lenZ (l : list Z) : Z := Z.of_nat (length l).
Definition firstnZ (n : Z) (l : list Z) := firstn (Z.to_nat n) l.
Definition skipnZ (n : Z) (l : list Z) := skipn (Z.to_nat n) l.
(* left-pad with '0' to at least n characters *)
Definition pad_left (n : Z) (l : list Z) : list Z := zerosZ (n - lenZ l) ++ l.

(* ---------- the rounding interval of a positive finite double ---------- *)
Definition interval (m e : Z) : Z * Z * bool :=
  let lo := if (m =? 2 ^ 52) && (-1074 <? e) then 4 * m - 1 else 4 * m - 2 in
  (lo, 4 * m + 2, Z.even m).

(* powers, computed fast (shift; square-and-multiply); p2 n = 2^n and p10 n = 10^n for n >= 0 *)
Definition p2 (n : Z) : Z := Z.shiftl 1 n.
Fixpoint pow_pos_sq (b : Z) (p : positive) : Z :=
  match p with
  | xH => b
  | xO p' => let r := pow_pos_sq b p' in r * r
  | xI p' => let r := pow_pos_sq b p' in b * (r * r)
  end.
Definition p10 (n : Z) : Z := match n with Zpos p => pow_pos_sq 10 p | _ => 1 end.

(* (X / B, (X / B) * B) for large operands with a small quotient: guess the
   quotient from the leading bits, correct by at most two units either way,
   verify, and fall back to Z.div if the verification fails.  Equal to the
   plain division for all inputs (Proofs: fast_divmul_eq). *)
Definition fast_divmul (X B : Z) : Z * Z :=
  let t := Z.max 0 (Z.log2 B - 100) in
  let g := Z.shiftr X t / Z.shiftr B t in
  let gB := g * B in
  let '(g1, g1B) := if X <? gB then (if X <? gB - B then (g - 2, gB - B - B) else (g - 1, gB - B))
                    else (g, gB) in
  let '(g2, g2B) := if g1B + B <=? X then (if g1B + B + B <=? X then (g1 + 2, g1B + B + B) else (g1 + 1, g1B + B))
                    else (g1, g1B) in
  if (0 <? B) && (g2B <=? X) && (X <? g2B + B) then (g2, g2B) else (X / B, X / B * B).
Definition fast_div (X B : Z) : Z := fst (fast_divmul X B).

(* comparing L * 2^q with s * 10^p:  L * scaleA q p  against  s * scaleB q p *)
Definition scaleA (q p : Z) : Z := p2 (Z.max q 0) * p10 (Z.max (- p) 0).
Definition scaleB (q p : Z) : Z := p10 (Z.max p 0) * p2 (Z.max (- q) 0).

Definition in_lohi (incl : bool) (LO HI sB : Z) : bool :=
  if incl then (LO <=? sB) && (sB <=? HI) else (LO <? sB) && (sB <? HI).

(* does s * B lie in the rounding interval of m * 2^e scaled by A ? *)
Definition in_ab (m e A B s : Z) : bool :=
  let '(lo, hi, incl) := interval m e in in_lohi incl (lo * A) (hi * A) (s * B).

(* does s * 10^p round to the double m * 2^e ? *)
Definition in_interval (m e s p : Z) : bool :=
  in_ab m e (scaleA (e - 2) p) (scaleB (e - 2) p) s.

(* the multiple of 10^p that rounds to m*2^e and is closest to it (even s on a
   tie), if there is one: 9.8.1 step 5 with the recommended choice of NOTE 2 *)
Definition choose (s0 r B : Z) (in0 in1 : bool) : option Z :=
  match in0, in1 with
  | true, true => Some (if 2 * r <? B then s0 else if B <? 2 * r then s0 + 1
                        else if Z.even s0 then s0 else s0 + 1)
  | true, false => Some s0
  | false, true => Some (s0 + 1)
  | false, false => None
  end.
Definition cand_ab (m e A B : Z) : option Z :=
  let X := 4 * m * A in
  let s0 := X / B in
  choose s0 (X mod B) B (in_ab m e A B s0) (in_ab m e A B (s0 + 1)).
Definition cand (m e p : Z) : option Z := cand_ab m e (scaleA (e - 2) p) (scaleB (e - 2) p).

(* largest p that has a candidate, searching downward *)
Fixpoint shortest_from (fuel : nat) (m e p : Z) : option (Z * Z) :=
  match cand m e p with
  | Some s => Some (s, p)
  | None => match fuel with O => None | S f => shortest_from f m e (p - 1) end
  end.

(* a p0 with 10^p0 above the whole interval: an estimate from the binary
   exponent, checked exactly, with 310 as the unconditional fallback *)
Definition start_p (m e : Z) : Z :=
  let g := ((Z.log2 m + e + 1) * 30103) / 100000 + 1 in
  if (4 * m + 2) * scaleA (e - 2) g <? scaleB (e - 2) g then g else 310.

Definition shortest (m e : Z) : option (Z * Z) :=
  let p0 := start_p m e in
  shortest_from (Z.to_nat (p0 - Z.min (e - 2) 0)) m e p0.

(* the same search carrying the scaled interval along instead of recomputing it
   and dividing with fast_divmul (Proofs: shortest_fast_eq); this is what the
   correspondence run evaluates *)
Definition cand_run (incl : bool) (B LO HI X : Z) : option Z :=
  let '(s0, s0B) := fast_divmul X B in
  choose s0 (X - s0B) B (in_lohi incl LO HI s0B) (in_lohi incl LO HI (s0B + B)).
Fixpoint shortest_run (fuel : nat) (incl : bool) (p B LO HI X : Z) : option (Z * Z) :=
  match cand_run incl B LO HI X with
  | Some s => Some (s, p)
  | None => match fuel with
            | O => None
            | S f => if 0 <? p then shortest_run f incl (p - 1) (B / 10) LO HI X
                     else shortest_run f incl (p - 1) B (LO * 10) (HI * 10) (X * 10)
            end
  end.
Definition shortest_fast (m e : Z) : option (Z * Z) :=
  let p0 := start_p m e in
  let '(lo, hi, incl) := interval m e in
  let A := scaleA (e - 2) p0 in
  shortest_run (Z.to_nat (p0 - Z.min (e - 2) 0)) incl p0 (scaleB (e - 2) p0) (lo * A) (hi * A) (4 * m * A).

(* number of decimal digits of s >= 1 (1 for s <= 0) *)
Fixpoint ndigits_from (fuel : nat) (k s : Z) : Z :=
  match fuel with
  | O => k
  | S f => if s <? p10 k then k else ndigits_from f (k + 1) s
  end.
Definition ndigits (s : Z) : Z := ndigits_from (Z.to_nat (Z.log2 s)) 1 s.

(* ---------- 9.8.1 layout of digits ds (characters) with decimal point position n ---------- *)
Definition exp_part (e : Z) : list Z :=
  ch_e :: (if 0 <=? e then ch_plus else ch_minus) :: dec_digits (Z.abs e).

Definition layout (ds : list Z) (n : Z) : list Z :=
  let k := lenZ ds in
  if (k <=? n) && (n <=? 21) then ds ++ zerosZ (n - k)
  else if (0 <? n) && (n <=? 21) then firstnZ n ds ++ ch_dot :: skipnZ n ds
  else if (-6 <? n) && (n <=? 0) then ch_0 :: ch_dot :: zerosZ (- n) ++ ds
  else match ds with
       | [] => []
       | [d] => d :: exp_part (n - 1)
       | d :: rest => d :: ch_dot :: rest ++ exp_part (n - 1)
       end.

Definition with_sign (neg : bool) (l : list Z) : list Z := if neg then ch_minus :: l else l.

(* ES5 9.8.1 *)
Definition num_to_string (bits : Z) : option (list Z) :=
  match decode bits with
  | DNaN => Some str_NaN
  | DInf neg => Some (with_sign neg str_Infinity)
  | DFin neg m e =>
      if m =? 0 then Some [ch_0] else
      match shortest_fast m e with
      | Some (s, p) => let ds := dec_digits s in Some (with_sign neg (layout ds (p + lenZ ds)))
      | None => None
      end
  end.

(* ---------- 15.7.4.2 toString(radix) ---------- *)
(* integer values: sign and the digits of |x|.  For a value with a fraction ES5
   leaves the algorithm open ("a generalisation of 9.8.1"); what can be demanded
   is that the text denotes a number that rounds back to x (radix_roundtrips
   below, used by the correspondence verdict). *)
Definition to_radix_int (bits r : Z) : option (list Z) :=
  match decode bits with
  | DNaN => Some str_NaN
  | DInf neg => Some (with_sign neg str_Infinity)
  | DFin neg m e =>
      if m =? 0 then Some [ch_0]
      else if is_integral m e then Some (with_sign neg (radix_digits r (trunc_mag m e)))
      else None
  end.

(* ---------- exact decimal rounding of m*2^e at 10^-f, ties up (the "larger n" of 15.7.4.5-7) ---------- *)
(* n = floor(m*2^e*10^f + 1/2), f any integer *)
Definition round_half_up (m e f : Z) : Z :=
  let num := m * p2 (Z.max e 0) * p10 (Z.max f 0) in
  let den := p2 (Z.max (- e) 0) * p10 (Z.max (- f) 0) in
  fast_div (2 * num + den) (2 * den).

(* floor(log10(m*2^e)), m > 0: estimate, then exact correction *)
Definition le_pow10 (g m e : Z) : bool :=  (* 10^g <= m*2^e *)
  p10 (Z.max g 0) * p2 (Z.max (- e) 0) <=? m * p2 (Z.max e 0) * p10 (Z.max (- g) 0).
Fixpoint log10_down (fuel : nat) (g m e : Z) : Z :=
  match fuel with O => g | S f => if le_pow10 g m e then g else log10_down f (g - 1) m e end.
Fixpoint log10_up (fuel : nat) (g m e : Z) : Z :=
  match fuel with O => g | S f => if le_pow10 (g + 1) m e then log10_up f (g + 1) m e else g end.
Definition floor_log10 (m e : Z) : Z :=
  let g := ((Z.log2 m + e) * 30103) / 100000 in
  log10_up 4 (log10_down 4 g m e) m e.

(* 15.7.4.5 *)
Definition fixed_digits (n f : Z) : list Z :=
  (* decimal digits of n with a point before the last f digits *)
  if f =? 0 then dec_digits n
  else let ds := pad_left (f + 1) (if n =? 0 then [ch_0] else dec_digits n) in
       let k := lenZ ds in
       firstnZ (k - f) ds ++ ch_dot :: skipnZ (k - f) ds.

Inductive res :=
| RStr (s : list Z)
| RErr (cls : Z)     (* 3 = RangeError *)
| RNone.             (* outside the modelled domain *)

Definition opt_res (o : option (list Z)) : res := match o with Some s => RStr s | None => RNone end.

Definition to_fixed (bits f : Z) : res :=
  if (f <? 0) || (20 <? f) then RErr 3 else
  match decode bits with
  | DNaN => RStr str_NaN
  | DInf neg => RStr (with_sign neg str_Infinity)
  | DFin neg m e =>
      (* x >= 10^21: ToString(x) *)
      if le_pow10 21 m e && negb (m =? 0) then opt_res (num_to_string bits)
      else let n := round_half_up m e f in
           RStr (with_sign (neg && negb (m =? 0)) (fixed_digits n f))
  end.

(* n digits (f+1 of them) and exponent e10 with n*10^(e10-f) closest to x, larger n on ties *)
Definition exp_digits (m e f : Z) : Z * Z :=
  let e10 := floor_log10 m e in
  let n := round_half_up m e (f - e10) in
  if p10 (f + 1) <=? n then (round_half_up m e (f - e10 - 1), e10 + 1) else (n, e10).

Definition exp_layout (ds : list Z) (e10 : Z) : list Z :=
  let ex := (if 0 <=? e10 then ch_plus else ch_minus) :: dec_digits (Z.abs e10) in
  match ds with
  | [] => []
  | [d] => d :: ch_e :: ex
  | d :: rest => d :: ch_dot :: rest ++ ch_e :: ex
  end.

(* 15.7.4.6; f = None when fractionDigits is undefined *)
Definition to_exponential (bits : Z) (f : option Z) : res :=
  match decode bits with
  | DNaN => RStr str_NaN
  | DInf neg => RStr (with_sign neg str_Infinity)
  | DFin neg m e =>
      match f with
      | Some fd =>
          if (fd <? 0) || (20 <? fd) then RErr 3
          else if m =? 0 then RStr (exp_layout (zerosZ (fd + 1)) 0)
          else let '(n, e10) := exp_digits m e fd in
               RStr (with_sign neg (exp_layout (dec_digits n) e10))
      | None =>
          if m =? 0 then RStr (exp_layout [ch_0] 0)
          else match shortest_fast m e with
               | Some (s, p) => let ds := dec_digits s in
                                RStr (with_sign neg (exp_layout ds (p + lenZ ds - 1)))
               | None => RNone
               end
      end
  end.

(* 15.7.4.7 with a defined precision p *)
Definition to_precision (bits p : Z) : res :=
  match decode bits with
  | DNaN => RStr str_NaN
  | DInf neg => RStr (with_sign neg str_Infinity)
  | DFin neg m e =>
      if (p <? 1) || (21 <? p) then RErr 3
      else if m =? 0 then
        RStr (if p =? 1 then [ch_0] else ch_0 :: ch_dot :: zerosZ (p - 1))
      else
        let '(n, e10) := exp_digits m e (p - 1) in
        let ds := dec_digits n in
        if (e10 <? -6) || (p <=? e10) then RStr (with_sign neg (exp_layout ds e10))
        else if e10 =? p - 1 then RStr (with_sign neg ds)
        else if 0 <=? e10 then RStr (with_sign neg (firstnZ (e10 + 1) ds ++ ch_dot :: skipnZ (e10 + 1) ds))
        else RStr (with_sign neg (ch_0 :: ch_dot :: zerosZ (- (e10 + 1)) ++ ds))
  end.
