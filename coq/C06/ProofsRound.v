(* C06 proofs, part 2: the rounding step of the text -> number direction is
   round-to-nearest, ties-to-even, at every exponent. *)
From Coq Require Import ZArith List Bool Lia.
From Otto Require Import Common.Double C06.Spec C06.SpecText C06.Proofs.
Import ListNotations.
Open Scope Z_scope.

Lemma scaled_den_pos : forall D ex, 0 < D -> 0 < scaled_den D ex.
Proof.
  intros D ex HD. unfold scaled_den. destruct (Z.leb_spec 0 ex); [|assumption].
  apply Z.mul_pos_pos; [assumption | apply p2_pos; lia].
Qed.

(* N / D / 2^ex = scaled_num / scaled_den: cross-multiplied, with the power of two on the proper side *)
Lemma scaled_value : forall N D ex,
  scaled_num N ex * (D * 2 ^ Z.max ex 0) = scaled_den D ex * (N * 2 ^ Z.max (- ex) 0).
Proof.
  intros N D ex. unfold scaled_num, scaled_den. destruct (Z.leb_spec 0 ex).
  - rewrite p2_spec by lia. replace (Z.max ex 0) with ex by lia. replace (Z.max (- ex) 0) with 0 by lia.
    change (2 ^ 0) with 1. ring.
  - rewrite p2_spec by lia. replace (Z.max ex 0) with 0 by lia. replace (Z.max (- ex) 0) with (- ex) by lia.
    change (2 ^ 0) with 1. ring.
Qed.

(* the integer chosen is within one half of num/den; exactly one half away only if it is even *)
Theorem round_at_nearest_even : forall N D ex, 0 < D ->
  let num := scaled_num N ex in
  let den := scaled_den D ex in
  let m := round_at N D ex in
  Z.abs (2 * num - 2 * m * den) <= den /\
  (Z.abs (2 * num - 2 * m * den) = den -> Z.even m = true).
Proof.
  intros N D ex HD num den m. subst m. unfold round_at. fold num den.
  assert (Hd : 0 < den) by (apply scaled_den_pos; assumption).
  rewrite fast_divmul_eq.
  pose proof (Z.div_mod num den ltac:(lia)) as Hdm. pose proof (Z.mod_pos_bound num den Hd) as Hr.
  set (q := num / den) in *. set (r := num mod den) in *.
  replace (num - q * den) with r by lia.
  assert (Hq : q * den = num - r) by lia.
  assert (Hq1 : (q + 1) * den = num - r + den) by lia.
  destruct (Z.ltb_spec den (2 * r)) as [Hup|Hdn]; cbn [orb].
  - replace (2 * (q + 1) * den) with (2 * ((q + 1) * den)) by ring. rewrite Hq1. split; lia.
  - destruct (Z.eqb_spec (2 * r) den) as [Heq|Hne]; cbn [andb].
    + destruct (Z.odd q) eqn:Eo.
      * replace (2 * (q + 1) * den) with (2 * ((q + 1) * den)) by ring. rewrite Hq1.
        split; [lia|]. intros _. rewrite Z.even_add. rewrite <- Z.negb_odd, Eo. reflexivity.
      * replace (2 * q * den) with (2 * (q * den)) by ring. rewrite Hq.
        split; [lia|]. intros _. rewrite <- Z.negb_odd, Eo. reflexivity.
    + replace (2 * q * den) with (2 * (q * den)) by ring. rewrite Hq. split; lia.
Qed.

(* hence no integer is closer to num/den than the one chosen *)
Corollary round_at_closest : forall N D ex m', 0 < D ->
  Z.abs (scaled_num N ex - round_at N D ex * scaled_den D ex) <= Z.abs (scaled_num N ex - m' * scaled_den D ex).
Proof.
  intros N D ex m' HD. destruct (round_at_nearest_even N D ex HD) as [H _].
  pose proof (scaled_den_pos D ex HD) as Hd.
  set (num := scaled_num N ex) in *. set (den := scaled_den D ex) in *. set (m := round_at N D ex) in *.
  destruct (Z.eq_dec m' m) as [->|Hne]; [lia|].
  assert (Hgap : den <= Z.abs (m' * den - m * den)).
  { replace (m' * den - m * den) with ((m' - m) * den) by ring. rewrite Z.abs_mul.
    assert (1 <= Z.abs (m' - m)) by lia. rewrite (Z.abs_eq den) by lia. nia. }
  replace (2 * m * den) with (2 * (m * den)) in H by ring.
  clearbody num den m. lia.
Qed.

(* ---------- the rounding step lands in the rounding interval of the double it returns ---------- *)
(* N / D against the interval of m * 2^ex, as in_ab with the binary scale split by sign *)
Definition in_interval_q (m ex N D : Z) : bool :=
  in_ab m ex (2 ^ Z.max (ex - 2) 0 * D) (2 ^ Z.max (- (ex - 2)) 0) N.

Lemma abs_le_iff : forall a b, Z.abs a <= b <-> - b <= a <= b.
Proof. intros. lia. Qed.

Theorem round_at_in_interval : forall N D ex, 0 < D ->
  let m := round_at N D ex in
  (m =? 2 ^ 52) && (-1074 <? ex) = false ->
  in_interval_q m ex N D = true.
Proof.
  intros N D ex HD m Hnb.
  destruct (round_at_nearest_even N D ex HD) as [Hle Htie]. fold m in Hle, Htie. clearbody m.
  unfold in_interval_q, in_ab, interval. rewrite Hnb.
  set (A := 2 ^ Z.max (ex - 2) 0 * D). set (B := 2 ^ Z.max (- (ex - 2)) 0).
  (* the half-ulp bound at the scale of the interval test *)
  assert (Hkey : Z.abs (N * B - 4 * m * A) <= 2 * A /\ (Z.abs (N * B - 4 * m * A) = 2 * A -> Z.even m = true)).
  { unfold scaled_num, scaled_den in *. unfold A, B. clear A B.
    destruct (Z.leb_spec 0 ex) as [H0|H0].
    - rewrite p2_spec in * by lia.
      destruct (Z.le_gt_cases 2 ex) as [H2|H2].
      + replace (Z.max (ex - 2) 0) with (ex - 2) by lia. replace (Z.max (- (ex - 2)) 0) with 0 by lia.
        change (2 ^ 0) with 1.
        assert (Hp : 2 ^ ex = 4 * 2 ^ (ex - 2)).
        { replace ex with (2 + (ex - 2)) at 1 by lia. rewrite Z.pow_add_r by lia. reflexivity. }
        rewrite Hp in Hle, Htie. set (P := 2 ^ (ex - 2)) in *. assert (0 < P) by (apply Z.pow_pos_nonneg; lia).
        clearbody P. split; [|intro He; apply Htie]; nia.
      + replace (Z.max (ex - 2) 0) with 0 by lia. replace (Z.max (- (ex - 2)) 0) with (2 - ex) by lia.
        change (2 ^ 0) with 1.
        assert (Hex : ex = 0 \/ ex = 1) by lia. destruct Hex as [-> | ->].
        * change (2 ^ 0) with 1 in *. change (2 ^ (2 - 0)) with 4. split; [|intro He; apply Htie]; nia.
        * change (2 ^ 1) with 2 in *. change (2 ^ (2 - 1)) with 2. split; [|intro He; apply Htie]; nia.
    - rewrite p2_spec in * by lia.
      replace (Z.max (ex - 2) 0) with 0 by lia. replace (Z.max (- (ex - 2)) 0) with (2 + - ex) by lia.
      change (2 ^ 0) with 1. rewrite Z.pow_add_r by lia. change (2 ^ 2) with 4.
      set (P := 2 ^ (- ex)) in *. assert (0 < P) by (apply Z.pow_pos_nonneg; lia).
      clearbody P. split; [|intro He; apply Htie]; nia. }
  destruct Hkey as [Hk1 Hk2]. apply abs_le_iff in Hk1.
  unfold in_lohi. destruct (Z.even m) eqn:Ev.
  - apply andb_true_intro; split; apply Z.leb_le; nia.
  - assert (Hne : Z.abs (N * B - 4 * m * A) <> 2 * A) by (intro He; specialize (Hk2 He); congruence).
    apply andb_true_intro; split; apply Z.ltb_lt; nia.
Qed.

(* decimal texts: the significand chosen for s * 10^p at any exponent ex is a double whose
   rounding interval (the one the Number->String oracle works with) contains s * 10^p *)
Theorem round_decimal_in_interval : forall s p ex,
  let N := s * 10 ^ Z.max p 0 in
  let D := 10 ^ Z.max (- p) 0 in
  let m := round_at N D ex in
  (m =? 2 ^ 52) && (-1074 <? ex) = false ->
  in_interval m ex s p = true.
Proof.
  intros s p ex N D m Hnb.
  assert (HD : 0 < D) by (apply Z.pow_pos_nonneg; lia).
  pose proof (round_at_in_interval N D ex HD Hnb) as H. fold m in H.
  unfold in_interval_q in H. unfold in_interval, scaleA, scaleB.
  rewrite !p2_spec, !p10_spec by lia. fold D.
  unfold in_ab in *. destruct (interval m ex) as [[lo hi] incl].
  subst N. replace (s * (10 ^ Z.max p 0 * 2 ^ Z.max (- (ex - 2)) 0)) with (s * 10 ^ Z.max p 0 * 2 ^ Z.max (- (ex - 2)) 0) by ring.
  exact H.
Qed.
