(* C06 proofs, part 1: arithmetic helpers, the fast search equals the plain
   search, soundness and maximality of the shortest-digits search. *)
From Coq Require Import ZArith List Bool Lia Zify.
From Otto Require Import Common.Double C06.Spec C06.SpecText C06.Model.
Import ListNotations.
Open Scope Z_scope.

(* ---------- otto's exponent rewrite ---------- *)
Lemma exp_text_agrees : forall ex, ex <> 0 -> ch_e :: go_exp2 true ex = exp_part ex.
Proof.
  intros ex H. unfold go_exp2, exp_part.
  destruct (Z.eqb_spec ex 0); [contradiction|]. cbn [negb andb].
  destruct (Z.ltb_spec ex 0), (Z.leb_spec 0 ex); try lia; reflexivity.
Qed.

(* ---------- powers ---------- *)
Lemma p2_spec : forall n, 0 <= n -> p2 n = 2 ^ n.
Proof. intros n H. unfold p2. rewrite Z.shiftl_mul_pow2 by lia. lia. Qed.

Lemma pow_pos_sq_spec : forall b p, pow_pos_sq b p = b ^ Zpos p.
Proof.
  intros b p. induction p as [p IH | p IH |]; cbn [pow_pos_sq].
  - rewrite IH. replace (Z.pos p~1) with (Z.pos p + Z.pos p + 1) by lia.
    rewrite !Z.pow_add_r, Z.pow_1_r by lia. ring.
  - rewrite IH. replace (Z.pos p~0) with (Z.pos p + Z.pos p) by lia.
    rewrite Z.pow_add_r by lia. ring.
  - rewrite Z.pow_1_r. reflexivity.
Qed.

Lemma p10_spec : forall n, 0 <= n -> p10 n = 10 ^ n.
Proof.
  intros n H. destruct n as [|p|p]; cbn [p10]; try reflexivity; try lia.
  apply pow_pos_sq_spec.
Qed.

Lemma p10_pos : forall n, 0 < p10 n.
Proof.
  intros n. destruct (Z.leb_spec 0 n).
  - rewrite p10_spec by lia. apply Z.pow_pos_nonneg; lia.
  - destruct n; cbn [p10]; lia.
Qed.
Lemma p2_pos : forall n, 0 <= n -> 0 < p2 n.
Proof. intros. rewrite p2_spec by lia. apply Z.pow_pos_nonneg; lia. Qed.

Lemma p10_succ : forall n, 0 <= n -> p10 (n + 1) = 10 * p10 n.
Proof. intros. rewrite !p10_spec by lia. rewrite Z.pow_add_r by lia. lia. Qed.

(* ---------- fast division ---------- *)
Lemma divmul_unique : forall X B q qB, qB = q * B -> 0 < B -> qB <= X -> X < qB + B ->
  (q, qB) = (X / B, X / B * B).
Proof.
  intros X B q qB -> HB H1 H2.
  assert (q = X / B) as <-.
  { apply (Z.div_unique_pos X B q (X - q * B)); lia. }
  reflexivity.
Qed.

Lemma fast_divmul_eq : forall X B, fast_divmul X B = (X / B, X / B * B).
Proof.
  intros X B. unfold fast_divmul.
  generalize (Z.shiftr X (Z.max 0 (Z.log2 B - 100)) / Z.shiftr B (Z.max 0 (Z.log2 B - 100))).
  intro g.
  destruct (X <? g * B); [destruct (X <? g * B - B)|];
  cbv beta iota zeta;
  match goal with |- context [if ?a + B <=? X then _ else _] => destruct (a + B <=? X) end;
  try match goal with |- context [if ?a + B + B <=? X then _ else _] => destruct (a + B + B <=? X) end;
  cbv beta iota zeta;
  match goal with |- (if ?c then _ else _) = _ => destruct c eqn:E end; try reflexivity;
  apply andb_prop in E; destruct E as [E E3]; apply andb_prop in E; destruct E as [E1 E2];
  apply Z.ltb_lt in E1; apply Z.leb_le in E2; apply Z.ltb_lt in E3;
  apply divmul_unique; try assumption; ring.
Qed.

Lemma fast_div_eq : forall X B, fast_div X B = X / B.
Proof. intros. unfold fast_div. rewrite fast_divmul_eq. reflexivity. Qed.

(* ---------- the scale factors, one step down in p ---------- *)
Lemma scaleA_pos : forall q p, 0 < scaleA q p.
Proof. intros. unfold scaleA. apply Z.mul_pos_pos; [apply p2_pos; lia | apply p10_pos]. Qed.
Lemma scaleB_pos : forall q p, 0 < scaleB q p.
Proof. intros. unfold scaleB. apply Z.mul_pos_pos; [apply p10_pos | apply p2_pos; lia]. Qed.

Lemma scale_step_pos : forall q p, 0 < p ->
  scaleA q (p - 1) = scaleA q p /\ scaleB q p = 10 * scaleB q (p - 1).
Proof.
  intros q p H. unfold scaleA, scaleB.
  replace (Z.max (- (p - 1)) 0) with 0 by lia. replace (Z.max (- p) 0) with 0 by lia.
  replace (Z.max p 0) with ((p - 1) + 1) by lia. replace (Z.max (p - 1) 0) with (p - 1) by lia.
  rewrite p10_succ by lia. split; ring.
Qed.
Lemma scale_step_nonpos : forall q p, p <= 0 ->
  scaleA q (p - 1) = 10 * scaleA q p /\ scaleB q (p - 1) = scaleB q p.
Proof.
  intros q p H. unfold scaleA, scaleB.
  replace (Z.max (- (p - 1)) 0) with ((- p) + 1) by lia. replace (Z.max (- p) 0) with (- p) by lia.
  replace (Z.max p 0) with 0 by lia. replace (Z.max (p - 1) 0) with 0 by lia.
  rewrite p10_succ by lia. split; ring.
Qed.

(* ---------- the fast search is the plain search ---------- *)
Lemma cand_run_eq : forall m e A B, 0 < B ->
  cand_run (snd (interval m e)) B (fst (fst (interval m e)) * A) (snd (fst (interval m e)) * A) (4 * m * A)
  = cand_ab m e A B.
Proof.
  intros m e A B HB. unfold cand_run, cand_ab, in_ab. rewrite fast_divmul_eq.
  destruct (interval m e) as [[lo hi] incl]. cbn [fst snd].
  rewrite Zmod_eq_full by lia.
  replace ((4 * m * A / B + 1) * B) with (4 * m * A / B * B + B) by ring.
  reflexivity.
Qed.

Lemma shortest_run_eq : forall fuel m e p,
  shortest_run fuel (snd (interval m e)) p (scaleB (e - 2) p)
    (fst (fst (interval m e)) * scaleA (e - 2) p) (snd (fst (interval m e)) * scaleA (e - 2) p)
    (4 * m * scaleA (e - 2) p)
  = shortest_from fuel m e p.
Proof.
  induction fuel as [|f IH]; intros m e p; cbn [shortest_run shortest_from];
    rewrite cand_run_eq by apply scaleB_pos; fold (cand m e p); destruct (cand m e p); try reflexivity.
  destruct (Z.ltb_spec 0 p) as [Hp|Hp].
  - destruct (scale_step_pos (e - 2) p Hp) as [HA HB].
    rewrite <- IH. rewrite HA. rewrite HB at 1.
    rewrite Z.mul_comm, Z.div_mul by lia. reflexivity.
  - destruct (scale_step_nonpos (e - 2) p Hp) as [HA HB].
    rewrite <- IH. rewrite HA, HB. f_equal; ring.
Qed.

Theorem shortest_fast_eq : forall m e, shortest_fast m e = shortest m e.
Proof.
  intros m e. unfold shortest_fast, shortest.
  pose proof (shortest_run_eq (Z.to_nat (start_p m e - Z.min (e - 2) 0)) m e (start_p m e)) as H.
  destruct (interval m e) as [[lo hi] incl]. cbn [fst snd] in H. exact H.
Qed.

(* ---------- soundness and completeness of one candidate step ---------- *)
Definition valid_me (m e : Z) : Prop := 0 < m < 2 ^ 53 /\ -1074 <= e <= 971.

Lemma cand_sound : forall m e p s, cand m e p = Some s -> in_interval m e s p = true.
Proof.
  intros m e p s. unfold cand, cand_ab, in_interval, choose.
  set (A := scaleA (e - 2) p). set (B := scaleB (e - 2) p).
  destruct (in_ab m e A B (4 * m * A / B)) eqn:E0, (in_ab m e A B (4 * m * A / B + 1)) eqn:E1;
    intro H; inversion H; subst; try assumption.
  repeat match goal with |- context [if ?c then _ else _] => destruct c end; assumption.
Qed.

Lemma interval_bounds : forall m e, 0 < m ->
  let '(lo, hi, _) := interval m e in 0 < lo /\ lo < 4 * m /\ 4 * m < hi.
Proof. intros m e H. unfold interval. destruct ((m =? 2 ^ 52) && (-1074 <? e)); lia. Qed.

Lemma in_lohi_mono_lo : forall incl LO HI a b, in_lohi incl LO HI a = true -> a <= b -> b < HI ->
  in_lohi incl LO HI b = true.
Proof.
  intros incl LO HI a b H Hab Hb. unfold in_lohi in *. destruct incl;
    apply andb_prop in H; destruct H as [H1 H2]; apply andb_true_intro; split;
    try apply Z.leb_le; try apply Z.ltb_lt; try apply Z.leb_le in H1; try apply Z.ltb_lt in H1; lia.
Qed.
Lemma in_lohi_mono_hi : forall incl LO HI a b, in_lohi incl LO HI a = true -> b <= a -> LO < b ->
  in_lohi incl LO HI b = true.
Proof.
  intros incl LO HI a b H Hab Hb. unfold in_lohi in *. destruct incl;
    apply andb_prop in H; destruct H as [H1 H2]; apply andb_true_intro; split;
    try apply Z.leb_le; try apply Z.ltb_lt; try apply Z.leb_le in H2; try apply Z.ltb_lt in H2; lia.
Qed.

Lemma cand_complete : forall m e p, 0 < m -> cand m e p = None ->
  forall s, in_interval m e s p = false.
Proof.
  intros m e p Hm Hc s. unfold cand, cand_ab, in_interval, choose in *.
  set (A := scaleA (e - 2) p) in *. set (B := scaleB (e - 2) p) in *.
  assert (HA : 0 < A) by apply scaleA_pos. assert (HB : 0 < B) by apply scaleB_pos.
  set (X := 4 * m * A) in *. set (s0 := X / B) in *.
  destruct (in_ab m e A B s0) eqn:E0, (in_ab m e A B (s0 + 1)) eqn:E1; try discriminate.
  destruct (in_ab m e A B s) eqn:Es; [exfalso | reflexivity].
  unfold in_ab in *. pose proof (interval_bounds m e Hm) as Hb.
  destruct (interval m e) as [[lo hi] incl]. destruct Hb as (Hlo & Hlo4 & Hhi4).
  assert (HloX : lo * A < X) by (unfold X; nia).
  assert (HXhi : X < hi * A) by (unfold X; nia).
  assert (Hs0 : s0 * B <= X < (s0 + 1) * B).
  { unfold s0. pose proof (Z.div_mod X B ltac:(lia)). pose proof (Z.mod_pos_bound X B HB). nia. }
  destruct (Z.le_gt_cases s s0) as [Hle|Hgt].
  - assert (s * B <= s0 * B) by nia.
    rewrite (in_lohi_mono_lo incl (lo * A) (hi * A) (s * B) (s0 * B) Es) in E0; [discriminate | lia | lia].
  - assert ((s0 + 1) * B <= s * B) by nia.
    rewrite (in_lohi_mono_hi incl (lo * A) (hi * A) (s * B) ((s0 + 1) * B) Es) in E1; [discriminate | lia | lia].
Qed.

(* ---------- the search: what it returns is in the interval, nothing above it is ---------- *)
Lemma shortest_from_sound : forall fuel m e p0 s p,
  shortest_from fuel m e p0 = Some (s, p) -> in_interval m e s p = true.
Proof.
  induction fuel as [|f IH]; intros m e p0 s p; cbn [shortest_from];
    destruct (cand m e p0) eqn:E; intro H; try discriminate.
  - inversion H; subst. apply cand_sound; assumption.
  - inversion H; subst. apply cand_sound; assumption.
  - eapply IH; eassumption.
Qed.

Lemma shortest_from_maximal : forall fuel m e p0 s p, 0 < m ->
  shortest_from fuel m e p0 = Some (s, p) ->
  p <= p0 /\ forall p', p < p' <= p0 -> forall s', in_interval m e s' p' = false.
Proof.
  induction fuel as [|f IH]; intros m e p0 s p Hm; cbn [shortest_from];
    destruct (cand m e p0) eqn:E; intro H; try discriminate.
  - inversion H; subst. split; [lia | intros; lia].
  - inversion H; subst. split; [lia | intros; lia].
  - destruct (IH m e (p0 - 1) s p Hm H) as [Hle Hall]. split; [lia|].
    intros p' Hp' s'. destruct (Z.eq_dec p' p0) as [->|Hne].
    + apply cand_complete; assumption.
    + apply Hall. lia.
Qed.

(* ---------- nothing at or above start_p ---------- *)
Lemma scale_step_up : forall q p,
  (scaleA q (p + 1) = scaleA q p /\ scaleB q (p + 1) = 10 * scaleB q p) \/
  (scaleA q p = 10 * scaleA q (p + 1) /\ scaleB q (p + 1) = scaleB q p).
Proof.
  intros q p. destruct (Z.ltb_spec 0 (p + 1)) as [H|H].
  - left. destruct (scale_step_pos q (p + 1) H) as [HA HB].
    replace (p + 1 - 1) with p in * by lia. split; [symmetry; exact HA | exact HB].
  - right. destruct (scale_step_nonpos q (p + 1) H) as [HA HB].
    replace (p + 1 - 1) with p in * by lia. split; [assumption | symmetry; assumption].
Qed.

Lemma above_step : forall q p hi, 0 < hi ->
  hi * scaleA q p < scaleB q p -> hi * scaleA q (p + 1) < scaleB q (p + 1).
Proof.
  intros q p hi Hhi H. pose proof (scaleA_pos q (p + 1)). pose proof (scaleB_pos q p).
  destruct (scale_step_up q p) as [[HA HB]|[HA HB]]; rewrite ?HA, ?HB in *; nia.
Qed.

Lemma above_all : forall q p0 hi (d : nat), 0 < hi ->
  hi * scaleA q p0 < scaleB q p0 -> hi * scaleA q (p0 + Z.of_nat d) < scaleB q (p0 + Z.of_nat d).
Proof.
  intros q p0 hi d Hhi H0. induction d as [|d IH].
  - replace (p0 + Z.of_nat 0) with p0 by lia. exact H0.
  - replace (p0 + Z.of_nat (S d)) with (p0 + Z.of_nat d + 1) by lia. apply above_step; assumption.
Qed.

Lemma pow_2_1025_lt : 2 ^ 1025 < 10 ^ 310.
Proof. apply Z.ltb_lt. vm_compute. reflexivity. Qed.

Lemma start_p_above : forall m e, valid_me m e ->
  (4 * m + 2) * scaleA (e - 2) (start_p m e) < scaleB (e - 2) (start_p m e).
Proof.
  intros m e [[Hm1 Hm2] [He1 He2]]. unfold start_p.
  match goal with |- context [if ?c then _ else _] => destruct c eqn:E end.
  - apply Z.ltb_lt in E. exact E.
  - unfold scaleA, scaleB. rewrite (Z.max_r (Z.opp 310) 0) by lia. rewrite (Z.max_l 310 0) by lia.
    rewrite (p10_spec 0), (p10_spec 310), !p2_spec by lia.
    assert (H1 : 2 ^ Z.max (e - 2) 0 <= 2 ^ 969) by (apply Z.pow_le_mono_r; lia).
    assert (H2 : 1 <= 2 ^ Z.max (- (e - 2)) 0) by (apply Z.pow_le_mono_r with (a := 2) (b := 0) (c := Z.max (- (e - 2)) 0); lia).
    assert (H3 : 0 < 2 ^ Z.max (e - 2) 0) by (apply Z.pow_pos_nonneg; lia).
    pose proof pow_2_1025_lt as H4.
    assert (H5 : 2 ^ 1025 = 2 ^ 56 * 2 ^ 969) by (rewrite <- Z.pow_add_r by lia; reflexivity).
    assert (H6 : 4 * m + 2 < 2 ^ 56) by lia.
    assert (H7 : (4 * m + 2) * 2 ^ Z.max (e - 2) 0 < 2 ^ 56 * 2 ^ 969) by nia.
    nia.
Qed.

Lemma hi_is : forall m e, snd (fst (interval m e)) = 4 * m + 2.
Proof. intros. unfold interval. reflexivity. Qed.

Lemma nothing_above_start : forall m e p' s', valid_me m e -> start_p m e <= p' -> 0 < s' ->
  in_interval m e s' p' = false.
Proof.
  intros m e p' s' Hv Hp Hs.
  pose proof (start_p_above m e Hv) as H0.
  assert (Hhi : 0 < 4 * m + 2) by (destruct Hv as [[? ?] _]; lia).
  pose proof (above_all (e - 2) (start_p m e) (4 * m + 2) (Z.to_nat (p' - start_p m e)) Hhi H0) as H.
  replace (start_p m e + Z.of_nat (Z.to_nat (p' - start_p m e))) with p' in H by lia.
  unfold in_interval, in_ab. pose proof (hi_is m e) as Hh.
  destruct (interval m e) as [[lo hi] incl]. cbn [fst snd] in Hh. subst hi.
  pose proof (scaleB_pos (e - 2) p').
  assert (scaleB (e - 2) p' <= s' * scaleB (e - 2) p') by nia.
  unfold in_lohi. destruct incl; apply andb_false_intro2; [apply Z.leb_gt | apply Z.ltb_ge]; lia.
Qed.

(* the p found is the largest exponent at which any positive multiple of 10^p rounds to the double *)
Theorem shortest_p_maximal : forall m e s p, valid_me m e -> shortest m e = Some (s, p) ->
  in_interval m e s p = true /\
  forall p' s', p < p' -> 0 < s' -> in_interval m e s' p' = false.
Proof.
  intros m e s p Hv H. unfold shortest in H. split.
  - eapply shortest_from_sound; eassumption.
  - assert (Hm : 0 < m) by (destruct Hv as [[? ?] _]; lia).
    destruct (shortest_from_maximal _ m e _ s p Hm H) as [Hle Hall].
    intros p' s' Hp Hs. destruct (Z.le_gt_cases p' (start_p m e)).
    + apply Hall. lia.
    + apply nothing_above_start; try assumption. lia.
Qed.

(* ---------- digit counts ---------- *)
Lemma ndigits_from_spec : forall fuel k s, 1 <= k -> 10 ^ (k - 1) <= s -> s < 10 ^ (k + Z.of_nat fuel) ->
  10 ^ (ndigits_from fuel k s - 1) <= s < 10 ^ (ndigits_from fuel k s).
Proof.
  induction fuel as [|f IH]; intros k s Hk Hlo Hhi; cbn [ndigits_from].
  - replace (k + Z.of_nat 0) with k in Hhi by lia. lia.
  - rewrite p10_spec by lia. destruct (Z.ltb_spec s (10 ^ k)); [lia|].
    apply IH; try lia.
    + replace (k + 1 - 1) with k by lia. assumption.
    + replace (k + 1 + Z.of_nat f) with (k + Z.of_nat (S f)) by lia. assumption.
Qed.

Lemma ndigits_spec : forall s, 1 <= s -> 10 ^ (ndigits s - 1) <= s < 10 ^ (ndigits s).
Proof.
  intros s Hs. unfold ndigits. apply ndigits_from_spec; try lia.
  pose proof (Z.log2_nonneg s) as Hnn. rewrite Z2Nat.id by lia.
  pose proof (Z.log2_spec s ltac:(lia)) as [_ H].
  assert (2 ^ (1 + Z.log2 s) <= 10 ^ (1 + Z.log2 s)) by (apply Z.pow_le_mono_l; lia).
  replace (Z.succ (Z.log2 s)) with (1 + Z.log2 s) in H by lia. lia.
Qed.

Lemma ndigits_ge1 : forall s, 1 <= s -> 1 <= ndigits s.
Proof.
  intros s Hs. destruct (Z.le_gt_cases 1 (ndigits s)) as [H|H]; [exact H|exfalso].
  pose proof (ndigits_spec s Hs) as [_ H2].
  assert (10 ^ ndigits s <= 10 ^ 0) by (destruct (Z.le_gt_cases 0 (ndigits s)); [apply Z.pow_le_mono_r; lia | rewrite Z.pow_neg_r by lia; lia]).
  change (10 ^ 0) with 1 in *. lia.
Qed.

(* ---------- a lower bound survives moving p upward ---------- *)
Lemma lower_up : forall q lo c (d : nat) p, 0 <= lo ->
  lo * scaleA q p < c * scaleB q p -> lo * scaleA q (p + Z.of_nat d) < c * scaleB q (p + Z.of_nat d).
Proof.
  intros q lo c d p Hlo. induction d as [|d IH]; intro H.
  - replace (p + Z.of_nat 0) with p by lia. exact H.
  - specialize (IH H). replace (p + Z.of_nat (S d)) with (p + Z.of_nat d + 1) by lia.
    set (p1 := p + Z.of_nat d) in *.
    pose proof (scaleA_pos q (p1 + 1)). pose proof (scaleB_pos q p1). pose proof (scaleA_pos q p1).
    destruct (scale_step_up q p1) as [[HA HB]|[HA HB]]; rewrite ?HA, ?HB in *; nia.
Qed.

Lemma in_lohi_scale10 : forall incl a b x, in_lohi incl (10 * a) (10 * b) (10 * x) = in_lohi incl a b x.
Proof.
  intros incl a b x. unfold in_lohi. destruct incl.
  - destruct (Z.leb_spec a x), (Z.leb_spec (10 * a) (10 * x)); try lia;
    destruct (Z.leb_spec x b), (Z.leb_spec (10 * x) (10 * b)); try lia; reflexivity.
  - destruct (Z.ltb_spec a x), (Z.ltb_spec (10 * a) (10 * x)); try lia;
    destruct (Z.ltb_spec x b), (Z.ltb_spec (10 * x) (10 * b)); try lia; reflexivity.
Qed.

(* a multiple 10c of 10^p in the interval is the multiple c of 10^(p+1) *)
Lemma in_interval_shift : forall m e c p, in_interval m e (10 * c) p = in_interval m e c (p + 1).
Proof.
  intros m e c p. unfold in_interval, in_ab. destruct (interval m e) as [[lo hi] incl].
  destruct (scale_step_up (e - 2) p) as [[HA HB]|[HA HB]]; rewrite ?HA, ?HB.
  - replace (10 * c * scaleB (e - 2) p) with (c * (10 * scaleB (e - 2) p)) by ring. reflexivity.
  - replace (lo * (10 * scaleA (e - 2) (p + 1))) with (10 * (lo * scaleA (e - 2) (p + 1))) by ring.
    replace (hi * (10 * scaleA (e - 2) (p + 1))) with (10 * (hi * scaleA (e - 2) (p + 1))) by ring.
    replace (10 * c * scaleB (e - 2) p) with (10 * (c * scaleB (e - 2) p)) by ring.
    apply in_lohi_scale10.
Qed.

(* ---------- no digit string with fewer digits rounds to the double ---------- *)
Theorem shortest_minimal_digits : forall m e s p, valid_me m e -> shortest m e = Some (s, p) ->
  0 < s /\
  forall s' p', 0 < s' -> in_interval m e s' p' = true -> ndigits s <= ndigits s'.
Proof.
  intros m e s p Hv Hsh.
  destruct (shortest_p_maximal m e s p Hv Hsh) as [Hin Hmax].
  assert (Hm : 0 < m) by (destruct Hv as [[? ?] _]; lia).
  pose proof (interval_bounds m e Hm) as Hb.
  assert (Hspos : 0 < s).
  { unfold in_interval, in_ab in Hin. destruct (interval m e) as [[lo hi] incl]. destruct Hb as (Hlo & _ & _).
    pose proof (scaleA_pos (e - 2) p). pose proof (scaleB_pos (e - 2) p).
    unfold in_lohi in Hin. destruct incl; apply andb_prop in Hin; destruct Hin as [H1 _];
      [apply Z.leb_le in H1 | apply Z.ltb_lt in H1]; nia. }
  split; [exact Hspos|].
  intros s' p' Hs' Hin'.
  destruct (Z.le_gt_cases (ndigits s) (ndigits s')) as [|Hlt]; [assumption | exfalso].
  assert (Hp' : p' <= p).
  { destruct (Z.le_gt_cases p' p); [assumption|]. rewrite (Hmax p' s') in Hin' by lia. discriminate. }
  pose proof (ndigits_spec s ltac:(lia)) as [Hk1 Hk2].
  pose proof (ndigits_spec s' ltac:(lia)) as [Hk1' Hk2'].
  pose proof (ndigits_ge1 s' ltac:(lia)) as Hge.
  set (k := ndigits s) in *. set (k' := ndigits s') in *.
  assert (Hc : 10 ^ k' <= 10 ^ (k - 1)) by (apply Z.pow_le_mono_r; lia).
  assert (Hcc : 10 ^ (k - 1) = 10 * 10 ^ (k - 2)).
  { replace (k - 1) with (k - 2 + 1) by lia. rewrite Z.pow_add_r by lia. lia. }
  assert (Hc'pos : 0 < 10 ^ (k - 2)) by (apply Z.pow_pos_nonneg; lia).
  (* 10^(k-1) as a multiple of 10^p lies in the interval *)
  assert (Hmid : in_interval m e (10 ^ (k - 1)) p = true).
  { unfold in_interval, in_ab in *. destruct (interval m e) as [[lo hi] incl]. destruct Hb as (Hlo & _ & _).
    pose proof (scaleB_pos (e - 2) p') as HB'. pose proof (scaleB_pos (e - 2) p) as HB.
    assert (Hlow' : lo * scaleA (e - 2) p' < 10 ^ (k - 1) * scaleB (e - 2) p').
    { unfold in_lohi in Hin'. destruct incl; apply andb_prop in Hin'; destruct Hin' as [H1 _];
        [apply Z.leb_le in H1 | apply Z.ltb_lt in H1]; nia. }
    pose proof (lower_up (e - 2) lo (10 ^ (k - 1)) (Z.to_nat (p - p')) p' ltac:(lia) Hlow') as Hlow.
    replace (p' + Z.of_nat (Z.to_nat (p - p'))) with p in Hlow by lia.
    assert (Hup : 10 ^ (k - 1) * scaleB (e - 2) p <= s * scaleB (e - 2) p) by nia.
    unfold in_lohi in *. destruct incl; apply andb_prop in Hin; destruct Hin as [_ H2];
      apply andb_true_intro; split;
      try apply Z.leb_le; try apply Z.ltb_lt; try apply Z.leb_le in H2; try apply Z.ltb_lt in H2; lia. }
  rewrite Hcc, in_interval_shift in Hmid.
  rewrite (Hmax (p + 1) (10 ^ (k - 2))) in Hmid by lia. discriminate.
Qed.

(* ---------- radix digits read back to the number (toString(radix) / parseInt inverse) ---------- *)
Lemma digit_val_char : forall d, 0 <= d < 36 -> digit_val (digit_char d) = d.
Proof.
  intros d H. unfold digit_val, digit_char.
  destruct (Z.ltb_spec d 10).
  - destruct (Z.leb_spec 48 (48 + d)), (Z.leb_spec (48 + d) 57); cbn [andb]; lia.
  - destruct (Z.leb_spec 48 (87 + d)), (Z.leb_spec (87 + d) 57); cbn [andb]; try lia;
    destruct (Z.leb_spec 97 (87 + d)), (Z.leb_spec (87 + d) 122); cbn [andb]; lia.
Qed.

Definition read_chars (r : Z) (l : list Z) (a : Z) : Z := fold_left (fun acc c => acc * r + digit_val c) l a.

Lemma radix_digits_fuel_reads : forall fuel r n acc, 2 <= r <= 36 -> 0 <= n < 2 ^ Z.of_nat fuel ->
  read_chars r (radix_digits_fuel fuel r n acc) 0 = read_chars r acc n.
Proof.
  induction fuel as [|f IH]; intros r n acc Hr Hn.
  - cbn [radix_digits_fuel]. change (2 ^ Z.of_nat 0) with 1 in Hn. replace n with 0 by lia. reflexivity.
  - cbn [radix_digits_fuel]. destruct (Z.ltb_spec n r).
    + unfold read_chars. cbn [fold_left]. rewrite digit_val_char by lia. reflexivity.
    + rewrite IH; try assumption.
      * unfold read_chars. cbn [fold_left]. rewrite digit_val_char.
        -- f_equal. pose proof (Z.div_mod n r ltac:(lia)). lia.
        -- pose proof (Z.mod_pos_bound n r ltac:(lia)). lia.
      * rewrite Nat2Z.inj_succ, Z.pow_succ_r in Hn by lia.
        split; [apply Z.div_pos; lia|].
        apply Z.div_lt_upper_bound; [lia|]. nia.
Qed.

Lemma read_chars_values : forall r l a,
  fold_left (fun acc d => acc * r + d) (map digit_val l) a = read_chars r l a.
Proof. intros r l. induction l as [|c l IH]; intro a; cbn; [reflexivity | apply IH]. Qed.

Theorem radix_digits_roundtrip : forall r n, 2 <= r <= 36 -> 0 <= n ->
  radix_value r (map digit_val (radix_digits r n)) = n.
Proof.
  intros r n Hr Hn. unfold radix_value, radix_digits. rewrite read_chars_values.
  rewrite radix_digits_fuel_reads; try assumption; [reflexivity|].
  split; [assumption|]. rewrite Nat2Z.inj_succ.
  destruct (Z.eq_dec n 0) as [->|Hne]; [cbn; lia|].
  pose proof (Z.log2_nonneg n). rewrite Z2Nat.id by lia.
  apply Z.log2_spec. lia.
Qed.

(* every character printed is a digit of the radix, so scanning stops only at the end *)
Lemma digit_char_below : forall r d, 2 <= r <= 36 -> 0 <= d < r -> digit_val (digit_char d) <? r = true.
Proof. intros. rewrite digit_val_char by lia. apply Z.ltb_lt. lia. Qed.

Lemma scan_radix_all : forall r l, Forall (fun c => digit_val c <? r = true) l ->
  scan_radix r l = (map digit_val l, []).
Proof.
  intros r l H. induction H as [|c l Hc Hl IH]; cbn [scan_radix map]; [reflexivity|].
  rewrite Hc, IH. reflexivity.
Qed.

Lemma radix_digits_fuel_valid : forall fuel r n acc, 2 <= r <= 36 -> 0 <= n ->
  Forall (fun c => digit_val c <? r = true) acc ->
  Forall (fun c => digit_val c <? r = true) (radix_digits_fuel fuel r n acc).
Proof.
  induction fuel as [|f IH]; intros r n acc Hr Hn Hacc; cbn [radix_digits_fuel]; [assumption|].
  destruct (Z.ltb_spec n r).
  - constructor; [apply digit_char_below; lia | assumption].
  - apply IH; try assumption; [apply Z.div_pos; lia|].
    constructor; [|assumption]. apply digit_char_below; [lia|]. apply Z.mod_pos_bound. lia.
Qed.

(* the text ES5 15.7.4.2 prints for an integer n >= 0 in radix r is read back by the
   digit scan of 15.1.2.2 as exactly n, for every radix *)
Theorem print_scan_roundtrip : forall r n, 2 <= r <= 36 -> 0 <= n ->
  let '(ds, rest) := scan_radix r (radix_digits r n) in rest = [] /\ radix_value r ds = n.
Proof.
  intros r n Hr Hn. rewrite scan_radix_all.
  - split; [reflexivity | apply radix_digits_roundtrip; assumption].
  - unfold radix_digits. apply radix_digits_fuel_valid; try assumption. constructor.
Qed.

(* ---------- the search always succeeds: every positive finite double has its digits ---------- *)
Lemma cand_exact : forall m e p, 0 < m ->
  (4 * m * scaleA (e - 2) p) mod (scaleB (e - 2) p) = 0 -> cand m e p <> None.
Proof.
  intros m e p Hm Hdiv. unfold cand, cand_ab, choose.
  set (A := scaleA (e - 2) p) in *. set (B := scaleB (e - 2) p) in *.
  assert (HA : 0 < A) by apply scaleA_pos. assert (HB : 0 < B) by apply scaleB_pos.
  assert (Hin : in_ab m e A B (4 * m * A / B) = true).
  { unfold in_ab. pose proof (interval_bounds m e Hm) as Hb.
    destruct (interval m e) as [[lo hi] incl]. destruct Hb as (Hlo & Hlo4 & Hhi4).
    assert (HX : 4 * m * A / B * B = 4 * m * A).
    { pose proof (Z.div_mod (4 * m * A) B ltac:(lia)). lia. }
    rewrite HX. unfold in_lohi.
    destruct incl; apply andb_true_intro; split; try apply Z.leb_le; try apply Z.ltb_lt; nia. }
  rewrite Hin. destruct (in_ab m e A B (4 * m * A / B + 1));
    [repeat match goal with |- context [if ?c then _ else _] => destruct c end|]; discriminate.
Qed.

Lemma cand_at_bottom : forall m e, 0 < m -> cand m e (Z.min (e - 2) 0) <> None.
Proof.
  intros m e Hm. apply cand_exact; [assumption|].
  unfold scaleA, scaleB. destruct (Z.le_gt_cases 0 (e - 2)) as [Hq|Hq].
  - replace (Z.min (e - 2) 0) with 0 by lia. rewrite (Z.max_l 0 0) by lia.
    replace (Z.max (- (e - 2)) 0) with 0 by lia.
    rewrite (p10_spec 0), (p2_spec 0) by lia. change (10 ^ 0 * 2 ^ 0) with 1. apply Z.mod_1_r.
  - replace (Z.min (e - 2) 0) with (e - 2) by lia.
    replace (Z.max (e - 2) 0) with 0 by lia. replace (Z.max (- (e - 2)) 0) with (- (e - 2)) by lia.
    rewrite p10_spec, !p2_spec, (p10_spec 0) by lia.
    set (n := - (e - 2)). change (10 ^ 0) with 1. change (2 ^ 0) with 1.
    replace (10 ^ n) with (5 ^ n * 2 ^ n) by (rewrite <- Z.pow_mul_l; reflexivity).
    replace (4 * m * (1 * (5 ^ n * 2 ^ n))) with (4 * m * 5 ^ n * (1 * 2 ^ n)) by ring.
    apply Z.mod_mul. assert (0 < 2 ^ n) by (apply Z.pow_pos_nonneg; lia). lia.
Qed.

Lemma search_reaches : forall fuel m e p0,
  cand m e (p0 - Z.of_nat fuel) <> None -> shortest_from fuel m e p0 <> None.
Proof.
  induction fuel as [|f IH]; intros m e p0 H; cbn [shortest_from].
  - replace (p0 - Z.of_nat 0) with p0 in H by lia. destruct (cand m e p0); [discriminate | contradiction].
  - destruct (cand m e p0); [discriminate|]. apply IH.
    replace (p0 - 1 - Z.of_nat f) with (p0 - Z.of_nat (S f)) by lia. exact H.
Qed.

Ltac Zify.zify_post_hook ::= Z.div_mod_to_equations.
Lemma start_ge_bottom : forall m e, 0 < m -> Z.min (e - 2) 0 <= start_p m e.
Proof.
  intros m e Hm. unfold start_p. pose proof (Z.log2_nonneg m) as HL.
  match goal with |- context [if ?c then _ else _] => destruct c end; [|lia].
  generalize dependent (Z.log2 m). intros L HL. lia.
Qed.
Ltac Zify.zify_post_hook ::= idtac.

Theorem shortest_total : forall m e, valid_me m e -> exists s p, shortest m e = Some (s, p).
Proof.
  intros m e Hv. assert (Hm : 0 < m) by (destruct Hv as [[? ?] _]; lia).
  unfold shortest. pose proof (start_ge_bottom m e Hm) as Hge.
  pose proof (search_reaches (Z.to_nat (start_p m e - Z.min (e - 2) 0)) m e (start_p m e)) as H.
  replace (start_p m e - Z.of_nat (Z.to_nat (start_p m e - Z.min (e - 2) 0))) with (Z.min (e - 2) 0) in H by lia.
  specialize (H (cand_at_bottom m e Hm)).
  destruct (shortest_from _ m e (start_p m e)) as [[s p]|]; [eauto | contradiction].
Qed.

(* ---------- toFixed: Go's half-even rounding is the ES5 "larger n" rounding except on an exact tie ---------- *)
Definition fixed_num (m e f : Z) : Z := m * p2 (Z.max e 0) * p10 (Z.max f 0).
Definition fixed_den (e f : Z) : Z := p2 (Z.max (- e) 0) * p10 (Z.max (- f) 0).
(* m * 2^e * 10^f lies exactly half way between two integers *)
Definition decimal_tie (m e f : Z) : bool := 2 * (fixed_num m e f mod fixed_den e f) =? fixed_den e f.

Lemma fixed_den_pos : forall e f, 0 < fixed_den e f.
Proof. intros. unfold fixed_den. apply Z.mul_pos_pos; [apply p2_pos; lia | apply p10_pos]. Qed.

Lemma half_even_is_half_up : forall m e f, decimal_tie m e f = false ->
  round_half_even m e f = round_half_up m e f.
Proof.
  intros m e f Ht. unfold round_half_even, round_half_up, decimal_tie in *.
  fold (fixed_num m e f) in *. fold (fixed_den e f) in *.
  rewrite fast_divmul_eq, fast_div_eq.
  set (num := fixed_num m e f) in *. set (den := fixed_den e f) in *.
  assert (Hd : 0 < den) by apply fixed_den_pos.
  pose proof (Z.div_mod num den ltac:(lia)) as Hdm. pose proof (Z.mod_pos_bound num den Hd) as Hr.
  apply Z.eqb_neq in Ht.
  set (q := num / den) in *. set (r := num mod den) in *.
  replace (num - q * den) with r by lia.
  destruct (Z.ltb_spec den (2 * r)) as [Hup|Hdn]; cbn [orb].
  - apply (Z.div_unique_pos (2 * num + den) (2 * den) (q + 1) (2 * r - den)); lia.
  - destruct (Z.eqb_spec (2 * r) den); [lia|]. cbn [andb].
    apply (Z.div_unique_pos (2 * num + den) (2 * den) q (2 * r + den)); lia.
Qed.

Lemma round_half_up_zero : forall e f, round_half_up 0 e f = 0.
Proof.
  intros e f. unfold round_half_up. rewrite fast_div_eq. fold (fixed_den e f).
  pose proof (fixed_den_pos e f). rewrite !Z.mul_0_l, Z.mul_0_r, Z.add_0_l.
  apply Z.div_small. lia.
Qed.

(* below 10^21 and away from exact decimal ties otto's toFixed is ES5's, for every double (-0
   included, since the repair) and every digit count (the RangeError test included) *)
Theorem toFixed_partial : forall bits f neg m e,
  decode bits = DFin neg m e -> le_pow10 21 m e = false ->
  decimal_tie m e f = false -> m_to_fixed bits f = to_fixed bits f.
Proof.
  intros bits f neg m e Hd Hsmall Ht. unfold m_to_fixed, to_fixed.
  rewrite orb_comm. destruct ((f <? 0) || (20 <? f)); [reflexivity|].
  rewrite Hd, Hsmall. unfold go_format_f. f_equal.
  destruct (Z.eqb_spec m 0) as [->|Hm].
  - rewrite round_half_up_zero. reflexivity.
  - rewrite half_even_is_half_up by assumption. reflexivity.
Qed.

(* NaN and the infinities: toFixed / toExponential / toPrecision answer before any range test, as ES5 does *)
Theorem nonfinite_formats : forall bits, (forall neg m e, decode bits <> DFin neg m e) ->
  (forall f, m_to_exponential bits f = to_exponential bits f) /\
  (forall p, m_to_precision bits p = to_precision bits p) /\
  (forall f, m_to_fixed bits f = to_fixed bits f).
Proof.
  intros bits H. unfold m_to_exponential, to_exponential, m_to_precision, to_precision, m_to_fixed, to_fixed.
  destruct (decode bits) as [|neg|neg m e]; [| |exfalso; eapply H; reflexivity];
    repeat split; intros; try reflexivity; rewrite orb_comm; reflexivity.
Qed.

(* ---------- among the multiples of 10^p that round to the double, the one chosen is closest to it ---------- *)
Theorem cand_closest : forall m e p s, 0 < m -> cand m e p = Some s ->
  forall s', in_interval m e s' p = true ->
  Z.abs (s * scaleB (e - 2) p - 4 * m * scaleA (e - 2) p) <= Z.abs (s' * scaleB (e - 2) p - 4 * m * scaleA (e - 2) p).
Proof.
  intros m e p s Hm Hc s' Hs'. unfold cand, cand_ab, in_interval, choose in *.
  set (A := scaleA (e - 2) p) in *. set (B := scaleB (e - 2) p) in *.
  assert (HA : 0 < A) by apply scaleA_pos. assert (HB : 0 < B) by apply scaleB_pos.
  unfold in_ab in *. pose proof (interval_bounds m e Hm) as Hb.
  destruct (interval m e) as [[lo hi] incl]. destruct Hb as (Hlo & Hlo4 & Hhi4).
  assert (HloX : lo * A < 4 * m * A) by nia.
  assert (HXhi : 4 * m * A < hi * A) by nia.
  set (X := 4 * m * A) in *.
  pose proof (Z.div_mod X B ltac:(lia)) as Hdm. pose proof (Z.mod_pos_bound X B HB) as Hr.
  set (s0 := X / B) in *. set (r := X mod B) in *.
  set (r2 := 2 * r) in *. assert (Hr2 : r2 = 2 * r) by reflexivity.
  clearbody X s0 r A B r2.
  assert (Hs0B : s0 * B = X - r) by lia.
  assert (Hs1B : (s0 + 1) * B = X - r + B) by lia.
  assert (Hbelow : forall t, t <= s0 -> X - t * B >= r).
  { intros t Ht. assert (t * B <= s0 * B) by (apply Z.mul_le_mono_nonneg_r; lia). lia. }
  assert (Habove : forall t, s0 + 1 <= t -> t * B - X >= B - r).
  { intros t Ht. assert ((s0 + 1) * B <= t * B) by (apply Z.mul_le_mono_nonneg_r; lia). lia. }
  destruct (Z.le_gt_cases s' s0) as [Hle|Hgt].
  - pose proof (Hbelow s' Hle).
    destruct (in_lohi incl (lo * A) (hi * A) (s0 * B)) eqn:E0.
    + destruct (in_lohi incl (lo * A) (hi * A) ((s0 + 1) * B)) eqn:E1; injection Hc as <-.
      * destruct (Z.ltb_spec r2 B); [lia|]. destruct (Z.ltb_spec B r2); [lia|].
        destruct (Z.even s0); lia.
      * lia.
    + exfalso. assert (s' * B <= s0 * B) by (apply Z.mul_le_mono_nonneg_r; lia).
      rewrite (in_lohi_mono_lo incl (lo * A) (hi * A) (s' * B) (s0 * B) Hs') in E0; [discriminate | lia | lia].
  - pose proof (Habove s' ltac:(lia)).
    destruct (in_lohi incl (lo * A) (hi * A) ((s0 + 1) * B)) eqn:E1.
    + destruct (in_lohi incl (lo * A) (hi * A) (s0 * B)) eqn:E0; injection Hc as <-.
      * destruct (Z.ltb_spec r2 B); [lia|]. destruct (Z.ltb_spec B r2); [lia|].
        destruct (Z.even s0); lia.
      * lia.
    + exfalso. assert ((s0 + 1) * B <= s' * B) by (apply Z.mul_le_mono_nonneg_r; lia).
      rewrite (in_lohi_mono_hi incl (lo * A) (hi * A) (s' * B) ((s0 + 1) * B) Hs') in E1; [discriminate | lia | lia].
Qed.

Lemma shortest_from_cand : forall fuel m e p0 s p, shortest_from fuel m e p0 = Some (s, p) -> cand m e p = Some s.
Proof.
  induction fuel as [|f IH]; intros m e p0 s p; cbn [shortest_from];
    destruct (cand m e p0) eqn:E; intro H; try discriminate.
  - inversion H; subst. assumption.
  - inversion H; subst. assumption.
  - eapply IH; eassumption.
Qed.

Theorem shortest_closest : forall m e s p, valid_me m e -> shortest m e = Some (s, p) ->
  forall s', in_interval m e s' p = true ->
  Z.abs (s * scaleB (e - 2) p - 4 * m * scaleA (e - 2) p) <= Z.abs (s' * scaleB (e - 2) p - 4 * m * scaleA (e - 2) p).
Proof.
  intros m e s p Hv H. assert (Hm : 0 < m) by (destruct Hv as [[? ?] _]; lia).
  apply cand_closest; [assumption|]. unfold shortest in H. eapply shortest_from_cand; eassumption.
Qed.

(* ---------- parseInt below 2^63: otto's int64 path (with -0 made explicitly) is sign * the Number value ---------- *)
Theorem parse_int_value_exact : forall neg base ds, radix_value base ds < 2 ^ 63 ->
  m_parse_int_value neg base ds = signed_bits neg (round_int (radix_value base ds)).
Proof.
  intros neg base ds H. unfold m_parse_int_value.
  destruct (Z.ltb_spec (radix_value base ds) (2 ^ 63)); [reflexivity | lia].
Qed.

(* otto's radix coercion int32(int64(math.Mod(x, 2^32))) is ToInt32 *)
Theorem to_int32_agrees : forall bits, m_to_int32 bits = to_int32 bits.
Proof. reflexivity. Qed.
