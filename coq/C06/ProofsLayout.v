(* C06 proofs, part 3: otto's rendering of shortest digits (Go's %f / %e layouts,
   the exponent rewrite, the exponent-form test) is the 9.8.1 layout whenever the
   test agrees with the digit position n. *)
From Coq Require Import ZArith List Bool Lia.
From Otto Require Import Common.Double C06.Spec C06.SpecText C06.Model C06.Proofs.
Import ListNotations.
Open Scope Z_scope.

Lemma seqZ_app : forall a b s, seqZ s (a + b) = seqZ s a ++ seqZ (s + Z.of_nat a) b.
Proof.
  induction a as [|a IH]; intros b s; cbn [seqZ plus app].
  - f_equal. lia.
  - f_equal. rewrite IH. f_equal. f_equal. lia.
Qed.

Lemma map_shift : forall (f : Z -> Z) a n s, map (fun i => f (a + i)) (seqZ s n) = map f (seqZ (a + s) n).
Proof.
  intros f a n. induction n as [|n IH]; intro s; cbn [seqZ map]; [reflexivity|].
  f_equal. rewrite IH. f_equal. f_equal. lia.
Qed.

Lemma nth_beyond : forall l s k, Z.of_nat (length l) <= s -> map (nthZ l) (seqZ s k) = zeros k.
Proof.
  intros l s k. revert s. induction k as [|k IH]; intros s H; cbn [seqZ map zeros]; [reflexivity|].
  f_equal.
  - unfold nthZ. destruct (Z.ltb_spec s 0); [reflexivity|]. apply nth_overflow. lia.
  - apply IH. lia.
Qed.

Lemma nth_negative : forall l k s, s + Z.of_nat k <= 0 -> map (nthZ l) (seqZ s k) = zeros k.
Proof.
  intros l k. induction k as [|k IH]; intros s H; cbn [seqZ map zeros]; [reflexivity|].
  f_equal.
  - unfold nthZ. destruct (Z.ltb_spec s 0); [reflexivity | lia].
  - apply IH. lia.
Qed.

Lemma nth_segment : forall ds pre post,
  map (nthZ (pre ++ ds ++ post)) (seqZ (Z.of_nat (length pre)) (length ds)) = ds.
Proof.
  induction ds as [|d ds IH]; intros pre post; cbn [length seqZ map]; [reflexivity|].
  f_equal.
  - unfold nthZ. destruct (Z.ltb_spec (Z.of_nat (length pre)) 0); [lia|].
    rewrite Nat2Z.id. cbn [app]. apply nth_middle.
  - specialize (IH (pre ++ [d]) post). rewrite <- app_assoc in IH. cbn [app] in IH.
    rewrite app_length in IH. cbn [length] in IH.
    replace (Z.of_nat (length pre + 1)) with (Z.of_nat (length pre) + 1) in IH by lia. exact IH.
Qed.

(* the integer part printed by fmtF when the point lies at or beyond the last digit *)
Lemma ip_padded : forall ds (n : Z), lenZ ds <= n ->
  map (nthZ ds) (seqZ 0 (Z.to_nat n)) = ds ++ zerosZ (n - lenZ ds).
Proof.
  intros ds n H. unfold lenZ, zerosZ in *.
  replace (Z.to_nat n) with (length ds + Z.to_nat (n - Z.of_nat (length ds)))%nat by lia.
  rewrite seqZ_app. rewrite map_app. f_equal.
  - pose proof (nth_segment ds [] []) as E. cbn [app length] in E. rewrite app_nil_r in E. exact E.
  - apply nth_beyond. lia.
Qed.

Lemma split_at : forall (ds : list Z) (n : Z), 0 <= n <= lenZ ds ->
  length (firstnZ n ds) = Z.to_nat n /\ ds = firstnZ n ds ++ skipnZ n ds /\
  length (skipnZ n ds) = Z.to_nat (lenZ ds - n).
Proof.
  intros ds n H. unfold firstnZ, skipnZ, lenZ in *. repeat split.
  - rewrite firstn_length. lia.
  - symmetry. apply firstn_skipn.
  - rewrite skipn_length. lia.
Qed.

(* integer part and fraction when the point lies inside the digits *)
Lemma ip_inside : forall ds n, 0 <= n <= lenZ ds ->
  map (nthZ ds) (seqZ 0 (Z.to_nat n)) = firstnZ n ds.
Proof.
  intros ds n H. destruct (split_at ds n H) as (HA & Hds & HB).
  rewrite Hds at 1. rewrite <- HA.
  pose proof (nth_segment (firstnZ n ds) [] (skipnZ n ds)) as E. cbn [app length] in E. exact E.
Qed.

Lemma frac_inside : forall ds n, 0 <= n <= lenZ ds ->
  map (fun i => nthZ ds (n + i)) (seqZ 0 (Z.to_nat (lenZ ds - n))) = skipnZ n ds.
Proof.
  intros ds n H. destruct (split_at ds n H) as (HA & Hds & HB).
  rewrite map_shift. rewrite Hds at 1. rewrite <- HB.
  replace (n + 0) with (Z.of_nat (length (firstnZ n ds))) by lia.
  pose proof (nth_segment (skipnZ n ds) (firstnZ n ds) []) as E. rewrite app_nil_r in E. exact E.
Qed.

(* fraction when the point lies before the first digit *)
Lemma frac_before : forall ds n, n <= 0 ->
  map (fun i => nthZ ds (n + i)) (seqZ 0 (Z.to_nat (lenZ ds - n))) = zerosZ (- n) ++ ds.
Proof.
  intros ds n H. unfold lenZ, zerosZ. rewrite map_shift.
  replace (Z.to_nat (Z.of_nat (length ds) - n)) with (Z.to_nat (- n) + length ds)%nat by lia.
  rewrite seqZ_app, map_app. f_equal.
  - apply nth_negative. lia.
  - replace (n + 0 + Z.of_nat (Z.to_nat (- n))) with (Z.of_nat (@length Z [])) by (cbn; lia).
    pose proof (nth_segment ds [] []) as E. cbn [app] in E. rewrite app_nil_r in E. exact E.
Qed.

(* what floatToString does with the shortest digits ds and point position n, given the outcome
   ef of its exponent-form test *)
Definition otto_render (ef neg : bool) (ds : list Z) (n : Z) : list Z :=
  if ef then
    let ex := n - 1 in
    if (ex <? -4) || (6 <=? ex) then go_fmtE_gen true neg ds n (lenZ ds - 1)
    else go_fmtF neg ds n (Z.max (lenZ ds - n) 0)
  else go_fmtF neg ds n (Z.max (lenZ ds - n) 0).

Lemma float_to_string_render : forall neg m e,
  float_to_string neg m e =
  match go_digits_shortest m e with
  | Some (ds, n) => Some (otto_render (exp_form m e) neg ds n)
  | None => None
  end.
Proof.
  intros. unfold float_to_string, otto_render. destruct (go_digits_shortest m e) as [[ds n]|]; [|reflexivity].
  destruct (exp_form m e); [|reflexivity]. cbv zeta. destruct ((n - 1 <? -4) || (6 <=? n - 1)); reflexivity.
Qed.

Lemma layout_exp : forall ds n, 1 <= lenZ ds -> 21 < n \/ n <= -6 ->
  layout ds n = match ds with
                | [] => []
                | [d] => d :: exp_part (n - 1)
                | d :: rest => d :: ch_dot :: rest ++ exp_part (n - 1)
                end.
Proof.
  intros ds n Hk Hn. unfold layout.
  destruct (Z.leb_spec (lenZ ds) n), (Z.leb_spec n 21), (Z.ltb_spec 0 n), (Z.ltb_spec (-6) n), (Z.leb_spec n 0);
    cbn [andb]; try lia; reflexivity.
Qed.

Lemma fmtE_is_exp_layout : forall neg ds n, ds <> [] -> n - 1 <> 0 ->
  go_fmtE_gen true neg ds n (lenZ ds - 1) =
  with_sign neg match ds with
                | [] => []
                | [d] => d :: exp_part (n - 1)
                | d :: rest => d :: ch_dot :: rest ++ exp_part (n - 1)
                end.
Proof.
  intros neg ds n Hne Hex. unfold go_fmtE_gen. f_equal. destruct ds as [|d r]; [contradiction|].
  rewrite (exp_text_agrees (n - 1)) by assumption.
  destruct r as [|d2 r]; [unfold lenZ; cbn; reflexivity|].
  unfold lenZ; cbn [length]. destruct (Z.ltb_spec 0 (Z.of_nat (S (S (length r))) - 1)); [|lia].
  replace (Z.to_nat (Z.of_nat (S (S (length r))) - 1)) with (length (d2 :: r)) by (cbn [length]; lia).
  pose proof (nth_segment (d2 :: r) [d] []) as E. rewrite app_nil_r in E. cbn [app] in E.
  change (Z.of_nat (length [d])) with 1 in E. rewrite E. cbn [app]. reflexivity.
Qed.

Theorem render_is_layout : forall neg ds n, ds <> [] ->
  otto_render ((21 <? n) || (n <=? -6)) neg ds n = with_sign neg (layout ds n).
Proof.
  intros neg ds n Hne. unfold otto_render.
  assert (Hk : 1 <= lenZ ds) by (destruct ds; [contradiction | unfold lenZ; cbn [length]; lia]).
  destruct (Z.ltb_spec 21 n) as [Hbig|Hbig]; [|destruct (Z.leb_spec n (-6)) as [Hsm|Hsm]]; cbn [orb].
  - (* n > 21: exponent form *)
    destruct (Z.ltb_spec (n - 1) (-4)); [lia|]. destruct (Z.leb_spec 6 (n - 1)); [|lia]. cbn [orb].
    rewrite layout_exp by (try assumption; lia). apply fmtE_is_exp_layout; [assumption | lia].
  - (* n <= -6: exponent form *)
    destruct (Z.ltb_spec (n - 1) (-4)); [|lia]. cbn [orb].
    rewrite layout_exp by (try assumption; lia). apply fmtE_is_exp_layout; [assumption | lia].
  - (* -6 < n <= 21: positional *)
    unfold go_fmtF, layout. set (k := lenZ ds) in *. f_equal.
    destruct (Z.leb_spec k n) as [Hkn|Hkn]; [destruct (Z.leb_spec n 21); [|lia]|]; cbn [andb].
    + destruct (Z.ltb_spec 0 n); [|lia]. replace (Z.max (k - n) 0) with 0 by lia.
      destruct (Z.ltb_spec 0 0); [lia|]. rewrite app_nil_r. apply ip_padded. fold k. lia.
    + destruct (Z.ltb_spec 0 n) as [Hn|Hn]; [destruct (Z.leb_spec n 21); [|lia]|]; cbn [andb].
      * replace (Z.max (k - n) 0) with (k - n) by lia. destruct (Z.ltb_spec 0 (k - n)); [|lia].
        rewrite ip_inside by (fold k; lia). f_equal. f_equal. apply frac_inside. fold k. lia.
      * destruct (Z.ltb_spec (-6) n); [|lia]. destruct (Z.leb_spec n 0); [|lia]. cbn [andb].
        replace (Z.max (k - n) 0) with (k - n) by lia. destruct (Z.ltb_spec 0 (k - n)); [|lia].
        cbn [app]. unfold ch_0, ch_dot. f_equal. f_equal. apply frac_before. lia.
Qed.

Lemma radix_digits_fuel_keeps : forall fuel r n acc, acc <> [] -> radix_digits_fuel fuel r n acc <> [].
Proof.
  induction fuel as [|f IH]; intros r n acc H; cbn [radix_digits_fuel]; [assumption|].
  destruct (n <? r); [discriminate | apply IH; discriminate].
Qed.
Lemma dec_digits_nonempty : forall s, dec_digits s <> [].
Proof.
  intro s. unfold dec_digits, radix_digits. cbn [radix_digits_fuel].
  destruct (s <? 10); [discriminate | apply radix_digits_fuel_keeps; discriminate].
Qed.

(* Value.string() of a float64 (floatToString with the repaired test abs >= 1e21 || abs < 1e-6, Go's
   %f / %e layouts, the exponent rewrite) is the 9.8.1 text, for every bit pattern, whenever that test
   agrees with the digit position n (n > 21 or n <= -6) *)
Theorem value_string_is_spec : forall bits,
  (forall neg m e s p, decode bits = DFin neg m e -> m <> 0 -> shortest_fast m e = Some (s, p) ->
     exp_form m e = let n := p + lenZ (dec_digits s) in (21 <? n) || (n <=? -6)) ->
  value_string bits = num_to_string bits.
Proof.
  intros bits Hthr. unfold value_string, num_to_string.
  destruct (decode bits) as [|neg|neg m e] eqn:Hd; try reflexivity.
  destruct (Z.eqb_spec m 0) as [|Hm]; [reflexivity|].
  rewrite float_to_string_render. unfold go_digits_shortest.
  destruct (shortest_fast m e) as [[s p]|] eqn:Hs; [|reflexivity].
  rewrite (Hthr neg m e s p eq_refl Hm Hs). cbv zeta.
  rewrite render_is_layout by apply dec_digits_nonempty. reflexivity.
Qed.
