(* correspondence cases for C06: what the harness observed on the real
   interpreter against Model (otto's glue around strconv) and Spec (ES5). *)
From Coq Require Import ZArith Bool List.
From Otto Require Import Common.Corr Common.Double C06.SpecText C06.Model.
From Otto Require Export C06.Spec.   (* the case files name RStr / RErr *)
Import ListNotations.
Open Scope Z_scope.

Inductive case :=
(* String(x): text, do all ToString routes agree, bits of Number(text); intlit = x was written as an integer literal *)
| CStr (bits : Z) (intlit : bool) (obs : res) (same : bool) (back : Z)
(* x.toString(r), r = None for undefined, else the integer passed *)
| CRadix (bits : Z) (r : option Z) (intlit : bool) (obs : res)
| CFixed (bits f : Z) (obs : res)
| CExp (bits : Z) (f : option Z) (obs : res)
| CPrec (bits p : Z) (obs : res)
(* Number(s): bits; do Number(s), +s, s*1, s-0 agree *)
| CNum (s : list Z) (obs : Z) (same : bool)
(* parseInt(s, radix): radix as double bits, None = omitted *)
| CPInt (s : list Z) (r : option Z) (obs : Z)
| CPFloat (s : list Z) (obs : Z)
(* parseInt(x, radix) (fn = 0) / parseFloat(x) (fn = 1) with a Number argument *)
| CPNum (fn bits : Z) (intlit : bool) (r : option Z) (obs : Z)
(* source text evaluated as a program: Some bits, None = any error *)
| CLit (s : list Z) (obs : option Z)
(* print then parse in one script: 0 parseInt(x.toString(a), a), 1 parseFloat(String(x)),
   2 Number(x.toExponential(a)), 3 Number(x.toFixed(a)), 4 Number(x.toPrecision(a)) *)
| CChain (kind bits a : Z) (obs : Z).

Definition res_eqb (a b : res) : bool :=
  match a, b with
  | RStr x, RStr y => zlist_eqb x y
  | RErr x, RErr y => x =? y
  | _, _ => false        (* RNone equals nothing: an undecided side never agrees silently *)
  end.
Definition oz_eqb := option_eqb Z.eqb.

(* ---- toString(radix) of a value with a fraction: ES5 fixes no digits, but the
   text must denote (in radix r) a number that rounds to x ---- *)
Definition radix_text_roundtrips (bits r : Z) (txt : list Z) : bool :=
  match decode bits with
  | DFin neg m e =>
      let '(tneg, t1) := match txt with 45 :: t => (true, t) | _ => (false, txt) end in
      let '(ids, r1) := scan_radix r t1 in
      let '(fds, r2) := match r1 with 46 :: t => scan_radix r t | _ => ([], r1) end in
      match ids, r2 with
      | _ :: _, [] =>
          let N := radix_value r (ids ++ fds) in
          Bool.eqb neg tneg && negb (N =? 0) &&
          (signed_bits neg (round_pos N (r ^ lenZ fds)) =? bits)
      | _, _ => false
      end
  | _ => false
  end.

(* the exponent of Go's %e text with a leading zero removed: d.ddde+0N -> d.ddde+N *)
Fixpoint unpad_exp (l : list Z) : list Z :=
  match l with
  | 101 :: sg :: 48 :: d :: [] => [101; sg; d]
  | c :: l' => c :: unpad_exp l'
  | [] => []
  end.
Definition res_unpad (r : res) : res := match r with RStr s => RStr (unpad_exp s) | _ => r end.

Definition le_pow10_bits (bits : Z) : bool :=   (* |x| >= 10^21 *)
  match decode bits with DFin _ m e => negb (m =? 0) && le_pow10 21 m e | _ => false end.
Definition is_inf (bits : Z) : bool := (bits =? pinf_bits) || (bits =? ninf_bits).

(* finding classes
   (1, 5, 7, 12 were repaired in otto: those numbers are no longer attached to any deviation)
   1  -
   2  toString(radix) of an integer beyond +-2^63
   3  toString(radix) drops the fraction
   4  toFixed rounds ties to even instead of up
   5  -
   6  toExponential writes the exponent with two digits
   7  -
   8  toExponential rounds ties to even
   9  toPrecision is Go's %g
   10 Number(string) accepts Go-only syntax
   11 Number("0x...") at or beyond 2^63 is NaN
   12 -
   13 parseInt beyond 2^63 accumulates in float64
   14 parseFloat deviations
   15 hex literal beyond 2^63 accumulates in float64
   16 legacy octal literal beyond 2^63 is read as decimal
   17 String(x) of a number written as an integer literal prints every digit (int64 payload) *)

(* 15.1.2.2 with the latitude of step 13 turned into a single expected value: where ES5 admits
   several results the model's is taken if it is admissible *)
Definition pint_spec (s : list Z) (rbits md : Z) : Z :=
  let exact := parse_int s rbits in
  match parse_int_parts s rbits with
  | None => exact
  | Some (neg, rad, ds) =>
      let v := radix_value rad ds in
      if parse_int_exact_required rad then
        if (rad =? 10) && (20 <? lenZ (drop_zeros ds)) then
          (* digits after the 20th may be read as 0: anything between the two roundings is admissible *)
          let lo := parse_int_20 s rbits in
          if (lo <=? md) && (md <=? exact) then md else exact
        else exact
      else if v <? 2 ^ 53 then exact else md     (* mathInt may be an approximation *)
  end.

Definition verdict (c : case) : Z * Z :=
  match c with
  | CStr bits intlit obs same back =>
      let md := opt_res (value_string_k intlit bits) in
      let sp := opt_res (num_to_string bits) in
      let back_of (r : res) := match r with RStr s => str_to_number s | _ => nan_bits end in
      let eqb a b := res_eqb (fst (fst a)) (fst (fst b)) && Bool.eqb (snd (fst a)) (snd (fst b)) && (snd a =? snd b) in
      match md, sp with
      | RNone, _ | _, RNone => declined
      | _, _ => judge eqb (obs, same, back) (md, true, back_of md)
                      (sp, true, if bits =? nzero_bits then 0 else bits) (if intlit then 17 else 1)
      end
  | CRadix bits r intlit obs =>
      let md := m_to_string_k intlit bits r in
      let rr := match r with None => 10 | Some r => r end in
      let sp := if (rr <? 2) || (36 <? rr) then RErr 3
                else if rr =? 10 then opt_res (num_to_string bits)
                else match to_radix_int bits rr with
                     | Some s => RStr s
                     | None => match obs with
                               | RStr t => if radix_text_roundtrips bits rr t then obs else RStr []
                               | _ => RStr []
                               end
                     end in
      let cls := if rr =? 10 then (if intlit then 17 else 1) else match to_radix_int bits rr with Some _ => 2 | None => 3 end in
      match md, sp with
      | RNone, _ | _, RNone => declined
      | _, _ => judge res_eqb obs md sp cls
      end
  | CFixed bits f obs =>
      let md := m_to_fixed bits f in
      let sp := to_fixed bits f in
      match md, sp with
      | RNone, _ | _, RNone => declined
      | _, _ => judge res_eqb obs md sp 4
      end
  | CExp bits f obs =>
      let md := m_to_exponential bits f in
      let sp := to_exponential bits f in
      let cls := if res_eqb (res_unpad md) sp then 6 else 8 in
      match md, sp with
      | RNone, _ | _, RNone => declined
      | _, _ => judge res_eqb obs md sp cls
      end
  | CPrec bits p obs =>
      let md := m_to_precision bits p in
      let sp := to_precision bits p in
      match md, sp with
      | RNone, _ | _, RNone => declined
      | _, _ => judge res_eqb obs md sp 9
      end
  | CNum s obs same =>
      let md := m_parse_number s in
      let sp := str_to_number s in
      let hexy := match trim_ws s with 48 :: x :: _ => is_x x && negb (existsb (Z.eqb 46) s) && negb (existsb (Z.eqb 95) s) | _ => false end in
      judge (fun a b => (fst a =? fst b) && Bool.eqb (snd a) (snd b)) (obs, same) (md, true) (sp, true)
            (if hexy then 11 else 10)
  | CPInt s r obs =>
      let rbits := match r with Some b => b | None => nan_bits end in
      let md := m_parse_int s rbits in
      judge Z.eqb obs md (pint_spec s rbits md) 13
  | CPNum fn bits intlit r obs =>
      (* the argument is a Number: 15.1.2.2 / 15.1.2.3 step 1 work on ToString(argument) *)
      let rbits := match r with Some b => b | None => nan_bits end in
      match value_string_k intlit bits, num_to_string bits with
      | Some mt, Some st =>
          if fn =? 0 then
            let md := m_parse_int mt rbits in judge Z.eqb obs md (pint_spec st rbits md) 13
          else judge Z.eqb obs (m_parse_float mt) (parse_float st) 14
      | _, _ => declined
      end
  | CPFloat s obs => judge Z.eqb obs (m_parse_float s) (parse_float s) 14
  | CChain kind bits a obs =>
      let via (f : list Z -> Z) (r : res) : option Z :=
        match r with RStr t => Some (f t) | RErr _ => Some nan_bits | RNone => None end in
      let abits := encode_int_or_nan a in
      let '(md, sp, cls) :=
        if kind =? 0 then (via (fun t => m_parse_int t abits) (m_to_string bits (Some a)),
                           match to_radix_int bits a with
                           | Some t => Some (parse_int t abits)
                           | None => match decode bits with DFin _ _ _ => None | _ => Some nan_bits end
                           end,
                           match to_radix_int bits a with Some _ => 2 | None => 3 end)
        else if kind =? 1 then (via m_parse_float (opt_res (value_string bits)),
                                via parse_float (opt_res (num_to_string bits)), 1)
        else if kind =? 2 then (via m_parse_number (m_to_exponential bits (Some a)),
                                via str_to_number (to_exponential bits (Some a)), 8)
        else if kind =? 3 then (via m_parse_number (m_to_fixed bits a),
                                via str_to_number (to_fixed bits a), 4)
        else (via m_parse_number (m_to_precision bits a), via str_to_number (to_precision bits a), 9) in
      match md, sp with
      | Some md, Some sp => judge Z.eqb obs md sp cls
      | Some md, None => judge Z.eqb obs md md cls   (* a fraction in another radix: no ES5 digits to compare with *)
      | _, _ => declined
      end
  | CLit s obs =>
      let cls := match s with 48 :: x :: _ => if is_x x then 15 else 16 | _ => 16 end in
      judge oz_eqb obs (m_literal s) (literal_value s) cls
  end.
