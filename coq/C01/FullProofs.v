(* The reference semantics does not depend on the fuel: an answer obtained
   with some fuel is the answer with any larger fuel. *)
From Coq Require Import List Bool ZArith Lia.
From Otto Require Import C01.Full.
Import ListNotations.

Definition le_R (r r' : R) : Prop := r = Fuel \/ r = r'.
Definition le_self (f g : task -> state -> R) : Prop := forall t s, le_R (f t s) (g t s).

Lemma le_R_refl r : le_R r r. Proof. now right. Qed.

Lemma eval_fields_mono (ev ev' : state -> expr -> R) :
  (forall s e, le_R (ev s e) (ev' s e)) ->
  forall fs s acc, le_R (eval_fields ev fs s acc) (eval_fields ev' fs s acc).
Proof.
  intros H fs. induction fs as [|[k e1] fs IH]; intros s acc; cbn [eval_fields]; [apply le_R_refl|].
  destruct (H s e1) as [E|E]; rewrite E; [now left|].
  destruct (ev' s e1) as [s1 [v|l|c]|s1 v| |]; cbn [bindv]; try apply le_R_refl. apply IH.
Qed.

Section Mono.
Variables f g : task -> state -> R.
Hypothesis Hfg : le_self f g.

Ltac call t s :=
  let E := fresh "E" in
  destruct (Hfg t s) as [E|E]; rewrite E;
  [ cbn [bindv bindvs bindc]; try (left; reflexivity)
  | let a := fresh "a" in destruct (g t s) as [? a|? ?| |]; [destruct a| | |] ].

Ltac step1 :=
  cbn [bindv bindvs bindc okv okc type_error];
  first
  [ match goal with |- le_R ?x ?x => right; reflexivity end
  | match goal with |- le_R Fuel _ => left; reflexivity end
  | match goal with |- le_R (f ?t ?s) (g ?t ?s) => apply Hfg end
  | match goal with |- le_R (eval_fields _ _ _ _) (eval_fields _ _ _ _) =>
        apply eval_fields_mono; intros; apply Hfg end
  | match goal with |- le_R (bindv (f ?t ?s) _) _ => call t s end
  | match goal with |- le_R (bindvs (f ?t ?s) _) _ => call t s end
  | match goal with |- le_R (bindc (f ?t ?s) _) _ => call t s end
  | match goal with |- le_R (match f ?t ?s with _ => _ end) _ => call t s end
  | match goal with |- le_R (match (match f ?t ?s with _ => _ end) with _ => _ end) _ => call t s end
  | match goal with |- le_R (match (match ?y with _ => _ end) with _ => _ end) _ =>
      lazymatch y with context [f] => fail | _ => destruct y end end
  | match goal with |- le_R (match ?x with _ => _ end) _ =>
      lazymatch x with context [f] => fail | _ => destruct x end end
  | match goal with |- le_R (if ?x then _ else _) _ =>
      lazymatch x with context [f] => fail | _ => destruct x end end ].

Lemma step_mono : le_self (step f) (step g).
Proof.
  intros t s. destruct t; unfold step.
  all: repeat step1.
Qed.
End Mono.

Theorem run_mono : forall n, le_self (run n) (run (S n)).
Proof.
  induction n as [|n IH]; intros t s; [now left|].
  change (run (S n)) with (step (run n)). change (run (S (S n))) with (step (run (S n))).
  apply step_mono. exact IH.
Qed.

Theorem run_stable : forall n m t s, (n <= m)%nat -> run n t s <> Fuel -> run m t s = run n t s.
Proof.
  intros n m t s Hle. induction Hle as [|m Hle IH]; intros Hr; [reflexivity|].
  specialize (IH Hr). destruct (run_mono m t s) as [E|E]; [congruence|]. congruence.
Qed.

(* so the whole-program answer is fuel-independent too *)
Theorem run_program_cv_stable : forall n m p,
  (n <= m)%nat -> snd (fst (run_program_cv n p)) <> FOutOfFuel -> run_program_cv m p = run_program_cv n p.
Proof.
  intros n m p Hle H. unfold run_program_cv in *.
  set (s0 := inst_vars _ _ _) in *.
  assert (Hn : run n (TList (mkctx 0%nat 0%nat (WRef 0)) p) s0 <> Fuel).
  { intros E. rewrite E in H. apply H. reflexivity. }
  rewrite (run_stable n m _ _ Hle Hn). reflexivity.
Qed.

Theorem run_program_stable : forall n m p,
  (n <= m)%nat -> snd (run_program n p) <> FOutOfFuel -> run_program m p = run_program n p.
Proof.
  intros n m p Hle H. unfold run_program in *. rewrite (run_program_cv_stable n m p Hle H). reflexivity.
Qed.
