(* MiniJS+: an executable ES5 reference semantics (SpecSem) for a larger
   fragment than Sem.v: var/function hoisting, closures, this, the arguments
   object, call/apply/bind, constructors and prototype chains, instanceof,
   typeof, object literals and property access, for-in, every loop form with
   labelled break/continue, switch with fall-through, try/catch/finally with
   the catch binding.  Written from ES5 10.4-10.6, 11.x, 12.x, 13.2,
   15.3.4.3-5; evaluated with fuel (None of the theorems or verdicts accept an
   OutOfFuel answer). *)
From Coq Require Import List Bool ZArith.
Import ListNotations.
Open Scope Z_scope.

Definition str := list Z.            (* UTF-16 units *)
Definition label := nat.             (* 0 = the empty label *)

Inductive val :=
| WUndef | WNull | WBool (b : bool) | WNum (n : Z) | WNaN | WStr (s : str)
| WRef (l : nat)                     (* object reference *)
| WErr (k : Z)                       (* native error object: 1 TypeError, 2 ReferenceError *)
| WBig.                              (* number outside |n| < 2^53: the model declines *)

Inductive binop := PAdd | PSub | PMul | PLt | PSeq | PSne | PGt | PLe | PGe.

Inductive expr :=
| XLit (v : val)
| XVar (x : str)
| XThis
| XAssign (x : str) (e : expr)
| XOpAssign (op : binop) (x : str) (e : expr)     (* x op= e : 11.13.2, GetValue(x) first *)
| XGet (o : expr) (p : str)
| XSet (o : expr) (p : str) (e : expr)
| XIdx (o : expr) (i : expr)                 (* o[i] *)
| XDelete (o : expr) (p : str)
| XBin (op : binop) (a b : expr)
| XNot (e : expr)
| XTypeof (e : expr)
| XCond (c a b : expr)
| XAnd (a b : expr)
| XOr (a b : expr)
| XPostInc (x : str)
| XComma (a b : expr)
| XObj (fields : list (str * expr))
| XFun (params : list str) (body : list stmt)   (* anonymous function expression *)
| XCall (f : expr) (args : list expr)         (* this = undefined -> global object *)
| XMCall (o : expr) (m : str) (args : list expr)   (* o.m(args), this = o *)
| XNew (f : expr) (args : list expr)
| XInstanceof (a b : expr)
| XIn (p : str) (o : expr)
| XLog (e : expr)                            (* host call *)
| XEval (direct : bool) (body : list stmt)   (* eval("<body>"): direct (10.4.2, the caller's context) or indirect (global code) *)
| XEvalVia (t : expr) (body : list stmt)     (* an indirect eval that is handed a this value: ge.call(t, "<body>"), ge.apply(t, ["<body>"]),
                                                ge.bind(t)("<body>"), holder.run("<body>") with ge = holder.run = eval.  t is evaluated; the
                                                eval code is global code all the same (15.1.2.1.1, 10.4.2 step 1: this = the global object) *)
with stmt :=
| JExpr (e : expr)
| JVar (x : str) (init : option expr)
| JFunDecl (name : str) (params : list str) (body : list stmt)
| JBlock (l : list stmt)
| JIf (e : expr) (a : stmt) (b : option stmt)
| JWhile (e : expr) (body : stmt)
| JDoWhile (body : stmt) (e : expr)
| JFor (init : option expr) (test : option expr) (upd : option expr) (body : stmt)
| JForIn (x : str) (o : expr) (body : stmt)
| JForInSet (t : expr) (p : str) (o : expr) (body : stmt)   (* for (t.p in o) body: the target is evaluated anew for every property (12.6.4 step 6.b / 7.b) *)
| JBreak (l : label)
| JContinue (l : label)
| JReturn (e : option expr)
| JLabelled (l : label) (s : stmt)
| JThrow (e : expr)
| JTry (b : list stmt) (c : option (str * list stmt)) (f : option (list stmt))
| JSwitch (e : expr) (cases : list (option expr * list stmt))   (* None = default *)
| JWith (o : expr) (body : stmt).

(* ---------- heap ---------- *)
Inductive okind :=
| KObj
| KFun (params : list str) (body : list stmt) (env : nat)
| KBound (target : nat) (bthis : val) (bargs : list val)
| KNative (id : Z)        (* 1 call, 2 apply, 3 bind *)
| KArgs (e : nat) (mapped : list str).   (* 10.6: index i < length mapped is an alias of parameter (nth i mapped) in environment e *)

Record obj := mkobj { o_props : list (str * val); o_proto : option nat; o_kind : okind }.
(* environment record: declarative (vars) or the global object environment *)
(* environment record: declarative (e_obj = None, bindings in e_vars) or an object
   environment whose binding object is e_obj (the global environment: object 0; a `with`) *)
Record env := mkenv { e_vars : list (str * val); e_outer : option nat; e_obj : option nat }.
Record state := mkst { objs : list obj; envs : list env; out : list val }.

Fixpoint str_eqb (a b : str) : bool :=
  match a, b with
  | [], [] => true
  | x :: a', y :: b' => (x =? y) && str_eqb a' b'
  | _, _ => false
  end.

Fixpoint alist_get {A} (k : str) (l : list (str * A)) : option A :=
  match l with
  | [] => None
  | (k', v) :: l' => if str_eqb k k' then Some v else alist_get k l'
  end.
Fixpoint alist_set {A} (k : str) (v : A) (l : list (str * A)) : list (str * A) :=
  match l with
  | [] => [(k, v)]
  | (k', w) :: l' => if str_eqb k k' then (k', v) :: l' else (k', w) :: alist_set k v l'
  end.
Fixpoint alist_del {A} (k : str) (l : list (str * A)) : list (str * A) :=
  match l with
  | [] => []
  | (k', w) :: l' => if str_eqb k k' then l' else (k', w) :: alist_del k l'
  end.

Fixpoint list_upd {A} (n : nat) (x : A) (l : list A) : list A :=
  match l, n with
  | [], _ => []
  | _ :: l', O => x :: l'
  | y :: l', S n' => y :: list_upd n' x l'
  end.

Definition get_obj (s : state) (l : nat) : option obj := nth_error (objs s) l.
Definition set_obj (s : state) (l : nat) (o : obj) : state := mkst (list_upd l o (objs s)) (envs s) (out s).
Definition new_obj (s : state) (o : obj) : state * nat := (mkst (objs s ++ [o]) (envs s) (out s), length (objs s)).
Definition get_env (s : state) (n : nat) : option env := nth_error (envs s) n.
Definition set_env (s : state) (n : nat) (e : env) : state := mkst (objs s) (list_upd n e (envs s)) (out s).
Definition new_env (s : state) (e : env) : state * nat := (mkst (objs s) (envs s ++ [e]) (out s), length (envs s)).
Definition emit (s : state) (v : val) : state := mkst (objs s) (envs s) (out s ++ [v]).

(* fixed heap layout: object 0 = global object, 1 = Object.prototype, 2 = Function.prototype,
   3 = call, 4 = apply, 5 = bind (own properties of Function.prototype) *)
Definition s_call : str := [99; 97; 108; 108].
Definition s_apply : str := [97; 112; 112; 108; 121].
Definition s_bind : str := [98; 105; 110; 100].
Definition s_prototype : str := [112; 114; 111; 116; 111; 116; 121; 112; 101].
Definition s_constructor : str := [99; 111; 110; 115; 116; 114; 117; 99; 116; 111; 114].
Definition s_length : str := [108; 101; 110; 103; 116; 104].
Definition s_arguments : str := [97; 114; 103; 117; 109; 101; 110; 116; 115].
Definition s_valueOf : str := [118; 97; 108; 117; 101; 79; 102].
Definition s_toString : str := [116; 111; 83; 116; 114; 105; 110; 103].

Definition init_state : state :=
  mkst [ mkobj [] (Some 1%nat) KObj;
         mkobj [] None KObj;
         mkobj [(s_call, WRef 3); (s_apply, WRef 4); (s_bind, WRef 5)] (Some 1%nat) KObj;
         mkobj [] (Some 2%nat) (KNative 1);
         mkobj [] (Some 2%nat) (KNative 2);
         mkobj [] (Some 2%nat) (KNative 3) ]
       [ mkenv [] None (Some 0%nat) ] [].

(* ---------- property lookup along the prototype chain (fuel = chain length bound) ---------- *)
Fixpoint get_prop (n : nat) (s : state) (l : nat) (p : str) : option val :=
  match n with
  | O => None
  | S n' =>
    match get_obj s l with
    | None => None
    | Some o =>
      match alist_get p (o_props o) with
      | Some v => Some v
      | None => match o_proto o with Some l' => get_prop n' s l' p | None => None end
      end
    end
  end.
Definition chain_fuel : nat := 64.
Definition getp (s : state) (l : nat) (p : str) : val :=
  match get_prop chain_fuel s l p with Some v => v | None => WUndef end.
Definition hasp (s : state) (l : nat) (p : str) : bool :=
  match get_prop chain_fuel s l p with Some _ => true | None => false end.
Definition putp (s : state) (l : nat) (p : str) (v : val) : state :=
  match get_obj s l with
  | Some o => set_obj s l (mkobj (alist_set p v (o_props o)) (o_proto o) (o_kind o))
  | None => s
  end.
Definition delp (s : state) (l : nat) (p : str) : state :=
  match get_obj s l with
  | Some o => set_obj s l (mkobj (alist_del p (o_props o)) (o_proto o) (o_kind o))
  | None => s
  end.

(* ---------- identifier resolution (10.2.2.1) ---------- *)
Fixpoint lookup_var (n : nat) (s : state) (e : nat) (x : str) : option val :=
  match n with
  | O => None
  | S n' =>
    match get_env s e with
    | None => None
    | Some r =>
      let here := match e_obj r with Some l => get_prop chain_fuel s l x | None => alist_get x (e_vars r) end in
      match here with
      | Some v => Some v
      | None => match e_outer r with Some e' => lookup_var n' s e' x | None => None end
      end
    end
  end.
(* PutValue on an identifier: innermost binding, else a new property of the global object *)
Fixpoint assign_var (n : nat) (s : state) (e : nat) (x : str) (v : val) : state :=
  match n with
  | O => s
  | S n' =>
    match get_env s e with
    | None => s
    | Some r =>
      match e_obj r with
      | Some l =>
          (* object environment: the binding object has the name, or it is the outermost (global) one *)
          match e_outer r with
          | Some e' => if hasp s l x then putp s l x v else assign_var n' s e' x v
          | None => putp s l x v
          end
      | None =>
          match alist_get x (e_vars r) with
          | Some _ => set_env s e (mkenv (alist_set x v (e_vars r)) (e_outer r) None)
          | None => match e_outer r with Some e' => assign_var n' s e' x v | None => putp s 0 x v end
          end
      end
    end
  end.
(* declaration binding: create in THIS environment if absent *)
Definition declare_var (s : state) (e : nat) (x : str) (v : option val) : state :=
  match get_env s e with
  | None => s
  | Some r =>
    match e_obj r with
    | Some l =>
      match v with
      | Some v => putp s l x v
      | None => if hasp s l x then s else putp s l x WUndef
      end
    | None =>
      match v, alist_get x (e_vars r) with
      | None, Some _ => s
      | None, None => set_env s e (mkenv (e_vars r ++ [(x, WUndef)]) (e_outer r) None)
      | Some v, _ => set_env s e (mkenv (alist_set x v (e_vars r)) (e_outer r) None)
      end
    end
  end.

(* identifier references (8.7, 10.2.2.1): the environment record found when the
   identifier is evaluated; PutValue later acts on THAT record even if the scope
   chain would resolve the name differently by then *)
Inductive ref := RObjRef (l : nat) | REnvRef (e : nat) | RUnresolvable.
Fixpoint resolve_ref (n : nat) (s : state) (e : nat) (x : str) : ref :=
  match n with
  | O => RUnresolvable
  | S n' =>
    match get_env s e with
    | None => RUnresolvable
    | Some r =>
      let here := match e_obj r with Some l => hasp s l x | None => match alist_get x (e_vars r) with Some _ => true | None => false end end in
      if here then match e_obj r with Some l => RObjRef l | None => REnvRef e end
      else match e_outer r with Some e' => resolve_ref n' s e' x | None => RUnresolvable end
    end
  end.
Definition get_ref (s : state) (r : ref) (x : str) : option val :=
  match r with
  | RObjRef l => Some (getp s l x)
  | REnvRef e => match get_env s e with Some rc => Some (match alist_get x (e_vars rc) with Some v => v | None => WUndef end) | None => None end
  | RUnresolvable => None
  end.
Definition put_ref (s : state) (r : ref) (x : str) (v : val) : state :=
  match r with
  | RObjRef l => putp s l x v
  | REnvRef e => match get_env s e with
                 | Some rc => set_env s e (mkenv (alist_set x v (e_vars rc)) (e_outer rc) None)
                 | None => s
                 end
  | RUnresolvable => putp s 0 x v      (* 8.7.2 step 3: a property of the global object *)
  end.

(* ---------- primitives ---------- *)
Definition truthy (v : val) : bool :=
  match v with
  | WUndef | WNull | WNaN => false
  | WBool b => b
  | WNum n => negb (n =? 0)
  | WStr s => match s with [] => false | _ => true end
  | _ => true
  end.
Definition tonum (v : val) : option Z :=
  match v with
  | WNum n => Some n
  | WBool true => Some 1
  | WBool false => Some 0
  | WNull => Some 0
  | _ => None
  end.
Definition isbig (v : val) : bool := match v with WBig => true | _ => false end.
Definition mknum (n : Z) : val := if Z.abs n <? 2 ^ 53 then WNum n else WBig.
Definition val_seq (a b : val) : bool :=
  match a, b with
  | WUndef, WUndef | WNull, WNull => true
  | WNum n, WNum m => n =? m
  | WBool x, WBool y => Bool.eqb x y
  | WStr x, WStr y => str_eqb x y
  | WRef x, WRef y => Nat.eqb x y
  | _, _ => false
  end.
Definition is_prim_num (v : val) : bool :=
  match v with WNum _ | WNaN | WBool _ | WNull | WUndef => true | _ => false end.
(* + on the modelled values: numbers/booleans/null/undefined only (strings and objects: declined) *)
Definition binval (o : binop) (a b : val) : option val :=
  if isbig a || isbig b then Some WBig else
  match o with
  | PSeq => Some (WBool (val_seq a b))
  | PSne => Some (WBool (negb (val_seq a b)))
  | _ =>
    if is_prim_num a && is_prim_num b then
      match o with
      | PAdd => Some (match tonum a, tonum b with Some n, Some m => mknum (n + m) | _, _ => WNaN end)
      | PSub => Some (match tonum a, tonum b with Some n, Some m => mknum (n - m) | _, _ => WNaN end)
      | PMul => Some (match tonum a, tonum b with Some n, Some m => mknum (n * m) | _, _ => WNaN end)
      (* 11.8.1-11.8.4 over 11.8.5: a NaN operand makes the abstract comparison undefined, and all four operators false *)
      | PGt => Some (match tonum a, tonum b with Some n, Some m => WBool (m <? n) | _, _ => WBool false end)
      | PLe => Some (match tonum a, tonum b with Some n, Some m => WBool (negb (m <? n)) | _, _ => WBool false end)
      | PGe => Some (match tonum a, tonum b with Some n, Some m => WBool (negb (n <? m)) | _, _ => WBool false end)
      | _ => Some (match tonum a, tonum b with Some n, Some m => WBool (n <? m) | _, _ => WBool false end)
      end
    else None
  end.

Definition s_undefined : str := [117; 110; 100; 101; 102; 105; 110; 101; 100].
Definition s_object : str := [111; 98; 106; 101; 99; 116].
Definition s_boolean : str := [98; 111; 111; 108; 101; 97; 110].
Definition s_number : str := [110; 117; 109; 98; 101; 114].
Definition s_string : str := [115; 116; 114; 105; 110; 103].
Definition s_function : str := [102; 117; 110; 99; 116; 105; 111; 110].
Definition is_callable (s : state) (v : val) : bool :=
  match v with
  | WRef l => match get_obj s l with
              | Some o => match o_kind o with KFun _ _ _ | KBound _ _ _ | KNative _ => true | _ => false end
              | None => false
              end
  | _ => false
  end.
Definition typeof (s : state) (v : val) : str :=
  match v with
  | WUndef => s_undefined
  | WNull => s_object
  | WBool _ => s_boolean
  | WNum _ | WNaN | WBig => s_number
  | WStr _ => s_string
  | WRef _ => if is_callable s v then s_function else s_object
  | WErr _ => s_object
  end.

(* decimal text of a small natural number, for arguments[i] / o[i] keys *)
Fixpoint digits_fuel (f : nat) (n : Z) (acc : str) : str :=
  match f with
  | O => acc
  | S f' => if n <? 10 then (48 + n) :: acc else digits_fuel f' (n / 10) ((48 + n mod 10) :: acc)
  end.
(* 9.8 ToString of a primitive (numbers of the model are integers below 2^53: plain decimal text) *)
Definition s_null : str := [110; 117; 108; 108].
Definition s_true : str := [116; 114; 117; 101].
Definition s_false : str := [102; 97; 108; 115; 101].
Definition s_NaN : str := [78; 97; 78].
Definition tostr (v : val) : option str :=
  match v with
  | WUndef => Some s_undefined
  | WNull => Some s_null
  | WBool true => Some s_true
  | WBool false => Some s_false
  | WNum n => Some (if n <? 0 then 45 :: digits_fuel 20 (- n) [] else digits_fuel 20 n [])
  | WNaN => Some s_NaN
  | WStr s => Some s
  | _ => None
  end.
Definition is_str (v : val) : bool := match v with WStr _ => true | _ => false end.
Definition key_of (v : val) : option str :=
  match v with
  | WStr s => Some s
  | WNum n => if (0 <=? n) && (n <? 1000000) then Some (digits_fuel 8 n []) else None
  | _ => None
  end.

(* [[Get]] including the arguments-object parameter map (10.6 [[Get]]/MakeArgGetter) *)
Fixpoint find_index (p : str) (i : Z) (names : list str) : option str :=
  match names with
  | [] => None
  | n :: names' => if str_eqb p (digits_fuel 8 i []) then Some n else find_index p (i + 1) names'
  end.
Fixpoint unmap (p : str) (i : Z) (names : list str) : list str :=
  match names with
  | [] => []
  | n :: names' => (if str_eqb p (digits_fuel 8 i []) then [] else n) :: unmap p (i + 1) names'
  end.
Definition getpx (s : state) (l : nat) (p : str) : val :=
  match get_obj s l with
  | Some o =>
      match o_kind o with
      | KArgs e names =>
          match find_index p 0 names with
          | Some x => match get_env s e with
                      | Some rc => match alist_get x (e_vars rc) with Some v => v | None => getp s l p end
                      | None => getp s l p
                      end
          | None => getp s l p
          end
      | _ => getp s l p
      end
  | None => WUndef
  end.

(* ---------- results ---------- *)
Inductive res (A : Type) :=
| Ok (s : state) (a : A)
| Exn (s : state) (v : val)
| Fuel
| Decline.                 (* outside the modelled fragment *)
Arguments Ok {A}. Arguments Exn {A}. Arguments Fuel {A}. Arguments Decline {A}.

(* completion records (8.9): type, value (None = empty), target *)
Inductive compl :=
| QNormal (v : option val) | QBreak (l : label) (v : option val) | QContinue (l : label) (v : option val)
| QReturn (v : val).

Definition cval (c : compl) : option val :=
  match c with QNormal v | QBreak _ v | QContinue _ v => v | QReturn _ => None end.
(* 12.1 StatementList step 5-6: an empty value is replaced by the value so far *)
Definition fill (c : compl) (V : option val) : compl :=
  match c with
  | QNormal None => QNormal V
  | QBreak l None => QBreak l V
  | QContinue l None => QContinue l V
  | _ => c
  end.
Definition updv (V : option val) (c : compl) : option val :=
  match cval c with Some v => Some v | None => V end.

(* execution context (10.3): lexical environment, variable environment, this *)
Record ctx := mkctx { c_env : nat; c_venv : nat; c_this : val }.

(* hoisting: var names and function declarations of a function body / program
   (not descending into nested functions) *)
Fixpoint hoist_stmt (s : stmt) : list (str * option (list str * list stmt)) :=
  let fix hl (l : list stmt) := match l with [] => [] | x :: xs => hoist_stmt x ++ hl xs end in
  let fix hc (l : list (option expr * list stmt)) := match l with [] => [] | (_, b) :: xs => hl b ++ hc xs end in
  match s with
  | JVar x _ => [(x, None)]
  | JFunDecl n ps b => [(n, Some (ps, b))]
  | JBlock l => hl l
  | JIf _ a b => hoist_stmt a ++ match b with Some b => hoist_stmt b | None => [] end
  | JWhile _ b | JDoWhile b _ | JFor _ _ _ b => hoist_stmt b
  | JForIn x _ b => (x, None) :: hoist_stmt b
  | JForInSet _ _ _ b => hoist_stmt b
  | JLabelled _ s => hoist_stmt s
  | JWith _ s => hoist_stmt s
  | JTry b c f => hl b ++ match c with Some (_, c) => hl c | None => [] end
                       ++ match f with Some f => hl f | None => [] end
  | JSwitch _ cs => hc cs
  | _ => []
  end.
Definition hoist (l : list stmt) : list (str * option (list str * list stmt)) := flat_map hoist_stmt l.

(* ---------- the interpreter: one step function over tasks, tied by fuel ---------- *)
Inductive task :=
| TExpr (c : ctx) (e : expr)
| TArgs (c : ctx) (l : list expr)
| TStmt (c : ctx) (labs : list label) (s : stmt)
| TList (c : ctx) (l : list stmt)
| TCall (f : val) (this : val) (args : list val)
| TConstruct (f : val) (args : list val)
| TLoop (c : ctx) (labs : list label) (kind : Z) (test upd : option expr) (body : stmt) (V : option val)
       (* kind 0: test, body, update (while/for); the do-while enters at the body (kind 1) *)
| TForIn (c : ctx) (labs : list label) (x : str) (tg : option (expr * str)) (keys : list str) (obj : nat) (body : stmt) (V : option val)
| TCases (c : ctx) (v : val) (cases : list (option expr * list stmt)) (rest : list (option expr * list stmt))
| TPrim (v : val)                      (* ToPrimitive(v, hint Number): 9.1 + 8.12.8 [[DefaultValue]] through the object's valueOf / toString *)
| TBin (op : binop) (a b : val).       (* the operator applied to two VALUES: conversions left operand first, then right (11.5, 11.6, 11.8.5 LeftFirst) *)

Inductive answer :=
| AVal (v : val) | AVals (l : list val) | ACompl (c : compl).

Definition R := res answer.

Definition bindv (r : R) (k : state -> val -> R) : R :=
  match r with
  | Ok s (AVal v) => k s v
  | Ok _ _ => Decline
  | Exn s v => Exn s v
  | Fuel => Fuel
  | Decline => Decline
  end.
Definition bindvs (r : R) (k : state -> list val -> R) : R :=
  match r with
  | Ok s (AVals l) => k s l
  | Ok _ _ => Decline
  | Exn s v => Exn s v
  | Fuel => Fuel
  | Decline => Decline
  end.
Definition bindc (r : R) (k : state -> compl -> R) : R :=
  match r with
  | Ok s (ACompl c) => k s c
  | Ok _ _ => Decline
  | Exn s v => Exn s v
  | Fuel => Fuel
  | Decline => Decline
  end.
Definition okv (s : state) (v : val) : R := Ok s (AVal v).
Definition okc (s : state) (c : compl) : R := Ok s (ACompl c).

Definition mem (l : label) (ls : list label) := existsb (Nat.eqb l) ls.

(* own enumerable keys in insertion order, then the prototype chain's, without
   repeating a name already seen (12.6.4) *)
Fixpoint forin_keys (n : nat) (s : state) (l : nat) (seen : list str) : list str :=
  match n with
  | O => []
  | S n' =>
    match get_obj s l with
    | None => []
    | Some o =>
      (* `constructor` (of a function's prototype object) is the only non-enumerable
         property that generated programs can reach by for-in *)
      let own := filter (fun k => negb (existsb (str_eqb k) seen) && negb (str_eqb k s_constructor)) (map fst (o_props o)) in
      own ++ match o_proto o with Some p => forin_keys n' s p (seen ++ own) | None => [] end
    end
  end.

Fixpoint bind_params (ps : list str) (args : list val) : list (str * val) :=
  match ps with
  | [] => []
  | p :: ps' => match args with
                | [] => alist_set p WUndef (bind_params ps' [])
                | a :: args' => alist_set p a (bind_params ps' args')
                end
  end.
(* later parameters of the same name win (10.5 step 4.d), so bind left to right with overwrite *)
Fixpoint bind_params_lr (ps : list str) (args : list val) (acc : list (str * val)) : list (str * val) :=
  match ps with
  | [] => acc
  | p :: ps' => match args with
                | [] => bind_params_lr ps' [] (alist_set p WUndef acc)
                | a :: args' => bind_params_lr ps' args' (alist_set p a acc)
                end
  end.

(* 10.6 step 11.c: the indices are visited from the last one down and a name is mapped once, so of several
   parameters with the same name only the LAST one (among those that received an argument) is aliased; the
   earlier ones are plain data properties ([] = not mapped) *)
Fixpoint map_names (ps : list str) : list str :=
  match ps with
  | [] => []
  | p :: ps' => (if existsb (str_eqb p) ps' then [] else p) :: map_names ps'
  end.

Fixpoint args_props (i : Z) (args : list val) : list (str * val) :=
  match args with
  | [] => []
  | a :: args' => (digits_fuel 8 i [], a) :: args_props (i + 1) args'
  end.

(* object literal fields, left to right; [ev] evaluates one field expression *)
Fixpoint eval_fields (ev : state -> expr -> R) (fs : list (str * expr)) (s0 : state) (acc : list (str * val)) : R :=
  match fs with
  | [] => let '(s1, l) := new_obj s0 (mkobj acc (Some 1%nat) KObj) in okv s1 (WRef l)
  | (k, e1) :: fs' => bindv (ev s0 e1) (fun s1 v => eval_fields ev fs' s1 (alist_set k v acc))
  end.

Section Step.
Variable self : task -> state -> R.

(* declaration binding instantiation for function code (10.5): parameters,
   function declarations, arguments object, vars *)
Fixpoint inst_decls (s : state) (e : nat) (ds : list (str * option (list str * list stmt))) : state :=
  match ds with
  | [] => s
  | (x, Some (ps, b)) :: ds' =>
      (* create the function object: closure over e, with a fresh prototype object *)
      let '(s1, pl) := new_obj s (mkobj [] (Some 1%nat) KObj) in
      let '(s2, fl) := new_obj s1 (mkobj [(s_prototype, WRef pl)] (Some 2%nat) (KFun ps b e)) in
      let s3 := putp s2 pl s_constructor (WRef fl) in
      inst_decls (declare_var s3 e x (Some (WRef fl))) e ds'
  | (x, None) :: ds' => inst_decls s e ds'
  end.
Fixpoint inst_vars (s : state) (e : nat) (ds : list (str * option (list str * list stmt))) : state :=
  match ds with
  | [] => s
  | (x, None) :: ds' => inst_vars (declare_var s e x None) e ds'
  | _ :: ds' => inst_vars s e ds'
  end.

Definition make_function (s : state) (ps : list str) (b : list stmt) (e : nat) : state * nat :=
  let '(s1, pl) := new_obj s (mkobj [] (Some 1%nat) KObj) in
  let '(s2, fl) := new_obj s1 (mkobj [(s_prototype, WRef pl)] (Some 2%nat) (KFun ps b e)) in
  (putp s2 pl s_constructor (WRef fl), fl).

Definition to_this (v : val) : val :=
  match v with WUndef | WNull => WRef 0 | _ => v end.    (* 10.4.3, non-strict *)

Definition type_error (s : state) : R := Exn s (WErr 1).

Definition step (t : task) (s : state) : R :=
  match t with
  | TExpr c e =>
    match e with
    | XLit v => okv s v
    | XVar x => match lookup_var chain_fuel s (c_env c) x with
                | Some v => okv s v
                | None => Exn s (WErr 2)
                end
    | XThis => okv s (c_this c)
    | XAssign x e1 =>
        let r := resolve_ref chain_fuel s (c_env c) x in
        bindv (self (TExpr c e1) s) (fun s1 v => okv (put_ref s1 r x v) v)
    | XOpAssign op x e1 =>
        let r := resolve_ref chain_fuel s (c_env c) x in
        match get_ref s r x with
        | None => Exn s (WErr 2)
        | Some old =>
            bindv (self (TExpr c e1) s) (fun s1 v =>
              bindv (self (TBin op old v) s1) (fun s2 nv => okv (put_ref s2 r x nv) nv))
        end
    | XGet o p =>
        bindv (self (TExpr c o) s) (fun s1 vo =>
          match vo with
          | WRef l => okv s1 (getp s1 l p)
          | WUndef | WNull => type_error s1
          | _ => Decline
          end)
    | XSet o p e1 =>
        bindv (self (TExpr c o) s) (fun s1 vo =>
          bindv (self (TExpr c e1) s1) (fun s2 v =>
            match vo with
            | WRef l => match get_obj s2 l with
                        | Some ob => match o_kind ob with
                                     | KObj => okv (putp s2 l p v) v
                                     | KFun _ _ _ => okv (putp s2 l p v) v
                                     | _ => Decline
                                     end
                        | None => Decline
                        end
            | WUndef | WNull => type_error s2
            | _ => Decline
            end))
    | XIdx o i =>
        bindv (self (TExpr c o) s) (fun s1 vo =>
          bindv (self (TExpr c i) s1) (fun s2 vi =>
            match vo, key_of vi with
            | WRef l, Some k => okv s2 (getpx s2 l k)
            | WUndef, _ | WNull, _ => type_error s2
            | _, _ => Decline
            end))
    | XDelete o p =>
        bindv (self (TExpr c o) s) (fun s1 vo =>
          match vo with
          | WRef l => match get_obj s1 l with
                      | Some ob => match o_kind ob with
                                   | KObj => okv (delp s1 l p) (WBool true)
                                   | KArgs e names =>
                                       (* 10.6 [[Delete]]: the property goes, and so does its parameter alias *)
                                       let names' := unmap p 0 names in
                                       okv (set_obj s1 l (mkobj (alist_del p (o_props ob)) (o_proto ob) (KArgs e names'))) (WBool true)
                                   | _ => Decline
                                   end
                      | None => Decline
                      end
          | WUndef | WNull => type_error s1
          | _ => Decline
          end)
    | XBin op a b =>
        bindv (self (TExpr c a) s) (fun s1 va =>
          bindv (self (TExpr c b) s1) (fun s2 vb => self (TBin op va vb) s2))
    | XNot e1 => bindv (self (TExpr c e1) s) (fun s1 v => okv s1 (WBool (negb (truthy v))))
    | XTypeof e1 =>
        match e1 with
        | XVar x => match lookup_var chain_fuel s (c_env c) x with
                    | Some v => okv s (WStr (typeof s v))
                    | None => okv s (WStr s_undefined)       (* 11.4.3: unresolvable reference *)
                    end
        | _ => bindv (self (TExpr c e1) s) (fun s1 v => okv s1 (WStr (typeof s1 v)))
        end
    | XCond cnd a b => bindv (self (TExpr c cnd) s) (fun s1 v => if truthy v then self (TExpr c a) s1 else self (TExpr c b) s1)
    | XAnd a b => bindv (self (TExpr c a) s) (fun s1 v => if truthy v then self (TExpr c b) s1 else okv s1 v)
    | XOr a b => bindv (self (TExpr c a) s) (fun s1 v => if truthy v then okv s1 v else self (TExpr c b) s1)
    | XPostInc x =>
        match lookup_var chain_fuel s (c_env c) x with
        | None => Exn s (WErr 2)
        | Some v =>
            if is_prim_num v then
              let old := match tonum v with Some n => WNum n | None => WNaN end in
              match binval PAdd old (WNum 1) with
              | Some nv => okv (assign_var chain_fuel s (c_env c) x nv) old
              | None => Decline
              end
            else if isbig v then okv s WBig else Decline
        end
    | XComma a b => bindv (self (TExpr c a) s) (fun s1 _ => self (TExpr c b) s1)
    | XObj fields => eval_fields (fun s0 e1 => self (TExpr c e1) s0) fields s []
    | XFun ps b => let '(s1, fl) := make_function s ps b (c_env c) in okv s1 (WRef fl)
    | XCall f args =>
        bindv (self (TExpr c f) s) (fun s1 vf =>
          bindvs (self (TArgs c args) s1) (fun s2 vs =>
            if is_callable s2 vf then self (TCall vf WUndef vs) s2 else type_error s2))
    | XMCall o m args =>
        bindv (self (TExpr c o) s) (fun s1 vo =>
          match vo with
          | WRef l =>
              let vf := getp s1 l m in
              bindvs (self (TArgs c args) s1) (fun s2 vs =>
                if is_callable s2 vf then self (TCall vf vo vs) s2 else type_error s2)
          | WUndef | WNull => type_error s1
          | _ => Decline
          end)
    | XNew f args =>
        bindv (self (TExpr c f) s) (fun s1 vf =>
          bindvs (self (TArgs c args) s1) (fun s2 vs =>
            match vf with
            | WRef l => match get_obj s2 l with
                        | Some ob => match o_kind ob with
                                     | KFun _ _ _ => self (TConstruct vf vs) s2
                                     | KObj | KArgs _ _ => type_error s2
                                     | _ => Decline
                                     end
                        | None => Decline
                        end
            | WBig => Decline
            | _ => type_error s2
            end))
    | XInstanceof a b =>
        bindv (self (TExpr c a) s) (fun s1 va =>
          bindv (self (TExpr c b) s1) (fun s2 vb =>
            match vb with
            | WRef fl =>
                match get_obj s2 fl with
                | Some fo =>
                    match o_kind fo with
                    | KFun _ _ _ =>
                        match va, getp s2 fl s_prototype with
                        | WRef l, WRef pl =>
                            (fix walk (n : nat) (cur : nat) : R :=
                               match n with
                               | O => Decline
                               | S n' => match get_obj s2 cur with
                                         | Some o => match o_proto o with
                                                     | Some p => if Nat.eqb p pl then okv s2 (WBool true) else walk n' p
                                                     | None => okv s2 (WBool false)
                                                     end
                                         | None => Decline
                                         end
                               end) chain_fuel l
                        | WRef _, _ => type_error s2
                        | _, _ => okv s2 (WBool false)
                        end
                    | KObj | KArgs _ _ => type_error s2
                    | _ => Decline
                    end
                | None => Decline
                end
            | WBig => Decline
            | _ => type_error s2
            end))
    | XIn p o =>
        bindv (self (TExpr c o) s) (fun s1 vo =>
          match vo with
          | WRef l => okv s1 (WBool (hasp s1 l p))
          | WBig => Decline
          | _ => type_error s1
          end)
    | XLog e1 =>
        (* the differential run records at most 4000 host calls: a longer log is outside what it can observe, and the
           evaluation stops there (declined) instead of running a long program to its end *)
        bindv (self (TExpr c e1) s) (fun s1 v => if 4000 <? Z.of_nat (length (out s1)) then Decline else okv (emit s1 v) WUndef)
    | XEval direct body =>
        (* 15.1.2.1 + 10.4.2 + 10.5 (eval code: declarations go to the variable environment, configurable) *)
        let c' := if direct then c else mkctx 0%nat 0%nat (WRef 0) in
        let ds := hoist body in
        let s1 := inst_vars (inst_decls s (c_venv c') ds) (c_venv c') ds in
        match self (TList c' body) s1 with
        | Ok s2 (ACompl (QNormal v)) => okv s2 (match v with Some v => v | None => WUndef end)
        | Ok _ _ => Decline          (* return/break/continue cannot leave eval code *)
        | r => r
        end
    | XEvalVia t body => bindv (self (TExpr c t) s) (fun s1 _ => self (TExpr c (XEval false body)) s1)
    end
  | TPrim v =>
    match v with
    | WRef l =>
        (* 8.12.8 with hint Number: valueOf first, then toString; a method that is not callable is skipped, a result
           that is not a primitive is discarded; neither gives a primitive: TypeError.  The built-in methods of
           Object.prototype / Function.prototype are not in the model: an absent valueOf behaves like the built-in
           one (it returns the object: skipped), an absent toString would produce a string: declined *)
        let try_ts (s0 : state) : R :=
          let ts := getp s0 l s_toString in
          if is_callable s0 ts then
            bindv (self (TCall ts v []) s0) (fun s2 r => match r with WRef _ | WErr _ => type_error s2 | _ => okv s2 r end)
          else match ts with WUndef => Decline | _ => type_error s0 end in
        let vo := getp s l s_valueOf in
        if is_callable s vo then
          bindv (self (TCall vo v []) s) (fun s1 r => match r with WRef _ | WErr _ => try_ts s1 | _ => okv s1 r end)
        else try_ts s
    | WErr _ => Decline
    | _ => okv s v
    end
  | TBin op a b =>
    match op with
    | PSeq | PSne => match binval op a b with Some v => okv s v | None => Decline end
    | _ =>
      bindv (self (TPrim a) s) (fun s1 pa =>
        bindv (self (TPrim b) s1) (fun s2 pb =>
          (* 11.6.1 steps 5-7: BOTH operands are made primitive first (no hint = hint Number: valueOf before toString),
             and only then a string operand turns + into the concatenation of the two ToString forms *)
          match op, is_str pa || is_str pb with
          | PAdd, true => match tostr pa, tostr pb with Some x, Some y => okv s2 (WStr (x ++ y)) | _, _ => Decline end
          | _, _ => match binval op pa pb with Some v => okv s2 v | None => Decline end
          end))
    end
  | TArgs c l =>
    match l with
    | [] => Ok s (AVals [])
    | e :: l' => bindv (self (TExpr c e) s) (fun s1 v =>
                   bindvs (self (TArgs c l') s1) (fun s2 vs => Ok s2 (AVals (v :: vs))))
    end
  | TCall f this args =>
    match f with
    | WRef l =>
      match get_obj s l with
      | Some fo =>
        match o_kind fo with
        | KFun ps body e =>
            (* 10.4.3 + 10.5 *)
            let '(s1, al) := new_obj s (mkobj (args_props 0 args ++ [(s_length, WNum (Z.of_nat (length args)))]) (Some 1%nat)
                                         (KArgs (length (envs s)) (map_names (firstn (length args) ps)))) in
            let '(s2, ne) := new_env s1 (mkenv (bind_params_lr ps args []) (Some e) None) in
            let ds := hoist body in
            let s3 := inst_decls s2 ne ds in
            let s4 := match alist_get s_arguments (match get_env s3 ne with Some r => e_vars r | None => [] end) with
                      | Some _ => s3
                      | None => declare_var s3 ne s_arguments (Some (WRef al))
                      end in
            let s5 := inst_vars s4 ne ds in
            (* 10.4.3 step 3: a primitive thisArg becomes ToObject(thisArg), a fresh wrapper for every call
               (modelled as a plain object: the generator does not reach the wrapper's prototype or value) *)
            let '(s5, th) := match this with
                             | WUndef | WNull | WRef _ => (s5, to_this this)
                             | _ => let '(sx, bl) := new_obj s5 (mkobj [] (Some 1%nat) KObj) in (sx, WRef bl)
                             end in
            match self (TList (mkctx ne ne th) body) s5 with
            | Ok s6 (ACompl (QReturn v)) => okv s6 v
            | Ok s6 (ACompl (QNormal _)) => okv s6 WUndef
            | Ok _ _ => Decline          (* break/continue cannot leave a function *)
            | r => r
            end
        | KBound target bthis bargs => self (TCall (WRef target) bthis (bargs ++ args)) s
        | KNative 1 => (* Function.prototype.call *)
            if is_callable s this then
              match args with
              | [] => self (TCall this WUndef []) s
              | t :: rest => self (TCall this t rest) s
              end
            else type_error s
        | KNative 2 => (* apply(thisArg, argArray) with an arguments object / undefined *)
            if is_callable s this then
              match args with
              | [] => self (TCall this WUndef []) s
              | [t] => self (TCall this t []) s
              | t :: WUndef :: _ | t :: WNull :: _ => self (TCall this t []) s
              | t :: WRef al :: _ =>
                  match getp s al s_length with
                  | WNum n =>
                      let vs := map (fun i => getpx s al (digits_fuel 8 (Z.of_nat i) [])) (seq 0 (Z.to_nat n)) in
                      self (TCall this t vs) s
                  | WUndef => self (TCall this t []) s
                  | _ => Decline
                  end
              | _ => Decline
              end
            else type_error s
        | KNative 3 => (* bind *)
            if is_callable s this then
              match this with
              | WRef tl =>
                  let '(bt, ba) := match args with [] => (WUndef, []) | t :: rest => (t, rest) end in
                  let '(s1, bl) := new_obj s (mkobj [] (Some 2%nat) (KBound tl bt ba)) in
                  okv s1 (WRef bl)
              | _ => Decline
              end
            else type_error s
        | _ => type_error s
        end
      | None => Decline
      end
    | _ => type_error s
    end
  | TConstruct f args =>
    match f with
    | WRef l =>
        let pr := match getp s l s_prototype with WRef pl => pl | _ => 1%nat end in
        let '(s1, nl) := new_obj s (mkobj [] (Some pr) KObj) in
        bindv (self (TCall f (WRef nl) args) s1) (fun s2 v =>
          match v with WRef _ => okv s2 v | _ => okv s2 (WRef nl) end)
    | _ => type_error s
    end
  | TList c l =>
    match l with
    | [] => okc s (QNormal None)
    | x :: xs => bindc (self (TStmt c [] x) s) (fun s1 cm =>
                   match cm with
                   | QNormal v => bindc (self (TList c xs) s1) (fun s2 cm2 => okc s2 (fill cm2 v))
                   | _ => okc s1 cm
                   end)
    end
  | TStmt c labs st =>
    match st with
    | JExpr e => bindv (self (TExpr c e) s) (fun s1 v => okc s1 (QNormal (Some v)))
    | JVar x None => okc s (QNormal None)
    | JVar x (Some e) =>
        let r := resolve_ref chain_fuel s (c_env c) x in
        bindv (self (TExpr c e) s) (fun s1 v => okc (put_ref s1 r x v) (QNormal None))
    | JFunDecl _ _ _ => okc s (QNormal None)
    | JBlock l => self (TList c l) s
    | JIf e a b =>
        bindv (self (TExpr c e) s) (fun s1 v =>
          if truthy v then self (TStmt c [] a) s1
          else match b with Some b => self (TStmt c [] b) s1 | None => okc s1 (QNormal None) end)
    | JWhile e body => self (TLoop c (0%nat :: labs) 0 (Some e) None body None) s
    | JDoWhile body e => self (TLoop c (0%nat :: labs) 1 (Some e) None body None) s
    | JFor init test upd body =>
        match init with
        | Some i => bindv (self (TExpr c i) s) (fun s1 _ => self (TLoop c (0%nat :: labs) 0 test upd body None) s1)
        | None => self (TLoop c (0%nat :: labs) 0 test upd body None) s
        end
    | JForIn x o body =>
        bindv (self (TExpr c o) s) (fun s1 vo =>
          match vo with
          | WUndef | WNull => okc s1 (QNormal None)
          | WRef l => self (TForIn c (0%nat :: labs) x None (forin_keys chain_fuel s1 l []) l body None) s1
          | _ => Decline
          end)
    | JForInSet t p o body =>
        bindv (self (TExpr c o) s) (fun s1 vo =>
          match vo with
          | WUndef | WNull => okc s1 (QNormal None)
          | WRef l => self (TForIn c (0%nat :: labs) [] (Some (t, p)) (forin_keys chain_fuel s1 l []) l body None) s1
          | _ => Decline
          end)
    | JBreak l => okc s (QBreak l None)
    | JContinue l => okc s (QContinue l None)
    | JReturn None => okc s (QReturn WUndef)
    | JReturn (Some e) => bindv (self (TExpr c e) s) (fun s1 v => okc s1 (QReturn v))
    | JLabelled l st1 =>
        bindc (self (TStmt c (l :: labs) st1) s) (fun s1 cm =>
          match cm with
          | QBreak l' v => if Nat.eqb l' l then okc s1 (QNormal v) else okc s1 cm
          | _ => okc s1 cm
          end)
    | JThrow e => bindv (self (TExpr c e) s) (fun s1 v => Exn s1 v)
    | JTry b cb fb =>
        let r1 := self (TList c b) s in
        let r2 := match r1, cb with
                  | Exn s1 v, Some (x, cl) =>
                      (* 12.14: a new declarative environment binding the exception *)
                      let '(s2, ne) := new_env s1 (mkenv [(x, v)] (Some (c_env c)) None) in
                      self (TList (mkctx ne (c_venv c) (c_this c)) cl) s2
                  | _, _ => r1
                  end in
        match fb with
        | None => r2
        | Some fl =>
            match r2 with
            | Ok s2 a => bindc (self (TList c fl) s2) (fun s3 cm => match cm with QNormal _ => Ok s3 a | _ => okc s3 cm end)
            | Exn s2 v => bindc (self (TList c fl) s2) (fun s3 cm => match cm with QNormal _ => Exn s3 v | _ => okc s3 cm end)
            | r => r
            end
        end
    | JWith o body =>
        (* 12.10: a new object environment over ToObject(o) for the body; restored on every exit *)
        bindv (self (TExpr c o) s) (fun s1 vo =>
          match vo with
          | WRef l =>
              let '(s2, ne) := new_env s1 (mkenv [] (Some (c_env c)) (Some l)) in
              self (TStmt (mkctx ne (c_venv c) (c_this c)) [] body) s2
          | WUndef | WNull => type_error s1
          | _ => Decline
          end)
    | JSwitch e cases =>
        bindv (self (TExpr c e) s) (fun s1 v =>
          bindc (self (TCases c v cases cases) s1) (fun s2 cm =>
            match cm with
            | QBreak l v => if mem l (0%nat :: labs) then okc s2 (QNormal v) else okc s2 cm
            | _ => okc s2 cm
            end))
    end
  | TLoop c labs kind test upd body V =>
    (* kind 0: evaluate the test first; kind 1: run the body first (do-while entry).
       V is the value of the last body execution that produced one (12.6.x) *)
    let after_body (s1 : state) (cm : compl) : R :=
      let V' := updv V cm in
      let continue_ (s2 : state) : R :=
        match upd with
        | Some u => bindv (self (TExpr c u) s2) (fun s3 _ => self (TLoop c labs 0 test upd body V') s3)
        | None => self (TLoop c labs 0 test upd body V') s2
        end in
      match cm with
      | QNormal _ => continue_ s1
      | QBreak l _ => if mem l labs then okc s1 (QNormal V') else okc s1 cm
      | QContinue l _ => if mem l labs then continue_ s1 else okc s1 cm
      | QReturn _ => okc s1 cm
      end in
    if kind =? 1 then bindc (self (TStmt c [] body) s) after_body
    else
      match test with
      | Some e => bindv (self (TExpr c e) s) (fun s1 v =>
                    if truthy v then bindc (self (TStmt c [] body) s1) after_body else okc s1 (QNormal V))
      | None => bindc (self (TStmt c [] body) s) after_body
      end
  | TForIn c labs x tg keys ol body V =>
    match keys with
    | [] => okc s (QNormal V)
    | k :: ks =>
        (* a property deleted before it is visited is not visited (12.6.4) *)
        if negb (hasp s ol k) then self (TForIn c labs x tg ks ol body V) s else
        let go (s1 : state) :=
          bindc (self (TStmt c [] body) s1) (fun s2 cm =>
            let V' := updv V cm in
            match cm with
            | QNormal _ => self (TForIn c labs x tg ks ol body V') s2
            | QBreak l _ => if mem l labs then okc s2 (QNormal V') else okc s2 cm
            | QContinue l _ => if mem l labs then self (TForIn c labs x tg ks ol body V') s2 else okc s2 cm
            | QReturn _ => okc s2 cm
            end) in
        match tg with
        | None => go (assign_var chain_fuel s (c_env c) x (WStr k))
        | Some (t, p) =>
            (* the left-hand side is evaluated for this property, then PutValue *)
            bindv (self (TExpr c t) s) (fun s1 vt =>
              match vt with
              | WRef l => match get_obj s1 l with
                          | Some ob => match o_kind ob with
                                       | KObj | KFun _ _ _ => go (putp s1 l p (WStr k))
                                       | _ => Decline
                                       end
                          | None => Decline
                          end
              | WUndef | WNull => type_error s1
              | _ => Decline
              end)
        end
    end
  | TCases c v all rest =>
    (* 12.11: search the clauses in order with ===; if none matches run from default *)
    let fix run_from (cl : list (option expr * list stmt)) : list stmt :=
        match cl with [] => [] | (_, b) :: cl' => b ++ run_from cl' end in
    let fix from_default (cl : list (option expr * list stmt)) : option (list stmt) :=
        match cl with
        | [] => None
        | (None, b) :: cl' => Some (b ++ run_from cl')
        | _ :: cl' => from_default cl'
        end in
    match rest with
    | [] => match from_default all with Some body => self (TList c body) s | None => okc s (QNormal None) end
    | (None, _) :: rest' => self (TCases c v all rest') s
    | (Some e, b) :: rest' =>
        bindv (self (TExpr c e) s) (fun s1 ve =>
          if val_seq v ve then self (TList c (b ++ run_from rest')) s1
          else self (TCases c v all rest') s1)
    end
  end.
End Step.

Fixpoint run (fuel : nat) (t : task) (s : state) : R :=
  match fuel with
  | O => Fuel
  | S n => step (run n) t s
  end.

(* ---------- whole programs (global code, 10.4.1 + 10.5) ---------- *)
Inductive outcome := FNormal | FThrew (v : val) | FOutOfFuel | FDeclined.

(* does global code (not descending into function bodies) contain a break or continue? *)
Fixpoint jumps_stmt (s : stmt) : bool :=
  let fix jl (l : list stmt) := match l with [] => false | x :: xs => jumps_stmt x || jl xs end in
  let fix jc (l : list (option expr * list stmt)) := match l with [] => false | (_, b) :: xs => jl b || jc xs end in
  match s with
  | JBreak _ | JContinue _ => true
  | JBlock l => jl l
  | JIf _ a b => jumps_stmt a || match b with Some b => jumps_stmt b | None => false end
  | JWhile _ b | JDoWhile b _ | JFor _ _ _ b | JForIn _ _ b | JForInSet _ _ _ b | JLabelled _ b | JWith _ b => jumps_stmt b
  | JTry b c f => jl b || match c with Some (_, c) => jl c | None => false end
                       || match f with Some f => jl f | None => false end
  | JSwitch _ cs => jc cs
  | _ => false
  end.
Definition has_jump_top (p : list stmt) : bool := existsb jumps_stmt p.

(* does global code (not descending into function bodies or eval text) contain a block, try or with statement? *)
Fixpoint blocky_stmt (s : stmt) : bool :=
  let fix jc (l : list (option expr * list stmt)) :=
    match l with [] => false | (_, b) :: xs => (fix jl (l : list stmt) := match l with [] => false | x :: xs => blocky_stmt x || jl xs end) b || jc xs end in
  match s with
  | JBlock _ | JTry _ _ _ | JWith _ _ => true
  | JIf _ a b => blocky_stmt a || match b with Some b => blocky_stmt b | None => false end
  | JWhile _ b | JDoWhile b _ | JFor _ _ _ b | JForIn _ _ b | JForInSet _ _ _ b | JLabelled _ b => blocky_stmt b
  | JSwitch _ cs => jc cs
  | _ => false
  end.
Definition has_block_top (p : list stmt) : bool := existsb blocky_stmt p.

(* log, outcome, completion value of the program (14: the value of its SourceElements; empty -> undefined) *)
Definition run_program_cv (fuel : nat) (p : list stmt) : list val * outcome * val :=
  let ds := hoist p in
  let s0 := inst_vars (inst_decls init_state 0%nat ds) 0%nat ds in
  match run fuel (TList (mkctx 0%nat 0%nat (WRef 0)) p) s0 with
  | Ok s (ACompl (QNormal v)) => (out s, FNormal, match v with Some v => v | None => WUndef end)
  | Ok s _ => (out s, FDeclined, WUndef)
  | Exn s v => (out s, FThrew v, WUndef)
  | Fuel => ([], FOutOfFuel, WUndef)
  | Decline => ([], FDeclined, WUndef)
  end.
Definition run_program (fuel : nat) (p : list stmt) : list val * outcome := fst (run_program_cv fuel p).
