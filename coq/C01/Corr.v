(* correspondence cases for C01 *)
From Coq Require Import List Bool ZArith.
From Otto Require Import Common.Corr.
From Otto Require Export C01.Full.
From Otto Require Export C01.Sem C01.Wf C01.Lang.
From Otto Require Import C01.Embed.
Import ListNotations.
Open Scope Z_scope.

Inductive case :=
| Case (mode : Z) (p : prog) (obs_log : list val) (obs_outcome : outcome) (routes_agree : bool)
(* MiniJS+ (C01/Full.v): the reference semantics is the model; global code only *)
| FCase (p : list Full.stmt) (obs_log : list Full.val) (obs_outcome : Full.outcome) (obs_cv : Full.val) (routes_agree : bool)
(* pinned probes outside the modelled languages: `delete` applied to an identifier.
   obs = [result of delete (1 true / 0 false); typeof the name afterwards (0 undefined, 1 number, 2 function)] *)
| PinCase (id : Z) (obs : list Z).

Definition fval_eqb (a b : Full.val) : bool :=
  match a, b with
  | WUndef, WUndef | WNull, WNull | WNaN, WNaN | WBig, WBig => true
  | WBool x, WBool y => Bool.eqb x y
  | WNum n, WNum m => n =? m
  | WStr x, WStr y => Full.str_eqb x y
  | WRef _, WRef _ => true            (* object identity is not observed *)
  | WErr j, WErr k => j =? k
  | _, _ => false
  end.
Definition fout_eqb (a b : Full.outcome) : bool :=
  match a, b with
  | FNormal, FNormal => true
  | FThrew v, FThrew w => fval_eqb v w
  | _, _ => false
  end.
Definition fobs_eqb (a b : list Full.val * Full.outcome * Full.val) : bool :=
  list_eqb fval_eqb (fst (fst a)) (fst (fst b)) && fout_eqb (snd (fst a)) (snd (fst b)) && fval_eqb (snd a) (snd b).
Definition fhas_big (l : list Full.val) (o : Full.outcome) : bool :=
  existsb (fun v => fval_eqb v WBig) l || match o with FThrew v => fval_eqb v WBig | _ => false end.
Definition ffuel : nat := 700.

(* ES5 10.4.2 + 10.5: bindings created by eval code are deletable (configurableBindings = true), those of
   global/function code are not; 11.4.1: delete of a deletable binding returns true and removes it.
   ids: 1 eval var (global code)  2 eval var (in a function)  3 eval function (global)  4 plain var
        5 implicit global (assignment to an undeclared name)  6 eval function (in a function)  7 indirect eval var
        8 function declaration (global code)  9 plain var deleted from inside a function  10 function parameter *)
(* ids 20-26: accessor properties found on the prototype chain are called with the ORIGINAL receiver as this
   (8.12.3 [[Get]] step 13 / 8.12.5 [[Put]] step 5.b), also through with, bracket access, call and inside methods *)
Definition pin_acc (id : Z) : list Z :=
  if id =? 20 then [42] else if id =? 21 then [5; 0] else if id =? 22 then [7; 3] else if id =? 23 then [42]
  else if id =? 24 then [42; 42] else if id =? 25 then [9; 0; 9] else if id =? 26 then [42; 1] else [].
(* ids 30-35: the arguments object of function (a, b, a) / (a, a).  10.6 step 11.c visits the indices from the last one
   down and maps a NAME once: an earlier parameter of the same name (when the later one received an argument too) is a
   plain data property holding its own argument.  otto used to alias it to the binding as well (finding
   C01-arguments-dup-param, fixed by bf94f2a: cmplCallNodeFunction clears the earlier occurrences); the probes stay as
   regression cases that expect the ES5 values.  33, 34: controls (last occurrence; later occurrence without an argument) *)
Definition pin_dup_spec (id : Z) : list Z :=
  if id =? 30 then [1] else if id =? 31 then [1] else if id =? 32 then [1] else if id =? 33 then [9]
  else if id =? 34 then [0] else if id =? 35 then [3] else [].
Definition pin_dup_model (id : Z) : list Z := pin_dup_spec id.
(* ids 40-45: the value of a block / try / with / if-branch block whose statement list produces no value.  ES5 12.1: the
   empty completion, so the program's value is that of the statement before it (7); otto gives the block the value
   undefined (finding C01-valueless-block-undefined, open; observed [] = not a number).  44, 45: controls *)
Definition pin_blk_spec (id : Z) : list Z := if id =? 45 then [8] else [7].
Definition pin_blk_model (id : Z) : list Z := if id =? 44 then [7] else if id =? 45 then [8] else [].
Definition pin_spec (id : Z) : list Z :=
  if (30 <=? id) && (id <=? 35) then pin_dup_spec id else
  if (40 <=? id) && (id <=? 45) then pin_blk_spec id else
  if (20 <=? id) && (id <=? 26) then pin_acc id else
  if (id =? 4) || (id =? 9) || (id =? 10) then [0; 1] else if (id =? 8) then [0; 2]
  else if (1 <=? id) && (id <=? 7) then [1; 0] else [].
(* otto: every declaration goes through the same createBinding(name, deletable = false) / global property with
   configurable = false, whatever code declares it (cmplVariableDeclaration, cmplFunctionDeclaration) *)
Definition pin_model (id : Z) : list Z :=
  if (30 <=? id) && (id <=? 35) then pin_dup_model id else
  if (40 <=? id) && (id <=? 45) then pin_blk_model id else
  if (20 <=? id) && (id <=? 26) then pin_acc id else
  if (id =? 5) then [1; 0]
  else if (id =? 9) || (id =? 10) then [0; 1]
  else if (id =? 3) || (id =? 6) || (id =? 8) then [0; 2]
  else if (1 <=? id) && (id <=? 7) then [0; 1] else [].

Definition val_eqb (a b : val) : bool :=
  match a, b with
  | VUndef, VUndef | VNaN, VNaN | VRefErr, VRefErr | VHalt, VHalt | VHaltCaught, VHaltCaught | VBig, VBig | VOther, VOther => true
  | VNum n, VNum m => n =? m
  | VBool x, VBool y => Bool.eqb x y
  | _, _ => false
  end.
Definition outcome_eqb (a b : outcome) : bool :=
  match a, b with
  | ONormal, ONormal | OLeak, OLeak | OOutOfFuel, OOutOfFuel => true
  | OReturned v, OReturned w | OThrew v, OThrew w => val_eqb v w
  | _, _ => false
  end.
Definition obs_eqb (a b : list val * outcome) : bool :=
  list_eqb val_eqb (fst a) (fst b) && outcome_eqb (snd a) (snd b).

Definition declared : list nat := [0; 1; 2; 3; 10; 11; 12; 13; 14; 15]%nat.
Definition fuel : nat := 400.

(* what the harness can see of a leaked break/continue: in global code the
   program just stops (Run returns normally); in a function the call yields
   an empty value which the wrapper's assignment turns into undefined *)
Definition project (mode : Z) (o : outcome) : outcome :=
  match o with
  | OLeak => if mode =? 0 then ONormal else OReturned VUndef
  | ONormal => if mode =? 0 then ONormal else OReturned VUndef   (* falling off the end of main *)
  | _ => o
  end.

Definition has_big (l : list val) (o : outcome) : bool :=
  existsb (fun v => val_eqb v VBig) l ||
  match o with OReturned v | OThrew v => val_eqb v VBig | _ => false end.

(* finding class 1: a labelled statement whose body is not a block/loop/try
   and jumps to its own label (wf = false) *)
Definition verdict (c : case) : Z * Z :=
  match c with
  | Case mode p lg oc agree =>
      let '(so, _, oo) := run_o fuel declared 0 p in
      let '(ss, os) := run_s fuel declared 0 p in
      match oo, os with
      | OOutOfFuel, _ | _, OOutOfFuel => declined
      | _, _ =>
        if has_big (out so) oo || has_big (out ss) os then declined else
        if negb agree then (3, 9) else
        (* the ES5-style semantics and the MiniJS+ reference semantics are two independent readings of ES5:
           on global code they must give the same log and outcome (class 10 = they do not) *)
        let cross :=
          if mode =? 0 then
            let '(fl, fo) := Full.run_program ffuel (eprog declared p) in
            match fo with
            | FOutOfFuel | FDeclined => true
            | _ => list_eqb fval_eqb fl (map eval_val (out ss)) && fout_eqb fo (eoutcome os)
            end
          else true in
        if negb cross then (3, 10) else
        judge obs_eqb (lg, oc) (out so, project mode oo) (out ss, project mode os)
              (if wf (SBlock p) then 0 else 1)
      end
  | PinCase id obs => judge (list_eqb Z.eqb) obs (pin_model id) (pin_spec id) (if 40 <=? id then 5 else if 30 <=? id then 4 else 3)
  | FCase p lg oc cv agree =>
      let '(ml, mo, mcv) := Full.run_program_cv ffuel p in
      match mo with
      | FOutOfFuel | FDeclined => declined
      | _ =>
        if fhas_big ml mo || fval_eqb mcv WBig then declined
        (* the harness stops a run after maxLog = 4000 host calls: a program that the reference semantics gives a longer
           log is outside what the run can observe (declined, counted); a shorter model log against an overflowing run
           stays a violation *)
        else if 4000 <? Z.of_nat (length ml) then declined
        else if negb agree then (3, 9)
        else if fobs_eqb (lg, oc, mcv) (ml, mo, mcv) && negb (fval_eqb cv mcv) && Full.has_jump_top p
             then (1, 2)   (* finding class 2: the value of a statement list is lost when it ends in break/continue *)
        (* finding class 5: a block / try / with whose statements produce no value has the value undefined in otto instead of
           the empty completion, so the program's value is undefined where ES5 keeps an earlier statement's value.  Only
           this shape is attributed: same log and outcome, observed value undefined, global code contains such a statement *)
        else if fobs_eqb (lg, oc, mcv) (ml, mo, mcv) && negb (fval_eqb cv mcv) && fval_eqb cv WUndef && Full.has_block_top p
             then (1, 5)
        else judge fobs_eqb (lg, oc, cv) (ml, mo, mcv) (ml, mo, mcv) 0
      end
  end.
