(* The concrete expression language plugged into the statement semantics of
   Sem.v: values, a store of variables, a host-call log, and the poll counter
   used for interrupt injection (C18).  Every expression node polls on entry,
   exactly where cmplEvaluateNodeExpression does. *)
From Coq Require Import List Bool ZArith.
From Otto Require Import C01.Sem.
Import ListNotations.
Open Scope Z_scope.

Inductive val :=
| VUndef | VNaN | VNum (n : Z) | VBool (b : bool)
| VRefErr          (* a ReferenceError object *)
| VHalt            (* the host's interrupt panic *)
| VHaltCaught      (* the same after a JavaScript try has recovered and re-thrown it (an ordinary exception now) *)
| VBig             (* a number outside the modelled range |n| < 2^53 *)
| VOther.          (* anything the harness cannot classify *)

Inductive binop := BAdd | BSub | BMul | BLt | BSeq.

Inductive expr :=
| ELit (v : val)
| EVar (x : nat)
| EAssign (x : nat) (e : expr)
| EBin (o : binop) (a b : expr)
| ENot (e : expr)
| ELog (e : expr)                 (* host call log(e), returns undefined *)
| ECond (c a b : expr)
| EAnd (a b : expr)
| EOr (a b : expr)
| EPostInc (x : nat).

(* [snap]: the host-call log at the moment the injected interrupt fired (what the
   run must have committed if the script stops there) *)
Record state := mkst { store : list (nat * val); out : list val; polls : Z; halt_at : Z;
                       snap : option (list val) }.

Definition tick (s : state) : state * option val :=
  let p := polls s + 1 in
  if p =? halt_at s then (mkst (store s) (out s) p (halt_at s) (Some (out s)), Some VHalt)
  else (mkst (store s) (out s) p (halt_at s) (snap s), None).

Fixpoint lookup (x : nat) (m : list (nat * val)) : option val :=
  match m with
  | [] => None
  | (y, v) :: m' => if Nat.eqb x y then Some v else lookup x m'
  end.
Fixpoint update (x : nat) (v : val) (m : list (nat * val)) : list (nat * val) :=
  match m with
  | [] => [(x, v)]
  | (y, w) :: m' => if Nat.eqb x y then (y, v) :: m' else (y, w) :: update x v m'
  end.
Definition set_var (s : state) (x : nat) (v : val) : state :=
  mkst (update x v (store s)) (out s) (polls s) (halt_at s) (snap s).
Definition emit (s : state) (v : val) : state :=
  mkst (store s) (out s ++ [v]) (polls s) (halt_at s) (snap s).

Definition truthy (v : val) : bool :=
  match v with
  | VUndef | VNaN => false
  | VNum n => negb (n =? 0)
  | VBool b => b
  | _ => true
  end.

(* ToNumber on the modelled values: None = NaN *)
Definition tonum (v : val) : option Z :=
  match v with
  | VNum n => Some n
  | VBool true => Some 1
  | VBool false => Some 0
  | _ => None
  end.
Definition isbig (v : val) : bool := match v with VBig => true | _ => false end.
Definition mknum (n : Z) : val := if Z.abs n <? 2 ^ 53 then VNum n else VBig.

Definition val_seq (a b : val) : bool :=
  match a, b with
  | VUndef, VUndef => true
  | VNum n, VNum m => n =? m
  | VBool x, VBool y => Bool.eqb x y
  | _, _ => false
  end.

Definition binval (o : binop) (a b : val) : val :=
  if isbig a || isbig b then VBig else
  match o with
  | BAdd => match tonum a, tonum b with Some n, Some m => mknum (n + m) | _, _ => VNaN end
  | BSub => match tonum a, tonum b with Some n, Some m => mknum (n - m) | _, _ => VNaN end
  | BMul => match tonum a, tonum b with Some n, Some m => mknum (n * m) | _, _ => VNaN end
  | BLt => match tonum a, tonum b with Some n, Some m => VBool (n <? m) | _, _ => VBool false end
  | BSeq => VBool (val_seq a b)
  end.

(* evaluation: (state, inl value | inr thrown) *)
Fixpoint eval (s : state) (e : expr) {struct e} : state * (val + val) :=
  match tick s with
  | (s, Some h) => (s, inr h)
  | (s, None) =>
    match e with
    | ELit v => (s, inl v)
    | EVar x => match lookup x (store s) with Some v => (s, inl v) | None => (s, inr VRefErr) end
    | EAssign x e1 =>
        match tick s with                      (* the left-hand identifier node *)
        | (s, Some h) => (s, inr h)
        | (s, None) =>
          match eval s e1 with
          | (s1, inl v) => (set_var s1 x v, inl v)
          | r => r
          end
        end
    | EBin o a b =>
        match eval s a with
        | (s1, inl va) =>
            match eval s1 b with
            | (s2, inl vb) => (s2, inl (binval o va vb))
            | r => r
            end
        | r => r
        end
    | ENot e1 =>
        match eval s e1 with
        | (s1, inl v) => (s1, inl (VBool (negb (truthy v))))
        | r => r
        end
    | ELog e1 =>
        match tick s with                      (* the callee identifier node *)
        | (s, Some h) => (s, inr h)
        | (s, None) =>
          match eval s e1 with
          | (s1, inl v) => (emit s1 v, inl VUndef)
          | r => r
          end
        end
    | ECond c a b =>
        match eval s c with
        | (s1, inl v) => if truthy v then eval s1 a else eval s1 b
        | r => r
        end
    | EAnd a b =>
        match eval s a with
        | (s1, inl v) => if truthy v then eval s1 b else (s1, inl v)
        | r => r
        end
    | EOr a b =>
        match eval s a with
        | (s1, inl v) => if truthy v then (s1, inl v) else eval s1 b
        | r => r
        end
    | EPostInc x =>
        match tick s with                      (* the operand identifier node *)
        | (s, Some h) => (s, inr h)
        | (s, None) =>
          match lookup x (store s) with
          | None => (s, inr VRefErr)
          | Some v =>
              let old := match tonum v with Some n => VNum n | None => if isbig v then VBig else VNaN end in
              (set_var s x (binval BAdd old (VNum 1)), inl old)
          end
        end
    end
  end.

(* for-in over a MiniJS value: every value of this language is a primitive without enumerable properties
   (for (x in 5), for (x in undefined), ...): the subject is evaluated, nothing is visited *)
Definition enum (s : state) (e : expr) : state * (list (list val) + val) :=
  match eval s e with (s1, inl _) => (s1, inl []) | (s1, inr x) => (s1, inr x) end.
Definition live (s : state) (k : val) : bool := true.
Definition bind (s : state) (t : expr) (k : val) : state * option val := (s, None).

Definition recatch (v : val) : val := match v with VHalt => VHaltCaught | _ => v end.

(* ---- whole programs ---- *)
Definition prog := list (stmt expr).

Inductive outcome :=
| ONormal            (* global code ran to its end *)
| OReturned (v : val)
| OThrew (v : val)
| OLeak              (* a break/continue completion escaped (cannot happen in ES5) *)
| OOutOfFuel.

Definition init_state (declared : list nat) (halt : Z) : state :=
  mkst (map (fun x => (x, VUndef)) declared) [] 0 halt None.

Definition outcome_o (r : ores val) : outcome :=
  match r with
  | ONorm OEmpty | ONorm (OVal _) => ONormal
  | ONorm (ORet v) => OReturned v
  | ONorm (OBrk _) | ONorm (OCont _) => OLeak
  | OExn v => OThrew v
  | OFuel => OOutOfFuel
  end.
Definition outcome_s (r : sres val) : outcome :=
  match r with
  | SDone CNormal => ONormal
  | SDone (CReturn v) => OReturned v
  | SDone (CBreak _) | SDone (CContinue _) => OLeak
  | SDone (CThrow v) => OThrew v
  | SFuel => OOutOfFuel
  end.

Definition run_o (fuel : nat) (declared : list nat) (halt : Z) (p : prog) : state * list label * outcome :=
  match exec_o eval truthy tick recatch val_seq enum live bind fuel (init_state declared halt) [] (SBlock p) with
  | (s, L, r) => (s, L, outcome_o r)
  end.
Definition run_s (fuel : nat) (declared : list nat) (halt : Z) (p : prog) : state * outcome :=
  match exec_s eval truthy tick recatch val_seq enum live bind fuel (init_state declared halt) [] (SBlock p) with
  | (s, r) => (s, outcome_s r)
  end.
