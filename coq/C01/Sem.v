From Coq Require Import List Bool Arith Lia.
Import ListNotations.

(* Scratch prototype: statement-level control flow, call-free expressions. *)
Definition label := nat.   (* 0 is the empty label "" *)
Definition mem (l : label) (ls : list label) := existsb (Nat.eqb l) ls.

Inductive stmt (expr : Type) :=
| SExpr (e : expr)
| SBlock (l : list (stmt expr))
| SIf (e : expr) (s1 : stmt expr) (s2 : option (stmt expr))
| SWhile (e : expr) (body : list (stmt expr))
| SDoWhile (body : list (stmt expr)) (e : expr)
| SFor (init test upd : option expr) (body : list (stmt expr))
| SBreak (l : label)
| SContinue (l : label)
| SReturn (e : expr)
| SLabelled (l : label) (s : stmt expr)
| SThrow (e : expr)
| STry (b : list (stmt expr)) (c : option (list (stmt expr))) (f : option (list (stmt expr)))
| SSwitch (e : expr) (cases : list (option expr * list (stmt expr)))
| SForIn (target : expr) (src : expr) (body : list (stmt expr)).
Arguments SExpr {expr}. Arguments SBlock {expr}. Arguments SIf {expr}. Arguments SWhile {expr}.
Arguments SDoWhile {expr}. Arguments SFor {expr}.
Arguments SBreak {expr}. Arguments SContinue {expr}. Arguments SReturn {expr}.
Arguments SLabelled {expr}. Arguments SThrow {expr}. Arguments STry {expr}. Arguments SSwitch {expr}. Arguments SForIn {expr}.

Inductive oval (val : Type) := OEmpty | OVal (v : val) | OBrk (l : label) | OCont (l : label) | ORet (v : val).
Inductive ores (val : Type) := ONorm (o : oval val) | OExn (v : val) | OFuel.
Arguments OEmpty {val}. Arguments OVal {val}. Arguments OBrk {val}. Arguments OCont {val}. Arguments ORet {val}.
Arguments ONorm {val}. Arguments OExn {val}. Arguments OFuel {val}.
Inductive compl (val : Type) := CNormal | CBreak (l : label) | CContinue (l : label) | CReturn (v : val) | CThrow (v : val).
Inductive sres (val : Type) := SDone (c : compl val) | SFuel.
Arguments CNormal {val}. Arguments CBreak {val}. Arguments CContinue {val}. Arguments CReturn {val}. Arguments CThrow {val}.
Arguments SDone {val}. Arguments SFuel {val}.

Section Sem.
Variables st val expr : Type.
Variable eval : st -> expr -> st * (val + val).   (* inl v = value, inr v = thrown *)
Variable truthy : val -> bool.
(* the interrupt poll at the entry of every statement (cmplEvaluateNodeStatement):
   it may advance the state and may raise (an injected host panic) *)
Variable poll : st -> st * option val.
(* what tryCatchEvaluate turns a caught payload into when it is re-thrown (a host panic
   becomes an ordinary JavaScript exception once a try statement has recovered it) *)
Variable recatch : val -> val.
(* strict equality of two values (calculateComparison STRICT_EQUAL / ES5 11.9.6) *)
Variable veq : val -> val -> bool.
(* for-in (12.6.4), the enumeration protocol shared by both semantics:
   [enum] evaluates the subject expression and yields the property names to visit, grouped the way
   cmplEvaluateNodeForInStatement walks them (the object's own enumerable names, then those of each object on its
   prototype chain; nothing for undefined / null), or throws;
   [live] says whether a name is still present when its turn comes (a property deleted before it is visited is not
   visited); [bind] evaluates the left-hand side anew and assigns the name to it (it may throw) *)
Variable enum : st -> expr -> st * (list (list val) + val).
Variable live : st -> val -> bool.
Variable bind : st -> expr -> val -> st * option val.
Notation stmt := (stmt expr).
Notation oval := (oval val). Notation ores := (ores val).
Notation compl := (compl val). Notation sres := (sres val).

Definition is_res (o : oval) := match o with OBrk _ | OCont _ | ORet _ => true | _ => false end.
Definition pop (L : list label) : list label := match L with [] => [] | _ => removelast L end.

(* ---------- switch: clause selection, shared by both semantics ----------
   cmplEvaluateNodeSwitchStatement evaluates the case expressions in source order, skipping the
   default clause, until one is strictly equal to the discriminant value; ES5 12.11 searches the
   clauses before the default, then those after it, which is the same order.  When none matches,
   execution starts at the default clause (if any) and falls through the clauses after it. *)
Notation clause := (option expr * list stmt)%type.
Fixpoint find_case (cs : list clause) (v : val) (s : st) (i : nat) : st * (option nat + val) :=
  match cs with
  | [] => (s, inl None)
  | (None, _) :: cs' => find_case cs' v s (S i)
  | (Some e, _) :: cs' =>
      match eval s e with
      | (s', inr x) => (s', inr x)
      | (s', inl w) => if veq v w then (s', inl (Some i)) else find_case cs' v s' (S i)
      end
  end.
Fixpoint default_index (cs : list clause) (i : nat) : option nat :=
  match cs with
  | [] => None
  | (None, _) :: _ => Some i
  | _ :: cs' => default_index cs' (S i)
  end.
Definition bodies (cs : list clause) : list stmt := concat (map snd cs).
Definition body_from (cs : list clause) (i : nat) : list stmt := bodies (skipn i cs).
Definition switch_target (cs : list clause) (r : option nat) : option nat :=
  match r with Some i => Some i | None => default_index cs 0 end.

(* ---------- otto-style (cmpl_evaluate_statement.go) ---------- *)
Section OttoIter.
Variable exec : st -> list label -> stmt -> st * list label * ores.

(* cmplEvaluateNodeStatementList *)
Fixpoint olist (s0 : st) (L : list label) (acc : oval) (l : list stmt) : st * list label * ores :=
  match l with
  | [] => (s0, L, ONorm acc)
  | x :: xs =>
    match exec s0 L x with
    | (s1, L1, ONorm o) =>
        if is_res o then (s1, L1, ONorm o)
        else olist s1 L1 (match o with OEmpty => acc | _ => o end) xs
    | r => r
    end
  end.

(* cmplEvaluateModeWhileStatement; [labels] already has "" appended, rt.labels was reset *)
Fixpoint owhile (n : nat) (labels : list label) (e : expr) (body : list stmt)
         (s0 : st) (L : list label) (acc : oval) : st * list label * ores :=
  match n with
  | O => (s0, L, OFuel)
  | S n =>
    match eval s0 e with
    | (s', inr x) => (s', L, OExn x)
    | (s', inl v) =>
      if truthy v then
        match olist s' L OEmpty body with
        | (s1, L1, ONorm o) =>
          match o with
          | OBrk t => if mem t labels then (s1, L1, ONorm acc) else (s1, L1, ONorm o)
          | OCont t => if mem t labels then owhile n labels e body s1 L1 acc else (s1, L1, ONorm o)
          | ORet _ => (s1, L1, ONorm o)
          | OEmpty => owhile n labels e body s1 L1 acc
          | OVal _ => owhile n labels e body s1 L1 o
          end
        | r => r
        end
      else (s', L, ONorm acc)
    end
  end.

(* cmplEvaluateNodeDoWhileStatement: body, then the test (also after a consumed continue) *)
Fixpoint odowhile (n : nat) (labels : list label) (e : expr) (body : list stmt)
         (s0 : st) (L : list label) (acc : oval) : st * list label * ores :=
  match n with
  | O => (s0, L, OFuel)
  | S n =>
    match olist s0 L OEmpty body with
    | (s1, L1, ONorm o) =>
      let again (acc' : oval) :=
        match eval s1 e with
        | (s', inr x) => (s', L1, OExn x)
        | (s', inl v) => if truthy v then odowhile n labels e body s' L1 acc' else (s', L1, ONorm acc')
        end in
      match o with
      | OBrk t => if mem t labels then (s1, L1, ONorm acc) else (s1, L1, ONorm o)
      | OCont t => if mem t labels then again acc else (s1, L1, ONorm o)
      | ORet _ => (s1, L1, ONorm o)
      | OEmpty => again acc
      | OVal _ => again o
      end
    | r => r
    end
  end.

(* cmplEvaluateNodeForStatement after the initializer: test, [extra poll when the body is empty],
   body, update (also after a consumed continue) *)
Fixpoint ofor (n : nat) (labels : list label) (test upd : option expr) (body : list stmt)
         (s0 : st) (L : list label) (acc : oval) : st * list label * ores :=
  match n with
  | O => (s0, L, OFuel)
  | S n =>
    let run_body (s' : st) :=
      let go (s'' : st) :=
        match olist s'' L OEmpty body with
        | (s1, L1, ONorm o) =>
          let again (acc' : oval) :=
            match upd with
            | Some u => match eval s1 u with
                        | (s2, inl _) => ofor n labels test upd body s2 L1 acc'
                        | (s2, inr x) => (s2, L1, OExn x)
                        end
            | None => ofor n labels test upd body s1 L1 acc'
            end in
          match o with
          | OBrk t => if mem t labels then (s1, L1, ONorm acc) else (s1, L1, ONorm o)
          | OCont t => if mem t labels then again acc else (s1, L1, ONorm o)
          | ORet _ => (s1, L1, ONorm o)
          | OEmpty => again acc
          | OVal _ => again o
          end
        | r => r
        end in
      match body with
      | [] => match poll s' with (s'', Some x) => (s'', L, OExn x) | (s'', None) => go s'' end
      | _ => go s'
      end in
    match test with
    | Some e => match eval s0 e with
                | (s', inr x) => (s', L, OExn x)
                | (s', inl v) => if truthy v then run_body s' else (s', L, ONorm acc)
                end
    | None => run_body s0
    end
  end.

(* cmplEvaluateNodeForInStatement: an outer loop over the prototype chain, an inner enumeration callback per name;
   break / return / an unmatched jump stop BOTH loops (obj = nil; return false); the flag says "stopped" *)
Fixpoint okeys (labels : list label) (tgt : expr) (body : list stmt) (ks : list val)
         (s : st) (L : list label) (acc : oval) : (st * list label * ores) * bool :=
  match ks with
  | [] => ((s, L, ONorm acc), false)
  | k :: ks' =>
    if live s k then
      match bind s tgt k with
      | (s1, Some x) => ((s1, L, OExn x), true)
      | (s1, None) =>
        match olist s1 L OEmpty body with
        | (s2, L2, ONorm o) =>
          match o with
          | OBrk t => if mem t labels then ((s2, L2, ONorm acc), true) else ((s2, L2, ONorm o), true)
          | OCont t => if mem t labels then okeys labels tgt body ks' s2 L2 acc else ((s2, L2, ONorm o), true)
          | ORet _ => ((s2, L2, ONorm o), true)
          | OEmpty => okeys labels tgt body ks' s2 L2 acc
          | OVal _ => okeys labels tgt body ks' s2 L2 o
          end
        | r => (r, true)
        end
      end
    else okeys labels tgt body ks' s L acc
  end.
Fixpoint olevels (labels : list label) (tgt : expr) (body : list stmt) (lv : list (list val))
         (s : st) (L : list label) (acc : oval) : st * list label * ores :=
  match lv with
  | [] => (s, L, ONorm acc)
  | ks :: lv' =>
    match okeys labels tgt body ks s L acc with
    | (r, true) => r
    | ((s', L', ONorm acc'), false) => olevels labels tgt body lv' s' L' acc'
    | (r, false) => r
    end
  end.

Definition oblock (s0 : st) (L : list label) (l : list stmt) : st * list label * ores :=
  match olist s0 [] OEmpty l with
  | (s1, L1, ONorm (OBrk t)) => if mem t L then (s1, L1, ONorm OEmpty) else (s1, L1, ONorm (OBrk t))
  | r => r
  end.
End OttoIter.

Definition ocatch (blk : st -> list label -> list stmt -> st * list label * ores)
           (r1 : st * list label * ores) (c : option (list stmt)) : st * list label * ores :=
  match r1, c with
  | (s1, L1, OExn _), Some cb =>
      match blk s1 L1 cb with
      | (s2, L2, OExn v) => (s2, L2, OExn (recatch v))    (* the catch block runs under tryCatchEvaluate too *)
      | r => r
      end
  | (s1, L1, OExn v), None => (s1, L1, OExn (recatch v))
  | _, _ => r1
  end.
Definition ofinally (blk : st -> list label -> list stmt -> st * list label * ores)
           (r2 : st * list label * ores) (f : option (list stmt)) : st * list label * ores :=
  match r2, f with
  | (_, _, OFuel), _ => r2
  | _, None => r2
  | (s2, L2, r), Some fb =>
      match blk s2 L2 fb with
      | (s3, L3, ONorm o) => if is_res o then (s3, L3, ONorm o) else (s3, L3, r)
      | r3 => r3
      end
  end.

(* the body of try / catch / finally is a block STATEMENT: entering it polls *)
Definition opolled (blk : st -> list label -> list stmt -> st * list label * ores)
           (s0 : st) (L : list label) (l : list stmt) : st * list label * ores :=
  match poll s0 with
  | (s1, Some x) => (s1, L, OExn x)
  | (s1, None) => blk s1 L l
  end.

Fixpoint exec_o (fuel : nat) (s0 : st) (L : list label) (s : stmt) {struct fuel}
  : st * list label * ores :=
  match fuel with
  | O => (s0, L, OFuel)
  | S fuel =>
    match poll s0 with
    | (s0, Some x) => (s0, L, OExn x)
    | (s0, None) =>
    match s with
    | SExpr e =>
        match eval s0 e with
        | (s1, inl v) => (s1, L, ONorm (OVal v))
        | (s1, inr x) => (s1, L, OExn x)
        end
    | SBlock l => oblock (exec_o fuel) s0 L l
    | SIf e s1 s2 =>
        match eval s0 e with
        | (s', inl v) =>
            if truthy v then exec_o fuel s' L s1
            else match s2 with Some s2 => exec_o fuel s' L s2 | None => (s', L, ONorm OEmpty) end
        | (s', inr x) => (s', L, OExn x)
        end
    | SWhile e body => owhile (exec_o fuel) fuel (L ++ [0]) e body s0 [] OEmpty
    | SDoWhile body e => odowhile (exec_o fuel) fuel (L ++ [0]) e body s0 [] OEmpty
    | SFor init test upd body =>
        (* the parser always wraps the initialiser in a (possibly empty) sequence expression node,
           whose evaluation is one more polling point; rt.labels has been reset by then *)
        match poll s0 with
        | (sq, Some x) => (sq, [], OExn x)
        | (sq, None) =>
          match init with
          | Some i => match eval sq i with
                      | (s1, inl _) => ofor (exec_o fuel) fuel (L ++ [0]) test upd body s1 [] OEmpty
                      | (s1, inr x) => (s1, [], OExn x)
                      end
          | None => ofor (exec_o fuel) fuel (L ++ [0]) test upd body sq [] OEmpty
          end
        end
    | SBreak t => (s0, L, ONorm (OBrk t))
    | SContinue t => (s0, L, ONorm (OCont t))
    | SReturn e =>
        match eval s0 e with
        | (s1, inl v) => (s1, L, ONorm (ORet v))
        | (s1, inr x) => (s1, L, OExn x)
        end
    | SLabelled t s =>
        (* a break that targets this label and was not consumed by the body (an if, a bare break, a catch
           clause ...) ends the labelled statement here (cmplEvaluateNodeStatement, nodeLabelledStatement) *)
        match exec_o fuel s0 (L ++ [t]) s with
        | (s1, L1, ONorm (OBrk t')) => if Nat.eqb t' t then (s1, pop L1, ONorm OEmpty) else (s1, pop L1, ONorm (OBrk t'))
        | (s1, L1, r) => (s1, pop L1, r)
        end
    | SThrow e =>
        match eval s0 e with
        | (s1, inl v) => (s1, L, OExn v)
        | (s1, inr x) => (s1, L, OExn x)
        end
    | STry b c f =>
        (* try/catch/finally bodies are block statements *)
        ofinally (opolled (oblock (exec_o fuel))) (ocatch (opolled (oblock (exec_o fuel))) (opolled (oblock (exec_o fuel)) s0 L b) c) f
    | SSwitch e cases =>
        (* labels := append(rt.labels, ""); rt.labels = nil; the discriminant is evaluated once *)
        match eval s0 e with
        | (s1, inr x) => (s1, [], OExn x)
        | (s1, inl v) =>
          match find_case cases v s1 0 with
          | (s2, inr x) => (s2, [], OExn x)
          | (s2, inl r) =>
            match switch_target cases r with
            | Some i => oblock (exec_o fuel) s2 (L ++ [0]) (body_from cases i)
            | None => (s2, [], ONorm OEmpty)
            end
          end
        end
    | SForIn tgt src body =>
        match enum s0 src with
        | (s1, inr x) => (s1, [], OExn x)
        | (s1, inl lv) => olevels (exec_o fuel) (L ++ [0]) tgt body lv s1 [] OEmpty
        end
    end
    end
  end.

(* ---------- ES5-style (12.x completion records, label sets) ---------- *)
Section SpecIter.
Variable exec : st -> list label -> stmt -> st * sres.

Fixpoint slist (s0 : st) (l : list stmt) : st * sres :=
  match l with
  | [] => (s0, SDone CNormal)
  | x :: xs =>
    match exec s0 [] x with
    | (s1, SDone CNormal) => slist s1 xs
    | r => r
    end
  end.

Fixpoint swhile (n : nat) (labels : list label) (e : expr) (body : list stmt) (s0 : st) : st * sres :=
  match n with
  | O => (s0, SFuel)
  | S n =>
    match eval s0 e with
    | (s', inr x) => (s', SDone (CThrow x))
    | (s', inl v) =>
      if truthy v then
        match slist s' body with
        | (s1, SDone c) =>
          match c with
          | CBreak t => if mem t labels then (s1, SDone CNormal) else (s1, SDone c)
          | CContinue t => if mem t labels then swhile n labels e body s1 else (s1, SDone c)
          | CNormal => swhile n labels e body s1
          | _ => (s1, SDone c)
          end
        | r => r
        end
      else (s', SDone CNormal)
    end
  end.
Fixpoint sdowhile (n : nat) (labels : list label) (e : expr) (body : list stmt) (s0 : st) : st * sres :=
  match n with
  | O => (s0, SFuel)
  | S n =>
    match slist s0 body with
    | (s1, SDone c) =>
      let again :=
        match eval s1 e with
        | (s', inr x) => (s', SDone (CThrow x))
        | (s', inl v) => if truthy v then sdowhile n labels e body s' else (s', SDone CNormal)
        end in
      match c with
      | CBreak t => if mem t labels then (s1, SDone CNormal) else (s1, SDone c)
      | CContinue t => if mem t labels then again else (s1, SDone c)
      | CNormal => again
      | _ => (s1, SDone c)
      end
    | r => r
    end
  end.

Fixpoint sfor (n : nat) (labels : list label) (test upd : option expr) (body : list stmt) (s0 : st) : st * sres :=
  match n with
  | O => (s0, SFuel)
  | S n =>
    let run_body (s' : st) :=
      let go (s'' : st) :=
        match slist s'' body with
        | (s1, SDone c) =>
          let again :=
            match upd with
            | Some u => match eval s1 u with
                        | (s2, inl _) => sfor n labels test upd body s2
                        | (s2, inr x) => (s2, SDone (CThrow x))
                        end
            | None => sfor n labels test upd body s1
            end in
          match c with
          | CBreak t => if mem t labels then (s1, SDone CNormal) else (s1, SDone c)
          | CContinue t => if mem t labels then again else (s1, SDone c)
          | CNormal => again
          | _ => (s1, SDone c)
          end
        | r => r
        end in
      match body with
      | [] => match poll s' with (s'', Some x) => (s'', SDone (CThrow x)) | (s'', None) => go s'' end
      | _ => go s'
      end in
    match test with
    | Some e => match eval s0 e with
                | (s', inr x) => (s', SDone (CThrow x))
                | (s', inl v) => if truthy v then run_body s' else (s', SDone CNormal)
                end
    | None => run_body s0
    end
  end.
(* 12.6.4: one flat enumeration; the statement is in the label set *)
Fixpoint skeys (labels : list label) (tgt : expr) (body : list stmt) (ks : list val) (s : st) : st * sres :=
  match ks with
  | [] => (s, SDone CNormal)
  | k :: ks' =>
    if live s k then
      match bind s tgt k with
      | (s1, Some x) => (s1, SDone (CThrow x))
      | (s1, None) =>
        match slist s1 body with
        | (s2, SDone c) =>
          match c with
          | CBreak t => if mem t labels then (s2, SDone CNormal) else (s2, SDone c)
          | CContinue t => if mem t labels then skeys labels tgt body ks' s2 else (s2, SDone c)
          | CNormal => skeys labels tgt body ks' s2
          | _ => (s2, SDone c)
          end
        | r => r
        end
      end
    else skeys labels tgt body ks' s
  end.
End SpecIter.

Definition scatch (blk : st -> list stmt -> st * sres) (r1 : st * sres) (c : option (list stmt)) : st * sres :=
  match r1, c with
  | (s1, SDone (CThrow _)), Some cb =>
      match blk s1 cb with
      | (s2, SDone (CThrow v)) => (s2, SDone (CThrow (recatch v)))
      | r => r
      end
  | (s1, SDone (CThrow v)), None => (s1, SDone (CThrow (recatch v)))
  | _, _ => r1
  end.
Definition sfinally (blk : st -> list stmt -> st * sres) (r2 : st * sres) (f : option (list stmt)) : st * sres :=
  match r2, f with
  | (_, SFuel), _ => r2
  | _, None => r2
  | (s2, SDone c2), Some fb =>
      match blk s2 fb with
      | (s3, SDone CNormal) => (s3, SDone c2)
      | r3 => r3
      end
  end.

Definition spolled (blk : st -> list stmt -> st * sres) (s0 : st) (l : list stmt) : st * sres :=
  match poll s0 with
  | (s1, Some x) => (s1, SDone (CThrow x))
  | (s1, None) => blk s1 l
  end.

Fixpoint exec_s (fuel : nat) (s0 : st) (LS : list label) (s : stmt) {struct fuel} : st * sres :=
  match fuel with
  | O => (s0, SFuel)
  | S fuel =>
    match poll s0 with
    | (s0, Some x) => (s0, SDone (CThrow x))
    | (s0, None) =>
    match s with
    | SExpr e =>
        match eval s0 e with
        | (s1, inl _) => (s1, SDone CNormal)
        | (s1, inr x) => (s1, SDone (CThrow x))
        end
    | SBlock l => slist (exec_s fuel) s0 l
    | SIf e s1 s2 =>
        match eval s0 e with
        | (s', inl v) =>
            if truthy v then exec_s fuel s' [] s1
            else match s2 with Some s2 => exec_s fuel s' [] s2 | None => (s', SDone CNormal) end
        | (s', inr x) => (s', SDone (CThrow x))
        end
    | SWhile e body => swhile (exec_s fuel) fuel (LS ++ [0]) e body s0
    | SDoWhile body e => sdowhile (exec_s fuel) fuel (LS ++ [0]) e body s0
    | SFor init test upd body =>
        match poll s0 with
        | (sq, Some x) => (sq, SDone (CThrow x))
        | (sq, None) =>
          match init with
          | Some i => match eval sq i with
                      | (s1, inl _) => sfor (exec_s fuel) fuel (LS ++ [0]) test upd body s1
                      | (s1, inr x) => (s1, SDone (CThrow x))
                      end
          | None => sfor (exec_s fuel) fuel (LS ++ [0]) test upd body sq
          end
        end
    | SBreak t => (s0, SDone (CBreak t))
    | SContinue t => (s0, SDone (CContinue t))
    | SReturn e =>
        match eval s0 e with
        | (s1, inl v) => (s1, SDone (CReturn v))
        | (s1, inr x) => (s1, SDone (CThrow x))
        end
    | SLabelled t s =>
        match exec_s fuel s0 (LS ++ [t]) s with
        | (s1, SDone (CBreak t')) => if Nat.eqb t' t then (s1, SDone CNormal) else (s1, SDone (CBreak t'))
        | r => r
        end
    | SThrow e =>
        match eval s0 e with
        | (s1, inl v) => (s1, SDone (CThrow v))
        | (s1, inr x) => (s1, SDone (CThrow x))
        end
    | STry b c f =>
        sfinally (spolled (slist (exec_s fuel))) (scatch (spolled (slist (exec_s fuel))) (spolled (slist (exec_s fuel)) s0 b) c) f
    | SSwitch e cases =>
        (* 12.11: the statement is in the label set LS + the empty label; a break to it ends it normally *)
        match eval s0 e with
        | (s1, inr x) => (s1, SDone (CThrow x))
        | (s1, inl v) =>
          match find_case cases v s1 0 with
          | (s2, inr x) => (s2, SDone (CThrow x))
          | (s2, inl r) =>
            match switch_target cases r with
            | Some i =>
                match slist (exec_s fuel) s2 (body_from cases i) with
                | (s3, SDone (CBreak t)) => if mem t (LS ++ [0]) then (s3, SDone CNormal) else (s3, SDone (CBreak t))
                | r3 => r3
                end
            | None => (s2, SDone CNormal)
            end
          end
        end
    | SForIn tgt src body =>
        match enum s0 src with
        | (s1, inr x) => (s1, SDone (CThrow x))
        | (s1, inl lv) => skeys (exec_s fuel) (LS ++ [0]) tgt body (concat lv) s1
        end
    end
    end
  end.

End Sem.
Arguments exec_o {st val expr}. Arguments exec_s {st val expr}.
Arguments find_case {st val expr}. Arguments default_index {expr}. Arguments bodies {expr}. Arguments body_from {expr}. Arguments switch_target {expr}.
Arguments okeys {st val expr}. Arguments olevels {st val expr}. Arguments skeys {st val expr}.
Arguments olist {st val expr}. Arguments owhile {st val expr}. Arguments odowhile {st val expr}. Arguments ofor {st val expr}. Arguments sdowhile {st val expr}. Arguments sfor {st val expr}. Arguments oblock {st val expr}.
Arguments slist {st val expr}. Arguments ocatch {st val expr}. Arguments ofinally {st val expr}. Arguments scatch {st val expr}. Arguments sfinally {st val expr}. Arguments swhile {st val expr}.
Arguments is_res {val}.
Arguments opolled {st val expr}. Arguments spolled {st val expr}.
