From Coq Require Import List Bool ZArith Lia.
From Otto Require Import C01.Sem C01.Wf C01.Sim C01.Lang.
Import ListNotations.

(* the parametric simulation theorem instantiated at the concrete language *)
Lemma outcome_rel (ro : ores val) (rs : sres val) :
  rel val [] ro rs -> outcome_o ro = outcome_s rs.
Proof.
  destruct ro as [o|v|]; destruct rs as [c|]; simpl; try contradiction; try reflexivity.
  - destruct c as [|t|t|v|v]; destruct o as [|w|t'|t'|w]; simpl; try contradiction; try reflexivity;
      intros H; subst; reflexivity.
  - destruct c; simpl; try contradiction. intros ->. reflexivity.
Qed.

Theorem run_refines fuel declared halt (p : prog) :
  wf (SBlock p) = true ->
  let '(so, L, oo) := run_o fuel declared halt p in
  let '(ss, os) := run_s fuel declared halt p in
  so = ss /\ oo = os /\ L = [].
Proof.
  intros Hwf. unfold run_o, run_s.
  pose proof (control_flow_refines state val expr eval truthy tick recatch val_seq enum live bind fuel (SBlock p)
                (init_state declared halt) Hwf) as H.
  destruct (exec_o eval truthy tick recatch val_seq enum live bind fuel (init_state declared halt) [] (SBlock p)) as [[so L] ro].
  destruct (exec_s eval truthy tick recatch val_seq enum live bind fuel (init_state declared halt) [] (SBlock p)) as [ss rs].
  destruct H as (H1 & H2 & H3). repeat split; try assumption. apply outcome_rel. exact H2.
Qed.

(* the poll counter never decreases and the log only grows: effects committed
   before an abnormal exit are intact *)
Definition extends (a b : state) : Prop :=
  exists more, out b = out a ++ more.

Lemma extends_refl a : extends a a.
Proof. exists []. now rewrite app_nil_r. Qed.
Lemma extends_trans a b c : extends a b -> extends b c -> extends a c.
Proof. intros [m1 H1] [m2 H2]. exists (m1 ++ m2). rewrite H2, H1, app_assoc. reflexivity. Qed.

Lemma tick_extends s : extends s (fst (tick s)).
Proof. unfold tick. exists []. destruct (_ =? _)%Z; simpl; now rewrite app_nil_r. Qed.

Lemma tick_out s : out (fst (tick s)) = out s.
Proof. unfold tick. destruct (_ =? _)%Z; reflexivity. Qed.

Ltac dtick s s1 E1 :=
  let T := fresh "T" in let Ho := fresh "Ho" in
  destruct (tick s) as [s1 [?h|]] eqn:T;
  (assert (E1 : extends s s1) by (exists []; rewrite app_nil_r; pose proof (tick_out s) as Ho; rewrite T in Ho; exact Ho));
  clear T.

Ltac chain := repeat (first [eassumption | eapply extends_trans; [eassumption|]]).

Lemma eval_extends e : forall s, extends s (fst (eval s e)).
Proof.
  induction e as [v|x|x e IH|o a IHa b IHb|e IH|e IH|c IHc a IHa b IHb|a IHa b IHb|a IHa b IHb|x];
    intros s; cbn [eval]; dtick s s1 E1; cbn [fst]; try exact E1.
  - destruct (lookup x (store s1)); exact E1.
  - dtick s1 s2 E2; cbn [fst]; [chain|].
    specialize (IH s2). destruct (eval s2 e) as [s3 [v|x']]; cbn [fst] in *.
    + eapply extends_trans; [exact E1|]. eapply extends_trans; [exact E2|]. eapply extends_trans; [exact IH|].
      exists []. simpl. now rewrite app_nil_r.
    + chain.
  - specialize (IHa s1). destruct (eval s1 a) as [s2 [va|x]]; cbn [fst] in *; [|chain].
    specialize (IHb s2). destruct (eval s2 b) as [s3 [vb|x]]; cbn [fst] in *; chain.
  - specialize (IH s1). destruct (eval s1 e) as [s2 [v|x]]; cbn [fst] in *; chain.
  - dtick s1 s2 E2; cbn [fst]; [chain|].
    specialize (IH s2). destruct (eval s2 e) as [s3 [v|x']]; cbn [fst] in *; [|chain].
    eapply extends_trans; [exact E1|]. eapply extends_trans; [exact E2|]. eapply extends_trans; [exact IH|].
    exists [v]. reflexivity.
  - specialize (IHc s1). destruct (eval s1 c) as [s2 [v|x]]; cbn [fst] in *; [|chain].
    destruct (truthy v).
    + specialize (IHa s2). chain.
    + specialize (IHb s2). chain.
  - specialize (IHa s1). destruct (eval s1 a) as [s2 [v|x]]; cbn [fst] in *; [|chain].
    destruct (truthy v); cbn [fst]; [specialize (IHb s2)|]; chain.
  - specialize (IHa s1). destruct (eval s1 a) as [s2 [v|x]]; cbn [fst] in *; [|chain].
    destruct (truthy v); cbn [fst]; [|specialize (IHb s2)]; chain.
  - dtick s1 s2 E2; cbn [fst]; [chain|].
    destruct (lookup x (store s2)); cbn [fst]; [|chain].
    eapply extends_trans; [exact E1|]. eapply extends_trans; [exact E2|]. exists []. simpl. now rewrite app_nil_r.
Qed.

(* ---- 12.14: an abrupt finally block overrides the try/catch completion ---- *)
Lemma sfinally_overrides (blk : state -> list (stmt expr) -> state * sres val) s2 c2 f s3 c3 :
  blk s2 f = (s3, SDone c3) -> c3 <> CNormal ->
  sfinally blk (s2, SDone c2) (Some f) = (s3, SDone c3).
Proof.
  intros H Hn. unfold sfinally. rewrite H. destruct c3; try reflexivity. contradiction.
Qed.

Lemma ofinally_overrides (blk : state -> list label -> list (stmt expr) -> state * list label * ores val)
      s2 L2 r2 f s3 L3 o3 :
  r2 <> OFuel ->
  blk s2 L2 f = (s3, L3, ONorm o3) -> is_res o3 = true ->
  ofinally blk (s2, L2, r2) (Some f) = (s3, L3, ONorm o3).
Proof.
  intros Hr H Hres. unfold ofinally. destruct r2 as [o|v|]; try contradiction; rewrite H, Hres; reflexivity.
Qed.

(* the former witnesses of otto's label handling defect (repaired in /repo: the labelled statement itself now takes a
   break that targets its label).  They lie outside the syntactic guard wf of the simulation theorem - the body of the
   labelled statement is an if, a bare break, a try whose catch clause jumps - and both semantics now agree on them:
   same log, same final outcome, label stack restored *)
Definition w_label_if : prog :=
  [SLabelled 1%nat (SIf (ELit (VBool true)) (SBreak 1%nat) None); SExpr (ELog (ELit (VNum 5)))].
Definition w_label_catch : prog :=
  [SLabelled 1%nat (STry [SThrow (ELit (VNum 1))] (Some [SBreak 1%nat]) None); SExpr (ELog (ELit (VNum 5)))].
Definition w_label_bare : prog :=
  [SLabelled 1%nat (SBreak 1%nat); SExpr (ELog (ELit (VNum 5)))].
Definition w_label_fn : prog :=
  [SLabelled 1%nat (SIf (ELit (VBool true)) (SBreak 1%nat) None); SReturn (ELit (VNum 7))].

Definition differs (p : prog) : bool :=
  let '(so, _, oo) := run_o 50 [] 0 p in
  let '(ss, os) := run_s 50 [] 0 p in
  negb (Nat.eqb (length (out so)) (length (out ss))).

Definition agrees_on (p : prog) (lg : list val) (o : outcome) : Prop :=
  (let '(so, L, oo) := run_o 50 [] 0 p in (out so, L, oo)) = (lg, [], o) /\
  (let '(ss, os) := run_s 50 [] 0 p in (out ss, os)) = (lg, o).

Lemma w_label_if_agrees : agrees_on w_label_if [VNum 5] ONormal /\ wf (SBlock w_label_if) = false.
Proof. split; [split|]; vm_compute; reflexivity. Qed.
Lemma w_label_catch_agrees : agrees_on w_label_catch [VNum 5] ONormal /\ wf (SBlock w_label_catch) = false.
Proof. split; [split|]; vm_compute; reflexivity. Qed.
Lemma w_label_bare_agrees : agrees_on w_label_bare [VNum 5] ONormal /\ wf (SBlock w_label_bare) = false.
Proof. split; [split|]; vm_compute; reflexivity. Qed.
Lemma w_label_fn_agrees : agrees_on w_label_fn [] (OReturned (VNum 7)) /\ wf (SBlock w_label_fn) = false.
Proof. split; [split|]; vm_compute; reflexivity. Qed.

(* a well-formed program with every construct, to show the guard is met *)
Definition w_wf : prog :=
  [SExpr (EAssign 10%nat (ELit (VNum 0)));
   SLabelled 1%nat (SWhile (EBin BLt (EPostInc 10%nat) (ELit (VNum 3)))
     [STry [SIf (EBin BSeq (EVar 10%nat) (ELit (VNum 2))) (SBreak 1%nat) (Some (SContinue 1%nat))]
           None (Some [SExpr (ELog (EVar 10%nat))])]);
   SLabelled 2%nat (SBlock [SBreak 2%nat; SExpr (ELog (ELit (VNum 9)))]);
   SReturn (EVar 10%nat)].
Lemma w_wf_ok : wf (SBlock w_wf) = true /\
  run_o 100 [10%nat] 0 w_wf = (mkst [(10%nat, VNum 2)] [VNum 1; VNum 2] 44 0 None, [], OReturned (VNum 2)).
Proof. split; vm_compute; reflexivity. Qed.

(* a well-formed program over the other statement forms: for (with and without parts, empty body),
   do-while, a labelled switch with fall-through, default in the middle and a break out of a nested loop *)
Definition w_wf2 : prog :=
  [SFor (Some (EAssign 10%nat (ELit (VNum 0)))) (Some (EBin BLt (EVar 10%nat) (ELit (VNum 3)))) (Some (EPostInc 10%nat))
     [SLabelled 3%nat (SSwitch (EVar 10%nat)
        [(Some (ELit (VNum 0)), [SExpr (ELog (ELit (VNum 100)))]);
         (None, [SExpr (ELog (ELit (VNum 200))); SBreak 0%nat]);
         (Some (ELog (ELit (VNum 9))), [SExpr (ELog (ELit (VNum 500)))]);
         (Some (ELit (VNum 2)), [SDoWhile [SExpr (ELog (ELit (VNum 300))); SBreak 3%nat] (ELit (VBool true))]);
         (Some (ELit (VNum 7)), [SExpr (ELog (ELit (VNum 400)))])])];
   SFor None (Some (EBin BLt (EPostInc 11%nat) (ELit (VNum 1)))) None [];
   SReturn (EVar 10%nat)].
Lemma w_wf2_ok : wf (SBlock w_wf2) = true /\
  (let '(s, L, o) := run_o 400 [10%nat; 11%nat] 0 w_wf2 in (out s, L, o)) =
    ([VNum 100; VNum 200; VNum 9; VNum 200; VNum 9; VNum 300], [], OReturned (VNum 3)).
Proof. split; vm_compute; reflexivity. Qed.

(* ---- non-vacuity of the for-in clauses of the generic theorem: a toy instance whose enumeration protocol does
   yield names.  State = the list of names bound so far; the subject has own names 1, 2 and inherited names 3, 4;
   name 2 is deleted before its turn; the body breaks out (unlabelled, through an if) when the name is 3:
   both semantics visit exactly 1 and 3, otto's two nested loops are left by the one break *)
Definition t_eval (s : list Z) (e : Z) : list Z * (Z + Z) := (s, inl (if (last s 0 =? e)%Z then 1 else 0)%Z).
Definition t_truthy (v : Z) : bool := negb (v =? 0)%Z.
Definition t_poll (s : list Z) : list Z * option Z := (s, None).
Definition t_enum (s : list Z) (e : Z) : list Z * (list (list Z) + Z) := (s, inl [[1; 2]; [3; 4]]%Z).
Definition t_live (s : list Z) (k : Z) : bool := negb (k =? 2)%Z.
Definition t_bind (s : list Z) (t : Z) (k : Z) : list Z * option Z := (s ++ [k], None).
Definition t_prog : stmt Z :=
  SLabelled 1%nat (SForIn 0%Z 0%Z [SIf 3%Z (SBreak 0%nat) None; SIf 9%Z (SContinue 1%nat) None]).
Lemma t_forin_runs :
  wf t_prog = true /\
  exec_o t_eval t_truthy t_poll (fun v => v) Z.eqb t_enum t_live t_bind 20 [] [] t_prog = ([1; 3]%Z, [], ONorm OEmpty) /\
  exec_s t_eval t_truthy t_poll (fun v => v) Z.eqb t_enum t_live t_bind 20 [] [] t_prog = ([1; 3]%Z, SDone CNormal).
Proof. repeat split; vm_compute; reflexivity. Qed.
