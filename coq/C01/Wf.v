From Coq Require Import List Bool Arith Lia.
Import ListNotations.
From Otto Require Import C01.Sem.

Section Wf.
Variable expr : Type.
Notation stmt := (stmt expr).

Fixpoint targets (t : label) (s : stmt) : bool :=
  let fix tl (l : list stmt) : bool :=
    match l with [] => false | x :: xs => targets t x || tl xs end in
  match s with
  | SExpr _ | SReturn _ | SThrow _ => false
  | SBlock l => tl l
  | SIf _ s1 s2 => targets t s1 || match s2 with Some s2 => targets t s2 | None => false end
  | SWhile _ b | SDoWhile b _ | SFor _ _ _ b | SForIn _ _ b => tl b
  | SBreak t' | SContinue t' => Nat.eqb t' t
  | SLabelled _ s => targets t s
  | STry b c f => tl b || match c with Some c => tl c | None => false end
                       || match f with Some f => tl f | None => false end
  | SSwitch _ cs =>
      (fix tc (cs : list (option expr * list stmt)) : bool :=
         match cs with [] => false | (_, b) :: cs' => tl b || tc cs' end) cs
  end.

Definition targets_list (t : label) (l : list stmt) : bool := existsb (targets t) l.
Definition targets_olist (t : label) (l : option (list stmt)) : bool :=
  match l with Some l => targets_list t l | None => false end.

Lemma targets_block t l : targets t (SBlock l) = targets_list t l.
Proof. simpl. induction l as [|x xs IH]; simpl; [reflexivity|]. now rewrite IH. Qed.
Lemma targets_while t e l : targets t (SWhile e l) = targets_list t l.
Proof. simpl. induction l as [|x xs IH]; simpl; [reflexivity|]. now rewrite IH. Qed.
Lemma targets_dowhile t e l : targets t (SDoWhile l e) = targets_list t l.
Proof. simpl. induction l as [|x xs IH]; simpl; [reflexivity|]. now rewrite IH. Qed.
Lemma targets_for t i e u l : targets t (SFor i e u l) = targets_list t l.
Proof. simpl. induction l as [|x xs IH]; simpl; [reflexivity|]. now rewrite IH. Qed.
Lemma targets_forin t x e l : targets t (SForIn x e l) = targets_list t l.
Proof. simpl. induction l as [|y ys IH]; simpl; [reflexivity|]. now rewrite IH. Qed.
Lemma targets_try t b c f : targets t (STry b c f) =
  targets_list t b || targets_olist t c || targets_olist t f.
Proof.
  assert (H : forall l, (fix tl (l : list stmt) : bool :=
    match l with [] => false | x :: xs => targets t x || tl xs end) l = targets_list t l).
  { induction l as [|x xs IH]; simpl; [reflexivity|]. now rewrite IH. }
  simpl. rewrite H. destruct c as [c|]; destruct f as [f|]; simpl; rewrite ?H; reflexivity.
Qed.

Lemma targets_switch t e cs : targets t (SSwitch e cs) = targets_list t (bodies cs).
Proof.
  assert (H : forall l, (fix tl (l : list stmt) : bool :=
    match l with [] => false | x :: xs => targets t x || tl xs end) l = targets_list t l).
  { induction l as [|x xs IH]; simpl; [reflexivity|]. now rewrite IH. }
  simpl. unfold bodies, targets_list. induction cs as [|[c b] cs IH]; simpl; [reflexivity|].
  rewrite existsb_app, H, IH. reflexivity.
Qed.
Lemma targets_list_skipn t cs i : targets_list t (bodies cs) = false -> targets_list t (body_from cs i) = false.
Proof.
  unfold body_from. revert i. induction cs as [|[c b] cs IH]; intros i H; destruct i; cbn [skipn]; try assumption.
  apply IH. unfold bodies, targets_list in *. simpl in H. rewrite existsb_app in H.
  apply orb_false_iff in H. tauto.
Qed.

(* body of "t: s" is handled correctly by otto *)
Fixpoint ok_body (t : label) (s : stmt) : bool :=
  match s with
  | SBlock _ | SWhile _ _ | SDoWhile _ _ | SFor _ _ _ _ | SSwitch _ _ | SForIn _ _ _ => true
  | SLabelled _ s' => ok_body t s'
  | STry _ c f => negb (targets_olist t c) && negb (targets_olist t f)
  | _ => negb (targets t s)
  end.

Fixpoint wf (s : stmt) : bool :=
  let fix wl (l : list stmt) : bool :=
    match l with [] => true | x :: xs => wf x && wl xs end in
  match s with
  | SExpr _ | SReturn _ | SThrow _ | SBreak _ | SContinue _ => true
  | SBlock l => wl l
  | SIf _ s1 s2 => wf s1 && match s2 with Some s2 => wf s2 | None => true end
  | SWhile _ b | SDoWhile b _ | SFor _ _ _ b | SForIn _ _ b => wl b
  | SLabelled t s => negb (Nat.eqb t 0) && ok_body t s && wf s
  | STry b c f => wl b && match c with Some c => wl c | None => true end
                       && match f with Some f => wl f | None => true end
  | SSwitch _ cs =>
      (fix wc (cs : list (option expr * list stmt)) : bool :=
         match cs with [] => true | (_, b) :: cs' => wl b && wc cs' end) cs
  end.

Definition wf_list (l : list stmt) : bool := forallb wf l.
Definition wf_olist (l : option (list stmt)) : bool :=
  match l with Some l => wf_list l | None => true end.

Lemma wf_block l : wf (SBlock l) = wf_list l.
Proof. simpl. induction l as [|x xs IH]; simpl; [reflexivity|]. now rewrite IH. Qed.
Lemma wf_while e l : wf (SWhile e l) = wf_list l.
Proof. simpl. induction l as [|x xs IH]; simpl; [reflexivity|]. now rewrite IH. Qed.
Lemma wf_dowhile e l : wf (SDoWhile l e) = wf_list l.
Proof. simpl. induction l as [|x xs IH]; simpl; [reflexivity|]. now rewrite IH. Qed.
Lemma wf_for i e u l : wf (SFor i e u l) = wf_list l.
Proof. simpl. induction l as [|x xs IH]; simpl; [reflexivity|]. now rewrite IH. Qed.
Lemma wf_forin x e l : wf (SForIn x e l) = wf_list l.
Proof. simpl. induction l as [|y ys IH]; simpl; [reflexivity|]. now rewrite IH. Qed.
Lemma wf_try b c f : wf (STry b c f) = wf_list b && wf_olist c && wf_olist f.
Proof.
  assert (H : forall l, (fix wl (l : list stmt) : bool :=
    match l with [] => true | x :: xs => wf x && wl xs end) l = wf_list l).
  { induction l as [|x xs IH]; simpl; [reflexivity|]. now rewrite IH. }
  simpl. rewrite H. destruct c as [c|]; destruct f as [f|]; simpl; rewrite ?H; reflexivity.
Qed.
Lemma wf_switch e cs : wf (SSwitch e cs) = wf_list (bodies cs).
Proof.
  assert (H : forall l, (fix wl (l : list stmt) : bool :=
    match l with [] => true | x :: xs => wf x && wl xs end) l = wf_list l).
  { induction l as [|x xs IH]; simpl; [reflexivity|]. now rewrite IH. }
  simpl. unfold bodies, wf_list. induction cs as [|[c b] cs IH]; simpl; [reflexivity|].
  rewrite forallb_app, H, IH. reflexivity.
Qed.
Lemma wf_list_skipn cs i : wf_list (bodies cs) = true -> wf_list (body_from cs i) = true.
Proof.
  unfold body_from. revert i. induction cs as [|[c b] cs IH]; intros i H; destruct i; cbn [skipn]; try assumption.
  apply IH. unfold bodies, wf_list in *. simpl in H. rewrite forallb_app in H.
  apply andb_true_iff in H. tauto.
Qed.
End Wf.
Arguments targets {expr}. Arguments targets_list {expr}. Arguments targets_olist {expr}.
Arguments ok_body {expr}. Arguments wf {expr}. Arguments wf_list {expr}. Arguments wf_olist {expr}.
Arguments targets_block {expr}. Arguments targets_while {expr}. Arguments targets_dowhile {expr}. Arguments targets_for {expr}. Arguments wf_dowhile {expr}. Arguments wf_for {expr}. Arguments targets_try {expr}.
Arguments targets_forin {expr}. Arguments wf_forin {expr}. Arguments targets_switch {expr}. Arguments targets_list_skipn {expr}. Arguments wf_switch {expr}. Arguments wf_list_skipn {expr}.
Arguments wf_block {expr}. Arguments wf_while {expr}. Arguments wf_try {expr}.
