(* The MiniJS fragment (C01/Sem.v + C01/Lang.v, the ES5-style semantics exec_s) embedded into MiniJS+
   (C01/Full.v, the reference semantics).  The two are independent readings of ES5 12.x / 11.x; the
   correspondence run evaluates both on every generated global-code MiniJS program and requires the same
   host-call log and outcome (C01/Corr.v), so a slip in either reading shows up as a disagreement. *)
From Coq Require Import List Bool ZArith.
From Otto Require Import C01.Sem C01.Lang.
From Otto Require C01.Full.
Import ListNotations.

Definition ename (x : nat) : Full.str := [Z.of_nat x].
Definition ex_name : Full.str := [(-1)%Z].           (* the catch parameter (never read by MiniJS programs) *)

Definition eval_val (v : val) : Full.val :=
  match v with
  | VUndef => Full.WUndef
  | VNaN => Full.WNaN
  | VNum n => Full.WNum n
  | VBool b => Full.WBool b
  | VRefErr => Full.WErr 2
  | _ => Full.WBig
  end.
Definition ebin (o : binop) : Full.binop :=
  match o with BAdd => Full.PAdd | BSub => Full.PSub | BMul => Full.PMul | BLt => Full.PLt | BSeq => Full.PSeq end.

Fixpoint eexpr (e : expr) : Full.expr :=
  match e with
  | ELit v => Full.XLit (eval_val v)
  | EVar x => Full.XVar (ename x)
  | EAssign x e => Full.XAssign (ename x) (eexpr e)
  | EBin o a b => Full.XBin (ebin o) (eexpr a) (eexpr b)
  | ENot e => Full.XNot (eexpr e)
  | ELog e => Full.XLog (eexpr e)
  | ECond c a b => Full.XCond (eexpr c) (eexpr a) (eexpr b)
  | EAnd a b => Full.XAnd (eexpr a) (eexpr b)
  | EOr a b => Full.XOr (eexpr a) (eexpr b)
  | EPostInc x => Full.XPostInc (ename x)
  end.
Definition eoexpr (e : option expr) : option Full.expr := option_map eexpr e.

Fixpoint estmt (s : stmt expr) : Full.stmt :=
  let fix el (l : list (stmt expr)) : list Full.stmt :=
    match l with [] => [] | x :: xs => estmt x :: el xs end in
  match s with
  | SExpr e => Full.JExpr (eexpr e)
  | SBlock l => Full.JBlock (el l)
  | SIf e a b => Full.JIf (eexpr e) (estmt a) (match b with Some b => Some (estmt b) | None => None end)
  | SWhile e b => Full.JWhile (eexpr e) (Full.JBlock (el b))
  | SDoWhile b e => Full.JDoWhile (Full.JBlock (el b)) (eexpr e)
  | SFor i t u b => Full.JFor (eoexpr i) (eoexpr t) (eoexpr u) (Full.JBlock (el b))
  | SBreak l => Full.JBreak l
  | SContinue l => Full.JContinue l
  | SReturn e => Full.JReturn (Some (eexpr e))
  | SLabelled l s => Full.JLabelled l (estmt s)
  | SThrow e => Full.JThrow (eexpr e)
  | STry b c f => Full.JTry (el b) (match c with Some c => Some (ex_name, el c) | None => None end)
                            (match f with Some f => Some (el f) | None => None end)
  | SForIn t src b =>
      Full.JForIn (match t with EVar x => ename x | _ => ex_name end) (eexpr src) (Full.JBlock (el b))
  | SSwitch e cs =>
      Full.JSwitch (eexpr e)
        ((fix ec (cs : list (option expr * list (stmt expr))) : list (option Full.expr * list Full.stmt) :=
            match cs with [] => [] | (t, b) :: cs' => (eoexpr t, el b) :: ec cs' end) cs)
  end.

Definition eprog (declared : list nat) (p : prog) : list Full.stmt :=
  map (fun x => Full.JVar (ename x) None) declared ++ map estmt p.

Definition eoutcome (o : outcome) : Full.outcome :=
  match o with
  | ONormal => Full.FNormal
  | OThrew v => Full.FThrew (eval_val v)
  | OOutOfFuel => Full.FOutOfFuel
  | _ => Full.FDeclined
  end.
