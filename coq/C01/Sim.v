From Coq Require Import List Bool Arith Lia.
Import ListNotations.
From Otto Require Import C01.Sem C01.Wf.

Section Sim.
Variables st val expr : Type.
Variable eval : st -> expr -> st * (val + val).
Variable truthy : val -> bool.
Variable poll : st -> st * option val.
Variable recatch : val -> val.
Variable veq : val -> val -> bool.
Variable enum : st -> expr -> st * (list (list val) + val).
Variable live : st -> val -> bool.
Variable bind : st -> expr -> val -> st * option val.
Notation stmt := (stmt expr).
Notation exec_o := (exec_o eval truthy poll recatch veq enum live bind).
Notation exec_s := (exec_s eval truthy poll recatch veq enum live bind).

Definition conv (LS : list label) (c : compl val) : compl val :=
  match c with CBreak t => if mem t LS then CNormal else c | _ => c end.

Definition relv (o : oval val) (c : compl val) : Prop :=
  match o, c with
  | OEmpty, CNormal | OVal _, CNormal => True
  | OBrk t, CBreak t' => t = t'
  | OCont t, CContinue t' => t = t'
  | ORet v, CReturn v' => v = v'
  | _, _ => False
  end.

Definition rel (LS : list label) (ro : ores val) (rs : sres val) : Prop :=
  match ro, rs with
  | OFuel, SFuel => True
  | OExn v, SDone (CThrow v') => v = v'
  | ONorm o, SDone c => relv o (conv LS c)
  | _, _ => False
  end.

Definition nj_o (t : label) (r : ores val) : Prop :=
  match r with ONorm (OBrk t') | ONorm (OCont t') => t' <> t | _ => True end.
Definition nj_s (t : label) (r : sres val) : Prop :=
  match r with SDone (CBreak t') | SDone (CContinue t') => t' <> t | _ => True end.

Lemma mem_app t a b : mem t (a ++ b) = mem t a || mem t b.
Proof. unfold mem. apply existsb_app. Qed.
Lemma mem_In t l : mem t l = true <-> In t l.
Proof. unfold mem. rewrite existsb_exists. split.
  - intros [x [Hx He]]. apply Nat.eqb_eq in He. now subst.
  - intros H. exists t. split; [assumption|apply Nat.eqb_refl]. Qed.
Lemma mem_false t l : mem t l = false <-> ~ In t l.
Proof. rewrite <- mem_In. destruct (mem t l); split; intros H; congruence. Qed.

Lemma targets_list_false t (l : list stmt) :
  targets_list t l = false -> forall x, In x l -> targets t x = false.
Proof. unfold targets_list. intros H x Hx.
  destruct (targets t x) eqn:E; [|reflexivity].
  assert (existsb (targets t) l = true) by (apply existsb_exists; eauto). congruence. Qed.

(* ---- spec side never produces a jump to an untargeted label ---- *)
Lemma nj_slist t (exec : st -> list label -> stmt -> st * sres val) l :
  (forall s0 LS x, In x l -> nj_s t (snd (exec s0 LS x))) ->
  forall s0, nj_s t (snd (slist exec s0 l)).
Proof.
  induction l as [|x xs IH]; intros H s0; simpl; [exact I|].
  pose proof (H s0 [] x (or_introl eq_refl)) as Hx.
  destruct (exec s0 [] x) as [s1 [c|]] eqn:E; simpl in *; [|exact I].
  destruct c; simpl in *; try assumption.
  apply IH. intros; apply H; now right.
Qed.

Lemma nj_swhile t (exec : st -> list label -> stmt -> st * sres val) e body :
  (forall s0 LS x, In x body -> nj_s t (snd (exec s0 LS x))) ->
  forall n labels s0, nj_s t (snd (swhile eval truthy exec n labels e body s0)).
Proof.
  intros H. induction n as [|n IH]; intros labels s0; simpl; [exact I|].
  destruct (eval s0 e) as [s' [v|x]]; simpl; [|exact I].
  destruct (truthy v); simpl; [|exact I].
  pose proof (nj_slist t exec body H s') as Hb.
  destruct (slist exec s' body) as [s1 [c|]]; simpl in *; [|exact I].
  destruct c; simpl in *; try exact I; try apply IH.
  - destruct (mem l labels); simpl; [exact I|assumption].
  - destruct (mem l labels); simpl; [apply IH|assumption].
Qed.

Lemma nj_sdowhile t (exec : st -> list label -> stmt -> st * sres val) e body :
  (forall s0 LS x, In x body -> nj_s t (snd (exec s0 LS x))) ->
  forall n labels s0, nj_s t (snd (sdowhile eval truthy exec n labels e body s0)).
Proof.
  intros H. induction n as [|n IH]; intros labels s0; simpl; [exact I|].
  pose proof (nj_slist t exec body H s0) as Hb.
  destruct (slist exec s0 body) as [s1 [c|]]; simpl in *; [|exact I].
  assert (Hag : nj_s t (snd match eval s1 e with
                             | (s', inl v) => if truthy v then sdowhile eval truthy exec n labels e body s' else (s', SDone CNormal)
                             | (s', inr x) => (s', SDone (CThrow x)) end)).
  { destruct (eval s1 e) as [s' [v|x]]; simpl; [|exact I]. destruct (truthy v); simpl; [apply IH|exact I]. }
  destruct c; simpl in *; try exact I; try exact Hag.
  - destruct (mem l labels); simpl; [exact I|assumption].
  - destruct (mem l labels); simpl; [exact Hag|assumption].
Qed.

Lemma nj_sfor t (exec : st -> list label -> stmt -> st * sres val) test upd body :
  (forall s0 LS x, In x body -> nj_s t (snd (exec s0 LS x))) ->
  forall n labels s0, nj_s t (snd (sfor eval truthy poll exec n labels test upd body s0)).
Proof.
  intros H. induction n as [|n IH]; intros labels s0; cbn [sfor]; [exact I|].
  assert (Hgo : forall s'', nj_s t (snd (
     match slist exec s'' body with
     | (s1, SDone c) =>
        match c with
        | CNormal => match upd with
                     | Some u => match eval s1 u with
                                 | (s2, inl _) => sfor eval truthy poll exec n labels test upd body s2
                                 | (s2, inr x) => (s2, SDone (CThrow x)) end
                     | None => sfor eval truthy poll exec n labels test upd body s1 end
        | CBreak t0 => if mem t0 labels then (s1, SDone CNormal) else (s1, SDone c)
        | CContinue t0 => if mem t0 labels then
                     match upd with
                     | Some u => match eval s1 u with
                                 | (s2, inl _) => sfor eval truthy poll exec n labels test upd body s2
                                 | (s2, inr x) => (s2, SDone (CThrow x)) end
                     | None => sfor eval truthy poll exec n labels test upd body s1 end
                   else (s1, SDone c)
        | _ => (s1, SDone c)
        end
     | r => r end))).
  { intros s''. pose proof (nj_slist t exec body H s'') as Hb.
    destruct (slist exec s'' body) as [s1 [c|]]; simpl in *; [|exact I].
    assert (Hag : nj_s t (snd match upd with
                     | Some u => match eval s1 u with
                                 | (s2, inl _) => sfor eval truthy poll exec n labels test upd body s2
                                 | (s2, inr x) => (s2, SDone (CThrow x)) end
                     | None => sfor eval truthy poll exec n labels test upd body s1 end)).
    { destruct upd as [u|]; [|apply IH]. destruct (eval s1 u) as [s2 [v|x]]; simpl; [apply IH|exact I]. }
    destruct c; simpl in *; try exact I; try exact Hag.
    - destruct (mem l labels); simpl; [exact I|assumption].
    - destruct (mem l labels); simpl; [exact Hag|assumption]. }
  assert (Hrun : forall s', nj_s t (snd (
     match body with
     | [] => match poll s' with (s'', Some x) => (s'', SDone (CThrow x)) | (s'', None) =>
              match slist exec s'' body with
              | (s1, SDone c) =>
                 match c with
                 | CNormal => match upd with
                              | Some u => match eval s1 u with
                                          | (s2, inl _) => sfor eval truthy poll exec n labels test upd body s2
                                          | (s2, inr x) => (s2, SDone (CThrow x)) end
                              | None => sfor eval truthy poll exec n labels test upd body s1 end
                 | CBreak t0 => if mem t0 labels then (s1, SDone CNormal) else (s1, SDone c)
                 | CContinue t0 => if mem t0 labels then
                              match upd with
                              | Some u => match eval s1 u with
                                          | (s2, inl _) => sfor eval truthy poll exec n labels test upd body s2
                                          | (s2, inr x) => (s2, SDone (CThrow x)) end
                              | None => sfor eval truthy poll exec n labels test upd body s1 end
                            else (s1, SDone c)
                 | _ => (s1, SDone c)
                 end
              | r => r end end
     | _ => match slist exec s' body with
              | (s1, SDone c) =>
                 match c with
                 | CNormal => match upd with
                              | Some u => match eval s1 u with
                                          | (s2, inl _) => sfor eval truthy poll exec n labels test upd body s2
                                          | (s2, inr x) => (s2, SDone (CThrow x)) end
                              | None => sfor eval truthy poll exec n labels test upd body s1 end
                 | CBreak t0 => if mem t0 labels then (s1, SDone CNormal) else (s1, SDone c)
                 | CContinue t0 => if mem t0 labels then
                              match upd with
                              | Some u => match eval s1 u with
                                          | (s2, inl _) => sfor eval truthy poll exec n labels test upd body s2
                                          | (s2, inr x) => (s2, SDone (CThrow x)) end
                              | None => sfor eval truthy poll exec n labels test upd body s1 end
                            else (s1, SDone c)
                 | _ => (s1, SDone c)
                 end
              | r => r end
     end))).
  { intros s'. destruct body as [|b0 bs]; [|apply Hgo].
    destruct (poll s') as [s'' [x|]]; [exact I|apply Hgo]. }
  destruct test as [e|]; [|apply Hrun].
  destruct (eval s0 e) as [s' [v|x]]; simpl; [|exact I].
  destruct (truthy v); [apply Hrun|exact I].
Qed.

Lemma nj_skeys t (exec : st -> list label -> stmt -> st * sres val) tgt body :
  (forall s0 LS x, In x body -> nj_s t (snd (exec s0 LS x))) ->
  forall ks labels s0, nj_s t (snd (skeys live bind exec labels tgt body ks s0)).
Proof.
  intros H. induction ks as [|k ks IH]; intros labels s0; cbn [skeys]; [exact I|].
  destruct (live s0 k); [|apply IH].
  destruct (bind s0 tgt k) as [s1 [x|]]; [exact I|].
  pose proof (nj_slist t exec body H s1) as Hb.
  destruct (slist exec s1 body) as [s2 [c|]]; simpl in *; [|exact I].
  destruct c; simpl in *; try exact I; try apply IH.
  - destruct (mem l labels); simpl; [exact I|assumption].
  - destruct (mem l labels); simpl; [apply IH|assumption].
Qed.

Lemma nj_scatch t blk r1 c :
  nj_s t (snd r1) -> (forall cb s0, c = Some cb -> nj_s t (snd (blk s0 cb))) ->
  nj_s t (snd (scatch (val:=val) (expr:=expr) (st:=st) recatch blk r1 c)).
Proof.
  intros H1 Hc. unfold scatch. destruct r1 as [s1 [c1|]]; [|destruct c; exact H1].
  destruct c1; destruct c as [cb|]; simpl in *; try assumption; try exact I.
  pose proof (Hc cb s1 eq_refl) as H. destruct (blk s1 cb) as [s2 [c2|]]; simpl in *; [|exact I].
  destruct c2; simpl in *; try assumption; exact I.
Qed.
Lemma nj_sfinally t blk r2 f :
  nj_s t (snd r2) -> (forall fb s0, f = Some fb -> nj_s t (snd (blk s0 fb))) ->
  nj_s t (snd (sfinally (val:=val) (expr:=expr) (st:=st) blk r2 f)).
Proof.
  intros H2 Hf. unfold sfinally. destruct r2 as [s2 [c2|]]; [|destruct f; exact I].
  destruct f as [fb|]; [|exact H2].
  pose proof (Hf fb s2 eq_refl) as H3.
  destruct (blk s2 fb) as [s3 [c3|]]; simpl in *; [|exact I].
  destruct c3; simpl in *; try assumption; exact I.
Qed.

Lemma nj_exec_s t : forall fuel s s0 LS, targets t s = false -> nj_s t (snd (exec_s fuel s0 LS s)).
Proof.
  induction fuel as [|fuel IH]; intros s s00 LS Ht; [exact I|].
  cbn [Sem.exec_s]. destruct (poll s00) as [s0 [xp|]]; [exact I|].
  destruct s; cbn [Sem.exec_s].
  - destruct (eval s0 e) as [s1 [v|x]]; exact I.
  - rewrite targets_block in Ht. apply nj_slist. intros; apply IH. eapply targets_list_false; eauto.
  - simpl in Ht. apply orb_false_iff in Ht as [H1 H2].
    destruct (eval s0 e) as [s' [v|x]]; [|exact I].
    destruct (truthy v); [now apply IH|].
    destruct s2 as [s2|]; [now apply IH|exact I].
  - rewrite targets_while in Ht. apply nj_swhile. intros; apply IH. eapply targets_list_false; eauto.
  - rewrite targets_dowhile in Ht. apply nj_sdowhile. intros; apply IH. eapply targets_list_false; eauto.
  - rewrite targets_for in Ht.
    assert (Hf : forall s1, nj_s t (snd (sfor eval truthy poll (exec_s fuel) fuel (LS ++ [0]) test upd body s1))).
    { intros s1. apply nj_sfor. intros; apply IH. eapply targets_list_false; eauto. }
    destruct (poll s0) as [sq [xq|]]; [exact I|].
    destruct init as [i|]; [|apply Hf].
    destruct (eval sq i) as [s1 [v|x]]; [apply Hf|exact I].
  - simpl in *. apply Nat.eqb_neq in Ht. exact Ht.
  - simpl in *. apply Nat.eqb_neq in Ht. exact Ht.
  - destruct (eval s0 e) as [s1 [v|x]]; exact I.
  - simpl in Ht. pose proof (IH s s0 (LS ++ [l]) Ht) as H.
    destruct (exec_s fuel s0 (LS ++ [l]) s) as [s1 [c|]]; simpl in *; [|exact I].
    destruct c; simpl in *; try exact I; try assumption.
    destruct (Nat.eqb l0 l); simpl; [exact I|assumption].
  - destruct (eval s0 e) as [s1 [v|x]]; exact I.
  - rewrite targets_try in Ht. apply orb_false_iff in Ht as [Ht Hf]. apply orb_false_iff in Ht as [Hb Hc].
    assert (Hlist : forall l s0, targets_list t l = false -> nj_s t (snd (spolled poll (slist (exec_s fuel)) s0 l))).
    { intros l' s0' Hl. unfold spolled. destruct (poll s0') as [s1' [xp'|]]; [exact I|].
      apply nj_slist. intros; apply IH. eapply targets_list_false; eauto. }
    apply nj_sfinally; [|intros; apply Hlist; destruct f; simpl in *; congruence].
    apply nj_scatch; [apply Hlist; assumption|intros; apply Hlist; destruct c; simpl in *; congruence].
  - rewrite targets_switch in Ht.
    destruct (eval s0 e) as [s1 [v|x]]; [|exact I].
    destruct (find_case eval veq cases v s1 0) as [s2 [r|x]]; [|exact I].
    destruct (switch_target cases r) as [i|]; [|exact I].
    pose proof (nj_slist t (exec_s fuel) (body_from cases i)) as Hb.
    specialize (Hb (fun s0' LS' x Hx => IH x s0' LS' (targets_list_false t _ (targets_list_skipn t cases i Ht) x Hx)) s2).
    destruct (slist (exec_s fuel) s2 (body_from cases i)) as [s3 [c|]]; simpl in *; [|exact I].
    destruct c; simpl in *; try exact I; try assumption.
    destruct (mem l (LS ++ [0])); simpl; [exact I|assumption].
  - rewrite targets_forin in Ht.
    destruct (enum s0 src) as [s1 [lv|x]]; [|exact I].
    apply nj_skeys. intros; apply IH. eapply targets_list_false; eauto.
Qed.

(* ------------------------------------------------------------------ *)
Definition simres (G LS : list label) (ro : st * list label * ores val) (rs : st * sres val) : Prop :=
  fst (fst ro) = fst rs /\ rel LS (snd ro) (snd rs) /\ (snd (fst ro) = G ++ LS \/ snd (fst ro) = []).
Definition simres0 (LS : list label) (ro : st * list label * ores val) (rs : st * sres val) : Prop :=
  fst (fst ro) = fst rs /\ rel LS (snd ro) (snd rs) /\ snd (fst ro) = [].

Definition IHfuel (fuel : nat) : Prop :=
  forall (s : stmt) s0 G LS,
    wf s = true ->
    (forall g, In g G -> targets g s = false) ->
    (forall t, In t LS -> ok_body t s = true) ->
    simres G LS (exec_o fuel s0 (G ++ LS) s) (exec_s fuel s0 LS s).

Lemma rel_weaken LS ro rs :
  rel [] ro rs -> (forall t, In t LS -> nj_s t rs) -> rel LS ro rs.
Proof.
  intros H Hnj. destruct ro as [o|v|]; destruct rs as [c|]; simpl in *; try assumption.
  destruct c; simpl in *; try assumption.
  destruct (mem l LS) eqn:E; [|assumption].
  apply mem_In in E. specialize (Hnj _ E). simpl in Hnj. congruence.
Qed.

Lemma wf_list_In (l : list stmt) : wf_list l = true -> forall x, In x l -> wf x = true.
Proof. unfold wf_list. rewrite forallb_forall. auto. Qed.

Lemma sim_list fuel (IH : IHfuel fuel) :
  forall (l : list stmt) acc s0, is_res acc = false -> wf_list l = true ->
    simres0 [] (olist (exec_o fuel) s0 [] acc l) (slist (exec_s fuel) s0 l).
Proof.
  induction l as [|x xs IHl]; intros acc s0 Hacc Hwf; simpl.
  - repeat split; simpl. destruct acc; simpl in *; try exact I; discriminate.
  - simpl in Hwf. apply andb_true_iff in Hwf as [Hx Hxs].
    pose proof (IH x s0 [] [] Hx (fun g H => match H with end) (fun g H => match H with end)) as Hs.
    simpl in Hs. destruct (exec_o fuel s0 [] x) as [[s1 L1] ro]. destruct (exec_s fuel s0 [] x) as [s2 rs].
    destruct Hs as [Hst [Hrel HL]]. simpl in *. subst s2.
    assert (L1 = []) by (destruct HL; assumption). subst L1.
    destruct ro as [o|v|]; destruct rs as [c|]; simpl in Hrel; try contradiction.
    + destruct o; destruct c; simpl in Hrel; try contradiction; simpl.
      * apply IHl; assumption.
      * apply IHl; [reflexivity|assumption].
      * subst. repeat split; simpl; reflexivity.
      * subst. repeat split; simpl; reflexivity.
      * subst. repeat split; simpl; reflexivity.
    + destruct c; try contradiction. subst. repeat split; simpl; reflexivity.
    + repeat split; simpl; exact I.
Qed.

Lemma nj_slist_exec t fuel (l : list stmt) s0 :
  targets_list t l = false -> nj_s t (snd (slist (exec_s fuel) s0 l)).
Proof. intros Hl. apply nj_slist. intros; apply nj_exec_s. eapply targets_list_false; eauto. Qed.

Lemma sim_block fuel (IH : IHfuel fuel) :
  forall (l : list stmt) s0 G LS, wf_list l = true ->
    (forall g, In g G -> targets_list g l = false) ->
    simres0 LS (oblock (exec_o fuel) s0 (G ++ LS) l) (slist (exec_s fuel) s0 l).
Proof.
  intros l s0 G LS Hwf HG. unfold oblock.
  pose proof (sim_list fuel IH l OEmpty s0 eq_refl Hwf) as Hs.
  assert (Hnj : forall g, In g G -> nj_s g (snd (slist (exec_s fuel) s0 l))).
  { intros g Hg. apply nj_slist_exec. auto. }
  destruct (olist (exec_o fuel) s0 [] OEmpty l) as [[s1 L1] ro]. destruct (slist (exec_s fuel) s0 l) as [s2 rs].
  destruct Hs as [Hst [Hrel HL]]. simpl in *. subst s2 L1.
  destruct ro as [o|v|]; destruct rs as [c|]; simpl in Hrel; try contradiction.
  - destruct o; destruct c; simpl in Hrel; try contradiction; subst;
      try (repeat split; simpl; try reflexivity; exact I).
    rename l1 into t.
    destruct (mem t (G ++ LS)) eqn:E; rewrite mem_app in E.
    + destruct (mem t LS) eqn:E2.
      * repeat split; simpl. rewrite E2. exact I.
      * rewrite orb_false_r in E. apply mem_In in E. specialize (Hnj _ E). simpl in Hnj. congruence.
    + apply orb_false_iff in E as [_ E2]. repeat split; simpl. rewrite E2. reflexivity.
  - destruct c; try contradiction. subst. repeat split; simpl; reflexivity.
  - repeat split; simpl; exact I.
Qed.

Lemma sim_while fuel (IH : IHfuel fuel) e (body : list stmt) G LS :
  wf_list body = true ->
  (forall g, In g G -> targets_list g body = false) ->
  forall n s0 acc, is_res acc = false ->
    simres0 LS (owhile eval truthy (exec_o fuel) n ((G ++ LS) ++ [0]) e body s0 [] acc)
               (swhile eval truthy (exec_s fuel) n (LS ++ [0]) e body s0).
Proof.
  intros Hwf HG. induction n as [|n IHn]; intros s0 acc Hacc; simpl.
  - repeat split; simpl; exact I.
  - destruct (eval s0 e) as [s' [v|x]]; [|repeat split; simpl; reflexivity].
    destruct (truthy v).
    2:{ repeat split; simpl. destruct acc; simpl in *; try exact I; discriminate. }
    pose proof (sim_list fuel IH body OEmpty s' eq_refl Hwf) as Hs.
    assert (Hnj : forall g, In g G -> nj_s g (snd (slist (exec_s fuel) s' body))).
    { intros g Hg. apply nj_slist_exec. auto. }
    destruct (olist (exec_o fuel) s' [] OEmpty body) as [[s1 L1] ro]. destruct (slist (exec_s fuel) s' body) as [s2 rs].
    destruct Hs as [Hst [Hrel HL]]. simpl in *. subst s2 L1.
    destruct ro as [o|v'|]; destruct rs as [c|]; simpl in Hrel; try contradiction.
    + destruct o; destruct c; simpl in Hrel; try contradiction; subst.
      * apply IHn; assumption.
      * apply IHn; reflexivity.
      * rename l0 into t. rewrite !mem_app.
        destruct (mem t G) eqn:EG.
        { apply mem_In in EG. specialize (Hnj _ EG). simpl in Hnj. congruence. }
        destruct (mem t LS) eqn:EL; destruct (mem t [0]) eqn:E0; cbn [orb].
        -- repeat split; simpl. destruct acc; simpl in *; try exact I; discriminate.
        -- repeat split; simpl. destruct acc; simpl in *; try exact I; discriminate.
        -- repeat split; simpl. destruct acc; simpl in *; try exact I; discriminate.
        -- repeat split; simpl. rewrite EL. reflexivity.
      * rename l0 into t. rewrite !mem_app.
        destruct (mem t G) eqn:EG.
        { apply mem_In in EG. specialize (Hnj _ EG). simpl in Hnj. congruence. }
        cbn [orb]. destruct (mem t LS || mem t [0]) eqn:EL.
        -- apply IHn; assumption.
        -- repeat split; simpl; reflexivity.
      * repeat split; simpl; reflexivity.
    + destruct c; try contradiction. subst. repeat split; simpl; reflexivity.
    + repeat split; simpl; exact I.
Qed.

Lemma sim_blockX fuel (IH : IHfuel fuel) (l : list stmt) s0 X LS :
  wf_list l = true -> (forall t, In t X -> targets_list t l = false) ->
  (forall t, In t LS -> targets_list t l = false) ->
  simres0 LS (oblock (exec_o fuel) s0 X l) (slist (exec_s fuel) s0 l).
Proof.
  intros Hwf HX Hnt.
  pose proof (sim_block fuel IH l s0 X [] Hwf HX) as Hs.
  rewrite app_nil_r in Hs. destruct Hs as [H1 [H2 H3]]. repeat split; try assumption.
  apply rel_weaken; [assumption|]. intros t Ht. apply nj_slist_exec. auto.
Qed.

(* a polled block entered with a label list none of whose labels it targets *)
Lemma sim_pblockX fuel (IH : IHfuel fuel) (l : list stmt) s0 G LS X :
  (X = G ++ LS \/ X = []) ->
  wf_list l = true -> (forall t, In t X -> targets_list t l = false) ->
  (forall t, In t LS -> targets_list t l = false) ->
  let ro := opolled poll (oblock (exec_o fuel)) s0 X l in
  let rs := spolled poll (slist (exec_s fuel)) s0 l in
  fst (fst ro) = fst rs /\ rel [] (snd ro) (snd rs) /\ (forall t, In t LS -> nj_s t (snd rs)) /\
  (snd (fst ro) = G ++ LS \/ snd (fst ro) = []).
Proof.
  intros HXs Hwf HX Hnt. unfold opolled, spolled.
  destruct (poll s0) as [s1 [xp|]].
  - repeat split; simpl; try reflexivity; try exact HXs; try (intros; exact I).
  - pose proof (sim_block fuel IH l s1 X [] Hwf HX) as Hs.
    rewrite app_nil_r in Hs. destruct Hs as [H1 [H2 H3]]. repeat split; try assumption.
    + intros t Ht. apply nj_slist_exec. auto.
    + now right.
Qed.

Lemma sim_catch fuel (IH : IHfuel fuel) r1o r1s c G LS :
  simres G LS r1o r1s -> wf_olist c = true ->
  (forall t, In t LS -> targets_olist t c = false) ->
  (forall t, In t G -> targets_olist t c = false) ->
  simres G LS (ocatch recatch (opolled poll (oblock (exec_o fuel))) r1o c) (scatch recatch (spolled poll (slist (exec_s fuel))) r1s c).
Proof.
  intros [H1 [H2 H3]] Hwf Hnt HG. destruct r1o as [[s1 L1] ro]. destruct r1s as [s2 rs]. simpl in *. subst s2.
  unfold ocatch, scatch.
  destruct ro as [o|v|]; destruct rs as [cc|]; simpl in H2; try contradiction.
  - destruct cc; try (destruct c; repeat split; simpl; assumption).
    destruct o; simpl in H2; contradiction.
  - destruct cc; try contradiction. subst. destruct c as [cb|].
    + assert (HX : forall t, In t L1 -> targets_list t cb = false).
      { intros t Ht. destruct H3 as [-> | ->]; [|destruct Ht].
        apply in_app_or in Ht as [Ht|Ht]; [apply (HG t Ht)|apply (Hnt t Ht)]. }
      pose proof (sim_pblockX fuel IH cb s1 G LS L1 H3 Hwf HX (fun t Ht => Hnt t Ht)) as Hb.
      destruct (opolled poll (oblock (exec_o fuel)) s1 L1 cb) as [[s3 L3] r3o].
      destruct (spolled poll (slist (exec_s fuel)) s1 cb) as [s4 r3s].
      destruct Hb as (A1 & A2 & A3 & A4). simpl in *. subst s4.
      assert (Hr : rel LS r3o r3s) by (apply rel_weaken; assumption).
      destruct r3o as [o3|v3|]; destruct r3s as [c3|]; simpl in A2; try contradiction.
      * destruct c3; destruct o3; simpl in A2; try contradiction; repeat split; simpl; try assumption; exact Hr.
      * destruct c3; try contradiction. subst. repeat split; simpl; try reflexivity; assumption.
      * repeat split; simpl; try exact I; assumption.
    + repeat split; simpl; try reflexivity. exact H3.
  - destruct c; repeat split; simpl; try exact I; exact H3.
Qed.

Lemma sim_finally fuel (IH : IHfuel fuel) r2o r2s f G LS :
  simres G LS r2o r2s -> wf_olist f = true ->
  (forall t, In t LS -> targets_olist t f = false) ->
  (forall t, In t G -> targets_olist t f = false) ->
  simres G LS (ofinally (opolled poll (oblock (exec_o fuel))) r2o f) (sfinally (spolled poll (slist (exec_s fuel))) r2s f).
Proof.
  intros [H1 [H2 H3]] Hwf Hnt HG. destruct r2o as [[s1 L1] ro]. destruct r2s as [s2 rs]. simpl in *. subst s2.
  unfold ofinally, sfinally.
  destruct f as [fb|].
  2:{ destruct ro as [o|v|]; destruct rs as [cc|]; simpl in H2; try contradiction; repeat split; simpl; try assumption; exact I. }
  assert (HX : forall t, In t L1 -> targets_list t fb = false).
  { intros t Ht. destruct H3 as [-> | ->]; [|destruct Ht].
    apply in_app_or in Ht as [Ht|Ht]; [apply (HG t Ht)|apply (Hnt t Ht)]. }
  pose proof (sim_pblockX fuel IH fb s1 G LS L1 H3 Hwf HX (fun t Ht => Hnt t Ht)) as Hb.
  destruct (opolled poll (oblock (exec_o fuel)) s1 L1 fb) as [[s3 L3] r3o].
  destruct (spolled poll (slist (exec_s fuel)) s1 fb) as [s4 r3s].
  destruct Hb as (Hb1 & Hb2 & Hnj & Hb3). simpl in *. subst s4.
  assert (Hr3 : rel LS r3o r3s) by (apply rel_weaken; assumption).
  destruct ro as [o|v|]; destruct rs as [cc|]; simpl in H2; try contradiction;
    try (repeat split; simpl; try exact I; exact H3).
  - destruct r3o as [o3|v3|]; destruct r3s as [c3|]; simpl in Hb2; try contradiction.
    + destruct o3; destruct c3; simpl in Hb2; try contradiction; simpl;
        repeat split; simpl; try assumption; try reflexivity; exact Hr3.
    + destruct c3; try contradiction. repeat split; simpl; assumption.
    + repeat split; simpl; try exact I; assumption.
  - destruct cc; try contradiction. subst.
    destruct r3o as [o3|v3|]; destruct r3s as [c3|]; simpl in Hb2; try contradiction.
    + destruct o3; destruct c3; simpl in Hb2; try contradiction; simpl;
        repeat split; simpl; try assumption; try reflexivity; exact Hr3.
    + destruct c3; try contradiction. repeat split; simpl; assumption.
    + repeat split; simpl; try exact I; assumption.
Qed.

(* shared tail: what both loop forms do with the body's outcome, given that "again" is simulated *)
Lemma sim_loop_tail G LS (s1 : st) (ro : ores val) (rs : sres val) (acc : oval val)
      (agO : oval val -> st * list label * ores val) (agS : st * sres val) :
  is_res acc = false ->
  rel [] ro rs ->
  (forall g, In g G -> nj_s g rs) ->
  (forall acc', is_res acc' = false -> simres0 LS (agO acc') agS) ->
  simres0 LS
    (match ro with
     | ONorm o =>
        match o with
        | OBrk t => if mem t ((G ++ LS) ++ [0]) then (s1, [], ONorm acc) else (s1, [], ONorm o)
        | OCont t => if mem t ((G ++ LS) ++ [0]) then agO acc else (s1, [], ONorm o)
        | ORet _ => (s1, [], ONorm o)
        | OEmpty => agO acc
        | OVal _ => agO o
        end
     | r => (s1, [], r) end)
    (match rs with
     | SDone c =>
        match c with
        | CBreak t => if mem t (LS ++ [0]) then (s1, SDone CNormal) else (s1, SDone c)
        | CContinue t => if mem t (LS ++ [0]) then agS else (s1, SDone c)
        | CNormal => agS
        | _ => (s1, SDone c)
        end
     | r => (s1, r) end).
Proof.
  intros Hacc Hrel Hnj Hag.
  destruct ro as [o|v'|]; destruct rs as [c|]; simpl in Hrel; try contradiction.
  - destruct o; destruct c; simpl in Hrel; try contradiction; subst.
    + apply Hag; assumption.
    + apply Hag; reflexivity.
    + rename l0 into t. rewrite !mem_app.
      destruct (mem t G) eqn:EG.
      { apply mem_In in EG. specialize (Hnj _ EG). simpl in Hnj. congruence. }
      destruct (mem t LS) eqn:EL; destruct (mem t [0]) eqn:E0; cbn [orb].
      * repeat split; simpl. destruct acc; simpl in *; try exact I; discriminate.
      * repeat split; simpl. destruct acc; simpl in *; try exact I; discriminate.
      * repeat split; simpl. destruct acc; simpl in *; try exact I; discriminate.
      * repeat split; simpl. rewrite EL. reflexivity.
    + rename l0 into t. rewrite !mem_app.
      destruct (mem t G) eqn:EG.
      { apply mem_In in EG. specialize (Hnj _ EG). simpl in Hnj. congruence. }
      cbn [orb]. destruct (mem t LS || mem t [0]) eqn:EL.
      * apply Hag; assumption.
      * repeat split; simpl; reflexivity.
    + repeat split; simpl; reflexivity.
  - destruct c; try contradiction. subst. repeat split; simpl; reflexivity.
  - repeat split; simpl; exact I.
Qed.

Lemma sim_dowhile fuel (IH : IHfuel fuel) e (body : list stmt) G LS :
  wf_list body = true ->
  (forall g, In g G -> targets_list g body = false) ->
  forall n s0 acc, is_res acc = false ->
    simres0 LS (odowhile eval truthy (exec_o fuel) n ((G ++ LS) ++ [0]) e body s0 [] acc)
               (sdowhile eval truthy (exec_s fuel) n (LS ++ [0]) e body s0).
Proof.
  intros Hwf HG. induction n as [|n IHn]; intros s0 acc Hacc; simpl.
  - repeat split; simpl; exact I.
  - pose proof (sim_list fuel IH body OEmpty s0 eq_refl Hwf) as Hs.
    assert (Hnj : forall g, In g G -> nj_s g (snd (slist (exec_s fuel) s0 body))).
    { intros g Hg. apply nj_slist_exec. auto. }
    destruct (olist (exec_o fuel) s0 [] OEmpty body) as [[s1 L1] ro]. destruct (slist (exec_s fuel) s0 body) as [s2 rs].
    destruct Hs as [Hst [Hrel HL]]. simpl in *. subst s2 L1.
    pose proof (sim_loop_tail G LS s1 ro rs acc
      (fun acc' => match eval s1 e with
                   | (s', inr x) => (s', [], OExn x)
                   | (s', inl v) => if truthy v then odowhile eval truthy (exec_o fuel) n ((G ++ LS) ++ [0]) e body s' [] acc'
                                    else (s', [], ONorm acc') end)
      (match eval s1 e with
       | (s', inr x) => (s', SDone (CThrow x))
       | (s', inl v) => if truthy v then sdowhile eval truthy (exec_s fuel) n (LS ++ [0]) e body s' else (s', SDone CNormal)
       end) Hacc Hrel Hnj) as T.
    destruct ro as [o|v'|]; destruct rs as [c|]; simpl in Hrel; try contradiction; apply T;
      intros acc' Hacc'; destruct (eval s1 e) as [s' [v|x]]; try (repeat split; simpl; reflexivity);
      (destruct (truthy v); [apply IHn; assumption|repeat split; simpl; destruct acc'; simpl in *; try exact I; discriminate]).
Qed.

Lemma sim_for fuel (IH : IHfuel fuel) test upd (body : list stmt) G LS :
  wf_list body = true ->
  (forall g, In g G -> targets_list g body = false) ->
  forall n s0 acc, is_res acc = false ->
    simres0 LS (ofor eval truthy poll (exec_o fuel) n ((G ++ LS) ++ [0]) test upd body s0 [] acc)
               (sfor eval truthy poll (exec_s fuel) n (LS ++ [0]) test upd body s0).
Proof.
  intros Hwf HG. induction n as [|n IHn]; intros s0 acc Hacc; cbn [ofor sfor].
  - repeat split; simpl; exact I.
  - set (agO := fun (s1 : st) (acc' : oval val) =>
            match upd with
            | Some u => match eval s1 u with
                        | (s2, inl _) => ofor eval truthy poll (exec_o fuel) n ((G ++ LS) ++ [0]) test upd body s2 [] acc'
                        | (s2, inr x) => (s2, [], OExn x)
                        end
            | None => ofor eval truthy poll (exec_o fuel) n ((G ++ LS) ++ [0]) test upd body s1 [] acc'
            end).
    set (agS := fun (s1 : st) =>
            match upd with
            | Some u => match eval s1 u with
                        | (s2, inl _) => sfor eval truthy poll (exec_s fuel) n (LS ++ [0]) test upd body s2
                        | (s2, inr x) => (s2, SDone (CThrow x))
                        end
            | None => sfor eval truthy poll (exec_s fuel) n (LS ++ [0]) test upd body s1
            end).
    assert (Hag : forall s1 acc', is_res acc' = false -> simres0 LS (agO s1 acc') (agS s1)).
    { intros s1 acc' Hacc'. unfold agO, agS. destruct upd as [u|]; [|apply IHn; assumption].
      destruct (eval s1 u) as [s2 [v|x]]; [apply IHn; assumption|repeat split; simpl; reflexivity]. }
    assert (Hgo : forall s'', simres0 LS
       (match olist (exec_o fuel) s'' [] OEmpty body with
        | (s1, L1, ONorm o) =>
          match o with
          | OBrk t => if mem t ((G ++ LS) ++ [0]) then (s1, L1, ONorm acc) else (s1, L1, ONorm o)
          | OCont t => if mem t ((G ++ LS) ++ [0]) then
              match upd with
              | Some u => match eval s1 u with
                          | (s2, inl _) => ofor eval truthy poll (exec_o fuel) n ((G ++ LS) ++ [0]) test upd body s2 L1 acc
                          | (s2, inr x) => (s2, L1, OExn x)
                          end
              | None => ofor eval truthy poll (exec_o fuel) n ((G ++ LS) ++ [0]) test upd body s1 L1 acc
              end else (s1, L1, ONorm o)
          | ORet _ => (s1, L1, ONorm o)
          | OEmpty =>
              match upd with
              | Some u => match eval s1 u with
                          | (s2, inl _) => ofor eval truthy poll (exec_o fuel) n ((G ++ LS) ++ [0]) test upd body s2 L1 acc
                          | (s2, inr x) => (s2, L1, OExn x)
                          end
              | None => ofor eval truthy poll (exec_o fuel) n ((G ++ LS) ++ [0]) test upd body s1 L1 acc
              end
          | OVal _ =>
              match upd with
              | Some u => match eval s1 u with
                          | (s2, inl _) => ofor eval truthy poll (exec_o fuel) n ((G ++ LS) ++ [0]) test upd body s2 L1 o
                          | (s2, inr x) => (s2, L1, OExn x)
                          end
              | None => ofor eval truthy poll (exec_o fuel) n ((G ++ LS) ++ [0]) test upd body s1 L1 o
              end
          end
        | r => r
        end)
       (match slist (exec_s fuel) s'' body with
        | (s1, SDone c) =>
          match c with
          | CBreak t => if mem t (LS ++ [0]) then (s1, SDone CNormal) else (s1, SDone c)
          | CContinue t => if mem t (LS ++ [0]) then agS s1 else (s1, SDone c)
          | CNormal => agS s1
          | _ => (s1, SDone c)
          end
        | r => r
        end)).
    { intros s''.
      pose proof (sim_list fuel IH body OEmpty s'' eq_refl Hwf) as Hs.
      assert (Hnj : forall g, In g G -> nj_s g (snd (slist (exec_s fuel) s'' body))).
      { intros g Hg. apply nj_slist_exec. auto. }
      destruct (olist (exec_o fuel) s'' [] OEmpty body) as [[s1 L1] ro]. destruct (slist (exec_s fuel) s'' body) as [s2 rs].
      destruct Hs as [Hst [Hrel HL]]. simpl in *. subst s2 L1.
      pose proof (sim_loop_tail G LS s1 ro rs acc (agO s1) (agS s1) Hacc Hrel Hnj (Hag s1)) as T.
      destruct ro as [o|v'|]; destruct rs as [c|]; simpl in Hrel; try contradiction; exact T. }
    assert (Hacc0 : forall s', simres0 LS (s', [], ONorm acc) (s', SDone CNormal)).
    { intros s'. repeat split; simpl. destruct acc; simpl in *; try exact I; discriminate. }
    destruct test as [e|].
    + destruct (eval s0 e) as [s' [v|x]]; [|repeat split; simpl; reflexivity].
      destruct (truthy v); [|apply Hacc0].
      destruct body as [|b0 bs]; [|apply Hgo].
      destruct (poll s') as [s'' [x|]]; [repeat split; simpl; reflexivity|apply Hgo].
    + destruct body as [|b0 bs]; [|apply Hgo].
      destruct (poll s0) as [s'' [x|]]; [repeat split; simpl; reflexivity|apply Hgo].
Qed.

(* ---- for-in: otto's two nested loops (prototype chain outside, names inside) are one flat enumeration ---- *)
Section ForIn.
Variable exec : st -> list label -> stmt -> st * list label * ores val.
Fixpoint oflat (labels : list label) (tgt : expr) (body : list stmt) (ks : list val)
         (s : st) (L : list label) (acc : oval val) : st * list label * ores val :=
  match ks with
  | [] => (s, L, ONorm acc)
  | k :: ks' =>
    if live s k then
      match bind s tgt k with
      | (s1, Some x) => (s1, L, OExn x)
      | (s1, None) =>
        match olist exec s1 L OEmpty body with
        | (s2, L2, ONorm o) =>
          match o with
          | OBrk t => if mem t labels then (s2, L2, ONorm acc) else (s2, L2, ONorm o)
          | OCont t => if mem t labels then oflat labels tgt body ks' s2 L2 acc else (s2, L2, ONorm o)
          | ORet _ => (s2, L2, ONorm o)
          | OEmpty => oflat labels tgt body ks' s2 L2 acc
          | OVal _ => oflat labels tgt body ks' s2 L2 o
          end
        | r => r
        end
      end
    else oflat labels tgt body ks' s L acc
  end.

Lemma oflat_app labels tgt body rest : forall ks s L acc,
  oflat labels tgt body (ks ++ rest) s L acc =
  match okeys live bind exec labels tgt body ks s L acc with
  | (r, true) => r
  | ((s', L', ONorm acc'), false) => oflat labels tgt body rest s' L' acc'
  | (r, false) => r
  end.
Proof.
  induction ks as [|k ks IH]; intros s L acc; cbn [app oflat okeys]; [reflexivity|].
  destruct (live s k); [|apply IH].
  destruct (bind s tgt k) as [s1 [x|]]; [reflexivity|].
  destruct (olist exec s1 L OEmpty body) as [[s2 L2] [o|v|]]; try reflexivity.
  destruct o as [|w|t|t|w]; try reflexivity; try apply IH.
  - destruct (mem t labels); reflexivity.
  - destruct (mem t labels); [apply IH|reflexivity].
Qed.

Lemma olevels_flat labels tgt body : forall lv s L acc,
  olevels live bind exec labels tgt body lv s L acc = oflat labels tgt body (concat lv) s L acc.
Proof.
  induction lv as [|ks lv IH]; intros s L acc; cbn [olevels concat]; [reflexivity|].
  rewrite oflat_app.
  destruct (okeys live bind exec labels tgt body ks s L acc) as [[[s' L'] r] [|]]; [reflexivity|].
  destruct r as [acc'|v|]; [apply IH|reflexivity|reflexivity].
Qed.
End ForIn.

Lemma sim_flat fuel (IH : IHfuel fuel) tgt (body : list stmt) G LS :
  wf_list body = true ->
  (forall g, In g G -> targets_list g body = false) ->
  forall ks s0 acc, is_res acc = false ->
    simres0 LS (oflat (exec_o fuel) ((G ++ LS) ++ [0]) tgt body ks s0 [] acc)
               (skeys live bind (exec_s fuel) (LS ++ [0]) tgt body ks s0).
Proof.
  intros Hwf HG. induction ks as [|k ks IHk]; intros s0 acc Hacc; cbn [oflat skeys].
  - repeat split; simpl. destruct acc; simpl in *; try exact I; discriminate.
  - destruct (live s0 k); [|apply IHk; assumption].
    destruct (bind s0 tgt k) as [s1 [x|]]; [repeat split; simpl; reflexivity|].
    pose proof (sim_list fuel IH body OEmpty s1 eq_refl Hwf) as Hs.
    assert (Hnj : forall g, In g G -> nj_s g (snd (slist (exec_s fuel) s1 body))).
    { intros g Hg. apply nj_slist_exec. auto. }
    destruct (olist (exec_o fuel) s1 [] OEmpty body) as [[s2 L2] ro]. destruct (slist (exec_s fuel) s1 body) as [s2' rs].
    destruct Hs as [Hst [Hrel HL]]. simpl in *. subst s2' L2.
    pose proof (sim_loop_tail G LS s2 ro rs acc
      (fun acc' => oflat (exec_o fuel) ((G ++ LS) ++ [0]) tgt body ks s2 [] acc')
      (skeys live bind (exec_s fuel) (LS ++ [0]) tgt body ks s2) Hacc Hrel Hnj) as T.
    destruct ro as [o|v'|]; destruct rs as [c|]; simpl in Hrel; try contradiction; apply T;
      intros acc' Hacc'; apply IHk; assumption.
Qed.

Lemma pop_snoc (X : list label) t : pop (X ++ [t]) = X.
Proof. unfold pop. destruct (X ++ [t]) eqn:E; [destruct X; discriminate|]. rewrite <- E. apply removelast_last. Qed.

Lemma conv_snoc LS t (c : compl val) :
  conv LS (match c with CBreak t' => if Nat.eqb t' t then CNormal else c | _ => c end) = conv (LS ++ [t]) c.
Proof.
  destruct c; simpl; try reflexivity. rewrite mem_app. simpl.
  destruct (Nat.eqb l t) eqn:E; simpl.
  - rewrite orb_true_r. reflexivity.
  - rewrite orb_false_r. reflexivity.
Qed.

Theorem sim_all : forall fuel, IHfuel fuel.
Proof.
  induction fuel as [|fuel IH]; intros s s00 G LS Hwf HG HLS.
  { repeat split; simpl; try exact I. now left. }
  cbn [Sem.exec_o Sem.exec_s]. destruct (poll s00) as [s0 [xp|]].
  { repeat split; simpl; try reflexivity. now left. }
  destruct s as [e|l|e s1 s2|e body|body e|init test upd body|l|l|e|l s|e|b c f|e cases|tgt src body]; cbn [Sem.exec_o Sem.exec_s].
  - (* SExpr *)
    destruct (eval s0 e) as [s1 [v|x]]; repeat split; simpl; try exact I; try reflexivity; now left.
  - (* SBlock *)
    rewrite wf_block in Hwf.
    pose proof (sim_block fuel IH l s0 G LS Hwf) as Hs.
    destruct Hs as [H1 [H2 H3]]; [intros g Hg; rewrite <- targets_block; auto|].
    repeat split; try assumption. now right.
  - (* SIf *)
    simpl in Hwf. apply andb_true_iff in Hwf as [Hw1 Hw2].
    assert (HG1 : forall g, In g (G ++ LS) -> targets g s1 = false).
    { intros g Hg. apply in_app_or in Hg as [Hg|Hg].
      - specialize (HG g Hg). simpl in HG. apply orb_false_iff in HG. tauto.
      - specialize (HLS g Hg). simpl in HLS. apply negb_true_iff in HLS. apply orb_false_iff in HLS. tauto. }
    assert (HG2 : forall s2', s2 = Some s2' -> forall g, In g (G ++ LS) -> targets g s2' = false).
    { intros s2' -> g Hg. apply in_app_or in Hg as [Hg|Hg].
      - specialize (HG g Hg). simpl in HG. apply orb_false_iff in HG. tauto.
      - specialize (HLS g Hg). simpl in HLS. apply negb_true_iff in HLS. apply orb_false_iff in HLS. tauto. }
    assert (Hgen : forall x s', wf x = true -> (forall g, In g (G ++ LS) -> targets g x = false) ->
               simres G LS (exec_o fuel s' (G ++ LS) x) (exec_s fuel s' [] x)).
    { intros x s' Hwx Hgx.
      pose proof (IH x s' (G ++ LS) [] Hwx Hgx (fun t H => match H with end)) as Hs.
      rewrite app_nil_r in Hs. destruct Hs as [H1 [H2 H3]]. repeat split; try assumption.
      - apply rel_weaken; [assumption|]. intros t Ht. apply nj_exec_s. apply Hgx. apply in_or_app. now right.
      - destruct H3 as [H3|H3]; [left; rewrite app_nil_r in H3|right]; assumption. }
    destruct (eval s0 e) as [s' [v|x]].
    2:{ repeat split; simpl; try reflexivity. now left. }
    destruct (truthy v); [apply Hgen; assumption|].
    destruct s2 as [s2'|].
    + apply Hgen; [assumption|]. eapply HG2; reflexivity.
    + repeat split; simpl; try exact I. now left.
  - (* SWhile *)
    rewrite wf_while in Hwf.
    pose proof (sim_while fuel IH e body G LS Hwf) as Hs.
    destruct (Hs (fun g Hg => eq_trans (eq_sym (targets_while g e body)) (HG g Hg)) fuel s0 OEmpty eq_refl) as [H1 [H2 H3]].
    repeat split; try assumption. now right.
  - (* SDoWhile *)
    rewrite wf_dowhile in Hwf.
    pose proof (sim_dowhile fuel IH e body G LS Hwf) as Hs.
    destruct (Hs (fun g Hg => eq_trans (eq_sym (targets_dowhile g e body)) (HG g Hg)) fuel s0 OEmpty eq_refl) as [H1 [H2 H3]].
    repeat split; try assumption. now right.
  - (* SFor *)
    rewrite wf_for in Hwf.
    pose proof (sim_for fuel IH test upd body G LS Hwf) as Hs.
    assert (Hf : forall s1, simres G LS
       (ofor eval truthy poll (exec_o fuel) fuel ((G ++ LS) ++ [0]) test upd body s1 [] OEmpty)
       (sfor eval truthy poll (exec_s fuel) fuel (LS ++ [0]) test upd body s1)).
    { intros s1.
      destruct (Hs (fun g Hg => eq_trans (eq_sym (targets_for g init test upd body)) (HG g Hg)) fuel s1 OEmpty eq_refl) as [H1 [H2 H3]].
      repeat split; try assumption. now right. }
    destruct (poll s0) as [sq [xq|]]; [repeat split; simpl; try reflexivity; now right|].
    destruct init as [i|]; [|apply Hf].
    destruct (eval sq i) as [s1 [v|x]]; [apply Hf|].
    repeat split; simpl; try reflexivity. now right.
  - (* SBreak *)
    repeat split; simpl; try (now left).
    destruct (mem l LS) eqn:E; [|reflexivity].
    apply mem_In in E. specialize (HLS _ E). simpl in HLS. apply negb_true_iff in HLS.
    rewrite Nat.eqb_refl in HLS. discriminate.
  - (* SContinue *)
    repeat split; simpl; try reflexivity. now left.
  - (* SReturn *)
    destruct (eval s0 e) as [s1 [v|x]]; repeat split; simpl; try reflexivity; now left.
  - (* SLabelled *)
    simpl in Hwf. apply andb_true_iff in Hwf as [Hwf Hws]. apply andb_true_iff in Hwf as [Hl0 Hok].
    pose proof (IH s s0 G (LS ++ [l]) Hws) as Hs.
    rewrite app_assoc in Hs.
    destruct Hs as [H1 [H2 H3]].
    { intros g Hg. apply (HG g Hg). }
    { intros t Ht. apply in_app_or in Ht as [Ht|[<-|[]]]; [apply (HLS t Ht)|assumption]. }
    destruct (exec_o fuel s0 ((G ++ LS) ++ [l]) s) as [[s1 L1] ro].
    destruct (exec_s fuel s0 (LS ++ [l]) s) as [s2 rs]. simpl in *. subst s2.
    assert (HL : pop L1 = G ++ LS \/ pop L1 = []).
    { destruct H3 as [->| ->]; [left; rewrite app_assoc; apply pop_snoc|right; reflexivity]. }
    (* the consume step of the labelled statement never fires for a well-formed body: a break to l that the
       spec side still carries has been taken by the body on the otto side already *)
    assert (Hro : match ro with
                  | ONorm (OBrk t') => if Nat.eqb t' l then (s1, pop L1, ONorm OEmpty) else (s1, pop L1, ONorm (OBrk t'))
                  | r => (s1, pop L1, r)
                  end = (s1, pop L1, ro)).
    { destruct ro as [[| |t'| |]| |]; try reflexivity.
      destruct (Nat.eqb t' l) eqn:E; [|reflexivity]. apply Nat.eqb_eq in E. subst t'.
      exfalso. destruct rs as [c|]; simpl in H2; [|contradiction].
      destruct c as [|t''|t''|v'|v']; simpl in H2; try contradiction.
      destruct (mem t'' (LS ++ [l])) eqn:Em; simpl in H2; [contradiction|].
      subst t''. rewrite mem_app in Em. simpl in Em. rewrite Nat.eqb_refl in Em.
      rewrite orb_true_r in Em. discriminate Em. }
    rewrite Hro. clear Hro.
    destruct rs as [c|].
    + pose proof (conv_snoc LS l c) as Ec. unfold label in *.
      destruct c as [|t'|t'|v'|v']; simpl in Ec |- *.
      * repeat split; simpl; try assumption; destruct ro; simpl in *; try contradiction; try assumption.
      * destruct (Nat.eqb t' l) eqn:E.
        -- repeat split; simpl; try assumption;
           destruct ro as [o|v|]; simpl in *; try contradiction; [revert H2 Ec; destruct (mem t' (LS ++ [l])); intros H2 Ec; [exact H2 | discriminate Ec]].
        -- repeat split; simpl; try assumption;
           destruct ro as [o|v|]; simpl in *; try contradiction; try (revert H2 Ec; destruct (mem t' (LS ++ [l])); destruct (mem t' LS); intros H2 Ec; try discriminate Ec; exact H2).
      * repeat split; simpl; try assumption; destruct ro; simpl in *; try contradiction; try assumption.
      * repeat split; simpl; try assumption; destruct ro; simpl in *; try contradiction; try assumption.
      * repeat split; simpl; try assumption; destruct ro; simpl in *; try contradiction; try assumption.
    + repeat split; simpl; try assumption.
  - (* SThrow *)
    destruct (eval s0 e) as [s1 [v|x]]; repeat split; simpl; try reflexivity; now left.
  - (* STry *)
    rewrite wf_try in Hwf. apply andb_true_iff in Hwf as [Hwf Hwff]. apply andb_true_iff in Hwf as [Hwb Hwc].
    assert (Hc : forall t, In t LS -> targets_olist t c = false).
    { intros t Ht. specialize (HLS t Ht). simpl in HLS. apply andb_true_iff in HLS as [H _]. now apply negb_true_iff in H. }
    assert (Hf : forall t, In t LS -> targets_olist t f = false).
    { intros t Ht. specialize (HLS t Ht). simpl in HLS. apply andb_true_iff in HLS as [_ H]. now apply negb_true_iff in H. }
    assert (Hb : forall g, In g G -> targets_list g b = false).
    { intros g Hg. specialize (HG g Hg). rewrite targets_try in HG.
      apply orb_false_iff in HG as [HG _]. apply orb_false_iff in HG as [HG _]. exact HG. }
    assert (HGc : forall g, In g G -> targets_olist g c = false).
    { intros g Hg. specialize (HG g Hg). rewrite targets_try in HG.
      apply orb_false_iff in HG as [HG _]. apply orb_false_iff in HG as [_ HG]. exact HG. }
    assert (HGf : forall g, In g G -> targets_olist g f = false).
    { intros g Hg. specialize (HG g Hg). rewrite targets_try in HG.
      apply orb_false_iff in HG as [_ HG]. exact HG. }
    assert (H1 : simres G LS (opolled poll (oblock (exec_o fuel)) s0 (G ++ LS) b) (spolled poll (slist (exec_s fuel)) s0 b)).
    { unfold opolled, spolled. destruct (poll s0) as [s1 [xp1|]].
      - repeat split; simpl; try reflexivity. now left.
      - destruct (sim_block fuel IH b s1 G LS Hwb Hb) as [A1 [A2 A3]]. repeat split; try assumption. now right. }
    pose proof (sim_catch fuel IH _ _ c G LS H1 Hwc Hc HGc) as H2.
    exact (sim_finally fuel IH _ _ f G LS H2 Hwff Hf HGf).
  - (* SSwitch *)
    rewrite wf_switch in Hwf.
    destruct (eval s0 e) as [s1 [v|x]].
    2:{ repeat split; simpl; try reflexivity. now right. }
    destruct (find_case eval veq cases v s1 0) as [s2 [r|x]].
    2:{ repeat split; simpl; try reflexivity. now right. }
    destruct (switch_target cases r) as [i|].
    2:{ repeat split; simpl; try exact I. now right. }
    assert (HGb : forall g, In g G -> targets_list g (body_from cases i) = false).
    { intros g Hg. apply targets_list_skipn. rewrite <- targets_switch with (e := e). auto. }
    pose proof (sim_block fuel IH (body_from cases i) s2 G (LS ++ [0]) (wf_list_skipn cases i Hwf) HGb) as Hs.
    rewrite app_assoc in Hs.
    destruct (oblock (exec_o fuel) s2 ((G ++ LS) ++ [0]) (body_from cases i)) as [[s3 L3] ro].
    destruct (slist (exec_s fuel) s2 (body_from cases i)) as [s3' rs].
    destruct Hs as [Hst [Hrel HL]]. simpl in *. subst s3' L3.
    destruct rs as [c|]; [|repeat split; simpl; try assumption; now right].
    destruct c as [|t|t|v'|v']; try (repeat split; simpl; try assumption; now right).
    destruct ro as [o|w|]; cbn [rel] in Hrel; try contradiction.
    unfold conv in Hrel.
    destruct (mem t (LS ++ [0])) eqn:E.
    + repeat split; simpl; try assumption. now right.
    + rewrite mem_app in E. apply orb_false_iff in E as [EL _].
      repeat split; simpl; try rewrite EL; try assumption. now right.
  - (* SForIn *)
    rewrite wf_forin in Hwf.
    destruct (enum s0 src) as [s1 [lv|x]].
    2:{ repeat split; simpl; try reflexivity. now right. }
    rewrite olevels_flat.
    destruct (sim_flat fuel IH tgt body G LS Hwf
                (fun g Hg => eq_trans (eq_sym (targets_forin g tgt src body)) (HG g Hg)) (concat lv) s1 OEmpty eq_refl) as [H1 [H2 H3]].
    repeat split; try assumption. now right.
Qed.

(* Top-level statement of the prototype theorem: a well-formed program run from rest. *)
Corollary control_flow_refines fuel (s : stmt) s0 :
  wf s = true ->
  let '(s1, L1, ro) := exec_o fuel s0 [] s in
  let '(s2, rs) := exec_s fuel s0 [] s in
  s1 = s2 /\ rel [] ro rs /\ L1 = [].
Proof.
  intros Hwf. pose proof (sim_all fuel s s0 [] [] Hwf (fun g H => match H with end) (fun g H => match H with end)) as H.
  simpl in H. destruct (exec_o fuel s0 [] s) as [[s1 L1] ro]. destruct (exec_s fuel s0 [] s) as [s2 rs].
  destruct H as [H1 [H2 H3]]. simpl in *. repeat split; try assumption. destruct H3; assumption.
Qed.
(* 12.12 on the otto side, for every body (no guard): a labelled statement never hands a break to its own
   label on to its context - what used to leak out of  l: if (c) break l  and its relatives *)
Lemma labelled_takes_own_break fuel s0 L l (s : stmt) :
  match snd (exec_o fuel s0 L (SLabelled l s)) with ONorm (OBrk t) => t <> l | _ => True end.
Proof.
  destruct fuel as [|fuel]; cbn [Sem.exec_o]; [exact I|].
  destruct (poll s0) as [s0' [x|]]; [exact I|].
  destruct (exec_o fuel s0' (L ++ [l]) s) as [[s1 L1] [[| |t| |]| |]]; cbn; try exact I.
  destruct (Nat.eqb t l) eqn:E; cbn; [exact I|]. now apply Nat.eqb_neq.
Qed.

End Sim.

Check control_flow_refines.
Print Assumptions control_flow_refines.
