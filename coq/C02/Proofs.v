(* C02 - proofs about Model.v *)
From Coq Require Import ZArith Bool List Lia.
From Otto Require Import C02.Model.
Import ListNotations.
Open Scope Z_scope.

(* ------------------------------------------------------------- catchPanic *)

Lemma catch_panic_js : forall p, is_js p = true -> exists c, catch_panic p = AErr c.
Proof.
  intros [b|b]; unfold is_js, catch_panic; cbn [eject];
    destruct b as [c|c|[c| |]| | | | |]; cbn; intro H; try discriminate; eauto.
Qed.

Lemma catch_panic_foreign : forall p, is_js p = false -> catch_panic p = APanic (Raw (eject p)).
Proof.
  intros [b|b]; unfold is_js, catch_panic; cbn [eject];
    destruct b as [c|c|[c| |]| | | | |]; cbn; intro H; try discriminate; reflexivity.
Qed.

Lemma catch_panic_escape_iff : forall p, (exists q, catch_panic p = APanic q) <-> is_js p = false.
Proof.
  intro p. split.
  - intros [q Hq]. destruct (is_js p) eqn:E; [|reflexivity].
    destruct (catch_panic_js p E) as [c Hc]. congruence.
  - intro H. eexists. apply catch_panic_foreign. exact H.
Qed.

Lemma catch_panic_classifies : forall p,
  (is_js p = true -> exists c, catch_panic p = AErr c) /\
  (is_js p = false -> catch_panic p = APanic (Raw (eject p))) /\
  (catch_panic p <> ARet).
Proof.
  intro p. split; [apply catch_panic_js|]. split; [apply catch_panic_foreign|].
  destruct p as [b|b]; unfold catch_panic; cbn [eject];
    destruct b as [c|c|[c| |]| | | | |]; discriminate.
Qed.

(* ------------------------------------------------------- tryCatchEvaluate *)

Lemma try_catch_never_foreign : forall p,
  match try_catch p with TCaught _ => True | TRaised q => is_js q = true end.
Proof.
  intros [b|b]; unfold try_catch; cbn [eject]; destruct b as [c|c|v| | | | |]; cbn; auto.
Qed.

(* ---------------------------------------------------------- scope chain *)

Lemma enter_some : forall L st st1, enter L st = Some st1 -> exists d, st1 = d :: st.
Proof.
  intros L [|d st] st1 H; cbn in H.
  - injection H as <-. eauto.
  - destruct (negb (L =? 0) && (L <=? d + 1)); [discriminate|]. injection H as <-. eauto.
Qed.

(* defer leaveScope: whatever happens inside, the scope chain is what it was *)
Lemma eval_chain : forall c L ctx st, snd (fst (eval L ctx c st)) = st.
Proof.
  induction c as [|p|a IHa b IHb|body IH|body IHb h IHh|]; intros L ctx st; cbn [eval].
  - reflexivity.
  - reflexivity.
  - specialize (IHa L ctx st). destruct (eval L ctx a st) as [[o st1] m1]. cbn in IHa. subst st1.
    destruct o; [|reflexivity].
    specialize (IHb L ctx st). destruct (eval L ctx b st) as [[o2 st2] m2]. exact IHb.
  - destruct (enter L st) as [st1|] eqn:E; [|reflexivity].
    apply enter_some in E. destruct E as [d ->].
    specialize (IH L ctx (d :: st)). destruct (eval L ctx body (d :: st)) as [[o st2] m].
    cbn in IH. subst st2. reflexivity.
  - specialize (IHb L ctx st). destruct (eval L ctx body st) as [[o st1] m]. cbn in IHb. subst st1.
    destruct o; [reflexivity|].
    destruct (try_catch p); [|reflexivity].
    specialize (IHh L (Some v) st). destruct (eval L (Some v) h st) as [[o2 st2] m2]. cbn in IHh. subst st2.
    destruct o2; [reflexivity|]. destruct (try_catch p0); reflexivity.
  - destruct ctx; reflexivity.
Qed.

(* the guard: no scope deeper than limit-1 ever becomes current *)
Lemma eval_max_bound : forall c L ctx st, 1 <= L -> cur st < L -> snd (eval L ctx c st) < L.
Proof.
  induction c as [|p|a IHa b IHb|body IH|body IHb h IHh|]; intros L ctx st HL Hc; cbn [eval].
  - exact Hc.
  - exact Hc.
  - pose proof (IHa L ctx st HL Hc) as Ha. pose proof (eval_chain a L ctx st) as Ca.
    destruct (eval L ctx a st) as [[o st1] m1]. cbn in Ha, Ca. subst st1.
    destruct o; [|exact Ha].
    pose proof (IHb L ctx st HL Hc) as Hb.
    destruct (eval L ctx b st) as [[o2 st2] m2]. cbn in *. lia.
  - destruct (enter L st) as [st1|] eqn:E; [|exact Hc].
    assert (cur st1 < L) as Hc1.
    { destruct st as [|d st]; cbn in E.
      - injection E as <-. cbn. lia.
      - destruct (Z.eqb_spec L 0); [lia|]. cbn [negb andb] in E.
        destruct (Z.leb_spec L (d + 1)); [discriminate|]. injection E as <-. cbn. lia. }
    pose proof (IH L ctx st1 HL Hc1) as Hb.
    destruct (eval L ctx body st1) as [[o st2] m]. cbn in *. lia.
  - pose proof (IHb L ctx st HL Hc) as Hb. pose proof (eval_chain body L ctx st) as Cb.
    destruct (eval L ctx body st) as [[o st1] m]. cbn in Hb, Cb. subst st1.
    destruct o; [exact Hb|].
    destruct (try_catch p); [|exact Hb].
    pose proof (IHh L (Some v) st HL Hc) as Hh.
    destruct (eval L (Some v) h st) as [[o2 st2] m2].
    destruct o2; [cbn in *; lia|]. destruct (try_catch p0); cbn in *; lia.
  - destruct ctx; exact Hc.
Qed.

(* d nested calls below a scope of depth k < L: RangeError iff k + d reaches the limit *)
Lemma nest_outcome : forall n L ctx k st, 1 <= L -> k < L ->
  fst (fst (eval L ctx (nest n) (k :: st))) =
  if L <=? k + Z.of_nat n then OPanic (Exc (BOttoError RangeErr)) else ONormal.
Proof.
  induction n as [|n IH]; intros L ctx k st HL Hk.
  - cbn [nest eval fst Z.of_nat]. destruct (Z.leb_spec L (k + 0)); [lia|reflexivity].
  - cbn [nest eval enter].
    destruct (Z.eqb_spec L 0); [lia|]. cbn [negb andb].
    destruct (Z.leb_spec L (k + 1)) as [H1|H1].
    + cbn [fst]. destruct (Z.leb_spec L (k + Z.of_nat (S n))); [reflexivity|lia].
    + specialize (IH L ctx (k + 1) (k :: st) HL H1).
      destruct (eval L ctx (nest n) (k + 1 :: k :: st)) as [[o st2] m]. cbn [fst] in *.
      rewrite IH. replace (k + 1 + Z.of_nat n) with (k + Z.of_nat (S n)) by lia. reflexivity.
Qed.

Lemma nest_outcome_nolimit : forall n ctx st, fst (fst (eval 0 ctx (nest n) st)) = ONormal.
Proof.
  induction n as [|n IH]; intros ctx st; [reflexivity|].
  cbn [nest eval]. destruct st as [|d st]; cbn [enter Z.eqb negb andb].
  - specialize (IH ctx [0]). destruct (eval 0 ctx (nest n) [0]) as [[o st2] m]. exact IH.
  - specialize (IH ctx (d + 1 :: d :: st)). destruct (eval 0 ctx (nest n) (d + 1 :: d :: st)) as [[o st2] m]. exact IH.
Qed.

(* Otto.Run of d nested calls: RangeError iff d >= L (L >= 1); never with L = 0 *)
Lemma run_nest : forall L d, 1 <= L ->
  run L (nest d) = if L <=? Z.of_nat d then AErr RangeErr else ARet.
Proof.
  intros L d HL. unfold run. cbn [eval enter].
  pose proof (nest_outcome d L None 0 [] HL ltac:(lia)) as H.
  destruct (eval L None (nest d) [0]) as [[o st2] m]. cbn [fst] in H. subst o.
  replace (0 + Z.of_nat d) with (Z.of_nat d) by lia.
  destruct (L <=? Z.of_nat d); reflexivity.
Qed.

Lemma run_nest_nolimit : forall d, run 0 (nest d) = ARet.
Proof.
  intro d. unfold run. cbn [eval enter].
  pose proof (nest_outcome_nolimit d None [0]) as H.
  destruct (eval 0 None (nest d) [0]) as [[o st2] m]. cbn [fst] in H. subst o. reflexivity.
Qed.

Lemma run_nest_iff : forall L d, 1 <= L ->
  (run L (nest d) = AErr RangeErr <-> L <= Z.of_nat d) /\
  (run L (nest d) = ARet <-> Z.of_nat d < L).
Proof.
  intros L d HL. rewrite (run_nest L d HL).
  destruct (Z.leb_spec L (Z.of_nat d)); split; split; intro X; try lia; try reflexivity; discriminate.
Qed.

(* the RangeError of the guard is an ordinary catchable exception *)
Lemma run_nest_caught : forall L d, run L (Try (nest d) Ret) = ARet.
Proof.
  intros L d. unfold run. cbn [eval enter].
  destruct (Z_le_gt_dec 1 L) as [HL|HL].
  - pose proof (nest_outcome d L None 0 [] HL ltac:(lia)) as H.
    destruct (eval L None (nest d) [0]) as [[o st2] m]. cbn [fst] in H. subst o.
    destruct (L <=? 0 + Z.of_nat d); reflexivity.
  - destruct (Z.eq_dec L 0) as [->|Hn].
    + pose proof (nest_outcome_nolimit d None [0]) as H.
      destruct (eval 0 None (nest d) [0]) as [[o st2] m]. cbn [fst] in H. subst o. reflexivity.
    + (* a negative limit is below every depth: the first nested call already fails, and is caught *)
      destruct d as [|d]; [reflexivity|].
      cbn [nest eval enter]. destruct (Z.eqb_spec L 0); [lia|]. cbn [negb andb].
      destruct (Z.leb_spec L (0 + 1)); [reflexivity|lia].
Qed.

(* --------------------------------------------- the reduction of the property *)

Lemma eval_js : forall c L ctx st, leaves is_js c = true ->
  match fst (fst (eval L ctx c st)) with ONormal => True | OPanic p => is_js p = true end.
Proof.
  induction c as [|p|a IHa b IHb|body IH|body IHb h IHh|]; intros L ctx st Hl; cbn [eval leaves] in *.
  - exact I.
  - exact Hl.
  - apply andb_true_iff in Hl. destruct Hl as [Hla Hlb].
    specialize (IHa L ctx st Hla). destruct (eval L ctx a st) as [[o st1] m1]. cbn [fst] in *.
    destruct o; [|exact IHa].
    specialize (IHb L ctx st1 Hlb). destruct (eval L ctx b st1) as [[o2 st2] m2]. exact IHb.
  - destruct (enter L st) as [st1|]; [|reflexivity].
    specialize (IH L ctx st1 Hl). destruct (eval L ctx body st1) as [[o st2] m]. exact IH.
  - apply andb_true_iff in Hl. destruct Hl as [Hlb Hlh].
    specialize (IHb L ctx st Hlb). destruct (eval L ctx body st) as [[o st1] m]. cbn [fst] in *.
    destruct o; [exact I|].
    pose proof (try_catch_never_foreign p) as Ht. destruct (try_catch p) as [v|q]; [|exact Ht].
    specialize (IHh L (Some v) st1 Hlh). destruct (eval L (Some v) h st1) as [[o2 st2] m2]. cbn [fst] in IHh.
    destruct o2; [exact I|].
    pose proof (try_catch_never_foreign p0) as Ht2. destruct (try_catch p0) as [v2|q2]; cbn [fst]; [reflexivity|exact Ht2].
  - destruct ctx as [v|]; [reflexivity|exact I].
Qed.

(* if no callee raises anything but JavaScript payloads, Run returns a value or an error *)
Lemma run_no_escape : forall c L, leaves is_js c = true -> forall q, run L c <> APanic q.
Proof.
  intros c L Hl q. unfold run.
  pose proof (eval_js (Call c) L None [] Hl) as H.
  destruct (eval L None (Call c) []) as [[o st] m]. cbn [fst] in H.
  destruct o; [discriminate|].
  destruct (catch_panic_js p H) as [cl ->]. discriminate.
Qed.

(* a payload raised directly below the entry point escapes exactly when it is not a JavaScript payload *)
Lemma run_raise_escape_iff : forall L p, (exists q, run L (Raise p) = APanic q) <-> is_js p = false.
Proof.
  intros L p. unfold run. cbn [eval enter fst]. apply catch_panic_escape_iff.
Qed.

(* a try statement between the callee and the entry point hides every payload *)
Lemma run_try_no_escape : forall L p h, leaves is_js h = true -> forall q, run L (Try (Raise p) h) <> APanic q.
Proof.
  intros L p h Hh q.
  unfold run. cbn [eval enter].
  pose proof (try_catch_never_foreign p) as Hn.
  destruct (try_catch p) as [v|r] eqn:E.
  - pose proof (eval_js h L (Some v) [0] Hh) as H.
    destruct (eval L (Some v) h [0]) as [[o st] m]. cbn [fst] in H.
    destruct o; [discriminate|].
    pose proof (try_catch_never_foreign p0) as Ht2. destruct (try_catch p0) as [v2|q2].
    + destruct v2; discriminate.
    + destruct (catch_panic_js q2 Ht2) as [cl ->]. discriminate.
  - destruct (catch_panic_js r Hn) as [cl ->]. discriminate.
Qed.

(* scope chain after Run is empty again; depth stayed below the limit *)
Lemma run_chain_restored : forall L c, run_chain L c = [].
Proof. intros. unfold run_chain. apply eval_chain. Qed.

Lemma run_depth_bounded : forall L c, 1 <= L -> run_max L c < L.
Proof. intros L c HL. unfold run_max. apply eval_max_bound; [exact HL|cbn; lia]. Qed.

(* ------------------------------------------------------------- preludes *)

Lemma toObject_js : forall k, prelude_js (toObject k) = true.
Proof. destruct k; reflexivity. Qed.

Lemma thisObject_js : forall k, prelude_js (thisObject k) = true.
Proof. exact toObject_js. Qed.

Lemma thisClassObject_js : forall c k, prelude_js (thisClassObject c k) = true.
Proof.
  intros c k. unfold thisClassObject, thisObject. destruct k; try reflexivity; cbn;
    match goal with |- context [if ?b then _ else _] => destruct b end; reflexivity.
Qed.

Lemma thisClassObject_class : forall c k c', thisClassObject c k = PObj c' -> c' = c.
Proof.
  intros c k c'. unfold thisClassObject. destruct (thisObject k) as [c0| |p]; try discriminate.
  destruct (Z.eqb_spec c0 c); [|discriminate]. intro H. injection H as <-. assumption.
Qed.

Lemma checkObjectCoercible_js : forall k, public_kind k = true -> prelude_js (checkObjectCoercible k) = true.
Proof. destruct k; cbn; intro H; try discriminate; reflexivity. Qed.

(* the internal kind `result` is where checkObjectCoercible raises a Go string *)
Lemma checkObjectCoercible_internal_refuted : exists k, prelude_js (checkObjectCoercible k) = false.
Proof. exists KResult. reflexivity. Qed.

(* undefined and null are rejected by every prelude; everything else public is an object afterwards *)
Lemma thisObject_total : forall k, public_kind k = true ->
  (k = KUndefined \/ k = KNull) /\ thisObject k = type_error \/ exists c, thisObject k = PObj c.
Proof. destruct k; cbn; intro H; try discriminate; eauto. Qed.

(* since 8a02cb3 the prelude of charAt/charCodeAt is the ES5 one on every value a built-in can receive *)
Lemma charAt_prelude_is_spec : forall k, public_kind k = true -> charAt_prelude k = charAt_prelude_spec k.
Proof. destruct k; cbn; intro H; try discriminate; reflexivity. Qed.

Lemma charAt_prelude_js : forall k, public_kind k = true -> prelude_js (charAt_prelude k) = true.
Proof. intros k H. unfold charAt_prelude. apply checkObjectCoercible_js. exact H. Qed.

Lemma charAt_prelude_total : forall k, public_kind k = true ->
  charAt_prelude k = charAt_prelude_spec k /\ prelude_js (charAt_prelude k) = true.
Proof. intros k H. split; [exact (charAt_prelude_is_spec k H) | exact (charAt_prelude_js k H)]. Qed.
