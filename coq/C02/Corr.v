(* C02 - correspondence cases: what the harness observed on the interpreter
   built from /repo, judged against Model (otto) and the ES5 / C02 expectation.

   Observation codes: 0 the call returned a value, 1..7 a native error of that
   class came back as the error result, 8 another thrown value came back as
   the error result, 9 A GO PANIC ESCAPED THE PUBLIC API, 10 the call did not
   return within the watchdog limit, 11 a panic escaped with another payload
   than the host function raised, 12 the host interrupt stopped a
   non-terminating script (its ES5 meaning; declined), 13 the call returned a
   value and a Go panic escaped one of the accessors (String, ToString,
   ToInteger, ToFloat, ToBoolean, Class, Export, Object.Keys/Get/Call/
   MarshalJSON) applied to that value, 15 after the evaluation (however it ended)
   a scope was left behind or the runtime could not run the next script, 14 the
   (child) process died of a fatal Go error that no recover() can stop. *)
From Coq Require Import ZArith Bool List.
From Coq Require Export String.   (* the case files write paths as "..."%string *)
From Otto Require Import Common.Corr C02.Model C02.Inventory C02.Table.
Import ListNotations.
Open Scope Z_scope.

Inductive case :=
| CCall (path : string) (route : Z) (rk ri : Z) (args : list (Z * Z)) (obs : Z)
| CSrc (entry : Z) (len : Z) (src : list Z) (obs : Z)
| CStack (ops : list (Z * Z)) (obs : list Z)
| CPayload (pk wrap : Z) (obs : Z)
| CAcc (vk acc : Z) (obs : Z)
| CChild (id : Z) (obs : Z).

(* ------------------------------------------------------------ expectations *)

Inductive expn := Exactly (c : Z) | JSLevel | AnyThrow.

Definition agrees (e : expn) (obs : Z) : bool :=
  match e with
  | Exactly c => obs =? c
  | JSLevel => (0 <=? obs) && (obs <=? 8)
  | AnyThrow => (1 <=? obs) && (obs <=? 8)
  end.

Definition expn_eqb (a b : expn) : bool :=
  match a, b with
  | Exactly x, Exactly y => x =? y
  | JSLevel, JSLevel | AnyThrow, AnyThrow => true
  | _, _ => false
  end.

(* the verdict codes of Common.Corr.judge, for an observation against two expectations *)
Definition judge_exp (obs : Z) (model spec : expn) (class : Z) : Z * Z :=
  if agrees model obs then (if expn_eqb model spec then (0, 0) else (1, class))
  else if agrees spec obs then (2, class) else (3, class).

(* -------------------------------------------------------- receiver kinds *)

(* harness receiver kind -> value kind / object class *)
Definition kind_of (rk : Z) : vkind :=
  match rk with
  | 0 => KUndefined | 1 => KNull | 2 => KBoolean | 3 => KNumber | 4 => KString
  | 5 => KObject cObject | 6 => KObject cArray | 7 => KObject cFunction | 8 => KObject cDate
  | 9 => KObject cRegExp | 10 => KObject cError | 11 => KObject cArguments
  | 12 => KObject cGoSlice | 13 => KObject cObject | 14 => KObject cObject
  | 15 => KObject cBoolean | 16 => KObject cNumber | 17 => KObject cString
  | 18 => KObject cGlobal | 19 => KObject cGoArray | 20 => KObject cFunction
  | _ => KObject cMath
  end.

(* argument kinds 0..10 are primitives (no user code runs when they are
   coerced); 11.. are objects *)
Definition arg_is_object (ak : Z) : bool := (11 <=? ak) && (ak <=? 17).   (* 18 = small integers -5..5 *)
(* kinds whose coercion can run throwing user code or a bridge conversion *)
Definition arg_may_throw (ak : Z) : bool := (ak =? 11) || (ak =? 12) || (ak =? 13) || (ak =? 17).

Definition arg0_kind (args : list (Z * Z)) : Z := match args with [] => 0 | (k, _) :: _ => k end.
Definition argn_kind (n : nat) (args : list (Z * Z)) : Z := fst (nth n args (0, 0)).

Definition accepted (r : prelude) : bool := match r with PObj _ | POk => true | PRaise _ => false end.

(* does the discipline let this receiver through? (uses the prelude model) *)
Definition accepts (d : disc) (k : vkind) (args : list (Z * Z)) : bool :=
  match d with
  | DNone | DCtor => true
  | DGeneric => accepted (thisObject k)
  | DGenericArg0Obj => if arg_is_object (arg0_kind args) then accepted (thisObject k) else true
  | DClass c => accepted (thisClassObject c k)
  | DCallable => match k with KObject c => c =? cFunction | _ => false end
  | DObject => match k with KObject _ => true | _ => false end
  end.

Definition expect (d : disc) (k : vkind) (args : list (Z * Z)) : expn :=
  if accepts d k args then JSLevel
  else if existsb (fun a => arg_may_throw (fst a)) args then AnyThrow
  else Exactly TypeErr.

(* Function.prototype.call/apply replace an undefined this by the global
   object ("FIXME Not ECMA5" in builtin_function.go); route 1 is f.call(recv,...) *)
Definition effective_kind (route rk : Z) : vkind :=
  if (route =? 1) && (rk =? 0) then KObject cGlobal else kind_of rk.

(* ------------------------------------------- known defects: regions, pins *)

Open Scope string_scope.
Definition p_charAt := "String.prototype.charAt".
Definition p_charCodeAt := "String.prototype.charCodeAt".
Definition p_toExponential := "Number.prototype.toExponential".
Definition p_toPrecision := "Number.prototype.toPrecision".
Definition p_lastIndexOf := "String.prototype.lastIndexOf".
Definition p_substr := "String.prototype.substr".
Definition p_assign := "Object.assign".
Definition p_gopd := "Object.getOwnPropertyDescriptor".
Definition array_mutators := ["Array.prototype.pop"; "Array.prototype.push"; "Array.prototype.shift";
  "Array.prototype.unshift"; "Array.prototype.splice"; "Array.prototype.reverse"; "Array.prototype.sort"].
Definition object_mutators := ["Object.assign"; "Object.defineProperty"; "Object.defineProperties";
  "Object.freeze"; "Object.seal"; "Object.preventExtensions"; "Object.create"].
Close Scope string_scope.

Definition is_bridged_recv (rk : Z) : bool := (rk =? 12) || (rk =? 13) || (rk =? 14) || (rk =? 19).

(* script functions among the function argument instances (kind 14): all but the natives *)
Definition is_script_fn (a : Z * Z) : bool :=
  (fst a =? 14) && negb ((snd a =? 4) || (snd a =? 6)).
Definition str_caller : Z * Z := (9, 35).
Definition pair_eqb (a b : Z * Z) : bool := (fst a =? fst b) && (snd a =? snd b).

(* The one region left where the tree has a crash defect whose exact outcome
   depends on more than the kinds (C02-bridged-mutation): the model declines
   there; the harness stays out, apart from the pinned witnesses below.  The
   regions of the findings repaired by fcf1d85, 77055e2, 27b5748, ad26824,
   8a02cb3, 06c26f0 are gone: those calls are judged like any other. *)
Definition in_region (path : string) (k : vkind) (rk : Z) (args : list (Z * Z)) : bool :=
  (mem_str path array_mutators && is_bridged_recv rk)
  || (mem_str path object_mutators && existsb (fun a => fst a =? 17) args).

(* pinned calls: path, receiver, arguments, what otto does, what ES5 / the
   property asks for, finding class.  Open finding: the three bridged
   mutations.  The others are the witnesses of repaired findings, kept as
   regression cases: model and expectation are the ES5 outcome, so the old
   behaviour coming back is a violation. *)
Open Scope string_scope.
Definition pinned_calls : list (string * (Z * Z) * list (Z * Z) * Z * expn * Z) := [
  ("Array.prototype.pop", (12, 0), [], 9, JSLevel, 7);
  ("Array.prototype.push", (12, 0), [(8, 0)], 9, JSLevel, 7);
  ("Array.prototype.push", (13, 2), [(3, 1)], 9, JSLevel, 7);
  (* fcf1d85: 15.7.4.6 step 7, 15.7.4.7 step 8 *)
  (p_toExponential, (3, 0), [(7, 0)], RangeErr, Exactly RangeErr, 0);
  (p_toPrecision, (3, 0), [(7, 0)], RangeErr, Exactly RangeErr, 0);
  (p_toExponential, (3, 0), [(3, 7)], RangeErr, Exactly RangeErr, 0);
  (* 8a02cb3 *)
  (p_charAt, (3, 0), [(3, 0)], 0, Exactly 0, 0);
  (p_charCodeAt, (2, 0), [(3, 0)], 0, Exactly 0, 0);
  (p_charAt, (4, 0), [(3, 1)], 0, Exactly 0, 0);
  (* 27b5748 *)
  (p_lastIndexOf, (4, 0), [(9, 2); (7, 7)], 0, Exactly 0, 0);
  (p_substr, (4, 0), [(3, 1); (7, 7)], 0, Exactly 0, 0);
  (* ad26824 *)
  (p_assign, (0, 0), [(3, 4); (9, 0)], 0, Exactly 0, 0)
].
Close Scope string_scope.

Definition args_eqb := list_eqb pair_eqb.

Fixpoint find_pin (path : string) (r : Z * Z) (args : list (Z * Z))
         (l : list (string * (Z * Z) * list (Z * Z) * Z * expn * Z)) : option (Z * expn * Z) :=
  match l with
  | [] => None
  | (p, r', a', o, s, c) :: l' =>
      if String.eqb path p && pair_eqb r r' && args_eqb args a' then Some (o, s, c) else find_pin path r args l'
  end.

(* class of a discipline deviation, by what ES5 asks for *)
Definition disc_class (path : string) (route rk : Z) (e o : disc) : Z :=
  match e, o with
  | DClass _, DNone => 20      (* Number.prototype.toFixed/toExponential/toPrecision take any receiver *)
  | DObject, DGeneric => 21    (* Error.prototype.toString takes primitives *)
  | DClass _, DGeneric => 22   (* RegExp.prototype.toString is generic *)
  | _, _ => 24                 (* f.call(undefined) passes the global object *)
  end.

Definition verdict_call (path : string) (route rk ri : Z) (args : list (Z * Z)) (obs : Z) : Z * Z :=
  match lookup path table with
  | None => (3, 99)                       (* a built-in without a row: inventory_covered is broken *)
  | Some (e, o) =>
      let k := effective_kind route rk in
      let spec := expect e (kind_of rk) args in
      match find_pin path (rk, ri) args pinned_calls with
      | Some (po, ps, pc) => judge_exp obs (Exactly po) ps pc
      | None =>
          if in_region path k rk args then declined
          else if (String.eqb path p_gopd) && match args with a :: b :: _ => is_script_fn a && pair_eqb b str_caller | _ => false end
          then judge_exp obs (Exactly 0) (Exactly 0) 0   (* c76d7ee (C02-caller-descriptor): an accessor descriptor comes back *)
          else judge_exp obs (expect o k args) spec (disc_class path route rk e o)
      end
  end.

(* ------------------------------------------------------- source text stream *)

(* the source text that makes a Go panic escape Run on the pinned tree (open finding 27) *)
Definition pinned_sources : list (Z * list Z) := [
  (27, [102; 117; 110; 99; 116; 105; 111; 110; 32; 102; 40; 41; 123; 32; 97; 58; 32; 123; 32; 102; 111; 114; 40; 59; 59; 41; 32; 123; 32; 99; 111; 110; 116; 105; 110; 117; 101; 32; 97; 59; 32; 125; 32; 125; 32; 125; 32; 116; 121; 112; 101; 111; 102; 32; 102; 40; 41]) (* function f(){ a: { for(;;) { continue a; } } } typeof f() *)
].

(* witnesses of repaired findings (06c26f0, e04eec8, 11c8465, 8a02cb3, dae90c4, c76d7ee, 2cabc07: SyntaxError, aa97b99, b602a64, 66edf49), with the
   outcome ES5 / the property asks for (8: the thrown object comes back as the error result): kept as
   regression cases, through Run *)
Definition regression_sources : list (Z * list Z) := [
  (0, [82; 101; 103; 69; 120; 112; 46; 112; 114; 111; 116; 111; 116; 121; 112; 101; 46; 101; 120; 101; 99; 40; 34; 97; 34; 41]) (* RegExp.prototype.exec("a") *);
  (0, [34; 97; 98; 99; 34; 46; 114; 101; 112; 108; 97; 99; 101; 40; 82; 101; 103; 69; 120; 112; 46; 112; 114; 111; 116; 111; 116; 121; 112; 101; 44; 32; 34; 120; 34; 41]) (* "abc".replace(RegExp.prototype, "x") *);
  (0, [79; 98; 106; 101; 99; 116; 46; 105; 115; 70; 114; 111; 122; 101; 110; 40; 79; 98; 106; 101; 99; 116; 46; 112; 114; 101; 118; 101; 110; 116; 69; 120; 116; 101; 110; 115; 105; 111; 110; 115; 40; 110; 101; 119; 32; 83; 116; 114; 105; 110; 103; 40; 34; 92; 117; 102; 102; 102; 100; 34; 41; 41; 41]) (* Object.isFrozen(Object.preventExtensions(new String("\ufffd"))) *);
  (0, [79; 98; 106; 101; 99; 116; 46; 107; 101; 121; 115; 40; 79; 98; 106; 101; 99; 116; 46; 97; 115; 115; 105; 103; 110; 40; 123; 125; 44; 32; 110; 101; 119; 32; 83; 116; 114; 105; 110; 103; 40; 34; 97; 92; 117; 102; 102; 102; 100; 98; 34; 41; 41; 41]) (* Object.keys(Object.assign({}, new String("a\ufffdb"))) *);
  (0, [102; 117; 110; 99; 116; 105; 111; 110; 32; 102; 40; 41; 123; 97; 58; 32; 105; 102; 40; 49; 41; 32; 98; 114; 101; 97; 107; 32; 97; 59; 32; 114; 101; 116; 117; 114; 110; 32; 55; 125; 32; 116; 121; 112; 101; 111; 102; 32; 102; 40; 41]) (* function f(){a: if(1) break a; return 7} typeof f() *);
  (5, [110; 101; 119; 32; 70; 117; 110; 99; 116; 105; 111; 110; 40; 34; 125; 41; 44; 40; 102; 117; 110; 99; 116; 105; 111; 110; 40; 41; 123; 34; 41]) (* new Function("}),(function(){") *);
  (5, [110; 101; 119; 32; 70; 117; 110; 99; 116; 105; 111; 110; 40; 34; 97; 34; 44; 32; 34; 125; 41; 44; 40; 102; 117; 110; 99; 116; 105; 111; 110; 40; 41; 123; 34; 41]) (* new Function("a", "}),(function(){") *);
  (0, [43; 83; 116; 114; 105; 110; 103; 46; 102; 114; 111; 109; 67; 104; 97; 114; 67; 111; 100; 101; 40; 52; 57; 41]) (* +String.fromCharCode(49) *);
  (6, [110; 101; 119; 32; 40; 77; 97; 116; 104; 46; 109; 97; 120; 46; 98; 105; 110; 100; 40; 110; 117; 108; 108; 41; 41; 40; 49; 41]) (* new (Math.max.bind(null))(1) *);
  (0, [118; 97; 114; 32; 111; 61; 123; 125; 59; 32; 79; 98; 106; 101; 99; 116; 46; 100; 101; 102; 105; 110; 101; 80; 114; 111; 112; 101; 114; 116; 121; 40; 111; 44; 39; 120; 39; 44; 123; 103; 101; 116; 58; 102; 117; 110; 99; 116; 105; 111; 110; 40; 41; 123; 114; 101; 116; 117; 114; 110; 32; 49; 125; 44; 99; 111; 110; 102; 105; 103; 117; 114; 97; 98; 108; 101; 58; 116; 114; 117; 101; 125; 41; 59; 32; 79; 98; 106; 101; 99; 116; 46; 100; 101; 102; 105; 110; 101; 80; 114; 111; 112; 101; 114; 116; 121; 40; 111; 44; 39; 120; 39; 44; 123; 119; 114; 105; 116; 97; 98; 108; 101; 58; 116; 114; 117; 101; 125; 41; 59; 32; 79; 98; 106; 101; 99; 116; 46; 103; 101; 116; 79; 119; 110; 80; 114; 111; 112; 101; 114; 116; 121; 68; 101; 115; 99; 114; 105; 112; 116; 111; 114; 40; 111; 44; 39; 120; 39; 41]) (* var o={}; Object.defineProperty(o,'x',{get:function(){return 1},configurable:true}); Object.defineProperty(o,'x',{writable:true}); Object.getOwnPropertyDescriptor(o,'x') *);
  (0, [83; 116; 114; 105; 110; 103; 46; 112; 114; 111; 116; 111; 116; 121; 112; 101; 46; 99; 104; 97; 114; 65; 116; 46; 99; 97; 108; 108; 40; 53; 44; 48; 41]) (* String.prototype.charAt.call(5,0) *);
  (8, [116; 104; 114; 111; 119; 32; 123; 116; 111; 83; 116; 114; 105; 110; 103; 58; 32; 102; 117; 110; 99; 116; 105; 111; 110; 40; 41; 123; 32; 116; 104; 114; 111; 119; 32; 49; 32; 125; 125]) (* throw {toString: function(){ throw 1 }} *);
  (0, [79; 98; 106; 101; 99; 116; 46; 103; 101; 116; 79; 119; 110; 80; 114; 111; 112; 101; 114; 116; 121; 68; 101; 115; 99; 114; 105; 112; 116; 111; 114; 40; 102; 117; 110; 99; 116; 105; 111; 110; 40; 41; 123; 125; 44; 32; 39; 99; 97; 108; 108; 101; 114; 39; 41]) (* Object.getOwnPropertyDescriptor(function(){}, 'caller') *)
].

Fixpoint find_src (s : list Z) (l : list (Z * list Z)) : option Z :=
  match l with
  | [] => None
  | (c, t) :: l' => if zlist_eqb s t then Some c else find_src s l'
  end.

(* entries 0 Run, 1 Eval, 2 Compile + Run of the script, 3 Call, 4 Get, 5 Set,
   6 Object / Object.Get / Object.Set / Object.Call, 7 Run then Value.To*,
   9 a history of Runs on one runtime, 10 a history of Go API calls on one RegExp *)
Definition verdict_src (entry len : Z) (src : list Z) (obs : Z) : Z * Z :=
  if obs =? 12 then declined
  else match (if (entry =? 0) || (entry =? 1) || (entry =? 2) || (entry =? 7) then find_src src pinned_sources else None) with
       | Some c => judge_exp obs (Exactly 9) JSLevel c
       | None =>
           match (if entry =? 0 then find_src src regression_sources else None) with
           | Some e => judge_exp obs (Exactly e) (Exactly e) 0
           | None => judge_exp obs JSLevel JSLevel 0
           end
       end.

(* ------------------------------------------------------------- stack guard *)

Definition code_of (r : api_result) : Z :=
  match r with ARet => 0 | AErr c => c | APanic _ => 9 end.

(* one step of a history on one runtime: the limit is the state.
   (0, L) SetStackDepthLimit(L); every other step (k, d) is a recursion of d
   cycles in some shape, observed in some mode.
     k = 1  d nested script calls                         (mode run)
     k = 2  the same inside try/catch                     (mode caught)
     k = 3  below a native frame and its callback         (mode run, d+2 scopes)
     k = 4  a host function at the bottom reads the depth (mode probe)
     k = 5 + 3*s + m: shape s, mode m (0 run, 1 caught, 2 probe), where every
       cycle of the recursion passes through
       s = 0  f -> indirect eval (0,eval)("f(n-1)"): script frame, native frame of eval, a fresh GLOBAL scope (3 scopes)
       s = 1  f -> Function("return f(n-1)")(): script frame, frame of the made function (2)
       s = 2  f -> host function -> Otto.Run("f(n-1)") re-entered from Go: script frame, native frame, global scope (3)
       s = 3  f -> f.call(null, n-1): script frame, native frame of call (2)
       s = 4  a getter that reads the next getter (1)
       s = 5  valueOf that converts the next object (1)
       s = 6  f -> [1].forEach(callback -> f): script frame, native frame, callback frame (3)
       s = 7  f -> "a".replace(/a/, callback -> f) (3)
   k = 29: Otto.Copy(); the history goes on in the copy (and a second 29 in the
       copy of the copy).  The configured limit is a setting of the runtime and
       travels with it, so the state of the model does not change.
   enterScope counts every scope, a global one entered while code is running
   included, so the number of nested scopes is cyc s * (d - 1) + 1 (d >= 1).
   Every step also reads the depth at rest afterwards (-1: no scope). *)
Definition cyc (s : Z) : Z :=
  if s =? 0 then 3 else if s =? 1 then 2 else if s =? 2 then 3 else if s =? 3 then 2
  else if s =? 4 then 1 else if s =? 5 then 1 else 3.

(* scopes nested below the global one *)
Definition frames (k d : Z) : Z :=
  if k <=? 4 then (if k =? 3 then d + 2 else d)
  else if d <=? 0 then 0 else cyc ((k - 5) / 3) * (d - 1) + 1.

Definition mode (k : Z) : Z :=
  if k <=? 4 then (if k =? 2 then 1 else if k =? 4 then 2 else 0) else (k - 5) mod 3.

Definition stack_step (L : Z) (op : Z * Z) : Z * list Z :=
  let '(k, d) := op in
  let f := frames k d in
  let n := Z.to_nat f in
  let m := mode k in
  if k =? 0 then (d, [0; -1])
  else if k =? 29 then (L, [0; -1])
  else if m =? 0 then (L, [code_of (run L (nest n)); cur (run_chain L (nest n))])
  else if m =? 1 then (L, [code_of (run L (Try (nest n) Ret)); cur (run_chain L (Try (nest n) Ret))])
  else (L, [match run L (nest (S n)) with ARet => f + 1 | r => - code_of r end; cur (run_chain L (nest (S n)))]).

Fixpoint stack_hist (L : Z) (ops : list (Z * Z)) : list Z :=
  match ops with
  | [] => []
  | op :: ops' => let '(L', o) := stack_step L op in o ++ stack_hist L' ops'
  end.

(* ES5 has no stack limit; the property's own statement is the specification:
   with limit L >= 1 exactly the nestings that reach L end in a RangeError *)
Definition spec_step (L : Z) (op : Z * Z) : Z * list Z :=
  let '(k, d) := op in
  let f := frames k d in
  let m := mode k in
  let over (n : Z) := negb (L =? 0) && (L <=? n) in
  if k =? 0 then (d, [0; -1])
  else if k =? 29 then (L, [0; -1])
  else if m =? 0 then (L, [if over f then RangeErr else 0; -1])
  else if m =? 1 then (L, [0; -1])
  else (L, [if over (f + 1) then - RangeErr else f + 1; -1]).

Fixpoint spec_hist (L : Z) (ops : list (Z * Z)) : list Z :=
  match ops with
  | [] => []
  | op :: ops' => let '(L', o) := spec_step L op in o ++ spec_hist L' ops'
  end.

(* ------------------------------------------------------- payload situations *)

Definition payload_of (pk : Z) : payload :=
  match pk with
  | 0 => Raw (BValue (VErrObj TypeErr))
  | 1 => Raw (BValue VPlain)
  | 2 => Raw (BValue VStrThrows)
  | 3 => Raw (BErrorPtr TypeErr)
  | 4 => Raw BRuntimeStr
  | 5 => Raw BRuntimeStruct
  | 6 => Raw BForeignErr
  | 7 => Raw BGoString
  | 8 => Raw BHost
  | 9 => Exc (BValue VPlain)
  | 10 => Exc (BOttoError TypeErr)
  | 11 => Exc (BValue (VErrObj RangeErr))
  | 12 => Raw BRuntimeStruct
  | _ => Raw BRuntimeStr
  end.

Definition wrap_of (w : Z) (p : payload) : comp :=
  match w with
  | 0 => Call (Raise p)
  | 1 => Try (Call (Raise p)) Ret
  | 2 => Try (Call (Raise p)) Rethrow
  | 3 => Call (Call (Call (Raise p)))
  | 4 => Try (Try (Call (Raise p)) Rethrow) Ret
  | 5 => Call (Try (Call (Call (Raise p))) Ret)
  | 6 => Seq (Try (Call (Raise p)) Ret) (Call (Raise p))
  | _ => Try (Call (Raise p)) (Call (Raise p))
  end.

(* what the property asks for is what the model does (since dae90c4 a thrown
   object with a throwing toString comes back as an error too) *)
Definition spec_payload (pk : Z) : payload := payload_of pk.

(* ------------------------------------------- accessors of Value and Object *)

(* value kinds: 0 undefined 1 null 2 true 3 1.5 4 NaN 5 "abc" 6 "12" 7 String.fromCharCode(49)
   8 {} 9 [1,2] 10 function 11 object with throwing valueOf/toString 12 object whose valueOf/toString
   return objects 13 Date 14 RegExp 15 Error 16 bridged nil map 17 bridged slice 18 bridged struct
   19 Object.create(null) 20 arguments 21 String object 22 String.fromCharCode(0xD800,0x61)
   23 native function 24 bridged map.
   accessors: 0 String 1 ToString 2 ToInteger 3 ToFloat 4 ToBoolean 5 Class 6 IsNaN 7 Export
   8 Object.Keys 9 Object.KeysByParent 10 Object.Get 11 Object.Set 12 Object.Call 13 Object.MarshalJSON
   14 Is* 15 Call.
   25 object with a throwing getter 26 array with a throwing index getter 27 Error whose message getter throws
   28 object with a quiet getter.
   Still open: Object.Set on a bridged nil map (class 7).  Value.Export is under catchPanic since e439569
   (C02-export-unprotected): kinds 25-27 are its former witnesses, kept as regression cases - no accessor may panic.  ToInteger/ToFloat/IsNaN on a UTF-16
   backed string (06c26f0) and IsNaN outside catchPanic (239ed11) are repaired: no accessor may panic there. *)
Definition acc_known (vk acc : Z) : option Z :=
  if (vk =? 16) && (acc =? 11) then Some 7 else None.

Definition verdict_acc (vk acc obs : Z) : Z * Z :=
  match acc_known vk acc with
  | Some c => judge Z.eqb obs 9 0 c
  | None => judge Z.eqb obs 0 0 0
  end.

(* probes run in a child process (a fatal Go error cannot be recovered in-process): Value.Export of
   0 a cyclic object, 1 a cyclic array, 2 a 200 deep acyclic object, 3 the global object holding itself,
   4 a three-object cycle.  Since c5bdc3a a reference back into the structure is exported as nil: every
   probe returns a value (C02-export-cycle-fatal repaired; the process dying again is a violation). *)
Definition verdict_child (id obs : Z) : Z * Z := judge_exp obs (Exactly 0) (Exactly 0) 0.

Definition verdict (c : case) : Z * Z :=
  match c with
  | CCall path route rk ri args obs => verdict_call path route rk ri args obs
  | CSrc entry len src obs => verdict_src entry len src obs
  | CStack ops obs => judge zlist_eqb obs (stack_hist 0 ops) (spec_hist 0 ops) 30
  | CPayload pk w obs => judge Z.eqb obs (code_of (run 0 (wrap_of w (payload_of pk))))
                               (code_of (run 0 (wrap_of w (spec_payload pk)))) 9
  | CAcc vk acc obs => verdict_acc vk acc obs
  | CChild id obs => verdict_child id obs
  end.
