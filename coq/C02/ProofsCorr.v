(* C02 - the stack-guard model used by the correspondence run computes what the
   property states, for every history of limits and nestings; the finite
   table/inventory facts. *)
From Coq Require Import ZArith Bool List String Lia.
From Otto Require Import Common.Corr C02.Model C02.Proofs C02.Inventory C02.Table C02.Corr.
Import ListNotations.
Open Scope Z_scope.

Definition op_ok (op : Z * Z) : Prop := 0 <= snd op.

Lemma code_run_nest : forall L n, 0 <= L ->
  code_of (run L (nest n)) = if negb (L =? 0) && (L <=? Z.of_nat n) then RangeErr else 0.
Proof.
  intros L n HL. destruct (Z.eqb_spec L 0) as [->|Hn]; cbn [negb andb].
  - rewrite run_nest_nolimit. reflexivity.
  - rewrite run_nest by lia. destruct (L <=? Z.of_nat n); reflexivity.
Qed.

Lemma cyc_pos : forall s, 1 <= cyc s.
Proof.
  intro s. unfold cyc. repeat match goal with |- context [if ?b then _ else _] => destruct b end; lia.
Qed.

Lemma frames_nonneg : forall k d, 0 <= d -> 0 <= frames k d.
Proof.
  intros k d Hd. unfold frames. destruct (k <=? 4).
  - destruct (k =? 3); lia.
  - destruct (Z.leb_spec d 0); [lia|]. pose proof (cyc_pos ((k - 5) / 3)). nia.
Qed.

Lemma stack_step_spec : forall L op, 0 <= L -> op_ok op -> stack_step L op = spec_step L op.
Proof.
  intros L [k d] HL Hd. unfold op_ok in Hd. cbn [snd] in Hd. unfold stack_step, spec_step.
  pose proof (frames_nonneg k d Hd) as Hf. set (f := frames k d) in *.
  rewrite !run_chain_restored. cbn [cur].
  destruct (k =? 0); [reflexivity|].
  destruct (k =? 29); [reflexivity|].
  destruct (mode k =? 0).
  { rewrite code_run_nest by exact HL. rewrite Z2Nat.id by exact Hf. reflexivity. }
  destruct (mode k =? 1).
  { rewrite run_nest_caught. reflexivity. }
  pose proof (code_run_nest L (S (Z.to_nat f)) HL) as H.
  replace (Z.of_nat (S (Z.to_nat f))) with (f + 1) in H by (rewrite Nat2Z.inj_succ, Z2Nat.id; lia).
  destruct (Z.eqb_spec L 0) as [->|Hn]; cbn [negb andb] in *.
  - rewrite run_nest_nolimit. reflexivity.
  - rewrite run_nest in * by lia.
    replace (Z.of_nat (S (Z.to_nat f))) with (f + 1) by (rewrite Nat2Z.inj_succ, Z2Nat.id; lia).
    destruct (L <=? f + 1); reflexivity.
Qed.

Lemma stack_step_limit : forall L op, 0 <= L -> op_ok op -> 0 <= fst (stack_step L op).
Proof.
  intros L [k d] HL Hd. unfold op_ok in Hd. cbn [snd] in Hd. unfold stack_step.
  destruct (k =? 0); [exact Hd|]. destruct (k =? 29); [exact HL|]. destruct (mode k =? 0); [exact HL|].
  destruct (mode k =? 1); exact HL.
Qed.

Lemma stack_hist_spec : forall ops L, 0 <= L -> Forall op_ok ops -> stack_hist L ops = spec_hist L ops.
Proof.
  induction ops as [|op ops IH]; intros L HL Hf; [reflexivity|].
  inversion Hf as [|? ? Hop Hrest]; subst. cbn [stack_hist spec_hist].
  pose proof (stack_step_spec L op HL Hop) as Hs. pose proof (stack_step_limit L op HL Hop) as Hl.
  rewrite <- Hs. destruct (stack_step L op) as [L' o]. cbn [fst] in Hl.
  rewrite (IH L' Hl Hrest). reflexivity.
Qed.

(* finite facts, by computation *)
Lemma inventory_covered_true : inventory_covered = true.
Proof. vm_compute. reflexivity. Qed.

Lemma table_unambiguous_true : table_unambiguous = true /\ inventory_nodup = true.
Proof. vm_compute. split; reflexivity. Qed.

Open Scope string_scope.
Lemma deviating_rows_are : deviating_rows =
  ["Error.prototype.toString"; "EvalError.prototype.toString"; "Number.prototype.toExponential";
   "Number.prototype.toFixed"; "Number.prototype.toPrecision"; "RangeError.prototype.toString";
   "ReferenceError.prototype.toString"; "RegExp.prototype.toString"; "SyntaxError.prototype.toString";
   "TypeError.prototype.toString"; "URIError.prototype.toString"].
Proof. vm_compute. reflexivity. Qed.
Close Scope string_scope.

(* the discipline decides the receiver question with the prelude model: a
   receiver a row rejects is met with a TypeError (or with whatever an
   argument's own conversion throws first), never with a foreign payload *)
Lemma expect_cases : forall d k args,
  expect d k args = JSLevel \/ expect d k args = AnyThrow \/ expect d k args = Exactly TypeErr.
Proof.
  intros d k args. unfold expect. destruct (accepts d k args); [auto|].
  destruct (existsb _ args); auto.
Qed.

Lemma expect_never_panic : forall d k args, agrees (expect d k args) 9 = false /\ agrees (expect d k args) 10 = false.
Proof.
  intros d k args. destruct (expect_cases d k args) as [-> | [-> | ->]]; split; reflexivity.
Qed.
