(* C02 - the receiver-discipline table of the built-in surface (hand-written).

   One row per built-in function that a script can reach: its path, the
   discipline ES5 prescribes for the this value, and the discipline otto
   implements (they differ in three places, each a listed finding).  The
   inventory of reachable functions is regenerated from the interpreter on
   every run (Inventory.v); [inventory_covered] says every inventoried function
   has a row here, so a new or renamed built-in breaks the proof until its
   discipline has been written down.

   ES5 clauses: 15.4.4 (Array.prototype functions are generic: ToObject(this)),
   15.5.4 (String.prototype: CheckObjectCoercible(this); toString/valueOf want a
   String), 15.6.4, 15.7.4 (Boolean/Number.prototype: "TypeError if this is not
   a Boolean/Number"), 15.9.5 (Date), 15.10.6 (RegExp), 15.11.4.4 (Error.
   prototype.toString: "If Type(O) is not Object, throw a TypeError"), 15.3.4
   (Function.prototype: this must be callable), 15.2.4 (Object.prototype),
   B.2.3 (substr; ES5.1's informative annex omits the coercibility check, ES2015 B.2.3.1 has it and since dc0085d so has otto: undefined and null are rejected).  Functions
   that are not in ES5 (Object.assign, Object.values, startsWith, trimStart...,
   Math.trunc..., Number.isNaN, console.*, RegExp.prototype.compile) carry the
   ES2015 discipline, or otto's own where there is none. *)
From Coq Require Import ZArith Bool List String.
From Otto Require Import C02.Model C02.Inventory.
Import ListNotations.
Open Scope Z_scope.

Inductive disc :=
| DNone              (* this is not looked at *)
| DCtor              (* a constructor: this is not looked at when called, and `new` works *)
| DGeneric           (* ToObject(this) / CheckObjectCoercible(this): undefined and null are rejected *)
| DGenericArg0Obj    (* 15.2.4.6 isPrototypeOf: false unless argument 0 is an object, then ToObject(this) *)
| DClass (c : Z)     (* this must be an object of class c or the primitive ToObject wraps into it *)
| DCallable          (* this must be callable *)
| DObject.           (* Type(this) must be Object *)

Open Scope string_scope.
Definition table : list (string * disc * disc) := [
  ("%arguments.callee", DNone, DNone);
  ("Array", DCtor, DCtor);
  ("Array.isArray", DNone, DNone);
  ("Array.prototype.concat", DGeneric, DGeneric);
  ("Array.prototype.every", DGeneric, DGeneric);
  ("Array.prototype.filter", DGeneric, DGeneric);
  ("Array.prototype.forEach", DGeneric, DGeneric);
  ("Array.prototype.indexOf", DGeneric, DGeneric);
  ("Array.prototype.join", DGeneric, DGeneric);
  ("Array.prototype.lastIndexOf", DGeneric, DGeneric);
  ("Array.prototype.map", DGeneric, DGeneric);
  ("Array.prototype.pop", DGeneric, DGeneric);
  ("Array.prototype.push", DGeneric, DGeneric);
  ("Array.prototype.reduce", DGeneric, DGeneric);
  ("Array.prototype.reduceRight", DGeneric, DGeneric);
  ("Array.prototype.reverse", DGeneric, DGeneric);
  ("Array.prototype.shift", DGeneric, DGeneric);
  ("Array.prototype.slice", DGeneric, DGeneric);
  ("Array.prototype.some", DGeneric, DGeneric);
  ("Array.prototype.sort", DGeneric, DGeneric);
  ("Array.prototype.splice", DGeneric, DGeneric);
  ("Array.prototype.toLocaleString", DGeneric, DGeneric);
  ("Array.prototype.toString", DGeneric, DGeneric);
  ("Array.prototype.unshift", DGeneric, DGeneric);
  ("Boolean", DCtor, DCtor);
  ("Boolean.prototype.toString", DClass cBoolean, DClass cBoolean);
  ("Boolean.prototype.valueOf", DClass cBoolean, DClass cBoolean);
  ("Date", DCtor, DCtor);
  ("Date.UTC", DNone, DNone);
  ("Date.now", DNone, DNone);
  ("Date.parse", DNone, DNone);
  ("Date.prototype.getDate", DClass cDate, DClass cDate);
  ("Date.prototype.getDay", DClass cDate, DClass cDate);
  ("Date.prototype.getFullYear", DClass cDate, DClass cDate);
  ("Date.prototype.getHours", DClass cDate, DClass cDate);
  ("Date.prototype.getMilliseconds", DClass cDate, DClass cDate);
  ("Date.prototype.getMinutes", DClass cDate, DClass cDate);
  ("Date.prototype.getMonth", DClass cDate, DClass cDate);
  ("Date.prototype.getSeconds", DClass cDate, DClass cDate);
  ("Date.prototype.getTime", DClass cDate, DClass cDate);
  ("Date.prototype.getTimezoneOffset", DClass cDate, DClass cDate);
  ("Date.prototype.getUTCDate", DClass cDate, DClass cDate);
  ("Date.prototype.getUTCDay", DClass cDate, DClass cDate);
  ("Date.prototype.getUTCFullYear", DClass cDate, DClass cDate);
  ("Date.prototype.getUTCHours", DClass cDate, DClass cDate);
  ("Date.prototype.getUTCMilliseconds", DClass cDate, DClass cDate);
  ("Date.prototype.getUTCMinutes", DClass cDate, DClass cDate);
  ("Date.prototype.getUTCMonth", DClass cDate, DClass cDate);
  ("Date.prototype.getUTCSeconds", DClass cDate, DClass cDate);
  ("Date.prototype.getYear", DClass cDate, DClass cDate);
  ("Date.prototype.setDate", DClass cDate, DClass cDate);
  ("Date.prototype.setFullYear", DClass cDate, DClass cDate);
  ("Date.prototype.setHours", DClass cDate, DClass cDate);
  ("Date.prototype.setMilliseconds", DClass cDate, DClass cDate);
  ("Date.prototype.setMinutes", DClass cDate, DClass cDate);
  ("Date.prototype.setMonth", DClass cDate, DClass cDate);
  ("Date.prototype.setSeconds", DClass cDate, DClass cDate);
  ("Date.prototype.setTime", DClass cDate, DClass cDate);
  ("Date.prototype.setUTCDate", DClass cDate, DClass cDate);
  ("Date.prototype.setUTCFullYear", DClass cDate, DClass cDate);
  ("Date.prototype.setUTCHours", DClass cDate, DClass cDate);
  ("Date.prototype.setUTCMilliseconds", DClass cDate, DClass cDate);
  ("Date.prototype.setUTCMinutes", DClass cDate, DClass cDate);
  ("Date.prototype.setUTCMonth", DClass cDate, DClass cDate);
  ("Date.prototype.setUTCSeconds", DClass cDate, DClass cDate);
  ("Date.prototype.setYear", DClass cDate, DClass cDate);
  ("Date.prototype.toDateString", DClass cDate, DClass cDate);
  ("Date.prototype.toGMTString", DClass cDate, DClass cDate);
  ("Date.prototype.toISOString", DClass cDate, DClass cDate);
  ("Date.prototype.toJSON", DGeneric, DGeneric);
  ("Date.prototype.toLocaleDateString", DClass cDate, DClass cDate);
  ("Date.prototype.toLocaleString", DClass cDate, DClass cDate);
  ("Date.prototype.toLocaleTimeString", DClass cDate, DClass cDate);
  ("Date.prototype.toString", DClass cDate, DClass cDate);
  ("Date.prototype.toTimeString", DClass cDate, DClass cDate);
  ("Date.prototype.toUTCString", DClass cDate, DClass cDate);
  ("Date.prototype.valueOf", DClass cDate, DClass cDate);
  ("Error", DCtor, DCtor);
  ("Error.prototype.toString", DObject, DGeneric);
  ("EvalError", DCtor, DCtor);
  ("EvalError.prototype.toString", DObject, DGeneric);
  ("Function", DCtor, DCtor);
  ("Function.prototype", DNone, DNone);
  ("Function.prototype.apply", DCallable, DCallable);
  ("Function.prototype.bind", DCallable, DCallable);
  ("Function.prototype.call", DCallable, DCallable);
  ("Function.prototype.toString", DCallable, DCallable);
  ("JSON.parse", DNone, DNone);
  ("JSON.stringify", DNone, DNone);
  ("Math.abs", DNone, DNone);
  ("Math.acos", DNone, DNone);
  ("Math.acosh", DNone, DNone);
  ("Math.asin", DNone, DNone);
  ("Math.asinh", DNone, DNone);
  ("Math.atan", DNone, DNone);
  ("Math.atan2", DNone, DNone);
  ("Math.atanh", DNone, DNone);
  ("Math.cbrt", DNone, DNone);
  ("Math.ceil", DNone, DNone);
  ("Math.cos", DNone, DNone);
  ("Math.cosh", DNone, DNone);
  ("Math.exp", DNone, DNone);
  ("Math.expm1", DNone, DNone);
  ("Math.floor", DNone, DNone);
  ("Math.log", DNone, DNone);
  ("Math.log10", DNone, DNone);
  ("Math.log1p", DNone, DNone);
  ("Math.log2", DNone, DNone);
  ("Math.max", DNone, DNone);
  ("Math.min", DNone, DNone);
  ("Math.pow", DNone, DNone);
  ("Math.random", DNone, DNone);
  ("Math.round", DNone, DNone);
  ("Math.sin", DNone, DNone);
  ("Math.sinh", DNone, DNone);
  ("Math.sqrt", DNone, DNone);
  ("Math.tan", DNone, DNone);
  ("Math.tanh", DNone, DNone);
  ("Math.trunc", DNone, DNone);
  ("Number", DCtor, DCtor);
  ("Number.isNaN", DNone, DNone);
  ("Number.prototype.toExponential", DClass cNumber, DNone);
  ("Number.prototype.toFixed", DClass cNumber, DNone);
  ("Number.prototype.toLocaleString", DClass cNumber, DClass cNumber);
  ("Number.prototype.toPrecision", DClass cNumber, DNone);
  ("Number.prototype.toString", DClass cNumber, DClass cNumber);
  ("Number.prototype.valueOf", DClass cNumber, DClass cNumber);
  ("Object", DCtor, DCtor);
  ("Object.assign", DNone, DNone);
  ("Object.create", DNone, DNone);
  ("Object.defineProperties", DNone, DNone);
  ("Object.defineProperty", DNone, DNone);
  ("Object.freeze", DNone, DNone);
  ("Object.getOwnPropertyDescriptor", DNone, DNone);
  ("Object.getOwnPropertyNames", DNone, DNone);
  ("Object.getPrototypeOf", DNone, DNone);
  ("Object.isExtensible", DNone, DNone);
  ("Object.isFrozen", DNone, DNone);
  ("Object.isSealed", DNone, DNone);
  ("Object.keys", DNone, DNone);
  ("Object.preventExtensions", DNone, DNone);
  ("Object.prototype.hasOwnProperty", DGeneric, DGeneric);
  ("Object.prototype.isPrototypeOf", DGenericArg0Obj, DGenericArg0Obj);
  ("Object.prototype.propertyIsEnumerable", DGeneric, DGeneric);
  ("Object.prototype.toLocaleString", DGeneric, DGeneric);
  ("Object.prototype.toString", DNone, DNone);
  ("Object.prototype.valueOf", DGeneric, DGeneric);
  ("Object.seal", DNone, DNone);
  ("Object.values", DNone, DNone);
  ("RangeError", DCtor, DCtor);
  ("RangeError.prototype.toString", DObject, DGeneric);
  ("ReferenceError", DCtor, DCtor);
  ("ReferenceError.prototype.toString", DObject, DGeneric);
  ("RegExp", DCtor, DCtor);
  ("RegExp.prototype.compile", DNone, DNone);
  ("RegExp.prototype.exec", DClass cRegExp, DClass cRegExp);
  ("RegExp.prototype.test", DClass cRegExp, DClass cRegExp);
  ("RegExp.prototype.toString", DClass cRegExp, DGeneric);
  ("String", DCtor, DCtor);
  ("String.fromCharCode", DNone, DNone);
  ("String.prototype.charAt", DGeneric, DGeneric);
  ("String.prototype.charCodeAt", DGeneric, DGeneric);
  ("String.prototype.concat", DGeneric, DGeneric);
  ("String.prototype.indexOf", DGeneric, DGeneric);
  ("String.prototype.lastIndexOf", DGeneric, DGeneric);
  ("String.prototype.localeCompare", DGeneric, DGeneric);
  ("String.prototype.match", DGeneric, DGeneric);
  ("String.prototype.replace", DGeneric, DGeneric);
  ("String.prototype.search", DGeneric, DGeneric);
  ("String.prototype.slice", DGeneric, DGeneric);
  ("String.prototype.split", DGeneric, DGeneric);
  ("String.prototype.startsWith", DGeneric, DGeneric);
  ("String.prototype.substr", DGeneric, DGeneric);
  ("String.prototype.substring", DGeneric, DGeneric);
  ("String.prototype.toLocaleLowerCase", DGeneric, DGeneric);
  ("String.prototype.toLocaleUpperCase", DGeneric, DGeneric);
  ("String.prototype.toLowerCase", DGeneric, DGeneric);
  ("String.prototype.toString", DClass cString, DClass cString);
  ("String.prototype.toUpperCase", DGeneric, DGeneric);
  ("String.prototype.trim", DGeneric, DGeneric);
  ("String.prototype.trimEnd", DGeneric, DGeneric);
  ("String.prototype.trimLeft", DGeneric, DGeneric);
  ("String.prototype.trimRight", DGeneric, DGeneric);
  ("String.prototype.trimStart", DGeneric, DGeneric);
  ("String.prototype.valueOf", DClass cString, DClass cString);
  ("SyntaxError", DCtor, DCtor);
  ("SyntaxError.prototype.toString", DObject, DGeneric);
  ("TypeError", DCtor, DCtor);
  ("TypeError.prototype.toString", DObject, DGeneric);
  ("URIError", DCtor, DCtor);
  ("URIError.prototype.toString", DObject, DGeneric);
  ("console.assert", DNone, DNone);
  ("console.debug", DNone, DNone);
  ("console.dir", DNone, DNone);
  ("console.error", DNone, DNone);
  ("console.info", DNone, DNone);
  ("console.log", DNone, DNone);
  ("console.time", DNone, DNone);
  ("console.timeEnd", DNone, DNone);
  ("console.trace", DNone, DNone);
  ("console.warn", DNone, DNone);
  ("decodeURI", DNone, DNone);
  ("decodeURIComponent", DNone, DNone);
  ("encodeURI", DNone, DNone);
  ("encodeURIComponent", DNone, DNone);
  ("escape", DNone, DNone);
  ("eval", DNone, DNone);
  ("isFinite", DNone, DNone);
  ("isNaN", DNone, DNone);
  ("parseFloat", DNone, DNone);
  ("parseInt", DNone, DNone);
  ("unescape", DNone, DNone);
  ("%fn.caller<get>", DNone, DNone);
  ("%fn.caller<set>", DNone, DNone);
  ("%bound.caller<get>", DNone, DNone);
  ("%bound.caller<set>", DNone, DNone);
  ("%fn.caller<get>.caller<get>", DNone, DNone);
  ("%arguments.callee.caller<get>", DNone, DNone);
  ("%arguments.callee.caller<get>.caller<get>", DNone, DNone);
  ("%error.stack<get>", DNone, DNone);
  ("%error.stack<get>.caller<get>", DNone, DNone);
  ("%thrown.stack<get>", DNone, DNone);
  ("%thrown.stack<get>.caller<get>", DNone, DNone)
].
Close Scope string_scope.

Fixpoint lookup (p : string) (t : list (string * disc * disc)) : option (disc * disc) :=
  match t with
  | [] => None
  | (q, e, o) :: t' => if String.eqb p q then Some (e, o) else lookup p t'
  end.

Definition has_row (p : string) : bool := match lookup p table with Some _ => true | None => false end.

Definition inventory_covered : bool := forallb has_row inventory.

(* no path twice: lookup is unambiguous *)
Fixpoint mem_str (p : string) (l : list string) : bool :=
  match l with [] => false | q :: l' => String.eqb p q || mem_str p l' end.
Fixpoint nodup_str (l : list string) : bool :=
  match l with [] => true | p :: l' => negb (mem_str p l') && nodup_str l' end.
Definition table_unambiguous : bool := nodup_str (map (fun r => fst (fst r)) table).
Definition inventory_nodup : bool := nodup_str inventory.

(* rows where otto's discipline is not the ES5 one *)
Definition deviating_rows : list string :=
  map (fun r => fst (fst r))
      (filter (fun r => match r with (_, e, o) =>
                 negb (match e, o with
                       | DNone, DNone | DCtor, DCtor | DGeneric, DGeneric | DGenericArg0Obj, DGenericArg0Obj
                       | DCallable, DCallable | DObject, DObject => true
                       | DClass a, DClass b => a =? b
                       | _, _ => false end) end) table).
