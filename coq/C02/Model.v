(* C02 - model of the three mechanisms of otto that keep a script from crashing
   the embedding Go program:

     error.go     catchPanic              the recover boundary of every public entry
     runtime.go   tryCatchEvaluate        what try/catch does to a panic payload
     runtime.go   enterScope/leaveScope   the stack depth guard (SetStackDepthLimit)
     type_function.go / runtime.go        the receiver preludes of the built-ins
                  thisObject, thisClassObject, toObject, checkObjectCoercible

   Panic payloads are a closed sum: what otto itself panics with, what the Go
   runtime panics with, what a Go library hands back, what a host function
   panics with.  Everything is executable; the harness observes the same
   situations on the interpreter built from /repo and Corr.v compares. *)
From Coq Require Import ZArith Bool List.
Import ListNotations.
Open Scope Z_scope.

(* error class numbers shared with harness/lib ErrClass:
   1 Error 2 EvalError 3 RangeError 4 ReferenceError 5 SyntaxError 6 TypeError
   7 URIError 8 a thrown value that is not a native error; 9 = a Go panic escaped *)
Definition RangeErr : Z := 3.
Definition TypeErr : Z := 6.
Definition OtherThrown : Z := 8.

(* ---------------------------------------------------------------- payloads *)

(* a JS value as catchPanic sees it *)
Inductive jsval :=
| VErrObj (cls : Z)   (* object whose internal value is an ottoError: a native error instance *)
| VPlain              (* a primitive, or an object whose ToString completes *)
| VStrThrows.         (* an object whose toString/valueOf throw or return objects: Value.string() raises a script exception *)

(* Go values that can be the argument of panic() *)
Inductive base :=
| BErrorPtr (cls : Z)   (* *otto.Error *)
| BOttoError (cls : Z)  (* otto.ottoError *)
| BValue (v : jsval)    (* otto.Value *)
| BRuntimeStr           (* runtime.Error of string kind: runtime.errorString (nil dereference, makeslice), runtime.plainError (nil map) *)
| BRuntimeStruct        (* runtime.Error of struct kind: runtime.boundsError, *runtime.TypeAssertionError *)
| BGoString             (* panic("...") with a Go string: hereBeDragons, fmt.Sprintf(...) *)
| BForeignErr           (* an error value made by a Go library: pointer to struct *)
| BHost.                (* what a host interrupt function panics with: any other non-scalar Go value *)

(* panic(x) or panic(&exception{x}) *)
Inductive payload := Raw (b : base) | Exc (b : base).

Definition eject (p : payload) : base := match p with Raw b => b | Exc b => b end.

Definition base_is_js (b : base) : bool :=
  match b with BErrorPtr _ | BOttoError _ | BValue _ => true | _ => false end.
Definition is_js (p : payload) : bool := base_is_js (eject p).

(* ------------------------------------------------------ error.go catchPanic *)

Inductive api_result := ARet | AErr (cls : Z) | APanic (p : payload).

(* defer func() { if caught := recover(); caught != nil {
     if excep, ok := caught.( *exception); ok { caught = excep.eject() }
     switch caught := caught.(type) {
     case *Error: err = caught; return
     case ottoError: err = &Error{caught}; return
     case Value: if vl := caught.object(); vl != nil { if vl, ok := vl.value.(ottoError); ok { err = &Error{vl}; return } }
                 err = errors.New(caught.safeString()); return }
     panic(caught) } }()
   Value.safeString (since dae90c4) runs the script's toString/valueOf under its
   own recover: if that throws, a fixed text stands in and the thrown object
   still comes back as an error result. *)
Definition catch_panic (p : payload) : api_result :=
  match eject p with
  | BErrorPtr c => AErr c
  | BOttoError c => AErr c
  | BValue (VErrObj c) => AErr c
  | BValue VPlain => AErr OtherThrown
  | BValue VStrThrows => AErr OtherThrown
  | b => APanic (Raw b)
  end.

(* ---------------------------------------------- runtime.go tryCatchEvaluate *)

Inductive try_result := TCaught (v : jsval) | TRaised (p : payload).

(* switch caught := caught.(type) {
   case ottoError: tryValue = objectValue(rt.newErrorObjectError(caught))
   case Value:     tryValue = caught
   default:        tryValue = toValue(caught) }
   toValue turns Go scalars (by reflect.Kind) into JS primitives and panics
   with a bare ottoError TypeError ("invalid value") on everything else; that
   panic is raised inside the deferred function, so it leaves this try
   statement without reaching its catch clause. *)
Definition try_catch (p : payload) : try_result :=
  match eject p with
  | BOttoError c => TCaught (VErrObj c)
  | BValue v => TCaught v
  | BRuntimeStr | BGoString => TCaught VPlain
  | BErrorPtr _ | BRuntimeStruct | BForeignErr | BHost => TRaised (Raw (BOttoError TypeErr))
  end.

(* ------------------------------------------- enterScope / leaveScope, calls *)

(* rt.scope as the chain of depths, innermost first; [] is rt.scope == nil *)
Definition chain := list Z.

(* scop.outer = rt.scope
   if rt.scope != nil {
     if rt.stackLimit != 0 && rt.scope.depth+1 >= rt.stackLimit { panic(RangeError) }
     scop.depth = rt.scope.depth + 1 }
   rt.scope = scop *)
Definition enter (L : Z) (st : chain) : option chain :=
  match st with
  | [] => Some [0]
  | d :: _ => if negb (L =? 0) && (L <=? d + 1) then None else Some (d + 1 :: st)
  end.

Definition leave (st : chain) : chain := tl st.

Definition cur (st : chain) : Z := match st with [] => -1 | d :: _ => d end.

(* what a script does, as far as panics and scopes are concerned *)
Inductive comp :=
| Ret                        (* completes normally *)
| Raise (p : payload)        (* some callee panics with p *)
| Seq (a b : comp)
| Call (body : comp)         (* a function call: enterFunctionScope; defer leaveScope *)
| Try (body handler : comp)  (* try { body } catch (e) { handler } *)
| Rethrow.                   (* throw e inside a handler; elsewhere nothing *)

Inductive outcome := ONormal | OPanic (p : payload).

(* result: outcome, scope chain afterwards, deepest depth that was current *)
Fixpoint eval (L : Z) (ctx : option jsval) (c : comp) (st : chain) : outcome * chain * Z :=
  match c with
  | Ret => (ONormal, st, cur st)
  | Raise p => (OPanic p, st, cur st)
  | Seq a b =>
      match eval L ctx a st with
      | (ONormal, st1, m1) => let '(o, st2, m2) := eval L ctx b st1 in (o, st2, Z.max m1 m2)
      | r => r
      end
  | Call body =>
      match enter L st with
      | None => (OPanic (Exc (BOttoError RangeErr)), st, cur st)
      | Some st1 => let '(o, st2, m) := eval L ctx body st1 in (o, leave st2, Z.max (cur st) m)
      end
  | Try body h =>
      match eval L ctx body st with
      | (ONormal, st1, m) => (ONormal, st1, m)
      | (OPanic p, st1, m) =>
          match try_catch p with
          | TCaught v =>
              (* the catch clause runs under a second tryCatchEvaluate; what it lets
                 through is thrown again as panic(newException(value)) *)
              match eval L (Some v) h st1 with
              | (ONormal, st2, m2) => (ONormal, st2, Z.max m m2)
              | (OPanic p2, st2, m2) =>
                  match try_catch p2 with
                  | TCaught v2 => (OPanic (Exc (BValue v2)), st2, Z.max m m2)
                  | TRaised q => (OPanic q, st2, Z.max m m2)
                  end
              end
          | TRaised q => (OPanic q, st1, m)
          end
      end
  | Rethrow => match ctx with Some v => (OPanic (Exc (BValue v)), st, cur st) | None => (ONormal, st, cur st) end
  end.

(* Otto.Run: enterGlobalScope on rt.scope == nil, evaluate, leaveScope, all under catchPanic *)
Definition run (L : Z) (c : comp) : api_result :=
  match eval L None (Call c) [] with
  | (ONormal, _, _) => ARet
  | (OPanic p, _, _) => catch_panic p
  end.

Definition run_max (L : Z) (c : comp) : Z := snd (eval L None (Call c) []).
Definition run_chain (L : Z) (c : comp) : chain := snd (fst (eval L None (Call c) [])).

(* d nested function calls *)
Fixpoint nest (d : nat) : comp := match d with O => Ret | S n => Call (nest n) end.
(* d nested calls with a callee at the bottom *)
Fixpoint nest_then (d : nat) (c : comp) : comp := match d with O => c | S n => Call (nest_then n c) end.

(* every Raise of the tree satisfies a predicate *)
Fixpoint leaves (P : payload -> bool) (c : comp) : bool :=
  match c with
  | Ret | Rethrow => true
  | Raise p => P p
  | Seq a b => leaves P a && leaves P b
  | Call b => leaves P b
  | Try b h => leaves P b && leaves P h
  end.

(* ------------------------------------------------------- receiver preludes *)

(* object classes that matter to a prelude *)
Definition cObject : Z := 0.   Definition cFunction : Z := 1.  Definition cArray : Z := 2.
Definition cString : Z := 3.   Definition cBoolean : Z := 4.   Definition cNumber : Z := 5.
Definition cDate : Z := 6.     Definition cRegExp : Z := 7.    Definition cError : Z := 8.
Definition cArguments : Z := 9. Definition cGoSlice : Z := 10. Definition cGoArray : Z := 11.
Definition cMath : Z := 12.    Definition cGlobal : Z := 13.

(* value.kind *)
Inductive vkind :=
| KUndefined | KNull | KBoolean | KNumber | KString | KObject (cls : Z)
| KEmpty | KReference | KResult.   (* internal kinds; never in a Value that reaches a built-in *)

Definition public_kind (k : vkind) : bool :=
  match k with KEmpty | KReference | KResult => false | _ => true end.

Inductive prelude := PObj (cls : Z) | POk | PRaise (p : payload).

Definition type_error : prelude := PRaise (Exc (BOttoError TypeErr)).

(* runtime.go toObject *)
Definition toObject (k : vkind) : prelude :=
  match k with
  | KEmpty | KUndefined | KNull => type_error
  | KBoolean => PObj cBoolean
  | KString => PObj cString
  | KNumber => PObj cNumber
  | KObject c => PObj c
  | KReference | KResult => type_error      (* default: panicTypeError("toObject unknown kind") *)
  end.

(* runtime.go checkObjectCoercible / testObjectCoercible; the default branch
   is panic(fmt.Sprintf(...)): a Go string *)
Definition checkObjectCoercible (k : vkind) : prelude :=
  match k with
  | KReference | KEmpty | KNull | KUndefined => type_error
  | KNumber | KString | KBoolean | KObject _ => POk
  | KResult => PRaise (Raw BGoString)
  end.

(* FunctionCall.thisObject: toObject(This.resolve()); This is never a reference *)
Definition thisObject (k : vkind) : prelude := toObject k.

(* FunctionCall.thisClassObject *)
Definition thisClassObject (c : Z) (k : vkind) : prelude :=
  match thisObject k with
  | PObj c' => if c' =? c then PObj c' else type_error
  | r => r
  end.

(* builtin_string.go charAt / charCodeAt (since 8a02cb3):
     checkObjectCoercible(call.runtime, call.This)
     ... stringAt(newStringObject(call.This.string()), idx)
   the receiver is converted with ToString after the coercibility check; no
   object payload is looked at any more. *)
Definition charAt_prelude (k : vkind) : prelude := checkObjectCoercible k.

(* ES5 15.5.4.4: CheckObjectCoercible(this), then ToString(this): total on coercible values *)
Definition charAt_prelude_spec (k : vkind) : prelude :=
  match k with
  | KUndefined | KNull => type_error
  | _ => POk
  end.

Definition prelude_js (r : prelude) : bool :=
  match r with PObj _ | POk => true | PRaise p => is_js p end.
