(* correspondence cases for C18 *)
From Coq Require Import List Bool ZArith.
From Otto Require Import Common.Corr.
From Otto Require Export C01.Sem C01.Wf C01.Lang C01.Corr C18.Halt C18.Stack.
Import ListNotations.
Open Scope Z_scope.

Inductive case :=
| HCase (mode : Z) (p : prog) (k total : Z) (obs_log : list val) (obs_outcome : outcome)
        (as_panic : bool) (depth labels : Z) (globals : list val) (followup : bool)
| PCase (mode : Z) (p : prog) (j : Z) (obs_log : list val) (obs_outcome : outcome)
        (as_panic : bool) (depth labels : Z) (followup : bool)
| StackCase (limit d cls reached depth : Z) (repeat_same : bool)
(* nested calls some of which are built-in (native) frames: every frame, script or native, counts against the limit.
   shape 1: d-1 script frames and a native call innermost; shape 2: f, then d times (Array.prototype.map, callback g, f);
   shape 3: recursion through indirect eval; shape 4: recursion through a host function that re-enters Run.
   reached = script frames entered *)
| StackCase2 (shape limit d cls reached depth : Z) (repeat_same : bool)
(* a non-terminating program interrupted once from another goroutine: Run must unwind with
   the host's panic promptly and leave the runtime at rest and usable *)
| LCase (id : Z) (stopped as_panic rest_ok : bool)
(* an abnormal exit (throw, ReferenceError, TypeError, stack-limit RangeError) crossing `with` statements and
   try/finally blocks, handled in the same activation or in a caller: what the script then sees of its scope
   chain is given by the reference semantics C01/Full.v (the term has `throw` where the text raises the exit) *)
| WCase (p : list Full.stmt) (obs_log : list Full.val) (followup : bool)
(* a panic of the host raised below a Go host function (registered through [route]: typed functions called through
   reflection, bound methods, func fields, map entries, native functions calling Value.Call, ...) that the script
   calls with a callback; [fault]: who panics (a host function called by the callback, an interrupt function at a
   polling point inside the callback, the host function itself after [calls] callbacks, ...); [ctx]: 0 = no try block
   of the script around the call, 1 = try/catch around it, 2 = try/finally around it, 3 = try/finally around it and
   try/catch around that; [vk]: 0 = the host's panic value has a JavaScript form (string, number), 1 = it has none
   (a Go error value, a struct).
   Observed: ended (0 Run unwound with the host's own panic value, 1 Run returned normally, 2 Run returned the host's
   value as an error, 3 another panic, 4 not stopped, 5 another error, 6 Run returned a TypeError), seen = callback entries, caught = what the
   catch clause got (0 not run, 1 the host's own value, 2 anything else), fin = finally block ran, after = the
   statement after the call ran *)
| BCase (route fault ctx vk calls ended seen caught fin after : Z) (rest : bool).

(* what a host panic below a host function does, as [ended; seen; caught; fin; after].
   Go frames of the bridge pass it unchanged, so only the script's own try blocks matter: the property (b_spec) says Run
   unwinds with it whatever the script has around the call; otto (b_model) lets a surrounding try block recover it
   (tryCatchEvaluate, finding C18-try-intercepts): the catch clause then receives the host's value itself and the
   script goes on; a finally block runs and the value goes on as a thrown value that Run returns as an error.
   A value without a JavaScript form cannot be handed to the script: the conversion inside tryCatchEvaluate fails, the
   try statement is left with a TypeError instead (neither its catch clause nor its finally block runs), which an outer
   catch clause receives or Run returns *)
Definition b_spec (calls : Z) : list Z := [0; calls; 0; 0; 0].
Definition b_model (ctx vk calls : Z) : list Z :=
  if ctx =? 0 then b_spec calls
  else if vk =? 0 then
    (if ctx =? 1 then [1; calls; 1; 0; 1]
     else if ctx =? 2 then [2; calls; 0; 1; 0]
     else [1; calls; 1; 1; 1])
  else
    (if ctx =? 3 then [1; calls; 2; 0; 1] else [6; calls; 0; 0; 0]).

(* polls the wrapper spends before the body's block and after it.
   global mode: the `var` statement plays the role of the block's own poll.
   function mode: `var __r = main();` = statement + call node + callee; then the
   `var` statement inside main; epilogue `__done(1, __r);` = statement + call +
   callee + two argument identifiers + literal *)
(* mode 2: main entered through Value.Call: only the `var` statement of main precedes the model's polls *)
Definition off (mode : Z) : Z := if mode =? 0 then 0 else if mode =? 2 then 1 else 6.
Definition epi (mode : Z) : Z := if mode =? 0 then 0 else if mode =? 2 then 0 else 5.

Definition is_done (o : outcome) : bool := match o with ONormal | OReturned _ => true | _ => false end.

Record view := mkview { v_log : list val; v_out : outcome; v_panic : bool; v_globals : list val }.

Definition view_eqb (a b : view) : bool :=
  list_eqb val_eqb (v_log a) (v_log b) && outcome_eqb (v_out a) (v_out b) &&
  Bool.eqb (v_panic a) (v_panic b) && list_eqb val_eqb (v_globals a) (v_globals b).

Definition globals_of (mode : Z) (s : state) : list val :=
  if mode =? 0 then map (fun x => match lookup x (store s) with Some v => v | None => VUndef end) [0; 1; 2; 3]%nat
  else [].

Definition halt_out (o : outcome) : bool := match o with OThrew VHalt => true | _ => false end.

Definition frames (shape : Z) (d : nat) : list bool :=    (* true = script frame *)
  if shape =? 1 then repeat true (pred d) ++ [false]
  else if shape =? 2 then true :: concat (repeat [false; true; true] d)
  (* shapes 3 and 4: f, then the built-in (indirect eval / a host function that calls Run) and the global scope it
     enters, d times, then the innermost f: global scopes entered mid-stack count like every other frame *)
  else concat (repeat [true; false; false] d) ++ [true].
Definition count_true (l : list bool) : Z := Z.of_nat (length (filter (fun b => b) l)).

Definition verdict (c : case) : Z * Z :=
  match c with
  | LCase _ stopped aspanic rest => if stopped && aspanic && rest then (0, 0) else (3, 6)
  | BCase _ _ ctx vk calls ended seen caught fin after rest =>
      if negb rest then (3, 7)
      else judge zlist_eqb [ended; seen; caught; fin; after] (b_model ctx vk calls) (b_spec calls) (if ctx =? 0 then 0 else 1)
  | WCase p lg followup =>
      let '(ml, mo) := Full.run_program ffuel p in
      match mo with
      | FNormal => if negb followup then (3, 7) else if list_eqb fval_eqb lg ml then (0, 0) else (3, 11)
      | _ => declined
      end
  | StackCase limit d cls reached depth same =>
      (* d nested calls from the global scope *)
      let expect := match chain limit 0 (Z.to_nat d) with None => 3 | Some _ => 0 end in
      let exp_reached := if expect =? 0 then d else limit - 1 in
      if (cls =? expect) && (reached =? exp_reached) && (depth =? -1) && same then (0, 0) else (3, 0)
  | StackCase2 shape limit d cls reached depth same =>
      let fr := frames shape (Z.to_nat d) in
      let n := Z.of_nat (length fr) in
      (* the enterScope rule (C18_stack_limit_exact): exactly limit-1 nested frames are admitted *)
      let ok := match chain limit 0 (length fr) with None => false | Some _ => true end in
      let expect := if ok then 0 else 3 in
      let exp_reached := count_true (if ok then fr else firstn (Z.to_nat (limit - 1)) fr) in
      if (cls =? expect) && (reached =? exp_reached) && (depth =? -1) && same then (0, 0) else (3, 0)
  | HCase mode p k total lg oc aspanic depth labels globals followup =>
      let '(sb, _, ob) := run_o fuel declared 0 p in
      match ob with
      | OOutOfFuel => declined
      | _ =>
        let nm := polls sb in
        let expect_total := off mode + nm + (if is_done ob then epi mode else 0) in
        if negb (total =? expect_total) then (3, 8) (* the model polls where otto does not, or vice versa *)
        else if negb ((depth =? -1) && (labels =? 0) && followup) then (3, 7) (* not at rest *)
        else
          let nt := notry (SBlock p) in
          (* the model's outcome for a halt: OThrew VHalt = Run unwinds with the host's panic;
             OThrew VHaltCaught = a try recovered it and Run returns it as an error *)
          let norm (o : outcome) : outcome * bool :=
            match o with
            | OThrew VHalt => (OThrew VHalt, true)
            | OThrew VHaltCaught => (OThrew VHalt, false)
            | _ => (o, false)
            end in
          let mk (l : list val) (o : outcome) (g : list val) : view :=
            let '(o', pn) := norm (project mode o) in mkview l o' pn g in
          let model :=
            if k <=? 0 then mk (out sb) ob (globals_of mode sb)
            else if k <=? off mode then mkview [] (OThrew VHalt) true (globals_of mode (init_state declared 0))
            else if k - off mode <=? nm then
              let '(sa, _, oa) := run_o fuel declared (k - off mode) p in
              mk (out sa) oa (globals_of mode sa)
            else mkview (out sb) (OThrew VHalt) true (globals_of mode sb) in
          let spec :=
            if k <=? 0 then model
            else if k <=? off mode then model
            else if k - off mode <=? nm then
              let '(sa, _, oa) := run_o fuel declared (k - off mode) p in
              match snap sa with
              | Some l => mkview l (OThrew VHalt) true (if nt then globals_of mode sa else globals)
              | None => mk (out sa) oa (globals_of mode sa)
              end
            else model in
          let impl := mkview lg oc aspanic globals in
          judge view_eqb impl model spec (if nt then 0 else 1)
      end
  | PCase mode p j lg oc aspanic depth labels followup =>
      (* a host function panicking at its j-th call: log is the first j entries of the
         uninterrupted log when no try intervenes; always back at rest *)
      let '(sb, _, ob) := run_o fuel declared 0 p in
      match ob with
      | OOutOfFuel => declined
      | _ =>
        if negb ((depth =? -1) && (labels =? 0) && followup) then (3, 7)
        else if notry (SBlock p) then
          if list_eqb val_eqb lg (firstn (Z.to_nat j) (out sb)) && halt_out oc && aspanic then (0, 0) else (3, 0)
        else if list_eqb val_eqb (firstn (Z.to_nat j) lg) (firstn (Z.to_nat j) (out sb)) then (0, 0) else (3, 0)
      end
  end.
