(* Injecting the host's interrupt panic at the k-th polling point: the
   interrupted run and the uninterrupted run proceed in lock step up to poll k;
   at poll k the interrupted run stops with the host's panic and, in a program
   without try, nothing after that point happens, so its host-call log is a
   prefix of the uninterrupted log. *)
From Coq Require Import List Bool ZArith Lia.
From Otto Require Import C01.Sem C01.Wf C01.Lang C01.Proofs C18.Mono.
Import ListNotations.
Open Scope Z_scope.

Definition erase (s : state) : state := mkst (store s) (out s) (polls s) 0 (snap s).
Definition bump (s : state) : state := mkst (store s) (out s) (polls s + 1) (halt_at s) (snap s).
Definition halted (s : state) : state :=
  mkst (store s) (out s) (polls s + 1) (halt_at s) (Some (out s)).
Definition pre (a : state) : Prop := 0 <= polls a < halt_at a.
Definition prefix (x y : list val) : Prop := exists m, y = x ++ m.

Lemma tick_nohalt a : polls a + 1 <> halt_at a -> tick a = (bump a, None).
Proof. intros H. unfold tick, bump. destruct (Z.eqb_spec (polls a + 1) (halt_at a)); [contradiction|reflexivity]. Qed.
Lemma tick_dohalt a : polls a + 1 = halt_at a -> tick a = (halted a, Some VHalt).
Proof. intros H. unfold tick, halted. destruct (Z.eqb_spec (polls a + 1) (halt_at a)); [reflexivity|contradiction]. Qed.
Lemma tick_erase a : 0 <= polls a -> tick (erase a) = (erase (bump a), None).
Proof.
  intros H. unfold tick, erase, bump. cbn [polls halt_at store out snap].
  destruct (Z.eqb_spec (polls a + 1) 0); [lia|reflexivity].
Qed.
Lemma pre_bump a : pre a -> polls a + 1 <> halt_at a -> pre (bump a).
Proof. unfold pre, bump. cbn. lia. Qed.
Lemma halt_bump a : halt_at (bump a) = halt_at a. Proof. reflexivity. Qed.

Lemma prefix_of_extends x s1 s2 : prefix x (out s1) -> extends s1 s2 -> prefix x (out s2).
Proof. intros [m Hm] [m' Hm']. exists (m ++ m'). rewrite Hm', Hm, app_assoc. reflexivity. Qed.
Lemma prefix_refl x : prefix x x. Proof. exists []. now rewrite app_nil_r. Qed.

(* ---------- expressions ---------- *)
Definition eagree (k : Z) (ra rb : state * (val + val)) : Prop :=
  (pre (fst ra) /\ halt_at (fst ra) = k /\ fst rb = erase (fst ra) /\ snd rb = snd ra)
  \/ (polls (fst ra) = k /\ snd ra = inr VHalt /\ prefix (out (fst ra)) (out (fst rb))).

Lemma eval_halt_now e a : polls a + 1 = halt_at a -> eval a e = (halted a, inr VHalt).
Proof. intros H. destruct e; cbn [eval]; rewrite (tick_dohalt a H); reflexivity. Qed.

Lemma eagree_halt_now e a k :
  pre a -> halt_at a = k -> polls a + 1 = halt_at a -> eagree k (eval a e) (eval (erase a) e).
Proof.
  intros Hp Hk Hh. rewrite (eval_halt_now e a Hh). right. cbn [fst snd halted polls out].
  repeat split; [lia|]. apply (prefix_of_extends _ (erase a)); [apply prefix_refl|apply eval_extends].
Qed.

Ltac fin Hp Hk := left; cbn [fst snd]; split; [exact Hp|split; [exact Hk|split; reflexivity]].

(* the a-side stopped (inr VHalt, log prefix of b1's); whatever the b-side goes on to do, the log stays a prefix *)
Ltac stopped Hpf :=
  right; cbn [fst snd]; repeat split; try assumption; try reflexivity;
  repeat match goal with
  | |- prefix _ (out (fst (let (_, _) := ?x in _))) => destruct x as [? [?|?]]; cbn [fst snd]
  | |- prefix _ (out (fst (match ?x with _ => _ end))) => destruct x; cbn [fst snd]
  | |- prefix _ (out (fst (if ?c then _ else _))) => destruct c; cbn [fst snd]
  end;
  try exact Hpf.

Lemma eval_sync e : forall a k, pre a -> halt_at a = k -> eagree k (eval a e) (eval (erase a) e).
Proof.
  induction e as [v|x|x e IH|o e1 IH1 e2 IH2|e IH|e IH|c IHc e1 IH1 e2 IH2|e1 IH1 e2 IH2|e1 IH1 e2 IH2|x];
    intros a k Hp Hk;
    (destruct (Z.eq_dec (polls a + 1) (halt_at a)) as [Hh|Hn]; [apply eagree_halt_now; assumption|]);
    cbn [eval]; rewrite (tick_nohalt a Hn), (tick_erase a (proj1 Hp));
    pose proof (pre_bump a Hp Hn) as Hp1; pose proof (halt_bump a) as Hk1; rewrite Hk in Hk1;
    set (a1 := bump a) in *.
  - fin Hp1 Hk1.
  - change (store (erase a1)) with (store a1). destruct (lookup x (store a1)); fin Hp1 Hk1.
  - (* EAssign: a second tick for the identifier node *)
    destruct (Z.eq_dec (polls a1 + 1) (halt_at a1)) as [Hh2|Hn2].
    + rewrite (tick_dohalt a1 Hh2), (tick_erase a1 (proj1 Hp1)). right. cbn [fst snd halted polls out].
      repeat split; [lia|].
      match goal with |- prefix _ (out (fst ?t)) => assert (E : extends (erase (bump a1)) (fst t)) end.
      { pose proof (eval_extends e (erase (bump a1))) as H. destruct (eval (erase (bump a1)) e) as [s3 [v|x']]; cbn [fst] in *; [|exact H].
        eapply extends_trans; [exact H|]. exists []. cbn. now rewrite app_nil_r. }
      eapply prefix_of_extends; [|exact E]. apply prefix_refl.
    + rewrite (tick_nohalt a1 Hn2), (tick_erase a1 (proj1 Hp1)).
      pose proof (pre_bump a1 Hp1 Hn2) as Hp2.
      specialize (IH (bump a1) k Hp2 Hk1).
      destruct (eval (bump a1) e) as [a3 r3]; destruct (eval (erase (bump a1)) e) as [b3 r3'].
      destruct IH as [(Hq & Hk3 & Hb & Hr)|(Hq & Hr & Hpf)]; cbn [fst snd] in *.
      * subst b3 r3'. destruct r3 as [v|x']; fin Hq Hk3.
      * subst r3. right. cbn [fst snd]. repeat split; auto. destruct r3' as [v|x']; cbn [fst out set_var]; exact Hpf.
  - (* EBin *)
    specialize (IH1 a1 k Hp1 Hk1).
    destruct (eval a1 e1) as [a2 r2]; destruct (eval (erase a1) e1) as [b2 r2'].
    destruct IH1 as [(Hq & Hk2 & Hb & Hr)|(Hq & Hr & Hpf)]; cbn [fst snd] in *.
    + subst b2 r2'. destruct r2 as [va|x']; [|fin Hq Hk2].
      specialize (IH2 a2 k Hq Hk2).
      destruct (eval a2 e2) as [a3 r3]; destruct (eval (erase a2) e2) as [b3 r3'].
      destruct IH2 as [(Hq3 & Hk3 & Hb & Hr)|(Hq3 & Hr & Hpf)]; cbn [fst snd] in *.
      * subst b3 r3'. destruct r3; fin Hq3 Hk3.
      * subst r3. right. cbn [fst snd]. repeat split; auto. destruct r3'; exact Hpf.
    + subst r2. right. cbn [fst snd]. repeat split; auto.
      destruct r2' as [va|x']; [|exact Hpf].
      pose proof (eval_extends e2 b2) as H. destruct (eval b2 e2) as [b3 [vb|x']]; cbn [fst] in *;
        eapply prefix_of_extends; eassumption.
  - (* ENot *)
    specialize (IH a1 k Hp1 Hk1).
    destruct (eval a1 e) as [a2 r2]; destruct (eval (erase a1) e) as [b2 r2'].
    destruct IH as [(Hq & Hk2 & Hb & Hr)|(Hq & Hr & Hpf)]; cbn [fst snd] in *.
    + subst b2 r2'. destruct r2; fin Hq Hk2.
    + subst r2. right. cbn [fst snd]. repeat split; auto. destruct r2'; exact Hpf.
  - (* ELog *)
    destruct (Z.eq_dec (polls a1 + 1) (halt_at a1)) as [Hh2|Hn2].
    + rewrite (tick_dohalt a1 Hh2), (tick_erase a1 (proj1 Hp1)). right. cbn [fst snd halted polls out].
      repeat split; [lia|].
      match goal with |- prefix _ (out (fst ?t)) => assert (E : extends (erase (bump a1)) (fst t)) end.
      { pose proof (eval_extends e (erase (bump a1))) as H. destruct (eval (erase (bump a1)) e) as [s3 [v|x']]; cbn [fst] in *; [|exact H].
        eapply extends_trans; [exact H|]. exists [v]. reflexivity. }
      eapply prefix_of_extends; [|exact E]. apply prefix_refl.
    + rewrite (tick_nohalt a1 Hn2), (tick_erase a1 (proj1 Hp1)).
      pose proof (pre_bump a1 Hp1 Hn2) as Hp2.
      specialize (IH (bump a1) k Hp2 Hk1).
      destruct (eval (bump a1) e) as [a3 r3]; destruct (eval (erase (bump a1)) e) as [b3 r3'].
      destruct IH as [(Hq & Hk3 & Hb & Hr)|(Hq & Hr & Hpf)]; cbn [fst snd] in *.
      * subst b3 r3'. destruct r3 as [v|x']; fin Hq Hk3.
      * subst r3. right. cbn [fst snd]. repeat split; auto. destruct r3' as [v|x']; cbn [fst out emit]; [|exact Hpf].
        destruct Hpf as [m Hm]. exists (m ++ [v]). rewrite Hm, app_assoc. reflexivity.
  - (* ECond *)
    specialize (IHc a1 k Hp1 Hk1).
    destruct (eval a1 c) as [a2 r2]; destruct (eval (erase a1) c) as [b2 r2'].
    destruct IHc as [(Hq & Hk2 & Hb & Hr)|(Hq & Hr & Hpf)]; cbn [fst snd] in *.
    + subst b2 r2'. destruct r2 as [v|x']; [|fin Hq Hk2].
      destruct (truthy v); [apply IH1|apply IH2]; assumption.
    + subst r2. right. cbn [fst snd]. repeat split; auto.
      destruct r2' as [v|x']; [|exact Hpf].
      destruct (truthy v); eapply prefix_of_extends; try exact Hpf; apply eval_extends.
  - (* EAnd *)
    specialize (IH1 a1 k Hp1 Hk1).
    destruct (eval a1 e1) as [a2 r2]; destruct (eval (erase a1) e1) as [b2 r2'].
    destruct IH1 as [(Hq & Hk2 & Hb & Hr)|(Hq & Hr & Hpf)]; cbn [fst snd] in *.
    + subst b2 r2'. destruct r2 as [v|x']; [|fin Hq Hk2].
      destruct (truthy v); [apply IH2; assumption|fin Hq Hk2].
    + subst r2. right. cbn [fst snd]. repeat split; auto.
      destruct r2' as [v|x']; [|exact Hpf].
      destruct (truthy v); [|exact Hpf]. eapply prefix_of_extends; try exact Hpf; apply eval_extends.
  - (* EOr *)
    specialize (IH1 a1 k Hp1 Hk1).
    destruct (eval a1 e1) as [a2 r2]; destruct (eval (erase a1) e1) as [b2 r2'].
    destruct IH1 as [(Hq & Hk2 & Hb & Hr)|(Hq & Hr & Hpf)]; cbn [fst snd] in *.
    + subst b2 r2'. destruct r2 as [v|x']; [|fin Hq Hk2].
      destruct (truthy v); [fin Hq Hk2|apply IH2; assumption].
    + subst r2. right. cbn [fst snd]. repeat split; auto.
      destruct r2' as [v|x']; [|exact Hpf].
      destruct (truthy v); [exact Hpf|]. eapply prefix_of_extends; try exact Hpf; apply eval_extends.
  - (* EPostInc *)
    destruct (Z.eq_dec (polls a1 + 1) (halt_at a1)) as [Hh2|Hn2].
    + rewrite (tick_dohalt a1 Hh2), (tick_erase a1 (proj1 Hp1)). right. cbn [fst snd halted polls out].
      repeat split; [lia|].
      change (store (erase (bump a1))) with (store a1).
      destruct (lookup x (store a1)); cbn [fst out set_var erase bump]; apply prefix_refl.
    + rewrite (tick_nohalt a1 Hn2), (tick_erase a1 (proj1 Hp1)).
      pose proof (pre_bump a1 Hp1 Hn2) as Hp2.
      change (store (erase (bump a1))) with (store (bump a1)).
      destruct (lookup x (store (bump a1))); fin Hp2 Hk1.
Qed.

(* ---------- statements ---------- *)
Fixpoint notry (s : stmt expr) : bool :=
  let fix nl (l : list (stmt expr)) : bool :=
    match l with [] => true | x :: xs => notry x && nl xs end in
  match s with
  | SExpr _ | SReturn _ | SThrow _ | SBreak _ | SContinue _ => true
  | SBlock l => nl l
  | SIf _ s1 s2 => notry s1 && match s2 with Some s2 => notry s2 | None => true end
  | SWhile _ b => nl b
  | SDoWhile b _ => nl b
  | SFor _ _ _ b => nl b
  | SForIn _ _ b => nl b
  | SLabelled _ s => notry s
  | STry _ _ _ => false
  | SSwitch _ cs =>
      (fix nc (cs : list (option expr * list (stmt expr))) : bool :=
         match cs with [] => true | (_, b) :: cs' => nl b && nc cs' end) cs
  end.
Definition notry_list (l : list (stmt expr)) : bool := forallb notry l.
Lemma notry_block l : notry (SBlock l) = notry_list l.
Proof. simpl. induction l as [|x xs IH]; simpl; [reflexivity|]. now rewrite IH. Qed.
Lemma notry_while e l : notry (SWhile e l) = notry_list l.
Proof. simpl. induction l as [|x xs IH]; simpl; [reflexivity|]. now rewrite IH. Qed.

Lemma notry_dowhile e l : notry (SDoWhile l e) = notry_list l.
Proof. simpl. induction l as [|x xs IH]; simpl; [reflexivity|]. now rewrite IH. Qed.
Lemma notry_for i t u l : notry (SFor i t u l) = notry_list l.
Proof. simpl. induction l as [|x xs IH]; simpl; [reflexivity|]. now rewrite IH. Qed.

Lemma notry_switch e cs : notry (SSwitch e cs) = notry_list (bodies cs).
Proof.
  assert (H : forall l, (fix nl (l : list (stmt expr)) : bool :=
    match l with [] => true | x :: xs => notry x && nl xs end) l = notry_list l).
  { induction l as [|x xs IH]; simpl; [reflexivity|]. now rewrite IH. }
  simpl. unfold bodies, notry_list. induction cs as [|[c b] cs IH]; simpl; [reflexivity|].
  rewrite forallb_app, H, IH. reflexivity.
Qed.
Lemma notry_list_skipn cs i : notry_list (bodies cs) = true -> notry_list (body_from cs i) = true.
Proof.
  unfold body_from. revert i. induction cs as [|[c b] cs IH]; intros i H; destruct i; cbn [skipn]; try assumption.
  apply IH. unfold bodies, notry_list in *. simpl in H. rewrite forallb_app in H.
  apply andb_true_iff in H. tauto.
Qed.

(* clause selection: lock step, or the interrupted side stops inside a case expression *)
Definition fagree (k : Z) (ra rb : state * (option nat + val)) : Prop :=
  (pre (fst ra) /\ halt_at (fst ra) = k /\ fst rb = erase (fst ra) /\ snd rb = snd ra)
  \/ (polls (fst ra) = k /\ snd ra = inr VHalt /\ prefix (out (fst ra)) (out (fst rb))).
Lemma find_case_sync cs v : forall a i k, pre a -> halt_at a = k ->
  fagree k (find_case eval val_seq cs v a i) (find_case eval val_seq cs v (erase a) i).
Proof.
  induction cs as [|[[e|] b] cs IH]; intros a i k Hp Hk; cbn [find_case].
  - left. cbn [fst snd]. split; [exact Hp|split; [exact Hk|split; reflexivity]].
  - pose proof (eval_sync e a k Hp Hk) as H1.
    destruct (eval a e) as [a1 r1]; destruct (eval (erase a) e) as [b1 r1'].
    destruct H1 as [(Hq & Hk1 & Hb1 & Hr)|(Hq & Hr & Hpf)]; cbn [fst snd] in *.
    + subst b1 r1'. destruct r1 as [w|x]; [|left; cbn [fst snd]; split; [exact Hq|split; [exact Hk1|split; reflexivity]]].
      destruct (val_seq v w); [left; cbn [fst snd]; split; [exact Hq|split; [exact Hk1|split; reflexivity]]|apply IH; assumption].
    + subst r1. right. cbn [fst snd]. repeat split; auto.
      destruct r1' as [w|x]; [|exact Hpf].
      destruct (val_seq v w); [exact Hpf|].
      eapply prefix_of_extends; [exact Hpf|]. apply find_case_extends.
  - apply IH; assumption.
Qed.

Definition sagree (k : Z) (ra rb : st3) : Prop :=
  (pre (fst (fst ra)) /\ halt_at (fst (fst ra)) = k /\ fst (fst rb) = erase (fst (fst ra)) /\
   snd (fst rb) = snd (fst ra) /\ snd rb = snd ra)
  \/ (polls (fst (fst ra)) = k /\ snd ra = OExn VHalt /\ prefix (out (fst (fst ra))) (out (fst (fst rb)))).

Ltac sfin Hp Hk := left; cbn [fst snd]; split; [exact Hp|split; [exact Hk|repeat split; reflexivity]].

Section IterSync.
Variable exec : state -> list label -> stmt expr -> st3.
Hypothesis Hext : forall s L x, ext3 s (exec s L x).

Definition exec_ok (x : stmt expr) : Prop :=
  forall a L k, pre a -> halt_at a = k -> sagree k (exec a L x) (exec (erase a) L x).

Lemma olist_sync l : (forall x, In x l -> exec_ok x) ->
  forall a L acc k, pre a -> halt_at a = k ->
  sagree k (olist exec a L acc l) (olist exec (erase a) L acc l).
Proof.
  induction l as [|x xs IH]; intros Hl a L acc k Hp Hk; cbn [olist]; [sfin Hp Hk|].
  pose proof (Hl x (or_introl eq_refl) a L k Hp Hk) as H1.
  destruct (exec a L x) as [[a1 L1] r1]; destruct (exec (erase a) L x) as [[b1 L1'] r1'].
  destruct H1 as [(Hq & Hk1 & Hb & HL & Hr)|(Hq & Hr & Hpf)]; cbn [fst snd] in *.
  - subst b1 L1' r1'. destruct r1 as [o|v|]; [|sfin Hq Hk1|sfin Hq Hk1].
    destruct (is_res o); [sfin Hq Hk1|].
    apply IH; auto. intros y Hy. apply Hl. now right.
  - subst r1. right. cbn [fst snd]. repeat split; auto.
    destruct r1' as [o|v|]; try exact Hpf.
    destruct (is_res o); [exact Hpf|].
    eapply prefix_of_extends; [exact Hpf|]. apply (olist_extends exec Hext).
Qed.

Lemma owhile_sync n labels e body : (forall x, In x body -> exec_ok x) ->
  forall a L acc k, pre a -> halt_at a = k ->
  sagree k (owhile eval truthy exec n labels e body a L acc) (owhile eval truthy exec n labels e body (erase a) L acc).
Proof.
  intros Hb. induction n as [|n IH]; intros a L acc k Hp Hk; cbn [owhile]; [sfin Hp Hk|].
  pose proof (eval_sync e a k Hp Hk) as H1.
  destruct (eval a e) as [a1 r1]; destruct (eval (erase a) e) as [b1 r1'].
  destruct H1 as [(Hq & Hk1 & Hb1 & Hr)|(Hq & Hr & Hpf)]; cbn [fst snd] in *.
  - subst b1 r1'. destruct r1 as [v|x]; [|sfin Hq Hk1].
    destruct (truthy v); [|sfin Hq Hk1].
    pose proof (olist_sync body Hb a1 L OEmpty k Hq Hk1) as H2.
    destruct (olist exec a1 L OEmpty body) as [[a2 L2] r2]; destruct (olist exec (erase a1) L OEmpty body) as [[b2 L2'] r2'].
    destruct H2 as [(Hq2 & Hk2 & Hb2 & HL & Hr)|(Hq2 & Hr & Hpf)]; cbn [fst snd] in *.
    + subst b2 L2' r2'. destruct r2 as [o|v'|]; [|sfin Hq2 Hk2|sfin Hq2 Hk2].
      destruct o as [|w|t|t|w]; try (sfin Hq2 Hk2); try (apply IH; assumption).
      * destruct (mem t labels); sfin Hq2 Hk2.
      * destruct (mem t labels); [apply IH; assumption|sfin Hq2 Hk2].
    + subst r2. right. cbn [fst snd]. repeat split; auto.
      destruct r2' as [o|v'|]; try exact Hpf.
      destruct o as [|w|t|t|w]; try exact Hpf;
        try (eapply prefix_of_extends; [exact Hpf|]; apply (owhile_extends exec Hext)).
      * destruct (mem t labels); exact Hpf.
      * destruct (mem t labels); [|exact Hpf]. eapply prefix_of_extends; [exact Hpf|]. apply (owhile_extends exec Hext).
  - subst r1. right. cbn [fst snd]. repeat split; auto.
    destruct r1' as [v|x]; [|exact Hpf].
    destruct (truthy v); [|exact Hpf].
    eapply prefix_of_extends; [exact Hpf|].
    pose proof (olist_extends exec Hext body b1 L OEmpty) as H2. unfold ext3 in H2.
    destruct (olist exec b1 L OEmpty body) as [[b2 L2] r2]; cbn [fst] in *.
    destruct r2 as [o|v'|]; try exact H2.
    destruct o as [|w|t|t|w]; try exact H2;
      try (eapply extends_trans; [exact H2|]; apply (owhile_extends exec Hext)).
    + destruct (mem t labels); exact H2.
    + destruct (mem t labels); [|exact H2]. eapply extends_trans; [exact H2|]. apply (owhile_extends exec Hext).
Qed.

(* ---- do-while and for, through a shared "what the loop does with the body's outcome" ---- *)
Definition loop_tail (labels : list label) (again : state -> list label -> oval val -> st3)
           (r : st3) (acc : oval val) : st3 :=
  match r with
  | (s1, L1, ONorm o) =>
     match o with
     | OBrk t => if mem t labels then (s1, L1, ONorm acc) else (s1, L1, ONorm o)
     | OCont t => if mem t labels then again s1 L1 acc else (s1, L1, ONorm o)
     | ORet _ => (s1, L1, ONorm o)
     | OEmpty => again s1 L1 acc
     | OVal _ => again s1 L1 o
     end
  | r => r
  end.

Lemma loop_tail_ext labels again :
  (forall s1 L1 acc', extends s1 (fst (fst (again s1 L1 acc')))) ->
  forall r acc, extends (fst (fst r)) (fst (fst (loop_tail labels again r acc))).
Proof.
  intros Hag [[s1 L1] r] acc. unfold loop_tail. cbn [fst].
  destruct r as [o|v|]; try apply extends_refl.
  destruct o as [|w|t|t|w]; cbn [fst]; try apply extends_refl; try apply Hag.
  - destruct (mem t labels); apply extends_refl.
  - destruct (mem t labels); [apply Hag|apply extends_refl].
Qed.

Lemma loop_tail_sync labels again :
  (forall s1 L1 acc', extends s1 (fst (fst (again s1 L1 acc')))) ->
  (forall a L acc' k, pre a -> halt_at a = k -> sagree k (again a L acc') (again (erase a) L acc')) ->
  forall ra rb acc k, sagree k ra rb -> sagree k (loop_tail labels again ra acc) (loop_tail labels again rb acc).
Proof.
  intros Hext' Hag [[a1 L1] r1] [[b1 L1'] r1'] acc k H.
  destruct H as [(Hq & Hk1 & Hb & HL & Hr)|(Hq & Hr & Hpf)]; cbn [fst snd] in *.
  - subst b1 L1' r1'. unfold loop_tail. destruct r1 as [o|v|]; try (sfin Hq Hk1).
    destruct o as [|w|t|t|w]; try (sfin Hq Hk1); try (apply Hag; assumption).
    + destruct (mem t labels); sfin Hq Hk1.
    + destruct (mem t labels); [apply Hag; assumption|sfin Hq Hk1].
  - subst r1. right. cbn [loop_tail fst snd]. repeat split; auto.
    eapply prefix_of_extends; [exact Hpf|]. apply (loop_tail_ext labels again Hext' (b1, L1', r1') acc).
Qed.

Definition dw_again n labels e body (s1 : state) (L1 : list label) (acc' : oval val) : st3 :=
  match eval s1 e with
  | (s', inr x) => (s', L1, OExn x)
  | (s', inl v) => if truthy v then odowhile eval truthy exec n labels e body s' L1 acc' else (s', L1, ONorm acc')
  end.
Lemma odowhile_S n labels e body s L acc :
  odowhile eval truthy exec (S n) labels e body s L acc
  = loop_tail labels (dw_again n labels e body) (olist exec s L OEmpty body) acc.
Proof.
  cbn [odowhile]. unfold loop_tail, dw_again.
  destruct (olist exec s L OEmpty body) as [[s1 L1] [o|v|]]; try reflexivity.
Qed.

Lemma dw_again_ext n labels e body s1 L1 acc' : extends s1 (fst (fst (dw_again n labels e body s1 L1 acc'))).
Proof.
  unfold dw_again. pose proof (eval_extends e s1) as H1.
  destruct (eval s1 e) as [s' [v|x]]; cbn [fst] in *; [|exact H1].
  destruct (truthy v); cbn [fst]; [|exact H1].
  eapply extends_trans; [exact H1|]. apply (odowhile_extends exec Hext).
Qed.

Lemma odowhile_sync n labels e body : (forall x, In x body -> exec_ok x) ->
  forall a L acc k, pre a -> halt_at a = k ->
  sagree k (odowhile eval truthy exec n labels e body a L acc) (odowhile eval truthy exec n labels e body (erase a) L acc).
Proof.
  intros Hb. induction n as [|n IH]; intros a L acc k Hp Hk; [cbn [odowhile]; sfin Hp Hk|].
  rewrite !odowhile_S. apply loop_tail_sync.
  - intros; apply dw_again_ext.
  - intros a' L' acc' k' Hp' Hk'. unfold dw_again.
    pose proof (eval_sync e a' k' Hp' Hk') as H1.
    destruct (eval a' e) as [a1 r1]; destruct (eval (erase a') e) as [b1 r1'].
    destruct H1 as [(Hq & Hk1 & Hb1 & Hr)|(Hq & Hr & Hpf)]; cbn [fst snd] in *.
    + subst b1 r1'. destruct r1 as [v|x]; [|sfin Hq Hk1].
      destruct (truthy v); [apply IH; assumption|sfin Hq Hk1].
    + subst r1. right. cbn [fst snd]. repeat split; auto.
      destruct r1' as [v|x]; [|exact Hpf].
      destruct (truthy v); [|exact Hpf].
      eapply prefix_of_extends; [exact Hpf|]. apply (odowhile_extends exec Hext).
  - apply olist_sync; assumption.
Qed.

Definition for_again n labels test upd body (s1 : state) (L1 : list label) (acc' : oval val) : st3 :=
  match upd with
  | Some u => match eval s1 u with
              | (s2, inl _) => ofor eval truthy tick exec n labels test upd body s2 L1 acc'
              | (s2, inr x) => (s2, L1, OExn x)
              end
  | None => ofor eval truthy tick exec n labels test upd body s1 L1 acc'
  end.
Definition for_go n labels test upd body L acc (s'' : state) : st3 :=
  loop_tail labels (for_again n labels test upd body) (olist exec s'' L OEmpty body) acc.
Definition for_run n labels test upd body L acc (s' : state) : st3 :=
  match body with
  | [] => match tick s' with
          | (s'', Some x) => (s'', L, OExn x)
          | (s'', None) => for_go n labels test upd body L acc s''
          end
  | _ => for_go n labels test upd body L acc s'
  end.
Lemma ofor_S n labels test upd body s L acc :
  ofor eval truthy tick exec (S n) labels test upd body s L acc
  = match test with
    | Some e => match eval s e with
                | (s', inr x) => (s', L, OExn x)
                | (s', inl v) => if truthy v then for_run n labels test upd body L acc s' else (s', L, ONorm acc)
                end
    | None => for_run n labels test upd body L acc s
    end.
Proof.
  cbn [ofor]. unfold for_run, for_go.
  assert (H : forall s'', match olist exec s'' L OEmpty body with
    | (s1, L1, ONorm o) =>
          match o with
          | OBrk t => if mem t labels then (s1, L1, ONorm acc) else (s1, L1, ONorm o)
          | OCont t => if mem t labels then
              match upd with
              | Some u => match eval s1 u with
                          | (s2, inl _) => ofor eval truthy tick exec n labels test upd body s2 L1 acc
                          | (s2, inr x) => (s2, L1, OExn x)
                          end
              | None => ofor eval truthy tick exec n labels test upd body s1 L1 acc
              end else (s1, L1, ONorm o)
          | ORet _ => (s1, L1, ONorm o)
          | OEmpty =>
              match upd with
              | Some u => match eval s1 u with
                          | (s2, inl _) => ofor eval truthy tick exec n labels test upd body s2 L1 acc
                          | (s2, inr x) => (s2, L1, OExn x)
                          end
              | None => ofor eval truthy tick exec n labels test upd body s1 L1 acc
              end
          | OVal _ =>
              match upd with
              | Some u => match eval s1 u with
                          | (s2, inl _) => ofor eval truthy tick exec n labels test upd body s2 L1 o
                          | (s2, inr x) => (s2, L1, OExn x)
                          end
              | None => ofor eval truthy tick exec n labels test upd body s1 L1 o
              end
          end
    | r => r end = loop_tail labels (for_again n labels test upd body) (olist exec s'' L OEmpty body) acc).
  { intros s''. unfold loop_tail, for_again. destruct (olist exec s'' L OEmpty body) as [[s1 L1] [o|v|]]; reflexivity. }
  destruct test as [e|].
  - destruct (eval s e) as [s' [v|x]]; [|reflexivity]. destruct (truthy v); [|reflexivity].
    destruct body as [|b0 bs]; [destruct (tick s') as [s'' [x|]]; [reflexivity|]|]; apply H.
  - destruct body as [|b0 bs]; [destruct (tick s) as [s'' [x|]]; [reflexivity|]|]; apply H.
Qed.

Lemma for_again_ext n labels test upd body s1 L1 acc' :
  extends s1 (fst (fst (for_again n labels test upd body s1 L1 acc'))).
Proof.
  unfold for_again. destruct upd as [u|]; [|apply (ofor_extends exec Hext)].
  pose proof (eval_extends u s1) as H1.
  destruct (eval s1 u) as [s2 [v|x]]; cbn [fst] in *; [|exact H1].
  eapply extends_trans; [exact H1|]. apply (ofor_extends exec Hext).
Qed.
Lemma for_go_ext n labels test upd body L acc s'' :
  extends s'' (fst (fst (for_go n labels test upd body L acc s''))).
Proof.
  unfold for_go. eapply extends_trans; [apply (olist_extends exec Hext body s'' L OEmpty)|].
  apply loop_tail_ext. intros; apply for_again_ext.
Qed.
Lemma for_run_ext n labels test upd body L acc s' :
  extends s' (fst (fst (for_run n labels test upd body L acc s'))).
Proof.
  unfold for_run. destruct body as [|b0 bs]; [|apply for_go_ext].
  pose proof (tick_extends s') as Ht. destruct (tick s') as [s'' [x|]]; cbn [fst] in *; [exact Ht|].
  eapply extends_trans; [exact Ht|]. apply for_go_ext.
Qed.

Lemma ofor_sync n labels test upd body : (forall x, In x body -> exec_ok x) ->
  forall a L acc k, pre a -> halt_at a = k ->
  sagree k (ofor eval truthy tick exec n labels test upd body a L acc)
           (ofor eval truthy tick exec n labels test upd body (erase a) L acc).
Proof.
  intros Hb. induction n as [|n IH]; intros a L acc k Hp Hk; [cbn [ofor]; sfin Hp Hk|].
  rewrite !ofor_S.
  assert (Hgo : forall a' L' acc' k', pre a' -> halt_at a' = k' ->
            sagree k' (for_go n labels test upd body L' acc' a') (for_go n labels test upd body L' acc' (erase a'))).
  { intros a' L' acc' k' Hp' Hk'. unfold for_go. apply loop_tail_sync.
    - intros; apply for_again_ext.
    - intros a2 L2 acc2 k2 Hp2 Hk2. unfold for_again. destruct upd as [u|]; [|apply IH; assumption].
      pose proof (eval_sync u a2 k2 Hp2 Hk2) as H1.
      destruct (eval a2 u) as [a1 r1]; destruct (eval (erase a2) u) as [b1 r1'].
      destruct H1 as [(Hq & Hk1 & Hb1 & Hr)|(Hq & Hr & Hpf)]; cbn [fst snd] in *.
      + subst b1 r1'. destruct r1 as [v|x]; [apply IH; assumption|sfin Hq Hk1].
      + subst r1. right. cbn [fst snd]. repeat split; auto.
        destruct r1' as [v|x]; [|exact Hpf].
        eapply prefix_of_extends; [exact Hpf|]. apply (ofor_extends exec Hext).
    - apply olist_sync; assumption. }
  assert (Hrun : forall a' L' acc' k', pre a' -> halt_at a' = k' ->
            sagree k' (for_run n labels test upd body L' acc' a') (for_run n labels test upd body L' acc' (erase a'))).
  { intros a' L' acc' k' Hp' Hk'. unfold for_run. destruct body as [|b0 bs]; [|apply Hgo; assumption].
    destruct (Z.eq_dec (polls a' + 1) (halt_at a')) as [Hh|Hn].
    - rewrite (tick_dohalt a' Hh), (tick_erase a' (proj1 Hp')). right. cbn [fst snd halted polls out].
      repeat split; [lia|]. apply (prefix_of_extends _ (erase (bump a'))); [apply prefix_refl|]. apply for_go_ext.
    - rewrite (tick_nohalt a' Hn), (tick_erase a' (proj1 Hp')).
      apply Hgo; [apply pre_bump; assumption|rewrite halt_bump; assumption]. }
  destruct test as [e|]; [|apply Hrun; assumption].
  pose proof (eval_sync e a k Hp Hk) as H1.
  destruct (eval a e) as [a1 r1]; destruct (eval (erase a) e) as [b1 r1'].
  destruct H1 as [(Hq & Hk1 & Hb1 & Hr)|(Hq & Hr & Hpf)]; cbn [fst snd] in *.
  - subst b1 r1'. destruct r1 as [v|x]; [|sfin Hq Hk1].
    destruct (truthy v); [apply Hrun; assumption|sfin Hq Hk1].
  - subst r1. right. cbn [fst snd]. repeat split; auto.
    destruct r1' as [v|x]; [|exact Hpf].
    destruct (truthy v); [|exact Hpf].
    eapply prefix_of_extends; [exact Hpf|]. apply for_run_ext.
Qed.

Lemma oblock_sync l : (forall x, In x l -> exec_ok x) ->
  forall a L k, pre a -> halt_at a = k ->
  sagree k (oblock exec a L l) (oblock exec (erase a) L l).
Proof.
  intros Hl a L k Hp Hk. unfold oblock.
  pose proof (olist_sync l Hl a [] OEmpty k Hp Hk) as H1.
  destruct (olist exec a [] OEmpty l) as [[a1 L1] r1]; destruct (olist exec (erase a) [] OEmpty l) as [[b1 L1'] r1'].
  destruct H1 as [(Hq & Hk1 & Hb & HL & Hr)|(Hq & Hr & Hpf)]; cbn [fst snd] in *.
  - subst b1 L1' r1'. destruct r1 as [o|v|]; try (sfin Hq Hk1).
    destruct o; try (sfin Hq Hk1). destruct (mem l0 L); sfin Hq Hk1.
  - subst r1. right. cbn [fst snd]. repeat split; auto.
    destruct r1' as [o|v|]; try exact Hpf. destruct o; try exact Hpf. destruct (mem l0 L); exact Hpf.
Qed.
End IterSync.

Lemma notry_list_In l : notry_list l = true -> forall x, In x l -> notry x = true.
Proof. unfold notry_list. rewrite forallb_forall. auto. Qed.

Lemma exec_halt_now fuel a L x : polls a + 1 = halt_at a ->
  exec_o (S fuel) a L x = (halted a, L, OExn VHalt).
Proof. intros H. cbn [Sem.exec_o]. rewrite (tick_dohalt a H). reflexivity. Qed.

Theorem exec_sync : forall fuel x, notry x = true ->
  forall a L k, pre a -> halt_at a = k -> sagree k (exec_o fuel a L x) (exec_o fuel (erase a) L x).
Proof.
  induction fuel as [|fuel IH]; intros x Hnt a L k Hp Hk; [sfin Hp Hk|].
  destruct (Z.eq_dec (polls a + 1) (halt_at a)) as [Hh|Hn].
  { rewrite (exec_halt_now fuel a L x Hh). right. cbn [fst snd halted polls out].
    repeat split; [lia|]. apply (prefix_of_extends _ (erase a)); [apply prefix_refl|]. apply exec_extends. }
  cbn [Sem.exec_o]. rewrite (tick_nohalt a Hn), (tick_erase a (proj1 Hp)).
  pose proof (pre_bump a Hp Hn) as Hp1. pose proof (halt_bump a) as Hk1. rewrite Hk in Hk1.
  set (a1 := bump a) in *.
  assert (Hok : forall y, notry y = true -> exec_ok (exec_o fuel) y).
  { intros y Hy a' L' k' Hp' Hk'. apply IH; assumption. }
  destruct x as [e|l|e s1 s2|e body|body e|init test upd body|l|l|e|l x|e|b c f|e cases|tgt src body].
  - pose proof (eval_sync e a1 k Hp1 Hk1) as H1.
    destruct (eval a1 e) as [a2 r2]; destruct (eval (erase a1) e) as [b2 r2'].
    destruct H1 as [(Hq & Hk2 & Hb & Hr)|(Hq & Hr & Hpf)]; cbn [fst snd] in *.
    + subst b2 r2'. destruct r2; sfin Hq Hk2.
    + subst r2. right. cbn [fst snd]. repeat split; auto. destruct r2'; exact Hpf.
  - rewrite notry_block in Hnt. apply (oblock_sync _ (exec_extends fuel)); auto.
    intros y Hy. apply Hok. eapply notry_list_In; eassumption.
  - simpl in Hnt. apply andb_true_iff in Hnt as [Hn1 Hn2].
    pose proof (eval_sync e a1 k Hp1 Hk1) as H1.
    destruct (eval a1 e) as [a2 r2]; destruct (eval (erase a1) e) as [b2 r2'].
    destruct H1 as [(Hq & Hk2 & Hb & Hr)|(Hq & Hr & Hpf)]; cbn [fst snd] in *.
    + subst b2 r2'. destruct r2 as [v|x']; [|sfin Hq Hk2].
      destruct (truthy v); [apply IH; assumption|].
      destruct s2 as [s2|]; [apply IH; assumption|sfin Hq Hk2].
    + subst r2. right. cbn [fst snd]. repeat split; auto.
      destruct r2' as [v|x']; [|exact Hpf].
      destruct (truthy v); [eapply prefix_of_extends; [exact Hpf|]; apply exec_extends|].
      destruct s2 as [s2|]; [eapply prefix_of_extends; [exact Hpf|]; apply exec_extends|exact Hpf].
  - rewrite notry_while in Hnt. apply (owhile_sync _ (exec_extends fuel)); auto.
    intros y Hy. apply Hok. eapply notry_list_In; eassumption.
  - rewrite notry_dowhile in Hnt. apply (odowhile_sync _ (exec_extends fuel)); auto.
    intros y Hy. apply Hok. eapply notry_list_In; eassumption.
  - rewrite notry_for in Hnt.
    assert (Hf : forall a' k', pre a' -> halt_at a' = k' ->
       sagree k' (ofor eval truthy tick (exec_o fuel) fuel (L ++ [0%nat]) test upd body a' [] OEmpty)
                 (ofor eval truthy tick (exec_o fuel) fuel (L ++ [0%nat]) test upd body (erase a') [] OEmpty)).
    { intros a' k' Hp' Hk'. apply (ofor_sync _ (exec_extends fuel)); auto.
      intros y Hy. apply Hok. eapply notry_list_In; eassumption. }
    destruct (Z.eq_dec (polls a1 + 1) (halt_at a1)) as [Hhq|Hnq].
    { rewrite (tick_dohalt a1 Hhq), (tick_erase a1 (proj1 Hp1)). right. cbn [fst snd halted polls out].
      repeat split; [lia|]. apply (prefix_of_extends _ (erase (bump a1))); [apply prefix_refl|].
      destruct init as [i|]; [|apply (ofor_extends _ (exec_extends fuel))].
      pose proof (eval_extends i (erase (bump a1))) as He.
      destruct (eval (erase (bump a1)) i) as [b2 [v|x']]; cbn [fst] in *; [|exact He].
      eapply extends_trans; [exact He|]. apply (ofor_extends _ (exec_extends fuel)). }
    rewrite (tick_nohalt a1 Hnq), (tick_erase a1 (proj1 Hp1)).
    pose proof (pre_bump a1 Hp1 Hnq) as Hpq. pose proof (halt_bump a1) as Hkq. rewrite Hk1 in Hkq.
    set (aq := bump a1) in *.
    destruct init as [i|]; [|apply Hf; assumption].
    pose proof (eval_sync i aq k Hpq Hkq) as H1.
    destruct (eval aq i) as [a2 r2]; destruct (eval (erase aq) i) as [b2 r2'].
    destruct H1 as [(Hq & Hk2 & Hb & Hr)|(Hq & Hr & Hpf)]; cbn [fst snd] in *.
    + subst b2 r2'. destruct r2 as [v|x']; [apply Hf; assumption|sfin Hq Hk2].
    + subst r2. right. cbn [fst snd]. repeat split; auto.
      destruct r2' as [v|x']; [|exact Hpf].
      eapply prefix_of_extends; [exact Hpf|]. apply (ofor_extends _ (exec_extends fuel)).
  - sfin Hp1 Hk1.
  - sfin Hp1 Hk1.
  - pose proof (eval_sync e a1 k Hp1 Hk1) as H1.
    destruct (eval a1 e) as [a2 r2]; destruct (eval (erase a1) e) as [b2 r2'].
    destruct H1 as [(Hq & Hk2 & Hb & Hr)|(Hq & Hr & Hpf)]; cbn [fst snd] in *.
    + subst b2 r2'. destruct r2; sfin Hq Hk2.
    + subst r2. right. cbn [fst snd]. repeat split; auto. destruct r2'; exact Hpf.
  - simpl in Hnt. pose proof (IH x Hnt a1 (L ++ [l]) k Hp1 Hk1) as H1.
    destruct (exec_o fuel a1 (L ++ [l]) x) as [[a2 L2] r2]; destruct (exec_o fuel (erase a1) (L ++ [l]) x) as [[b2 L2'] r2'].
    destruct H1 as [(Hq & Hk2 & Hb & HL & Hr)|(Hq & Hr & Hpf)]; cbn [fst snd] in *.
    + subst b2 L2' r2'. destruct r2 as [[| |t| |]| |]; try sfin Hq Hk2. destruct (Nat.eqb t l); sfin Hq Hk2.
    + subst r2. right. destruct r2' as [[| |t| |]| |]; try destruct (Nat.eqb t l); cbn [fst snd]; repeat split; auto.
  - pose proof (eval_sync e a1 k Hp1 Hk1) as H1.
    destruct (eval a1 e) as [a2 r2]; destruct (eval (erase a1) e) as [b2 r2'].
    destruct H1 as [(Hq & Hk2 & Hb & Hr)|(Hq & Hr & Hpf)]; cbn [fst snd] in *.
    + subst b2 r2'. destruct r2; sfin Hq Hk2.
    + subst r2. right. cbn [fst snd]. repeat split; auto. destruct r2'; exact Hpf.
  - discriminate Hnt.
  - (* switch *)
    rewrite notry_switch in Hnt.
    pose proof (eval_sync e a1 k Hp1 Hk1) as H1.
    destruct (eval a1 e) as [a2 r2]; destruct (eval (erase a1) e) as [b2 r2'].
    destruct H1 as [(Hq & Hk2 & Hb & Hr)|(Hq & Hr & Hpf)]; cbn [fst snd] in *.
    + subst b2 r2'. destruct r2 as [v|x']; [|sfin Hq Hk2].
      pose proof (find_case_sync cases v a2 0%nat k Hq Hk2) as H2.
      destruct (find_case eval val_seq cases v a2 0) as [a3 r3]; destruct (find_case eval val_seq cases v (erase a2) 0) as [b3 r3'].
      destruct H2 as [(Hq3 & Hk3 & Hb3 & Hr3)|(Hq3 & Hr3 & Hpf3)]; cbn [fst snd] in *.
      * subst b3 r3'. destruct r3 as [r|x']; [|sfin Hq3 Hk3].
        destruct (switch_target cases r) as [i|]; [|sfin Hq3 Hk3].
        apply (oblock_sync _ (exec_extends fuel)); auto.
        intros y Hy. apply Hok. eapply notry_list_In; [apply notry_list_skipn; exact Hnt|exact Hy].
      * subst r3. right. cbn [fst snd]. repeat split; auto.
        destruct r3' as [r|x']; [|exact Hpf3].
        destruct (switch_target cases r) as [i|]; [|exact Hpf3].
        eapply prefix_of_extends; [exact Hpf3|]. apply (oblock_extends _ (exec_extends fuel)).
    + subst r2. right. cbn [fst snd]. repeat split; auto.
      destruct r2' as [v|x']; [|exact Hpf].
      pose proof (find_case_extends cases v b2 0%nat) as He.
      destruct (find_case eval val_seq cases v b2 0) as [b3 [r|x']]; cbn [fst] in *;
        [|eapply prefix_of_extends; eassumption].
      destruct (switch_target cases r) as [i|]; [|eapply prefix_of_extends; eassumption].
      eapply prefix_of_extends; [eapply prefix_of_extends; [exact Hpf|exact He]|].
      apply (oblock_extends _ (exec_extends fuel)).
  - (* for-in *)
    unfold enum. pose proof (eval_sync src a1 k Hp1 Hk1) as H1.
    destruct (eval a1 src) as [a2 r2]; destruct (eval (erase a1) src) as [b2 r2'].
    destruct H1 as [(Hq & Hk2 & Hb & Hr)|(Hq & Hr & Hpf)]; cbn [fst snd] in *.
    + subst b2 r2'. destruct r2 as [v|x']; cbn [olevels]; sfin Hq Hk2.
    + subst r2. right. cbn [fst snd]. repeat split; auto. destruct r2' as [v|x']; exact Hpf.
Qed.

(* ---------- whole programs ---------- *)
Theorem prefix_effects fuel declared k (p : prog) :
  notry (SBlock p) = true -> 0 < k ->
  let '(sa, La, oa) := run_o fuel declared k p in
  let '(sb, Lb, ob) := run_o fuel declared 0 p in
  (polls sa < k /\ sb = erase sa /\ La = Lb /\ oa = ob)        (* the interrupt was never reached *)
  \/ (polls sa = k /\ oa = OThrew VHalt /\ prefix (out sa) (out sb)).
Proof.
  intros Hnt Hk. unfold run_o.
  pose proof (exec_sync fuel (SBlock p) Hnt (init_state declared k) [] k) as H.
  assert (Hpre : pre (init_state declared k)) by (unfold pre, init_state; cbn; lia).
  specialize (H Hpre eq_refl).
  change (erase (init_state declared k)) with (init_state declared 0) in H.
  destruct (exec_o fuel (init_state declared k) [] (SBlock p)) as [[sa La] ra].
  destruct (exec_o fuel (init_state declared 0) [] (SBlock p)) as [[sb Lb] rb].
  destruct H as [(Hq & Hka & Hb & HL & Hr)|(Hq & Hr & Hpf)]; cbn [fst snd] in *.
  - left. subst sb Lb rb. repeat split; auto. unfold pre in Hq. rewrite Hka in Hq. apply Hq.
  - right. subst ra. repeat split; auto.
Qed.

(* otto deviation: a JavaScript try intercepts the host's panic (tryCatchEvaluate
   recovers every Go panic): the script goes on after the interrupt *)
Definition w_try_intercepts : prog :=
  [STry [SExpr (ELog (ELit (VNum 1)))] (Some [SExpr (ELog (ELit (VNum 2)))]) None;
   SExpr (ELog (ELit (VNum 3)))].
Lemma w_try_intercepts_runs :
  let '(s, _, o) := run_o 50 [] 4 w_try_intercepts in
  snap s = Some [] /\ out s = [VNum 2; VNum 3] /\ o = ONormal.
Proof. vm_compute. repeat split. Qed.
