(* runtime.go enterScope / leaveScope depth accounting and the stack limit. *)
From Coq Require Import ZArith Bool Lia.
Open Scope Z_scope.

(* enterScope from a scope of depth [depth] with limit [limit] (0 = unlimited):
   RangeError (None) when depth+1 >= limit, else the callee runs at depth+1 *)
Definition enter (limit depth : Z) : option Z :=
  if negb (limit =? 0) && (limit <=? depth + 1) then None else Some (depth + 1).

(* [d] nested calls starting from a scope at depth [depth]: either all are
   admitted (Some max depth reached) or a RangeError is raised (None).
   leaveScope runs on every exit (deferred), so the depth after the chain is
   the depth before it in both cases. *)
Fixpoint chain (limit depth : Z) (d : nat) : option Z :=
  match d with
  | O => Some depth
  | S d' => match enter limit depth with
            | None => None
            | Some depth' => chain limit depth' d'
            end
  end.

Lemma chain_spec limit : forall d depth, 0 <= depth ->
  (chain limit depth d = None <-> (limit <> 0 /\ limit <= depth + Z.of_nat d /\ (d <> O))) /\
  (forall m, chain limit depth d = Some m -> m = depth + Z.of_nat d /\ (limit = 0 \/ m < limit \/ d = O)).
Proof.
  induction d as [|d IH]; intros depth Hd.
  - cbn [chain]. split; [split; [discriminate|intros (_ & _ & H); contradiction]|].
    intros m H. injection H as <-. split; [lia|auto].
  - cbn [chain]. unfold enter.
    destruct (IH (depth + 1) ltac:(lia)) as [I1 I2].
    assert (Hs : Z.of_nat (S d) = Z.of_nat d + 1) by lia.
    destruct (Z.eqb_spec limit 0) as [E0|E0]; cbn [negb andb].
    + split.
      * rewrite I1. split; intros H; exfalso; apply (proj1 H); exact E0.
      * intros m Hm. destruct (I2 m Hm) as [-> _]. split; [lia|auto].
    + destruct (Z.leb_spec limit (depth + 1)) as [Hl|Hl].
      * split; [|discriminate]. split; [|reflexivity]. intros _. repeat split; try lia; try discriminate.
      * split.
        -- rewrite I1. split.
           ++ intros (H1 & H2 & H3). repeat split; try assumption; try lia; try discriminate.
           ++ intros (H1 & H2 & _). repeat split; try assumption; try lia.
        -- intros m Hm. destruct (I2 m Hm) as [-> H]. split; [lia|].
           destruct H as [H|[H|H]]; [auto|right; left; lia|]. subst d. cbn. right. left. lia.
Qed.

(* from the global scope (depth 0): with limit L >= 1 exactly L-1 nested calls
   are admitted, and the depth never reaches L *)
Theorem stack_limit_exact (L : Z) (d : nat) : 1 <= L ->
  (chain L 0 d = None <-> L <= Z.of_nat d) /\
  (forall m, chain L 0 d = Some m -> m = Z.of_nat d /\ m < L).
Proof.
  intros HL. destruct (chain_spec L d 0 ltac:(lia)) as [H1 H2]. split.
  - rewrite H1. split.
    + intros (_ & H & _). lia.
    + intros H. repeat split; try lia.
  - intros m Hm. destruct (H2 m Hm) as [-> H]. split; [lia|].
    destruct H as [H|[H|H]]; try lia.
Qed.
