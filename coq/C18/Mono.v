(* Effects are monotone: executing any statement never retracts a host call
   already made.  (Used for "effects committed before an abnormal exit are
   intact".) *)
From Coq Require Import List Bool ZArith Lia.
From Otto Require Import C01.Sem C01.Wf C01.Lang C01.Proofs.
Import ListNotations.

Notation exec_o := (exec_o eval truthy tick recatch val_seq enum live bind).
Notation st3 := (state * list label * ores val)%type.

Definition ext3 (s : state) (r : st3) : Prop := extends s (fst (fst r)).

Section Iter.
Variable exec : state -> list label -> stmt expr -> st3.
Hypothesis Hexec : forall s L x, ext3 s (exec s L x).

Lemma olist_extends l : forall s L acc, ext3 s (olist exec s L acc l).
Proof.
  induction l as [|x xs IH]; intros s L acc; cbn [olist]; [apply extends_refl|].
  pose proof (Hexec s L x) as H1. unfold ext3 in *.
  destruct (exec s L x) as [[s1 L1] r1]; cbn [fst] in *.
  destruct r1 as [o|v|]; cbn [fst]; try exact H1.
  destruct (is_res o); cbn [fst]; [exact H1|].
  eapply extends_trans; [exact H1|]. apply IH.
Qed.

Lemma owhile_extends n labels e body : forall s L acc, ext3 s (owhile eval truthy exec n labels e body s L acc).
Proof.
  induction n as [|n IH]; intros s L acc; cbn [owhile]; [apply extends_refl|].
  pose proof (eval_extends e s) as H1. unfold ext3 in *.
  destruct (eval s e) as [s' [v|x]]; cbn [fst] in *; [|exact H1].
  destruct (truthy v); cbn [fst]; [|exact H1].
  pose proof (olist_extends body s' L OEmpty) as H2. unfold ext3 in H2.
  destruct (olist exec s' L OEmpty body) as [[s1 L1] r1]; cbn [fst] in *.
  assert (H12 : extends s s1) by (eapply extends_trans; eassumption).
  destruct r1 as [o|v'|]; cbn [fst]; try exact H12.
  destruct o as [|w|t|t|w]; cbn [fst]; try exact H12.
  - eapply extends_trans; [exact H12|]. apply IH.
  - eapply extends_trans; [exact H12|]. apply IH.
  - destruct (mem t labels); exact H12.
  - destruct (mem t labels); cbn [fst]; [|exact H12]. eapply extends_trans; [exact H12|]. apply IH.
Qed.

Lemma odowhile_extends n labels e body : forall s L acc, ext3 s (odowhile eval truthy exec n labels e body s L acc).
Proof.
  induction n as [|n IH]; intros s L acc; cbn [odowhile]; [apply extends_refl|].
  pose proof (olist_extends body s L OEmpty) as H2. unfold ext3 in *.
  destruct (olist exec s L OEmpty body) as [[s1 L1] r1]; cbn [fst] in *.
  destruct r1 as [o|v'|]; cbn [fst]; try exact H2.
  assert (Hag : forall acc', extends s (fst (fst (match eval s1 e with
        | (s', inr x) => (s', L1, OExn x)
        | (s', inl v) => if truthy v then odowhile eval truthy exec n labels e body s' L1 acc' else (s', L1, ONorm acc')
        end)))).
  { intros acc'. pose proof (eval_extends e s1) as H1.
    destruct (eval s1 e) as [s' [v|x]]; cbn [fst] in *; [|eapply extends_trans; eassumption].
    destruct (truthy v); cbn [fst]; [|eapply extends_trans; eassumption].
    eapply extends_trans; [exact H2|]. eapply extends_trans; [exact H1|]. apply IH. }
  destruct o as [|w|t|t|w]; cbn [fst]; try exact H2; try apply Hag.
  - destruct (mem t labels); exact H2.
  - destruct (mem t labels); cbn [fst]; [apply Hag|exact H2].
Qed.

Lemma ofor_extends n labels test upd body : forall s L acc, ext3 s (ofor eval truthy tick exec n labels test upd body s L acc).
Proof.
  induction n as [|n IH]; intros s L acc; cbn [ofor]; [apply extends_refl|]. unfold ext3 in *.
  assert (Hgo : forall s'', extends s'' (fst (fst (
        match olist exec s'' L OEmpty body with
        | (s1, L1, ONorm o) =>
          match o with
          | OBrk t => if mem t labels then (s1, L1, ONorm acc) else (s1, L1, ONorm o)
          | OCont t => if mem t labels then
              match upd with
              | Some u => match eval s1 u with
                          | (s2, inl _) => ofor eval truthy tick exec n labels test upd body s2 L1 acc
                          | (s2, inr x) => (s2, L1, OExn x)
                          end
              | None => ofor eval truthy tick exec n labels test upd body s1 L1 acc
              end else (s1, L1, ONorm o)
          | ORet _ => (s1, L1, ONorm o)
          | OEmpty =>
              match upd with
              | Some u => match eval s1 u with
                          | (s2, inl _) => ofor eval truthy tick exec n labels test upd body s2 L1 acc
                          | (s2, inr x) => (s2, L1, OExn x)
                          end
              | None => ofor eval truthy tick exec n labels test upd body s1 L1 acc
              end
          | OVal _ =>
              match upd with
              | Some u => match eval s1 u with
                          | (s2, inl _) => ofor eval truthy tick exec n labels test upd body s2 L1 o
                          | (s2, inr x) => (s2, L1, OExn x)
                          end
              | None => ofor eval truthy tick exec n labels test upd body s1 L1 o
              end
          end
        | r => r
        end)))).
  { intros s''. pose proof (olist_extends body s'' L OEmpty) as H2. unfold ext3 in H2.
    destruct (olist exec s'' L OEmpty body) as [[s1 L1] r1]; cbn [fst] in *.
    destruct r1 as [o|v'|]; cbn [fst]; try exact H2.
    assert (Hag : forall acc', extends s'' (fst (fst (
              match upd with
              | Some u => match eval s1 u with
                          | (s2, inl _) => ofor eval truthy tick exec n labels test upd body s2 L1 acc'
                          | (s2, inr x) => (s2, L1, OExn x)
                          end
              | None => ofor eval truthy tick exec n labels test upd body s1 L1 acc'
              end)))).
    { intros acc'. destruct upd as [u|].
      - pose proof (eval_extends u s1) as H1.
        destruct (eval s1 u) as [s2 [v|x]]; cbn [fst] in *; [|eapply extends_trans; eassumption].
        eapply extends_trans; [exact H2|]. eapply extends_trans; [exact H1|]. apply IH.
      - eapply extends_trans; [exact H2|]. apply IH. }
    destruct o as [|w|t|t|w]; cbn [fst]; try exact H2; try apply Hag.
    - destruct (mem t labels); exact H2.
    - destruct (mem t labels); cbn [fst]; [apply Hag|exact H2]. }
  destruct test as [e|].
  - pose proof (eval_extends e s) as H1.
    destruct (eval s e) as [s' [v|x]]; cbn [fst] in *; [|exact H1].
    destruct (truthy v); cbn [fst]; [|exact H1].
    destruct body as [|b0 bs].
    + pose proof (tick_extends s') as Ht. destruct (tick s') as [s'' [x|]]; cbn [fst] in *.
      * eapply extends_trans; eassumption.
      * eapply extends_trans; [exact H1|]. eapply extends_trans; [exact Ht|]. apply Hgo.
    + eapply extends_trans; [exact H1|]. apply Hgo.
  - destruct body as [|b0 bs].
    + pose proof (tick_extends s) as Ht. destruct (tick s) as [s'' [x|]]; cbn [fst] in *.
      * exact Ht.
      * eapply extends_trans; [exact Ht|]. apply Hgo.
    + apply Hgo.
Qed.

Lemma oblock_extends l s L : ext3 s (oblock exec s L l).
Proof.
  unfold oblock. pose proof (olist_extends l s [] OEmpty) as H. unfold ext3 in *.
  destruct (olist exec s [] OEmpty l) as [[s1 L1] r1]; cbn [fst] in *.
  destruct r1 as [o|v|]; try exact H. destruct o; try exact H. destruct (mem l0 L); exact H.
Qed.
End Iter.

Lemma find_case_extends cs v : forall s i, extends s (fst (find_case eval val_seq cs v s i)).
Proof.
  induction cs as [|[[e|] b] cs IH]; intros s i; cbn [find_case fst]; [apply extends_refl| |apply IH].
  pose proof (eval_extends e s) as H1.
  destruct (eval s e) as [s' [w|x]]; cbn [fst] in *; [|exact H1].
  destruct (val_seq v w); cbn [fst]; [exact H1|]. eapply extends_trans; [exact H1|]. apply IH.
Qed.

Lemma exec_extends : forall fuel s L x, ext3 s (exec_o fuel s L x).
Proof.
  induction fuel as [|fuel IH]; intros s L x; [apply extends_refl|].
  cbn [Sem.exec_o]. unfold ext3.
  pose proof (tick_extends s) as Ht. destruct (tick s) as [s0 [h|]]; cbn [fst] in *; [exact Ht|].
  assert (Hblk : forall s1 L1 l, extends s1 (fst (fst (oblock (exec_o fuel) s1 L1 l)))).
  { intros. apply (oblock_extends _ IH). }
  destruct x as [e|l|e s1 s2|e body|body e|init test upd body|l|l|e|l x|e|b c f|e cases|tgt src body].
  - pose proof (eval_extends e s0) as H. destruct (eval s0 e) as [s1 [v|x]]; cbn [fst] in *; eapply extends_trans; eassumption.
  - eapply extends_trans; [exact Ht|]. apply Hblk.
  - pose proof (eval_extends e s0) as H. destruct (eval s0 e) as [s' [v|x]]; cbn [fst] in *; [|eapply extends_trans; eassumption].
    destruct (truthy v).
    + eapply extends_trans; [exact Ht|]. eapply extends_trans; [exact H|]. apply IH.
    + destruct s2 as [s2|]; cbn [fst].
      * eapply extends_trans; [exact Ht|]. eapply extends_trans; [exact H|]. apply IH.
      * eapply extends_trans; eassumption.
  - eapply extends_trans; [exact Ht|]. apply (owhile_extends _ IH).
  - eapply extends_trans; [exact Ht|]. apply (odowhile_extends _ IH).
  - pose proof (tick_extends s0) as Hq. destruct (tick s0) as [sq [xq|]]; cbn [fst] in *; [eapply extends_trans; eassumption|].
    assert (Htq : extends s sq) by (eapply extends_trans; eassumption).
    destruct init as [i|].
    + pose proof (eval_extends i sq) as H. destruct (eval sq i) as [s1 [v|x]]; cbn [fst] in *; [|eapply extends_trans; eassumption].
      eapply extends_trans; [exact Htq|]. eapply extends_trans; [exact H|]. apply (ofor_extends _ IH).
    + eapply extends_trans; [exact Htq|]. apply (ofor_extends _ IH).
  - exact Ht.
  - exact Ht.
  - pose proof (eval_extends e s0) as H. destruct (eval s0 e) as [s1 [v|x]]; cbn [fst] in *; eapply extends_trans; eassumption.
  - pose proof (IH s0 (L ++ [l]) x) as H. unfold ext3 in H.
    destruct (exec_o fuel s0 (L ++ [l]) x) as [[s1 L1] r]; cbn [fst] in *.
    assert (Hs1 : extends s s1) by (eapply extends_trans; eassumption).
    destruct r as [[| |t| |]| |]; cbn [fst]; try exact Hs1.
    destruct (Nat.eqb t l); cbn [fst]; exact Hs1.
  - pose proof (eval_extends e s0) as H. destruct (eval s0 e) as [s1 [v|x]]; cbn [fst] in *; eapply extends_trans; eassumption.
  - (* try *)
    assert (Hp : forall s1 L1 l, extends s1 (fst (fst (opolled tick (oblock (exec_o fuel)) s1 L1 l)))).
    { intros s1 L1 l. unfold opolled. pose proof (tick_extends s1) as Ht1.
      destruct (tick s1) as [s1' [h|]]; cbn [fst] in *; [exact Ht1|].
      eapply extends_trans; [exact Ht1|]. apply Hblk. }
    pose proof (Hp s0 L b) as H1.
    destruct (opolled tick (oblock (exec_o fuel)) s0 L b) as [[s1 L1] r1] eqn:E1; cbn [fst] in *.
    assert (H2 : extends s0 (fst (fst (ocatch recatch (opolled tick (oblock (exec_o fuel))) (s1, L1, r1) c)))).
    { unfold ocatch. destruct r1 as [o|v|]; destruct c as [cb|]; cbn [fst]; try exact H1.
      pose proof (Hp s1 L1 cb) as Hc.
      destruct (opolled tick (oblock (exec_o fuel)) s1 L1 cb) as [[s2' L2'] [o2|v2|]]; cbn [fst] in *;
        eapply extends_trans; eassumption. }
    destruct (ocatch recatch (opolled tick (oblock (exec_o fuel))) (s1, L1, r1) c) as [[s2 L2] r2]; cbn [fst] in *.
    eapply extends_trans; [exact Ht|].
    unfold ofinally. destruct f as [fb|].
    + destruct r2 as [o|v|]; cbn [fst]; try exact H2;
        (pose proof (Hp s2 L2 fb) as H3; destruct (opolled tick (oblock (exec_o fuel)) s2 L2 fb) as [[s3 L3] r3]; cbn [fst] in *;
         assert (H23 : extends s0 s3) by (eapply extends_trans; eassumption);
         destruct r3 as [o3|v3|]; cbn [fst]; try exact H23; destruct (is_res o3); exact H23).
    + destruct r2; exact H2.
  - (* switch *)
    pose proof (eval_extends e s0) as H1.
    destruct (eval s0 e) as [s1 [v|x]]; cbn [fst] in *; [|eapply extends_trans; eassumption].
    pose proof (find_case_extends cases v s1 0) as H2.
    destruct (find_case eval val_seq cases v s1 0) as [s2 [r|x]]; cbn [fst] in *;
      [|eapply extends_trans; [exact Ht|]; eapply extends_trans; eassumption].
    assert (H02 : extends s s2) by (eapply extends_trans; [exact Ht|]; eapply extends_trans; eassumption).
    destruct (switch_target cases r) as [i|]; cbn [fst]; [|exact H02].
    eapply extends_trans; [exact H02|]. apply Hblk.
  - (* for-in: the subject is evaluated; a MiniJS value has nothing to enumerate *)
    unfold enum. pose proof (eval_extends src s0) as H1.
    destruct (eval s0 src) as [s1 [v|x]]; cbn [fst olevels] in *; eapply extends_trans; eassumption.
Qed.
