(* C13 — lemmas about the Math part *)
From Coq Require Import ZArith Bool List Lia.
From Otto Require Import Common.Double C13.SpecMath C13.ModelMath.
Import ListNotations.
Open Scope Z_scope.

(* ---------- special-value tables ---------- *)
(* every ES5 rule for pow is honoured by otto's wrapper over math.Pow, except
   the one cell pow(1, NaN) *)
Lemma pow_table_honoured : forall cx cy r,
  pow_tbl cx cy = Some r ->
  otto_pow_tbl cx cy = Some r \/ (cx = CFin false KOne /\ cy = CNaN).
Proof.
  intros cx cy r H.
  destruct cx as [| [] | [] | [] []]; destruct cy as [| [] | [] | [] []];
    cbn in H |- *; try discriminate; inversion H; subst; auto.
Qed.

(* where ES5 has no rule, math.Pow's extra special cases stay inside the general regime:
   they only ever say "1" (x = 1) or "x itself" (y = 1) *)
Lemma pow_table_extra : forall cx cy r,
  pow_tbl cx cy = None -> otto_pow_tbl cx cy = Some r ->
  r = ROne false /\ cx = CFin false KOne.
Proof.
  intros cx cy r H1 H2.
  destruct cx as [| [] | [] | [] []]; destruct cy as [| [] | [] | [] []];
    cbn in H1, H2; try discriminate; inversion H2; subst; auto.
Qed.

Lemma atan2_table_eq : forall cy cx, otto_atan2_tbl cy cx = atan2_tbl cy cx.
Proof.
  intros cy cx.
  destruct cy as [| [] | [] | [] []]; destruct cx as [| [] | [] | [] []]; reflexivity.
Qed.
