(* C13 — lemmas about the Math part *)
From Coq Require Import ZArith Bool List Lia Zify.
From Otto Require Import Common.Double C13.SpecMath C13.ModelMath.
Import ListNotations.
Open Scope Z_scope.
Ltac Zify.zify_post_hook ::= Z.div_mod_to_equations.

(* ---------- special-value tables ---------- *)
(* every ES5 rule for pow is honoured by otto's wrapper over math.Pow *)
Lemma pow_table_honoured : forall cx cy r,
  pow_tbl cx cy = Some r -> otto_pow_tbl cx cy = Some r.
Proof.
  intros cx cy r H.
  destruct cx as [| [] | [] | [] []]; destruct cy as [| [] | [] | [] []];
    cbn in H |- *; try discriminate; inversion H; subst; auto.
Qed.

(* where ES5 has no rule, math.Pow's extra special cases stay inside the general regime:
   they only ever say "1" (x = 1) or "x itself" (y = 1) *)
Lemma pow_table_extra : forall cx cy r,
  pow_tbl cx cy = None -> otto_pow_tbl cx cy = Some r ->
  r = ROne false /\ cx = CFin false KOne.
Proof.
  intros cx cy r H1 H2.
  destruct cx as [| [] | [] | [] []]; destruct cy as [| [] | [] | [] []];
    cbn in H1, H2; try discriminate; inversion H2; subst; auto.
Qed.

Lemma atan2_table_eq : forall cy cx, otto_atan2_tbl cy cx = atan2_tbl cy cx.
Proof.
  intros cy cx.
  destruct cy as [| [] | [] | [] []]; destruct cx as [| [] | [] | [] []]; reflexivity.
Qed.

(* ---------- max / min ---------- *)
Lemma key_ninf : key ninf_bits = - pinf_bits - 1.
Proof. vm_compute. reflexivity. Qed.
Lemma key_pinf : key pinf_bits = pinf_bits.
Proof. vm_compute. reflexivity. Qed.

Lemma absb_range : forall b, 0 <= absb b < 2 ^ 63.
Proof. intro b. unfold absb. apply Z.mod_pos_bound. reflexivity. Qed.

Lemma hi_decomp : forall a, 2 ^ 63 <= a < 2 ^ 64 -> a = 2 ^ 63 + absb a.
Proof.
  intros a H. unfold absb.
  change (2 ^ 63) with 9223372036854775808 in *. change (2 ^ 64) with 18446744073709551616 in *. lia.
Qed.

Lemma max_step_ninf : forall a, valid_bits a -> is_nan a = false -> max_step ninf_bits a = a.
Proof.
  intros a [H0 H1] Hn. unfold max_step. rewrite key_ninf.
  unfold is_nan in Hn. apply Z.ltb_ge in Hn.
  pose proof (absb_range a) as Ha. unfold key, sgnb.
  assert (2 ^ 63 = 9223372036854775808) as P63 by reflexivity.
  assert (2 ^ 64 = 18446744073709551616) as P64 by reflexivity.
  assert (pinf_bits = 9218868437227405312) as PI by reflexivity.
  destruct (Z.leb_spec (2 ^ 63) a) as [Hs | Hs].
  - assert (a = 2 ^ 63 + absb a) as Ea by (apply hi_decomp; lia).
    destruct (Z.ltb_spec (- pinf_bits - 1) (- absb a - 1)); [reflexivity |].
    assert (absb a = pinf_bits) by lia. unfold ninf_bits. lia.
  - destruct (Z.ltb_spec (- pinf_bits - 1) a); [reflexivity | lia].
Qed.

Lemma min_step_pinf : forall a, valid_bits a -> is_nan a = false -> min_step pinf_bits a = a.
Proof.
  intros a [H0 H1] Hn. unfold min_step. rewrite key_pinf.
  unfold is_nan in Hn. apply Z.ltb_ge in Hn.
  pose proof (absb_range a) as Ha. unfold key, sgnb.
  assert (2 ^ 63 = 9223372036854775808) as P63 by reflexivity.
  assert (pinf_bits = 9218868437227405312) as PI by reflexivity.
  destruct (Z.leb_spec (2 ^ 63) a) as [Hs | Hs].
  - destruct (Z.ltb_spec (- absb a - 1) pinf_bits); [reflexivity | lia].
  - assert (absb a = a) as Ea by (unfold absb; apply Z.mod_small; lia).
    destruct (Z.ltb_spec a pinf_bits); [reflexivity | lia].
Qed.

Lemma step_not_nan : forall a b, is_nan a = false -> is_nan b = false ->
  is_nan (max_step a b) = false /\ is_nan (min_step a b) = false.
Proof.
  intros a b Ha Hb. unfold max_step, min_step.
  destruct (key a <? key b); destruct (key b <? key a); auto.
Qed.

Lemma fold_loop_max : forall l r, is_nan r = false ->
  fold_loop go_max r l = if existsb is_nan l then nan_bits else fold_left max_step l r.
Proof.
  induction l as [| v l IH]; intros r Hr; [reflexivity |].
  cbn [fold_loop existsb fold_left].
  destruct (is_nan v) eqn:Ev; [reflexivity |]. cbn [orb].
  assert (go_max r v = max_step r v) as -> by (unfold go_max; rewrite Hr, Ev; reflexivity).
  apply IH. apply step_not_nan; assumption.
Qed.

Lemma fold_loop_min : forall l r, is_nan r = false ->
  fold_loop go_min r l = if existsb is_nan l then nan_bits else fold_left min_step l r.
Proof.
  induction l as [| v l IH]; intros r Hr; [reflexivity |].
  cbn [fold_loop existsb fold_left].
  destruct (is_nan v) eqn:Ev; [reflexivity |]. cbn [orb].
  assert (go_min r v = min_step r v) as -> by (unfold go_min; rewrite Hr, Ev; reflexivity).
  apply IH. apply step_not_nan; assumption.
Qed.

(* otto's argument-count switch and early-exit loop compute the ES5 maximum *)
Lemma max_model_is_spec : forall l, Forall valid_bits l -> max_model l = max_spec l.
Proof.
  intros l HV. unfold max_model, maxmin_model, max_spec.
  destruct l as [| a rest]; [reflexivity |].
  inversion HV as [| ? ? Ha HV']; subst.
  cbn [existsb fold_left].
  destruct (is_nan a) eqn:En.
  { cbn [orb]. destruct rest; [unfold canon; rewrite En |]; reflexivity. }
  cbn [orb]. rewrite (max_step_ninf a Ha En).
  destruct rest as [| b rest']; [unfold canon; rewrite En; reflexivity |].
  apply fold_loop_max; assumption.
Qed.

Lemma min_model_is_spec : forall l, Forall valid_bits l -> min_model l = min_spec l.
Proof.
  intros l HV. unfold min_model, maxmin_model, min_spec.
  destruct l as [| a rest]; [reflexivity |].
  inversion HV as [| ? ? Ha HV']; subst.
  cbn [existsb fold_left].
  destruct (is_nan a) eqn:En.
  { cbn [orb]. destruct rest; [unfold canon; rewrite En |]; reflexivity. }
  cbn [orb]. rewrite (min_step_pinf a Ha En).
  destruct rest as [| b rest']; [unfold canon; rewrite En; reflexivity |].
  apply fold_loop_min; assumption.
Qed.

(* the fold returns one of its inputs, and it dominates all of them *)
Lemma fold_max_char : forall l r,
  let m := fold_left max_step l r in
  (m = r \/ In m l) /\ key r <= key m /\ (forall x, In x l -> key x <= key m).
Proof.
  induction l as [| v l IH]; intro r; cbn [fold_left In].
  { split; [auto |]. split; [lia | intros x []]. }
  specialize (IH (max_step r v)). cbv zeta in IH. destruct IH as (I1 & I2 & I3).
  assert (key r <= key (max_step r v) /\ key v <= key (max_step r v) /\
          (max_step r v = r \/ max_step r v = v)) as (S1 & S2 & S3).
  { unfold max_step. destruct (Z.ltb_spec (key r) (key v)); repeat split; auto; lia. }
  split.
  { destruct I1 as [E | Hin]; [| auto]. rewrite E. destruct S3 as [-> | ->]; auto. }
  split; [lia |].
  intros x [<- | Hx]; [lia | auto].
Qed.

Lemma fold_min_char : forall l r,
  let m := fold_left min_step l r in
  (m = r \/ In m l) /\ key m <= key r /\ (forall x, In x l -> key m <= key x).
Proof.
  induction l as [| v l IH]; intro r; cbn [fold_left In].
  { split; [auto |]. split; [lia | intros x []]. }
  specialize (IH (min_step r v)). cbv zeta in IH. destruct IH as (I1 & I2 & I3).
  assert (key (min_step r v) <= key r /\ key (min_step r v) <= key v /\
          (min_step r v = r \/ min_step r v = v)) as (S1 & S2 & S3).
  { unfold min_step. destruct (Z.ltb_spec (key v) (key r)); repeat split; auto; lia. }
  split.
  { destruct I1 as [E | Hin]; [| auto]. rewrite E. destruct S3 as [-> | ->]; auto. }
  split; [lia |].
  intros x [<- | Hx]; [lia | auto].
Qed.

Lemma key_zero : forall b, valid_bits b -> key b = 0 -> b = 0.
Proof.
  intros b [H0 H1] Hk. unfold key, sgnb in Hk. pose proof (absb_range b).
  destruct (Z.leb_spec (2 ^ 63) b); lia.
Qed.
Lemma key_nzero : forall b, valid_bits b -> key b = -1 -> b = nzero_bits.
Proof.
  intros b [H0 H1] Hk. unfold key, sgnb in Hk. pose proof (absb_range b) as Ha.
  assert (2 ^ 63 = 9223372036854775808) as P63 by reflexivity.
  assert (2 ^ 64 = 18446744073709551616) as P64 by reflexivity.
  destruct (Z.leb_spec (2 ^ 63) b); [| lia].
  assert (absb b = 0) as E by lia.
  pose proof (hi_decomp b ltac:(lia)). unfold nzero_bits. lia.
Qed.

(* 15.8.2.11: +0 is considered larger than -0, whatever the argument order *)
Lemma max_zero : forall l, Forall valid_bits l -> existsb is_nan l = false ->
  In 0 l -> (forall x, In x l -> key x <= 0) -> max_spec l = 0.
Proof.
  intros l HV Hn H0 Hle. unfold max_spec. rewrite Hn.
  destruct (fold_max_char l ninf_bits) as (I1 & I2 & I3). cbv zeta in *.
  set (m := fold_left max_step l ninf_bits) in *.
  pose proof (I3 0 H0) as Hge. change (key 0) with 0 in Hge.
  destruct I1 as [E | Hin].
  { rewrite E, key_ninf in Hge. unfold pinf_bits in Hge. lia. }
  apply key_zero; [rewrite Forall_forall in HV; auto | specialize (Hle m Hin); lia].
Qed.

Lemma min_zero : forall l, Forall valid_bits l -> existsb is_nan l = false ->
  In nzero_bits l -> (forall x, In x l -> -1 <= key x) -> min_spec l = nzero_bits.
Proof.
  intros l HV Hn H0 Hle. unfold min_spec. rewrite Hn.
  destruct (fold_min_char l pinf_bits) as (I1 & I2 & I3). cbv zeta in *.
  set (m := fold_left min_step l pinf_bits) in *.
  pose proof (I3 nzero_bits H0) as Hge. change (key nzero_bits) with (-1) in Hge.
  destruct I1 as [E | Hin].
  { rewrite E, key_pinf in Hge. unfold pinf_bits in Hge. lia. }
  apply key_nzero; [rewrite Forall_forall in HV; auto | specialize (Hle m Hin); lia].
Qed.

(* the maximum is NaN exactly when an argument is NaN *)
Lemma max_nan_iff : forall l, Forall valid_bits l ->
  (is_nan (max_spec l) = true <-> existsb is_nan l = true) /\
  (is_nan (min_spec l) = true <-> existsb is_nan l = true).
Proof.
  intros l HV. unfold max_spec, min_spec.
  destruct (existsb is_nan l) eqn:E.
  { split; split; auto. }
  assert (forall x, In x l -> is_nan x = false) as Hx.
  { intros x Hin. destruct (is_nan x) eqn:Ex; [| reflexivity].
    assert (existsb is_nan l = true) by (apply existsb_exists; eauto). congruence. }
  destruct (fold_max_char l ninf_bits) as ([E1 | E1] & _).
  - destruct (fold_min_char l pinf_bits) as ([E2 | E2] & _); cbv zeta in *.
    + rewrite E1, E2. split; split; intro H; discriminate H.
    + rewrite E1, (Hx _ E2). split; split; intro H; discriminate H.
  - destruct (fold_min_char l pinf_bits) as ([E2 | E2] & _); cbv zeta in *.
    + rewrite E2, (Hx _ E1). split; split; intro H; discriminate H.
    + rewrite (Hx _ E1), (Hx _ E2). split; split; intro H; discriminate H.
Qed.

(* ---------- round ---------- *)
(* 15.8.2.15: the result is THE integer n with n - 1/2 <= x < n + 1/2 *)
Lemma q_round_char : forall S d, 0 < d ->
  let n := q_round S d in 2 * n * d - d <= 2 * S < 2 * n * d + d.
Proof.
  intros S d Hd n. unfold n, q_round.
  pose proof (Z.div_mod (2 * S + d) (2 * d) ltac:(lia)) as E.
  pose proof (Z.mod_pos_bound (2 * S + d) (2 * d) ltac:(lia)) as B.
  set (q := (2 * S + d) / (2 * d)) in *. nia.
Qed.

Lemma q_round_unique : forall S d n, 0 < d -> 2 * n * d - d <= 2 * S < 2 * n * d + d -> n = q_round S d.
Proof.
  intros S d n Hd H. unfold q_round.
  apply Z.div_unique with (r := 2 * S + d - 2 * d * n); nia.
Qed.

(* otto's floor-and-compare computes the 15.8.2.15 integer for every rational *)
Lemma q_round_model_eq : forall S d, 0 < d -> q_round_model S d = q_round S d.
Proof.
  intros S d Hd. unfold q_round_model.
  pose proof (Z.div_mod S d ltac:(lia)) as E.
  pose proof (Z.mod_pos_bound S d Hd) as B.
  set (f := S / d) in *.
  destruct (Z.leb_spec d (2 * (S - f * d))); apply q_round_unique; nia.
Qed.

Lemma round_model_is_spec : forall b, round_model b = round_spec b.
Proof.
  intro b. unfold round_model, round_spec, exact_unary.
  destruct (decode b) as [| neg | neg m e]; try reflexivity.
  destruct (Z.leb_spec 0 e); [reflexivity |].
  rewrite q_round_model_eq by (apply Z.pow_pos_nonneg; lia). reflexivity.
Qed.
