(* C13 — ES5 15.1.3 (URI handling functions) and B.2.1 / B.2.2 (escape,
   unescape) over lists of UTF-16 code units, executable.
   [None] is "throw a URIError". *)
From Coq Require Import ZArith Bool List Lia.
Import ListNotations.
Open Scope Z_scope.

(* ---------- characters ---------- *)
Definition is_alpha (c : Z) : bool := ((65 <=? c) && (c <=? 90)) || ((97 <=? c) && (c <=? 122)).
Definition is_dec (c : Z) : bool := (48 <=? c) && (c <=? 57).
Definition mem (c : Z) (l : list Z) : bool := existsb (Z.eqb c) l.

(* uriReserved  ; / ? : @ & = + $ ,   *)
Definition uri_reserved : list Z := [59; 47; 63; 58; 64; 38; 61; 43; 36; 44].
(* uriMark  - _ . ! ~ * ' ( )  *)
Definition uri_mark : list Z := [45; 95; 46; 33; 126; 42; 39; 40; 41].
Definition uri_unescaped (c : Z) : bool := is_alpha c || is_dec c || mem c uri_mark.

(* 15.1.3.3 encodeURI: unescapedURISet = uriReserved + uriUnescaped + "#" *)
Definition unesc_uri (c : Z) : bool := uri_unescaped c || mem c uri_reserved || (c =? 35).
(* 15.1.3.4 encodeURIComponent: unescapedURIComponentSet = uriUnescaped *)
Definition unesc_comp (c : Z) : bool := uri_unescaped c.
(* 15.1.3.1 decodeURI: reservedURISet = uriReserved + "#" ; 15.1.3.2: empty *)
Definition reserved_uri (c : Z) : bool := mem c uri_reserved || (c =? 35).
Definition reserved_comp (c : Z) : bool := false.

Definition is_hi (c : Z) : bool := (0xD800 <=? c) && (c <=? 0xDBFF).
Definition is_lo (c : Z) : bool := (0xDC00 <=? c) && (c <=? 0xDFFF).
Definition is_surr (c : Z) : bool := (0xD800 <=? c) && (c <=? 0xDFFF).

(* ---------- hex and UTF-8 ---------- *)
Definition hexd (d : Z) : Z := if d <? 10 then 48 + d else 55 + d.   (* upper case *)
Definition hexv (c : Z) : option Z :=
  if (48 <=? c) && (c <=? 57) then Some (c - 48)
  else if (65 <=? c) && (c <=? 70) then Some (c - 55)
  else if (97 <=? c) && (c <=? 102) then Some (c - 87)
  else None.
Definition hexbyte (h1 h2 : Z) : option Z :=
  match hexv h1, hexv h2 with Some a, Some b => Some (16 * a + b) | _, _ => None end.
Definition pct (b : Z) : list Z := [37; hexd (b / 16); hexd (b mod 16)].

(* the UTF-8 octets of a code point (15.1.3 table 21) *)
Definition utf8 (v : Z) : list Z :=
  if v <? 0x80 then [v]
  else if v <? 0x800 then [0xC0 + v / 64; 0x80 + v mod 64]
  else if v <? 0x10000 then [0xE0 + v / 4096; 0x80 + (v / 64) mod 64; 0x80 + v mod 64]
  else [0xF0 + v / 262144; 0x80 + (v / 4096) mod 64; 0x80 + (v / 64) mod 64; 0x80 + v mod 64].

Definition pair_value (h l : Z) : Z := (h - 0xD800) * 0x400 + (l - 0xDC00) + 0x10000.
(* the code units of a code point *)
Definition units (v : Z) : list Z :=
  if v <? 0x10000 then [v]
  else [0xD800 + (v - 0x10000) / 0x400; 0xDC00 + (v - 0x10000) mod 0x400].

(* ---------- 15.1.3 Encode ---------- *)
Fixpoint Encode (unesc : Z -> bool) (l : list Z) : option (list Z) :=
  match l with
  | [] => Some []
  | c :: r =>
      if unesc c then option_map (cons c) (Encode unesc r)
      else if is_lo c then None
      else if is_hi c then
        match r with
        | [] => None
        | c2 :: r2 =>
            if is_lo c2 then option_map (app (flat_map pct (utf8 (pair_value c c2)))) (Encode unesc r2)
            else None
        end
      else option_map (app (flat_map pct (utf8 c))) (Encode unesc r)
  end.

(* ---------- 15.1.3 Decode ---------- *)
(* number of leading 1 bits of an octet B >= 0x80 *)
Definition lead_n (B : Z) : Z :=
  if B <? 0xC0 then 1 else if B <? 0xE0 then 2 else if B <? 0xF0 then 3
  else if B <? 0xF8 then 4 else 5.

(* n further escapes %XX whose two most significant bits are 10 *)
Fixpoint take_conts (n : nat) (l : list Z) : option (list Z * list Z) :=
  match n with
  | O => Some ([], l)
  | S n' =>
      match l with
      | p :: h1 :: h2 :: r =>
          if p =? 37 then
            match hexbyte h1 h2 with
            | Some B =>
                if B / 64 =? 2 then
                  match take_conts n' r with
                  | Some (bs, r') => Some (B :: bs, r')
                  | None => None
                  end
                else None
            | None => None
            end
          else None
      | _ => None
      end
  end.

(* the code point of a lead octet and its continuation octets, if it is a valid
   UTF-8 encoding: shortest form, not a surrogate, at most 0x10FFFF *)
Definition utf8_value (B : Z) (bs : list Z) : option Z :=
  match bs with
  | [b1] => let v := (B - 0xC0) * 64 + (b1 - 0x80) in if 0x80 <=? v then Some v else None
  | [b1; b2] =>
      let v := (B - 0xE0) * 4096 + (b1 - 0x80) * 64 + (b2 - 0x80) in
      if (0x800 <=? v) && negb (is_surr v) then Some v else None
  | [b1; b2; b3] =>
      let v := (B - 0xF0) * 262144 + (b1 - 0x80) * 4096 + (b2 - 0x80) * 64 + (b3 - 0x80) in
      if (0x10000 <=? v) && (v <=? 0x10FFFF) then Some v else None
  | _ => None
  end.

Fixpoint Decode (fuel : nat) (reserved : Z -> bool) (l : list Z) : option (list Z) :=
  match l with
  | [] => Some []
  | c :: r =>
      match fuel with
      | O => None
      | S f =>
          if negb (c =? 37) then option_map (cons c) (Decode f reserved r)
          else
            match r with
            | h1 :: h2 :: r2 =>
                match hexbyte h1 h2 with
                | None => None
                | Some B =>
                    if B <? 0x80 then
                      if reserved B then option_map (app [c; h1; h2]) (Decode f reserved r2)
                      else option_map (cons B) (Decode f reserved r2)
                    else
                      let n := lead_n B in
                      if (n =? 1) || (4 <? n) then None
                      else
                        match take_conts (Z.to_nat (n - 1)) r2 with
                        | None => None
                        | Some (bs, r3) =>
                            match utf8_value B bs with
                            | None => None
                            | Some V => option_map (app (units V)) (Decode f reserved r3)
                            end
                        end
                end
            | _ => None
            end
      end
  end.

Definition encodeURI_spec := Encode unesc_uri.
Definition encodeURIComponent_spec := Encode unesc_comp.
Definition decodeURI_spec (l : list Z) := Decode (length l) reserved_uri l.
Definition decodeURIComponent_spec (l : list Z) := Decode (length l) reserved_comp l.

(* a code unit string without lone surrogates *)
Fixpoint well_formed (l : list Z) : bool :=
  match l with
  | [] => true
  | c :: r =>
      if is_hi c then match r with c2 :: r2 => is_lo c2 && well_formed r2 | [] => false end
      else negb (is_lo c) && well_formed r
  end.

Definition unit_range (c : Z) : Prop := 0 <= c < 0x10000.

(* ---------- B.2.1 escape, B.2.2 unescape ---------- *)
(* A-Z a-z 0-9 @ * _ + - . / *)
Definition esc_unescaped (c : Z) : bool := is_alpha c || is_dec c || mem c [64; 42; 95; 43; 45; 46; 47].

Definition pct_u (c : Z) : list Z :=
  [37; 117; hexd (c / 4096); hexd ((c / 256) mod 16); hexd ((c / 16) mod 16); hexd (c mod 16)].
Definition escape_unit (c : Z) : list Z :=
  if esc_unescaped c then [c] else if c <? 256 then pct c else pct_u c.
Definition escape_spec (l : list Z) : list Z := flat_map escape_unit l.

Definition hex4 (a b c d : Z) : option Z :=
  match hexv a, hexv b, hexv c, hexv d with
  | Some x, Some y, Some z, Some w => Some (4096 * x + 256 * y + 16 * z + w)
  | _, _, _, _ => None
  end.

(* one step of B.2.2 at a '%': the unit produced and the rest of the text *)
Definition unescape_at (r : list Z) : option (Z * list Z) :=
  match (match r with
         | u :: a :: b :: c :: d :: r5 =>
             if u =? 117 then match hex4 a b c d with Some v => Some (v, r5) | None => None end else None
         | _ => None
         end) with
  | Some x => Some x
  | None =>
      match r with
      | a :: b :: r2 => match hexbyte a b with Some v => Some (v, r2) | None => None end
      | _ => None
      end
  end.

Fixpoint unescape_fuel (fuel : nat) (l : list Z) : list Z :=
  match l with
  | [] => []
  | c :: r =>
      match fuel with
      | O => l
      | S f =>
          if c =? 37 then
            match unescape_at r with
            | Some (v, r') => v :: unescape_fuel f r'
            | None => c :: unescape_fuel f r
            end
          else c :: unescape_fuel f r
      end
  end.
Definition unescape_spec (l : list Z) : list Z := unescape_fuel (length l) l.
