(* C13 — ES5 15.8.2 (Math) and 15.1.2.4-5 (isNaN / isFinite), executable.
   A JS number is the integer 0 <= b < 2^64 of its binary64 bit pattern
   (Common.Double; all NaNs are 0x7FF8000000000000 on the wire).

   * exactly specified functions (abs ceil floor round max min, and trunc of
     ES2015) are computed on the exact view (-1)^neg * m * 2^e in Z;
   * the "implementation-dependent approximation" functions are specified by
     their 15.8.2 special-value table over argument CLASSES (total function),
     and, outside the table, by sign / range facts and by relations with a
     stated tolerance (the property's "consistent with the mathematical
     function": sign, monotonicity, inverse relations).
   otto also ships the ES2015 additions (acosh .. trunc); they are checked
   against the ES2015 20.2.2 tables in the same way (ids >= 20). *)
From Coq Require Import ZArith Bool List Lia.
From Otto Require Import Common.Double.
Import ListNotations.
Open Scope Z_scope.

(* ---------- bit-pattern helpers ---------- *)
Definition absb (b : Z) : Z := b mod 2 ^ 63.
Definition sgnb (b : Z) : bool := 2 ^ 63 <=? b.
Definition is_nan (b : Z) : bool := pinf_bits <? absb b.
Definition is_inf (b : Z) : bool := absb b =? pinf_bits.
Definition is_zero (b : Z) : bool := absb b =? 0.
Definition one_bits : Z := 0x3FF0000000000000.
Definition mone_bits : Z := 0xBFF0000000000000.
Definition with_sign (neg : bool) (a : Z) : Z := if neg then a + 2 ^ 63 else a.
Definition canon (b : Z) : Z := if is_nan b then nan_bits else b.
(* total order of the non-NaN doubles, with -0 < +0 *)
Definition key (b : Z) : Z := if sgnb b then - absb b - 1 else b.

Definition valid_bits (b : Z) : Prop := 0 <= b < 2 ^ 64.

(* Math constants of 15.8.1 (the doubles nearest to the real values) *)
Definition PI_bits : Z := 0x400921FB54442D18.
Definition PIO2_bits : Z := 0x3FF921FB54442D18.
Definition PIO4_bits : Z := 0x3FE921FB54442D18.
Definition PI3O4_bits : Z := 0x4002D97C7F3321D2.
Definition E_bits : Z := 0x4005BF0A8B145769.
Definition LN10_bits : Z := 0x40026BB1BBB55516.
Definition LN2_bits : Z := 0x3FE62E42FEFA39EF.
Definition LOG2E_bits : Z := 0x3FF71547652B82FE.
Definition LOG10E_bits : Z := 0x3FDBCB7B1526E50E.
Definition SQRT1_2_bits : Z := 0x3FE6A09E667F3BCD.
Definition SQRT2_bits : Z := 0x3FF6A09E667F3BCD.

Definition math_const (id : Z) : Z :=
  if id =? 0 then E_bits else if id =? 1 then LN10_bits else if id =? 2 then LN2_bits
  else if id =? 3 then LOG2E_bits else if id =? 4 then LOG10E_bits else if id =? 5 then PI_bits
  else if id =? 6 then SQRT1_2_bits else SQRT2_bits.

(* ---------- argument classes ---------- *)
(* finite non-zero x:  |x|<1 ; |x|=1 ; |x|>1 and not an integer / odd / even integer *)
Inductive fink := KLt1 | KOne | KNonInt | KOdd | KEven.
Inductive acl := CNaN | CInf (neg : bool) | CZero (neg : bool) | CFin (neg : bool) (k : fink).

Definition int_kind (m e : Z) : fink :=
  if 0 <? e then KEven
  else if e =? 0 then (if Z.even m then KEven else KOdd)
  else let d := 2 ^ (- e) in
       if m mod d =? 0 then (if Z.even (m / d) then KEven else KOdd) else KNonInt.

Definition classify (b : Z) : acl :=
  match decode b with
  | DNaN => CNaN
  | DInf n => CInf n
  | DFin n m e =>
      if m =? 0 then CZero n
      else let a := absb b in
           if a <? one_bits then CFin n KLt1
           else if a =? one_bits then CFin n KOne
           else CFin n (int_kind m e)
  end.

(* ---------- exactly specified functions ---------- *)
Definition enc_int_signed (negzero : bool) (n : Z) : Z :=
  if n =? 0 then (if negzero then nzero_bits else 0) else encode_int_or_nan n.

(* f S d is the integer result for the rational S / d, d = 2^k > 1 *)
Definition exact_unary (f : Z -> Z -> Z) (b : Z) : Z :=
  match decode b with
  | DNaN => nan_bits
  | DInf _ => b
  | DFin neg m e =>
      if 0 <=? e then b
      else let S := if neg then - m else m in enc_int_signed neg (f S (2 ^ (- e)))
  end.

Definition q_floor (S d : Z) : Z := S / d.
Definition q_ceil (S d : Z) : Z := - ((- S) / d).
Definition q_trunc (S d : Z) : Z := Z.sgn S * (Z.abs S / d).
(* 15.8.2.15: floor(x + 1/2); ties go up; the sign of a zero result is the sign of x *)
Definition q_round (S d : Z) : Z := (2 * S + d) / (2 * d).

Definition abs_spec (b : Z) : Z := if is_nan b then nan_bits else absb b.
Definition floor_spec := exact_unary q_floor.
Definition ceil_spec := exact_unary q_ceil.
Definition trunc_spec := exact_unary q_trunc.
Definition round_spec := exact_unary q_round.

(* 15.8.2.11/12: no argument: -inf / +inf; any NaN: NaN; +0 is larger than -0 *)
Definition max_step (a b : Z) : Z := if key a <? key b then b else a.
Definition min_step (a b : Z) : Z := if key b <? key a then b else a.
Definition max_spec (l : list Z) : Z :=
  if existsb is_nan l then nan_bits else fold_left max_step l ninf_bits.
Definition min_spec (l : list Z) : Z :=
  if existsb is_nan l then nan_bits else fold_left min_step l pinf_bits.

(* ---------- special-value tables (15.8.2.x) ---------- *)
Inductive rcl :=
| RNaN | RInf (neg : bool) | RZero (neg : bool) | ROne (neg : bool)
| RApprox (neg : bool) (c : Z).   (* "an implementation-dependent approximation to" +-c *)

(* function ids: 0 abs 1 acos 2 asin 3 atan 4 atan2 5 ceil 6 cos 7 exp 8 floor 9 log
   10 max 11 min 12 pow 13 round 14 sin 15 sqrt 16 tan 17 random
   ES2015: 20 acosh 21 asinh 22 atanh 23 cbrt 24 cosh 25 expm1 26 log10 27 log1p 28 log2
   29 sinh 30 tanh 31 trunc *)
Definition lt_m1 (c : acl) : bool :=   (* x < -1 *)
  match c with CInf true => true | CFin true (KNonInt | KOdd | KEven) => true | _ => false end.
Definition gt_1 (c : acl) : bool :=    (* x > 1 *)
  match c with CInf false => true | CFin false (KNonInt | KOdd | KEven) => true | _ => false end.
Definition is_neg_nonzero (c : acl) : bool :=
  match c with CInf true => true | CFin true _ => true | _ => false end.

(* None = no special rule: the general regime *)
Definition unary_tbl (fn : Z) (c : acl) : option rcl :=
  match c with CNaN => Some RNaN | _ =>
  if fn =? 1 then (* acos *)
    if lt_m1 c || gt_1 c then Some RNaN
    else match c with CFin false KOne => Some (RZero false) | _ => None end
  else if fn =? 2 then (* asin *)
    if lt_m1 c || gt_1 c then Some RNaN
    else match c with CZero s => Some (RZero s) | _ => None end
  else if fn =? 3 then (* atan *)
    match c with CZero s => Some (RZero s) | CInf s => Some (RApprox s PIO2_bits) | _ => None end
  else if fn =? 6 then (* cos *)
    match c with CZero _ => Some (ROne false) | CInf _ => Some RNaN | _ => None end
  else if fn =? 7 then (* exp *)
    match c with CZero _ => Some (ROne false) | CInf false => Some (RInf false)
            | CInf true => Some (RZero false) | _ => None end
  else if (fn =? 9) || (fn =? 26) || (fn =? 28) then (* log, log10, log2 *)
    if is_neg_nonzero c then Some RNaN
    else match c with CZero _ => Some (RInf true) | CFin false KOne => Some (RZero false)
                 | CInf false => Some (RInf false) | _ => None end
  else if (fn =? 14) || (fn =? 16) then (* sin, tan *)
    match c with CZero s => Some (RZero s) | CInf _ => Some RNaN | _ => None end
  else if fn =? 15 then (* sqrt *)
    if is_neg_nonzero c then Some RNaN
    else match c with CZero s => Some (RZero s) | CInf false => Some (RInf false) | _ => None end
  else if fn =? 20 then (* acosh *)
    match c with CFin false KOne => Some (RZero false) | CInf false => Some (RInf false)
            | _ => if gt_1 c then None else Some RNaN end
  else if (fn =? 21) || (fn =? 23) || (fn =? 29) then (* asinh cbrt sinh *)
    match c with CZero s => Some (RZero s) | CInf s => Some (RInf s) | _ => None end
  else if fn =? 22 then (* atanh *)
    if lt_m1 c || gt_1 c then Some RNaN
    else match c with CFin s KOne => Some (RInf s) | CZero s => Some (RZero s) | _ => None end
  else if fn =? 24 then (* cosh *)
    match c with CZero _ => Some (ROne false) | CInf _ => Some (RInf false) | _ => None end
  else if fn =? 25 then (* expm1 *)
    match c with CZero s => Some (RZero s) | CInf false => Some (RInf false)
            | CInf true => Some (ROne true) | _ => None end
  else if fn =? 27 then (* log1p *)
    if lt_m1 c then Some RNaN
    else match c with CFin true KOne => Some (RInf true) | CZero s => Some (RZero s)
                 | CInf false => Some (RInf false) | _ => None end
  else if fn =? 30 then (* tanh *)
    match c with CZero s => Some (RZero s) | CInf s => Some (ROne s) | _ => None end
  else None
  end.

(* 15.8.2.5 atan2(y, x), in the order of the clause *)
Definition pos_nonzero (c : acl) : bool :=
  match c with CInf false => true | CFin false _ => true | _ => false end.
Definition fin_nonzero (c : acl) : option bool :=
  match c with CFin s _ => Some s | _ => None end.

Definition atan2_tbl (cy cx : acl) : option rcl :=
  match cy, cx with
  | CNaN, _ | _, CNaN => Some RNaN
  | CZero sy, CZero sx => Some (if sx then RApprox sy PI_bits else RZero sy)
  | CZero sy, _ => Some (if pos_nonzero cx then RZero sy else RApprox sy PI_bits)
  | CInf sy, CInf sx => Some (RApprox sy (if sx then PI3O4_bits else PIO4_bits))
  | CInf sy, _ => Some (RApprox sy PIO2_bits)
  | CFin sy _, CZero _ => Some (RApprox sy PIO2_bits)
  | CFin sy _, CInf sx => Some (if sx then RApprox sy PI_bits else RZero sy)
  | CFin _ _, CFin _ _ => None
  end.

(* 15.8.2.13 pow(x, y), in the order of the clause *)
Definition abs_gt1 (c : acl) : bool :=
  match c with CInf _ => true | CFin _ (KNonInt | KOdd | KEven) => true | _ => false end.
Definition abs_eq1 (c : acl) : bool := match c with CFin _ KOne => true | _ => false end.
Definition abs_lt1 (c : acl) : bool := match c with CZero _ => true | CFin _ KLt1 => true | _ => false end.
Definition is_odd_int (c : acl) : bool := match c with CFin _ (KOne | KOdd) => true | _ => false end.
Definition is_integer (c : acl) : bool := match c with CFin _ (KOne | KOdd | KEven) => true | _ => false end.
Definition y_pos (c : acl) : bool := match c with CInf false | CFin false _ => true | _ => false end.
Definition y_neg (c : acl) : bool := match c with CInf true | CFin true _ => true | _ => false end.

Definition pow_tbl (cx cy : acl) : option rcl :=
  match cy with
  | CNaN => Some RNaN
  | CZero _ => Some (ROne false)
  | _ =>
  match cx with
  | CNaN => Some RNaN
  | _ =>
  match cy with
  | CInf sy =>
      if abs_gt1 cx then Some (if sy then RZero false else RInf false)
      else if abs_eq1 cx then Some RNaN
      else Some (if sy then RInf false else RZero false)
  | _ =>
  match cx with
  | CInf false => Some (if y_pos cy then RInf false else RZero false)
  | CInf true => if y_pos cy then Some (RInf (is_odd_int cy)) else Some (RZero (is_odd_int cy))
  | CZero false => Some (if y_pos cy then RZero false else RInf false)
  | CZero true => if y_pos cy then Some (RZero (is_odd_int cy)) else Some (RInf (is_odd_int cy))
  | CFin true _ => if is_integer cy then None else Some RNaN
  | _ => None
  end end end end.

(* ---------- exact dyadic arithmetic for the general regime ---------- *)
(* a finite double as (signed mantissa, exponent): value = fst * 2^snd *)
Definition dy (b : Z) : option (Z * Z) :=
  match decode b with DFin neg m e => Some (if neg then - m else m, e) | _ => None end.

(* | a - t | <= | t | * 2^-k *)
Definition dy_approx (k : Z) (a t : Z * Z) : bool :=
  let '(ma, ea) := a in let '(mt, et) := t in
  let em := Z.min ea et in
  let A := ma * 2 ^ (ea - em) in let T := mt * 2 ^ (et - em) in
  Z.abs (A - T) * 2 ^ k <=? Z.abs T.

Definition dy_mul (a b : Z * Z) : Z * Z := (fst a * fst b, snd a + snd b).
Definition dy_one : Z * Z := (1, 0).

Definition approx_bits (k : Z) (obs : Z) (t : Z * Z) : bool :=
  match dy obs with Some a => dy_approx k a t | None => false end.
Definition approx_const (k : Z) (obs c : Z) : bool :=
  match dy c with Some t => approx_bits k obs t | None => false end.

Definition rcl_pred (r : rcl) (obs : Z) : bool :=
  match r with
  | RNaN => obs =? nan_bits
  | RInf s => obs =? with_sign s pinf_bits
  | RZero s => obs =? with_sign s 0
  | ROne s => obs =? with_sign s one_bits
  | RApprox s c => approx_const 48 obs (with_sign s c)
  end.

Definition finite (b : Z) : bool := absb b <? pinf_bits.
Definition mag_le (obs c : Z) : bool := finite obs && (absb obs <=? c).
Definition same_sign (obs x : Z) : bool := Bool.eqb (sgnb obs) (sgnb x).
Definition nonzero (b : Z) : bool := negb (is_zero b).

Fixpoint pow_pos_dy (n : nat) (x : Z * Z) : Z * Z :=
  match n with O => dy_one | S n' => dy_mul x (pow_pos_dy n' x) end.

(* obs * den ~ num, both exact dyadics *)
Definition approx_ratio (k : Z) (obs : Z) (num den : Z * Z) : bool :=
  match dy obs with Some a => dy_approx k (dy_mul a den) num | None => false end.

(* binary exponent of the magnitude of a non-zero dyadic: floor(log2 |m|) + e *)
Definition dy_log2 (a : Z * Z) : Z := Z.log2 (Z.abs (fst a)) + snd a.

(* facts every sane approximation satisfies in the general regime (finite,
   non-special arguments); [x], [y] are the argument bit patterns *)
Definition gen_unary (fn x obs : Z) : bool :=
  let ax := absb x in
  if fn =? 1 then (* acos on [-1,1): 0 < r <= pi *)
    negb (sgnb obs) && mag_le obs (PI_bits + 1) && nonzero obs
    && (if x =? mone_bits then approx_const 48 obs PI_bits else true)
    && (if sgnb x then PIO2_bits - 1 <=? obs else obs <=? PIO2_bits + 1)
  else if fn =? 2 then (* asin *)
    same_sign obs x && mag_le obs (PIO2_bits + 1) && nonzero obs
    && (if ax =? one_bits then approx_const 48 obs (with_sign (sgnb x) PIO2_bits) else true)
  else if fn =? 3 then same_sign obs x && mag_le obs (PIO2_bits + 1) && nonzero obs
                       && (absb obs <=? ax)
  else if fn =? 6 then mag_le obs one_bits && (if ax <? one_bits then negb (sgnb obs) && nonzero obs else true)
  else if fn =? 14 then mag_le obs one_bits
                        && (if ax <? 0x4008000000000000 then same_sign obs x && nonzero obs && (absb obs <=? ax) else true)
  else if fn =? 16 then negb (is_nan obs)
                        && (if ax <? one_bits then same_sign obs x && nonzero obs && (ax <=? absb obs) else true)
  else if fn =? 7 then (* exp: positive; >= 1 for x > 0, <= 1 for x < 0; overflows from
    ln(2^1024) = 709.78..., vanishes below ln(2^-1075) = -745.13... *)
    negb (is_nan obs) && negb (sgnb obs)
    && (if sgnb x then obs <=? one_bits else one_bits <=? obs)
    && (if sgnb x
        then (if 0x4087500000000000 <=? ax then obs <=? 1 else true)       (* x <= -746 *)
             && (if ax <=? 0x4087480000000000 then nonzero obs else true)  (* x >= -745 *)
        else (if 0x4086300000000000 <=? ax then is_inf obs else true)      (* x >= 710 *)
             && (if ax <=? 0x4086280000000000 then finite obs else true))  (* x <= 709 *)
  else if (fn =? 9) || (fn =? 26) || (fn =? 28) then (* log of a positive finite x <> 1 *)
    finite obs && nonzero obs && Bool.eqb (sgnb obs) (ax <? one_bits)
  else if fn =? 15 then (* sqrt: r >= 0 and r*r = x to 2^-50 *)
    negb (sgnb obs) &&
    match dy obs, dy x with Some a, Some t => dy_approx 50 (dy_mul a a) t | _, _ => false end
  else if fn =? 20 then finite obs && negb (sgnb obs) && nonzero obs
  else if fn =? 21 then same_sign obs x && finite obs && nonzero obs
  else if fn =? 22 then same_sign obs x && finite obs && nonzero obs
  else if fn =? 23 then (* cbrt: r^3 = x to 2^-48 *)
    same_sign obs x &&
    match dy obs, dy x with Some a, Some t => dy_approx 48 (dy_mul a (dy_mul a a)) t | _, _ => false end
  else if fn =? 24 then negb (is_nan obs) && negb (sgnb obs) && (one_bits - 4 <=? obs)
  else if fn =? 25 then same_sign obs x && negb (is_nan obs) && nonzero obs
                        && (if sgnb x then absb obs <=? one_bits else true)
  else if fn =? 27 then same_sign obs x && finite obs && nonzero obs
  else if fn =? 29 then same_sign obs x && negb (is_nan obs) && nonzero obs
  else if fn =? 30 then same_sign obs x && mag_le obs one_bits && nonzero obs
  else true.

Definition gen_atan2 (y x obs : Z) : bool :=
  same_sign obs y && mag_le obs (PI_bits + 1)
  && (if sgnb x then PIO2_bits - 1 <=? absb obs else absb obs <=? PIO2_bits + 1).

(* ----- exact oracle for integer and half-integer powers ----- *)
(* m * 2^e with the factors of two moved into the exponent *)
Fixpoint strip2 (fuel : nat) (m e : Z) : Z * Z :=
  match fuel with
  | O => (m, e)
  | S f => if m =? 0 then (m, e) else if Z.even m then strip2 f (m / 2) (e + 1) else (m, e)
  end.

(* (multiplications and divisions by powers of two are shifts: Z.mul on two long
   numbers is quadratic inside Coq) *)
(* magnitude bits of N * 2^E (N > 0) rounded to nearest-even, subnormals and overflow included *)
Definition rne_mag (N E : Z) : Z :=
  let ve := Z.log2 N + E in
  if 1024 <=? ve then pinf_bits else
  let t := Z.max (ve - 52) (-1074) in
  let q' :=
    if t <=? E then Z.shiftl N (E - t)
    else let sh := t - E in
         let q := Z.shiftr N sh in let r := N - Z.shiftl q sh in let half := Z.shiftl 1 (sh - 1) in
         if r <? half then q else if half <? r then q + 1 else if Z.even q then q else q + 1 in
  Z.min pinf_bits ((t + 1074) * 2 ^ 52 + q').

(* |obs| against the positive rational A / B: relative 2^-40, plus half a unit of
   the subnormal grid (2^-1075) when obs is below 2^-958; an infinite obs is accepted
   from the rounding threshold 2^1024 - 2^970 (less 2^-40) upwards *)
Definition near_ratio (obs A B : Z) : bool :=
  if is_inf obs then Z.shiftl B 1064 - Z.shiftl B 1010 <=? Z.shiftl A 40 + A
  else match dy (absb obs) with
       | Some (m, e) =>
           if e <? -1011 then
             Z.abs (Z.shiftl m (e + 1115) * B - Z.shiftl A 1115) <=? Z.shiftl A 1075 + Z.shiftl B 40
           else
             let '(lhs, rhs) := if 0 <=? e then (Z.shiftl (m * B) e, A) else (m * B, Z.shiftl A (- e)) in
             Z.shiftl (Z.abs (lhs - rhs)) 40 <=? rhs
       | None => false
       end.

(* |obs|^2 against A / B, same latitude (2^-39 on the square, 2^-1075 on obs) *)
Definition near_sqrt_ratio (obs A B : Z) : bool :=
  if is_inf obs then Z.shiftl (Z.shiftl B 39 - B) 2048 <=? Z.shiftl A 39
  else match dy (absb obs) with
       | Some (m, e) =>
           if e <? -1011 then
             let O := Z.shiftl m (e + 1075) in
             let lo := Z.max (O - 1) 0 in
             (Z.shiftl (Z.shiftl A 39 - A) 2150 <=? Z.shiftl ((O + 1) * (O + 1) * B) 39)
             && (Z.shiftl (lo * lo * B) 39 <=? Z.shiftl (Z.shiftl A 39 + A) 2150)
           else
             let S := m * m in let se := 2 * e in
             let '(lhs, rhs) := if 0 <=? se then (Z.shiftl (S * B) se, A) else (S * B, Z.shiftl A (- se)) in
             Z.shiftl (Z.abs (lhs - rhs)) 39 <=? rhs
       | None => false
       end.

(* 2y when it is an odd integer *)
Definition half_int_of_bits (y : Z) : option Z :=
  match decode y with
  | DFin neg m e =>
      let e1 := e + 1 in
      if is_integral m e1 then
        let n := trunc_mag m e1 in
        if Z.odd n then Some (if neg then - n else n) else None
      else None
  | _ => None
  end.

Definition pow_budget : Z := 4000.

(* x finite non-zero, y finite non-zero.  |x| = mo * 2^eo with mo odd.
   - integer y = n: |x|^|n| = P * 2^E exactly (P = mo^|n|).  If P < 2^53 (and n >= 0,
     or P = 1) every product of the square-and-multiply evaluation is exact, so the
     result is the correctly rounded value: compared as a bit pattern, also in the
     subnormal range and at the overflow boundary.  Otherwise [near_ratio].
   - y = n/2, n odd, x > 0: the square of the result against the same rational.
   Far outside the binary64 range only "infinite" / "zero" is asked. *)
Definition pow_numeric (x y obs : Z) : bool :=
  match dy (absb x) with
  | None => true
  | Some (mx, ex) =>
      if mx =? 0 then true else
      let '(mo, eo) := strip2 64 mx ex in
      let bits := Z.log2 mo + 1 in
      match int_of_bits y with
      | Some n =>
          let a := Z.abs n in
          if (1 <? mo) && (pow_budget <? bits * a) then true else
          let P := if mo =? 1 then 1 else mo ^ a in   (* Z.pow is linear in the exponent *) let E := eo * a in let L := Z.log2 P + E in
          if 0 <=? n then
            if 1025 <=? L then is_inf obs
            else if L <? -1080 then absb obs =? 0
            else if P <? 2 ^ 53 then absb obs =? rne_mag P E
            else if 0 <=? E then near_ratio obs (Z.shiftl P E) 1 else near_ratio obs P (Z.shiftl 1 (- E))
          else
            if L <=? -1027 then is_inf obs
            else if 1081 <? L then absb obs =? 0
            else if P =? 1 then absb obs =? rne_mag 1 (- E)
            else if 0 <=? E then near_ratio obs 1 (Z.shiftl P E) else near_ratio obs (Z.shiftl 1 (- E)) P
      | None =>
          match half_int_of_bits y with
          | None => true
          | Some n2 =>
              if sgnb x then true else
              let a := Z.abs n2 in
              if (1 <? mo) && (pow_budget <? bits * a) then true else
              let P := if mo =? 1 then 1 else mo ^ a in   (* Z.pow is linear in the exponent *) let E := eo * a in let L := Z.log2 P + E in
              if 0 <=? n2 then
                if 2052 <=? L then is_inf obs
                else if L <? -2164 then absb obs =? 0
                else if 0 <=? E then near_sqrt_ratio obs (Z.shiftl P E) 1 else near_sqrt_ratio obs P (Z.shiftl 1 (- E))
              else
                if L <=? -2054 then is_inf obs
                else if 2164 <? L then absb obs =? 0
                else if 0 <=? E then near_sqrt_ratio obs 1 (Z.shiftl P E) else near_sqrt_ratio obs (Z.shiftl 1 (- E)) P
          end
      end
  end.

(* pow in the general regime: sign; side of 1; and the exact oracle above *)
Definition gen_pow (x y obs : Z) : bool :=
  let cy := classify y in
  let neg_res := sgnb x && is_odd_int cy in
  negb (is_nan obs) && Bool.eqb (sgnb obs) neg_res &&
  (if abs_lt1 (classify x) || abs_gt1 (classify x) then
     (* |x| > 1, y > 0 or |x| < 1, y < 0 : |r| >= 1 ; otherwise |r| <= 1 *)
     if Bool.eqb (abs_gt1 (classify x)) (negb (sgnb y)) then one_bits - 2 <=? absb obs else absb obs <=? one_bits + 2
   else true) &&
  pow_numeric x y obs.

(* ---------- the specification of one Math call ---------- *)
Definition arg (l : list Z) (i : nat) : Z := nth i l nan_bits.   (* missing argument: ToNumber(undefined) *)

Definition spec_exact (fn : Z) (args : list Z) : option Z :=
  if fn =? 0 then Some (abs_spec (arg args 0))
  else if fn =? 5 then Some (ceil_spec (arg args 0))
  else if fn =? 8 then Some (floor_spec (arg args 0))
  else if fn =? 13 then Some (round_spec (arg args 0))
  else if fn =? 31 then Some (trunc_spec (arg args 0))
  else if fn =? 10 then Some (max_spec args)
  else if fn =? 11 then Some (min_spec args)
  else None.

Definition tbl_pred (t : option rcl) (gen : Z -> bool) (obs : Z) : bool :=
  match t with Some r => rcl_pred r obs | None => gen obs end.

Definition math_spec (fn : Z) (args : list Z) (obs : Z) : bool :=
  match spec_exact fn args with
  | Some b => obs =? canon b
  | None =>
      if fn =? 4 then
        let y := arg args 0 in let x := arg args 1 in
        tbl_pred (atan2_tbl (classify y) (classify x)) (gen_atan2 y x) obs
      else if fn =? 12 then
        let x := arg args 0 in let y := arg args 1 in
        tbl_pred (pow_tbl (classify x) (classify y)) (gen_pow x y) obs
      else
        let x := arg args 0 in
        tbl_pred (unary_tbl fn (classify x)) (gen_unary fn x) obs
  end.

(* ---------- relations (inverse pairs, identities, anchors) ----------
   The harness evaluates a fixed JS expression over Math.* on the argument(s);
   [rel_target id args] is the exact value it must approximate to 2^-k. *)
Definition rel_target (id : Z) (args : list Z) : option (Z * Z * Z) :=
  let x := arg args 0 in
  let self k := match dy x with Some d => Some (d, k) | None => None end in
  let one k := Some (dy_one, k) in
  let cst c k := match dy c with Some d => Some (d, k) | None => None end in
  let absx k := match dy (absb x) with Some d => Some (d, k) | None => None end in
  if id =? 1 then self 40        (* exp(log x) *)
  else if id =? 2 then self 40   (* log(exp x) *)
  else if id =? 3 then one 46    (* sin^2 + cos^2 *)
  else if id =? 4 then one 40    (* tan*cos/sin *)
  else if id =? 5 then self 40   (* atan(tan x) *)
  else if id =? 6 then self 40   (* asin(sin x) *)
  else if id =? 7 then self 40   (* acos(cos x) *)
  else if id =? 9 then one 44    (* pow(x,.5)/sqrt(x) *)
  else if id =? 10 then one 36   (* pow(x,y)/exp(y*log x) *)
  else if id =? 11 then one 40   (* atan2(y,x)/atan(y/x), x > 0 *)
  else if id =? 12 then cst PI_bits 48   (* 4*atan(1) *)
  else if id =? 13 then cst E_bits 48    (* exp(1) *)
  else if id =? 14 then cst LN10_bits 48 (* log(10) *)
  else if id =? 15 then cst 0x3FE0000000000000 44 (* sin(PI/6) *)
  else if id =? 16 then cst 0x3FE0000000000000 44 (* cos(PI/3) *)
  else if id =? 17 then one 44           (* tan(PI/4) *)
  else if id =? 18 then cst PI_bits 48   (* 2*asin(1) *)
  else if id =? 19 then cst PI_bits 48   (* acos(-1) *)
  else if id =? 20 then one 40   (* sinh(x)/((exp(x)-exp(-x))/2) *)
  else if id =? 21 then one 40   (* cosh(x)/((exp(x)+exp(-x))/2) *)
  else if id =? 22 then one 40   (* tanh*cosh/sinh *)
  else if id =? 23 then self 40  (* asinh(sinh x) *)
  else if id =? 24 then absx 36  (* acosh(cosh x) *)
  else if id =? 25 then self 30  (* atanh(tanh x) *)
  else if id =? 26 then one 40   (* expm1(x)/(exp(x)-1) *)
  else if id =? 27 then one 40   (* log1p(x)/log(1+x) *)
  else if id =? 28 then one 40   (* log2(x)*LN2/log(x) *)
  else if id =? 29 then one 40   (* log10(x)*LN10/log(x) *)
  else if id =? 30 then cst LN2_bits 48  (* log(2) *)
  else if id =? 31 then cst SQRT2_bits 48 (* sqrt(2) *)
  else if id =? 32 then cst 0x4000000000000000 48 (* 4*acos(0)/PI = 2 *)
  else None.

Definition rel_spec (id : Z) (args : list Z) (obs : Z) : option bool :=
  match rel_target id args with
  | Some (t, k) => Some (approx_bits k obs t)
  | None => None
  end.

(* monotone functions: f(x1) <= f(x2) (up to [slack] units in the last place)
   whenever x1 <= x2, both in the function's domain; dir = true: non-increasing *)
Definition mono_dir (fn : Z) : option bool :=
  if (fn =? 1) then Some true
  else if (fn =? 2) || (fn =? 3) || (fn =? 5) || (fn =? 7) || (fn =? 8) || (fn =? 9) || (fn =? 13)
          || (fn =? 15) || (fn =? 21) || (fn =? 23) || (fn =? 25) || (fn =? 26) || (fn =? 27)
          || (fn =? 28) || (fn =? 29) || (fn =? 30) || (fn =? 31) then Some false
  else None.

Definition mono_spec (fn x1 x2 o1 o2 : Z) : option bool :=
  match mono_dir fn with
  | None => None
  | Some dir =>
      if is_nan x1 || is_nan x2 || is_nan o1 || is_nan o2 then None
      else if key x1 <=? key x2
           then Some (if dir then key o2 <=? key o1 + 4 else key o1 <=? key o2 + 4)
           else Some (if dir then key o1 <=? key o2 + 4 else key o2 <=? key o1 + 4)
  end.

(* ----- local slope: the function is not flat (and not steeper than twice its derivative)
   between two close arguments x1 < x2.  f'(x1) = N / D with N, D exact dyadics built from the
   arguments and the first result; the check is
       (o2 - o1) * D  within  [ (x2 - x1) * N / 2 - slack ,  2 * (x2 - x1) * N + slack ]
   with slack = 8 units in the last place of the larger result (times D).  Used next to the
   arguments where the result is an exact power / zero, where a "snapped" result would be flat. *)
Definition dy_add (a b : Z * Z) : Z * Z :=
  let em := Z.min (snd a) (snd b) in
  (Z.shiftl (fst a) (snd a - em) + Z.shiftl (fst b) (snd b - em), em).
Definition dy_neg (a : Z * Z) : Z * Z := (- fst a, snd a).
Definition dy_sub (a b : Z * Z) : Z * Z := dy_add a (dy_neg b).
Definition dy_leb (a b : Z * Z) : bool :=
  let em := Z.min (snd a) (snd b) in
  Z.shiftl (fst a) (snd a - em) <=? Z.shiftl (fst b) (snd b - em).
Definition dy_abs (a : Z * Z) : Z * Z := (Z.abs (fst a), snd a).
Definition dy_int (n : Z) : Z * Z := (n, 0).

Definition slope_nd (fn : Z) (x1 o1 : Z * Z) : option ((Z * Z) * (Z * Z)) :=
  let cst c := match dy c with Some d => d | None => dy_one end in
  if fn =? 9 then Some (dy_one, x1)                                   (* log: 1/x *)
  else if fn =? 26 then Some (cst LOG10E_bits, x1)                     (* log10 *)
  else if fn =? 28 then Some (cst LOG2E_bits, x1)                      (* log2 *)
  else if fn =? 27 then Some (dy_one, dy_add dy_one x1)                (* log1p: 1/(1+x) *)
  else if fn =? 7 then Some (o1, dy_one)                               (* exp: f *)
  else if fn =? 25 then Some (dy_add o1 dy_one, dy_one)                (* expm1: f + 1 *)
  else if fn =? 15 then Some (dy_one, dy_mul (dy_int 2) o1)            (* sqrt: 1/(2f) *)
  else if fn =? 23 then Some (dy_one, dy_mul (dy_int 3) (dy_mul o1 o1)) (* cbrt: 1/(3f^2) *)
  else if fn =? 3 then Some (dy_one, dy_add dy_one (dy_mul x1 x1))     (* atan: 1/(1+x^2) *)
  else None.

Definition slope_spec (fn x1 x2 o1 o2 : Z) : option bool :=
  match dy x1, dy x2, dy o1, dy o2 with
  | Some a1, Some a2, Some r1, Some r2 =>
      let dx := dy_sub a2 a1 in
      if fst dx <=? 0 then None
      else if negb (dy_leb (dy_mul dx (1, 20)) (dy_abs a2) || dy_leb dx (1, -30)) then None
      else
        match slope_nd fn a1 r1 with
        | None => None
        | Some (N, D) =>
            if (fst D <=? 0) || (fst N <=? 0) then None else
            let L := dy_mul (dy_sub r2 r1) D in
            let R := dy_mul dx N in
            let slack := dy_mul (8, Z.max (snd r1) (snd r2)) D in
            Some (dy_leb R (dy_add (dy_mul (dy_int 2) L) (dy_mul (dy_int 2) slack))
                  && dy_leb L (dy_add (dy_mul (dy_int 2) R) slack))
        end
  | _, _, _, _ => None
  end.

(* 15.8.2.14: random() is >= 0 and < 1 (and a run of them is not constant) *)
Fixpoint all_distinct (l : list Z) : bool :=
  match l with [] => true | x :: l' => negb (existsb (Z.eqb x) l') && all_distinct l' end.
Definition random_spec (obs : list Z) : bool :=
  forallb (fun b => (0 <=? b) && (b <? one_bits)) obs && all_distinct obs.

(* ---------- 9.3 ToNumber on the argument kinds the harness generates ---------- *)
Inductive jv :=
| JNum (b : Z) | JUndef | JNull | JBool (b : bool) | JStr (s : list Z)
| JObj (prim : jv).     (* an object whose valueOf returns the primitive [prim] *)

Inductive tn := TN (b : Z) | TFinite | TDecline.

Definition is_ws (c : Z) : bool :=
  (c =? 9) || (c =? 10) || (c =? 11) || (c =? 12) || (c =? 13) || (c =? 32) || (c =? 160)
  || (c =? 0xFEFF) || (c =? 0x1680) || ((0x2000 <=? c) && (c <=? 0x200A)) || (c =? 0x2028)
  || (c =? 0x2029) || (c =? 0x202F) || (c =? 0x205F) || (c =? 0x3000).

Fixpoint drop_ws (l : list Z) : list Z :=
  match l with c :: r => if is_ws c then drop_ws r else l | [] => [] end.
Definition trim (l : list Z) : list Z := rev (drop_ws (rev (drop_ws l))).

Definition is_digit (c : Z) : bool := (48 <=? c) && (c <=? 57).
(* leading decimal digits: (value accumulated onto acc, how many, rest) *)
Fixpoint digits (l : list Z) (acc cnt : Z) : Z * Z * list Z :=
  match l with
  | c :: r => if is_digit c then digits r (acc * 10 + (c - 48)) (cnt + 1) else (acc, cnt, l)
  | [] => (acc, cnt, [])
  end.

Definition hexval (c : Z) : option Z :=
  if (48 <=? c) && (c <=? 57) then Some (c - 48)
  else if (65 <=? c) && (c <=? 70) then Some (c - 55)
  else if (97 <=? c) && (c <=? 102) then Some (c - 87)
  else None.
Fixpoint hexdigits (l : list Z) (acc : Z) : option Z :=
  match l with
  | [] => Some acc
  | c :: r => match hexval c with Some v => hexdigits r (acc * 16 + v) | None => None end
  end.

Definition overflow_threshold : Z := 2 ^ 1024 - 2 ^ 970.

Definition of_integer (neg : bool) (v : Z) : tn :=
  if v =? 0 then TN (with_sign neg 0)
  else if overflow_threshold <=? v then TN (with_sign neg pinf_bits)
  else TN (with_sign neg (encode_int_or_nan (round_to_double v))).

Definition infinity_text : list Z := [73; 110; 102; 105; 110; 105; 116; 121].
Fixpoint zl_eqb (a b : list Z) : bool :=
  match a, b with
  | [], [] => true
  | x :: a', y :: b' => (x =? y) && zl_eqb a' b'
  | _, _ => false
  end.

(* value n * 10^E of a decimal literal, n >= 0 *)
Definition of_decimal (neg : bool) (n E : Z) : tn :=
  if n =? 0 then TN (with_sign neg 0)
  else if 0 <=? E then (if 400 <? E then TN (with_sign neg pinf_bits) else of_integer neg (n * 10 ^ E))
  else if 2000 <? - E then TFinite
  else let d := 10 ^ (- E) in if n mod d =? 0 then of_integer neg (n / d) else TFinite.

(* ExponentPart_opt and end of text *)
Definition exp_part (l : list Z) : option Z :=
  match l with
  | [] => Some 0
  | c :: r =>
      if (c =? 101) || (c =? 69) then
        let '(eneg, r') := match r with
                           | s :: t => if s =? 43 then (false, t) else if s =? 45 then (true, t) else (false, r)
                           | [] => (false, r) end in
        let '(ev, ec, r3) := digits r' 0 0 in
        if ec =? 0 then None
        else match r3 with [] => Some (if eneg then - ev else ev) | _ => None end
      else None
  end.

(* StrUnsignedDecimalLiteral (9.3.1) *)
Definition unsigned_decimal (neg : bool) (l : list Z) : tn :=
  if zl_eqb l infinity_text then TN (with_sign neg pinf_bits) else
  let '(ip, ic, r1) := digits l 0 0 in
  let '(n, fc, r2) :=
    match r1 with
    | c :: r => if c =? 46 then digits r ip 0 else (ip, 0, r1)
    | [] => (ip, 0, r1)
    end in
  if ic + fc =? 0 then TN nan_bits
  else match exp_part r2 with
       | Some ex => of_decimal neg n (ex - fc)
       | None => TN nan_bits
       end.

Definition str_to_number (s : list Z) : tn :=
  match trim s with
  | [] => TN 0
  | c :: r =>
      if c =? 43 then unsigned_decimal false r
      else if c =? 45 then unsigned_decimal true r
      else if (c =? 48) && (match r with x :: h :: _ => ((x =? 120) || (x =? 88)) | _ => false end)
      then match r with
           | _ :: hs => match hexdigits hs 0 with Some v => of_integer false v | None => TN nan_bits end
           | [] => TN nan_bits
           end
      else unsigned_decimal false (c :: r)
  end.

Fixpoint to_number (v : jv) : tn :=
  match v with
  | JNum b => TN (canon b)
  | JUndef => TN nan_bits
  | JNull => TN 0
  | JBool b => TN (if b then one_bits else 0)
  | JStr s => str_to_number s
  | JObj p => to_number p
  end.

Fixpoint to_numbers (l : list jv) : option (list Z) :=
  match l with
  | [] => Some []
  | v :: r => match to_number v, to_numbers r with
              | TN b, Some bs => Some (b :: bs)
              | _, _ => None
              end
  end.

(* 15.1.2.4 / 15.1.2.5 on the first argument (missing: undefined) *)
Definition first_arg (l : list jv) : jv := match l with v :: _ => v | [] => JUndef end.
Definition isNaN_spec (l : list jv) : option bool :=
  match to_number (first_arg l) with TN b => Some (is_nan b) | TFinite => Some false | TDecline => None end.
Definition isFinite_spec (l : list jv) : option bool :=
  match to_number (first_arg l) with
  | TN b => Some (negb (is_nan b) && negb (is_inf b)) | TFinite => Some true | TDecline => None end.
