(* C13 — otto's Math wrappers (builtin_math.go) where they are more than a
   pass-through to Go's math package, over the documented special-case
   contract of that package (math.Pow, math.Atan2, math.Max, math.Min,
   math.Floor, binary64 addition).  Every cell of those contracts is what the
   correspondence run observes on the real interpreter.

   Deviations from ES5 that this model reproduces:
     class 1   Math.pow(1, NaN) = 1           (Go: Pow(1, y) = 1 for any y)
     class 2   Math.round(0.49999999999999994) = 1   (Floor(x + 0.5): the sum rounds up to 1)
     class 3   Math.round(n) = n + 1 for odd integers 2^52 < |n| < 2^53 (the sum is a tie)
     class 9   Math.atan2(y, x) = +pi for y < 0, x < 0 when y / x underflows to +0
     class 10  max / min / atan2 stop calling ToNumber on the remaining arguments
               once a NaN has been seen *)
From Coq Require Import ZArith Bool List Lia.
From Otto Require Import Common.Double C13.SpecMath.
Import ListNotations.
Open Scope Z_scope.

(* ---------- switches for the repairs in proposed_fixes/C13-*.diff ----------
   All false on the recorded tree; flipped by the coordinator together with the
   repair (the matching ..._refuted theorem and open finding are then removed). *)
Definition fixed_pow : bool := false.        (* C13-pow-one-nan.diff *)
Definition fixed_round : bool := false.      (* C13-round-exact.diff *)
Definition fixed_atan2 : bool := false.      (* C13-atan2-sign.diff *)
Definition fixed_tonumber : bool := false.   (* C13-tonumber-all-args.diff *)

(* ---------- max / min ---------- *)
(* math.Max / math.Min on the arguments otto passes to them: never a NaN (the
   loop returns before), so that Max(+0, -0) = Max(-0, +0) = +0 and
   Max(x, +Inf) = +Inf are the order [key]; the NaN clause is never reached *)
Definition go_max (a b : Z) : Z := if is_nan a || is_nan b then nan_bits else max_step a b.
Definition go_min (a b : Z) : Z := if is_nan a || is_nan b then nan_bits else min_step a b.

Fixpoint fold_loop (op : Z -> Z -> Z) (r : Z) (l : list Z) : Z :=
  match l with
  | [] => r
  | v :: l' => if is_nan v then nan_bits else fold_loop op (op r v) l'
  end.

(* builtinMathMax / builtinMathMin: switch on the argument count, then the loop *)
Definition maxmin_model (op : Z -> Z -> Z) (empty : Z) (l : list Z) : Z :=
  match l with
  | [] => empty
  | [a] => canon a
  | a :: rest => if is_nan a then nan_bits else fold_loop op a rest
  end.
Definition max_model := maxmin_model go_max ninf_bits.
Definition min_model := maxmin_model go_min pinf_bits.

(* how many of the supplied arguments are converted with ToNumber *)
Fixpoint conv_until_nan (l : list Z) (n : Z) : Z :=
  match l with
  | [] => n
  | v :: r => if is_nan v then n + 1 else conv_until_nan r (n + 1)
  end.
(* 15.8.2: "applies the ToNumber abstract operator to each of its arguments (in
   left-to-right order if there is more than one)" *)
Definition conv_spec (fn : Z) (l : list Z) : Z :=
  if (fn =? 10) || (fn =? 11) then Z.of_nat (length l)
  else if (fn =? 4) || (fn =? 12) then Z.min 2 (Z.of_nat (length l))
  else if fn =? 17 then 0
  else Z.min 1 (Z.of_nat (length l)).

Definition conv_model (fn : Z) (l : list Z) : Z :=
  if fixed_tonumber then conv_spec fn l else
  if (fn =? 10) || (fn =? 11) then
    match l with [] => 0 | [_] => 1 | _ => conv_until_nan l 0 end
  else if fn =? 4 then
    match l with [] => 0 | [_] => 1 | y :: _ => if is_nan y then 1 else 2 end
  else if fn =? 12 then Z.min 2 (Z.of_nat (length l))
  else if fn =? 17 then 0
  else Z.min 1 (Z.of_nat (length l)).
(* ---------- round ---------- *)
(* value := math.Floor(number + 0.5); if value == 0 { value = Copysign(0, number) }
   The binary64 sum is the exact sum N * 2^k rounded to nearest-even
   (Common.Double.round_to_double rounds an integer to 53 significant bits;
   scaling by 2^k does not change the rounding: no overflow, and k >= -1074). *)
(* the exact sum x + 1/2 as N * 2^k, for x = S * 2^e *)
Definition half_sum (S e : Z) : Z * Z :=
  if -1 <=? e then (S * 2 ^ (e + 1) + 1, -1) else (S + 2 ^ (-1 - e), e).
(* the integer math.Floor(number + 0.5) *)
Definition round_int_model (S e : Z) : Z :=
  let '(N, k) := half_sum S e in round_to_double N / 2 ^ (- k).
Definition round_model (b : Z) : Z :=
  if fixed_round then round_spec b else
  match decode b with
  | DNaN => nan_bits
  | DInf _ => b
  | DFin neg m e => enc_int_signed neg (round_int_model (if neg then - m else m) e)
  end.

(* ---------- pow ---------- *)
Definition same_as (c : acl) : option rcl :=
  match c with
  | CNaN => Some RNaN | CInf s => Some (RInf s) | CZero s => Some (RZero s) | CFin _ _ => None
  end.

(* math.Pow special cases, in the order of the switch in pow.go *)
Definition go_pow_tbl (cx cy : acl) : option rcl :=
  match cx, cy with
  | _, CZero _ => Some (ROne false)
  | CFin false KOne, _ => Some (ROne false)
  | _, CFin false KOne => same_as cx
  | CNaN, _ | _, CNaN => Some RNaN
  | CZero sx, _ =>
      if y_neg cy then Some (RInf (sx && is_odd_int cy)) else Some (RZero (sx && is_odd_int cy))
  | _, CInf sy =>
      match cx with
      | CFin true KOne => Some (ROne false)
      | _ => if Bool.eqb (abs_lt1 cx) (negb sy) then Some (RZero false) else Some (RInf false)
      end
  | CInf true, _ =>   (* Pow(1/x, -y) = Pow(-0, -y) *)
      if y_pos cy then Some (RInf (is_odd_int cy)) else Some (RZero (is_odd_int cy))
  | CInf false, _ => if y_neg cy then Some (RZero false) else Some (RInf false)
  | CFin true _, _ => if is_integer cy then None else Some RNaN
  | _, _ => None
  end.

(* builtinMathPow: if math.Abs(x) == 1 && math.IsInf(y, 0) { return NaN } *)
Definition otto_pow_tbl (cx cy : acl) : option rcl :=
  match cy with
  | CNaN => if fixed_pow then Some RNaN else go_pow_tbl cx cy
  | CInf _ => if abs_eq1 cx then Some RNaN else go_pow_tbl cx cy
  | _ => go_pow_tbl cx cy
  end.

(* ---------- atan2 ---------- *)
Definition go_atan2_tbl (cy cx : acl) : option rcl :=
  match cy, cx with
  | CNaN, _ | _, CNaN => Some RNaN
  | CZero sy, _ =>
      match cx with
      | CZero false | CInf false | CFin false _ => Some (RZero sy)
      | _ => Some (RApprox sy PI_bits)
      end
  | CInf sy, CZero _ | CFin sy _, CZero _ => Some (RApprox sy PIO2_bits)
  | CInf sy, CInf sx => Some (RApprox sy (if sx then PI3O4_bits else PIO4_bits))
  | CFin sy _, CInf sx => Some (if sx then RApprox sy PI_bits else RZero sy)
  | CInf sy, CFin _ _ => Some (RApprox sy PIO2_bits)
  | CFin _ _, CFin _ _ => None
  end.

(* builtinMathAtan2: NaN pre-checks on y, then on x *)
Definition otto_atan2_tbl (cy cx : acl) : option rcl :=
  match cy with
  | CNaN => Some RNaN
  | _ => match cx with CNaN => Some RNaN | _ => go_atan2_tbl cy cx end
  end.

(* atan2.go: q := Atan(y / x); if x < 0 { if q <= 0 { return q + Pi }; return q - Pi } *)
Definition gen_atan2_model (y x obs : Z) : bool :=
  if negb fixed_atan2 && sgnb x && sgnb y && quotient_underflows y x then approx_const 48 obs PI_bits
  else gen_atan2 y x obs.

(* ---------- one Math call ---------- *)
Definition model_exact (fn : Z) (args : list Z) : option Z :=
  if fn =? 13 then Some (round_model (arg args 0))
  else if fn =? 10 then Some (max_model args)
  else if fn =? 11 then Some (min_model args)
  else spec_exact fn args.

Definition math_model (fn : Z) (args : list Z) (obs : Z) : bool :=
  match model_exact fn args with
  | Some b => obs =? canon b
  | None =>
      if fn =? 4 then
        let y := arg args 0 in let x := arg args 1 in
        tbl_pred (otto_atan2_tbl (classify y) (classify x)) (gen_atan2_model y x) obs
      else if fn =? 12 then
        let x := arg args 0 in let y := arg args 1 in
        tbl_pred (otto_pow_tbl (classify x) (classify y))
                 (fun o => gen_pow x y o && (if y =? one_bits then o =? x else true)) obs
      else
        let x := arg args 0 in
        tbl_pred (unary_tbl fn (classify x)) (gen_unary fn x) obs
  end.

Definition pred_half_bits : Z := 0x3FDFFFFFFFFFFFFF.

(* which listed deviation a Math call falls into (meaningful when model <> spec) *)
Definition math_class (fn : Z) (args : list Z) : Z :=
  if fn =? 12 then 1
  else if fn =? 13 then (if arg args 0 =? pred_half_bits then 2 else 3)
  else if fn =? 4 then 9
  else 0.
