(* C13 — otto's Math wrappers (builtin_math.go) where they are more than a
   pass-through to Go's math package, over the documented special-case
   contract of that package (math.Pow, math.Atan2, math.Max, math.Min,
   math.Floor, math.Copysign, binary64 subtraction of a number and its floor).
   Every cell of those contracts is what the correspondence run observes on
   the real interpreter.

   Deviation from ES5 that this model still reproduces:
     class 10  max / min / atan2 stop calling ToNumber on the remaining arguments
               once a NaN has been seen
   Repaired in /repo and therefore no longer in the model (the model is the
   repaired code, equal to the spec on these points; classes 1 2 3 9 retired):
     d8f8960 pow(1, NaN); 01da0fa round through Floor(x + 0.5); efc7ec6 atan2
     sign when y / x underflows. *)
From Coq Require Import ZArith Bool List Lia.
From Otto Require Import Common.Double C13.SpecMath.
Import ListNotations.
Open Scope Z_scope.

(* ---------- switch for the repair in proposed_fixes/C13-tonumber-all-args.diff ----------
   false on the recorded tree; flipped together with the repair (the
   ..._refuted theorem and the open finding are then removed). *)
Definition fixed_tonumber : bool := false.

(* ---------- max / min ---------- *)
(* math.Max / math.Min on the arguments otto passes to them: never a NaN (the
   loop returns before), so that Max(+0, -0) = Max(-0, +0) = +0 and
   Max(x, +Inf) = +Inf are the order [key]; the NaN clause is never reached *)
Definition go_max (a b : Z) : Z := if is_nan a || is_nan b then nan_bits else max_step a b.
Definition go_min (a b : Z) : Z := if is_nan a || is_nan b then nan_bits else min_step a b.

Fixpoint fold_loop (op : Z -> Z -> Z) (r : Z) (l : list Z) : Z :=
  match l with
  | [] => r
  | v :: l' => if is_nan v then nan_bits else fold_loop op (op r v) l'
  end.

(* builtinMathMax / builtinMathMin: switch on the argument count, then the loop *)
Definition maxmin_model (op : Z -> Z -> Z) (empty : Z) (l : list Z) : Z :=
  match l with
  | [] => empty
  | [a] => canon a
  | a :: rest => if is_nan a then nan_bits else fold_loop op a rest
  end.
Definition max_model := maxmin_model go_max ninf_bits.
Definition min_model := maxmin_model go_min pinf_bits.

(* how many of the supplied arguments are converted with ToNumber *)
Fixpoint conv_until_nan (l : list Z) (n : Z) : Z :=
  match l with
  | [] => n
  | v :: r => if is_nan v then n + 1 else conv_until_nan r (n + 1)
  end.
(* 15.8.2: "applies the ToNumber abstract operator to each of its arguments (in
   left-to-right order if there is more than one)" *)
Definition conv_spec (fn : Z) (l : list Z) : Z :=
  if (fn =? 10) || (fn =? 11) then Z.of_nat (length l)
  else if (fn =? 4) || (fn =? 12) || (fn =? 102) then Z.min 2 (Z.of_nat (length l))
  else if fn =? 17 then 0
  else Z.min 1 (Z.of_nat (length l)).

Definition conv_model (fn : Z) (l : list Z) : Z :=
  if fixed_tonumber then conv_spec fn l else
  if (fn =? 10) || (fn =? 11) then
    match l with [] => 0 | [_] => 1 | _ => conv_until_nan l 0 end
  else if fn =? 4 then
    match l with [] => 0 | [_] => 1 | y :: _ => if is_nan y then 1 else 2 end
  else if (fn =? 12) || (fn =? 102) then Z.min 2 (Z.of_nat (length l))
  else if fn =? 17 then 0
  else Z.min 1 (Z.of_nat (length l)).
(* ---------- round ---------- *)
(* value := math.Floor(number)
   if number-value >= 0.5 { value++ }
   if value == 0 { value = math.Copysign(0, number) }
   For a finite x = S / d (d = 2^-e > 1) Floor is the exact floor f; the
   binary64 difference x - f is exact (it lies in [0, 1) and is a multiple of
   the unit in the last place of x), and f + 1 is exact (|f| < 2^52 whenever x
   has a fraction).  For e >= 0, NaN and the infinities Floor returns its
   argument and the test is false (0, NaN - NaN, Inf - Inf). *)
Definition q_round_model (S d : Z) : Z :=
  let f := S / d in if d <=? 2 * (S - f * d) then f + 1 else f.
Definition round_model : Z -> Z := exact_unary q_round_model.

(* ---------- pow ---------- *)
Definition same_as (c : acl) : option rcl :=
  match c with
  | CNaN => Some RNaN | CInf s => Some (RInf s) | CZero s => Some (RZero s) | CFin _ _ => None
  end.

(* math.Pow special cases, in the order of the switch in pow.go *)
Definition go_pow_tbl (cx cy : acl) : option rcl :=
  match cx, cy with
  | _, CZero _ => Some (ROne false)
  | CFin false KOne, _ => Some (ROne false)
  | _, CFin false KOne => same_as cx
  | CNaN, _ | _, CNaN => Some RNaN
  | CZero sx, _ =>
      if y_neg cy then Some (RInf (sx && is_odd_int cy)) else Some (RZero (sx && is_odd_int cy))
  | _, CInf sy =>
      match cx with
      | CFin true KOne => Some (ROne false)
      | _ => if Bool.eqb (abs_lt1 cx) (negb sy) then Some (RZero false) else Some (RInf false)
      end
  | CInf true, _ =>   (* Pow(1/x, -y) = Pow(-0, -y) *)
      if y_pos cy then Some (RInf (is_odd_int cy)) else Some (RZero (is_odd_int cy))
  | CInf false, _ => if y_neg cy then Some (RZero false) else Some (RInf false)
  | CFin true _, _ => if is_integer cy then None else Some RNaN
  | _, _ => None
  end.

(* builtinMathPow: if math.IsNaN(y) || (math.Abs(x) == 1 && math.IsInf(y, 0)) { return NaN } *)
Definition otto_pow_tbl (cx cy : acl) : option rcl :=
  match cy with
  | CNaN => Some RNaN
  | CInf _ => if abs_eq1 cx then Some RNaN else go_pow_tbl cx cy
  | _ => go_pow_tbl cx cy
  end.

(* ---------- atan2 ---------- *)
Definition go_atan2_tbl (cy cx : acl) : option rcl :=
  match cy, cx with
  | CNaN, _ | _, CNaN => Some RNaN
  | CZero sy, _ =>
      match cx with
      | CZero false | CInf false | CFin false _ => Some (RZero sy)
      | _ => Some (RApprox sy PI_bits)
      end
  | CInf sy, CZero _ | CFin sy _, CZero _ => Some (RApprox sy PIO2_bits)
  | CInf sy, CInf sx => Some (RApprox sy (if sx then PI3O4_bits else PIO4_bits))
  | CFin sy _, CInf sx => Some (if sx then RApprox sy PI_bits else RZero sy)
  | CInf sy, CFin _ _ => Some (RApprox sy PIO2_bits)
  | CFin _ _, CFin _ _ => None
  end.

(* math.Copysign(r, y) on a table result *)
Definition acl_sign (c : acl) : option bool :=
  match c with CNaN => None | CInf s | CZero s | CFin s _ => Some s end.
Definition copysign_rcl (r : rcl) (cy : acl) : rcl :=
  match acl_sign cy, r with
  | Some s, RInf _ => RInf s
  | Some s, RZero _ => RZero s
  | Some s, ROne _ => ROne s
  | Some s, RApprox _ c => RApprox s c
  | _, _ => r
  end.

(* builtinMathAtan2: NaN pre-checks on y, then on x, then
   math.Copysign(math.Atan2(y, x), y) *)
Definition otto_atan2_tbl (cy cx : acl) : option rcl :=
  match cy with
  | CNaN => Some RNaN
  | _ => match cx with
         | CNaN => Some RNaN
         | _ => option_map (fun r => copysign_rcl r cy) (go_atan2_tbl cy cx)
         end
  end.

(* general regime: math.Atan2's quadrant result with the sign of y forced by
   Copysign: exactly the sign / range facts of the specification *)
Definition gen_atan2_model (y x obs : Z) : bool := gen_atan2 y x obs.

(* ---------- one Math call ---------- *)
Definition model_exact (fn : Z) (args : list Z) : option Z :=
  if fn =? 13 then Some (round_model (arg args 0))
  else if fn =? 10 then Some (max_model args)
  else if fn =? 11 then Some (min_model args)
  else spec_exact fn args.

Definition math_model (fn : Z) (args : list Z) (obs : Z) : bool :=
  match model_exact fn args with
  | Some b => obs =? canon b
  | None =>
      if fn =? 4 then
        let y := arg args 0 in let x := arg args 1 in
        tbl_pred (otto_atan2_tbl (classify y) (classify x)) (gen_atan2_model y x) obs
      else if fn =? 12 then
        let x := arg args 0 in let y := arg args 1 in
        tbl_pred (otto_pow_tbl (classify x) (classify y))
                 (fun o => gen_pow x y o && (if y =? one_bits then o =? x else true)) obs
      else
        let x := arg args 0 in
        tbl_pred (unary_tbl fn (classify x)) (gen_unary fn x) obs
  end.

(* which listed deviation a Math call falls into (meaningful when model <> spec):
   none is left for the values; the ToNumber call count is class 10 in Corr.v *)
Definition math_class (fn : Z) (args : list Z) : Z := 0.
