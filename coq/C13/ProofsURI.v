(* C13 — lemmas about 15.1.3 Encode/Decode, escape/unescape and otto's encoder *)
From Coq Require Import ZArith Bool List Lia Zify.
From Otto Require Import C13.SpecURI C13.ModelURI.
Import ListNotations.
Open Scope Z_scope.
Ltac Zify.zify_post_hook ::= Z.div_mod_to_equations.

(* ---------- hex digits ---------- *)
Lemma hexv_hexd : forall d, 0 <= d < 16 -> hexv (hexd d) = Some d.
Proof.
  intros d H.
  assert (d = 0 \/ d = 1 \/ d = 2 \/ d = 3 \/ d = 4 \/ d = 5 \/ d = 6 \/ d = 7 \/ d = 8 \/ d = 9 \/
          d = 10 \/ d = 11 \/ d = 12 \/ d = 13 \/ d = 14 \/ d = 15) as E by lia.
  repeat (destruct E as [-> | E]; [reflexivity |]). subst; reflexivity.
Qed.

Lemma hexd_not_u : forall d, 0 <= d < 16 -> hexd d <> 117.
Proof. intros d H. unfold hexd. destruct (Z.ltb_spec d 10); lia. Qed.

Lemma hexbyte_pct : forall B, 0 <= B < 256 -> hexbyte (hexd (B / 16)) (hexd (B mod 16)) = Some B.
Proof.
  intros B H. unfold hexbyte.
  rewrite !hexv_hexd by lia. f_equal. lia.
Qed.

(* ---------- shape of UTF-8 ---------- *)
Definition scalar (V : Z) : Prop := (0 <= V < 0xD800) \/ (0xE000 <= V <= 0x10FFFF).

Lemma utf8_shape : forall V, scalar V -> 0x80 <= V ->
  exists B bs, utf8 V = B :: bs /\ 0xC0 <= B < 0xF8 /\ lead_n B = 1 + Z.of_nat (length bs) /\
               Forall (fun b => 0x80 <= b < 0xC0) bs /\ utf8_value B bs = Some V.
Proof.
  intros V HS H80. unfold utf8.
  destruct (Z.ltb_spec V 0x80); [lia |].
  destruct (Z.ltb_spec V 0x800).
  { exists (0xC0 + V / 64), [0x80 + V mod 64]. split; [reflexivity |].
    split; [lia |]. split.
    { unfold lead_n. destruct (Z.ltb_spec (0xC0 + V / 64) 0xC0); [lia |].
      destruct (Z.ltb_spec (0xC0 + V / 64) 0xE0); [reflexivity | lia]. }
    split; [repeat constructor; lia |].
    unfold utf8_value.
    replace ((0xC0 + V / 64 - 0xC0) * 64 + (0x80 + V mod 64 - 0x80)) with V by lia.
    destruct (Z.leb_spec 0x80 V); [reflexivity | lia]. }
  destruct (Z.ltb_spec V 0x10000).
  { exists (0xE0 + V / 4096), [0x80 + (V / 64) mod 64; 0x80 + V mod 64]. split; [reflexivity |].
    split; [lia |]. split.
    { unfold lead_n. destruct (Z.ltb_spec (0xE0 + V / 4096) 0xC0); [lia |].
      destruct (Z.ltb_spec (0xE0 + V / 4096) 0xE0); [lia |].
      destruct (Z.ltb_spec (0xE0 + V / 4096) 0xF0); [reflexivity | lia]. }
    split; [repeat constructor; lia |].
    unfold utf8_value.
    replace ((0xE0 + V / 4096 - 0xE0) * 4096 + (0x80 + (V / 64) mod 64 - 0x80) * 64 + (0x80 + V mod 64 - 0x80))
      with V by lia.
    assert (is_surr V = false) as ->.
    { unfold is_surr. destruct (Z.leb_spec 0xD800 V); destruct (Z.leb_spec V 0xDFFF); cbn; try reflexivity.
      unfold scalar in HS. lia. }
    destruct (Z.leb_spec 0x800 V); [reflexivity | lia]. }
  { exists (0xF0 + V / 262144), [0x80 + (V / 4096) mod 64; 0x80 + (V / 64) mod 64; 0x80 + V mod 64].
    split; [reflexivity |]. unfold scalar in HS.
    split; [lia |]. split.
    { unfold lead_n. destruct (Z.ltb_spec (0xF0 + V / 262144) 0xC0); [lia |].
      destruct (Z.ltb_spec (0xF0 + V / 262144) 0xE0); [lia |].
      destruct (Z.ltb_spec (0xF0 + V / 262144) 0xF0); [lia |].
      destruct (Z.ltb_spec (0xF0 + V / 262144) 0xF8); [reflexivity | lia]. }
    split; [repeat constructor; lia |].
    unfold utf8_value.
    replace ((0xF0 + V / 262144 - 0xF0) * 262144 + (0x80 + (V / 4096) mod 64 - 0x80) * 4096 +
             (0x80 + (V / 64) mod 64 - 0x80) * 64 + (0x80 + V mod 64 - 0x80)) with V by lia.
    destruct (Z.leb_spec 0x10000 V); [| lia].
    destruct (Z.leb_spec V 0x10FFFF); [reflexivity | lia]. }
Qed.

Lemma take_conts_pct : forall bs t, Forall (fun b => 0x80 <= b < 0xC0) bs ->
  take_conts (length bs) (flat_map pct bs ++ t) = Some (bs, t).
Proof.
  induction bs as [| b bs IH]; intros t HF; [reflexivity |].
  inversion HF as [| ? ? Hb HF']; subst.
  cbn [length flat_map take_conts pct app].
  change (37 =? 37) with true. cbv iota.
  rewrite hexbyte_pct by lia.
  assert (b / 64 =? 2 = true) as -> by (apply Z.eqb_eq; lia).
  rewrite IH by assumption. reflexivity.
Qed.

(* ---------- Decode on one escape ---------- *)
Lemma Decode_escape : forall f reserved h1 h2 r2 B, hexbyte h1 h2 = Some B ->
  Decode (S f) reserved (37 :: h1 :: h2 :: r2) =
  if B <? 0x80 then
    if reserved B then option_map (app [37; h1; h2]) (Decode f reserved r2)
    else option_map (cons B) (Decode f reserved r2)
  else
    let n := lead_n B in
    if (n =? 1) || (4 <? n) then None
    else match take_conts (Z.to_nat (n - 1)) r2 with
         | None => None
         | Some (bs, r3) =>
             match utf8_value B bs with
             | None => None
             | Some V => option_map (app (units V)) (Decode f reserved r3)
             end
         end.
Proof.
  intros f reserved h1 h2 r2 B H. cbn [Decode]. change (37 =? 37) with true. cbn [negb].
  rewrite H. reflexivity.
Qed.

Lemma Decode_plain : forall f reserved c r, c <> 37 ->
  Decode (S f) reserved (c :: r) = option_map (cons c) (Decode f reserved r).
Proof.
  intros f reserved c r H. cbn [Decode].
  destruct (Z.eqb_spec c 37); [contradiction | reflexivity].
Qed.

Lemma Decode_multibyte : forall f reserved V t, scalar V -> 0x80 <= V ->
  Decode (S f) reserved (flat_map pct (utf8 V) ++ t) = option_map (app (units V)) (Decode f reserved t).
Proof.
  intros f reserved V t HS H80.
  destruct (utf8_shape V HS H80) as (B & bs & E & HB & HL & HF & HV).
  rewrite E. cbn [flat_map pct app].
  rewrite (Decode_escape f reserved _ _ _ B) by (apply hexbyte_pct; lia).
  destruct (Z.ltb_spec B 0x80); [lia |].
  cbv zeta. rewrite HL.
  assert (Z.of_nat (length bs) <= 3).
  { unfold lead_n in HL.
    destruct (Z.ltb_spec B 0xC0); [lia |]. destruct (Z.ltb_spec B 0xE0); [lia |].
    destruct (Z.ltb_spec B 0xF0); [lia |]. destruct (Z.ltb_spec B 0xF8); lia. }
  assert (length bs <> O).
  { unfold lead_n in HL.
    destruct (Z.ltb_spec B 0xC0); [lia |]. destruct (Z.ltb_spec B 0xE0); [lia |].
    destruct (Z.ltb_spec B 0xF0); [lia |]. destruct (Z.ltb_spec B 0xF8); lia. }
  destruct (Z.eqb_spec (1 + Z.of_nat (length bs)) 1); [lia |].
  destruct (Z.ltb_spec 4 (1 + Z.of_nat (length bs))); [lia |].
  cbn [orb].
  replace (Z.to_nat (1 + Z.of_nat (length bs) - 1)) with (length bs) by lia.
  rewrite take_conts_pct by assumption. rewrite HV. reflexivity.
Qed.

Lemma Decode_ascii_escape : forall f reserved c t, 0 <= c < 0x80 -> reserved c = false ->
  Decode (S f) reserved (flat_map pct (utf8 c) ++ t) = option_map (cons c) (Decode f reserved t).
Proof.
  intros f reserved c t H HR. unfold utf8.
  destruct (Z.ltb_spec c 0x80); [| lia].
  cbn [flat_map pct app].
  rewrite (Decode_escape f reserved _ _ _ c) by (apply hexbyte_pct; lia).
  destruct (Z.ltb_spec c 0x80); [| lia]. rewrite HR. reflexivity.
Qed.

(* ---------- surrogate pairs ---------- *)
Lemma pair_scalar : forall h l, is_hi h = true -> is_lo l = true ->
  scalar (pair_value h l) /\ 0x80 <= pair_value h l /\ units (pair_value h l) = [h; l].
Proof.
  intros h l Hh Hl. unfold is_hi, is_lo in *.
  apply andb_true_iff in Hh as [H1 H2]. apply andb_true_iff in Hl as [H3 H4].
  apply Z.leb_le in H1, H2, H3, H4.
  unfold scalar, pair_value, units.
  split; [lia |]. split; [lia |].
  destruct (Z.ltb_spec ((h - 0xD800) * 0x400 + (l - 0xDC00) + 0x10000) 0x10000); [lia |].
  f_equal; [lia |]. f_equal. lia.
Qed.

Lemma length_pct_utf8_pos : forall V, (1 <= length (flat_map pct (utf8 V)))%nat.
Proof.
  intro V. unfold utf8.
  destruct (V <? 0x80); [cbn; lia |]. destruct (V <? 0x800); [cbn; lia |].
  destruct (V <? 0x10000); cbn; lia.
Qed.

Lemma lo_not_hi : forall c, is_lo c = true -> is_hi c = false.
Proof.
  intros c H. unfold is_hi, is_lo in *.
  destruct (Z.leb_spec 0xDC00 c); [| discriminate H].
  destruct (Z.leb_spec c 0xDBFF); [lia |]. apply andb_false_r.
Qed.
Lemma hi_not_lo : forall c, is_hi c = true -> is_lo c = false.
Proof.
  intros c H. destruct (is_lo c) eqn:E; [| reflexivity]. apply lo_not_hi in E. congruence.
Qed.

(* ---------- the round trip ---------- *)
Section RoundTrip.
  Variable unesc reserved : Z -> bool.
  Hypothesis unesc_ascii : forall c, unesc c = true -> 0 <= c < 0x80 /\ c <> 37.
  Hypothesis reserved_unesc : forall c, reserved c = true -> unesc c = true.

  Lemma unesc_not_surr : forall c, unesc c = true -> is_hi c = false /\ is_lo c = false.
  Proof using unesc unesc_ascii.
    clear reserved_unesc. clear reserved.
    intros c H. apply unesc_ascii in H. unfold is_hi, is_lo.
    destruct (Z.leb_spec 0xD800 c); destruct (Z.leb_spec 0xDC00 c); cbn; try lia; auto.
  Qed.

  Lemma roundtrip_len : forall n l, (length l <= n)%nat -> Forall unit_range l -> well_formed l = true ->
    exists e, Encode unesc l = Some e /\ forall f, (length e <= f)%nat -> Decode f reserved e = Some l.
  Proof.
    induction n as [| n IH]; intros l HL HR HW.
    { destruct l; [| cbn in HL; lia]. exists []. split; [reflexivity |]. intros; destruct f; reflexivity. }
    destruct l as [| c r].
    { exists []. split; [reflexivity |]. intros; destruct f; reflexivity. }
    inversion HR as [| ? ? Hc HR']; subst. cbn [length] in HL.
    cbn [Encode].
    destruct (unesc c) eqn:EU.
    { destruct (unesc_not_surr c EU) as [Eh El].
      cbn [well_formed] in HW. rewrite Eh, El in HW. cbn [negb andb] in HW.
      destruct (IH r ltac:(lia) HR' HW) as (e & He & Hd).
      exists (c :: e). rewrite He. split; [reflexivity |].
      intros f Hf. destruct f as [| f]; [cbn in Hf; lia |].
      rewrite Decode_plain by (apply unesc_ascii in EU; lia).
      rewrite Hd by (cbn in Hf; lia). reflexivity. }
    cbn [well_formed] in HW.
    destruct (is_lo c) eqn:El.
    { rewrite (lo_not_hi c El) in HW. discriminate HW. }
    destruct (is_hi c) eqn:Eh.
    { destruct r as [| c2 r2]; [discriminate |].
      apply andb_true_iff in HW as [Hl2 HW2]. rewrite Hl2.
      inversion HR' as [| ? ? Hc2 HR2]; subst. cbn [length] in HL.
      destruct (IH r2 ltac:(lia) HR2 HW2) as (e & He & Hd).
      destruct (pair_scalar c c2 Eh Hl2) as (HS & H80 & HU).
      exists (flat_map pct (utf8 (pair_value c c2)) ++ e). rewrite He. split; [reflexivity |].
      intros f Hf. rewrite app_length in Hf.
      pose proof (length_pct_utf8_pos (pair_value c c2)).
      destruct f as [| f]; [lia |].
      rewrite Decode_multibyte by assumption. rewrite Hd by lia. rewrite HU. reflexivity. }
    cbn [negb andb] in HW.
    destruct (IH r ltac:(lia) HR' HW) as (e & He & Hd).
    exists (flat_map pct (utf8 c) ++ e). rewrite He. split; [reflexivity |].
    intros f Hf. rewrite app_length in Hf.
    pose proof (length_pct_utf8_pos c).
    destruct f as [| f]; [lia |].
    assert (scalar c) as HS.
    { unfold scalar, unit_range, is_hi, is_lo in *.
      destruct (Z.leb_spec 0xD800 c); destruct (Z.leb_spec c 0xDBFF);
        destruct (Z.leb_spec 0xDC00 c); destruct (Z.leb_spec c 0xDFFF); cbn in Eh, El; try discriminate; lia. }
    destruct (Z.lt_ge_cases c 0x80) as [Hlt | Hge].
    { rewrite Decode_ascii_escape.
      - rewrite Hd by lia. reflexivity.
      - unfold unit_range in Hc; lia.
      - destruct (reserved c) eqn:ER; [| reflexivity]. apply reserved_unesc in ER. congruence. }
    rewrite Decode_multibyte by (assumption || lia). rewrite Hd by lia.
    unfold units. destruct (Z.ltb_spec c 0x10000); [reflexivity |]. unfold unit_range in Hc; lia.
  Qed.

  (* URIError exactly on the strings that contain a lone surrogate *)
  Lemma encode_none_len : forall n l, (length l <= n)%nat -> well_formed l = false -> Encode unesc l = None.
  Proof using unesc unesc_ascii.
    clear reserved_unesc. clear reserved.
    induction n as [| n IH]; intros l HL HW.
    { destruct l; [discriminate | cbn in HL; lia]. }
    destruct l as [| c r]; [discriminate |].
    cbn [length] in HL. cbn [Encode]. cbn [well_formed] in HW.
    destruct (unesc c) eqn:EU.
    { destruct (unesc_not_surr c EU) as [Eh El]. rewrite Eh, El in HW. cbn [negb andb] in HW.
      rewrite IH by (lia || assumption). reflexivity. }
    destruct (is_lo c) eqn:El; [reflexivity |].
    destruct (is_hi c) eqn:Eh.
    { destruct r as [| c2 r2]; [reflexivity |].
      destruct (is_lo c2); [| reflexivity]. cbn [andb] in HW. cbn [length] in HL.
      rewrite IH by (lia || assumption). reflexivity. }
    cbn [negb andb] in HW. rewrite IH by (lia || assumption). reflexivity.
  Qed.
End RoundTrip.

(* the two instances *)
Lemma mem_range : forall c l, mem c l = true -> In c l.
Proof.
  intros c l H. unfold mem in H. apply existsb_exists in H as (x & Hin & E).
  apply Z.eqb_eq in E. subst; assumption.
Qed.

Lemma uri_unescaped_ascii : forall c, uri_unescaped c = true -> 0 <= c < 0x80 /\ c <> 37.
Proof.
  intros c H. unfold uri_unescaped, is_alpha, is_dec in H.
  repeat (apply orb_true_iff in H as [H | H]);
    try (apply andb_true_iff in H as [H1 H2]; apply Z.leb_le in H1, H2; lia);
    try (apply Z.eqb_eq in H; lia); try discriminate H.
Qed.

Lemma unesc_uri_ascii : forall c, unesc_uri c = true -> 0 <= c < 0x80 /\ c <> 37.
Proof.
  intros c H. unfold unesc_uri in H.
  apply orb_true_iff in H as [H | H]; [apply orb_true_iff in H as [H | H] |].
  - apply uri_unescaped_ascii; assumption.
  - apply mem_range in H. cbn in H. lia.
  - apply Z.eqb_eq in H. lia.
Qed.

Lemma reserved_uri_unesc : forall c, reserved_uri c = true -> unesc_uri c = true.
Proof.
  intros c H. unfold reserved_uri in H. unfold unesc_uri.
  apply orb_true_iff in H as [H | H]; rewrite H; rewrite ?orb_true_r; reflexivity.
Qed.

Lemma uri_roundtrip : forall l, Forall unit_range l -> well_formed l = true ->
  exists e, encodeURI_spec l = Some e /\ decodeURI_spec e = Some l.
Proof.
  intros l HR HW.
  destruct (roundtrip_len unesc_uri reserved_uri unesc_uri_ascii reserved_uri_unesc (length l) l (le_n _) HR HW)
    as (e & He & Hd).
  exists e. split; [exact He |]. apply Hd. apply le_n.
Qed.

Lemma component_roundtrip : forall l, Forall unit_range l -> well_formed l = true ->
  exists e, encodeURIComponent_spec l = Some e /\ decodeURIComponent_spec e = Some l.
Proof.
  intros l HR HW.
  assert (forall c, reserved_comp c = true -> unesc_comp c = true) as H2 by (intros c H; discriminate).
  destruct (roundtrip_len unesc_comp reserved_comp uri_unescaped_ascii H2 (length l) l (le_n _) HR HW)
    as (e & He & Hd).
  exists e. split; [exact He |]. apply Hd. apply le_n.
Qed.

Lemma encode_error_iff : forall l,
  (encodeURI_spec l = None <-> well_formed l = false) /\
  (encodeURIComponent_spec l = None <-> well_formed l = false).
Proof.
  intro l.
  assert (forall unesc, (forall c, unesc c = true -> 0 <= c < 0x80 /\ c <> 37) ->
                        well_formed l = true -> Encode unesc l <> None) as HS.
  { intros unesc HA.
    (* a well-formed string always encodes: no range assumption is needed for that *)
    remember (length l) as n eqn:En.
    assert (length l <= n)%nat as HL by lia. clear En. revert l HL.
    induction n as [| n IH]; intros l HL HW.
    { destruct l; [discriminate | cbn in HL; lia]. }
    destruct l as [| c r]; [discriminate |]. cbn [length] in HL. cbn [Encode]. cbn [well_formed] in HW.
    destruct (unesc c) eqn:EU.
    { destruct (unesc_not_surr unesc HA c EU) as [Eh El]. rewrite Eh, El in HW. cbn [negb andb] in HW.
      specialize (IH r ltac:(lia) HW). destruct (Encode unesc r); [discriminate | contradiction]. }
    destruct (is_hi c) eqn:Eh.
    { destruct r as [| c2 r2]; [discriminate |]. apply andb_true_iff in HW as [Hl2 HW2].
      rewrite (hi_not_lo c Eh).
      rewrite Hl2. cbn [length] in HL. specialize (IH r2 ltac:(lia) HW2).
      destruct (Encode unesc r2); [discriminate | contradiction]. }
    apply andb_true_iff in HW as [Hl HW2]. apply negb_true_iff in Hl. rewrite Hl.
    specialize (IH r ltac:(lia) HW2). destruct (Encode unesc r); [discriminate | contradiction]. }
  split; split; intro H.
  - destruct (well_formed l) eqn:E; [| reflexivity]. exfalso. exact (HS _ unesc_uri_ascii eq_refl H).
  - exact (encode_none_len unesc_uri unesc_uri_ascii (length l) l (le_n _) H).
  - destruct (well_formed l) eqn:E; [| reflexivity]. exfalso. exact (HS _ uri_unescaped_ascii eq_refl H).
  - exact (encode_none_len unesc_comp uri_unescaped_ascii (length l) l (le_n _) H).
Qed.

(* ---------- escape / unescape (B.2.1, B.2.2) ---------- *)
Lemma unescape_at_pct : forall a b t, a <> 117 ->
  unescape_at (a :: b :: t) = match hexbyte a b with Some v => Some (v, t) | None => None end.
Proof.
  intros a b t H. unfold unescape_at.
  destruct t as [| x [| y [| z t']]]; try reflexivity.
  destruct (Z.eqb_spec a 117); [contradiction | reflexivity].
Qed.

Lemma hex4_digits : forall c, 0 <= c < 0x10000 ->
  hex4 (hexd (c / 4096)) (hexd ((c / 256) mod 16)) (hexd ((c / 16) mod 16)) (hexd (c mod 16)) = Some c.
Proof.
  intros c H. unfold hex4. rewrite !hexv_hexd by lia. f_equal. lia.
Qed.

Lemma esc_unescaped_not_pct : forall c, esc_unescaped c = true -> c <> 37.
Proof.
  intros c H. unfold esc_unescaped, is_alpha, is_dec in H.
  repeat (apply orb_true_iff in H as [H | H]);
    try (apply andb_true_iff in H as [H1 H2]; apply Z.leb_le in H1, H2; lia);
    try (apply Z.eqb_eq in H; lia); try discriminate H.
Qed.

Lemma escape_unit_len : forall c, (1 <= length (escape_unit c))%nat.
Proof.
  intro c. unfold escape_unit. destruct (esc_unescaped c); [cbn; lia |].
  destruct (c <? 256); cbn; lia.
Qed.

Lemma unescape_escape_fuel : forall l f, Forall unit_range l -> (length (escape_spec l) <= f)%nat ->
  unescape_fuel f (escape_spec l) = l.
Proof.
  induction l as [| c r IH]; intros f HR Hf.
  { destruct f; reflexivity. }
  inversion HR as [| ? ? Hc HR']; subst. unfold unit_range in Hc.
  unfold escape_spec in *. cbn [flat_map] in *. rewrite app_length in Hf.
  pose proof (escape_unit_len c).
  destruct f as [| f]; [lia |].
  unfold escape_unit in *.
  destruct (esc_unescaped c) eqn:EU.
  { cbn [app unescape_fuel length] in *.
    destruct (Z.eqb_spec c 37) as [E | _]; [apply esc_unescaped_not_pct in EU; contradiction |].
    rewrite IH by (assumption || lia). reflexivity. }
  destruct (Z.ltb_spec c 256).
  { cbn [pct app unescape_fuel length] in *. change (37 =? 37) with true. cbv iota.
    rewrite unescape_at_pct by (apply hexd_not_u; lia).
    rewrite hexbyte_pct by lia. rewrite IH by (assumption || lia). reflexivity. }
  { cbn [pct_u app unescape_fuel length] in *. change (37 =? 37) with true. cbv iota.
    unfold unescape_at. change (117 =? 117) with true. cbv iota.
    rewrite hex4_digits by lia. rewrite IH by (assumption || lia). reflexivity. }
Qed.

Lemma escape_roundtrip : forall l, Forall unit_range l -> unescape_spec (escape_spec l) = l.
Proof. intros l H. unfold unescape_spec. apply unescape_escape_fuel; [assumption | apply le_n]. Qed.

(* the output of escape is made of the 69 characters of B.2.1 and '%' only *)
Lemma escape_output_chars : forall l c, Forall unit_range l -> In c (escape_spec l) ->
  esc_unescaped c = true \/ c = 37 \/ c = 117.
Proof.
  intros l c HR Hin. unfold escape_spec in Hin. apply in_flat_map in Hin as (x & Hx & Hc).
  rewrite Forall_forall in HR. specialize (HR x Hx). unfold unit_range in HR.
  unfold escape_unit in Hc.
  assert (forall d, 0 <= d < 16 -> esc_unescaped (hexd d) = true) as HD.
  { intros d Hd.
    assert (d = 0 \/ d = 1 \/ d = 2 \/ d = 3 \/ d = 4 \/ d = 5 \/ d = 6 \/ d = 7 \/ d = 8 \/ d = 9 \/
            d = 10 \/ d = 11 \/ d = 12 \/ d = 13 \/ d = 14 \/ d = 15) as E by lia.
    repeat (destruct E as [-> | E]; [reflexivity |]). subst; reflexivity. }
  destruct (esc_unescaped x) eqn:EU.
  { destruct Hc as [<- | []]. auto. }
  destruct (Z.ltb_spec x 256).
  { cbn in Hc. destruct Hc as [<- | [<- | [<- | []]]]; auto; left; apply HD; lia. }
  { cbn in Hc. destruct Hc as [<- | [<- | [<- | [<- | [<- | [<- | []]]]]]]; auto; left; apply HD; lia. }
Qed.

(* ---------- otto's encoder is the ES5 Encode ---------- *)
Definition ascii_codes : list Z := map Z.of_nat (seq 0 128).
Lemma ascii_codes_complete : forall c, 0 <= c < 128 -> In c ascii_codes.
Proof.
  intros c H. unfold ascii_codes. apply in_map_iff. exists (Z.to_nat c).
  split; [lia |]. apply in_seq. lia.
Qed.

Lemma sets_agree_ascii : forall c, 0 <= c < 128 ->
  unesc_uri c = (keep_uri c || query_unreserved c) /\
  unesc_comp c = (keep_comp c || query_unreserved c).
Proof.
  assert (forallb (fun c => Bool.eqb (unesc_uri c) (keep_uri c || query_unreserved c) &&
                            Bool.eqb (unesc_comp c) (keep_comp c || query_unreserved c)) ascii_codes = true) as H
    by (vm_compute; reflexivity).
  intros c Hc. rewrite forallb_forall in H. specialize (H c (ascii_codes_complete c Hc)).
  apply andb_true_iff in H as [H1 H2]. apply eqb_prop in H1, H2. auto.
Qed.

Fixpoint zleq (a b : list Z) : bool :=
  match a, b with
  | [], [] => true
  | x :: a', y :: b' => (x =? y) && zleq a' b'
  | _, _ => false
  end.
Lemma zleq_eq : forall a b, zleq a b = true -> a = b.
Proof.
  induction a as [| x a IH]; destruct b as [| y b]; cbn; intro H; try discriminate; [reflexivity |].
  apply andb_true_iff in H as [H1 H2]. apply Z.eqb_eq in H1. subst. f_equal. apply IH; assumption.
Qed.

Lemma esc_rune_ascii : forall c, 0 <= c < 128 ->
  esc_rune keep_uri c = (if unesc_uri c then [c] else flat_map pct (utf8 c)) /\
  esc_rune keep_comp c = (if unesc_comp c then [c] else flat_map pct (utf8 c)).
Proof.
  assert (forallb (fun c =>
            zleq (esc_rune keep_uri c) (if unesc_uri c then [c] else flat_map pct (utf8 c)) &&
            zleq (esc_rune keep_comp c) (if unesc_comp c then [c] else flat_map pct (utf8 c)))
          ascii_codes = true) as H by (vm_compute; reflexivity).
  intros c Hc. rewrite forallb_forall in H. specialize (H c (ascii_codes_complete c Hc)).
  apply andb_true_iff in H as [H1 H2].
  split; apply zleq_eq; assumption.
Qed.

Lemma not_ascii_sets : forall c, 128 <= c ->
  unesc_uri c = false /\ unesc_comp c = false /\ keep_uri c = false /\ keep_comp c = false /\
  query_unreserved c = false.
Proof.
  intros c H.
  assert (forall k, k < 128 -> (c =? k) = false) as E by (intros; apply Z.eqb_neq; lia).
  assert (is_alpha c = false) as Ea.
  { unfold is_alpha. destruct (Z.leb_spec c 90); [lia |]. destruct (Z.leb_spec c 122); [lia |].
    rewrite !andb_false_r. reflexivity. }
  assert (is_dec c = false) as Ed.
  { unfold is_dec. destruct (Z.leb_spec c 57); [lia |]. apply andb_false_r. }
  unfold unesc_uri, unesc_comp, uri_unescaped, keep_uri, keep_comp, query_unreserved, mem.
  rewrite Ea, Ed. cbn [existsb uri_mark uri_reserved orb].
  rewrite !E by lia. repeat split; reflexivity.
Qed.

Lemma query_escape_high : forall bs, Forall (fun b => 128 <= b) bs -> query_escape bs = flat_map pct bs.
Proof.
  induction bs as [| b bs IH]; intro H; [reflexivity |].
  inversion H; subst. unfold query_escape in *. cbn [flat_map].
  destruct (not_ascii_sets b ltac:(assumption)) as (_ & _ & _ & _ & ->). rewrite IH by assumption. reflexivity.
Qed.

Lemma utf8_high_bytes : forall V, 128 <= V -> Forall (fun b => 128 <= b) (utf8 V).
Proof.
  intros V H. unfold utf8.
  destruct (Z.ltb_spec V 0x80); [lia |].
  destruct (V <? 0x800); [repeat constructor; lia |].
  destruct (V <? 0x10000); repeat constructor; lia.
Qed.

Lemma esc_rune_spec : forall c, 0 <= c ->
  esc_rune keep_uri c = (if unesc_uri c then [c] else flat_map pct (utf8 c)) /\
  esc_rune keep_comp c = (if unesc_comp c then [c] else flat_map pct (utf8 c)).
Proof.
  intros c H. destruct (Z.lt_ge_cases c 128) as [Hlt | Hge]; [apply esc_rune_ascii; lia |].
  destruct (not_ascii_sets c Hge) as (-> & -> & E1 & E2 & _).
  unfold esc_rune. rewrite E1, E2.
  destruct (Z.eqb_spec c 32); [lia |].
  rewrite query_escape_high by (apply utf8_high_bytes; assumption). auto.
Qed.

Lemma pair_value_nonneg : forall h l, is_hi h = true -> is_lo l = true -> 0 <= pair_value h l.
Proof. intros h l Hh Hl. destruct (pair_scalar h l Hh Hl) as (_ & H & _). lia. Qed.

Lemma encode_model_is_spec_len : forall n l, (length l <= n)%nat -> Forall (fun c => 0 <= c) l ->
  encode_model keep_uri l = Encode unesc_uri l /\ encode_model keep_comp l = Encode unesc_comp l.
Proof.
  unfold encode_model.
  induction n as [| n IH]; intros l HL HR.
  { destruct l; [split; reflexivity | cbn in HL; lia]. }
  destruct l as [| c r]; [split; reflexivity |].
  inversion HR as [| ? ? Hc HR']; subst. cbn [length] in HL.
  cbn [to_runes Encode].
  destruct (is_lo c) eqn:El.
  { assert (unesc_uri c = false /\ unesc_comp c = false) as [-> ->].
    { unfold is_lo in El. apply andb_true_iff in El as [E1 _]. apply Z.leb_le in E1.
      destruct (not_ascii_sets c ltac:(lia)) as (-> & -> & _). auto. }
    auto. }
  destruct (is_hi c) eqn:Eh.
  { assert (unesc_uri c = false /\ unesc_comp c = false) as [-> ->].
    { unfold is_hi in Eh. apply andb_true_iff in Eh as [E1 _]. apply Z.leb_le in E1.
      destruct (not_ascii_sets c ltac:(lia)) as (-> & -> & _). auto. }
    destruct r as [| c2 r2]; [auto |].
    destruct (is_lo c2) eqn:El2; [| auto].
    inversion HR' as [| ? ? Hc2 HR2]; subst. cbn [length] in HL.
    destruct (IH r2 ltac:(lia) HR2) as [I1 I2].
    pose proof (pair_value_nonneg c c2 Eh El2) as Hp.
    destruct (pair_scalar c c2 Eh El2) as (_ & H80 & _).
    destruct (esc_rune_spec (pair_value c c2) Hp) as [R1 R2].
    destruct (not_ascii_sets (pair_value c c2) ltac:(lia)) as (U1 & U2 & _).
    rewrite U1 in R1. rewrite U2 in R2.
    rewrite <- I1, <- I2.
    destruct (to_runes r2) as [rs |]; cbn [option_map flat_map]; [| auto].
    rewrite R1, R2. auto. }
  destruct (IH r ltac:(lia) HR') as [I1 I2].
  destruct (esc_rune_spec c Hc) as [R1 R2].
  rewrite <- I1, <- I2.
  destruct (to_runes r) as [rs |]; cbn [option_map flat_map].
  { rewrite R1, R2. destruct (unesc_uri c); destruct (unesc_comp c); auto. }
  destruct (unesc_uri c); destruct (unesc_comp c); auto.
Qed.

Lemma encode_model_is_spec : forall l, Forall (fun c => 0 <= c) l ->
  encode_model keep_uri l = encodeURI_spec l /\ encode_model keep_comp l = encodeURIComponent_spec l.
Proof. intros l H. exact (encode_model_is_spec_len (length l) l (le_n _) H). Qed.

Lemma sets_agree : forall c,
  unesc_uri c = (keep_uri c || query_unreserved c) /\ unesc_comp c = (keep_comp c || query_unreserved c).
Proof.
  intro c. destruct (Z.lt_ge_cases c 0) as [Hn | Hp].
  - assert (forall k, 0 <= k -> (c =? k) = false) as E by (intros; apply Z.eqb_neq; lia).
    assert (is_alpha c = false) as Ea.
    { unfold is_alpha. destruct (Z.leb_spec 65 c); [lia |]. destruct (Z.leb_spec 97 c); [lia | reflexivity]. }
    assert (is_dec c = false) as Ed by (unfold is_dec; destruct (Z.leb_spec 48 c); [lia | reflexivity]).
    unfold unesc_uri, unesc_comp, uri_unescaped, keep_uri, keep_comp, query_unreserved, mem.
    rewrite Ea, Ed. cbn [existsb uri_mark uri_reserved orb]. rewrite !E by lia. split; reflexivity.
  - destruct (Z.lt_ge_cases c 128) as [Hl | Hg]; [apply sets_agree_ascii; lia |].
    destruct (not_ascii_sets c Hg) as (-> & -> & -> & -> & ->). split; reflexivity.
Qed.

(* ---------- otto's escape is B.2.1 on strings without surrogates ---------- *)
Lemma no_escape_sets_ascii : forall c, 0 <= c < 128 -> otto_no_escape c = esc_unescaped c.
Proof.
  assert (forallb (fun c => Bool.eqb (otto_no_escape c) (esc_unescaped c)) ascii_codes = true) as H
    by (vm_compute; reflexivity).
  intros c Hc. rewrite forallb_forall in H. specialize (H c (ascii_codes_complete c Hc)).
  apply eqb_prop in H. exact H.
Qed.

Lemma esc_unescaped_high : forall c, 128 <= c -> esc_unescaped c = false.
Proof.
  intros c H.
  assert (forall k, k < 128 -> (c =? k) = false) as E by (intros; apply Z.eqb_neq; lia).
  unfold esc_unescaped, is_alpha, is_dec, mem.
  destruct (Z.leb_spec c 90); [lia |]. destruct (Z.leb_spec c 122); [lia |].
  destruct (Z.leb_spec c 57); [lia |].
  rewrite !andb_false_r. cbn [existsb orb]. rewrite !E by lia. reflexivity.
Qed.

Lemma surr_split : forall c, is_surr c = false -> is_hi c = false /\ is_lo c = false.
Proof.
  intros c H. unfold is_surr, is_hi, is_lo in *.
  destruct (Z.leb_spec 0xD800 c); destruct (Z.leb_spec c 0xDFFF); cbn in H; try discriminate;
    destruct (Z.leb_spec c 0xDBFF); destruct (Z.leb_spec 0xDC00 c); cbn; auto; lia.
Qed.

Lemma utf16_decode_no_surr : forall s, Forall (fun c => is_surr c = false) s -> utf16_decode s = s.
Proof.
  induction s as [| c r IH]; intro H; [reflexivity |].
  inversion H as [| ? ? Hc Hr]; subst. destruct (surr_split c Hc) as [Eh El].
  cbn [utf16_decode]. rewrite Eh, El. f_equal. apply IH; assumption.
Qed.

Lemma escape_rune_unit : forall c, 0 <= c < 0x10000 -> escape_rune c = escape_unit c.
Proof.
  intros c H. unfold escape_rune, escape_unit, escape_u16, units.
  destruct (Z.ltb_spec c 0x10000); [| lia].
  destruct (Z.ltb_spec c 0x80).
  - rewrite no_escape_sets_ascii by lia. cbn [andb].
    destruct (esc_unescaped c); [reflexivity |].
    destruct fixed_escape_astral; cbn [flat_map]; rewrite ?app_nil_r; reflexivity.
  - assert (esc_unescaped c = false) as -> by (apply esc_unescaped_high; lia). cbn [andb].
    destruct fixed_escape_astral; cbn [flat_map]; rewrite ?app_nil_r; reflexivity.
Qed.

Lemma escape_model_is_spec : forall s,
  Forall (fun c => 0 <= c < 0x10000) s -> Forall (fun c => is_surr c = false) s ->
  escape_model s = escape_spec s.
Proof.
  intros s HR HS. unfold escape_model, escape_spec. rewrite utf16_decode_no_surr by assumption.
  induction s as [| c r IH]; [reflexivity |].
  inversion HR; inversion HS; subst. cbn [flat_map].
  rewrite escape_rune_unit by assumption. f_equal. apply IH; assumption.
Qed.

(* ---------- otto's unescape (commit 6dc8dfa) ---------- *)
Lemma unescape_at_tail : forall r v r', unescape_at r = Some (v, r') ->
  (exists u a b c d, r = u :: a :: b :: c :: d :: r') \/ (exists a b, r = a :: b :: r').
Proof.
  intros r v r' H. unfold unescape_at in H.
  destruct r as [| u [| a [| b [| c [| d r5]]]]]; try discriminate H.
  - destruct (hexbyte u a); inversion H; subst; right; eauto.
  - destruct (hexbyte u a); inversion H; subst; right; eauto.
  - destruct (hexbyte u a); inversion H; subst; right; eauto.
  - destruct (u =? 117); [destruct (hex4 a b c d) |].
    + inversion H; subst; left; eauto 10.
    + destruct (hexbyte u a); inversion H; subst; right; eauto.
    + destruct (hexbyte u a); inversion H; subst; right; eauto.
Qed.

Lemma unescape_at_small : forall r v r', Forall (fun c => c < 0x10000) r ->
  unescape_at r = Some (v, r') -> Forall (fun c => c < 0x10000) r'.
Proof.
  intros r v r' HF H.
  destruct (unescape_at_tail r v r' H) as [(u & a & b & c & d & E) | (a & b & E)]; subst;
    repeat (match goal with HF : Forall _ (_ :: _) |- _ => inversion HF; clear HF; subst end); assumption.
Qed.

Lemma units_small : forall c, c < 0x10000 -> units c = [c].
Proof. intros c H. unfold units. destruct (Z.ltb_spec c 0x10000); [reflexivity | lia]. Qed.

Lemma flat_map_units_small : forall l, Forall (fun c => c < 0x10000) l -> flat_map units l = l.
Proof.
  induction l as [| c r IH]; intro H; [reflexivity |]. inversion H; subst.
  cbn [flat_map]. rewrite units_small by assumption. rewrite IH by assumption. reflexivity.
Qed.

Lemma unescape_units_small : forall f l, Forall (fun c => c < 0x10000) l ->
  unescape_units f l = unescape_fuel f l.
Proof.
  induction f as [| f IH]; intros l HF.
  { destruct l as [| c r]; [reflexivity |]. cbn [unescape_units unescape_fuel]. apply flat_map_units_small; assumption. }
  destruct l as [| c r]; [reflexivity |]. inversion HF as [| ? ? Hc Hr]; subst.
  cbn [unescape_units unescape_fuel].
  destruct (c =? 37).
  - destruct (unescape_at r) as [[v r'] |] eqn:E.
    + rewrite IH by (eapply unescape_at_small; eassumption). reflexivity.
    + rewrite IH by assumption. reflexivity.
  - rewrite units_small by assumption. rewrite IH by assumption. reflexivity.
Qed.

Lemma utf16_roundtrip_len : forall n s, (length s <= n)%nat -> Forall unit_range s -> well_formed s = true ->
  utf16_encode (utf16_decode s) = s.
Proof.
  unfold utf16_encode.
  induction n as [| n IH]; intros s HL HR HW.
  { destruct s; [reflexivity | cbn in HL; lia]. }
  destruct s as [| c r]; [reflexivity |].
  inversion HR as [| ? ? Hc HR']; subst. cbn [length] in HL.
  cbn [well_formed] in HW. cbn [utf16_decode].
  destruct (is_hi c) eqn:Eh.
  - destruct r as [| c2 r2]; [discriminate |].
    apply andb_true_iff in HW as [Hl2 HW2]. rewrite Hl2.
    inversion HR' as [| ? ? Hc2 HR2]; subst. cbn [length] in HL.
    destruct (pair_scalar c c2 Eh Hl2) as (_ & _ & HU).
    cbn [flat_map]. rewrite HU. rewrite IH by (lia || assumption). reflexivity.
  - apply andb_true_iff in HW as [Hl HW2]. apply negb_true_iff in Hl. rewrite Hl.
    cbn [flat_map]. unfold unit_range in Hc. rewrite units_small by lia.
    rewrite IH by (lia || assumption). reflexivity.
Qed.

(* on a text without surrogates otto's unescape is B.2.2 whenever the B.2.2
   result can live in a Go string (no unpaired surrogate escape) *)
Lemma unescape_model_is_spec : forall l,
  Forall (fun c => c < 0x10000) l -> Forall (fun c => is_surr c = false) l ->
  Forall unit_range (unescape_spec l) -> well_formed (unescape_spec l) = true ->
  unescape_model l = unescape_spec l.
Proof.
  intros l HS HN HR HW. unfold unescape_model. cbv zeta.
  rewrite (utf16_decode_no_surr l) by assumption.
  rewrite unescape_units_small by assumption.
  change (unescape_fuel (length l) l) with (unescape_spec l).
  apply (utf16_roundtrip_len (length (unescape_spec l))); [apply le_n | assumption | assumption].
Qed.

Lemma esc_unescaped_ascii : forall c, esc_unescaped c = true -> 0 <= c < 128.
Proof.
  intros c H. unfold esc_unescaped, is_alpha, is_dec in H.
  repeat (apply orb_true_iff in H as [H | H]);
    try (apply andb_true_iff in H as [H1 H2]; apply Z.leb_le in H1, H2; lia);
    try (apply Z.eqb_eq in H; lia); try discriminate H.
Qed.

(* unescape(escape(s)) = s through otto's unescape, for every well-formed string:
   surrogate pairs are restored (this is what C13_unescape_surrogate_refuted denied) *)
Lemma unescape_model_escape : forall s, Forall unit_range s -> well_formed s = true ->
  unescape_model (escape_spec s) = s.
Proof.
  intros s HR HW.
  assert (forall c, In c (escape_spec s) -> 0 <= c < 128) as HA.
  { intros c Hin. destruct (escape_output_chars s c HR Hin) as [H | [-> | ->]]; [apply esc_unescaped_ascii; assumption | lia | lia]. }
  rewrite unescape_model_is_spec.
  - apply escape_roundtrip; assumption.
  - apply Forall_forall. intros c Hin. specialize (HA c Hin). lia.
  - apply Forall_forall. intros c Hin. specialize (HA c Hin). unfold is_surr.
    destruct (Z.leb_spec 0xD800 c); [lia | reflexivity].
  - rewrite escape_roundtrip by assumption. assumption.
  - rewrite escape_roundtrip by assumption. assumption.
Qed.
