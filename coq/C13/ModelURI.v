(* C13 — otto's URI coding and escape/unescape (builtin.go), as it is written:
   strings are Go strings (UTF-8) except values made by String.fromCharCode,
   which encodeURI* reads as raw UTF-16 units.

   encodeDecodeURI : surrogate pairing loop -> runes -> UTF-8 -> every rune not
                     in the regexp class is passed to url.QueryEscape (' ' -> %20)
   decodeURI       : value.string() (lone surrogates become U+FFFD) -> guard
                     regexp rewriting %XX of reserved characters to %25XX ->
                     '+' -> %2B -> url.QueryUnescape -> utf8.ValidString
   builtinEscape   : byte loop; a byte that "should be escaped" starts a rune,
                     of which only the FIRST UTF-16 unit is written
   builtinUnescape : byte loop collecting UTF-16 units: %uXXXX / %XX give their
                     unit, any other character (a whole rune) its units; the
                     units are decoded with utf16.Decode at the end

   Contracts of the Go library used (url.QueryEscape / QueryUnescape,
   utf8.ValidString, utf16.Decode, regexp on these fixed patterns) are written
   out here; the ES5 functions of SpecURI are the oracle for them in the
   correspondence run.

   Deviations from ES5 reproduced by this model (classes in C13/Corr.v):
     (4  escape("@") = "%40" was repaired by d183de8; class retired)
     5  escape of an astral character writes only the high surrogate
     (6 unescape of UTF-8 bytes as Latin-1 and 7 unpaired surrogate escapes
        were repaired by 6dc8dfa; classes retired)
     8  a lone surrogate cannot live in a Go string: one in the argument is read
        as U+FFFD (escape, unescape, decodeURI, decodeURIComponent), and an
        unpaired %uD800..%uDFFF escape makes unescape return U+FFFD *)
From Coq Require Import ZArith Bool List Lia.
From Otto Require Import C13.SpecURI.
Import ListNotations.
Open Scope Z_scope.

(* ---------- Go's utf16.Decode on a unit list: runes, lone surrogates -> U+FFFD ---------- *)
Fixpoint utf16_decode (l : list Z) : list Z :=
  match l with
  | [] => []
  | c :: r =>
      if is_hi c then
        match r with
        | c2 :: r2 => if is_lo c2 then pair_value c c2 :: utf16_decode r2 else 0xFFFD :: utf16_decode r
        | [] => [0xFFFD]
        end
      else if is_lo c then 0xFFFD :: utf16_decode r
      else c :: utf16_decode r
  end.
Definition utf16_encode (rs : list Z) : list Z := flat_map units rs.
Definition utf8_encode (rs : list Z) : list Z := flat_map utf8 rs.

(* ---------- encodeURI / encodeURIComponent ---------- *)
(* the pairing loop of encodeDecodeURI over the []uint16 *)
Fixpoint to_runes (l : list Z) : option (list Z) :=
  match l with
  | [] => Some []
  | c :: r =>
      if is_lo c then None
      else if is_hi c then
        match r with
        | [] => None
        | c2 :: r2 => if is_lo c2 then option_map (cons (pair_value c c2)) (to_runes r2) else None
        end
      else option_map (cons c) (to_runes r)
  end.

(* encodeURIRegexp  [^~!@#$&*()=:/,;?+']   encodeURIComponentRegexp  [^~!*()'] *)
Definition keep_uri (c : Z) : bool := mem c [126; 33; 64; 35; 36; 38; 42; 40; 41; 61; 58; 47; 44; 59; 63; 43; 39].
Definition keep_comp (c : Z) : bool := mem c [126; 33; 42; 40; 41; 39].
(* url.QueryEscape leaves A-Z a-z 0-9 - _ . ~ ; everything else is %XX per byte *)
Definition query_unreserved (b : Z) : bool := is_alpha b || is_dec b || mem b [45; 95; 46; 126].
Definition query_escape (bytes : list Z) : list Z :=
  flat_map (fun b => if query_unreserved b then [b] else pct b) bytes.
Definition esc_rune (keep : Z -> bool) (r : Z) : list Z :=
  if keep r then [r]
  else if r =? 32 then [37; 50; 48]
  else query_escape (utf8 r).
Definition encode_model (keep : Z -> bool) (l : list Z) : option (list Z) :=
  match to_runes l with
  | None => None
  | Some rs => Some (flat_map (esc_rune keep) rs)
  end.

(* ---------- decodeURI / decodeURIComponent ---------- *)
(* decodeURIGuard (?i)(?:%)(3B|2F|3F|3A|40|26|3D|2B|24|2C|23) -> %25$1 *)
Definition guarded (h1 h2 : Z) : bool :=
  match hexbyte h1 h2 with
  | Some B => mem B [0x3B; 0x2F; 0x3F; 0x3A; 0x40; 0x26; 0x3D; 0x2B; 0x24; 0x2C; 0x23]
  | None => false
  end.
Fixpoint guard (l : list Z) : list Z :=
  match l with
  | [] => []
  | c :: r =>
      match r with
      | h1 :: h2 :: r2 =>
          if (c =? 37) && guarded h1 h2 then 37 :: 50 :: 53 :: h1 :: h2 :: guard r2
          else c :: guard r
      | _ => c :: guard r
      end
  end.
Definition plus_hack (l : list Z) : list Z := flat_map (fun c => if c =? 43 then [37; 50; 66] else [c]) l.
(* url.QueryUnescape (no '+' left): error on a '%' without two hex digits *)
Fixpoint query_unescape (l : list Z) : option (list Z) :=
  match l with
  | [] => Some []
  | c :: r =>
      if c =? 37 then
        match r with
        | h1 :: h2 :: r2 =>
            match hexbyte h1 h2 with
            | Some B => option_map (cons B) (query_unescape r2)
            | None => None
            end
        | _ => None
        end
      else option_map (cons c) (query_unescape r)
  end.

(* utf8.ValidString, returning the runes *)
Definition is_cont (b : Z) : bool := b / 64 =? 2.
Fixpoint utf8_decode (fuel : nat) (l : list Z) : option (list Z) :=
  match l with
  | [] => Some []
  | b :: r =>
      match fuel with
      | O => None
      | S f =>
          if b <? 0x80 then option_map (cons b) (utf8_decode f r)
          else
            let n := lead_n b in
            if (n =? 1) || (4 <? n) then None
            else
              let k := Z.to_nat (n - 1) in
              let bs := firstn k r in
              if (length bs =? k)%nat && forallb is_cont bs then
                match utf8_value b bs with
                | Some V => option_map (cons V) (utf8_decode f (skipn k r))
                | None => None
                end
              else None
      end
  end.

Definition decode_model (reserve : bool) (l : list Z) : option (list Z) :=
  let input := utf8_encode (utf16_decode l) in
  let input := if reserve then guard input else input in
  match query_unescape (plus_hack input) with
  | None => None
  | Some out =>
      match utf8_decode (length out) out with
      | None => None
      | Some rs => Some (utf16_encode rs)
      end
  end.

(* ---------- switch for the repair in proposed_fixes/C13-escape-astral.diff ----------
   false on the recorded tree.  When the repair is applied to otto the switch is
   flipped (and the ..._refuted theorem and the open finding are removed), so
   that the model keeps describing the code. *)
Definition fixed_escape_astral : bool := false.

(* ---------- escape ---------- *)
(* builtinShouldEscape: A-Z a-z 0-9 @ * _ + - . / *)
Definition otto_no_escape (c : Z) : bool :=
  is_alpha c || is_dec c || mem c [64; 42; 95; 43; 45; 46; 47].
(* the byte loop visits exactly the first byte of every rune (it advances by the
   rune width when it escapes, and a byte it copies is an ASCII rune) *)
Definition escape_u16 (u : Z) : list Z := if u <? 256 then pct u else pct_u u.
Definition escape_rune (r : Z) : list Z :=
  if (r <? 0x80) && otto_no_escape r then [r]
  else if fixed_escape_astral then flat_map escape_u16 (units r)
  else escape_u16 (match units r with u :: _ => u | [] => 0 end).
Definition escape_model (l : list Z) : list Z := flat_map escape_rune (utf16_decode l).

(* ---------- unescape ---------- *)
(* builtinUnescape (commit 6dc8dfa): the loop collects UTF-16 units (an escape
   gives its unit, any other character its units) and decodes them at the end;
   the escapes are ASCII, so the byte loop is a loop over the runes of the text *)
Fixpoint unescape_units (fuel : nat) (l : list Z) : list Z :=
  match l with
  | [] => []
  | c :: r =>
      match fuel with
      | O => flat_map units l
      | S f =>
          if c =? 37 then
            match unescape_at r with
            | Some (v, r') => v :: unescape_units f r'
            | None => c :: unescape_units f r
            end
          else units c ++ unescape_units f r
      end
  end.
Definition unescape_model (l : list Z) : list Z :=
  let rs := utf16_decode l in utf16_encode (utf16_decode (unescape_units (length rs) rs)).
