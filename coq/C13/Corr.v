(* correspondence cases for C13: what the harness observed on the real
   interpreter against Model (otto's wrappers over the Go library contracts)
   and Spec (ES5 15.8.2, 15.1.2.4-5, 15.1.3, B.2.1-2) *)
From Coq Require Import ZArith Bool List.
From Otto Require Import Common.Corr Common.Double C13.ModelMath C13.SpecURI C13.ModelURI.
From Otto Require Export C13.SpecMath.   (* the case files name the constructors of [jv] *)
Import ListNotations.
Open Scope Z_scope.

Inductive case :=
| CMath (fn : Z) (args : list jv) (obs : Z)              (* Math.<fn>(args...) -> bit pattern *)
| CConv (fn : Z) (args : list jv) (obs : Z) (nconv : Z)  (* every argument an object that logs its valueOf call *)
| CRel (id : Z) (args : list Z) (obs : Z)                (* identity / inverse pair / anchor value *)
| CMono (fn x1 x2 o1 o2 : Z)                             (* monotonicity on a pair of arguments *)
| CRandom (obs : list Z)
| CConst (id obs : Z)                                    (* 15.8.1 value properties *)
| CIsNum (which : Z) (args : list jv) (obs : Z)          (* 0 isNaN, 1 isFinite; obs 0/1 *)
| CStr (fns : list Z) (input : list Z) (obs : Z * list Z)
| CThrow (fn : Z) (vals : list Z) (k kind : Z) (obs : Z * Z)
| CSlope (fn x1 x2 o1 o2 : Z)                            (* local slope between two close arguments *)
| CCount (fn : Z) (vals : list Z) (obs : Z)
  (* fn (Math id or 100.. as for CThrow) called with |vals| arguments, each an object that logs its
     conversion (valueOf for ToNumber, toString for ToString) and yields vals[i]: obs = how many
     conversions ran, provided they ran once each, left to right (else a negative marker).
     15.8.2 / 15.1.2-3: ToNumber / ToString is applied once to each argument the function uses. *)
| CStrId (fns : list Z) (input : list Z) (ctx : Z) (obs : Z * Z)
| CThrowId (fn : Z) (vals : list Z) (k kind ctx : Z) (obs : Z * Z).
  (* class IDENTITY of the error a call raises, in runtime ctx (0 a fresh runtime, 1 a Copy() of a
     runtime that has raised such errors, 2 a copy of that copy, 3 a copy whose original had its
     error prototypes tampered with afterwards).  obs = (id, ok): id = 0 nothing thrown; 1..7 the
     thrown value e satisfies, for the RUNNING runtime's own constructor C of that class (1 Error
     2 EvalError 3 RangeError 4 ReferenceError 5 SyntaxError 6 TypeError 7 URIError), all of
     e instanceof C, Object.getPrototypeOf(e) === C.prototype, e.constructor === C; 8 thrown but
     no constructor of the running runtime matches.  ok = 1 iff e.name is the class name,
     e instanceof Error, [[Class]] is "Error" and nothing of the tamper is visible.  15.11.7:
     a native error is an instance of the NativeError constructor of the current global object. *)
  (* fns applied left to right: 0 encodeURI 1 encodeURIComponent 2 decodeURI
     3 decodeURIComponent 4 escape 5 unescape; obs = (error class, result units) *)

Definition b2z (b : bool) : Z := if b then 1 else 0.
Definition ob2z (b : option bool) : Z := match b with Some true => 1 | Some false => 0 | None => -1 end.
Definition zz_eqb (a b : Z * Z) : bool := (fst a =? fst b) && (snd a =? snd b).
Definition res_eqb (a b : Z * list Z) : bool := (fst a =? fst b) && zlist_eqb (snd a) (snd b).

Definition apply_spec (fn : Z) (l : list Z) : option (list Z) :=
  if fn =? 0 then encodeURI_spec l
  else if fn =? 1 then encodeURIComponent_spec l
  else if fn =? 2 then decodeURI_spec l
  else if fn =? 3 then decodeURIComponent_spec l
  else if fn =? 4 then Some (escape_spec l)
  else Some (unescape_spec l).

Definition apply_model (fn : Z) (l : list Z) : option (list Z) :=
  if fn =? 0 then encode_model keep_uri l
  else if fn =? 1 then encode_model keep_comp l
  else if fn =? 2 then decode_model true l
  else if fn =? 3 then decode_model false l
  else if fn =? 4 then Some (escape_model l)
  else Some (unescape_model l).

Fixpoint chain (ap : Z -> list Z -> option (list Z)) (fns : list Z) (l : list Z) : Z * list Z :=
  match fns with
  | [] => (0, l)
  | f :: r => match ap f l with None => (7, []) | Some l' => chain ap r l' end
  end.

(* finding class of one string call whose model and spec results differ *)
Definition str_class (fn : Z) (l : list Z) : Z :=
  if negb (well_formed l) then 8
  else if fn =? 4 then 5
  else if fn =? 5 then 8   (* an unpaired surrogate escape: the result would hold a lone surrogate *)
  else 0.

Fixpoint chain_class (fns : list Z) (l : list Z) : Z :=
  match fns with
  | [] => 0
  | f :: r =>
      match apply_model f l, apply_spec f l with
      | Some a, Some b => if zlist_eqb a b then chain_class r a else str_class f l
      | None, None => 0
      | _, _ => str_class f l
      end
  end.

(* CThrow: fn (Math id, or 100 isNaN 101 isFinite 102 parseInt 103 parseFloat 104 escape
   105 unescape 106 encodeURI 107 encodeURIComponent 108 decodeURI 109 decodeURIComponent)
   is called with |vals| arguments; argument k is an object whose conversion throws
   (kind), the others log their conversion and yield vals[i].  obs = (error class, number
   of logged conversions).  9.1 / 8.12.8: ToNumber tries valueOf then toString, ToString
   toString then valueOf; the abrupt completion propagates, conversions run left to right.
   kinds: 0 toString throws RangeError; 1 Object.create(null); 2 valueOf returns an object,
   toString throws RangeError; 3 both return objects (TypeError); 4 valueOf throws
   RangeError, toString throws EvalError *)
Definition string_hint (fn k : Z) : bool := (103 <=? fn) || ((fn =? 102) && (k =? 0)).
Definition thrown_class (fn k kind : Z) : Z :=
  if kind =? 0 then 3 else if kind =? 1 then 6 else if kind =? 2 then 3 else if kind =? 3 then 6
  else if string_hint fn k then 2 else 3.
Definition throw_expect (fn k kind conv : Z) : Z * Z :=
  if k <? conv then (thrown_class fn k kind, k) else (0, conv).

Definition verdict (c : case) : Z * Z :=
  match c with
  | CMath fn args obs =>
      match to_numbers args with
      | None => declined
      | Some bs =>
          judge Z.eqb obs (if math_model fn bs obs then obs else -1)
                (if math_spec fn bs obs then obs else -2) (math_class fn bs)
      end
  | CConv fn args obs nconv =>
      match to_numbers args with
      | None => declined
      | Some bs =>
          judge zz_eqb (obs, nconv)
                ((if math_model fn bs obs then obs else -1), conv_model fn bs)
                ((if math_spec fn bs obs then obs else -2), conv_spec fn bs)
                (if conv_model fn bs =? conv_spec fn bs then math_class fn bs else 10)
      end
  | CRel id args obs =>
      match rel_spec id args obs with
      | Some b => judge Bool.eqb b true true 0
      | None => declined
      end
  | CMono fn x1 x2 o1 o2 =>
      match mono_spec fn x1 x2 o1 o2 with
      | Some b => judge Bool.eqb b true true 0
      | None => declined
      end
  | CRandom obs => judge Bool.eqb (random_spec obs) true true 0
  | CConst id obs => judge Z.eqb obs (math_const id) (math_const id) 0
  | CIsNum which args obs =>
      let s := if which =? 0 then isNaN_spec args else isFinite_spec args in
      match s with
      | None => declined
      | Some b => judge Z.eqb obs (b2z b) (b2z b) 0
      end
  | CStr fns input obs =>
      judge res_eqb obs (chain apply_model fns input) (chain apply_spec fns input) (chain_class fns input)
  | CSlope fn x1 x2 o1 o2 =>
      match slope_spec fn x1 x2 o1 o2 with
      | Some b => judge Bool.eqb b true true 0
      | None => declined
      end
  | CCount fn vals obs => judge Z.eqb obs (conv_model fn vals) (conv_spec fn vals) 10
  | CStrId fns input _ obs =>
      judge zz_eqb obs (fst (chain apply_model fns input), 1) (fst (chain apply_spec fns input), 1)
            (chain_class fns input)
  | CThrowId fn vals k kind _ obs =>
      judge zz_eqb obs (fst (throw_expect fn k kind (conv_model fn vals)), 1)
            (fst (throw_expect fn k kind (conv_spec fn vals)), 1) 10
  | CThrow fn vals k kind obs =>
      judge zz_eqb obs (throw_expect fn k kind (conv_model fn vals)) (throw_expect fn k kind (conv_spec fn vals)) 10
  end.
