(* otto's String.prototype implementation (builtin_string.go, type_string.go,
   otto_.go range helpers, value_number.go number()), transcribed with the
   units it really uses: a string is a Go string (here: its runes, [enc8]
   gives the bytes), positions are Go int64, and each method converts between
   bytes, runes and UTF-16 units the way the Go code does. *)
From Coq Require Import ZArith List Bool Lia.
From Otto Require Import Common.Corr Common.Double C09.Utf C09.Spec.
Import ListNotations.
Open Scope Z_scope.

Definition gostr := list Z.          (* the runes of a Go string *)

Definition max64 : Z := 2 ^ 63 - 1.
Definition min64 : Z := - 2 ^ 63.
Definition wrap64 (z : Z) : Z := (z + 2 ^ 63) mod 2 ^ 64 - 2 ^ 63.

(* ---------- value_number.go ---------- *)
(* Value.number(): is the kind numberNaN or +Infinity (what lastIndexOf asks), and the saturated int64 *)
Definition number_bits (bits : Z) : bool * Z :=
  match decode bits with
  | DNaN => (true, 0)
  | DInf neg => (negb neg, if neg then min64 else max64)
  | DFin neg m e =>
      let t := trunc_mag m e in
      let v := if neg then - t else t in
      if 2 ^ 63 <=? v then (false, max64)
      else if v <=? - 2 ^ 63 then (false, min64)
      else (false, v)
  end.
Definition number (a : arg) : option (bool * Z) := option_map number_bits (to_number a).
Definition int64_of (a : arg) : option Z := option_map snd (number a).

(* toUint32 / toUint16: uintN(int64(math.Mod(f, 2^32))); math.Mod is exact and keeps the sign,
   so this is the truncated value modulo 2^k *)
Definition go_uint (k : Z) (a : arg) : option Z :=
  match to_number a with
  | None => None
  | Some bits =>
      match decode bits with
      | DFin neg m e =>
          let t := trunc_mag m e in
          Some ((if neg then - t else t) mod 2 ^ k)
      | _ => Some 0
      end
  end.

(* ---------- type_string.go ---------- *)
(* stringAt: None is the utf8.RuneError sentinel (out of range -- or a genuine U+FFFD) *)
Definition string_at (s : gostr) (idx : Z) : option Z :=
  let u := enc16 s in
  if (0 <=? idx) && (idx <? zlen u)
  then (let c := unit_at u idx in if c =? 0xFFFD then None else Some c)
  else None.
(* Go's string(rune) *)
Definition rune_string (c : Z) : gostr := [if valid_rune c then c else 0xFFFD].

Definition s_global : str :=   (* "[object environment]": undefined this is replaced by the global object *)
  [91;111;98;106;101;99;116;32;101;110;118;105;114;111;110;109;101;110;116;93].

(* checkObjectCoercible(call.This) then call.This.string() *)
Definition this_gostring (m : meth) (r : recv) : option gostr :=
  match r with
  | RLit u | RCallStr u | RStrObj u | RObj u => Some (dec16 u)
  | RNumR n => Some (int_text n)
  | RBoolR b => Some (if b then s_true else s_false)
  | RUndef => Some s_global
  | RNull => None
  end.

Definition arg_gostring (a : arg) : option gostr := option_map dec16 (to_string a).

(* ---------- builtin_string.go ---------- *)
(* stringAt(newStringObject(call.This.string()), idx) *)
Definition m_charAt (s : gostr) (idx : Z) (code : bool) : res :=
  match string_at s idx with
  | None => if code then VNaN else VStr []
  | Some c => if code then VInt c else VStr (enc16 (rune_string c))
  end.

Definition indexRune (v t : list Z) : Z :=
  match find_from t v with Some i => utf16Length (firstn (Z.to_nat i) v) | None => -1 end.
Definition lastIndexRune (v t : list Z) : Z :=
  match find_last t v with Some i => utf16Length (firstn (Z.to_nat i) v) | None => -1 end.

Definition is_nil {A} (l : list A) : bool := match l with [] => true | _ => false end.

Definition m_indexOf (s t : gostr) (nargs : nat) (a1 : arg) : option res :=
  let v := enc8 s in
  let tb := enc8 t in
  if (nargs <? 2)%nat then Some (VInt (indexRune v tb)) else
  match to_integer a1 with
  | None => None
  | Some p =>
      let from (st : Z) :=
        let i := indexRune (skipn (Z.to_nat st) v) tb in
        VInt (if 0 <=? i then i + st else i) in
      Some (match p with
            | NInf => from 0
            | PInf => if is_nil tb then VInt (zlen v) else VInt (-1)
            | Fin z => if z <? 0 then from 0
                       else if zlen v <=? z then (if is_nil tb then VInt (zlen v) else VInt (-1))
                       else from z
            end)
  end.

Definition m_lastIndexOf (s t : gostr) (nargs : nat) (a1 : arg) : option res :=
  let v := enc8 s in
  let tb := enc8 t in
  let whole := Some (VInt (lastIndexRune v tb)) in
  if (nargs <? 2)%nat then whole else
  match a1 with
  | AUndef => whole
  | _ =>
    if zlen v =? 0 then whole else
    match number a1 with
    | None => None
    | Some (whole_string, n) =>
        if whole_string then whole else   (* NaN and +Infinity: search from the end (after ea386ab) *)
        let st := if n <? 0 then 0 else n in
        let st := if zlen v <? st then zlen v else st in      (* clamped to the byte length *)
        let e := st + zlen tb in
        let e := if zlen v <? e then zlen v else e in
        Some (VInt (lastIndexRune (firstn (Z.to_nat e) v) tb))
    end
  end.

(* otto_.go valueToRangeIndex *)
Definition range_index (index length : Z) (negz : bool) : Z :=
  if negz then
    (let i := if index <? 0 then 0 else index in if length <=? i then length else i)
  else if index <? 0 then (let i := index + length in if i <? 0 then 0 else i)
  else if length <? index then length else index.

Definition range_start_end (args : list arg) (size : Z) (negz : bool) : option (Z * Z) :=
  match int64_of (arg_at args 0) with
  | None => None
  | Some i0 =>
      let st := range_index i0 size negz in
      if (length args =? 1)%nat then Some (st, size) else
      match arg_at args 1 with
      | AUndef => Some (st, size)
      | a => match int64_of a with Some i1 => Some (st, range_index i1 size negz) | None => None end
      end
  end.

Definition rsub (s : gostr) (from to : Z) : gostr := sub s from to.

Definition m_slice (s : gostr) (args : list arg) : option res :=
  match range_start_end args (zlen s) false with
  | None => None
  | Some (st, en) => Some (VStr (enc16 (if en - st <=? 0 then [] else rsub s st en)))
  end.
Definition m_substring (s : gostr) (args : list arg) : option res :=
  match range_start_end args (zlen s) true with
  | None => None
  | Some (st, en) =>
      let '(st, en) := if en <? st then (en, st) else (st, en) in
      Some (VStr (enc16 (rsub s st en)))
  end.
Definition m_substr (s : gostr) (args : list arg) : option res :=
  let size := zlen s in
  match int64_of (arg_at args 0) with
  | None => None
  | Some i0 =>
      let st := range_index i0 size false in
      let ln := if (length args =? 1)%nat then Some size else
                match arg_at args 1 with
                | AUndef => Some size
                | a => int64_of a
                end in
      match ln with
      | None => None
      | Some ln =>
          if size <=? st then Some (VStr [])
          else if ln <=? 0 then Some (VStr [])
          else
            if size - st <=? ln then Some (VStr (enc16 (rsub s st size)))
            else Some (VStr (enc16 (rsub s st (st + ln))))
      end
  end.

(* strings.SplitN for a non-empty separator, over bytes; n < 0 means no limit *)
Fixpoint splitn (fuel : nat) (s sep : list Z) (n : Z) : list (list Z) :=
  match fuel with
  | O => [s]
  | S f =>
      if n =? 1 then [s] else
      match find_from sep s with
      | None => [s]
      | Some i => firstn (Z.to_nat i) s :: splitn f (skipn (Z.to_nat (i + zlen sep)) s) sep (n - 1)
      end
  end.
(* strings.explode: one piece per rune, the n-th piece takes the rest *)
Fixpoint explode (s : gostr) (n : Z) : list gostr :=
  match s with
  | [] => []
  | c :: s' => if n =? 1 then [s] else [c] :: explode s' (n - 1)
  end.

Definition m_split (s : gostr) (args : list arg) : option res :=
  let lim := match arg_at args 1 with AUndef => Some (-1) | a => go_uint 32 a end in
  match lim with
  | None => None
  | Some limit =>
      if limit =? 0 then Some (VList []) else
      match arg_at args 0 with
      | AUndef => Some (VList [enc16 s])
      | a =>
          match arg_gostring a with
          | None => None
          | Some sep =>
              let n := if 0 <? limit then limit + 1 else -1 in
              let pieces :=
                if is_nil sep then explode s n
                else map dec8 (splitn (S (length (enc8 s))) (enc8 s) (enc8 sep) n) in
              let pieces := if (0 <? limit) && (limit <? zlen pieces) then firstn (Z.to_nat limit) pieces else pieces in
              Some (VList (map enc16 pieces))
          end
      end
  end.

Definition m_concat (s : gostr) (args : list arg) : option res :=
  option_map (fun r => VStr (enc16 r))
    (fold_left (fun acc a => match acc, arg_gostring a with Some x, Some y => Some (x ++ y) | _, _ => None end)
               args (Some s)).

(* builtinStringTrimWhitespace, rune by rune *)
Definition otto_trim_set : list Z :=
  [0x9; 0xA; 0xB; 0xC; 0xD; 0x20; 0xA0; 0x1680; 0x180E; 0x2000; 0x2001; 0x2002; 0x2003; 0x2004;
   0x2005; 0x2006; 0x2007; 0x2008; 0x2009; 0x200A; 0x2028; 0x2029; 0x202F; 0x205F; 0x3000; 0xFEFF].
Definition in_trim_set (c : Z) : bool := existsb (Z.eqb c) otto_trim_set.
Definition m_trim (s : gostr) : gostr :=
  rev (drop_while in_trim_set (rev (drop_while in_trim_set s))).

(* strconv.ParseInt(name, 10, 64) as used by stringToArrayIndex *)
Definition parse_int_go (p : str) : option Z :=
  match p with
  | [] => None
  | c :: r =>
      let '(neg, ds) := if c =? 43 then (false, r) else if c =? 45 then (true, r) else (false, p) in
      if is_nil ds then None
      else if all_digits ds then
        let v := dec_value ds 0 in
        let v := if neg then - v else v in
        if (min64 <=? v) && (v <=? max64) then Some v else None
      else None
  end.
Definition string_to_array_index (p : str) : Z :=
  match parse_int_go p with
  | Some i => if i <? 0 then -1 else if 4294967295 <=? i then -1
              else if list_eqb Z.eqb (int_text i) p then i else -1     (* strconv.FormatInt(index, 10) != name *)
  | None => -1
  end.
(* stringGetOwnProperty after 66edf49: the index is tested against the length, not the rune *)
Definition m_index_at (s : gostr) (i : Z) : res :=
  let u := enc16 s in
  if (0 <=? i) && (i <? zlen u) then VStr (enc16 (rune_string (unit_at u i))) else VUndef.
Definition m_index (s : gostr) (p : str) : res := m_index_at s (string_to_array_index p).

Definition m_localeCompare (a b : str) : Z := cmp_list (enc8 (dec16 a)) (enc8 (dec16 b)).

(* string16Value(chrList) observed through Value.string() *)
Fixpoint m_fromCharCode_units (args : list arg) : option str :=
  match args with
  | [] => Some []
  | a :: r => match go_uint 16 a, m_fromCharCode_units r with Some u, Some t => Some (u :: t) | _, _ => None end
  end.
Definition m_fromCharCode (args : list arg) : option str :=
  option_map (fun u => enc16 (dec16 u)) (m_fromCharCode_units args).

(* ---------- one call ---------- *)
Definition call_model (m : meth) (r : recv) (args : list arg) : option res :=
  match m with
  | MCharAt | MCharCodeAt =>
      let code := match m with MCharCodeAt => true | _ => false end in
      match this_gostring m r with
      | None => Some (VErr 6)
      | Some s => option_map (fun i => m_charAt s i code) (int64_of (arg_at args 0))
      end
  | _ =>
    match this_gostring m r with
    | None => Some (VErr 6)
    | Some s =>
        match m with
        | MIndexOf =>
            match arg_gostring (arg_at args 0) with
            | Some t => m_indexOf s t (length args) (arg_at args 1)
            | None => None
            end
        | MLastIndexOf =>
            match arg_gostring (arg_at args 0) with
            | Some t => m_lastIndexOf s t (length args) (arg_at args 1)
            | None => None
            end
        | MSlice => m_slice s args
        | MSubstring => m_substring s args
        | MSubstr => m_substr s args
        | MSplit => m_split s args
        | MConcat => m_concat s args
        | MTrim => Some (VStr (enc16 (m_trim s)))
        | MToLower => option_map (fun x => VStr (enc16 x)) (map_opt lower1 s)
        | MToUpper => option_map (fun x => VStr (enc16 x)) (map_opt upper1 s)
        | MLocaleCompare =>    (* this < that / this == that on the Go strings *)
            option_map (fun t => VInt (cmp_list (enc8 s) (enc8 t))) (arg_gostring (arg_at args 0))
        | MLength =>
            match r with RLit _ | RStrObj _ => Some (VInt (zlen (enc16 s))) | _ => None end
        | MIndex =>
            match r, arg_at args 0 with
            | (RLit _ | RStrObj _), AStr p => Some (m_index s p)
            | _, _ => None
            end
        | _ => None
        end
    end
  end.

(* ---------- the order in which builtin_string.go converts its arguments ---------- *)
(* Same as ES5 except: split returns before converting the separator when the limit is 0,
   lastIndexOf returns before converting the position when the receiver is empty, and
   charAt / charCodeAt convert the position before ToString(this) ([this_last_model]). *)
Definition this_last_model (m : meth) : bool :=
  match m with MCharAt | MCharCodeAt => true | _ => false end.
Definition plan_model (m : meth) (this : str) (eargs : list earg) : list (nat * conv) :=
  match m with
  | MLastIndexOf =>
      (0%nat, KS) ::
      (if (length eargs <? 2)%nat || e_undef (earg_at eargs 1) || is_nil this then [] else [(1%nat, KN)])
  | MSplit =>
      let lim0 :=
        match earg_at eargs 1 with
        | EPlain AUndef => false
        | EPlain a => match go_uint 32 a with Some 0 => true | _ => false end
        | EObj _ _ nb _ _ => match go_uint 32 (ANum nb) with Some 0 => true | _ => false end
        end in
      (if e_undef (earg_at eargs 1) then [] else [(1%nat, KN)]) ++
      (if lim0 || e_undef (earg_at eargs 0) then [] else [(0%nat, KS)])
  | _ => plan_spec m eargs
  end.
