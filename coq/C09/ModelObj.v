(* otto's String objects (type_string.go stringGetOwnProperty / stringEnumerate with the ordinary
   objectDefineOwnProperty, objectPut, objectDelete of object_class.go): the same lookups as
   ES5 15.5.5.2, but [[DefineOwnProperty]] consults only the property map, so a definition on an
   in-range index creates an ordinary property that then hides the code unit. *)
From Coq Require Import ZArith List Bool.
From Otto Require Import C09.Utf C09.Spec C09.SpecObj.
Import ListNotations.
Open Scope Z_scope.

Definition define_model (u : str) (st : ostate) (l : lvl) (k : Z) (d : ddesc) : option (ostate * bool) :=
  match lookup k (map_of st l) with
  | Some _ => None
  | None => Some (with_map st l (map_of st l ++ [(k, fresh_prop d)]), false)
  end.

(* stringEnumerate: every index below the length, then the property map *)
Definition own_keys_model (u : str) (st : ostate) (only_enum : bool) : list Z :=
  sort (iota (length u) 0 ++
        map fst (filter (fun kp => negb only_enum || is_enum (snd kp)) (m_s st))).
