(* UTF-16 and UTF-8 codecs exactly as otto applies them per call:
   - dec16  = Go's utf16.Decode   (lone surrogates become U+FFFD)
   - enc16  = Go's utf16.Encode
   - enc8   = Go's string([]rune)  (utf8.AppendRune)
   - dec8   = Go's []rune(string)  (utf8.DecodeRuneInString; every byte that
              does not start a valid sequence becomes one U+FFFD)
   Code units, runes and bytes are plain Z. *)
From Coq Require Import ZArith List Bool Lia.
Import ListNotations.
Open Scope Z_scope.

Definition is_hi (u : Z) : bool := (0xD800 <=? u) && (u <=? 0xDBFF).
Definition is_lo (u : Z) : bool := (0xDC00 <=? u) && (u <=? 0xDFFF).
Definition is_sur (u : Z) : bool := (0xD800 <=? u) && (u <=? 0xDFFF).

Definition pair16 (a b : Z) : Z := 0x10000 + (a - 0xD800) * 0x400 + (b - 0xDC00).

Fixpoint dec16 (u : list Z) : list Z :=
  match u with
  | [] => []
  | a :: t =>
      if is_hi a then
        match t with
        | b :: t' => if is_lo b then pair16 a b :: dec16 t' else 0xFFFD :: dec16 t
        | [] => [0xFFFD]
        end
      else if is_lo a then 0xFFFD :: dec16 t
      else a :: dec16 t
  end.

(* a rune that utf16.Encode / utf8.AppendRune accept as is *)
Definition valid_rune (r : Z) : bool :=
  (0 <=? r) && (r <=? 0x10FFFF) && negb (is_sur r).

Definition enc16_1 (r : Z) : list Z :=
  if valid_rune r then
    if r <? 0x10000 then [r]
    else [0xD800 + (r - 0x10000) / 0x400; 0xDC00 + (r - 0x10000) mod 0x400]
  else [0xFFFD].

Definition enc16 (s : list Z) : list Z := flat_map enc16_1 s.

Definition enc8_1 (r0 : Z) : list Z :=
  let r := if valid_rune r0 then r0 else 0xFFFD in
  if r <? 0x80 then [r]
  else if r <? 0x800 then [0xC0 + r / 64; 0x80 + r mod 64]
  else if r <? 0x10000 then [0xE0 + r / 4096; 0x80 + (r / 64) mod 64; 0x80 + r mod 64]
  else [0xF0 + r / 262144; 0x80 + (r / 4096) mod 64; 0x80 + (r / 64) mod 64; 0x80 + r mod 64].

Definition enc8 (s : list Z) : list Z := flat_map enc8_1 s.

Definition is_cont (b : Z) : bool := (0x80 <=? b) && (b <=? 0xBF).

(* acceptance of a 2-, 3-, 4-byte sequence (Go's first[]/acceptRanges tables) *)
Definition ok2 (b0 b1 : Z) : bool := (0xC2 <=? b0) && (b0 <=? 0xDF) && is_cont b1.
Definition ok3 (b0 b1 b2 : Z) : bool :=
  (0xE0 <=? b0) && (b0 <=? 0xEF) && is_cont b2 &&
  (if b0 =? 0xE0 then (0xA0 <=? b1) && (b1 <=? 0xBF)
   else if b0 =? 0xED then (0x80 <=? b1) && (b1 <=? 0x9F)
   else is_cont b1).
Definition ok4 (b0 b1 b2 b3 : Z) : bool :=
  (0xF0 <=? b0) && (b0 <=? 0xF4) && is_cont b2 && is_cont b3 &&
  (if b0 =? 0xF0 then (0x90 <=? b1) && (b1 <=? 0xBF)
   else if b0 =? 0xF4 then (0x80 <=? b1) && (b1 <=? 0x8F)
   else is_cont b1).
Definition r2 (b0 b1 : Z) : Z := (b0 - 0xC0) * 64 + (b1 - 0x80).
Definition r3 (b0 b1 b2 : Z) : Z := (b0 - 0xE0) * 4096 + (b1 - 0x80) * 64 + (b2 - 0x80).
Definition r4 (b0 b1 b2 b3 : Z) : Z :=
  (b0 - 0xF0) * 262144 + (b1 - 0x80) * 4096 + (b2 - 0x80) * 64 + (b3 - 0x80).

Fixpoint dec8 (b : list Z) : list Z :=
  match b with
  | [] => []
  | b0 :: t0 =>
      if b0 <? 0x80 then b0 :: dec8 t0 else
      match t0 with
      | b1 :: t1 =>
          if ok2 b0 b1 then r2 b0 b1 :: dec8 t1 else
          match t1 with
          | b2 :: t2 =>
              if ok3 b0 b1 b2 then r3 b0 b1 b2 :: dec8 t2 else
              match t2 with
              | b3 :: t3 => if ok4 b0 b1 b2 b3 then r4 b0 b1 b2 b3 :: dec8 t3 else 0xFFFD :: dec8 t0
              | [] => 0xFFFD :: dec8 t0
              end
          | [] => 0xFFFD :: dec8 t0
          end
      | [] => [0xFFFD]
      end
  end.

Definition zlen {A} (l : list A) : Z := Z.of_nat (length l).

(* otto's utf16Length: number of UTF-16 units of a Go string given as bytes *)
Definition utf16Length (b : list Z) : Z := zlen (enc16 (dec8 b)).

(* no surrogate units: UTF-16 decoding is the identity there *)
Definition bmp_clean (u : list Z) : Prop :=
  Forall (fun x => 0 <= x < 0x10000 /\ is_sur x = false) u.
Definition ascii (u : list Z) : Prop := Forall (fun x => 0 <= x < 0x80) u.
Definition scalars (s : list Z) : Prop := Forall (fun r => valid_rune r = true) s.
