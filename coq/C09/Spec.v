(* ES5 15.5 (String) transcribed over lists of UTF-16 code units.
   Positions are extended integers (ToInteger can give +-Infinity); every
   clamp is written as in the standard. *)
From Coq Require Import ZArith List Bool Lia.
From Otto Require Import Common.Double C09.Utf.
Import ListNotations.
Open Scope Z_scope.

Definition str := list Z.

(* ---------- values crossing the harness ---------- *)
Inductive arg :=
| AUndef | ANull | ABool (b : bool) | ANum (bits : Z) | AStr (u : str).

Inductive recv :=
| RLit (u : str)       (* member call on a primitive string:  (s).m(args)            *)
| RCallStr (u : str)   (* String.prototype.m.call(s, args), s a primitive string      *)
| RStrObj (u : str)    (* String.prototype.m.call(new String(s), args)                *)
| RNumR (n : Z)        (* String.prototype.m.call(n, args), n an integer              *)
| RBoolR (b : bool)
| RObj (u : str)       (* receiver {toString: function(){return s}}                  *)
| RUndef | RNull.

Inductive res :=
| VStr (u : str) | VInt (z : Z) | VNaN | VUndef | VList (l : list str)
| VErr (cls : Z).      (* lib.ErrClass: 6 = TypeError, 9 = Go panic escaped the API *)

Inductive meth :=
| MCharAt | MCharCodeAt | MIndexOf | MLastIndexOf | MSlice | MSubstring | MSubstr
| MSplit | MConcat | MTrim | MToLower | MToUpper | MLocaleCompare | MLength | MIndex.

(* ---------- extended integers ---------- *)
Inductive ext := NInf | Fin (z : Z) | PInf.

Definition ext_max (a b : ext) : ext :=
  match a, b with
  | PInf, _ | _, PInf => PInf
  | NInf, x | x, NInf => x
  | Fin x, Fin y => Fin (Z.max x y)
  end.
Definition ext_min (a b : ext) : ext :=
  match a, b with
  | NInf, _ | _, NInf => NInf
  | PInf, x | x, PInf => x
  | Fin x, Fin y => Fin (Z.min x y)
  end.
(* min(max(p, 0), len) as an ordinary integer *)
Definition clamp (p : ext) (len : Z) : Z :=
  match ext_min (ext_max p (Fin 0)) (Fin len) with Fin z => z | _ => 0 end.
Definition ext_ltb0 (p : ext) : bool :=
  match p with NInf => true | Fin z => z <? 0 | PInf => false end.
(* p < 0 ? max(len + p, 0) : min(p, len)   (15.5.4.13 steps 6, 7) *)
Definition rel_index (p : ext) (len : Z) : Z :=
  match p with
  | NInf => 0
  | PInf => len
  | Fin z => if z <? 0 then Z.max (len + z) 0 else Z.min z len
  end.

(* ---------- 9.3 / 9.4 / 9.6 / 9.7 on the argument forms we generate ---------- *)
Definition one_bits : Z := 0x3FF0000000000000.
Definition to_number (a : arg) : option Z :=
  match a with
  | AUndef => Some nan_bits
  | ANull => Some 0
  | ABool b => Some (if b then one_bits else 0)
  | ANum bits => Some bits
  | AStr _ => None
  end.
Definition to_integer_bits (bits : Z) : ext :=
  match decode bits with
  | DNaN => Fin 0
  | DInf neg => if neg then NInf else PInf
  | DFin neg m e => Fin (if neg then - trunc_mag m e else trunc_mag m e)
  end.
Definition is_nan_bits (bits : Z) : bool :=
  match decode bits with DNaN => true | _ => false end.
Definition to_integer (a : arg) : option ext := option_map to_integer_bits (to_number a).
Definition to_uint (k : Z) (a : arg) : option Z :=
  match to_integer a with
  | Some (Fin z) => Some (z mod 2 ^ k)
  | Some _ => Some 0
  | None => None
  end.

(* ---------- text constants ---------- *)
Definition s_undefined : str := [117;110;100;101;102;105;110;101;100].
Definition s_null : str := [110;117;108;108].
Definition s_true : str := [116;114;117;101].
Definition s_false : str := [102;97;108;115;101].
Definition s_NaN : str := [78;97;78].
Definition s_Infinity : str := [73;110;102;105;110;105;116;121].

Fixpoint digits (fuel : nat) (n : Z) (acc : str) : str :=
  match fuel with
  | O => acc
  | S f => if n <? 10 then (48 + n) :: acc else digits f (n / 10) ((48 + n mod 10) :: acc)
  end.
Definition int_text (n : Z) : str :=
  if n <? 0 then 45 :: digits 25 (- n) [] else digits 25 n [].

(* 9.8 ToString, on integers below 10^21 and the non-numeric forms *)
Definition to_string (a : arg) : option str :=
  match a with
  | AStr u => Some u
  | AUndef => Some s_undefined
  | ANull => Some s_null
  | ABool b => Some (if b then s_true else s_false)
  | ANum bits =>
      match decode bits with
      | DNaN => Some s_NaN
      | DInf neg => Some (if neg then 45 :: s_Infinity else s_Infinity)
      | DFin _ _ _ =>
          match int_of_bits bits with
          | Some n => if Z.abs n <? 10 ^ 21 then Some (int_text n) else None
          | None => None
          end
      end
  end.

(* 9.10 CheckObjectCoercible + 9.8 ToString of the this value *)
Definition this_string (r : recv) : option str :=
  match r with
  | RLit u | RCallStr u | RStrObj u | RObj u => Some u
  | RNumR n => Some (int_text n)
  | RBoolR b => Some (if b then s_true else s_false)
  | RUndef | RNull => None
  end.

Definition arg_at (args : list arg) (i : nat) : arg := nth i args AUndef.

(* ---------- list helpers over Z positions ---------- *)
Definition sub (s : str) (from to : Z) : str :=   (* units from <= k < to *)
  firstn (Z.to_nat (to - from)) (skipn (Z.to_nat from) s).
Definition unit_at (s : str) (k : Z) : Z := nth (Z.to_nat k) s 0.

Fixpoint prefixb (p s : str) : bool :=
  match p, s with
  | [], _ => true
  | x :: p', y :: s' => (x =? y) && prefixb p' s'
  | _ :: _, [] => false
  end.

(* least k >= 0 with p a prefix of (skipn k s) *)
Fixpoint find_from (p s : str) : option Z :=
  if prefixb p s then Some 0 else
  match s with
  | [] => None
  | _ :: s' => option_map Z.succ (find_from p s')
  end.

(* greatest such k *)
Fixpoint find_last (p s : str) : option Z :=
  match s with
  | [] => if prefixb p [] then Some 0 else None
  | _ :: s' =>
      match find_last p s' with
      | Some k => Some (k + 1)
      | None => if prefixb p s then Some 0 else None
      end
  end.

(* ---------- 15.5.4.4 / .5 ---------- *)
Definition charAt (s : str) (p : ext) : str :=
  match p with
  | Fin z => if (0 <=? z) && (z <? zlen s) then [unit_at s z] else []
  | _ => []
  end.
Definition charCodeAt (s : str) (p : ext) : res :=
  match p with
  | Fin z => if (0 <=? z) && (z <? zlen s) then VInt (unit_at s z) else VNaN
  | _ => VNaN
  end.

(* ---------- 15.5.4.7 / .8 ---------- *)
Definition indexOf (s t : str) (p : ext) : Z :=
  let start := clamp p (zlen s) in
  match find_from t (skipn (Z.to_nat start) s) with
  | Some k => start + k
  | None => -1
  end.
(* p is ToInteger(pos), or +Infinity when ToNumber(pos) is NaN *)
Definition lastIndexOf (s t : str) (p : ext) : Z :=
  let start := clamp p (zlen s) in
  match find_last t (firstn (Z.to_nat (start + zlen t)) s) with
  | Some k => k
  | None => -1
  end.

(* ---------- 15.5.4.13 / .15 / B.2.3 ---------- *)
Definition slice (s : str) (st : ext) (en : option ext) : str :=
  let len := zlen s in
  let from := rel_index st len in
  let to := match en with None => len | Some e => rel_index e len end in
  sub s from (from + Z.max (to - from) 0).
Definition substring (s : str) (st : ext) (en : option ext) : str :=
  let len := zlen s in
  let a := clamp st len in
  let b := match en with None => len | Some e => clamp e len end in
  sub s (Z.min a b) (Z.max a b).
Definition substr (s : str) (st : ext) (ln : option ext) : str :=
  let size := zlen s in
  let from := rel_index st size in        (* step 5; for st >= 0 the standard keeps st, and min(st,size) gives the same result *)
  let l := match ln with None => PInf | Some l => l end in
  match ext_min (ext_max l (Fin 0)) (Fin (size - from)) with
  | Fin k => if k <=? 0 then [] else sub s from (from + k)
  | _ => []
  end.

(* ---------- 15.5.4.14 with a string separator ---------- *)
(* SplitMatch(S, q, R) for a string R: Some (q + |R|) or failure *)
Definition split_match (s : str) (q : Z) (r : str) : option Z :=
  if prefixb r (skipn (Z.to_nat q) s) then Some (q + zlen r) else None.

(* steps 13: p, q walk over S; fuel = remaining distance s - q *)
Fixpoint split_loop (fuel : nat) (s r : str) (p q : Z) (lim : Z) (acc : list str) : list str :=
  match fuel with
  | O => rev (sub s p (zlen s) :: acc)
  | S f =>
      if zlen s <=? q then rev (sub s p (zlen s) :: acc) else
      match split_match s q r with
      | None => split_loop f s r p (q + 1) lim acc
      | Some e =>
          if e =? p then split_loop f s r p (q + 1) lim acc
          else
            let acc' := sub s p q :: acc in
            if zlen acc' =? lim then rev acc'
            else split_loop f s r e e lim acc'
      end
  end.

Definition split (s : str) (sep : option str) (lim : Z) : list str :=
  if lim =? 0 then [] else
  match sep with
  | None => [s]
  | Some r =>
      match s with
      | [] => match split_match s 0 r with Some _ => [] | None => [s] end
      | _ => split_loop (S (length s + length s)) s r 0 0 lim []
      end
  end.

(* ---------- 15.5.4.20, 7.2, 7.3 ---------- *)
(* WhiteSpace: TAB VT FF SP NBSP BOM and category Zs (Unicode 3.0 - 6.2, in which
   U+180E is a space separator); LineTerminator: LF CR LS PS *)
Definition is_ws (c : Z) : bool :=
  (c =? 0x9) || (c =? 0xB) || (c =? 0xC) || (c =? 0x20) || (c =? 0xA0) || (c =? 0xFEFF) ||
  (c =? 0x1680) || (c =? 0x180E) || ((0x2000 <=? c) && (c <=? 0x200A)) ||
  (c =? 0x202F) || (c =? 0x205F) || (c =? 0x3000).
Definition is_lt (c : Z) : bool := (c =? 0xA) || (c =? 0xD) || (c =? 0x2028) || (c =? 0x2029).
Definition is_trim (c : Z) : bool := is_ws c || is_lt c.

Fixpoint drop_while (f : Z -> bool) (s : str) : str :=
  match s with
  | [] => []
  | c :: s' => if f c then drop_while f s' else s
  end.
Definition trim (s : str) : str := rev (drop_while is_trim (rev (drop_while is_trim s))).

(* ---------- 15.5.4.16 / .18 : simple case mapping on the covered ranges ---------- *)
(* covered: ASCII, Latin-1, Latin Extended-A U+0100..U+012F, the digraph triples U+01C4..U+01CC and
   U+01F1..U+01F3 (upper / title / lower), Greek U+0391..U+03C9 basic letters, Cyrillic U+0400..U+045F.
   Characters whose ES5 mapping needs SpecialCasing (sharp s, final sigma, ...) or
   that are outside these ranges make the function decline. *)
Definition digraph_base (c : Z) : option Z :=   (* the upper-case member of the triple c belongs to *)
  if (0x1C4 <=? c) && (c <=? 0x1CC) then Some (0x1C4 + (c - 0x1C4) / 3 * 3)
  else if (0x1F1 <=? c) && (c <=? 0x1F3) then Some 0x1F1 else None.
Definition lower1 (c : Z) : option Z :=
  if c <? 0x80 then Some (if (65 <=? c) && (c <=? 90) then c + 32 else c)
  else if c <? 0x100 then
    Some (if (0xC0 <=? c) && (c <=? 0xDE) && negb (c =? 0xD7) then c + 32 else c)
  else if c <? 0x130 then Some (if Z.even c then c + 1 else c)
  else if (match digraph_base c with Some _ => true | None => false end) then
    option_map (fun b => b + 2) (digraph_base c)
  else if (0x391 <=? c) && (c <=? 0x3A9) then
    (if (c =? 0x3A3) || (c =? 0x3A2) then None else Some (c + 32))
  else if (0x3B1 <=? c) && (c <=? 0x3C9) then Some c
  else if (0x400 <=? c) && (c <=? 0x40F) then Some (c + 80)
  else if (0x410 <=? c) && (c <=? 0x42F) then Some (c + 32)
  else if (0x430 <=? c) && (c <=? 0x45F) then Some c
  else None.
Definition upper1 (c : Z) : option Z :=
  if c <? 0x80 then Some (if (97 <=? c) && (c <=? 122) then c - 32 else c)
  else if c <? 0x100 then
    (if c =? 0xDF then None
     else if c =? 0xB5 then Some 0x39C
     else if c =? 0xFF then Some 0x178
     else Some (if (0xE0 <=? c) && (c <=? 0xFE) && negb (c =? 0xF7) then c - 32 else c))
  else if c <? 0x130 then Some (if Z.even c then c else c - 1)
  else if (match digraph_base c with Some _ => true | None => false end) then digraph_base c
  else if (0x391 <=? c) && (c <=? 0x3A9) then (if c =? 0x3A2 then None else Some c)
  else if (0x3B1 <=? c) && (c <=? 0x3C9) then Some (if c =? 0x3C2 then 0x3A3 else c - 32)
  else if (0x400 <=? c) && (c <=? 0x42F) then Some c
  else if (0x430 <=? c) && (c <=? 0x44F) then Some (c - 32)
  else if (0x450 <=? c) && (c <=? 0x45F) then Some (c - 80)
  else None.
Fixpoint map_opt (f : Z -> option Z) (s : str) : option str :=
  match s with
  | [] => Some []
  | c :: s' => match f c, map_opt f s' with Some d, Some r => Some (d :: r) | _, _ => None end
  end.

(* ---------- 15.5.3.2 ---------- *)
Fixpoint fromCharCode (args : list arg) : option str :=
  match args with
  | [] => Some []
  | a :: r => match to_uint 16 a, fromCharCode r with Some u, Some t => Some (u :: t) | _, _ => None end
  end.

(* ---------- 15.5.5.2 [[GetOwnProperty]] on a String object, for a property name ---------- *)
Fixpoint all_digits (s : str) : bool :=
  match s with [] => true | c :: s' => (48 <=? c) && (c <=? 57) && all_digits s' end.
Fixpoint dec_value (s : str) (acc : Z) : Z :=
  match s with [] => acc | c :: s' => dec_value s' (acc * 10 + (c - 48)) end.
(* P is ToString(abs(ToInteger(P))) exactly when it is "0" or digits without a leading zero
   (names beyond 10^21 print in exponent form; they are far beyond any length and give undefined too) *)
Definition canonical_index (p : str) : option Z :=
  match p with
  | [] => None
  | c :: r => if all_digits p && ((c =? 48) && (match r with [] => true | _ => false end) || negb (c =? 48))
              then Some (dec_value p 0) else None
  end.
Definition index_get (s : str) (p : str) : res :=
  match canonical_index p with
  | Some i => if i <? zlen s then VStr [unit_at s i] else VUndef
  | None => VUndef
  end.

(* ---------- 15.5.4.9 ---------- *)
(* The order itself is implementation-defined.  What the standard fixes is that both sides are
   strings (S = ToString(this), That = ToString(that)), that the function is a total order and
   that equal strings give 0.  The check pins otto's order: code point order of the text, i.e.
   byte order of its UTF-8 form (proved a total order in Proofs.v). *)
Fixpoint cmp_list (a b : list Z) : Z :=
  match a, b with
  | [], [] => 0
  | [], _ :: _ => -1
  | _ :: _, [] => 1
  | x :: a', y :: b' => if x <? y then -1 else if y <? x then 1 else cmp_list a' b'
  end.
Definition locale_order (a b : str) : Z := cmp_list (enc8 (dec16 a)) (enc8 (dec16 b)).

(* ---------- one call ---------- *)
Definition opt_ext (args : list arg) (i : nat) : option (option ext) :=
  (* None = not convertible here (declined); Some None = undefined/absent *)
  match arg_at args i with
  | AUndef => Some None
  | a => match to_integer a with Some e => Some (Some e) | None => None end
  end.

Definition concat_all (s : str) (args : list arg) : option str :=
  fold_left (fun acc a => match acc, to_string a with Some x, Some y => Some (x ++ y) | _, _ => None end)
            args (Some s).

(* result of  this.m(args)  per ES5; None = outside the transcribed domain *)
Definition call_spec (m : meth) (r : recv) (args : list arg) : option res :=
  match this_string r with
  | None => Some (VErr 6)
  | Some s =>
      match m with
      | MCharAt => option_map (fun p => VStr (charAt s p)) (to_integer (arg_at args 0))
      | MCharCodeAt => option_map (fun p => charCodeAt s p) (to_integer (arg_at args 0))
      | MIndexOf =>
          match to_string (arg_at args 0), to_integer (arg_at args 1) with
          | Some t, Some p => Some (VInt (indexOf s t p))
          | _, _ => None
          end
      | MLastIndexOf =>
          match to_string (arg_at args 0), to_number (arg_at args 1) with
          | Some t, Some b => Some (VInt (lastIndexOf s t (if is_nan_bits b then PInf else to_integer_bits b)))
          | _, _ => None
          end
      | MSlice =>
          match to_integer (arg_at args 0), opt_ext args 1 with
          | Some st, Some en => Some (VStr (slice s st en))
          | _, _ => None
          end
      | MSubstring =>
          match to_integer (arg_at args 0), opt_ext args 1 with
          | Some st, Some en => Some (VStr (substring s st en))
          | _, _ => None
          end
      | MSubstr =>
          match to_integer (arg_at args 0), opt_ext args 1 with
          | Some st, Some ln => Some (VStr (substr s st ln))
          | _, _ => None
          end
      | MSplit =>
          let lim := match arg_at args 1 with AUndef => Some (2 ^ 32 - 1) | a => to_uint 32 a end in
          let sep := match arg_at args 0 with AUndef => Some None | a => option_map Some (to_string a) end in
          match lim, sep with
          | Some l, Some sp => Some (VList (split s sp l))
          | _, _ => None
          end
      | MConcat => option_map VStr (concat_all s args)
      | MTrim => Some (VStr (trim s))
      | MToLower => option_map VStr (map_opt lower1 s)
      | MToUpper => option_map VStr (map_opt upper1 s)
      | MLocaleCompare => option_map (fun t => VInt (locale_order s t)) (to_string (arg_at args 0))
      | MLength =>
          match r with RLit _ | RStrObj _ => Some (VInt (zlen s)) | _ => None end
      | MIndex =>
          match r, arg_at args 0 with
          | (RLit _ | RStrObj _), AStr p => Some (index_get s p)
          | _, _ => None
          end
      end
  end.

(* ---------- argument conversion order (the step order of each algorithm in 15.5.4) ---------- *)
(* An argument is either a primitive or an object {toString, valueOf} whose two methods log their
   call (2*id for toString, 2*id+1 for valueOf), then either throw or return a primitive string /
   number.  ToString(obj) calls toString (8.12.8 hint String), ToNumber(obj) calls valueOf. *)
Inductive earg :=
| EPlain (a : arg)
| EObj (id : Z) (sv : str) (nbits : Z) (throwS throwN : bool).
Inductive erecv :=
| ERLit (u : str)
| ERObj (id : Z) (sv : str) (throwS : bool).
Inductive conv := KS | KN.

Definition placeholder (e : earg) : arg := match e with EPlain a => a | EObj _ _ _ _ _ => AUndef end.
Definition e_undef (e : earg) : bool := match e with EPlain AUndef => true | _ => false end.
Definition earg_at (l : list earg) (i : nat) : earg := nth i l (EPlain AUndef).

Definition convert (k : conv) (e : earg) : list Z * option arg :=
  match e with
  | EPlain a => ([], Some a)
  | EObj id sv nb ts tn =>
      match k with
      | KS => ([2 * id], if ts then None else Some (AStr sv))
      | KN => ([2 * id + 1], if tn then None else Some (ANum nb))
      end
  end.

Fixpoint set_nth (i : nat) (a : arg) (l : list arg) : list arg :=
  match i, l with
  | O, _ :: t => a :: t
  | S i', x :: t => x :: set_nth i' a t
  | _, [] => []
  end.

(* run the conversions of a plan in order; stop at the first one that throws *)
Fixpoint conv_seq (plan : list (nat * conv)) (eargs : list earg) (cur : list arg) (log : list Z)
  : list Z * option (list arg) :=
  match plan with
  | [] => (log, Some cur)
  | (i, k) :: plan' =>
      if (length eargs <=? i)%nat then conv_seq plan' eargs cur log else
      let '(l, r) := convert k (earg_at eargs i) in
      match r with
      | None => (log ++ l, None)
      | Some a => conv_seq plan' eargs (set_nth i a cur) (log ++ l)
      end
  end.

Fixpoint all_ks (i : nat) (n : nat) : list (nat * conv) :=
  match n with O => [] | S n' => (i, KS) :: all_ks (S i) n' end.
Fixpoint all_kn (i : nat) (n : nat) : list (nat * conv) :=
  match n with O => [] | S n' => (i, KN) :: all_kn (S i) n' end.

(* the order in which 15.5.4.x converts the arguments (after ToString(this)) *)
Definition plan_spec (m : meth) (eargs : list earg) : list (nat * conv) :=
  match m with
  | MCharAt | MCharCodeAt => [(0%nat, KN)]
  | MIndexOf | MLastIndexOf => [(0%nat, KS); (1%nat, KN)]
  | MSlice | MSubstring | MSubstr =>
      (0%nat, KN) :: (if e_undef (earg_at eargs 1) then [] else [(1%nat, KN)])
  | MSplit =>   (* 15.5.4.14: step 5 ToUint32(limit), step 8 ToString(separator), step 9 lim = 0 *)
      (if e_undef (earg_at eargs 1) then [] else [(1%nat, KN)]) ++
      (if e_undef (earg_at eargs 0) then [] else [(0%nat, KS)])
  | MConcat => all_ks 0 (length eargs)
  | MLocaleCompare => [(0%nat, KS)]
  | _ => []
  end.

(* one call with effectful arguments: result (8 = the conversion threw) and the conversion log.
   mo = None stands for String.fromCharCode(args).  this_last m says that ToString(this) happens
   after the argument conversions (never in ES5). *)
Definition effect_step (plan : meth -> str -> list earg -> list (nat * conv)) (this_last : meth -> bool)
    (call : meth -> recv -> list arg -> option res) (from : list arg -> option str)
    (mo : option meth) (er : erecv) (eargs : list earg) : option (res * list Z) :=
  match mo with
  | None =>
      match conv_seq (all_kn 0 (length eargs)) eargs (map placeholder eargs) [] with
      | (log, None) => Some (VErr 8, log)
      | (log, Some args) => option_map (fun s => (VStr s, log)) (from args)
      end
  | Some m =>
      match m, er with
      | (MLength | MIndex), ERObj _ _ _ => None
      | _, _ =>
        let '(log0, this) := match er with
                             | ERLit u => ([], Some (RLit u, u))
                             | ERObj id sv ts => ([2 * id], if ts then None else Some (RObj sv, sv))
                             end in
        if this_last m then
          match conv_seq (plan m [] eargs) eargs (map placeholder eargs) [] with
          | (log, None) => Some (VErr 8, log)
          | (log, Some args) =>
              match this with
              | None => Some (VErr 8, log ++ log0)
              | Some (r, _) => option_map (fun v => (v, log ++ log0)) (call m r args)
              end
          end
        else
          match this with
          | None => Some (VErr 8, log0)
          | Some (r, s) =>
              match conv_seq (plan m s eargs) eargs (map placeholder eargs) log0 with
              | (log, None) => Some (VErr 8, log)
              | (log, Some args) => option_map (fun v => (v, log)) (call m r args)
              end
          end
      end
  end.
