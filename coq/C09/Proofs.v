(* lemmas for C09 *)
From Coq Require Import ZArith List Bool Lia.
From Otto Require Import Common.Corr Common.Double C09.Utf C09.Spec C09.Model.
Import ListNotations.
Open Scope Z_scope.

(* otto's trim set is exactly WhiteSpace + LineTerminator of ES5 7.2 / 7.3 *)
Lemma trim_set_exact : forall c, in_trim_set c = is_trim c.
Proof.
  intro c. unfold in_trim_set, otto_trim_set, is_trim, is_ws, is_lt. cbn [existsb].
  repeat match goal with
  | |- context [Z.eqb c ?k] => destruct (Z.eqb_spec c k) as [->|]; [vm_compute; reflexivity|]
  end.
  cbn [orb].
  destruct (Z.leb_spec 0x2000 c); destruct (Z.leb_spec c 0x200A); cbn [andb orb]; try reflexivity; lia.
Qed.

(* ------------------------------------------------------------------ *)
(* codecs on ASCII / BMP-without-surrogates: all four are the identity *)

Lemma bmp_of_ascii : forall u, ascii u -> bmp_clean u.
Proof.
  induction 1; constructor; auto. split; [lia|].
  unfold is_sur. destruct (Z.leb_spec 0xD800 x); [lia|reflexivity].
Qed.

Lemma dec16_bmp : forall u, bmp_clean u -> dec16 u = u.
Proof.
  induction 1 as [|x u [Hx Hs] Hu IH]; [reflexivity|].
  cbn [dec16].
  assert (is_hi x = false) as ->.
  { unfold is_hi, is_sur in *. destruct (Z.leb_spec 0xD800 x); destruct (Z.leb_spec x 0xDBFF); cbn [andb] in *; try reflexivity.
    destruct (Z.leb_spec x 0xDFFF); [discriminate|lia]. }
  assert (is_lo x = false) as ->.
  { unfold is_lo, is_sur in *. destruct (Z.leb_spec 0xDC00 x); destruct (Z.leb_spec x 0xDFFF); cbn [andb] in *; try reflexivity.
    destruct (Z.leb_spec 0xD800 x); [discriminate|lia]. }
  now rewrite IH.
Qed.

Lemma valid_bmp : forall x, 0 <= x < 0x10000 -> is_sur x = false -> valid_rune x = true.
Proof.
  intros x Hx Hs. unfold valid_rune. rewrite Hs.
  destruct (Z.leb_spec 0 x); [|lia]. destruct (Z.leb_spec x 0x10FFFF); [reflexivity|lia].
Qed.

Lemma enc16_bmp : forall u, bmp_clean u -> enc16 u = u.
Proof.
  induction 1 as [|x u [Hx Hs] Hu IH]; [reflexivity|].
  unfold enc16 in *. cbn [flat_map]. rewrite IH. unfold enc16_1.
  rewrite (valid_bmp x Hx Hs). destruct (Z.ltb_spec x 0x10000); [reflexivity|lia].
Qed.

Lemma enc8_ascii : forall u, ascii u -> enc8 u = u.
Proof.
  induction 1 as [|x u Hx Hu IH]; [reflexivity|].
  unfold enc8 in *. cbn [flat_map]. rewrite IH. unfold enc8_1.
  assert (valid_rune x = true) as ->.
  { apply valid_bmp; [lia|]. unfold is_sur. destruct (Z.leb_spec 0xD800 x); [lia|reflexivity]. }
  destruct (Z.ltb_spec x 0x80); [reflexivity|lia].
Qed.

Lemma dec8_ascii : forall u, ascii u -> dec8 u = u.
Proof.
  induction 1 as [|x u Hx Hu IH]; [reflexivity|].
  cbn [dec8]. destruct (Z.ltb_spec x 0x80); [now rewrite IH|lia].
Qed.

Lemma Forall_firstn' : forall (P : Z -> Prop) n u, Forall P u -> Forall P (firstn n u).
Proof. intros P n u H. revert n. induction H; destruct n; cbn [firstn]; constructor; auto. Qed.
Lemma Forall_skipn' : forall (P : Z -> Prop) n u, Forall P u -> Forall P (skipn n u).
Proof. intros P n u H. revert n. induction H; destruct n; cbn [skipn]; auto. Qed.
Lemma ascii_firstn : forall n u, ascii u -> ascii (firstn n u).
Proof. intros; now apply Forall_firstn'. Qed.
Lemma ascii_skipn : forall n u, ascii u -> ascii (skipn n u).
Proof. intros; now apply Forall_skipn'. Qed.
Lemma bmp_firstn : forall n u, bmp_clean u -> bmp_clean (firstn n u).
Proof. intros; now apply Forall_firstn'. Qed.
Lemma bmp_skipn : forall n u, bmp_clean u -> bmp_clean (skipn n u).
Proof. intros; now apply Forall_skipn'. Qed.
Lemma bmp_app : forall a b, bmp_clean a -> bmp_clean b -> bmp_clean (a ++ b).
Proof. intros. apply Forall_app; auto. Qed.
Lemma bmp_rev : forall a, bmp_clean a -> bmp_clean (rev a).
Proof. intros. now apply Forall_rev. Qed.
Lemma bmp_sub : forall u a b, bmp_clean u -> bmp_clean (sub u a b).
Proof. intros. unfold sub. now apply bmp_firstn, bmp_skipn. Qed.

Lemma utf16Length_ascii : forall b, ascii b -> utf16Length b = zlen b.
Proof.
  intros b H. unfold utf16Length. rewrite (dec8_ascii b H), (enc16_bmp b (bmp_of_ascii b H)). reflexivity.
Qed.

(* ------------------------------------------------------------------ *)
(* list / position helpers *)

Lemma zlen_nil : forall A, @zlen A [] = 0.
Proof. reflexivity. Qed.
Lemma zlen_cons : forall A (a : A) l, zlen (a :: l) = zlen l + 1.
Proof. intros. unfold zlen. cbn [length]. lia. Qed.
Lemma zlen_nonneg : forall A (l : list A), 0 <= zlen l.
Proof. intros. unfold zlen. lia. Qed.
Lemma zlen_app : forall A (a b : list A), zlen (a ++ b) = zlen a + zlen b.
Proof. intros. unfold zlen. rewrite app_length. lia. Qed.

Lemma skipn_skipn' : forall A (x y : nat) (l : list A), skipn x (skipn y l) = skipn (y + x) l.
Proof.
  intros A x y. induction y; intro l; [reflexivity|].
  destruct l; cbn [skipn plus]; [now destruct x|]. apply IHy.
Qed.

Lemma skipn_z_add : forall (s : str) a b, 0 <= a -> 0 <= b ->
  skipn (Z.to_nat b) (skipn (Z.to_nat a) s) = skipn (Z.to_nat (a + b)) s.
Proof.
  intros. rewrite skipn_skipn'. f_equal. lia.
Qed.

Lemma skipn_succ : forall (a : Z) (s : str) k, 0 <= k ->
  skipn (Z.to_nat (Z.succ k)) (a :: s) = skipn (Z.to_nat k) s.
Proof. intros. rewrite Z2Nat.inj_succ by lia. reflexivity. Qed.

Lemma clamp_range : forall p len, 0 <= len -> 0 <= clamp p len <= len.
Proof.
  intros p len H. unfold clamp. destruct p; cbn [ext_max ext_min]; lia.
Qed.

Lemma rel_index_range : forall p len, 0 <= len -> 0 <= rel_index p len <= len.
Proof.
  intros p len H. unfold rel_index. destruct p; try lia.
  destruct (Z.ltb_spec z 0); lia.
Qed.

Lemma prefixb_length : forall t s, prefixb t s = true -> (length t <= length s)%nat.
Proof.
  induction t; intros s H; cbn [length]; [lia|].
  destruct s; cbn [prefixb] in H; [discriminate|].
  apply andb_prop in H as [_ H]. apply IHt in H. cbn [length]. lia.
Qed.

Lemma prefixb_true : forall t s, prefixb t s = true -> s = t ++ skipn (length t) s.
Proof.
  induction t; intros s H; [reflexivity|].
  destruct s; cbn [prefixb] in H; [discriminate|].
  apply andb_prop in H as [E H]. apply Z.eqb_eq in E. subst.
  cbn [length skipn app]. f_equal. now apply IHt.
Qed.

Lemma prefixb_app : forall t r, prefixb t (t ++ r) = true.
Proof. induction t; intros; cbn [prefixb app]; [reflexivity|]. now rewrite Z.eqb_refl, IHt. Qed.

(* ------------------------------------------------------------------ *)
(* 15.5.4.7: indexOf returns the least match at or after the clamped position *)

Definition matches_at (t s : str) (j : Z) : bool := prefixb t (skipn (Z.to_nat j) s).

Lemma find_from_some : forall t s k, find_from t s = Some k ->
  0 <= k <= zlen s /\ matches_at t s k = true /\ forall j, 0 <= j < k -> matches_at t s j = false.
Proof.
  unfold matches_at. induction s as [|a s IH]; intros k H.
  - cbn [find_from] in H. destruct (prefixb t []) eqn:E; inversion H; subst.
    rewrite zlen_nil. repeat split; try lia. exact E.
  - cbn [find_from] in H. destruct (prefixb t (a :: s)) eqn:E.
    + inversion H; subst. rewrite zlen_cons. pose proof (zlen_nonneg _ s). repeat split; try lia. exact E.
    + destruct (find_from t s) as [z|] eqn:F; cbn [option_map] in H; inversion H; subst.
      destruct (IH z eq_refl) as (R & M & L). rewrite zlen_cons. repeat split; try lia.
      * rewrite skipn_succ by lia. exact M.
      * intros j Hj. destruct (Z.eq_dec j 0) as [->|]; [exact E|].
        replace j with (Z.succ (j - 1)) by lia. rewrite skipn_succ by lia. apply L. lia.
Qed.

Lemma find_from_none : forall t s, find_from t s = None ->
  forall j, 0 <= j <= zlen s -> matches_at t s j = false.
Proof.
  unfold matches_at. induction s as [|a s IH]; intros H j Hj.
  - cbn [find_from] in H. destruct (prefixb t []) eqn:E; [discriminate|].
    rewrite zlen_nil in Hj. replace j with 0 by lia. exact E.
  - cbn [find_from] in H. destruct (prefixb t (a :: s)) eqn:E; [discriminate|].
    destruct (find_from t s) eqn:F; [discriminate|].
    rewrite zlen_cons in Hj. destruct (Z.eq_dec j 0) as [->|]; [exact E|].
    replace j with (Z.succ (j - 1)) by lia. rewrite skipn_succ by lia. apply IH; [reflexivity|lia].
Qed.

Lemma matches_shift : forall t s a j, 0 <= a -> 0 <= j ->
  matches_at t (skipn (Z.to_nat a) s) j = matches_at t s (a + j).
Proof. intros. unfold matches_at. now rewrite skipn_z_add. Qed.

Lemma zlen_skipn : forall (s : str) a, 0 <= a <= zlen s -> zlen (skipn (Z.to_nat a) s) = zlen s - a.
Proof. intros s a H. unfold zlen in *. rewrite skipn_length. lia. Qed.

Theorem indexOf_least : forall s t p,
  let st := clamp p (zlen s) in
  let k := indexOf s t p in
  (k = -1 /\ forall j, st <= j <= zlen s -> matches_at t s j = false) \/
  (st <= k <= zlen s /\ matches_at t s k = true /\ forall j, st <= j < k -> matches_at t s j = false).
Proof.
  intros s t p st k. pose proof (clamp_range p (zlen s) (zlen_nonneg _ s)) as R. fold st in R.
  unfold k, indexOf. fold st.
  destruct (find_from t (skipn (Z.to_nat st) s)) as [z|] eqn:F.
  - right. destruct (find_from_some _ _ _ F) as (Rz & M & L).
    rewrite zlen_skipn in Rz by lia. rewrite matches_shift in M by lia.
    repeat split; try lia; [exact M|].
    intros j Hj. specialize (L (j - st)). rewrite matches_shift in L by lia.
    replace (st + (j - st)) with j in L by lia. apply L. lia.
  - left. split; [reflexivity|]. intros j Hj.
    pose proof (find_from_none _ _ F (j - st)) as L. rewrite zlen_skipn in L by lia.
    rewrite matches_shift in L by lia. replace (st + (j - st)) with j in L by lia. apply L. lia.
Qed.

(* ------------------------------------------------------------------ *)
(* 15.5.4.8: lastIndexOf returns the greatest match at or before the clamped position *)

Lemma find_last_none : forall t s, find_last t s = None ->
  forall j, 0 <= j <= zlen s -> matches_at t s j = false.
Proof.
  unfold matches_at. induction s as [|a s IH]; intros H j Hj.
  - cbn [find_last] in H. destruct (prefixb t []) eqn:E; [discriminate|].
    rewrite zlen_nil in Hj. replace j with 0 by lia. exact E.
  - cbn [find_last] in H. destruct (find_last t s) eqn:F; [discriminate|].
    destruct (prefixb t (a :: s)) eqn:E; [discriminate|].
    rewrite zlen_cons in Hj. destruct (Z.eq_dec j 0) as [->|]; [exact E|].
    replace j with (Z.succ (j - 1)) by lia. rewrite skipn_succ by lia. apply IH; [reflexivity|lia].
Qed.

Lemma find_last_some : forall t s k, find_last t s = Some k ->
  0 <= k <= zlen s /\ matches_at t s k = true /\ forall j, k < j <= zlen s -> matches_at t s j = false.
Proof.
  unfold matches_at. induction s as [|a s IH]; intros k H.
  - cbn [find_last] in H. destruct (prefixb t []) eqn:E; inversion H; subst.
    rewrite zlen_nil. repeat split; try lia. exact E.
  - cbn [find_last] in H. rewrite zlen_cons. pose proof (zlen_nonneg _ s).
    destruct (find_last t s) as [z|] eqn:F.
    + inversion H; subst. destruct (IH z eq_refl) as (R & M & L). repeat split; try lia.
      * replace (z + 1) with (Z.succ z) by lia. rewrite skipn_succ by lia. exact M.
      * intros j Hj. replace j with (Z.succ (j - 1)) by lia. rewrite skipn_succ by lia. apply L. lia.
    + destruct (prefixb t (a :: s)) eqn:E; inversion H; subst. repeat split; try lia; [exact E|].
      intros j Hj. replace j with (Z.succ (j - 1)) by lia. rewrite skipn_succ by lia.
      apply (find_last_none _ _ F). lia.
Qed.

Lemma prefixb_firstn : forall t s n, (length t <= n)%nat -> prefixb t (firstn n s) = prefixb t s.
Proof.
  induction t; intros s n H; [reflexivity|].
  cbn [length] in H. destruct n; [lia|]. destruct s; [reflexivity|].
  cbn [firstn prefixb]. rewrite IHt by lia. reflexivity.
Qed.

Lemma prefixb_short : forall t s, (length s < length t)%nat -> prefixb t s = false.
Proof.
  intros t s H. destruct (prefixb t s) eqn:E; [|reflexivity]. apply prefixb_length in E. lia.
Qed.

(* a match inside the truncated string is a match of the whole string, and conversely
   as long as the match ends inside the truncation *)
Lemma matches_firstn : forall t s n j, 0 <= j -> j + zlen t <= n ->
  matches_at t (firstn (Z.to_nat n) s) j = matches_at t s j.
Proof.
  intros t s n j Hj Hn. unfold matches_at. rewrite skipn_firstn_comm.
  apply prefixb_firstn. unfold zlen in Hn. lia.
Qed.

Theorem lastIndexOf_greatest : forall s t p,
  let st := clamp p (zlen s) in
  let k := lastIndexOf s t p in
  (k = -1 /\ forall j, 0 <= j <= st -> matches_at t s j = false) \/
  (0 <= k <= st /\ matches_at t s k = true /\ forall j, k < j <= st -> matches_at t s j = false).
Proof.
  intros s t p st k. pose proof (clamp_range p (zlen s) (zlen_nonneg _ s)) as R. fold st in R.
  pose proof (zlen_nonneg _ t) as Ht.
  unfold k, lastIndexOf. fold st.
  set (n := st + zlen t).
  assert (Hlen : zlen (firstn (Z.to_nat n) s) = Z.min n (zlen s)).
  { unfold zlen. rewrite firstn_length. unfold zlen in *. lia. }
  (* positions j <= st whose match would run past the end of s do not match *)
  assert (Hpast : forall j, 0 <= j <= st -> zlen s < j + zlen t -> matches_at t s j = false).
  { intros j Hj Hp. unfold matches_at. apply prefixb_short. rewrite skipn_length. unfold zlen in *. lia. }
  destruct (find_last t (firstn (Z.to_nat n) s)) as [z|] eqn:F.
  - right. destruct (find_last_some _ _ _ F) as (Rz & M & L). rewrite Hlen in Rz, L.
    assert (Hz : z + zlen t <= Z.min n (zlen s)).
    { unfold matches_at in M. apply prefixb_length in M. rewrite skipn_length, firstn_length in M.
      unfold zlen in *. lia. }
    rewrite matches_firstn in M by lia.
    repeat split; try lia; [exact M|].
    intros j Hj. destruct (Z_le_gt_dec (j + zlen t) (zlen s)).
    + rewrite <- (matches_firstn t s n j) by lia. apply L. lia.
    + apply Hpast; lia.
  - left. split; [reflexivity|]. intros j Hj.
    destruct (Z_le_gt_dec (j + zlen t) (zlen s)).
    + rewrite <- (matches_firstn t s n j) by lia. apply (find_last_none _ _ F). rewrite Hlen. lia.
    + apply Hpast; lia.
Qed.

(* ------------------------------------------------------------------ *)
(* 15.5.4.13 / 15.5.4.15 / B.2.3: slice, substring, substr *)

Lemma sub_empty : forall s a, sub s a a = [].
Proof. intros. unfold sub. now rewrite Z.sub_diag. Qed.

Lemma sub_length : forall s a b, 0 <= a <= b -> b <= zlen s -> zlen (sub s a b) = b - a.
Proof.
  intros s a b H1 H2. unfold sub, zlen in *. rewrite firstn_length, skipn_length. lia.
Qed.

Theorem substring_sym : forall s a b, substring s a (Some b) = substring s b (Some a).
Proof. intros. unfold substring. now rewrite Z.min_comm, Z.max_comm. Qed.

Theorem slice_is_substring : forall s a b, 0 <= a <= b ->
  slice s (Fin a) (Some (Fin b)) = substring s (Fin a) (Some (Fin b)).
Proof.
  intros s a b H. pose proof (zlen_nonneg _ s).
  unfold slice, substring, rel_index, clamp. cbn [ext_max ext_min].
  destruct (Z.ltb_spec a 0); [lia|]. destruct (Z.ltb_spec b 0); [lia|].
  f_equal; lia.
Qed.

Theorem substr_is_slice : forall s a n, 0 <= a -> 0 <= n ->
  substr s (Fin a) (Some (Fin n)) = slice s (Fin a) (Some (Fin (a + n))).
Proof.
  intros s a n Ha Hn. pose proof (zlen_nonneg _ s).
  unfold substr, slice, rel_index. cbn [ext_max ext_min].
  destruct (Z.ltb_spec a 0); [lia|]. destruct (Z.ltb_spec (a + n) 0); [lia|].
  destruct (Z.leb_spec (Z.min (Z.max n 0) (zlen s - Z.min a (zlen s))) 0).
  - replace (Z.max (Z.min (a + n) (zlen s) - Z.min a (zlen s)) 0) with 0 by lia.
    rewrite Z.add_0_r. now rewrite sub_empty.
  - f_equal. lia.
Qed.

(* a negative start counts from the end in both, and both run to the end *)
Theorem slice_tail_is_substr_tail : forall s k, slice s (Fin k) None = substr s (Fin k) None.
Proof.
  intros s k. pose proof (zlen_nonneg _ s) as H.
  pose proof (rel_index_range (Fin k) (zlen s) H) as R.
  unfold slice, substr. cbn [ext_max ext_min].
  set (from := rel_index (Fin k) (zlen s)) in *.
  destruct (Z.leb_spec (zlen s - from) 0).
  - replace (Z.max (zlen s - from) 0) with 0 by lia. rewrite Z.add_0_r. apply sub_empty.
  - f_equal. lia.
Qed.

Theorem slice_length : forall s st en,
  let len := zlen s in
  let from := rel_index st len in
  let to := match en with None => len | Some e => rel_index e len end in
  zlen (slice s st en) = Z.max (to - from) 0.
Proof.
  intros s st en len from to. pose proof (zlen_nonneg _ s) as H.
  pose proof (rel_index_range st (zlen s) H).
  assert (0 <= to <= len) by (unfold to; destruct en; [apply rel_index_range; exact H | unfold len; lia]).
  unfold slice. fold len from to. rewrite sub_length; unfold len in *; fold from; lia.
Qed.

(* ------------------------------------------------------------------ *)
(* 15.5.4.14: joining the pieces of split (no limit reached) with the separator gives the string back *)

Fixpoint join (sep : str) (l : list str) : str :=
  match l with
  | [] => []
  | x :: l' => match l' with [] => x | _ => x ++ sep ++ join sep l' end
  end.

(* acc holds the pieces found so far, newest first *)
Fixpoint pre (sep : str) (acc : list str) : str :=
  match acc with [] => [] | x :: a => pre sep a ++ x ++ sep end.

Lemma join_snoc : forall sep l x, l <> [] -> join sep (l ++ [x]) = join sep l ++ sep ++ x.
Proof.
  induction l as [|y l IH]; intros x H; [congruence|].
  destruct l as [|z l].
  - reflexivity.
  - change (join sep ((y :: z :: l) ++ [x])) with (y ++ sep ++ join sep ((z :: l) ++ [x])).
    rewrite IH by discriminate.
    change (join sep (y :: z :: l)) with (y ++ sep ++ join sep (z :: l)).
    now rewrite <- !app_assoc.
Qed.

Lemma join_rev : forall sep acc x, join sep (rev (x :: acc)) = pre sep acc ++ x.
Proof.
  induction acc as [|a acc IH]; intro x; [reflexivity|].
  change (rev (x :: a :: acc)) with (rev (a :: acc) ++ [x]).
  rewrite join_snoc.
  - rewrite IH. cbn [pre]. now rewrite <- !app_assoc.
  - cbn [rev]. intro E. apply app_eq_nil in E as [_ E]. discriminate.
Qed.

Lemma sub_to_end : forall s p, 0 <= p -> sub s p (zlen s) = skipn (Z.to_nat p) s.
Proof.
  intros s p Hp. unfold sub. apply firstn_all2. rewrite skipn_length. unfold zlen. lia.
Qed.

Lemma split_loop_join : forall fuel s r p q lim acc,
  0 <= p <= q -> q <= zlen s -> pre r acc ++ skipn (Z.to_nat p) s = s ->
  zlen acc <= p -> zlen s + 1 < lim ->
  join r (split_loop fuel s r p q lim acc) = s.
Proof.
  induction fuel as [|f IH]; intros s r p q lim acc Hpq Hq Inv Hacc Hlim.
  - cbn [split_loop]. rewrite join_rev, sub_to_end by lia. exact Inv.
  - cbn [split_loop]. destruct (Z.leb_spec (zlen s) q).
    + rewrite join_rev, sub_to_end by lia. exact Inv.
    + unfold split_match. destruct (prefixb r (skipn (Z.to_nat q) s)) eqn:M.
      * destruct (Z.eqb_spec (q + zlen r) p).
        -- apply IH; auto; lia.
        -- pose proof (zlen_nonneg _ r) as Hr.
           assert (Hrl : q + zlen r <= zlen s).
           { apply prefixb_length in M. rewrite skipn_length in M. unfold zlen in *. lia. }
           rewrite zlen_cons. destruct (Z.eqb_spec (zlen acc + 1) lim); [lia|].
           apply IH; try lia.
           ++ assert (E : skipn (Z.to_nat p) s = sub s p q ++ r ++ skipn (Z.to_nat (q + zlen r)) s).
              { unfold sub.
                rewrite <- (firstn_skipn (Z.to_nat (q - p)) (skipn (Z.to_nat p) s)) at 1.
                f_equal. rewrite skipn_z_add by lia. replace (p + (q - p)) with q by lia.
                rewrite (prefixb_true _ _ M) at 1. f_equal.
                rewrite skipn_skipn'. f_equal. unfold zlen. lia. }
              cbn [pre]. rewrite <- !app_assoc. rewrite <- E. exact Inv.
           ++ rewrite zlen_cons. lia.
      * apply IH; auto; lia.
Qed.

Theorem split_join : forall s sep lim, zlen s + 1 < lim ->
  join sep (split s (Some sep) lim) = s.
Proof.
  intros s sep lim H. pose proof (zlen_nonneg _ s). unfold split.
  destruct (Z.eqb_spec lim 0); [lia|].
  destruct s as [|a s].
  - destruct (split_match [] 0 sep); reflexivity.
  - apply split_loop_join; try lia; reflexivity.
Qed.

(* ------------------------------------------------------------------ *)
(* otto's saturated int64 positions against ES5's extended integers *)

Definition sat64 (p : ext) : Z :=
  match p with
  | NInf => min64
  | PInf => max64
  | Fin z => if 2 ^ 63 <=? z then max64 else if z <=? - 2 ^ 63 then min64 else z
  end.

Lemma number_sat : forall b, snd (number_bits b) = sat64 (to_integer_bits b).
Proof.
  intro b. unfold number_bits, to_integer_bits. destruct (decode b) as [|neg|neg m e].
  - reflexivity.
  - destruct neg; reflexivity.
  - cbn [sat64]. destruct (2 ^ 63 <=? _); [reflexivity|]. destruct (_ <=? - 2 ^ 63); reflexivity.
Qed.

Lemma int64_of_sat : forall a, int64_of a = option_map sat64 (to_integer a).
Proof.
  intro a. unfold int64_of, number, to_integer. destruct (to_number a); cbn [option_map]; [|reflexivity].
  now rewrite number_sat.
Qed.

Ltac big := unfold min64, max64 in *; change (2 ^ 63) with 9223372036854775808 in *;
            change (2 ^ 62) with 4611686018427387904 in *.

Ltac split_ifs := repeat match goal with
  | |- context [if ?a <? ?b then _ else _] => destruct (Z.ltb_spec a b); try lia
  | |- context [if ?a <=? ?b then _ else _] => destruct (Z.leb_spec a b); try lia
  end.

Lemma range_index_rel : forall p len, 0 <= len < 2 ^ 62 ->
  range_index (sat64 p) len false = rel_index p len.
Proof.
  intros p len H. unfold sat64. big. destruct p as [|z|];
    [| destruct (Z.leb_spec 9223372036854775808 z); [| destruct (Z.leb_spec z (Z.opp 9223372036854775808))] |];
    unfold range_index, rel_index; split_ifs.
Qed.

Lemma range_index_clamp : forall p len, 0 <= len < 2 ^ 62 ->
  range_index (sat64 p) len true = clamp p len.
Proof.
  intros p len H. unfold sat64. big. destruct p as [|z|];
    [| destruct (Z.leb_spec 9223372036854775808 z); [| destruct (Z.leb_spec z (Z.opp 9223372036854775808))] |];
    unfold range_index, clamp; cbn [ext_max ext_min]; split_ifs.
Qed.

Definition idx (negz : bool) (p : ext) (len : Z) : Z := if negz then clamp p len else rel_index p len.

Lemma arg_at_1_single : forall args, length args = 1%nat -> arg_at args 1 = AUndef.
Proof. intros [|a [|b l]] H; try discriminate; reflexivity. Qed.

Lemma range_start_end_spec : forall args size negz, 0 <= size < 2 ^ 62 ->
  range_start_end args size negz =
  match to_integer (arg_at args 0), opt_ext args 1 with
  | Some st, Some en => Some (idx negz st size, match en with None => size | Some e => idx negz e size end)
  | _, _ => None
  end.
Proof.
  intros args size negz H. unfold range_start_end. rewrite int64_of_sat.
  destruct (to_integer (arg_at args 0)) as [st|]; cbn [option_map]; [|reflexivity].
  assert (I : forall p, range_index (sat64 p) size negz = idx negz p size).
  { intro p. unfold idx. destruct negz; [apply range_index_clamp | apply range_index_rel]; exact H. }
  rewrite I. unfold opt_ext.
  destruct (Nat.eqb_spec (length args) 1) as [L|L].
  - now rewrite (arg_at_1_single _ L).
  - destruct (arg_at args 1) eqn:A; try reflexivity; rewrite int64_of_sat;
      (destruct (to_integer _); cbn [option_map]; [now rewrite I|reflexivity]).
Qed.

(* ------------------------------------------------------------------ *)
(* refinement: on strings without surrogate units otto's rune-indexed slice /
   substring / substr are the ES5 functions, for every argument list *)

Lemma rsub_enc16 : forall u a b, bmp_clean u -> enc16 (rsub u a b) = sub u a b.
Proof. intros. unfold rsub. apply enc16_bmp. now apply bmp_sub. Qed.

Theorem slice_refines_bmp : forall u args, bmp_clean u -> zlen u < 2 ^ 62 ->
  m_slice (dec16 u) args =
  match to_integer (arg_at args 0), opt_ext args 1 with
  | Some st, Some en => Some (VStr (slice u st en))
  | _, _ => None
  end.
Proof.
  intros u args B L. rewrite (dec16_bmp u B). unfold m_slice.
  rewrite range_start_end_spec by (pose proof (zlen_nonneg _ u); lia).
  destruct (to_integer (arg_at args 0)) as [st|]; [|reflexivity].
  destruct (opt_ext args 1) as [en|]; [|reflexivity].
  cbn [idx]. unfold slice. f_equal. f_equal.
  set (from := rel_index st (zlen u)).
  set (to := match en with None => zlen u | Some e => rel_index e (zlen u) end).
  destruct (Z.leb_spec (to - from) 0).
  - replace (Z.max (to - from) 0) with 0 by lia. rewrite Z.add_0_r, sub_empty. reflexivity.
  - rewrite rsub_enc16 by exact B. f_equal. lia.
Qed.

Theorem substring_refines_bmp : forall u args, bmp_clean u -> zlen u < 2 ^ 62 ->
  m_substring (dec16 u) args =
  match to_integer (arg_at args 0), opt_ext args 1 with
  | Some st, Some en => Some (VStr (substring u st en))
  | _, _ => None
  end.
Proof.
  intros u args B L. rewrite (dec16_bmp u B). unfold m_substring.
  rewrite range_start_end_spec by (pose proof (zlen_nonneg _ u); lia).
  destruct (to_integer (arg_at args 0)) as [st|]; [|reflexivity].
  destruct (opt_ext args 1) as [en|]; [|reflexivity].
  cbn [idx]. unfold substring.
  set (a := clamp st (zlen u)).
  set (b := match en with None => zlen u | Some e => clamp e (zlen u) end).
  destruct (Z.ltb_spec b a); rewrite rsub_enc16 by exact B; do 3 f_equal; lia.
Qed.

(* substr: for every start and length argument (27b5748 removed the wrapping start+length) *)
Theorem substr_refines_bmp : forall u args, bmp_clean u -> zlen u < 2 ^ 62 ->
  m_substr (dec16 u) args =
  match to_integer (arg_at args 0), opt_ext args 1 with
  | Some st, Some ln => Some (VStr (substr u st ln))
  | _, _ => None
  end.
Proof.
  intros u args B L. rewrite (dec16_bmp u B). unfold m_substr.
  pose proof (zlen_nonneg _ u) as Hn.
  rewrite int64_of_sat.
  destruct (to_integer (arg_at args 0)) as [st|]; cbn [option_map]; [|reflexivity].
  rewrite range_index_rel by lia.
  pose proof (rel_index_range st (zlen u) Hn) as R.
  set (from := rel_index st (zlen u)) in *.
  assert (E : (if (length args =? 1)%nat then Some (zlen u)
               else match arg_at args 1 with AUndef => Some (zlen u) | a => int64_of a end) =
              option_map (fun o => match o with None => zlen u | Some l => sat64 l end) (opt_ext args 1)).
  { unfold opt_ext. destruct (Nat.eqb_spec (length args) 1) as [L1|L1].
    - now rewrite (arg_at_1_single _ L1).
    - destruct (arg_at args 1); try reflexivity; rewrite int64_of_sat;
        (destruct (to_integer _); reflexivity). }
  rewrite E. clear E.
  destruct (opt_ext args 1) as [ln|]; cbn [option_map]; [|reflexivity].
  unfold substr. fold from.
  destruct ln as [[|z|]|]; cbn [ext_max ext_min sat64].
  - (* -Infinity *) big. split_ifs; reflexivity.
  - (* finite *)
    big. destruct (Z.leb_spec 9223372036854775808 z).
    + split_ifs; try reflexivity; rewrite rsub_enc16 by exact B; do 3 f_equal; lia.
    + destruct (Z.leb_spec z (Z.opp 9223372036854775808)).
      * split_ifs; reflexivity.
      * split_ifs; try reflexivity; rewrite rsub_enc16 by exact B; do 3 f_equal; lia.
  - (* +Infinity *)
    big. split_ifs; try reflexivity; rewrite rsub_enc16 by exact B; do 3 f_equal; lia.
  - (* absent / undefined: up to the end *)
    split_ifs; try reflexivity; rewrite rsub_enc16 by exact B; do 3 f_equal; lia.
Qed.

(* ------------------------------------------------------------------ *)
(* indexOf on ASCII strings: bytes = units, so otto's byte arithmetic is exact,
   for every position argument *)

Lemma zlen_firstn : forall (s : str) k, 0 <= k <= zlen s -> zlen (firstn (Z.to_nat k) s) = k.
Proof. intros s k H. unfold zlen in *. rewrite firstn_length. lia. Qed.

Lemma indexRune_ascii : forall v t, ascii v ->
  indexRune v t = match find_from t v with Some k => k | None => -1 end.
Proof.
  intros v t A. unfold indexRune. destruct (find_from t v) as [k|] eqn:F; [|reflexivity].
  apply find_from_some in F as (R & _ & _).
  rewrite utf16Length_ascii by now apply ascii_firstn. now apply zlen_firstn.
Qed.

Lemma find_from_nil_hay : forall t, find_from t [] = if is_nil t then Some 0 else None.
Proof. destruct t; reflexivity. Qed.

Lemma skipn_all_z : forall (s : str), skipn (Z.to_nat (zlen s)) s = [].
Proof. intro s. unfold zlen. rewrite Nat2Z.id. apply skipn_all. Qed.

Theorem indexOf_refines_ascii : forall s t args, ascii s -> ascii t ->
  m_indexOf s t (length args) (arg_at args 1) =
  option_map (fun p => VInt (indexOf s t p)) (to_integer (arg_at args 1)).
Proof.
  intros s t args As At. unfold m_indexOf. cbv zeta. rewrite (enc8_ascii s As), (enc8_ascii t At).
  pose proof (zlen_nonneg _ s) as Hn.
  assert (From : forall st, 0 <= st <= zlen s ->
            VInt (if 0 <=? indexRune (skipn (Z.to_nat st) s) t
                  then indexRune (skipn (Z.to_nat st) s) t + st else indexRune (skipn (Z.to_nat st) s) t) =
            VInt (match find_from t (skipn (Z.to_nat st) s) with Some k => st + k | None => -1 end)).
  { intros st Hst. rewrite indexRune_ascii by now apply ascii_skipn.
    destruct (find_from t (skipn (Z.to_nat st) s)) as [k|] eqn:F.
    - apply find_from_some in F as (R & _ & _). destruct (Z.leb_spec 0 k); [|lia]. f_equal; lia.
    - reflexivity. }
  assert (End_ : (if is_nil t then VInt (zlen s) else VInt (-1)) =
                 VInt (match find_from t (skipn (Z.to_nat (zlen s)) s) with Some k => zlen s + k | None => -1 end)).
  { rewrite skipn_all_z, find_from_nil_hay. destruct (is_nil t); [f_equal; lia|reflexivity]. }
  destruct (Nat.ltb_spec (length args) 2) as [L2|L2].
  - assert (arg_at args 1 = AUndef) as ->.
    { unfold arg_at. destruct args as [|a [|b l]]; try reflexivity. cbn [length] in L2. lia. }
    change (to_integer AUndef) with (Some (Fin 0)). cbn [option_map]. unfold indexOf.
    change (clamp (Fin 0) (zlen s)) with (Z.min (Z.max 0 0) (zlen s)).
    replace (Z.min (Z.max 0 0) (zlen s)) with 0 by lia.
    rewrite indexRune_ascii by exact As. change (skipn (Z.to_nat 0) s) with s.
    destruct (find_from t s); reflexivity.
  - destruct (to_integer (arg_at args 1)) as [p|]; cbn [option_map]; [|reflexivity].
    f_equal. unfold indexOf, clamp. destruct p as [|z|]; cbn [ext_max ext_min].
    + rewrite (From 0) by lia. replace (Z.min 0 (zlen s)) with 0 by lia. reflexivity.
    + destruct (Z.ltb_spec z 0).
      * rewrite (From 0) by lia. replace (Z.min (Z.max z 0) (zlen s)) with 0 by lia. reflexivity.
      * destruct (Z.leb_spec (zlen s) z).
        -- rewrite End_. replace (Z.min (Z.max z 0) (zlen s)) with (zlen s) by lia. reflexivity.
        -- rewrite (From z) by lia. replace (Z.min (Z.max z 0) (zlen s)) with z by lia. reflexivity.
    + rewrite End_. reflexivity.
Qed.

(* ------------------------------------------------------------------ *)
(* charAt / charCodeAt on a text without surrogates and without U+FFFD *)

Lemma unit_at_in : forall u z, 0 <= z < zlen u -> In (unit_at u z) u.
Proof. intros u z H. unfold unit_at. apply nth_In. unfold zlen in H. lia. Qed.

Theorem charAt_refines_bmp : forall u a code, bmp_clean u -> ~ In 0xFFFD u -> zlen u < 2 ^ 62 ->
  option_map (fun i => m_charAt (dec16 u) i code) (int64_of a) =
  option_map (fun p => if code then charCodeAt u p else VStr (charAt u p)) (to_integer a).
Proof.
  intros u a code B NF L. rewrite int64_of_sat. pose proof (zlen_nonneg _ u) as Hn.
  destruct (to_integer a) as [p|]; cbn [option_map]; [|reflexivity]. f_equal.
  unfold m_charAt, string_at. rewrite (dec16_bmp u B), (enc16_bmp u B).
  assert (Out : forall x, (x < 0 \/ zlen u <= x) -> (0 <=? x) && (x <? zlen u) = false).
  { intros x Hx. destruct (Z.leb_spec 0 x); destruct (Z.ltb_spec x (zlen u)); cbn [andb]; try reflexivity; lia. }
  destruct p as [|z|]; cbn [sat64].
  - rewrite Out by (big; lia). destruct code; reflexivity.
  - unfold charCodeAt, charAt. big.
    destruct (Z.leb_spec 9223372036854775808 z).
    + rewrite !Out by lia. destruct code; reflexivity.
    + destruct (Z.leb_spec z (Z.opp 9223372036854775808)).
      * rewrite !Out by lia. destruct code; reflexivity.
      * destruct (Z.leb_spec 0 z); destruct (Z.ltb_spec z (zlen u)); cbn [andb]; try (destruct code; reflexivity).
        pose proof (unit_at_in u z ltac:(lia)) as I.
        destruct (Z.eqb_spec (unit_at u z) 0xFFFD) as [E|E]; [rewrite E in I; contradiction|].
        destruct code; [reflexivity|]. f_equal. unfold rune_string.
        unfold bmp_clean in B. rewrite Forall_forall in B. destruct (B _ I) as [Hr Hs].
        rewrite (valid_bmp _ Hr Hs). apply enc16_bmp. constructor; [split; assumption|constructor].
  - rewrite Out by (big; lia). destruct code; reflexivity.
Qed.

(* ------------------------------------------------------------------ *)
(* trim *)

Lemma drop_while_ext : forall f g s, (forall c, f c = g c) -> drop_while f s = drop_while g s.
Proof. intros f g s H. induction s as [|c s IH]; [reflexivity|]. cbn [drop_while]. now rewrite H, IH. Qed.

Lemma Forall_drop_while : forall (P : Z -> Prop) f s, Forall P s -> Forall P (drop_while f s).
Proof.
  intros P f s H. induction H as [|c s Hc Hs IH]; [constructor|].
  cbn [drop_while]. destruct (f c); [exact IH | now constructor].
Qed.

Theorem m_trim_is_trim : forall s, m_trim s = trim s.
Proof.
  intro s. unfold m_trim, trim.
  now rewrite !(drop_while_ext in_trim_set is_trim _ trim_set_exact).
Qed.

Theorem trim_refines_bmp : forall u, bmp_clean u -> enc16 (m_trim (dec16 u)) = trim u.
Proof.
  intros u B. rewrite (dec16_bmp u B), m_trim_is_trim. apply enc16_bmp.
  unfold trim. apply bmp_rev, Forall_drop_while, bmp_rev, Forall_drop_while, B.
Qed.

(* trim removes exactly the leading and trailing members of the set: nothing is left at either end *)
Lemma drop_while_head : forall f s c r, drop_while f s = c :: r -> f c = false.
Proof.
  induction s as [|x s IH]; intros c r H; [discriminate|].
  cbn [drop_while] in H. destruct (f x) eqn:E; [eauto|]. now inversion H; subst.
Qed.

Theorem trim_ends : forall s c r, (trim s = c :: r -> is_trim c = false) /\
                                  (rev (trim s) = c :: r -> is_trim c = false).
Proof.
  intros s c r. unfold trim. split; intro H.
  - set (m := drop_while is_trim s) in *.
    (* the first element of trim s is the first element of m, whenever trim s is non-empty *)
    assert (Hm : forall m, rev (drop_while is_trim (rev m)) = c :: r ->
                 forall x m', m = x :: m' -> x = c).
    { clear. intros m H x m' ->. cbn [rev] in H.
      assert (D : forall a b, drop_while is_trim (a ++ [b]) = [] \/ exists a', drop_while is_trim (a ++ [b]) = a' ++ [b]).
      { induction a as [|y a IH]; intro b; cbn [app drop_while].
        - destruct (is_trim b); [now left | right; now exists []].
        - destruct (is_trim y); [apply IH | right; now exists (y :: a)]. }
      destruct (D (rev m') x) as [E|[a' E]]; rewrite E in H; [discriminate|].
      rewrite rev_app_distr in H. cbn [rev app] in H. now inversion H. }
    destruct m as [|x m'] eqn:Em; [discriminate|].
    rewrite <- (Hm _ H x m' eq_refl). unfold m in Em. eapply drop_while_head; exact Em.
  - rewrite rev_involutive in H. eapply drop_while_head; exact H.
Qed.

(* ------------------------------------------------------------------ *)
(* receiver discipline: every receiver except undefined is converted as ES5 9.10 + 9.8 say *)

Lemma digits_ascii : forall fuel n acc, 0 <= n -> ascii acc -> ascii (digits fuel n acc).
Proof.
  induction fuel as [|f IH]; intros n acc Hn Ha; [exact Ha|].
  cbn [digits]. destruct (Z.ltb_spec n 10).
  - constructor; [lia|exact Ha].
  - apply IH; [apply Z.div_pos; lia|]. constructor; [|exact Ha].
    pose proof (Z.mod_pos_bound n 10 ltac:(lia)). lia.
Qed.

Lemma int_text_ascii : forall n, ascii (int_text n).
Proof.
  intro n. unfold int_text. destruct (Z.ltb_spec n 0).
  - constructor; [lia|]. apply digits_ascii; [lia|constructor].
  - apply digits_ascii; [lia|constructor].
Qed.

Theorem generic_receiver : forall m r, r <> RUndef ->
  this_gostring m r = option_map dec16 (this_string r).
Proof.
  intros m r NU. destruct r; cbn [this_gostring this_string option_map]; try reflexivity.
  - now rewrite (dec16_bmp _ (bmp_of_ascii _ (int_text_ascii n))).
  - destruct b; reflexivity.
  - congruence.
Qed.

(* ------------------------------------------------------------------ *)
(* localeCompare: otto's order on Go strings is a total order, 0 exactly on equal strings *)

Lemma cmp_refl : forall a, cmp_list a a = 0.
Proof. induction a; [reflexivity|]. cbn [cmp_list]. now rewrite Z.ltb_irrefl. Qed.

Lemma cmp_antisym : forall a b, cmp_list b a = - cmp_list a b.
Proof.
  induction a as [|x a IH]; destruct b as [|y b]; try reflexivity.
  cbn [cmp_list]. destruct (Z.ltb_spec x y); destruct (Z.ltb_spec y x); try lia; try reflexivity. apply IH.
Qed.

Lemma cmp_eq : forall a b, cmp_list a b = 0 -> a = b.
Proof.
  induction a as [|x a IH]; destruct b as [|y b]; intro H; try reflexivity; try discriminate.
  cbn [cmp_list] in H. destruct (Z.ltb_spec x y); [discriminate|]. destruct (Z.ltb_spec y x); [discriminate|].
  f_equal; [lia|now apply IH].
Qed.

Lemma cmp_range : forall a b, cmp_list a b = -1 \/ cmp_list a b = 0 \/ cmp_list a b = 1.
Proof.
  induction a as [|x a IH]; destruct b as [|y b]; cbn [cmp_list]; auto.
  destruct (x <? y); auto. destruct (y <? x); auto.
Qed.

Lemma cmp_trans : forall a b c, cmp_list a b = -1 -> cmp_list b c = -1 -> cmp_list a c = -1.
Proof.
  induction a as [|x a IH]; destruct b as [|y b]; destruct c as [|z c]; cbn [cmp_list]; intros H1 H2;
    try reflexivity; try discriminate.
  destruct (Z.ltb_spec x y); destruct (Z.ltb_spec y z); destruct (Z.ltb_spec x z); try reflexivity; try lia;
    destruct (Z.ltb_spec y x); destruct (Z.ltb_spec z y); destruct (Z.ltb_spec z x); try discriminate; try lia.
  eapply IH; eassumption.
Qed.

(* ------------------------------------------------------------------ *)
(* UTF-16 round trip: what Value.string() decodes from the units that utf16.Encode
   produced is the Go string again, for every sequence of Unicode scalar values *)

Ltac Zify.zify_post_hook ::= Z.div_mod_to_equations.

Lemma range_b : forall lo hi x, lo <= x <= hi -> (lo <=? x) && (x <=? hi) = true.
Proof. intros. destruct (Z.leb_spec lo x); destruct (Z.leb_spec x hi); try reflexivity; lia. Qed.
Lemma range_nb : forall lo hi x, x < lo \/ hi < x -> (lo <=? x) && (x <=? hi) = false.
Proof. intros. destruct (Z.leb_spec lo x); destruct (Z.leb_spec x hi); try reflexivity; lia. Qed.

Lemma valid_rune_spec : forall r, valid_rune r = true -> 0 <= r <= 0x10FFFF /\ (r < 0xD800 \/ 0xDFFF < r).
Proof.
  intros r H. unfold valid_rune, is_sur in H.
  destruct (Z.leb_spec 0 r); destruct (Z.leb_spec r 0x10FFFF); cbn [andb] in H; try discriminate.
  destruct (Z.leb_spec 0xD800 r); destruct (Z.leb_spec r 0xDFFF); cbn [andb negb] in H; try discriminate; lia.
Qed.

Lemma dec16_enc16_1 : forall r rest, valid_rune r = true -> dec16 (enc16_1 r ++ rest) = r :: dec16 rest.
Proof.
  intros r rest V. unfold enc16_1. rewrite V. apply valid_rune_spec in V as [R S].
  destruct (Z.ltb_spec r 0x10000).
  - cbn [app dec16]. unfold is_hi, is_lo. rewrite !range_nb by lia. reflexivity.
  - set (q := (r - 0x10000) / 0x400). set (m := (r - 0x10000) mod 0x400).
    assert (0 <= q < 0x400 /\ 0 <= m < 0x400 /\ r = 0x10000 + q * 0x400 + m) as (Hq & Hm & E) by (unfold q, m; lia).
    cbn [app dec16]. unfold is_hi, is_lo. rewrite !range_b by lia.
    unfold pair16. f_equal. lia.
Qed.

Theorem dec16_enc16 : forall s, scalars s -> dec16 (enc16 s) = s.
Proof.
  induction 1 as [|r s V _ IH]; [reflexivity|].
  unfold enc16 in *. cbn [flat_map]. rewrite dec16_enc16_1 by exact V. now rewrite IH.
Qed.

(* ------------------------------------------------------------------ *)
(* UTF-8 round trip: []rune(string(runes)) = runes for every sequence of scalar values;
   in particular otto's utf16Length of a Go string is the number of its UTF-16 units *)

Lemma dec8_step1 : forall b0 rest, b0 < 0x80 -> dec8 (b0 :: rest) = b0 :: dec8 rest.
Proof. intros. cbn [dec8]. destruct (Z.ltb_spec b0 0x80); [reflexivity|lia]. Qed.
Lemma dec8_step2 : forall b0 b1 rest, 0x80 <= b0 -> ok2 b0 b1 = true ->
  dec8 (b0 :: b1 :: rest) = r2 b0 b1 :: dec8 rest.
Proof. intros b0 b1 rest H H2. cbn [dec8]. destruct (Z.ltb_spec b0 0x80); [lia|]. now rewrite H2. Qed.
Lemma dec8_step3 : forall b0 b1 b2 rest, 0x80 <= b0 -> ok2 b0 b1 = false -> ok3 b0 b1 b2 = true ->
  dec8 (b0 :: b1 :: b2 :: rest) = r3 b0 b1 b2 :: dec8 rest.
Proof. intros b0 b1 b2 rest H H2 H3. cbn [dec8]. destruct (Z.ltb_spec b0 0x80); [lia|]. now rewrite H2, H3. Qed.
Lemma dec8_step4 : forall b0 b1 b2 b3 rest, 0x80 <= b0 -> ok2 b0 b1 = false -> ok3 b0 b1 b2 = false ->
  ok4 b0 b1 b2 b3 = true -> dec8 (b0 :: b1 :: b2 :: b3 :: rest) = r4 b0 b1 b2 b3 :: dec8 rest.
Proof.
  intros b0 b1 b2 b3 rest H H2 H3 H4. cbn [dec8]. destruct (Z.ltb_spec b0 0x80); [lia|]. now rewrite H2, H3, H4.
Qed.

Lemma is_cont_b : forall x, 0 <= x < 64 -> is_cont (0x80 + x) = true.
Proof. intros. unfold is_cont. apply range_b. lia. Qed.

Lemma dec8_enc8_1 : forall r rest, valid_rune r = true -> dec8 (enc8_1 r ++ rest) = r :: dec8 rest.
Proof.
  intros r rest V. unfold enc8_1. rewrite V. apply valid_rune_spec in V as [R S].
  destruct (Z.ltb_spec r 0x80); [cbn [app]; apply dec8_step1; lia|].
  destruct (Z.ltb_spec r 0x800).
  { (* two bytes *)
    set (a := r / 64). set (c := r mod 64).
    assert (2 <= a < 32 /\ 0 <= c < 64 /\ r = a * 64 + c) as (Ha & Hc & E) by (unfold a, c; lia).
    cbn [app]. rewrite dec8_step2; [|lia|].
    - f_equal. unfold r2. lia.
    - unfold ok2. rewrite range_b by lia. now rewrite is_cont_b. }
  destruct (Z.ltb_spec r 0x10000).
  { (* three bytes *)
    set (a := r / 4096). set (b := (r / 64) mod 64). set (c := r mod 64).
    assert (0 <= a < 16 /\ 0 <= b < 64 /\ 0 <= c < 64 /\ r = a * 4096 + b * 64 + c) as (Ha & Hb & Hc & E)
      by (unfold a, b, c; lia).
    cbn [app]. rewrite dec8_step3; [| lia | |].
    - f_equal. unfold r3. lia.
    - unfold ok2. rewrite (range_nb 0xC2 0xDF) by lia. reflexivity.
    - unfold ok3. rewrite (range_b 0xE0 0xEF) by lia. rewrite (is_cont_b c) by lia. cbn [andb].
      destruct (Z.eqb_spec (0xE0 + a) 0xE0); [apply range_b; lia|].
      destruct (Z.eqb_spec (0xE0 + a) 0xED); [apply range_b; lia|].
      apply is_cont_b; lia. }
  (* four bytes *)
  set (a := r / 262144). set (b := (r / 4096) mod 64). set (c := (r / 64) mod 64). set (d := r mod 64).
  assert (0 <= a <= 4 /\ 0 <= b < 64 /\ 0 <= c < 64 /\ 0 <= d < 64 /\ r = a * 262144 + b * 4096 + c * 64 + d)
    as (Ha & Hb & Hc & Hd & E) by (unfold a, b, c, d; lia).
  cbn [app]. rewrite dec8_step4; [| lia | | |].
  - f_equal. unfold r4. lia.
  - unfold ok2. rewrite (range_nb 0xC2 0xDF) by lia. reflexivity.
  - unfold ok3. rewrite (range_nb 0xE0 0xEF) by lia. reflexivity.
  - unfold ok4. rewrite (range_b 0xF0 0xF4) by lia. rewrite (is_cont_b c), (is_cont_b d) by lia. cbn [andb].
    destruct (Z.eqb_spec (0xF0 + a) 0xF0); [apply range_b; lia|].
    destruct (Z.eqb_spec (0xF0 + a) 0xF4); [apply range_b; lia|].
    apply is_cont_b; lia.
Qed.

Theorem dec8_enc8 : forall s, scalars s -> dec8 (enc8 s) = s.
Proof.
  induction 1 as [|r s V _ IH]; [reflexivity|].
  unfold enc8 in *. cbn [flat_map]. rewrite dec8_enc8_1 by exact V. now rewrite IH.
Qed.

Theorem utf16Length_go_string : forall s, scalars s -> utf16Length (enc8 s) = zlen (enc16 s).
Proof. intros s H. unfold utf16Length. now rewrite dec8_enc8. Qed.

(* ------------------------------------------------------------------ *)
(* after the repairs 8a02cb3 / 27b5748 / 4b90749 / 02e659b *)

(* ToUint32 / ToUint16 as otto computes them are the ES5 9.6 / 9.7 functions, for every double *)
Theorem go_uint_is_to_uint : forall k a, go_uint k a = to_uint k a.
Proof.
  intros k a. unfold go_uint, to_uint, to_integer. destruct (to_number a) as [b|]; cbn [option_map]; [|reflexivity].
  unfold to_integer_bits. destruct (decode b) as [|neg|neg m e]; try reflexivity.
  destruct neg; reflexivity.
Qed.

(* charAt / charCodeAt are generic: any receiver but undefined, whose text has no surrogate and no U+FFFD *)
Theorem charAt_call_refines : forall m r args u,
  (m = MCharAt \/ m = MCharCodeAt) -> r <> RUndef -> this_string r = Some u ->
  bmp_clean u -> ~ In 0xFFFD u -> zlen u < 2 ^ 62 ->
  call_model m r args = call_spec m r args.
Proof.
  intros m r args u Hm NU TS B NF L.
  assert (G : this_gostring m r = Some (dec16 u)).
  { rewrite generic_receiver; [now rewrite TS | exact NU]. }
  destruct Hm as [-> | ->]; unfold call_model, call_spec; rewrite G, TS.
  - apply (charAt_refines_bmp u (arg_at args 0) false B NF L).
  - apply (charAt_refines_bmp u (arg_at args 0) true B NF L).
Qed.

(* lastIndexOf on ASCII strings, every position except NaN and -Infinity (finding C09-lastindexof-position) *)
Lemma lastIndexRune_ascii : forall v t, ascii v ->
  lastIndexRune v t = match find_last t v with Some k => k | None => -1 end.
Proof.
  intros v t A. unfold lastIndexRune. destruct (find_last t v) as [k|] eqn:F; [|reflexivity].
  apply find_last_some in F as (R & _ & _).
  rewrite utf16Length_ascii by now apply ascii_firstn. now apply zlen_firstn.
Qed.

Lemma firstn_beyond : forall (s : str) n, zlen s <= n -> firstn (Z.to_nat n) s = s.
Proof. intros s n H. apply firstn_all2. unfold zlen in H. lia. Qed.

Lemma lastIndexOf_whole : forall s t, lastIndexOf s t PInf = match find_last t s with Some k => k | None => -1 end.
Proof.
  intros s t. unfold lastIndexOf, clamp. cbn [ext_max ext_min].
  rewrite firstn_beyond by (pose proof (zlen_nonneg _ t); lia). reflexivity.
Qed.

Theorem lastIndexOf_refines_ascii_absent : forall s t nargs a1, ascii s -> ascii t ->
  (nargs < 2)%nat \/ a1 = AUndef ->
  m_lastIndexOf s t nargs a1 = Some (VInt (lastIndexOf s t PInf)).
Proof.
  intros s t nargs a1 As At H. unfold m_lastIndexOf. rewrite (enc8_ascii s As), (enc8_ascii t At).
  rewrite lastIndexRune_ascii by exact As. rewrite lastIndexOf_whole.
  destruct (Nat.ltb_spec nargs 2); [reflexivity|]. destruct H as [H| ->]; [lia|reflexivity].
Qed.

Lemma lastIndexOf_clamp : forall z len, 0 <= len < 2 ^ 62 ->
  let n := if 2 ^ 63 <=? z then max64 else if z <=? - 2 ^ 63 then min64 else z in
  (if len <? (if n <? 0 then 0 else n) then len else if n <? 0 then 0 else n) = Z.min (Z.max z 0) len.
Proof.
  intros z len H n. unfold n. big.
  destruct (Z.leb_spec 9223372036854775808 z); [|destruct (Z.leb_spec z (Z.opp 9223372036854775808))].
  - destruct (Z.ltb_spec (9223372036854775808 - 1) 0); [lia|]. split_ifs.
  - destruct (Z.ltb_spec (Z.opp 9223372036854775808) 0); [|lia]. split_ifs.
  - destruct (Z.ltb_spec z 0); split_ifs.
Qed.

Lemma number_bits_cases : forall b,
  let p := if is_nan_bits b then PInf else to_integer_bits b in
  (p = PInf /\ fst (number_bits b) = true) \/
  (p = NInf /\ number_bits b = (false, min64)) \/
  (exists z, p = Fin z /\
             number_bits b = (false, if 2 ^ 63 <=? z then max64 else if z <=? - 2 ^ 63 then min64 else z)).
Proof.
  intros b. unfold is_nan_bits, to_integer_bits, number_bits.
  destruct (decode b) as [|neg|neg m e].
  - left. split; reflexivity.
  - destruct neg; [right; left; split; reflexivity | left; split; reflexivity].
  - right. right. eexists. split; [reflexivity|].
    destruct (2 ^ 63 <=? _); [reflexivity|]. destruct (_ <=? - 2 ^ 63); reflexivity.
Qed.

(* every position argument, NaN and both infinities included (after ea386ab) *)
Theorem lastIndexOf_refines_ascii : forall s t nargs a1 b, ascii s -> ascii t -> zlen s < 2 ^ 62 ->
  (2 <= nargs)%nat -> a1 <> AUndef -> to_number a1 = Some b ->
  m_lastIndexOf s t nargs a1 =
  Some (VInt (lastIndexOf s t (if is_nan_bits b then PInf else to_integer_bits b))).
Proof.
  intros s t nargs a1 b As At L N2 NU TN.
  unfold m_lastIndexOf. cbv zeta. rewrite (enc8_ascii s As), (enc8_ascii t At).
  pose proof (zlen_nonneg _ s) as Hs. pose proof (zlen_nonneg _ t) as Ht.
  destruct (Nat.ltb_spec nargs 2); [lia|].
  set (p := if is_nan_bits b then PInf else to_integer_bits b).
  assert (W : Some (VInt (lastIndexRune s t)) = Some (VInt (lastIndexOf s t PInf))).
  { now rewrite lastIndexRune_ascii, lastIndexOf_whole. }
  assert (Body : (if zlen s =? 0 then Some (VInt (lastIndexRune s t))
                  else match number a1 with
                       | Some (whole_string, n) =>
                           if whole_string then Some (VInt (lastIndexRune s t))
                           else Some (VInt (lastIndexRune
                                  (firstn (Z.to_nat (if zlen s <? (if zlen s <? (if n <? 0 then 0 else n) then zlen s else if n <? 0 then 0 else n) + zlen t
                                                     then zlen s
                                                     else (if zlen s <? (if n <? 0 then 0 else n) then zlen s else if n <? 0 then 0 else n) + zlen t)) s) t))
                       | None => None
                       end) = Some (VInt (lastIndexOf s t p))).
  { destruct (Z.eqb_spec (zlen s) 0) as [Z0|Z0].
    - rewrite W. do 2 f_equal. unfold lastIndexOf.
      pose proof (clamp_range p (zlen s) Hs).
      pose proof (clamp_range PInf (zlen s) Hs).
      rewrite !firstn_beyond by lia. reflexivity.
    - unfold number. rewrite TN. cbn [option_map].
      assert (Fin_case : forall z n, n = (if 2 ^ 63 <=? z then max64 else if z <=? - 2 ^ 63 then min64 else z) ->
                Some (VInt (lastIndexRune
                   (firstn (Z.to_nat (if zlen s <? (if zlen s <? (if n <? 0 then 0 else n) then zlen s else if n <? 0 then 0 else n) + zlen t
                                      then zlen s
                                      else (if zlen s <? (if n <? 0 then 0 else n) then zlen s else if n <? 0 then 0 else n) + zlen t)) s) t))
                = Some (VInt (lastIndexOf s t (Fin z)))).
      { intros z n ->.
        pose proof (lastIndexOf_clamp z (zlen s) ltac:(lia)) as C. cbv zeta in C. rewrite C.
        rewrite lastIndexRune_ascii by now apply ascii_firstn.
        unfold lastIndexOf, clamp. cbn [ext_max ext_min].
        set (st := Z.min (Z.max z 0) (zlen s)).
        destruct (Z.ltb_spec (zlen s) (st + zlen t)); [|reflexivity].
        rewrite (firstn_beyond s (st + zlen t)) by lia. rewrite (firstn_beyond s (zlen s)) by lia. reflexivity. }
      destruct (number_bits_cases b) as [[P I]|[[P I]|[z [P I]]]]; fold p in P; rewrite P.
      + destruct (number_bits b) as [w n]. cbn [fst] in I. subst w. exact W.
      + rewrite I.
        (* -Infinity is the position -2^63: the same clamp as for that integer *)
        rewrite (Fin_case (- 2 ^ 63) min64) by reflexivity.
        reflexivity.
      + rewrite I. now apply Fin_case. }
  destruct a1; try congruence; exact Body.
Qed.

(* only the decimal text of an index is an index name of a String object (15.5.5.2) *)
Lemma zlist_eqb_eq : forall a b, list_eqb Z.eqb a b = true -> a = b.
Proof.
  induction a as [|x a IH]; destruct b as [|y b]; cbn [list_eqb]; intro H; try reflexivity; try discriminate.
  apply andb_prop in H as [E H]. apply Z.eqb_eq in E. subst. f_equal. now apply IH.
Qed.

Theorem index_name_canonical : forall p, 0 <= string_to_array_index p ->
  int_text (string_to_array_index p) = p /\ string_to_array_index p < 4294967295.
Proof.
  intros p H. unfold string_to_array_index in *.
  destruct (parse_int_go p) as [i|]; [|lia].
  destruct (Z.ltb_spec i 0); [lia|]. destruct (Z.leb_spec 4294967295 i); [lia|].
  destruct (list_eqb Z.eqb (int_text i) p) eqn:E; [|lia]. split; [now apply zlist_eqb_eq|lia].
Qed.

(* ------------------------------------------------------------------ *)
(* index properties of String objects (15.5.5.2) *)
From Otto Require Import C09.SpecObj C09.ModelObj.

Lemma char_prop_out : forall u k, zlen u <= k \/ k < 0 -> char_prop (Some u) k = None.
Proof.
  intros u k H. unfold char_prop.
  destruct (Z.leb_spec 0 k); destruct (Z.ltb_spec k (zlen u)); cbn [andb]; try reflexivity; lia.
Qed.

(* at or beyond the length a String object behaves as an ordinary object: the property map alone answers *)
Theorem own_get_beyond : forall u st k, zlen u <= k \/ k < 0 ->
  own_get u st LS k = lookup k (m_s st).
Proof.
  intros u st k H. unfold own_get. cbn [map_of text_of]. destruct (lookup k (m_s st)); [reflexivity|].
  now apply char_prop_out.
Qed.

(* below the length the code unit is a read-only, enumerable, permanent own property *)
Theorem own_get_inrange : forall u st k, 0 <= k < zlen u -> lookup k (m_s st) = None ->
  own_get u st LS k = Some (PData (PStr [unit_at u k]) false true false).
Proof.
  intros u st k H L. unfold own_get. cbn [map_of text_of]. rewrite L. unfold char_prop.
  destruct (Z.leb_spec 0 k); destruct (Z.ltb_spec k (zlen u)); cbn [andb]; try reflexivity; lia.
Qed.

(* so an assignment to it is refused and a delete fails, in every state *)
Theorem inrange_write_refused : forall u st k v, 0 <= k < zlen u -> lookup k (m_s st) = None ->
  put u st LS k v = st /\ delete u st LS k = (st, false).
Proof.
  intros u st k v H L. unfold put, delete. rewrite (own_get_inrange u st k H L). split; reflexivity.
Qed.

(* otto's defineProperty is the ES5 one for every index at or beyond the length (and on the prototypes) *)
Theorem define_beyond_refines : forall u st l k d,
  (l = LS -> zlen u <= k \/ k < 0) ->
  define_model u st l k d = define_spec u st l k d.
Proof.
  intros u st l k d H. unfold define_model, define_spec. destruct (lookup k (map_of st l)); [reflexivity|].
  destruct l; cbn [text_of].
  - rewrite char_prop_out by (now apply H). reflexivity.
  - unfold char_prop. change (zlen []) with 0.
    destruct (Z.leb_spec 0 k); destruct (Z.ltb_spec k 0); cbn [andb]; try reflexivity; lia.
  - reflexivity.
Qed.

(* 8.7.2: a write through a primitive string goes to a temporary object; no later observation can see it *)
Theorem primitive_writes_vanish : forall define keys call u st k v m n,
  step_obj define keys call u st (OSetPrim k v) = Some (st, VUndef) /\
  step_obj define keys call u st (OSetPrimMethod m) = Some (st, VUndef) /\
  step_obj define keys call u st (OSetLenPrim n) = Some (st, VUndef).
Proof. intros. repeat split. Qed.

(* a missing argument is undefined: an empty argument list and an explicit undefined give the same call *)
Theorem missing_argument_is_undefined : forall m r,
  m <> MConcat -> call_model m r [] = call_model m r [AUndef] /\ call_spec m r [] = call_spec m r [AUndef].
Proof.
  intros m r H. destruct m; try congruence; split; reflexivity.
Qed.

(* s[i] after 66edf49: every index below the length gives its code unit, U+FFFD included *)
Theorem index_at_bmp : forall u i, bmp_clean u -> 0 <= i < zlen u ->
  m_index_at (dec16 u) i = VStr [unit_at u i].
Proof.
  intros u i B H. unfold m_index_at. rewrite (dec16_bmp u B), (enc16_bmp u B).
  destruct (Z.leb_spec 0 i); destruct (Z.ltb_spec i (zlen u)); cbn [andb]; try lia.
  pose proof (unit_at_in u i H) as I. unfold bmp_clean in B. rewrite Forall_forall in B.
  destruct (B _ I) as [Hr Hs]. unfold rune_string. rewrite (valid_bmp _ Hr Hs).
  f_equal. apply enc16_bmp. constructor; [split; assumption|constructor].
Qed.
Theorem index_at_beyond : forall s i, i < 0 \/ zlen (enc16 s) <= i -> m_index_at s i = VUndef.
Proof.
  intros s i H. unfold m_index_at.
  destruct (Z.leb_spec 0 i); destruct (Z.ltb_spec i (zlen (enc16 s))); cbn [andb]; try reflexivity; lia.
Qed.
