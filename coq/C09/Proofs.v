(* lemmas for C09 *)
From Coq Require Import ZArith List Bool Lia.
From Otto Require Import Common.Double C09.Utf C09.Spec C09.Model.
Import ListNotations.
Open Scope Z_scope.

(* otto's trim set is exactly WhiteSpace + LineTerminator of ES5 7.2 / 7.3 *)
Lemma trim_set_exact : forall c, in_trim_set c = is_trim c.
Proof.
  intro c. unfold in_trim_set, otto_trim_set, is_trim, is_ws, is_lt. cbn [existsb].
  repeat match goal with
  | |- context [Z.eqb c ?k] => destruct (Z.eqb_spec c k) as [->|]; [vm_compute; reflexivity|]
  end.
  cbn [orb].
  destruct (Z.leb_spec 0x2000 c); destruct (Z.leb_spec c 0x200A); cbn [andb orb]; try reflexivity; lia.
Qed.
