(* ES5 15.5.5.2 together with the ordinary object internal methods (8.12.1 - 8.12.9) on the
   three objects a string index lookup can reach: a String object s wrapping the text u,
   String.prototype (a String object wrapping "") and Object.prototype.  Property names are
   canonical array indices (plain Z); property values are numbers, one-character strings or
   undefined; accessors have a getter returning a constant and / or a setter doing nothing. *)
From Coq Require Import ZArith List Bool.
From Otto Require Import Common.Corr C09.Utf C09.Spec.
Import ListNotations.
Open Scope Z_scope.

Inductive pv := PNum (n : Z) | PStr (u : str) | PUndef.
Inductive prop :=
| PData (v : pv) (w e c : bool)
| PAcc (g : option pv) (hasset : bool) (e c : bool).
Inductive ddesc :=            (* the argument of Object.defineProperty; absent fields are None *)
| DD (v : option pv) (w e c : option bool)
| DA (g : option pv) (hasset : bool) (e c : option bool).
Inductive lvl := LS | LSP | LOP.

Definition pmap := list (Z * prop).
Record ostate := { m_s : pmap; m_sp : pmap; m_op : pmap }.
Definition empty_state : ostate := {| m_s := []; m_sp := []; m_op := [] |}.

Definition map_of (st : ostate) (l : lvl) : pmap :=
  match l with LS => m_s st | LSP => m_sp st | LOP => m_op st end.
Definition with_map (st : ostate) (l : lvl) (m : pmap) : ostate :=
  match l with
  | LS => {| m_s := m; m_sp := m_sp st; m_op := m_op st |}
  | LSP => {| m_s := m_s st; m_sp := m; m_op := m_op st |}
  | LOP => {| m_s := m_s st; m_sp := m_sp st; m_op := m |}
  end.
Definition parent (l : lvl) : option lvl := match l with LS => Some LSP | LSP => Some LOP | LOP => None end.
(* the text whose code units are index properties of the object *)
Definition text_of (u : str) (l : lvl) : option str := match l with LS => Some u | LSP => Some [] | LOP => None end.

Fixpoint lookup (k : Z) (m : pmap) : option prop :=
  match m with [] => None | (k', p) :: m' => if k =? k' then Some p else lookup k m' end.
Fixpoint remove (k : Z) (m : pmap) : pmap :=
  match m with [] => [] | (k', p) :: m' => if k =? k' then m' else (k', p) :: remove k m' end.
Fixpoint replace (k : Z) (p : prop) (m : pmap) : pmap :=
  match m with [] => [] | (k', q) :: m' => if k =? k' then (k, p) :: m' else (k', q) :: replace k p m' end.

Definition char_prop (t : option str) (k : Z) : option prop :=
  match t with
  | Some u => if (0 <=? k) && (k <? zlen u) then Some (PData (PStr [unit_at u k]) false true false) else None
  | None => None
  end.

(* 15.5.5.2 [[GetOwnProperty]]: the ordinary own property first, then the code unit *)
Definition own_get (u : str) (st : ostate) (l : lvl) (k : Z) : option prop :=
  match lookup k (map_of st l) with
  | Some p => Some p
  | None => char_prop (text_of u l) k
  end.

(* 8.12.2 [[GetProperty]] *)
Definition get_prop (u : str) (st : ostate) (l : lvl) (k : Z) : option prop :=
  match own_get u st l k with
  | Some p => Some p
  | None =>
      match parent l with
      | None => None
      | Some l1 =>
          match own_get u st l1 k with
          | Some p => Some p
          | None => match parent l1 with Some l2 => own_get u st l2 k | None => None end
          end
      end
  end.

Definition read (p : option prop) : pv :=
  match p with
  | None => PUndef
  | Some (PData v _ _ _) => v
  | Some (PAcc (Some g) _ _ _) => g
  | Some (PAcc None _ _ _) => PUndef
  end.

(* 8.12.4 / 8.12.5 [[Put]] without throwing (non-strict code) *)
Definition put (u : str) (st : ostate) (l : lvl) (k : Z) (v : pv) : ostate :=
  match own_get u st l k with
  | Some (PData _ w e c) =>
      if w then with_map st l (replace k (PData v w e c) (map_of st l)) else st
  | Some (PAcc _ _ _ _) => st
  | None =>
      let inherited := match parent l with Some l1 => get_prop u st l1 k | None => None end in
      match inherited with
      | Some (PAcc _ _ _ _) => st
      | Some (PData _ false _ _) => st
      | _ => with_map st l (map_of st l ++ [(k, PData v true true true)])
      end
  end.

(* 8.12.7 [[Delete]] *)
Definition delete (u : str) (st : ostate) (l : lvl) (k : Z) : ostate * bool :=
  match own_get u st l k with
  | None => (st, true)
  | Some p =>
      let c := match p with PData _ _ _ c => c | PAcc _ _ _ c => c end in
      if c then (with_map st l (remove k (map_of st l)), true) else (st, false)
  end.

Definition ob (o : option bool) : bool := match o with Some b => b | None => false end.
Definition fresh_prop (d : ddesc) : prop :=
  match d with
  | DD v w e c => PData (match v with Some x => x | None => PUndef end) (ob w) (ob e) (ob c)
  | DA g hs e c => PAcc g hs (ob e) (ob c)
  end.

Definition pv_eqb (a b : pv) : bool :=
  match a, b with
  | PNum x, PNum y => x =? y
  | PStr x, PStr y => zlist_eqb x y
  | PUndef, PUndef => true
  | _, _ => false
  end.

(* 8.12.9 against a current property that is {[[Value]]: ch, writable false, enumerable true,
   configurable false}: accepted only when nothing would change *)
Definition char_define_ok (ch : pv) (d : ddesc) : bool :=
  match d with
  | DA _ _ _ _ => false
  | DD v w e c =>
      negb (ob c) && (match e with Some false => false | _ => true end) &&
      negb (ob w) && (match v with Some x => pv_eqb x ch | None => true end)
  end.

(* Object.defineProperty(obj, k, d): new state and whether it threw TypeError; None = the
   property already exists as an ordinary property (attribute merging is outside this model) *)
Definition define_spec (u : str) (st : ostate) (l : lvl) (k : Z) (d : ddesc) : option (ostate * bool) :=
  match lookup k (map_of st l) with
  | Some _ => None
  | None =>
      match char_prop (text_of u l) k with
      | Some (PData ch _ _ _) => Some (st, negb (char_define_ok ch d))
      | _ => Some (with_map st l (map_of st l ++ [(k, fresh_prop d)]), false)
      end
  end.

Definition is_enum (p : prop) : bool := match p with PData _ _ e _ => e | PAcc _ _ e _ => e end.

Fixpoint insert_sorted (k : Z) (l : list Z) : list Z :=
  match l with [] => [k] | x :: l' => if k <=? x then k :: l else x :: insert_sorted k l' end.
Definition sort (l : list Z) : list Z := fold_right insert_sorted [] l.
Fixpoint iota (n : nat) (from : Z) : list Z := match n with O => [] | S n' => from :: iota n' (from + 1) end.

(* own property names that are indices (sorted; ES5 leaves the enumeration order open) *)
Definition own_keys (u : str) (st : ostate) (only_enum : bool) : list Z :=
  sort (iota (length u) 0 ++
        map fst (filter (fun kp => (negb only_enum || is_enum (snd kp)) &&
                                   negb ((0 <=? fst kp) && (fst kp <? zlen u))) (m_s st))).

(* ---------- observable operations ---------- *)
Inductive oop :=
| OSet (l : lvl) (k : Z) (v : pv)
| ODefine (l : lvl) (k : Z) (d : ddesc)
| ODelete (l : lvl) (k : Z)
| OGet (k : Z) | OGetPrim (k : Z) | OIn (k : Z) | OHasOwn (k : Z) | ODesc (k : Z)
| OKeys | ONames
| OCall (m : meth) (args : list arg)
(* through the primitive string itself: 8.7.1 / 8.7.2 build a new temporary String object for
   every access, so nothing written this way can ever be read back *)
| OSetPrim (k : Z) (v : pv)          (* p[k] = v *)
| OSetPrimMethod (m : meth)          (* p.m = function(){ return "?" } *)
| OSetLenPrim (n : Z)                (* p.length = n *)
| OCallPrim (m : meth) (args : list arg)
| OHasOwnPrim (k : Z) | ODeletePrim (k : Z) | OLenPrim.

Definition res_of_pv (v : pv) : res :=
  match v with PNum n => VInt n | PStr u => VStr u | PUndef => VUndef end.
Definition zb (b : bool) : Z := if b then 1 else 0.
Definition res_of_desc (p : option prop) : res :=
  match p with
  | None => VUndef
  | Some (PData v w e c) =>
      VList [[0; zb w; zb e; zb c];
             match v with PNum n => [0; n] | PStr u => 1 :: u | PUndef => [2] end]
  | Some (PAcc g hs e c) => VList [[1; zb (match g with Some _ => true | None => false end); zb hs; zb e; zb c]]
  end.

Definition step_obj (define : str -> ostate -> lvl -> Z -> ddesc -> option (ostate * bool))
                    (keys : str -> ostate -> bool -> list Z)
                    (call : meth -> recv -> list arg -> option res)
                    (u : str) (st : ostate) (o : oop) : option (ostate * res) :=
  match o with
  | OSet l k v => Some (put u st l k v, VUndef)
  | ODefine l k d =>
      match define u st l k d with
      | Some (st', threw) => Some (st', if threw then VErr 6 else VInt 1)
      | None => None
      end
  | ODelete l k => let '(st', b) := delete u st l k in Some (st', VInt (zb b))
  | OGet k => Some (st, res_of_pv (read (get_prop u st LS k)))
  | OGetPrim k =>
      Some (st, res_of_pv (read (match char_prop (Some u) k with
                                 | Some p => Some p
                                 | None => get_prop u st LSP k
                                 end)))
  | OIn k => Some (st, VInt (zb (match get_prop u st LS k with Some _ => true | None => false end)))
  | OHasOwn k => Some (st, VInt (zb (match own_get u st LS k with Some _ => true | None => false end)))
  | ODesc k => Some (st, res_of_desc (own_get u st LS k))
  | OKeys => Some (st, VList [keys u st true])
  | ONames => Some (st, VList [keys u st false])
  | OCall m args => option_map (fun r => (st, r)) (call m (RStrObj u) args)
  | OSetPrim _ _ | OSetPrimMethod _ | OSetLenPrim _ => Some (st, VUndef)
  | OCallPrim m args => option_map (fun r => (st, r)) (call m (RLit u) args)
  | OHasOwnPrim k => Some (st, VInt (zb (match char_prop (Some u) k with Some _ => true | None => false end)))
  | ODeletePrim k => Some (st, VInt (zb (match char_prop (Some u) k with Some _ => false | None => true end)))
  | OLenPrim => option_map (fun r => (st, r)) (call MLength (RLit u) [])
  end.

Fixpoint run_obj (step : ostate -> oop -> option (ostate * res)) (st : ostate) (ops : list oop)
  : option (list res) :=
  match ops with
  | [] => Some []
  | o :: ops' =>
      match step st o with
      | None => None
      | Some (st', r) => option_map (cons r) (run_obj step st' ops')
      end
  end.
