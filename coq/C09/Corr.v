(* correspondence cases for C09: what the harness observed on the real
   interpreter against Model (otto's byte/rune algorithms) and Spec (ES5 15.5
   over UTF-16 units) *)
From Coq Require Import ZArith Bool List.
From Otto Require Import Common.Corr Common.Double C09.Utf C09.Model.
From Otto Require Export C09.Spec.
Import ListNotations.
Open Scope Z_scope.

Inductive case :=
| CCall (m : meth) (r : recv) (args : list arg) (obs : res)
    (* one call this.m(args) *)
| CFrom (args : list arg) (obs : res)
    (* String.fromCharCode(args) *)
| CCmp (a b : str) (ab ba aa : Z)
    (* a.localeCompare(b), b.localeCompare(a), a.localeCompare(a) *)
| CChain (u : str) (ops : list (meth * list arg)) (obs : list res).
    (* var s = u; then for each op: r = s.m(args); observe r; if r is a string, s = r *)

Definition res_eqb (a b : res) : bool :=
  match a, b with
  | VStr x, VStr y => zlist_eqb x y
  | VInt x, VInt y => x =? y
  | VNaN, VNaN => true
  | VUndef, VUndef => true
  | VList x, VList y => list_eqb zlist_eqb x y
  | VErr x, VErr y => x =? y
  | _, _ => false
  end.

(* ---------- finding classes ----------
   1 byte / rune offsets where ES5 counts UTF-16 units
   2 lone surrogates (and halves of a pair) are not representable: they become U+FFFD
   3 U+FFFD doubles as the "out of range" sentinel of charAt / charCodeAt / s[i]
   4 charAt / charCodeAt dereference nil for receivers that are not String objects (Go panic)
   5 undefined this is replaced by the global object; substr does not reject null
   6 lastIndexOf: NaN position taken as 0, -Infinity as +Infinity
   7 int64 wrap-around in substr / lastIndexOf ends in a Go slice-bounds panic
   8 "01", "+1", "-0" accepted as index property names of a string *)
Definition has_lone (u : str) : bool := negb (zlist_eqb (enc16 (dec16 u)) u).
Definition arg_lone (a : arg) : bool := match a with AStr u => has_lone u | _ => false end.
Definition has_fffd (u : str) : bool := existsb (Z.eqb 0xFFFD) u.
Definition recv_units (r : recv) : str :=
  match r with RLit u | RCallStr u | RStrObj u | RObj u => u | _ => [] end.
Definition is_charm (m : meth) : bool :=
  match m with MCharAt | MCharCodeAt => true | _ => false end.
Definition is_indexy (m : meth) : bool :=
  match m with MCharAt | MCharCodeAt | MIndex => true | _ => false end.
Definition res_has_sur (r : option res) : bool :=
  match r with
  | Some (VStr u) => existsb is_sur u && has_lone u
  | Some (VList l) => existsb has_lone l
  | _ => false
  end.

Definition classify (m : meth) (r : recv) (args : list arg) : Z :=
  match r with
  | RUndef => 5
  | RNull => 5
  | _ =>
      if is_charm m && (match this_object r with TPrim | TOtherObj => true | _ => false end) then 4
      else if (match call_model m r args with Some (VErr 9) => true | _ => false end) then 7
      else if (match m with MLastIndexOf => true | _ => false end) &&
              (match to_number (arg_at args 1) with
               | Some b => (2 <=? length args)%nat && negb (match arg_at args 1 with AUndef => true | _ => false end) &&
                           (is_nan_bits b || (b =? ninf_bits))
               | None => false end) then 6
      else if has_lone (recv_units r) || existsb arg_lone args then 2
      else if is_indexy m && has_fffd (recv_units r) then 3
      else if (match m, arg_at args 0 with
               | MIndex, AStr p => match canonical_index p with None => 0 <=? string_to_array_index p | Some _ => false end
               | _, _ => false end) then 8
      else if res_has_sur (call_spec m r args) then 2
      else 1
  end.

Definition call_verdict (m : meth) (r : recv) (args : list arg) (obs : res) : Z * Z :=
  match call_model m r args, call_spec m r args with
  | Some mo, Some sp => judge res_eqb obs mo sp (classify m r args)
  | _, _ => declined
  end.

(* chains: the model chain follows the model's strings, the spec chain follows the spec's *)
Fixpoint chain (f : meth -> recv -> list arg -> option res) (cur : str)
         (ops : list (meth * list arg)) : option (list res) :=
  match ops with
  | [] => Some []
  | (m, a) :: ops' =>
      match f m (RLit cur) a with
      | None => None
      | Some r =>
          let cur' := match r with VStr u => u | _ => cur end in
          option_map (cons r) (chain f cur' ops')
      end
  end.

(* class of a chain = class of its first deviating step *)
Fixpoint chain_class (cur_m cur_s : str) (ops : list (meth * list arg)) : Z :=
  match ops with
  | [] => 0
  | (m, a) :: ops' =>
      match call_model m (RLit cur_m) a, call_spec m (RLit cur_s) a with
      | Some rm, Some rs =>
          if res_eqb rm rs then
            chain_class (match rm with VStr u => u | _ => cur_m end)
                        (match rs with VStr u => u | _ => cur_s end) ops'
          else classify m (RLit cur_m) a
      | _, _ => 0
      end
  end.

Definition triple_eqb (a b : Z * Z * Z) : bool :=
  let '(a1, a2, a3) := a in let '(b1, b2, b3) := b in (a1 =? b1) && (a2 =? b2) && (a3 =? b3).

Definition verdict (c : case) : Z * Z :=
  match c with
  | CCall m r args obs => call_verdict m r args obs
  | CFrom args obs =>
      match m_fromCharCode args, fromCharCode args with
      | Some mo, Some sp => judge res_eqb obs (VStr mo) (VStr sp) 2
      | _, _ => declined
      end
  | CCmp a b ab ba aa =>
      (* 15.5.4.9 leaves the order implementation-defined; what is required of it (a total
         order, 0 exactly on equal strings) is proved of the model's order in Proofs.v *)
      let mo := (m_localeCompare a b, m_localeCompare b a, m_localeCompare a a) in
      judge triple_eqb (ab, ba, aa) mo mo 0
  | CChain u ops obs =>
      match chain call_model u ops, chain call_spec u ops with
      | Some mo, Some sp => judge (list_eqb res_eqb) obs mo sp (chain_class u u ops)
      | _, _ => declined
      end
  end.
