(* correspondence cases for C09: what the harness observed on the real
   interpreter against Model (otto's byte/rune algorithms) and Spec (ES5 15.5
   over UTF-16 units) *)
From Coq Require Import ZArith Bool List.
From Otto Require Import Common.Corr Common.Double C09.Utf C09.Model.
From Otto Require Import C09.ModelObj.
From Otto Require Export C09.Spec C09.SpecObj.
Import ListNotations.
Open Scope Z_scope.

Inductive case :=
| CCall (m : meth) (r : recv) (args : list arg) (obs : res)
    (* one call this.m(args) *)
| CFrom (args : list arg) (obs : res)
    (* String.fromCharCode(args) *)
| CCmp (a b : str) (ab ba aa : Z)
    (* a.localeCompare(b), b.localeCompare(a), a.localeCompare(a) *)
| CChain (u : str) (ops : list (meth * list arg)) (obs : list res)
| CEffect (steps : list (option meth * erecv * list earg)) (obs : list (res * list Z))
    (* a history on one runtime of calls whose receiver / arguments are objects with logging,
       possibly throwing toString / valueOf; per step: result (8 = it threw) and conversion log *)
| CPatched (x : str) (m : meth) (r : recv) (args : list arg) (obs : res)
| CProps (u : str) (ops : list oop) (obs : list res).
    (* var s = new String(u); then a history of index-property operations on s, String.prototype
       and Object.prototype (assignment, defineProperty, delete) and reads (s[k], u[k], in,
       hasOwnProperty, getOwnPropertyDescriptor, keys, getOwnPropertyNames, method calls) *)
    (* String.prototype.toString = function(){ return x }; then this.m(args) *)
    (* var s = u; then for each op: r = s.m(args); observe r; if r is a string, s = r *)

Definition res_eqb (a b : res) : bool :=
  match a, b with
  | VStr x, VStr y => zlist_eqb x y
  | VInt x, VInt y => x =? y
  | VNaN, VNaN => true
  | VUndef, VUndef => true
  | VList x, VList y => list_eqb zlist_eqb x y
  | VErr x, VErr y => x =? y
  | _, _ => false
  end.

(* ---------- finding classes ----------
   1 byte / rune offsets where ES5 counts UTF-16 units
   2 lone surrogates (and halves of a pair) are not representable: they become U+FFFD
   3 U+FFFD doubles as the "out of range" sentinel of charAt / charCodeAt (s[i] repaired by 66edf49)
   4 (fixed 8a02cb3, no longer produced) charAt / charCodeAt receivers that are not String objects
   5 undefined this is replaced by the global object (Function.prototype.call / apply)
   6 (fixed ea386ab, no longer produced) lastIndexOf: NaN position taken as 0, -Infinity as +Infinity
   7 (fixed 27b5748, no longer produced) int64 wrap-around in substr / lastIndexOf
   8 (fixed 4b90749, no longer produced) "01", "+1", "-0" accepted as index names
   9 argument conversions out of the ES5 step order: skipped (split with limit 0, lastIndexOf on
     the empty string) or reordered (charAt / charCodeAt convert the position before this)
   10 a replaced String.prototype.toString is applied to primitive string receivers
   11 Object.defineProperty on an index below the length of a String object is accepted and the
      new property hides the code unit (15.5.5.2 + 8.12.9: TypeError unless nothing changes) *)
Definition has_lone (u : str) : bool := negb (zlist_eqb (enc16 (dec16 u)) u).
Definition arg_lone (a : arg) : bool := match a with AStr u => has_lone u | _ => false end.
Definition has_fffd (u : str) : bool := existsb (Z.eqb 0xFFFD) u.
Definition recv_units (r : recv) : str :=
  match r with RLit u | RCallStr u | RStrObj u | RObj u => u | _ => [] end.
Definition is_charm (m : meth) : bool :=
  match m with MCharAt | MCharCodeAt => true | _ => false end.
Definition is_indexy (m : meth) : bool :=
  match m with MCharAt | MCharCodeAt | MIndex => true | _ => false end.
Definition res_has_sur (r : option res) : bool :=
  match r with
  | Some (VStr u) => existsb is_sur u && has_lone u
  | Some (VList l) => existsb has_lone l
  | _ => false
  end.

Definition classify (m : meth) (r : recv) (args : list arg) : Z :=
  match r with
  | RUndef => 5
  | _ =>
      if has_lone (recv_units r) || existsb arg_lone args then 2
      else if is_charm m && has_fffd (recv_units r) then 3
      else if res_has_sur (call_spec m r args) then 2
      else 1
  end.

Definition call_verdict (m : meth) (r : recv) (args : list arg) (obs : res) : Z * Z :=
  match call_model m r args, call_spec m r args with
  | Some mo, Some sp => judge res_eqb obs mo sp (classify m r args)
  | _, _ => declined
  end.

(* chains: the model chain follows the model's strings, the spec chain follows the spec's *)
Fixpoint chain (f : meth -> recv -> list arg -> option res) (cur : str)
         (ops : list (meth * list arg)) : option (list res) :=
  match ops with
  | [] => Some []
  | (m, a) :: ops' =>
      match f m (RLit cur) a with
      | None => None
      | Some r =>
          let cur' := match r with VStr u => u | _ => cur end in
          option_map (cons r) (chain f cur' ops')
      end
  end.

(* class of a chain = class of its first deviating step *)
Fixpoint chain_class (cur_m cur_s : str) (ops : list (meth * list arg)) : Z :=
  match ops with
  | [] => 0
  | (m, a) :: ops' =>
      match call_model m (RLit cur_m) a, call_spec m (RLit cur_s) a with
      | Some rm, Some rs =>
          if res_eqb rm rs then
            chain_class (match rm with VStr u => u | _ => cur_m end)
                        (match rs with VStr u => u | _ => cur_s end) ops'
          else classify m (RLit cur_m) a
      | _, _ => 0
      end
  end.

(* ---------- effectful conversions ---------- *)
Definition step_eqb (a b : res * list Z) : bool := res_eqb (fst a) (fst b) && zlist_eqb (snd a) (snd b).

Definition model_step (st : option meth * erecv * list earg) : option (res * list Z) :=
  let '(mo, er, ea) := st in effect_step plan_model this_last_model call_model m_fromCharCode mo er ea.
Definition spec_step (st : option meth * erecv * list earg) : option (res * list Z) :=
  let '(mo, er, ea) := st in effect_step (fun m _ ea => plan_spec m ea) (fun _ => false) call_spec fromCharCode mo er ea.

Fixpoint all_steps (f : option meth * erecv * list earg -> option (res * list Z))
         (l : list (option meth * erecv * list earg)) : option (list (res * list Z)) :=
  match l with
  | [] => Some []
  | st :: l' => match f st, all_steps f l' with Some r, Some rs => Some (r :: rs) | _, _ => None end
  end.

Definition plain_of (e : earg) : arg :=
  match e with EPlain a => a | EObj _ sv _ _ _ => AStr sv end.
(* class of the first deviating step: 9 when the conversion logs differ, else as for a plain call *)
Fixpoint effect_class (l : list (option meth * erecv * list earg)) : Z :=
  match l with
  | [] => 0
  | st :: l' =>
      match model_step st, spec_step st with
      | Some a, Some b =>
          if step_eqb a b then effect_class l'
          else if negb (zlist_eqb (snd a) (snd b)) then 9
          else match st with
               | (Some m, er, ea) =>
                   classify m (match er with ERLit u => RLit u | ERObj _ sv _ => RObj sv end) (map plain_of ea)
               | (None, _, _) => 2
               end
      | _, _ => 0
      end
  end.

(* ---------- a replaced String.prototype.toString ---------- *)
(* otto wraps a primitive receiver of a member call in a String object and then converts that
   object with the (replaced) toString. *)
Definition patch_model (m : meth) (r : recv) (x : str) : recv :=
  match r with RLit _ => RLit x | RStrObj _ => RStrObj x | _ => r end.
(* ES5: ToString of a primitive is the primitive; of a String object it calls toString *)
Definition patch_spec (r : recv) (x : str) : recv :=
  match r with RStrObj _ => RStrObj x | _ => r end.

(* ---------- index properties of String objects ---------- *)
Definition model_obj (u : str) := step_obj define_model own_keys_model call_model u.
Definition spec_obj (u : str) := step_obj define_spec own_keys call_spec u.
(* class of a property history: that of a deviating method call if there is one, else 11
   (defineProperty on an index below the length is accepted and hides the code unit) *)
Fixpoint props_class (u : str) (ops : list oop) : Z :=
  match ops with
  | [] => 11
  | OCall m a :: ops' =>
      match call_model m (RStrObj u) a, call_spec m (RStrObj u) a with
      | Some x, Some y => if res_eqb x y then props_class u ops' else classify m (RStrObj u) a
      | _, _ => props_class u ops'
      end
  | OCallPrim m a :: ops' =>
      match call_model m (RLit u) a, call_spec m (RLit u) a with
      | Some x, Some y => if res_eqb x y then props_class u ops' else classify m (RLit u) a
      | _, _ => props_class u ops'
      end
  | _ :: ops' => props_class u ops'
  end.

Definition triple_eqb (a b : Z * Z * Z) : bool :=
  let '(a1, a2, a3) := a in let '(b1, b2, b3) := b in (a1 =? b1) && (a2 =? b2) && (a3 =? b3).

Definition verdict (c : case) : Z * Z :=
  match c with
  | CCall m r args obs => call_verdict m r args obs
  | CFrom args obs =>
      match m_fromCharCode args, fromCharCode args with
      | Some mo, Some sp => judge res_eqb obs (VStr mo) (VStr sp) 2
      | _, _ => declined
      end
  | CCmp a b ab ba aa =>
      (* 15.5.4.9 leaves the order implementation-defined; what is required of it (a total
         order, 0 exactly on equal strings) is proved of the model's order in Proofs.v *)
      let mo := (m_localeCompare a b, m_localeCompare b a, m_localeCompare a a) in
      judge triple_eqb (ab, ba, aa) mo mo 0
  | CChain u ops obs =>
      match chain call_model u ops, chain call_spec u ops with
      | Some mo, Some sp => judge (list_eqb res_eqb) obs mo sp (chain_class u u ops)
      | _, _ => declined
      end
  | CEffect steps obs =>
      match all_steps model_step steps, all_steps spec_step steps with
      | Some mo, Some sp => judge (list_eqb step_eqb) obs mo sp (effect_class steps)
      | _, _ => declined
      end
  | CProps u ops obs =>
      match run_obj (model_obj u) empty_state ops, run_obj (spec_obj u) empty_state ops with
      | Some mo, Some sp => judge (list_eqb res_eqb) obs mo sp (props_class u ops)
      | _, _ => declined
      end
  | CPatched x m r args obs =>
      match r with
      | RLit _ | RStrObj _ | RCallStr _ =>
          match call_model m (patch_model m r x) args, call_spec m (patch_spec r x) args with
          | Some mo, Some sp =>
              judge res_eqb obs mo sp
                    (match call_model m r args, call_spec m r args with
                     | Some a, Some b => if res_eqb a b then 10 else classify m r args
                     | _, _ => 10
                     end)
          | _, _ => declined
          end
      | _ => declined
      end
  end.
