(* correspondence cases for C17: what the harness observed on the real
   interpreter (Copy(), scripts on the original, on copies, on copies of
   copies and on replica runtimes that replayed the same history) against
   Model (otto's cloner with its deviations) and Spec (a copy is an
   isomorphic, disjoint heap; it answers every script like a replica) *)
From Coq Require Import ZArith Bool List.
From Otto Require Import Common.Corr.
From Otto Require Export C17.Model C17.Spec.
Import ListNotations.
Open Scope Z_scope.

(* one observation: which runtime (0 = original, k > 0 = a copy), which
   observation program (0 = generic; 1 = script dump of the user heap; 2 = the results of calling
   every parameterless script function of the heap, each attributed to a runtime; 3 = one
   feature's observations between single accessor invocations; 201 = the regression witness
   of the repaired f.caller finding), the text it returned there, and the text it returned on
   that runtime's replica (a fresh runtime that replayed the same scripts) *)
Definition obs := (Z * Z * list Z * list Z)%type.

Inductive case :=
(* black box: feature codes of the setup history, did Copy() return, observations *)
| CBlack (hist : list Z) (copy_ok : bool) (o : list obs)
(* a dumped heap of the original, the dumped heap of its copy, the candidate
   renaming and the roots; [hook] = true when identities are Go pointers (then
   disjointness is a fact about the real address space) *)
| CDump (hook : bool) (h h' : heap) (phi : list (Z * Z)) (roots : list Z)
(* verif-hook dump of a whole runtime: the model cloner must predict whether
   Copy() panics and, if not, produce a heap isomorphic to the real copy *)
| CRuntime (eval_name : Z) (h : heap) (rt : runtime) (copy_ok : bool) (h' : heap)
           (phi : list (Z * Z)) (rt' : runtime).

(* ---- black box ---- *)
(* No deviation of Copy() is left to model: what a script returns on a copy is what it
   returns on the replica.  Feature codes 101 (a live closure of a function with a parameter
   named `arguments`), 102 / 103 (global `eval` deleted, bound to a non-object, bound to
   another function) and 104 (functions that inspect f.caller; observation 201) were the
   witnesses of findings repaired by 4582d68, 1f3ee72 and b9d7aab: they are ordinary
   features and regression cases now. *)
Definition model_copy_ok (hist : list Z) : bool := true.

Definition model_obs (hist : list Z) (o : obs) : list Z := snd o.

Definition black_class (hist : list Z) : Z := 0.

Definition real_of (o : obs) : list Z := snd (fst o).
Definition repl_of (o : obs) : list Z := snd o.

Definition outcome_eqb (a b : bool * list (list Z)) : bool :=
  Bool.eqb (fst a) (fst b) && list_eqb zlist_eqb (snd a) (snd b).

(* when Copy() does not return there is nothing to observe on a copy *)
Definition on_original (o : obs) : bool := fst (fst (fst o)) =? 0.

Definition black_verdict (hist : list Z) (copy_ok : bool) (os : list obs) : Z * Z :=
  let impl := (copy_ok, map real_of os) in
  let spec := (true, map repl_of os) in
  let model := if model_copy_ok hist then (true, map (model_obs hist) os)
               else (false, map repl_of (filter on_original os)) in
  judge outcome_eqb impl model spec (black_class hist).

(* ---- dumped heaps ---- *)
Fixpoint maxkey {A} (m : list (Z * A)) (acc : Z) : Z :=
  match m with
  | [] => acc
  | (k, _) :: m' => maxkey m' (Z.max acc k)
  end.

(* run the model cloner on the dumped original and check that what it builds is
   isomorphic to the real copy: the renaming model-copy -> real-copy is the
   composition of the model's memo table (inverted) with the candidate phi *)
Definition model_matches (h h' : heap) (phi : list (Z * Z)) (roots : list Z) : option bool :=
  let n0 := Z.max (maxkey h 0) (maxkey h' 0) + 1 in
  match clone_roots h (S (length h)) roots n0 with
  | Ok s =>
      let psi := map (fun e => (snd e, app_memo phi (fst e))) (memo s) in
      Some (nodupb (keys psi) && nodupb (vals psi) && forallb (check_entry (out s) h' psi) psi
            && (Z.of_nat (length (memo s)) =? Z.of_nat (length phi)))
  | Fuel => None
  | Panic => Some false
  end.

Definition dump_verdict (hook : bool) (h h' : heap) (phi : list (Z * Z)) (roots : list Z) : Z * Z :=
  match model_matches h h' phi roots with
  | None => declined
  | Some m =>
      let covered := forallb (fun r => mem r (keys phi)) roots in
      judge Bool.eqb (check_iso h h' phi && covered && m) true true 0
  end.

(* ---- whole runtime through the verif hook ---- *)
Definition rt_eqb (a b : runtime) : bool :=
  (rt_global a =? rt_global b) && zlist_eqb (rt_fields a) (rt_fields b) && (rt_eval a =? rt_eval b)
  && zlist_eqb (rt_cfg a) (rt_cfg b).

(* observable outcome of Copy(): None = panic; Some b = returned, and b says
   whether the result is the isomorphic image of the original, runtime record included *)
Definition runtime_verdict (eval_name : Z) (h : heap) (rt : runtime) (copy_ok : bool)
           (h' : heap) (phi : list (Z * Z)) (rt' : runtime) : Z * Z :=
  let n0 := Z.max (maxkey h 0) (maxkey h' 0) + 1 in
  let fuel := S (length h) in
  let roots := rt_global rt :: rt_fields rt ++ [rt_eval rt] in
  let impl : option bool :=
    if copy_ok then
      Some (check_iso h h' phi && forallb (fun r => mem r (keys phi)) roots
            && rt_eqb rt' (rename_rt (app_memo phi) rt))
    else None in
  let spec : option bool := Some true in
  match clone_runtime h fuel rt n0 with
  | RFuel => declined
  | RPanic => judge (option_eqb Bool.eqb) impl None spec 0
  | ROk hm mm rtm =>
      (* the model's copy and runtime record against the real ones *)
      let psi := map (fun e => (snd e, app_memo phi (fst e))) mm in
      let same := nodupb (keys psi) && nodupb (vals psi) && forallb (check_entry hm h' psi) psi
                  && rt_eqb rt' (rename_rt (app_memo psi) rtm) in
      judge (option_eqb Bool.eqb) impl (Some (copy_ok && same)) spec 0
  end.

Definition verdict (c : case) : Z * Z :=
  match c with
  | CBlack hist ok os => black_verdict hist ok os
  | CDump hook h h' phi roots => dump_verdict hook h h' phi roots
  | CRuntime en h rt ok h' phi rt' => runtime_verdict en h rt ok h' phi rt'
  end.
