(* C17 — the cloner's result put together with the frame theorems: what
   Copy() returns answers every observation program like the original and is
   isolated from it in both directions; otto's deviations as refutations. *)
From Coq Require Import List ZArith Bool Lia.
From Otto Require Import C17.Model C17.Spec C17.Proofs C17.ProofsClone.
Import ListNotations.
Open Scope Z_scope.

Theorem clone_disjoint : forall bad h fuel roots n0 s,
  (forall l, In l (keys h) -> l < n0) ->
  clone_roots bad h fuel roots n0 = Ok s -> disjoint h (out s).
Proof.
  intros bad h fuel roots n0 s Hlt H.
  destruct (clone_roots_iso _ _ _ _ _ _ H) as (_ & _ & Hkv & Hrange & _).
  intros l Hl Hl'. apply Hkv in Hl'. apply Hrange in Hl'. specialize (Hlt l Hl). lia.
Qed.

Theorem clone_equivalent : forall bad h fuel roots n0 s q,
  clone_roots bad h fuel roots n0 = Ok s ->
  observe (out s) (map (app_memo (memo s)) roots) q = observe h roots q.
Proof.
  intros bad h fuel roots n0 s q H.
  destruct (clone_roots_iso _ _ _ _ _ _ H) as (Hiso & Hroots & _).
  now apply iso_observational_equiv.
Qed.

Theorem clone_isolated : forall bad h fuel roots n0 s,
  (forall l, In l (keys h) -> l < n0) -> closed h (keys h) ->
  clone_roots bad h fuel roots n0 = Ok s ->
  let store := h ++ out s in
  (forall ops, ops_ok store (keys h) ops ->
     forall rs q, incl rs (keys (out s)) -> observe (exec store ops) rs q = observe store rs q) /\
  (forall ops, ops_ok store (keys (out s)) ops ->
     forall rs q, incl rs (keys h) -> observe (exec store ops) rs q = observe store rs q).
Proof.
  intros bad h fuel roots n0 s Hlt Hcl H store.
  pose proof (clone_disjoint _ _ _ _ _ _ Hlt H) as Hdis.
  destruct (clone_roots_iso _ _ _ _ _ _ H) as (Hiso & _ & Hkv & _ & ND).
  assert (Hcov : forall l', In l' (keys (out s)) -> In l' (vals (memo s))) by (intro; apply Hkv).
  destruct (copy_separated _ _ _ Hiso Hdis Hcl Hcov ND) as (C1 & C2 & O1 & O2 & S1 & S2).
  split; intros ops Hok rs q Hin.
  - destruct (isolation ops _ _ _ O2 C2 S1 Hok) as (_ & _ & _ & _ & E). now apply E.
  - destruct (isolation ops _ _ _ O1 C1 S2 Hok) as (_ & _ & _ & _ & E). now apply E.
Qed.

(* ---- otto's deviations ---- *)

(* a function stash without arguments object (parameter named `arguments`) held by a closure *)
Definition h_argparam : heap :=
  [(1, CObj (mkObj None [(7, PData (VRef 2) 7)] 1 true PNone));
   (2, CObj (mkObj None [] 2 true (PFun 5 (Some 3))));
   (3, CFn None [(9, VPrim 100 1, 4)] None [])].

Theorem argparam_refuted :
  exists h roots, clone_roots otto_bad h 10 roots 100 = Panic /\
                  exists s, clone_roots no_bad h 10 roots 100 = Ok s.
Proof. exists h_argparam, [1]. split; [vm_compute; reflexivity | eexists; vm_compute; reflexivity]. Qed.

(* the global property `eval` (name 7) rebound: to a primitive, and to another function *)
Definition h_evalgone : heap :=
  [(1, CObj (mkObj None [(7, PData (VPrim 100 1) 7)] 1 true PNone));
   (2, CObj (mkObj None [] 2 true (PNative 1)))].
Definition h_evalswap : heap :=
  [(1, CObj (mkObj None [(7, PData (VRef 3) 7); (8, PData (VRef 2) 7)] 1 true PNone));
   (2, CObj (mkObj None [] 2 true (PNative 1)));
   (3, CObj (mkObj None [] 2 true (PNative 2)))].

Theorem evalgone_refuted :
  exists h rt, clone_runtime_otto 7 h 10 rt 100 = RPanic /\
               exists h' phi rt', clone_runtime_spec h 10 rt 100 = ROk h' phi rt'.
Proof.
  exists h_evalgone, (mkRt 1 [] 2). split; [vm_compute; reflexivity | do 3 eexists; vm_compute; reflexivity].
Qed.

Theorem evalswap_refuted :
  exists h rt h1 phi1 rt1 h2 phi2 rt2,
    clone_runtime_otto 7 h 10 rt 100 = ROk h1 phi1 rt1 /\
    clone_runtime_spec h 10 rt 100 = ROk h2 phi2 rt2 /\
    rt_eval rt1 <> app_memo phi1 (rt_eval rt) /\ rt_eval rt2 = app_memo phi2 (rt_eval rt).
Proof.
  exists h_evalswap, (mkRt 1 [] 2). do 6 eexists.
  split; [vm_compute; reflexivity|]. split; [vm_compute; reflexivity|]. split; [vm_compute; discriminate | vm_compute; reflexivity].
Qed.

(* ---- copies of copies: isomorphisms compose ---- *)
Definition compose (phi psi : list (loc * loc)) : list (loc * loc) :=
  map (fun e => (fst e, app_memo psi (snd e))) phi.

Lemma keys_compose : forall phi psi, keys (compose phi psi) = keys phi.
Proof. intros. unfold compose, keys. rewrite map_map. apply map_ext. now intros [a b]. Qed.

Lemma vals_compose : forall phi psi, vals (compose phi psi) = map (app_memo psi) (vals phi).
Proof. intros. unfold compose, vals. rewrite !map_map. apply map_ext. now intros [a b]. Qed.

Lemma lookup_compose : forall phi psi r,
  lookup (compose phi psi) r = option_map (app_memo psi) (lookup phi r).
Proof.
  induction phi as [|[a b] phi IH]; intros psi r; [reflexivity|].
  cbn [compose map lookup fst snd]. destruct (r =? a); [reflexivity | apply IH].
Qed.

Lemma app_memo_compose : forall phi psi r, In r (keys phi) ->
  app_memo (compose phi psi) r = app_memo psi (app_memo phi r).
Proof.
  intros phi psi r Hr. unfold app_memo at 1 3. rewrite lookup_compose.
  destruct (Proofs.In_keys_lookup _ _ _ Hr) as [v E]. now rewrite E.
Qed.

Lemma NoDup_map_inj_on : forall (f : Z -> Z) l,
  (forall a b, In a l -> In b l -> f a = f b -> a = b) -> NoDup l -> NoDup (map f l).
Proof.
  induction l as [|x l IH]; intros Hinj ND; [constructor|].
  inversion ND as [|? ? Hn ND']; subst. cbn [map]. constructor.
  - intro Hin. apply in_map_iff in Hin as [y [E Hy]]. apply Hn.
    rewrite (Hinj x y); auto; [now left | now right].
  - apply IH; auto. intros a b Ha Hb. apply Hinj; now right.
Qed.

Theorem iso_compose : forall h h' h'' phi psi,
  iso h h' phi -> iso h' h'' psi -> (forall l', In l' (vals phi) -> In l' (keys psi)) ->
  iso h h'' (compose phi psi).
Proof.
  intros h h' h'' phi psi (NDk & NDv & H1) (NDk2 & NDv2 & H2) Hcov.
  split; [now rewrite keys_compose|]. split.
  - rewrite vals_compose. apply NoDup_map_inj_on; [|assumption].
    intros a b Ha Hb E. eapply Proofs.app_memo_inj; eauto.
  - intros l l'' Hin. unfold compose in Hin. apply in_map_iff in Hin as [[l0 l'] [E Hin]].
    cbn [fst snd] in E. inversion E; subst l0 l''. clear E.
    destruct (H1 _ _ Hin) as (c & Hc & Hrefs & Hc').
    assert (Hl' : In l' (keys psi)).
    { apply Hcov. change l' with (snd (l, l')). unfold vals. now apply in_map. }
    destruct (H2 _ _ (Proofs.app_memo_vals _ _ Hl')) as (c' & Hc2 & _ & Hc2').
    rewrite Hc' in Hc2. inversion Hc2; subst c'. clear Hc2.
    exists c. split; [assumption|]. split; [now rewrite keys_compose|].
    rewrite Hc2'. f_equal. rewrite Proofs.map_cell_comp.
    apply map_cell_ext. intros r Hr. symmetry. apply app_memo_compose. now apply Hrefs.
Qed.
