(* C17 — the cloner's result put together with the frame theorems: what
   Copy() returns answers every observation program like the original and is
   isolated from it in both directions; otto's deviations as refutations. *)
From Coq Require Import List ZArith Bool Lia.
From Otto Require Import C17.Model C17.Spec C17.Proofs C17.ProofsClone.
Import ListNotations.
Open Scope Z_scope.

Theorem clone_disjoint : forall h fuel roots n0 s,
  (forall l, In l (keys h) -> l < n0) ->
  clone_roots h fuel roots n0 = Ok s -> disjoint h (out s).
Proof.
  intros h fuel roots n0 s Hlt H.
  destruct (clone_roots_iso _ _ _ _ _ H) as (_ & _ & Hkv & Hrange & _).
  intros l Hl Hl'. apply Hkv in Hl'. apply Hrange in Hl'. specialize (Hlt l Hl). lia.
Qed.

Theorem clone_equivalent : forall h fuel roots n0 s q,
  clone_roots h fuel roots n0 = Ok s ->
  observe (out s) (map (app_memo (memo s)) roots) q = observe h roots q.
Proof.
  intros h fuel roots n0 s q H.
  destruct (clone_roots_iso _ _ _ _ _ H) as (Hiso & Hroots & _).
  now apply iso_observational_equiv.
Qed.

Theorem clone_isolated : forall h fuel roots n0 s,
  (forall l, In l (keys h) -> l < n0) -> closed h (keys h) ->
  clone_roots h fuel roots n0 = Ok s ->
  let store := h ++ out s in
  (forall ops, ops_ok store (keys h) ops ->
     forall rs q, incl rs (keys (out s)) -> observe (exec store ops) rs q = observe store rs q) /\
  (forall ops, ops_ok store (keys (out s)) ops ->
     forall rs q, incl rs (keys h) -> observe (exec store ops) rs q = observe store rs q).
Proof.
  intros h fuel roots n0 s Hlt Hcl H store.
  pose proof (clone_disjoint _ _ _ _ _ Hlt H) as Hdis.
  destruct (clone_roots_iso _ _ _ _ _ H) as (Hiso & _ & Hkv & _ & ND).
  assert (Hcov : forall l', In l' (keys (out s)) -> In l' (vals (memo s))) by (intro; apply Hkv).
  destruct (copy_separated _ _ _ Hiso Hdis Hcl Hcov ND) as (C1 & C2 & O1 & O2 & S1 & S2).
  split; intros ops Hok rs q Hin.
  - destruct (isolation ops _ _ _ O2 C2 S1 Hok) as (_ & _ & _ & _ & E). now apply E.
  - destruct (isolation ops _ _ _ O1 C1 S2 Hok) as (_ & _ & _ & _ & E). now apply E.
Qed.

(* ---- Copy() always returns: the cloner cannot fail on a heap without dangling pointers ---- *)
Lemma clone_list_no_panic : forall (self : loc -> st -> res) ls,
  (forall r, In r ls -> forall s, self r s <> Panic) ->
  forall s, clone_list self ls s <> Panic.
Proof.
  intros self. induction ls as [|a ls IH]; intros Hs s; cbn [clone_list]; [discriminate|].
  destruct (self a s) as [s1| |] eqn:E.
  - apply IH. intros r Hr. apply Hs. now right.
  - discriminate.
  - exfalso. apply (Hs a (or_introl eq_refl) s E).
Qed.

Lemma clone_loc_no_panic : forall h, closed h (keys h) ->
  forall fuel l s, In l (keys h) -> clone_loc h fuel l s <> Panic.
Proof.
  intros h Hcl. induction fuel as [|n IH]; intros l s Hl; cbn [clone_loc]; [discriminate|].
  unfold step. destruct (lookup (memo s) l); [discriminate|].
  destruct (In_keys_lookup _ _ _ Hl) as [c Ec]. rewrite Ec.
  match goal with |- context [clone_list ?f ?ls ?s0] =>
    pose proof (clone_list_no_panic f ls) as Hnp; destruct (clone_list f ls s0) eqn:E end;
    try discriminate.
  exfalso. eapply Hnp; [|exact E]. intros r Hr s'. apply IH. eapply Hcl; eauto.
Qed.

Theorem clone_total : forall h fuel roots n0,
  closed h (keys h) -> (forall r, In r roots -> In r (keys h)) -> (length h < fuel)%nat ->
  exists s, clone_roots h fuel roots n0 = Ok s.
Proof.
  intros h fuel roots n0 Hcl Hroots Hf.
  destruct (clone_roots h fuel roots n0) as [s| |] eqn:E; [eauto| |].
  - exfalso. now apply (clone_roots_enough_fuel h fuel roots n0 Hf).
  - exfalso. unfold clone_roots in E. revert E. apply clone_list_no_panic.
    intros r Hr s. apply clone_loc_no_panic; auto.
Qed.

(* ---- the runtime record: every field, the eval intrinsic included, is the renamed original ---- *)
Theorem clone_runtime_correct : forall h fuel rt n0 h' phi rt',
  clone_runtime h fuel rt n0 = ROk h' phi rt' ->
  iso h h' phi /\ rt' = rename_rt (app_memo phi) rt /\
  In (rt_global rt) (keys phi) /\ (forall f, In f (rt_fields rt) -> In f (keys phi)) /\
  In (rt_eval rt) (keys phi) /\
  ((forall l, In l (keys h) -> l < n0) -> disjoint h h').
Proof.
  intros h fuel rt n0 h' phi rt' H. unfold clone_runtime in H.
  destruct (clone_roots h fuel (rt_global rt :: rt_fields rt ++ [rt_eval rt]) n0) as [s| |] eqn:E;
    try discriminate.
  inversion H; subst h' phi rt'. clear H.
  destruct (clone_roots_iso _ _ _ _ _ E) as (Hiso & Hroots & _).
  split; [assumption|]. split; [reflexivity|]. split; [apply Hroots; now left|].
  split; [intros f Hf; apply Hroots; right; apply in_or_app; now left|].
  split; [apply Hroots; right; apply in_or_app; right; now left|].
  intro Hlt. eapply clone_disjoint; eauto.
Qed.

Theorem clone_runtime_total : forall h fuel rt n0,
  closed h (keys h) -> In (rt_global rt) (keys h) -> (forall f, In f (rt_fields rt) -> In f (keys h)) ->
  In (rt_eval rt) (keys h) -> (length h < fuel)%nat ->
  exists h' phi rt', clone_runtime h fuel rt n0 = ROk h' phi rt'.
Proof.
  intros h fuel rt n0 Hcl Hg Hf He Hfuel. unfold clone_runtime.
  destruct (clone_total h fuel (rt_global rt :: rt_fields rt ++ [rt_eval rt]) n0 Hcl) as [s E]; [|assumption|].
  - intros r [Hr | Hr]; [now subst|]. apply in_app_or in Hr as [Hr | [Hr | []]]; [now apply Hf | now subst].
  - rewrite E. eauto.
Qed.

(* the heaps that used to make Copy() panic or mislay eval (regression witnesses):
   a function stash without arguments object held by a closure; the global property
   `eval` (name 7) rebound to a primitive and to another function *)
Definition h_argparam : heap :=
  [(1, CObj (mkObj None [(7, PData (VRef 2) 7)] 1 true PNone));
   (2, CObj (mkObj None [] 2 true (PFun 5 (Some 3))));
   (3, CFn None [(9, VPrim 100 1, 4)] None [])].
Definition h_evalgone : heap :=
  [(1, CObj (mkObj None [(7, PData (VPrim 100 1) 7)] 1 true PNone));
   (2, CObj (mkObj None [] 2 true (PNative 1)))].
Definition h_evalswap : heap :=
  [(1, CObj (mkObj None [(7, PData (VRef 3) 7); (8, PData (VRef 2) 7)] 1 true PNone));
   (2, CObj (mkObj None [] 2 true (PNative 1)));
   (3, CObj (mkObj None [] 2 true (PNative 2)))].

(* ---- copies of copies: isomorphisms compose ---- *)
Definition compose (phi psi : list (loc * loc)) : list (loc * loc) :=
  map (fun e => (fst e, app_memo psi (snd e))) phi.

Lemma keys_compose : forall phi psi, keys (compose phi psi) = keys phi.
Proof. intros. unfold compose, keys. rewrite map_map. apply map_ext. now intros [a b]. Qed.

Lemma vals_compose : forall phi psi, vals (compose phi psi) = map (app_memo psi) (vals phi).
Proof. intros. unfold compose, vals. rewrite !map_map. apply map_ext. now intros [a b]. Qed.

Lemma lookup_compose : forall phi psi r,
  lookup (compose phi psi) r = option_map (app_memo psi) (lookup phi r).
Proof.
  induction phi as [|[a b] phi IH]; intros psi r; [reflexivity|].
  cbn [compose map lookup fst snd]. destruct (r =? a); [reflexivity | apply IH].
Qed.

Lemma app_memo_compose : forall phi psi r, In r (keys phi) ->
  app_memo (compose phi psi) r = app_memo psi (app_memo phi r).
Proof.
  intros phi psi r Hr. unfold app_memo at 1 3. rewrite lookup_compose.
  destruct (Proofs.In_keys_lookup _ _ _ Hr) as [v E]. now rewrite E.
Qed.

Lemma NoDup_map_inj_on : forall (f : Z -> Z) l,
  (forall a b, In a l -> In b l -> f a = f b -> a = b) -> NoDup l -> NoDup (map f l).
Proof.
  induction l as [|x l IH]; intros Hinj ND; [constructor|].
  inversion ND as [|? ? Hn ND']; subst. cbn [map]. constructor.
  - intro Hin. apply in_map_iff in Hin as [y [E Hy]]. apply Hn.
    rewrite (Hinj x y); auto; [now left | now right].
  - apply IH; auto. intros a b Ha Hb. apply Hinj; now right.
Qed.

Theorem iso_compose : forall h h' h'' phi psi,
  iso h h' phi -> iso h' h'' psi -> (forall l', In l' (vals phi) -> In l' (keys psi)) ->
  iso h h'' (compose phi psi).
Proof.
  intros h h' h'' phi psi (NDk & NDv & H1) (NDk2 & NDv2 & H2) Hcov.
  split; [now rewrite keys_compose|]. split.
  - rewrite vals_compose. apply NoDup_map_inj_on; [|assumption].
    intros a b Ha Hb E. eapply Proofs.app_memo_inj; eauto.
  - intros l l'' Hin. unfold compose in Hin. apply in_map_iff in Hin as [[l0 l'] [E Hin]].
    cbn [fst snd] in E. inversion E; subst l0 l''. clear E.
    destruct (H1 _ _ Hin) as (c & Hc & Hrefs & Hc').
    assert (Hl' : In l' (keys psi)).
    { apply Hcov. change l' with (snd (l, l')). unfold vals. now apply in_map. }
    destruct (H2 _ _ (Proofs.app_memo_vals _ _ Hl')) as (c' & Hc2 & _ & Hc2').
    rewrite Hc' in Hc2. inversion Hc2; subst c'. clear Hc2.
    exists c. split; [assumption|]. split; [now rewrite keys_compose|].
    rewrite Hc2'. f_equal. rewrite Proofs.map_cell_comp.
    apply map_cell_ext. intros r Hr. symmetry. apply app_memo_compose. now apply Hrefs.
Qed.

(* ---- holders frozen before Copy() whose members are accessors over captured state ----
   1 = a plain root; 2 = frozen holder with a getter and a primitive; 6 = frozen holder with
   getter and setter; 7 = frozen holder with a setter only; 3, 4 = the accessor functions,
   closing over the function stash 5 that holds the mutable counter *)
Definition h_frozen : heap :=
  [(1, CObj (mkObj None [(10, PData (VRef 2) 2); (11, PData (VRef 6) 2); (12, PData (VRef 7) 2)] 1 true PNone));
   (2, CObj (mkObj None [(20, PAcc (Some 3) None 2); (21, PData (VPrim 100 1) 2)] 1 false PNone));
   (3, CObj (mkObj None [] 2 true (PFun 50 (Some 5))));
   (4, CObj (mkObj None [] 2 true (PFun 51 (Some 5))));
   (5, CFn None [(30, VPrim 100 0, 4)] None []);
   (6, CObj (mkObj None [(22, PAcc (Some 3) (Some 4) 0)] 1 false PNone));
   (7, CObj (mkObj None [(23, PAcc None (Some 4) 0)] 1 false PNone))].

(* what a cloner does that keeps the source's property table for a "constant" holder:
   the copy of cell l is the original cell, references not renamed *)
Definition keep_source_cell (h : heap) (s : st) (l : loc) : heap :=
  match lookup h l with
  | Some c => update (out s) (app_memo (memo s) l) c
  | None => out s
  end.

(* ---- what the copy of an object keeps literally: the names and order of its properties,
   their attribute modes, class, extensibility, and the whole parameter-name table of an
   arguments object (entries blanked by `delete arguments[i]` included, wherever they are) ---- *)
Definition prop_mode (p : prop) : Z := match p with PData _ m => m | PAcc _ _ m => m end.
Definition args_table (p : payload) : option (list Z) :=
  match p with PArgs _ names => Some names | _ => None end.

Theorem clone_keeps_shape : forall h fuel roots n0 s l o,
  clone_roots h fuel roots n0 = Ok s -> In l (keys (memo s)) -> lookup h l = Some (CObj o) ->
  exists o', lookup (out s) (app_memo (memo s) l) = Some (CObj o') /\
    map fst (o_props o') = map fst (o_props o) /\
    map (fun np => prop_mode (snd np)) (o_props o') = map (fun np => prop_mode (snd np)) (o_props o) /\
    o_class o' = o_class o /\ o_ext o' = o_ext o /\
    args_table (o_pay o') = args_table (o_pay o).
Proof.
  intros h fuel roots n0 s l o H Hl Hc.
  destruct (clone_roots_iso _ _ _ _ _ H) as ((NDk & NDv & Hiso) & _).
  destruct (Hiso _ _ (Proofs.app_memo_vals _ _ Hl)) as (c & Hc' & _ & Hout).
  rewrite Hc in Hc'. inversion Hc'; subst c.
  exists (map_obj (app_memo (memo s)) o). split; [exact Hout|].
  destruct o as [pr ps cl ex pay]. unfold map_obj, o_props, o_class, o_ext, o_pay.
  split; [rewrite map_map; apply map_ext; now intros [n p]|].
  split; [rewrite map_map; apply map_ext; intros [n p]; now destruct p|].
  split; [reflexivity|]. split; [reflexivity|]. now destruct pay.
Qed.
