(* C17 — the memoising depth-first cloner of Model.v produces a graph
   isomorphism (Spec.iso) onto fresh locations; fuel monotonicity; agreement of
   the otto cloner with the panic-free cloner on successful runs; fuel
   sufficiency. *)
From Coq Require Import List ZArith Bool Lia.
From Otto Require Import C17.Model C17.Spec.
Import ListNotations.
Open Scope Z_scope.

(* ------------------------------------------------------------------ *)
(* association lists                                                    *)
(* ------------------------------------------------------------------ *)
Section Assoc.
Context {A : Type}.
Implicit Types m : list (Z * A).

Lemma keys_cons : forall k (v : A) m, keys ((k, v) :: m) = k :: keys m.
Proof. reflexivity. Qed.
Lemma vals_cons : forall k (v : A) m, vals ((k, v) :: m) = v :: vals m.
Proof. reflexivity. Qed.
Lemma keys_app : forall m m', keys (m ++ m') = keys m ++ keys m'.
Proof. intros; unfold keys; apply map_app. Qed.
Lemma vals_app : forall m m', vals (m ++ m') = vals m ++ vals m'.
Proof. intros; unfold vals; apply map_app. Qed.

Lemma in_keys : forall m k v, In (k, v) m -> In k (keys m).
Proof. intros m k v H. unfold keys. change k with (fst (k, v)). apply in_map; exact H. Qed.

Lemma in_vals : forall m k v, In (k, v) m -> In v (vals m).
Proof. intros m k v H. unfold vals. change v with (snd (k, v)). apply in_map; exact H. Qed.

Lemma keys_In : forall m k, In k (keys m) -> exists v, In (k, v) m.
Proof.
  unfold keys; intros m k H. apply in_map_iff in H.
  destruct H as [[k' v] [E H]]. simpl in E; subst. eauto.
Qed.

Lemma vals_In : forall m v, In v (vals m) -> exists k, In (k, v) m.
Proof.
  unfold vals; intros m v H. apply in_map_iff in H.
  destruct H as [[k v'] [E H]]. simpl in E; subst. eauto.
Qed.

Lemma lookup_In : forall m k v, lookup m k = Some v -> In (k, v) m.
Proof.
  induction m as [|[k' a] m IH]; intros k v H; simpl in H.
  - discriminate.
  - destruct (Z.eqb_spec k k').
    + inversion H; subst. left; reflexivity.
    + right; auto.
Qed.

Lemma lookup_Some_keys : forall m k v, lookup m k = Some v -> In k (keys m).
Proof. intros. eapply in_keys. apply lookup_In. eassumption. Qed.

Lemma lookup_None : forall m k, lookup m k = None -> ~ In k (keys m).
Proof.
  induction m as [|[k' a] m IH]; intros k H; simpl in H.
  - intros [].
  - rewrite keys_cons. destruct (Z.eqb_spec k k').
    + discriminate.
    + intros [E|E]; [congruence | exact (IH _ H E)].
Qed.

Lemma In_lookup_nodup : forall m k v, NoDup (keys m) -> In (k, v) m -> lookup m k = Some v.
Proof.
  induction m as [|[k' a] m IH]; intros k v ND H.
  - destruct H.
  - rewrite keys_cons in ND. apply NoDup_cons_iff in ND. destruct ND as [Hn ND].
    simpl. destruct H as [H|H].
    + inversion H; subst. rewrite Z.eqb_refl. reflexivity.
    + destruct (Z.eqb_spec k k').
      * subst. exfalso. apply Hn. eapply in_keys; eauto.
      * auto.
Qed.

Lemma vals_inj : forall m a b v, NoDup (vals m) -> In (a, v) m -> In (b, v) m -> a = b.
Proof.
  induction m as [|[k' x] m IH]; intros a b v ND Ha Hb.
  - destruct Ha.
  - rewrite vals_cons in ND. apply NoDup_cons_iff in ND. destruct ND as [Hn ND].
    destruct Ha as [Ha|Ha]; destruct Hb as [Hb|Hb].
    + congruence.
    + inversion Ha; subst. exfalso. apply Hn. eapply in_vals; eauto.
    + inversion Hb; subst. exfalso. apply Hn. eapply in_vals; eauto.
    + eapply IH; eauto.
Qed.

End Assoc.

Lemma NoDup_app_r : forall {A} (l l' : list A), NoDup (l ++ l') -> NoDup l'.
Proof.
  induction l as [|a l IH]; intros l' H; simpl in H.
  - exact H.
  - apply NoDup_cons_iff in H. apply IH. apply H.
Qed.

Lemma app_memo_ext : forall m' m r,
  NoDup (keys (m' ++ m)) -> In r (keys m) -> app_memo (m' ++ m) r = app_memo m r.
Proof.
  intros m' m r ND H. apply keys_In in H. destruct H as [v H].
  unfold app_memo.
  rewrite (In_lookup_nodup (m' ++ m) r v ND) by (apply in_or_app; right; exact H).
  rewrite (In_lookup_nodup m r v); auto.
  rewrite keys_app in ND. apply NoDup_app_r in ND. exact ND.
Qed.

(* ------------------------------------------------------------------ *)
(* map_cell only looks at the references of the cell                    *)
(* ------------------------------------------------------------------ *)
Section MapExt.
Variables f g : loc -> loc.

Lemma map_val_ext : forall v,
  (forall r, In r (refs_val v) -> f r = g r) -> map_val f v = map_val g v.
Proof.
  destruct v as [t d | l]; intros H.
  - reflexivity.
  - unfold map_val. rewrite H; [reflexivity | left; reflexivity].
Qed.

Lemma opt_map_ext : forall o : option loc,
  (forall r, In r (refs_opt o) -> f r = g r) -> option_map f o = option_map g o.
Proof.
  destruct o as [l|]; intros H.
  - unfold option_map. rewrite H; [reflexivity | left; reflexivity].
  - reflexivity.
Qed.

Lemma map_prop_ext : forall p,
  (forall r, In r (refs_prop p) -> f r = g r) -> map_prop f p = map_prop g p.
Proof.
  destruct p as [v m | a b m]; cbn [map_prop refs_prop]; intros H.
  - f_equal. apply map_val_ext; auto.
  - f_equal; apply opt_map_ext; intros; apply H; apply in_or_app; auto.
Qed.

Lemma map_vals_ext : forall vs,
  (forall r, In r (refs_vals vs) -> f r = g r) -> map (map_val f) vs = map (map_val g) vs.
Proof.
  intros vs H. apply map_ext_in. intros v Hv. apply map_val_ext.
  intros r Hr. apply H. unfold refs_vals. apply in_flat_map. eauto.
Qed.

Lemma map_props_ext : forall ps : list (Z * prop),
  (forall r, In r (refs_props ps) -> f r = g r) ->
  map (fun np => (fst np, map_prop f (snd np))) ps = map (fun np => (fst np, map_prop g (snd np))) ps.
Proof.
  intros ps H. apply map_ext_in. intros np Hnp. f_equal. apply map_prop_ext.
  intros r Hr. apply H. unfold refs_props. apply in_flat_map. eauto.
Qed.

Lemma map_vars_ext : forall vs : list dclprop,
  (forall r, In r (refs_vars vs) -> f r = g r) -> map (map_var f) vs = map (map_var g) vs.
Proof.
  intros vs H. apply map_ext_in. intros [[n v] m] Hx. unfold map_var. f_equal. f_equal.
  apply map_val_ext. intros r Hr. apply H. unfold refs_vars. apply in_flat_map.
  exists (n, v, m). split; auto.
Qed.

Lemma map_payload_ext : forall p,
  (forall r, In r (refs_payload p) -> f r = g r) -> map_payload f p = map_payload g p.
Proof.
  destruct p; cbn [map_payload refs_payload]; intros H; try reflexivity.
  - f_equal.
    + apply H; left; reflexivity.
    + apply map_val_ext. intros; apply H. right. apply in_or_app; auto.
    + apply map_vals_ext. intros; apply H. right. apply in_or_app; auto.
  - f_equal. apply opt_map_ext. auto.
  - f_equal. apply opt_map_ext. auto.
Qed.

Lemma map_cell_ext : forall c,
  (forall r, In r (refs_cell c) -> f r = g r) -> map_cell f c = map_cell g c.
Proof.
  destruct c as [o | outer vars | outer vars args idx | outer o]; cbn [map_cell refs_cell]; intros H.
  - f_equal. unfold map_obj. f_equal.
    + apply opt_map_ext. intros; apply H. apply in_or_app; auto.
    + apply map_props_ext. intros; apply H. apply in_or_app; right; apply in_or_app; auto.
    + apply map_payload_ext. intros; apply H. apply in_or_app; right; apply in_or_app; auto.
  - f_equal.
    + apply opt_map_ext. intros; apply H. apply in_or_app; auto.
    + apply map_vars_ext. intros; apply H. apply in_or_app; auto.
  - f_equal.
    + apply opt_map_ext. intros; apply H. apply in_or_app; right; apply in_or_app; auto.
    + apply map_vars_ext. intros; apply H. apply in_or_app; auto.
    + apply opt_map_ext. intros; apply H. apply in_or_app; right; apply in_or_app; auto.
  - f_equal.
    + apply opt_map_ext. intros; apply H. apply in_or_app; auto.
    + apply H. apply in_or_app; right; left; reflexivity.
Qed.

End MapExt.

Lemma map_cell_memo_ext : forall m' m c,
  NoDup (keys (m' ++ m)) -> (forall r, In r (refs_cell c) -> In r (keys m)) ->
  map_cell (app_memo m) c = map_cell (app_memo (m' ++ m)) c.
Proof.
  intros m' m c ND H. apply map_cell_ext. intros r Hr. symmetry. apply app_memo_ext; auto.
Qed.

(* ------------------------------------------------------------------ *)
(* the invariant                                                        *)
(* ------------------------------------------------------------------ *)
Section Inv.
Variables (h : heap) (n0 : Z).

Record WF (s : st) : Prop := mkWF {
  wf_nk : NoDup (keys (memo s));
  wf_nv : NoDup (vals (memo s));
  wf_n0 : n0 <= next s;
  wf_rng : forall v, In v (vals (memo s)) -> n0 <= v < next s;
  wf_no : NoDup (keys (out s));
  wf_ov : forall k, In k (keys (out s)) -> In k (vals (memo s));
  wf_black : forall l' c', In (l', c') (out s) ->
     exists l c, In (l, l') (memo s) /\ lookup h l = Some c /\
                 (forall r, In r (refs_cell c) -> In r (keys (memo s))) /\
                 c' = map_cell (app_memo (memo s)) c }.

(* allocated but not yet filled *)
Definition grey (s : st) (v : loc) : Prop := In v (vals (memo s)) /\ ~ In v (keys (out s)).

Record Post (s s2 : st) : Prop := mkPost {
  p_wf : WF s2;
  p_memo : exists m, memo s2 = m ++ memo s;
  p_next : next s <= next s2;
  p_grey : forall v, grey s2 v -> grey s v;
  p_out : forall k, In k (keys (out s2)) -> In k (keys (out s)) \/ next s <= k }.

Lemma Post_refl : forall s, WF s -> Post s s.
Proof.
  intros s W. constructor; auto.
  - exists []. reflexivity.
  - lia.
Qed.

Lemma Post_trans : forall s s1 s2, Post s s1 -> Post s1 s2 -> Post s s2.
Proof.
  intros s s1 s2 [W1 [m1 M1] N1 G1 O1] [W2 [m2 M2] N2 G2 O2]. constructor.
  - exact W2.
  - exists (m2 ++ m1). rewrite M2, M1. apply app_assoc.
  - lia.
  - auto.
  - intros k Hk. destruct (O2 k Hk) as [Hk1|Hk1].
    + destruct (O1 k Hk1); [left; assumption | right; assumption].
    + right; lia.
Qed.

Definition Spec_loc (self : loc -> st -> res) : Prop :=
  forall l s s2, WF s -> self l s = Ok s2 -> Post s s2 /\ In l (keys (memo s2)).

Lemma clone_list_spec : forall self, Spec_loc self ->
  forall ls s s2, WF s -> clone_list self ls s = Ok s2 ->
    Post s s2 /\ forall l, In l ls -> In l (keys (memo s2)).
Proof.
  intros self Hself. induction ls as [|a ls IH]; intros s s2 W H; simpl in H.
  - inversion H; subst. split; [apply Post_refl; auto | intros l []].
  - destruct (self a s) as [s1| |] eqn:E; try discriminate.
    destruct (Hself a s s1 W E) as [P1 K1].
    destruct (IH s1 s2 (p_wf _ _ P1) H) as [P2 K2].
    split.
    + eapply Post_trans; eauto.
    + intros l [Hl|Hl].
      * subst. destruct (p_memo _ _ P2) as [m M]. rewrite M, keys_app.
        apply in_or_app; right; exact K1.
      * auto.
Qed.

Lemma WF_alloc : forall s l,
  WF s -> lookup (memo s) l = None ->
  WF (mkSt (out s) ((l, next s) :: memo s) (next s + 1)).
Proof.
  intros s l W Em. destruct W as [NK NV N0 RNG NO OV BL].
  constructor; cbn [out memo next].
  - rewrite keys_cons. apply NoDup_cons_iff. split; [apply lookup_None; exact Em | exact NK].
  - rewrite vals_cons. apply NoDup_cons_iff. split; [|exact NV].
    intros Hin. apply RNG in Hin. lia.
  - lia.
  - intros v Hv. rewrite vals_cons in Hv. destruct Hv as [Hv|Hv].
    + subst. lia.
    + apply RNG in Hv. lia.
  - exact NO.
  - intros k Hk. rewrite vals_cons. right. auto.
  - intros l' c' Hin. destruct (BL l' c' Hin) as [l0 [c0 [Hm [Hh [Hr Hc]]]]].
    exists l0, c0. split; [right; exact Hm|]. split; [exact Hh|]. split.
    + intros r Hrr. rewrite keys_cons. right. auto.
    + rewrite Hc. apply (map_cell_memo_ext [(l, next s)] (memo s) c0).
      * simpl app. rewrite keys_cons. apply NoDup_cons_iff.
        split; [apply lookup_None; exact Em | exact NK].
      * exact Hr.
Qed.

Lemma step_spec : forall self, Spec_loc self -> Spec_loc (step h self).
Proof.
  intros self Hself l s s3 W H. unfold step in H.
  destruct (lookup (memo s) l) as [l0|] eqn:Em.
  { inversion H; subst. split; [apply Post_refl; auto | eapply lookup_Some_keys; eauto]. }
  destruct (lookup h l) as [c|] eqn:Eh; [|discriminate].
  destruct (clone_list self (refs_cell c) (mkSt (out s) ((l, next s) :: memo s) (next s + 1)))
    as [s2| |] eqn:Ec; try discriminate.
  inversion H; subst s3; clear H.
  pose proof (WF_alloc s l W Em) as W1.
  destruct (clone_list_spec self Hself _ _ _ W1 Ec) as [P R].
  destruct P as [W2 [m M] N G O]. cbn [out memo next] in M, N, G, O.
  assert (Hfresh : ~ In (next s) (keys (out s2))).
  { intros Hin. destruct (O _ Hin) as [Hk|Hk]; [|lia].
    apply (wf_ov _ W) in Hk. apply (wf_rng _ W) in Hk. lia. }
  assert (Hgrey1 : forall v, grey (mkSt (out s) ((l, next s) :: memo s) (next s + 1)) v ->
                             v = next s \/ grey s v).
  { intros v [Hv1 Hv2]. cbn [out memo next] in Hv1, Hv2. rewrite vals_cons in Hv1.
    destruct Hv1 as [Hv1|Hv1]; [left; auto | right; split; auto]. }
  split.
  - constructor; cbn [out memo next].
    + (* WF *)
      destruct W2 as [NK NV N0 RNG NO OV BL].
      constructor; cbn [out memo next]; auto.
      * rewrite keys_cons. apply NoDup_cons_iff. split; assumption.
      * intros k Hk. rewrite keys_cons in Hk. destruct Hk as [Hk|Hk]; [|auto].
        subst k. rewrite M, vals_app. apply in_or_app; right. rewrite vals_cons. left; reflexivity.
      * intros l' c' [Hin|Hin].
        -- inversion Hin; subst l' c'. exists l, c.
           split; [rewrite M; apply in_or_app; right; left; reflexivity|].
           split; [exact Eh|]. split; [exact R | reflexivity].
        -- auto.
    + exists (m ++ [(l, next s)]). rewrite M, <- app_assoc. reflexivity.
    + lia.
    + intros v [Hv1 Hv2]. cbn [out memo next] in Hv1, Hv2. rewrite keys_cons in Hv2.
      assert (Hg : grey s2 v).
      { split; [exact Hv1 | intros Hc; apply Hv2; right; exact Hc]. }
      apply G in Hg. apply Hgrey1 in Hg. destruct Hg as [Hg|Hg]; [|exact Hg].
      exfalso. apply Hv2. left. auto.
    + intros k Hk. rewrite keys_cons in Hk. destruct Hk as [Hk|Hk].
      * right; lia.
      * destruct (O _ Hk) as [Hk1|Hk1]; [left; exact Hk1 | right; lia].
  - cbn [memo]. rewrite M, keys_app. apply in_or_app; right. rewrite keys_cons. left; reflexivity.
Qed.

Lemma clone_loc_spec : forall fuel, Spec_loc (clone_loc h fuel).
Proof.
  induction fuel as [|n IH].
  - intros l s s2 _ H. discriminate.
  - simpl. apply step_spec. exact IH.
Qed.

Lemma WF_init : WF (init n0).
Proof.
  constructor; cbn [init out memo next]; try (constructor; fail); try lia.
  - intros v [].
  - intros k [].
  - intros l' c' [].
Qed.

End Inv.

(* ------------------------------------------------------------------ *)
(* MAIN THEOREM                                                         *)
(* ------------------------------------------------------------------ *)
Theorem clone_roots_iso : forall h fuel roots n0 s,
  clone_roots h fuel roots n0 = Ok s ->
  iso h (out s) (memo s) /\
  (forall r, In r roots -> In r (keys (memo s))) /\
  (forall l', In l' (keys (out s)) <-> In l' (vals (memo s))) /\
  (forall l', In l' (vals (memo s)) -> n0 <= l' < next s) /\
  NoDup (keys (out s)).
Proof.
  intros h fuel roots n0 s H. unfold clone_roots in H.
  destruct (clone_list_spec h n0 _ (clone_loc_spec h n0 fuel) roots (init n0) s
              (WF_init h n0) H) as [P R].
  destruct P as [W _ _ G _].
  assert (Hblack : forall v, In v (vals (memo s)) -> In v (keys (out s))).
  { intros v Hv. destruct (in_dec Z.eq_dec v (keys (out s))) as [Hi|Hi]; [exact Hi|].
    exfalso. destruct (G v (conj Hv Hi)) as [[] _]. }
  destruct W as [NK NV N0 RNG NO OV BL].
  split; [|split; [exact R|split; [|split; [exact RNG|exact NO]]]].
  - split; [exact NK|]. split; [exact NV|].
    intros l l' Hin.
    assert (Hk : In l' (keys (out s))) by (apply Hblack; eapply in_vals; eauto).
    apply keys_In in Hk. destruct Hk as [c' Hc'].
    destruct (BL l' c' Hc') as [l0 [c [Hm [Hh [Hr Hc]]]]].
    assert (l0 = l) by (eapply vals_inj; eauto). subst l0.
    exists c. split; [exact Hh|]. split; [exact Hr|].
    rewrite <- Hc. apply In_lookup_nodup; auto.
  - intros l'. split; [apply OV | apply Hblack].
Qed.

(* ------------------------------------------------------------------ *)
(* (a) fuel monotonicity                                                *)
(* ------------------------------------------------------------------ *)
Definition res_le (self self' : loc -> st -> res) : Prop :=
  forall l s, self l s <> Fuel -> self' l s = self l s.

Lemma clone_list_mono : forall self self', res_le self self' ->
  forall ls s, clone_list self ls s <> Fuel -> clone_list self' ls s = clone_list self ls s.
Proof.
  intros self self' Hle. induction ls as [|a ls IH]; intros s H; simpl in *.
  - reflexivity.
  - destruct (self a s) as [s1| |] eqn:E.
    + rewrite (Hle a s) by congruence. rewrite E. apply IH; auto.
    + congruence.
    + rewrite (Hle a s) by congruence. rewrite E. reflexivity.
Qed.

Lemma step_mono : forall h self self', res_le self self' ->
  res_le (step h self) (step h self').
Proof.
  intros h self self' Hle l s H. unfold step in *.
  destruct (lookup (memo s) l); auto.
  destruct (lookup h l) as [c|]; auto.
  rewrite (clone_list_mono _ _ Hle); [reflexivity|].
  intro E; rewrite E in H; congruence.
Qed.

Lemma clone_loc_mono : forall h n m, (n <= m)%nat ->
  res_le (clone_loc h n) (clone_loc h m).
Proof.
  intros h. induction n as [|n IH]; intros m Hm l s H.
  - simpl in H; congruence.
  - destruct m as [|m]; [lia|]. simpl. apply step_mono; [|exact H].
    apply IH. lia.
Qed.

Theorem clone_loc_fuel_mono : forall h n l s s',
  clone_loc h n l s = Ok s' -> forall m, (n <= m)%nat -> clone_loc h m l s = Ok s'.
Proof.
  intros h n l s s' H m Hm. rewrite (clone_loc_mono h n m Hm l s); [exact H|].
  rewrite H; discriminate.
Qed.

Theorem clone_loc_fuel_mono_panic : forall h n l s,
  clone_loc h n l s = Panic -> forall m, (n <= m)%nat -> clone_loc h m l s = Panic.
Proof.
  intros h n l s H m Hm. rewrite (clone_loc_mono h n m Hm l s); [exact H|].
  rewrite H; discriminate.
Qed.

Theorem clone_roots_fuel_mono_gen : forall h n roots n0,
  clone_roots h n roots n0 <> Fuel ->
  forall m, (n <= m)%nat -> clone_roots h m roots n0 = clone_roots h n roots n0.
Proof.
  intros h n roots n0 H m Hm. unfold clone_roots in *.
  apply clone_list_mono; [|exact H]. apply clone_loc_mono; exact Hm.
Qed.

Theorem clone_roots_fuel_mono : forall h n roots n0 s,
  clone_roots h n roots n0 = Ok s ->
  forall m, (n <= m)%nat -> clone_roots h m roots n0 = Ok s.
Proof.
  intros h n roots n0 s H m Hm. rewrite (clone_roots_fuel_mono_gen h n roots n0); auto.
  rewrite H; discriminate.
Qed.

Theorem clone_roots_fuel_mono_panic : forall h n roots n0,
  clone_roots h n roots n0 = Panic ->
  forall m, (n <= m)%nat -> clone_roots h m roots n0 = Panic.
Proof.
  intros h n roots n0 H m Hm. rewrite (clone_roots_fuel_mono_gen h n roots n0); auto.
  rewrite H; discriminate.
Qed.

(* ------------------------------------------------------------------ *)
(* (c) fuel sufficiency                                                 *)
(* ------------------------------------------------------------------ *)
Lemma mem_In : forall x l, mem x l = true <-> In x l.
Proof.
  intros x l. unfold mem. rewrite existsb_exists. split.
  - intros [y [Hy E]]. apply Z.eqb_eq in E. subst; exact Hy.
  - intros H. exists x. split; [exact H | apply Z.eqb_refl].
Qed.

Lemma filter_length_le : forall {A} (p q : A -> bool) l,
  (forall x, In x l -> q x = true -> p x = true) ->
  (length (filter q l) <= length (filter p l))%nat.
Proof.
  intros A p q. induction l as [|a l IH]; intros H; simpl.
  - lia.
  - assert (IH' : (length (filter q l) <= length (filter p l))%nat).
    { apply IH. intros x Hx. apply H. right; exact Hx. }
    destruct (q a) eqn:Eq.
    + rewrite (H a (or_introl eq_refl) Eq). simpl. lia.
    + destruct (p a); simpl; lia.
Qed.

Lemma filter_length_lt : forall {A} (p q : A -> bool) l x,
  (forall y, In y l -> q y = true -> p y = true) ->
  In x l -> p x = true -> q x = false ->
  (length (filter q l) < length (filter p l))%nat.
Proof.
  intros A p q. induction l as [|a l IH]; intros x H Hx Hp Hq; simpl.
  - destruct Hx.
  - assert (Hl : forall y, In y l -> q y = true -> p y = true).
    { intros y Hy. apply H. right; exact Hy. }
    destruct Hx as [Hx|Hx].
    + subst a. rewrite Hp, Hq. simpl.
      pose proof (filter_length_le p q l Hl). lia.
    + pose proof (IH x Hl Hx Hp Hq) as IH'.
      destruct (q a) eqn:Eq.
      * rewrite (H a (or_introl eq_refl) Eq). simpl. lia.
      * destruct (p a); simpl; lia.
Qed.

(* keys of the heap not yet entered in the memo table *)
Definition cnt (h : heap) (m : list (loc * loc)) : nat :=
  length (filter (fun k => negb (mem k (keys m))) (keys h)).

Lemma cnt_le : forall h m m', incl (keys m) (keys m') -> (cnt h m' <= cnt h m)%nat.
Proof.
  intros h m m' Hincl. unfold cnt. apply filter_length_le.
  intros x _ Hx. apply negb_true_iff in Hx. apply negb_true_iff.
  destruct (mem x (keys m)) eqn:E; [|reflexivity].
  apply mem_In in E. apply Hincl in E. apply mem_In in E. congruence.
Qed.

Lemma cnt_lt : forall h m l (v : loc) c,
  lookup h l = Some c -> lookup m l = None -> (cnt h ((l, v) :: m) < cnt h m)%nat.
Proof.
  intros h m l v c Hh Hm. unfold cnt. apply filter_length_lt with (x := l).
  - intros y _ Hy. apply negb_true_iff in Hy. apply negb_true_iff.
    destruct (mem y (keys m)) eqn:E; [|reflexivity].
    apply mem_In in E. assert (E' : In y (keys ((l, v) :: m))) by (rewrite keys_cons; right; exact E).
    apply mem_In in E'. congruence.
  - eapply lookup_Some_keys; eauto.
  - apply negb_true_iff. destruct (mem l (keys m)) eqn:E; [|reflexivity].
    apply mem_In in E. exfalso. exact (lookup_None _ _ Hm E).
  - apply negb_false_iff. apply mem_In. rewrite keys_cons. left; reflexivity.
Qed.

Lemma cnt_bound : forall h m, (cnt h m <= length h)%nat.
Proof.
  intros h m. unfold cnt.
  assert (F : forall (p : Z -> bool) l, (length (filter p l) <= length l)%nat).
  { intros p. induction l as [|a l IH]; simpl; [lia|]. destruct (p a); simpl; lia. }
  eapply Nat.le_trans; [apply F|]. unfold keys. rewrite map_length. apply Nat.le_refl.
Qed.

Definition memo_grows (self : loc -> st -> res) : Prop :=
  forall l s s', self l s = Ok s' -> exists m, memo s' = m ++ memo s.

Lemma clone_list_memo_grows : forall self, memo_grows self ->
  forall ls s s', clone_list self ls s = Ok s' -> exists m, memo s' = m ++ memo s.
Proof.
  intros self Hs. induction ls as [|a ls IH]; intros s s' H; simpl in H.
  - inversion H; subst. exists []; reflexivity.
  - destruct (self a s) as [s1| |] eqn:E; try discriminate.
    destruct (Hs _ _ _ E) as [m1 M1]. destruct (IH _ _ H) as [m2 M2].
    exists (m2 ++ m1). rewrite M2, M1. apply app_assoc.
Qed.

Lemma step_memo_grows : forall h self, memo_grows self -> memo_grows (step h self).
Proof.
  intros h self Hs l s s' H. unfold step in H.
  destruct (lookup (memo s) l).
  { inversion H; subst. exists []; reflexivity. }
  destruct (lookup h l) as [c|]; [|discriminate].
  destruct (clone_list self (refs_cell c) _) as [s2| |] eqn:E; try discriminate.
  inversion H; subst; clear H. cbn [memo].
  destruct (clone_list_memo_grows self Hs _ _ _ E) as [m M]. cbn [memo] in M.
  exists (m ++ [(l, next s)]). rewrite M, <- app_assoc. reflexivity.
Qed.

Lemma clone_loc_memo_grows : forall h n, memo_grows (clone_loc h n).
Proof.
  intros h. induction n as [|n IH].
  - intros l s s' H; discriminate.
  - simpl. apply step_memo_grows. exact IH.
Qed.

Lemma clone_list_no_fuel : forall h self fuel,
  (forall l s, (cnt h (memo s) < fuel)%nat -> self l s <> Fuel) ->
  memo_grows self ->
  forall ls s, (cnt h (memo s) < fuel)%nat -> clone_list self ls s <> Fuel.
Proof.
  intros h self fuel Hnf Hg. induction ls as [|a ls IH]; intros s Hc; simpl.
  - discriminate.
  - destruct (self a s) as [s1| |] eqn:E.
    + apply IH. destruct (Hg _ _ _ E) as [m M].
      assert ((cnt h (memo s1) <= cnt h (memo s))%nat); [|lia].
      apply cnt_le. rewrite M, keys_app. apply incl_appr. apply incl_refl.
    + exfalso. exact (Hnf a s Hc E).
    + discriminate.
Qed.

Lemma clone_loc_no_fuel : forall h fuel l s,
  (cnt h (memo s) < fuel)%nat -> clone_loc h fuel l s <> Fuel.
Proof.
  intros h. induction fuel as [|n IH]; intros l s Hc.
  - lia.
  - simpl. unfold step.
    destruct (lookup (memo s) l) eqn:Em; [discriminate|].
    destruct (lookup h l) as [c|] eqn:Eh; [|discriminate].
      destruct (clone_list (clone_loc h n) (refs_cell c) _) as [s2| |] eqn:E; try discriminate.
    exfalso. revert E.
    apply (clone_list_no_fuel h (clone_loc h n) n IH (clone_loc_memo_grows h n)).
    cbn [memo]. eapply Nat.lt_le_trans; [apply (cnt_lt h (memo s) l (next s) c Eh Em)|].
    apply Nat.lt_succ_r. exact Hc.
Qed.

Theorem clone_roots_enough_fuel : forall h fuel roots n0,
  (length h < fuel)%nat -> clone_roots h fuel roots n0 <> Fuel.
Proof.
  intros h fuel roots n0 Hf. unfold clone_roots.
  apply (clone_list_no_fuel h (clone_loc h fuel) fuel).
  - intros l s. apply clone_loc_no_fuel.
  - apply clone_loc_memo_grows.
  - pose proof (cnt_bound h (memo (init n0))). lia.
Qed.

(* every clone that is long enough terminates with a definite outcome, and the
   outcome no longer depends on the fuel *)
Corollary clone_roots_fuel_irrelevant : forall h roots n0 f1 f2,
  (length h < f1)%nat -> (length h < f2)%nat ->
  clone_roots h f1 roots n0 = clone_roots h f2 roots n0.
Proof.
  intros h roots n0 f1 f2 H1 H2.
  destruct (Nat.le_ge_cases f1 f2) as [L|L].
  - symmetry. apply clone_roots_fuel_mono_gen; [apply clone_roots_enough_fuel; exact H1 | exact L].
  - apply clone_roots_fuel_mono_gen; [apply clone_roots_enough_fuel; exact H2 | exact L].
Qed.

Print Assumptions clone_roots_iso.
Print Assumptions clone_roots_fuel_mono.
Print Assumptions clone_roots_enough_fuel.
